/-
  Validity is invariant under a RENAMING of node ids.

  `Spec.evalFuel` reads a schema through a store and resolution tables indexed by `NodeId`.  Two schemas that live at
  different ids — in one store or in two — and that look alike (`EnvSim R e₁ e₂`: along a relation `R` on ids, related
  ids hold schema objects with the same assertion keywords and `R`-related subschemas, and the resolution tables send
  related ids to related ids) accept the same instances with the same evaluated sets: `evalFuel_sim`.
  (`Inv.validateFuel_map` / `Inv.evalFuel_sim` keep the ids FIXED; this file is the missing half: the ids move.)

  Used by C20 (the clone of a tree validates like the tree) and C05 (so does the tree read back from its JSON text).
-/
import JSV.Proofs.InvPerm5
import JSV.Proofs.MshTree
import JSV.Proofs.RefineCheck
namespace JSV
namespace Iso
open Go (ListRel OptRel KeyRel)

/-! ## what `evalStep` reads of one schema object -/

/-- a `map[string][]string` as `evalStep` sees it: nil map = empty map, nil list = empty list -/
def depView (m : Option (List (String × Option (List String)))) : Option (List (String × Option (List String))) :=
  some ((m.getD []).map fun e => (e.1, some (e.2.getD [])))

/-- the projection of a schema object on the keywords `Spec.evalStep` reads that are not schema-valued — every other
    field is zeroed —, with the nil / empty distinctions it does not make erased (`required`, the two string-list maps) -/
def scalarView (n : Node) : Node :=
  { ref := n.ref, dynamicRef := n.dynamicRef, type := n.type, types := n.types, enum := n.enum, const := n.const,
    multipleOf := n.multipleOf, minimum := n.minimum, maximum := n.maximum,
    exclusiveMinimum := n.exclusiveMinimum, exclusiveMaximum := n.exclusiveMaximum,
    minLength := n.minLength, maxLength := n.maxLength, pattern := n.pattern,
    minItems := n.minItems, maxItems := n.maxItems, uniqueItems := n.uniqueItems,
    minContains := n.minContains, maxContains := n.maxContains,
    minProperties := n.minProperties, maxProperties := n.maxProperties,
    required := some (n.required.getD []),
    dependentRequired := depView n.dependentRequired, dependencyStrings := depView n.dependencyStrings }

/-- `n₂` is `n₁` up to the renaming `R` of the subschema ids, as far as `Spec.evalStep` can tell:
    * the same assertion keywords (`scalarView`);
    * every schema-valued keyword `evalStep` reads has the same shape with `R`-related members — lists member by member,
      maps entry by entry with equal keys in the same order; for the keywords where `evalStep` makes no difference
      between nil and empty (`allOf`, `prefixItems`, the maps) only the entry lists are compared; `properties` is only
      ever looked up by name, so it is compared lookup by lookup.
    Not read by `evalStep`, hence unconstrained: `$defs`, `definitions`, `contentSchema`, `$id`, `$anchor`,
    `$dynamicAnchor`, `$schema`, `$vocabulary`, the annotations, `format`, `content*`, Extra, PropertyOrder. -/
structure NodeSim (R : NodeId → NodeId → Prop) (n₁ n₂ : Node) : Prop where
  scal : scalarView n₁ = scalarView n₂
  allOf : ListRel R (n₁.allOf.getD []) (n₂.allOf.getD [])
  anyOf : OptRel (ListRel R) n₁.anyOf n₂.anyOf
  oneOf : OptRel (ListRel R) n₁.oneOf n₂.oneOf
  not : OptRel R n₁.not n₂.not
  if_ : OptRel R n₁.if_ n₂.if_
  then_ : OptRel R n₁.then_ n₂.then_
  else_ : OptRel R n₁.else_ n₂.else_
  prefixItems : ListRel R (n₁.prefixItems.getD []) (n₂.prefixItems.getD [])
  items : OptRel R n₁.items n₂.items
  itemsArray : OptRel (ListRel R) n₁.itemsArray n₂.itemsArray
  additionalItems : OptRel R n₁.additionalItems n₂.additionalItems
  contains : OptRel R n₁.contains n₂.contains
  unevaluatedItems : OptRel R n₁.unevaluatedItems n₂.unevaluatedItems
  properties : ∀ k, OptRel R (Json.lookup k (n₁.properties.getD [])) (Json.lookup k (n₂.properties.getD []))
  patternProperties : ListRel (KeyRel R) (n₁.patternProperties.getD []) (n₂.patternProperties.getD [])
  additionalProperties : OptRel R n₁.additionalProperties n₂.additionalProperties
  propertyNames : OptRel R n₁.propertyNames n₂.propertyNames
  unevaluatedProperties : OptRel R n₁.unevaluatedProperties n₂.unevaluatedProperties
  dependentSchemas : ListRel (KeyRel R) (n₁.dependentSchemas.getD []) (n₂.dependentSchemas.getD [])
  dependencySchemas : ListRel (KeyRel R) (n₁.dependencySchemas.getD []) (n₂.dependencySchemas.getD [])

/-- **The simulation between two Spec environments along `R`.**  Whenever `R a b`:
    * `a` and `b` both hold a schema object, and the two are `NodeSim R`-related — or both are nil;
    * if the object at `a` has a `$ref`, what `refTarget` designates for `a` and for `b` is `R`-related (or undefined on
      both sides);
    * if it has a `$dynamicRef`: the initial targets are `R`-related, the dynamic anchor names are equal, and the walk
      over `R`-related dynamic scopes finds `R`-related schemas (`TablesSim.toEnvSim` derives this from `resource` /
      `dynDecl` mapping related ids to related ids);
    and the two environments have the same draft and the same regexp matcher.
    The table conditions are asked only at objects that use the keyword, so that for reference-free schemas the tables
    are arbitrary. -/
structure EnvSim (R : NodeId → NodeId → Prop) (e₁ e₂ : Spec.Env) : Prop where
  draft : e₁.draft = e₂.draft
  reMatch : e₁.reMatch = e₂.reMatch
  node : ∀ a b, R a b → OptRel (NodeSim R) (e₁.st.get? a) (e₂.st.get? b)
  ref : ∀ a b n, R a b → e₁.st.get? a = some n → n.ref ≠ "" → OptRel R (e₁.refTarget a) (e₂.refTarget b)
  dyn : ∀ a b n, R a b → e₁.st.get? a = some n → n.dynamicRef ≠ "" →
    OptRel R (e₁.dynInitial a) (e₂.dynInitial b) ∧ e₁.dynName a = e₂.dynName b ∧
    ∀ sc₁ sc₂, ListRel R sc₁ sc₂ →
      OptRel R (Spec.dynTarget e₁ sc₁ (e₁.dynName a)) (Spec.dynTarget e₂ sc₂ (e₁.dynName a))

/-- the resolution tables send related ids to related ids (unconditionally) -/
structure TablesSim (R : NodeId → NodeId → Prop) (e₁ e₂ : Spec.Env) : Prop where
  refTarget : ∀ a b, R a b → OptRel R (e₁.refTarget a) (e₂.refTarget b)
  dynInitial : ∀ a b, R a b → OptRel R (e₁.dynInitial a) (e₂.dynInitial b)
  dynName : ∀ a b, R a b → e₁.dynName a = e₂.dynName b
  resource : ∀ a b, R a b → OptRel R (e₁.resource a) (e₂.resource b)
  dynDecl : ∀ r₁ r₂ name, R r₁ r₂ → OptRel R (e₁.dynDecl r₁ name) (e₂.dynDecl r₂ name)

/-! ## small facts about the lifted relations -/

theorem listRel_append {α β} {S : α → β → Prop} : ∀ {l₁ l₂ m₁ m₂}, ListRel S l₁ l₂ → ListRel S m₁ m₂ →
    ListRel S (l₁ ++ m₁) (l₂ ++ m₂)
  | _, _, _, _, .nil, h => h
  | _, _, _, _, .cons h1 h2, h => .cons h1 (listRel_append h2 h)

theorem optRel_isSome {α β} {S : α → β → Prop} {a : Option α} {b : Option β} (h : OptRel S a b) :
    a.isSome = b.isSome := Go.OptRel.isSome_eq h

theorem getD_rel {α β} {S : α → β → Prop} {c : Option (List α)} {c' : Option (List β)}
    (h : OptRel (ListRel S) c c') : ListRel S (c.getD []) (c'.getD []) := Go.getD_rel h

/-! ## the dynamic scope -/

/-- the walk over related dynamic scopes finds related schemas -/
theorem dynTarget_sim {R : NodeId → NodeId → Prop} {e₁ e₂ : Spec.Env}
    (hres : ∀ a b, R a b → OptRel R (e₁.resource a) (e₂.resource b))
    (hdecl : ∀ r₁ r₂ name, R r₁ r₂ → OptRel R (e₁.dynDecl r₁ name) (e₂.dynDecl r₂ name)) (name : String) :
    ∀ {sc₁ sc₂ : List NodeId}, ListRel R sc₁ sc₂ →
      OptRel R (Spec.dynTarget e₁ sc₁ name) (Spec.dynTarget e₂ sc₂ name)
  | _, _, .nil => trivial
  | _, _, .cons (a := a) (b := b) (l := l) (l' := l') h1 h2 => by
    have ih := dynTarget_sim hres hdecl name h2
    unfold Spec.dynTarget at ih ⊢
    simp only [List.findSome?_cons]
    have hr := hres a b h1
    cases h₁ : e₁.resource a with
    | none =>
      cases h₂ : e₂.resource b with
      | none => exact ih
      | some r₂ => rw [h₁, h₂] at hr; exact hr.elim
    | some r₁ =>
      cases h₂ : e₂.resource b with
      | none => rw [h₁, h₂] at hr; exact hr.elim
      | some r₂ =>
        rw [h₁, h₂] at hr
        have hd := hdecl r₁ r₂ name hr
        dsimp only
        cases h₃ : e₁.dynDecl r₁ name with
        | none =>
          cases h₄ : e₂.dynDecl r₂ name with
          | none => exact ih
          | some t₂ => rw [h₃, h₄] at hd; exact hd.elim
        | some t₁ =>
          cases h₄ : e₂.dynDecl r₂ name with
          | none => rw [h₃, h₄] at hd; exact hd.elim
          | some t₂ => rw [h₃, h₄] at hd; exact hd

/-- related schema objects and related tables make a simulation -/
theorem TablesSim.toEnvSim {R : NodeId → NodeId → Prop} {e₁ e₂ : Spec.Env} (ht : TablesSim R e₁ e₂)
    (hd : e₁.draft = e₂.draft) (hre : e₁.reMatch = e₂.reMatch)
    (hn : ∀ a b, R a b → OptRel (NodeSim R) (e₁.st.get? a) (e₂.st.get? b)) : EnvSim R e₁ e₂ where
  draft := hd
  reMatch := hre
  node := hn
  ref := fun a b _ h _ _ => ht.refTarget a b h
  dyn := fun a b _ h _ _ => ⟨ht.dynInitial a b h, ht.dynName a b h,
    fun _ _ hsc => dynTarget_sim ht.resource ht.dynDecl _ hsc⟩

/-! ## the assertions -/

theorem typeOk_view (n : Node) (j : Json) : Spec.typeOk n j = Spec.typeOk (scalarView n) j := rfl
theorem enumOk_view (n : Node) (j : Json) : Spec.enumOk n j = Spec.enumOk (scalarView n) j := rfl
theorem constOk_view (n : Node) (j : Json) : Spec.constOk n j = Spec.constOk (scalarView n) j := rfl
theorem numericOk_view (n : Node) (j : Json) : Spec.numericOk n j = Spec.numericOk (scalarView n) j := rfl
theorem stringOk_view (env : Spec.Env) (n : Node) (j : Json) :
    Spec.stringOk env n j = Spec.stringOk env (scalarView n) j := rfl
theorem arrayLimitsOk_view (n : Node) (j : Json) : Spec.arrayLimitsOk n j = Spec.arrayLimitsOk (scalarView n) j := rfl

theorem depAll_view (m : Option (List (String × Option (List String)))) (has : String → Bool) :
    (((depView m).getD []).all fun x => !has x.1 || (x.2.getD []).all has) =
      ((m.getD []).all fun x => !has x.1 || (x.2.getD []).all has) := by
  unfold depView
  simp only [Option.getD_some, List.all_map]
  rfl

/-- nil / empty `required`, nil / empty string-list maps, nil / empty lists inside them: all the same to
    `objectLimitsOk` -/
theorem objectLimitsOk_view (env : Spec.Env) (n : Node) (j : Json) :
    Spec.objectLimitsOk env n j = Spec.objectLimitsOk env (scalarView n) j := by
  cases j with
  | obj kvs =>
    unfold Spec.objectLimitsOk
    dsimp only
    congr 1
    · congr 1
      show _ = (match (scalarView n).required with | some r => r.all _ | none => true)
      show _ = (match some (n.required.getD []) with | some r => r.all _ | none => true)
      cases n.required <;> rfl
    · cases env.draft
      · exact (depAll_view n.dependencyStrings fun k => (Json.lookup k kvs).isSome).symm
      · exact (depAll_view n.dependentRequired fun k => (Json.lookup k kvs).isSome).symm
  | null => rfl
  | bool _ => rfl
  | num _ => rfl
  | str _ => rfl
  | arr _ => rfl

theorem assertsOf_view (env : Spec.Env) (n : Node) (j : Json) :
    Inv.assertsOf env n j = Inv.assertsOf env (scalarView n) j := by
  unfold Inv.assertsOf
  rw [objectLimitsOk_view env n j]
  rfl

/-- the assertions depend on the environment through the draft and the regexp matcher only -/
theorem assertsOf_env {e₁ e₂ : Spec.Env} (hd : e₁.draft = e₂.draft) (hre : e₁.reMatch = e₂.reMatch) (n : Node)
    (j : Json) : Inv.assertsOf e₁ n j = Inv.assertsOf e₂ n j := by
  unfold Inv.assertsOf Spec.stringOk Spec.objectLimitsOk
  rw [hd, hre]

theorem assertsOf_iso {e₁ e₂ : Spec.Env} (hd : e₁.draft = e₂.draft) (hre : e₁.reMatch = e₂.reMatch) {n₁ n₂ : Node}
    (hv : scalarView n₁ = scalarView n₂) (j : Json) : Inv.assertsOf e₁ n₁ j = Inv.assertsOf e₂ n₂ j := by
  rw [assertsOf_view e₁ n₁, hv, ← assertsOf_view e₁ n₂, assertsOf_env hd hre]

theorem scal_ref {n₁ n₂ : Node} (h : scalarView n₁ = scalarView n₂) : n₁.ref = n₂.ref :=
  show (scalarView n₁).ref = (scalarView n₂).ref from congrArg Node.ref h
theorem scal_dynamicRef {n₁ n₂ : Node} (h : scalarView n₁ = scalarView n₂) : n₁.dynamicRef = n₂.dynamicRef :=
  show (scalarView n₁).dynamicRef = (scalarView n₂).dynamicRef from congrArg Node.dynamicRef h
theorem scal_minContains {n₁ n₂ : Node} (h : scalarView n₁ = scalarView n₂) : n₁.minContains = n₂.minContains :=
  show (scalarView n₁).minContains = (scalarView n₂).minContains from congrArg Node.minContains h
theorem scal_maxContains {n₁ n₂ : Node} (h : scalarView n₁ = scalarView n₂) : n₁.maxContains = n₂.maxContains :=
  show (scalarView n₁).maxContains = (scalarView n₂).maxContains from congrArg Node.maxContains h

/-! ## the keywords that apply subschemas -/

theorem kwAllOf_getD (sub : NodeId → Json → Spec.Out) (n : Node) (j : Json) :
    Spec.kwAllOf sub n j = (Spec.sequence ((n.allOf.getD []).map fun t => sub t j)).map Spec.conj := by
  unfold Spec.kwAllOf
  cases n.allOf <;> rfl

/-- the induction hypothesis: the recursive calls agree on related schemas -/
def SubIso (R : NodeId → NodeId → Prop) (sub₁ sub₂ : NodeId → Json → Spec.Out) : Prop :=
  ∀ t₁ t₂ j, R t₁ t₂ → sub₁ t₁ j = sub₂ t₂ j

section
variable {R : NodeId → NodeId → Prop} {sub₁ sub₂ : NodeId → Json → Spec.Out} (hs : SubIso R sub₁ sub₂)
include hs

theorem map_sub_iso (j : Json) : ∀ {l₁ l₂ : List NodeId}, ListRel R l₁ l₂ →
    (l₁.map fun t => sub₁ t j) = (l₂.map fun t => sub₂ t j)
  | _, _, .nil => rfl
  | _, _, .cons h1 h2 => by simp only [List.map_cons, hs _ _ j h1, map_sub_iso j h2]

theorem map_keyed_iso (j : Json) : ∀ {l₁ l₂ : List (String × NodeId)}, ListRel (KeyRel R) l₁ l₂ →
    (l₁.map fun p => sub₁ p.2 j) = (l₂.map fun p => sub₂ p.2 j)
  | _, _, .nil => rfl
  | _, _, .cons h1 h2 => by simp only [List.map_cons, hs _ _ j h1.2, map_keyed_iso j h2]

theorem inPlace_iso {p₁ p₂ : Bool} (hp : p₁ = p₂) {t₁ t₂ : Option NodeId} (ht : p₁ = true → OptRel R t₁ t₂)
    (j : Json) : Spec.inPlace sub₁ p₁ t₁ j = Spec.inPlace sub₂ p₂ t₂ j := by
  subst hp
  unfold Spec.inPlace
  cases p₁ with
  | false => rfl
  | true =>
    have h := ht rfl
    cases t₁ <;> cases t₂
    · rfl
    · exact h.elim
    · exact h.elim
    · exact hs _ _ j h

theorem map_keyed_iso' {γ : Type} (g : Spec.Out → γ) (j : Json) : ∀ {l₁ l₂ : List (String × NodeId)},
    ListRel (KeyRel R) l₁ l₂ → (l₁.map fun p => g (sub₁ p.2 j)) = (l₂.map fun p => g (sub₂ p.2 j))
  | _, _, .nil => rfl
  | _, _, .cons h1 h2 => by simp only [List.map_cons, hs _ _ j h1.2, map_keyed_iso' g j h2]

theorem kwRef_iso {e₁ e₂ : Spec.Env} {s₁ s₂ : NodeId} {n₁ n₂ : Node} (href : n₁.ref = n₂.ref)
    (ht : n₁.ref ≠ "" → OptRel R (e₁.refTarget s₁) (e₂.refTarget s₂)) (j : Json) :
    Spec.kwRef e₁ sub₁ s₁ n₁ j = Spec.kwRef e₂ sub₂ s₂ n₂ j := by
  unfold Spec.kwRef
  refine inPlace_iso hs (by rw [href]) (fun h => ht fun h0 => ?_) j
  rw [h0] at h
  exact absurd h (by decide)

theorem kwDynamicRef_iso {e₁ e₂ : Spec.Env} {sc₁ sc₂ : List NodeId} {s₁ s₂ : NodeId} {n₁ n₂ : Node}
    (hdr : n₁.dynamicRef = n₂.dynamicRef)
    (hd : n₁.dynamicRef ≠ "" → OptRel R (e₁.dynInitial s₁) (e₂.dynInitial s₂) ∧ e₁.dynName s₁ = e₂.dynName s₂ ∧
      OptRel R (Spec.dynTarget e₁ sc₁ (e₁.dynName s₁)) (Spec.dynTarget e₂ sc₂ (e₁.dynName s₁))) (j : Json) :
    Spec.kwDynamicRef e₁ sub₁ sc₁ s₁ n₁ j = Spec.kwDynamicRef e₂ sub₂ sc₂ s₂ n₂ j := by
  unfold Spec.kwDynamicRef
  rw [← hdr]
  by_cases h : (n₁.dynamicRef != "") = true
  · rw [if_pos h, if_pos h]
    obtain ⟨hi, hn, ht⟩ := hd fun h0 => by rw [h0] at h; exact absurd h (by decide)
    rw [← hn]
    generalize e₁.dynInitial s₁ = i₁ at hi ⊢
    generalize e₂.dynInitial s₂ = i₂ at hi ⊢
    cases i₁ <;> cases i₂
    · rfl
    · exact hi.elim
    · exact hi.elim
    · dsimp only
      apply hs
      split
      · exact hi
      · generalize Spec.dynTarget e₁ sc₁ (e₁.dynName s₁) = d₁ at ht ⊢
        generalize Spec.dynTarget e₂ sc₂ (e₁.dynName s₁) = d₂ at ht ⊢
        cases d₁ <;> cases d₂
        · exact hi
        · exact ht.elim
        · exact ht.elim
        · exact ht
  · rw [if_neg h, if_neg h]

/-- `allOf: []` and no `allOf` are the same to `kwAllOf` -/
theorem kwAllOf_iso {n₁ n₂ : Node} (h : ListRel R (n₁.allOf.getD []) (n₂.allOf.getD [])) (j : Json) :
    Spec.kwAllOf sub₁ n₁ j = Spec.kwAllOf sub₂ n₂ j := by
  rw [kwAllOf_getD, kwAllOf_getD, map_sub_iso hs j h]

theorem kwAnyOf_iso {n₁ n₂ : Node} (h : OptRel (ListRel R) n₁.anyOf n₂.anyOf) (j : Json) :
    Spec.kwAnyOf sub₁ n₁ j = Spec.kwAnyOf sub₂ n₂ j := by
  unfold Spec.kwAnyOf
  generalize n₁.anyOf = o₁ at h ⊢
  generalize n₂.anyOf = o₂ at h ⊢
  cases o₁ <;> cases o₂
  · rfl
  · exact h.elim
  · exact h.elim
  · dsimp only
    rw [map_sub_iso hs j h]

theorem kwOneOf_iso {n₁ n₂ : Node} (h : OptRel (ListRel R) n₁.oneOf n₂.oneOf) (j : Json) :
    Spec.kwOneOf sub₁ n₁ j = Spec.kwOneOf sub₂ n₂ j := by
  unfold Spec.kwOneOf
  generalize n₁.oneOf = o₁ at h ⊢
  generalize n₂.oneOf = o₂ at h ⊢
  cases o₁ <;> cases o₂
  · rfl
  · exact h.elim
  · exact h.elim
  · dsimp only
    rw [map_sub_iso hs j h]

theorem kwNot_iso {n₁ n₂ : Node} (h : OptRel R n₁.not n₂.not) (j : Json) :
    Spec.kwNot sub₁ n₁ j = Spec.kwNot sub₂ n₂ j := by
  unfold Spec.kwNot
  generalize n₁.not = o₁ at h ⊢
  generalize n₂.not = o₂ at h ⊢
  cases o₁ <;> cases o₂
  · rfl
  · exact h.elim
  · exact h.elim
  · dsimp only
    rw [hs _ _ j h]

/-- an optional second application (the `then` / `else` branch) -/
theorem branch_iso (evc : Spec.Ev) (j : Json) : ∀ {b₁ b₂ : Option NodeId}, OptRel R b₁ b₂ →
    (match b₁ with
      | none => some (some evc)
      | some b => (sub₁ b j).map fun (rb : Spec.R) => rb.map fun evb => evc.union evb) =
    (match b₂ with
      | none => some (some evc)
      | some b => (sub₂ b j).map fun (rb : Spec.R) => rb.map fun evb => evc.union evb)
  | none, none, _ => rfl
  | none, some _, h => h.elim
  | some _, none, h => h.elim
  | some _, some _, h => by
    dsimp only
    rw [hs _ _ j h]

theorem kwIf_iso {n₁ n₂ : Node} (hi : OptRel R n₁.if_ n₂.if_) (ht : OptRel R n₁.then_ n₂.then_)
    (he : OptRel R n₁.else_ n₂.else_) (j : Json) : Spec.kwIf sub₁ n₁ j = Spec.kwIf sub₂ n₂ j := by
  unfold Spec.kwIf
  generalize n₁.if_ = o₁ at hi ⊢
  generalize n₂.if_ = o₂ at hi ⊢
  cases o₁ <;> cases o₂
  · rfl
  · exact hi.elim
  · exact hi.elim
  · dsimp only
    rw [hs _ _ j hi]
    cases sub₂ _ j with
    | none => rfl
    | some rc =>
      dsimp only
      cases rc.isSome with
      | true =>
        simp only [↓reduceIte]
        exact branch_iso hs _ j ht
      | false =>
        simp only [Bool.false_eq_true, ↓reduceIte]
        exact branch_iso hs _ j he

end

theorem filter_keyed {R : NodeId → NodeId → Prop} (p : String → Bool) : ∀ {l₁ l₂ : List (String × NodeId)},
    ListRel (KeyRel R) l₁ l₂ → ListRel (KeyRel R) (l₁.filter fun q => p q.1) (l₂.filter fun q => p q.1)
  | _, _, .nil => .nil
  | _, _, .cons (a := a) (b := b) h1 h2 => by
    have hk : a.1 = b.1 := h1.1
    simp only [List.filter_cons, hk]
    split
    · exact .cons h1 (filter_keyed p h2)
    · exact filter_keyed p h2

/-! ## arrays -/

/-- the positional schemas and the schema for the rest are related in both drafts -/
theorem arrayShape_iso {R : NodeId → NodeId → Prop} {e₁ e₂ : Spec.Env} (hd : e₁.draft = e₂.draft) {n₁ n₂ : Node}
    (hn : NodeSim R n₁ n₂) :
    ListRel R (Spec.arrayShape e₁ n₁).1 (Spec.arrayShape e₂ n₂).1 ∧
      OptRel R (Spec.arrayShape e₁ n₁).2 (Spec.arrayShape e₂ n₂).2 := by
  unfold Spec.arrayShape
  rw [hd]
  cases e₂.draft with
  | d2020 => exact ⟨hn.prefixItems, hn.items⟩
  | d7 =>
    dsimp only
    have hia := hn.itemsArray
    generalize n₁.itemsArray = o₁ at hia ⊢
    generalize n₂.itemsArray = o₂ at hia ⊢
    cases o₁ <;> cases o₂
    · exact ⟨.nil, hn.items⟩
    · exact hia.elim
    · exact hia.elim
    · exact ⟨hia, hn.additionalItems⟩

section
variable {R : NodeId → NodeId → Prop} {sub₁ sub₂ : NodeId → Json → Spec.Out} (hs : SubIso R sub₁ sub₂)
include hs

theorem zip_sub_iso : ∀ {l₁ l₂ : List NodeId} (xs : List Json), ListRel R l₁ l₂ →
    ((l₁.zip xs).map fun p => sub₁ p.1 p.2) = ((l₂.zip xs).map fun p => sub₂ p.1 p.2)
  | _, _, _, .nil => rfl
  | _, _, [], .cons _ _ => rfl
  | _, _, x :: xs, .cons h1 h2 => by
    simp only [List.zip_cons_cons, List.map_cons, hs _ _ x h1, zip_sub_iso xs h2]

theorem kwItems_iso {e₁ e₂ : Spec.Env} (hd : e₁.draft = e₂.draft) {n₁ n₂ : Node} (hn : NodeSim R n₁ n₂) (j : Json) :
    Spec.kwItems e₁ sub₁ n₁ j = Spec.kwItems e₂ sub₂ n₂ j := by
  cases j with
  | arr xs =>
    have hsh := arrayShape_iso hd hn
    unfold Spec.kwItems
    dsimp only
    generalize Spec.arrayShape e₁ n₁ = sh₁ at hsh ⊢
    generalize Spec.arrayShape e₂ n₂ = sh₂ at hsh ⊢
    obtain ⟨pre₁, rest₁⟩ := sh₁
    obtain ⟨pre₂, rest₂⟩ := sh₂
    obtain ⟨hpre, hrest⟩ := hsh
    dsimp only at hpre hrest ⊢
    rw [zip_sub_iso hs xs hpre, hpre.length_eq]
    cases rest₁ <;> cases rest₂
    · rfl
    · exact hrest.elim
    · exact hrest.elim
    · dsimp only
      rw [List.map_congr_left fun x _ => hs _ _ x hrest]
      rfl
  | null => rfl
  | bool _ => rfl
  | num _ => rfl
  | str _ => rfl
  | obj _ => rfl

theorem kwContains_iso {n₁ n₂ : Node} (hc : OptRel R n₁.contains n₂.contains)
    (hmin : n₁.minContains = n₂.minContains) (hmax : n₁.maxContains = n₂.maxContains) (j : Json) :
    Spec.kwContains sub₁ n₁ j = Spec.kwContains sub₂ n₂ j := by
  unfold Spec.kwContains
  rw [hmin, hmax]
  generalize n₁.contains = o₁ at hc ⊢
  generalize n₂.contains = o₂ at hc ⊢
  cases j with
  | arr xs =>
    cases o₁ <;> cases o₂
    · rfl
    · exact hc.elim
    · exact hc.elim
    · dsimp only
      rw [List.map_congr_left fun x _ => hs _ _ x hc]
  | null => cases o₁ <;> cases o₂ <;> rfl
  | bool _ => cases o₁ <;> cases o₂ <;> rfl
  | num _ => cases o₁ <;> cases o₂ <;> rfl
  | str _ => cases o₁ <;> cases o₂ <;> rfl
  | obj _ => cases o₁ <;> cases o₂ <;> rfl

theorem kwUnevaluatedItems_iso {n₁ n₂ : Node} (hc : OptRel R n₁.unevaluatedItems n₂.unevaluatedItems) (j : Json)
    (ev : Spec.Ev) : Spec.kwUnevaluatedItems sub₁ n₁ j ev = Spec.kwUnevaluatedItems sub₂ n₂ j ev := by
  unfold Spec.kwUnevaluatedItems
  generalize n₁.unevaluatedItems = o₁ at hc ⊢
  generalize n₂.unevaluatedItems = o₂ at hc ⊢
  cases j with
  | arr xs =>
    cases o₁ <;> cases o₂
    · rfl
    · exact hc.elim
    · exact hc.elim
    · dsimp only
      rw [List.map_congr_left fun x _ => hs _ _ x.1 hc]
  | null => cases o₁ <;> cases o₂ <;> rfl
  | bool _ => cases o₁ <;> cases o₂ <;> rfl
  | num _ => cases o₁ <;> cases o₂ <;> rfl
  | str _ => cases o₁ <;> cases o₂ <;> rfl
  | obj _ => cases o₁ <;> cases o₂ <;> rfl

end

/-! ## objects -/

section
variable {R : NodeId → NodeId → Prop} {sub₁ sub₂ : NodeId → Json → Spec.Out} (hs : SubIso R sub₁ sub₂)
include hs

/-- `properties` is only looked up by name -/
theorem namedL_iso {p₁ p₂ : List (String × NodeId)} (hp : ∀ k, OptRel R (Json.lookup k p₁) (Json.lookup k p₂))
    (kvs : List (String × Json)) : Refine.namedL sub₁ p₁ kvs = Refine.namedL sub₂ p₂ kvs := by
  unfold Refine.namedL
  refine congrArg (fun f => kvs.filterMap f) (funext fun p => ?_)
  have h := hp p.1
  generalize Json.lookup p.1 p₁ = o₁ at h ⊢
  generalize Json.lookup p.1 p₂ = o₂ at h ⊢
  cases o₁ <;> cases o₂
  · rfl
  · exact h.elim
  · exact h.elim
  · simp only [Option.map_some, hs _ _ p.2 h]

theorem patternedL_iso (reMatch : String → String → Bool) {p₁ p₂ : List (String × NodeId)}
    (hp : ListRel (KeyRel R) p₁ p₂) (kvs : List (String × Json)) :
    Refine.patternedL reMatch sub₁ p₁ kvs = Refine.patternedL reMatch sub₂ p₂ kvs := by
  unfold Refine.patternedL
  refine congrArg (fun f => kvs.flatMap f) (funext fun p => ?_)
  exact map_keyed_iso' hs (fun o => (p.1, o)) p.2 (filter_keyed (fun k => reMatch k p.1) hp)

theorem additionalL_iso {t₁ t₂ : NodeId} (ht : R t₁ t₂) (covered : List String) (kvs : List (String × Json)) :
    Refine.additionalL sub₁ t₁ covered kvs = Refine.additionalL sub₂ t₂ covered kvs := by
  unfold Refine.additionalL
  exact List.map_congr_left fun p _ => by rw [hs _ _ p.2 ht]

theorem kwProps_iso {e₁ e₂ : Spec.Env} (hre : e₁.reMatch = e₂.reMatch) {n₁ n₂ : Node}
    (hp : ∀ k, OptRel R (Json.lookup k (n₁.properties.getD [])) (Json.lookup k (n₂.properties.getD [])))
    (hpp : ListRel (KeyRel R) (n₁.patternProperties.getD []) (n₂.patternProperties.getD []))
    (hap : OptRel R n₁.additionalProperties n₂.additionalProperties) (j : Json) :
    Spec.kwProps e₁ sub₁ n₁ j = Spec.kwProps e₂ sub₂ n₂ j := by
  cases j with
  | obj kvs =>
    have hcov : Refine.coveredL e₁.reMatch sub₁ (n₁.properties.getD []) (n₁.patternProperties.getD []) kvs =
        Refine.coveredL e₂.reMatch sub₂ (n₂.properties.getD []) (n₂.patternProperties.getD []) kvs := by
      unfold Refine.coveredL
      rw [namedL_iso hs hp kvs, hre, patternedL_iso hs e₂.reMatch hpp kvs]
    cases h₁ : n₁.additionalProperties with
    | none =>
      cases h₂ : n₂.additionalProperties with
      | none =>
        rw [Refine.kwProps_none e₁ sub₁ n₁ kvs h₁, Refine.kwProps_none e₂ sub₂ n₂ kvs h₂, namedL_iso hs hp kvs, hre,
          patternedL_iso hs e₂.reMatch hpp kvs]
      | some t₂ => rw [h₁, h₂] at hap; exact hap.elim
    | some t₁ =>
      cases h₂ : n₂.additionalProperties with
      | none => rw [h₁, h₂] at hap; exact hap.elim
      | some t₂ =>
        have ht : R t₁ t₂ := by rw [h₁, h₂] at hap; exact hap
        rw [Refine.kwProps_some e₁ sub₁ n₁ kvs t₁ h₁, Refine.kwProps_some e₂ sub₂ n₂ kvs t₂ h₂, hcov,
          additionalL_iso hs ht, namedL_iso hs hp kvs, hre, patternedL_iso hs e₂.reMatch hpp kvs]
  | null => rfl
  | bool _ => rfl
  | num _ => rfl
  | str _ => rfl
  | arr _ => rfl

theorem kwPropertyNames_iso {n₁ n₂ : Node} (hc : OptRel R n₁.propertyNames n₂.propertyNames) (j : Json) :
    Spec.kwPropertyNames sub₁ n₁ j = Spec.kwPropertyNames sub₂ n₂ j := by
  unfold Spec.kwPropertyNames
  generalize n₁.propertyNames = o₁ at hc ⊢
  generalize n₂.propertyNames = o₂ at hc ⊢
  cases j with
  | obj kvs =>
    cases o₁ <;> cases o₂
    · rfl
    · exact hc.elim
    · exact hc.elim
    · dsimp only
      rw [List.map_congr_left fun p _ => hs _ _ (.str p.1) hc]
  | null => cases o₁ <;> cases o₂ <;> rfl
  | bool _ => cases o₁ <;> cases o₂ <;> rfl
  | num _ => cases o₁ <;> cases o₂ <;> rfl
  | str _ => cases o₁ <;> cases o₂ <;> rfl
  | arr _ => cases o₁ <;> cases o₂ <;> rfl

theorem kwUnevaluatedProps_iso {n₁ n₂ : Node} (hc : OptRel R n₁.unevaluatedProperties n₂.unevaluatedProperties)
    (j : Json) (ev : Spec.Ev) : Spec.kwUnevaluatedProps sub₁ n₁ j ev = Spec.kwUnevaluatedProps sub₂ n₂ j ev := by
  unfold Spec.kwUnevaluatedProps
  generalize n₁.unevaluatedProperties = o₁ at hc ⊢
  generalize n₂.unevaluatedProperties = o₂ at hc ⊢
  cases j with
  | obj kvs =>
    cases o₁ <;> cases o₂
    · rfl
    · exact hc.elim
    · exact hc.elim
    · rename_i a b
      dsimp only
      have hf : (fun (p : String × Json) => sub₁ a p.2) = fun p => sub₂ b p.2 := funext fun p => hs _ _ p.2 hc
      rw [hf]
  | null => cases o₁ <;> cases o₂ <;> rfl
  | bool _ => cases o₁ <;> cases o₂ <;> rfl
  | num _ => cases o₁ <;> cases o₂ <;> rfl
  | str _ => cases o₁ <;> cases o₂ <;> rfl
  | arr _ => cases o₁ <;> cases o₂ <;> rfl

/-- nil / empty `dependentSchemas` (`dependencies`) are the same to `kwDependentSchemas` -/
theorem kwDependentSchemas_iso {e₁ e₂ : Spec.Env} (hd : e₁.draft = e₂.draft) {n₁ n₂ : Node}
    (h2020 : ListRel (KeyRel R) (n₁.dependentSchemas.getD []) (n₂.dependentSchemas.getD []))
    (h7 : ListRel (KeyRel R) (n₁.dependencySchemas.getD []) (n₂.dependencySchemas.getD [])) (j : Json) :
    Spec.kwDependentSchemas e₁ sub₁ n₁ j = Spec.kwDependentSchemas e₂ sub₂ n₂ j := by
  cases j with
  | obj kvs =>
    unfold Spec.kwDependentSchemas
    dsimp only
    rw [hd]
    cases e₂.draft with
    | d7 =>
      dsimp only
      rw [map_keyed_iso hs (.obj kvs) (filter_keyed (fun k => (Json.lookup k kvs).isSome) h7)]
    | d2020 =>
      dsimp only
      rw [map_keyed_iso hs (.obj kvs) (filter_keyed (fun k => (Json.lookup k kvs).isSome) h2020)]
  | null => rfl
  | bool _ => rfl
  | num _ => rfl
  | str _ => rfl
  | arr _ => rfl

end

/-! ## one schema object, all fuels -/

/-- the recursive calls agree on related schemas under related dynamic scopes -/
def RecIso (R : NodeId → NodeId → Prop) (rec₁ rec₂ : Spec.Rec) : Prop :=
  ∀ sc₁ sc₂ s₁ s₂ j, ListRel R sc₁ sc₂ → R s₁ s₂ → rec₁ sc₁ s₁ j = rec₂ sc₂ s₂ j

theorem specBody_iso {R : NodeId → NodeId → Prop} {e₁ e₂ : Spec.Env} (hE : EnvSim R e₁ e₂) {rec₁ rec₂ : Spec.Rec}
    (hrec : RecIso R rec₁ rec₂) {sc₁ sc₂ : List NodeId} (hsc : ListRel R sc₁ sc₂) {s₁ s₂ : NodeId} (hs : R s₁ s₂)
    (j : Json) {n₁ n₂ : Node} (h₁ : e₁.st.get? s₁ = some n₁) (hn : NodeSim R n₁ n₂) :
    Inv.specBody e₁ rec₁ sc₁ s₁ j n₁ = Inv.specBody e₂ rec₂ sc₂ s₂ j n₂ := by
  have hscope : ListRel R (sc₁ ++ [s₁]) (sc₂ ++ [s₂]) := listRel_append hsc (.cons hs .nil)
  have hsub : SubIso R (rec₁ (sc₁ ++ [s₁])) (rec₂ (sc₂ ++ [s₂])) := fun t₁ t₂ j' ht => hrec _ _ t₁ t₂ j' hscope ht
  have href : n₁.ref = n₂.ref := scal_ref hn.scal
  have hdr : n₁.dynamicRef = n₂.dynamicRef := scal_dynamicRef hn.scal
  have hkref := kwRef_iso hsub (e₁ := e₁) (e₂ := e₂) (s₁ := s₁) (s₂ := s₂) href
    (fun h => hE.ref s₁ s₂ n₁ hs h₁ h) j
  have hdrv : (Spec.vocab e₁.draft n₁).dynamicRef = (Spec.vocab e₂.draft n₂).dynamicRef := by
    rw [hE.draft]; simp only [Spec.vocab, hdr]
  have hkdyn := kwDynamicRef_iso hsub (e₁ := e₁) (e₂ := e₂) (sc₁ := sc₁ ++ [s₁]) (sc₂ := sc₂ ++ [s₂]) (s₁ := s₁)
    (s₂ := s₂) (n₁ := Spec.vocab e₁.draft n₁) (n₂ := Spec.vocab e₂.draft n₂) hdrv (fun h0 =>
      have h : n₁.dynamicRef ≠ "" := fun e => h0 (by cases e₁.draft <;> simp [Spec.vocab, e])
      ⟨(hE.dyn s₁ s₂ n₁ hs h₁ h).1, (hE.dyn s₁ s₂ n₁ hs h₁ h).2.1,
      (hE.dyn s₁ s₂ n₁ hs h₁ h).2.2 _ _ hscope⟩) j
  have hkl : Inv.kwList e₁ rec₁ sc₁ s₁ j n₁ = Inv.kwList e₂ rec₂ sc₂ s₂ j n₂ := by
    unfold Inv.kwList
    rw [hkref, hkdyn, kwAllOf_iso hsub hn.allOf j, kwAnyOf_iso hsub hn.anyOf j, kwOneOf_iso hsub hn.oneOf j,
      kwNot_iso hsub hn.not j, kwIf_iso hsub hn.if_ hn.then_ hn.else_ j, kwItems_iso hsub hE.draft hn j,
      kwContains_iso hsub (n₁ := Spec.vocab e₁.draft n₁) (n₂ := Spec.vocab e₂.draft n₂) hn.contains
        (by rw [hE.draft]; simp only [Spec.vocab, scal_minContains hn.scal])
        (by rw [hE.draft]; simp only [Spec.vocab, scal_maxContains hn.scal]) j,
      kwProps_iso hsub hE.reMatch hn.properties hn.patternProperties hn.additionalProperties j,
      kwPropertyNames_iso hsub hn.propertyNames j,
      kwDependentSchemas_iso hsub hE.draft hn.dependentSchemas hn.dependencySchemas j]
  have hvi : OptRel R (Spec.vocab e₁.draft n₁).unevaluatedItems (Spec.vocab e₂.draft n₂).unevaluatedItems := by
    rw [hE.draft]
    cases e₂.draft
    · trivial
    · exact hn.unevaluatedItems
  have hvp : OptRel R (Spec.vocab e₁.draft n₁).unevaluatedProperties
      (Spec.vocab e₂.draft n₂).unevaluatedProperties := by
    rw [hE.draft]
    cases e₂.draft
    · trivial
    · exact hn.unevaluatedProperties
  have hui : Spec.kwUnevaluatedItems (rec₁ (sc₁ ++ [s₁])) (Spec.vocab e₁.draft n₁) j =
      Spec.kwUnevaluatedItems (rec₂ (sc₂ ++ [s₂])) (Spec.vocab e₂.draft n₂) j :=
    funext fun ev => kwUnevaluatedItems_iso hsub hvi j ev
  have hup : Spec.kwUnevaluatedProps (rec₁ (sc₁ ++ [s₁])) (Spec.vocab e₁.draft n₁) j =
      Spec.kwUnevaluatedProps (rec₂ (sc₂ ++ [s₂])) (Spec.vocab e₂.draft n₂) j :=
    funext fun ev => kwUnevaluatedProps_iso hsub hvp j ev
  unfold Inv.specBody
  rw [hkl, hui, hup, hkref, assertsOf_iso hE.draft hE.reMatch hn.scal j, hE.draft, href]

/-- one step -/
theorem evalStep_iso {R : NodeId → NodeId → Prop} {e₁ e₂ : Spec.Env} (hE : EnvSim R e₁ e₂) {rec₁ rec₂ : Spec.Rec}
    (hrec : RecIso R rec₁ rec₂) : RecIso R (Spec.evalStep e₁ rec₁) (Spec.evalStep e₂ rec₂) := by
  intro sc₁ sc₂ s₁ s₂ j hsc hs
  rw [Inv.evalStep_unfold, Inv.evalStep_unfold]
  have hn := hE.node s₁ s₂ hs
  cases h₁ : e₁.st.get? s₁ with
  | none =>
    cases h₂ : e₂.st.get? s₂ with
    | none => rfl
    | some n₂ => rw [h₁, h₂] at hn; exact hn.elim
  | some n₁ =>
    cases h₂ : e₂.st.get? s₂ with
    | none => rw [h₁, h₂] at hn; exact hn.elim
    | some n₂ =>
      rw [h₁, h₂] at hn
      exact specBody_iso hE hrec hsc hs j h₁ hn

theorem evalFuel_iso {R : NodeId → NodeId → Prop} {e₁ e₂ : Spec.Env} (hE : EnvSim R e₁ e₂) :
    ∀ fuel, RecIso R (Spec.evalFuel e₁ fuel) (Spec.evalFuel e₂ fuel)
  | 0 => fun _ _ _ _ _ _ _ => rfl
  | fuel + 1 => evalStep_iso hE (evalFuel_iso hE fuel)

/-- **Validity is invariant under a renaming of node ids.**  If `e₂` simulates `e₁` along `R`, then related schemas,
    entered under `R`-related dynamic scopes, give every instance the same result with every amount of fuel: undefined
    together, invalid together, valid together with the same evaluated properties and items (`Spec.Out` mentions no node
    id, so this is plain equality).
    (`Go.ListRel R` is the pointwise lifting of `R` to lists — what `List.Forall₂ R` is called where it exists; Lean core
    does not have it.) -/
theorem evalFuel_sim {R : NodeId → NodeId → Prop} {e₁ e₂ : Spec.Env} (hE : EnvSim R e₁ e₂) (fuel : Nat)
    {scope₁ scope₂ : List NodeId} (hsc : ListRel R scope₁ scope₂) {s₁ s₂ : NodeId} (hs : R s₁ s₂) (j : Json) :
    Spec.evalFuel e₁ fuel scope₁ s₁ j = Spec.evalFuel e₂ fuel scope₂ s₂ j :=
  evalFuel_iso hE fuel scope₁ scope₂ s₁ s₂ j hsc hs

/-- at the entry point: the verdicts agree -/
theorem valid_sim {R : NodeId → NodeId → Prop} {e₁ e₂ : Spec.Env} (hE : EnvSim R e₁ e₂) (fuel : Nat)
    {s₁ s₂ : NodeId} (hs : R s₁ s₂) (j : Json) : Spec.valid e₁ fuel s₁ j = Spec.valid e₂ fuel s₂ j := by
  unfold Spec.valid
  rw [evalFuel_sim hE fuel .nil hs j]

/-! ## the operational evaluator -/

/-- **`validate_iso`**: the evaluator `Go.validateFuel`, run on two resolved environments whose Spec environments
    simulate each other along `R`, on related schemas under related stacks: ONE Spec result (that of the first
    environment) governs both runs.  So wherever the Spec decides, both runs return an error (instance invalid) or both
    succeed with annotations that denote the same evaluated properties and items. -/
theorem validate_iso {R : NodeId → NodeId → Prop} (env₁ env₂ : Go.VEnv)
    (hwf₁ : Refine.EnvWF env₁) (hwf₂ : Refine.EnvWF env₂) (hst₁ : Refine.StoreWF env₁.st)
    (hst₂ : Refine.StoreWF env₂.st) (hE : EnvSim R (Refine.specEnvOf env₁) (Refine.specEnvOf env₂)) (fuel : Nat)
    {stack₁ stack₂ : List NodeId} (hsc : ListRel R stack₁ stack₂)
    (hi₁ : ∀ x, x ∈ stack₁ → (env₁.info? x).isSome = true) (hi₂ : ∀ x, x ∈ stack₂ → (env₂.info? x).isSome = true)
    {s₁ s₂ : NodeId} (hs : R s₁ s₂) (j : Json) (hj : Json.WF j = true) :
    Refine.Rel j (Spec.evalFuel (Refine.specEnvOf env₁) fuel stack₁ s₁ j)
        (Go.validateFuel env₁ fuel stack₁ (GoVal.ofJson j) s₁) ∧
      Refine.Rel j (Spec.evalFuel (Refine.specEnvOf env₁) fuel stack₁ s₁ j)
        (Go.validateFuel env₂ fuel stack₂ (GoVal.ofJson j) s₂) := by
  refine ⟨Refine.validate_refines_spec env₁ hwf₁ hst₁ fuel stack₁ hi₁ s₁ j hj, ?_⟩
  rw [evalFuel_sim hE fuel hsc hs j]
  exact Refine.validate_refines_spec env₂ hwf₂ hst₂ fuel stack₂ hi₂ s₂ j hj

/-- two runs governed by Spec results that agree up to the order of the evaluated sets (`Inv.OutSim`) return the same
    verdict, when the Spec decides -/
theorem same_verdict_of_outSim {j : Json} {o₁ o₂ : Spec.Out} {v₁ v₂ : Res Go.Anns} (ho : Inv.OutSim o₁ o₂)
    (h₁ : Refine.Rel j o₁ v₁) (h₂ : Refine.Rel j o₂ v₂) (hdec : o₁.isSome = true) :
    (v₁ = .err ∧ v₂ = .err) ∨ ∃ a₁ a₂, v₁ = .ok a₁ ∧ v₂ = .ok a₂ := by
  cases o₁ with
  | none => cases hdec
  | some r₁ =>
    cases o₂ with
    | none => exact ho.elim
    | some r₂ =>
      cases r₁ with
      | none =>
        cases r₂ with
        | none => exact Or.inl ⟨h₁, h₂⟩
        | some _ => exact ho.elim
      | some ev₁ =>
        cases r₂ with
        | none => exact ho.elim
        | some ev₂ =>
          obtain ⟨a₁, ha₁, -⟩ := h₁
          obtain ⟨a₂, ha₂, -⟩ := h₂
          exact Or.inr ⟨a₁, a₂, ha₁, ha₂⟩

theorem outSim_of_eq {o₁ o₂ : Spec.Out} (h : o₁ = o₂) : Inv.OutSim o₁ o₂ := by
  subst h
  cases o₁ with
  | none => trivial
  | some r => exact Inv.RSim_refl r

/-- the verdicts of two `Inv.OutSim`-related results are equal -/
theorem valid_of_outSim {o₁ o₂ : Spec.Out} (h : Inv.OutSim o₁ o₂) :
    o₁.map Option.isSome = o₂.map Option.isSome := by
  cases o₁ <;> cases o₂
  · rfl
  · exact h.elim
  · exact h.elim
  · rename_i r₁ r₂
    cases r₁ <;> cases r₂
    · rfl
    · exact h.elim
    · exact h.elim
    · rfl

/-! ## from the tree relations of C05 / C20 to `NodeSim` -/

/-- a schema object and a copy of it whose schema-valued fields are `R`-related (`Go.NodeRel`: what `cloneStep` and
    the round trip produce) are `NodeSim R`-related -/
theorem NodeSim.of_nodeRel {R : NodeId → NodeId → Prop} {n n' : Node} (h : Go.NodeRel R n n') : NodeSim R n n' := by
  obtain ⟨fs', hrel, rfl⟩ := h
  obtain ⟨c0, c1, c2, c3, c4, c5, c6, c7, c8, c9, c10, c11, c12, c13, c14, c15, c16, c17, c18, c19, c20, c21, c22, rfl,
    r0, r1, r2, r3, r4, r5, r6, r7, r8, r9, r10, r11, r12, r13, r14, r15, r16, r17, r18, r19, r20, r21, r22⟩ :=
    Go.childFields_inv hrel
  exact {
    scal := rfl
    allOf := getD_rel r3
    anyOf := r4
    oneOf := r15
    not := r14
    if_ := r11
    then_ := r20
    else_ := r10
    prefixItems := getD_rel r17
    items := r12
    itemsArray := r13
    additionalItems := r1
    contains := r5
    unevaluatedItems := r21
    properties := fun k => Go.lookup_rel k (getD_rel r18)
    patternProperties := getD_rel r16
    additionalProperties := r2
    propertyNames := r19
    unevaluatedProperties := r22
    dependentSchemas := getD_rel r9
    dependencySchemas := getD_rel r8 }

/-- strengthen the relation on the children by a fact about the left children -/
theorem nodeRel_and_left {S : NodeId → NodeId → Prop} {P : NodeId → Prop} {n n' : Node} (h : Go.NodeRel S n n')
    (hp : ∀ f, f ∈ n.childFields → ∀ x, x ∈ f.ids → P x) : Go.NodeRel (fun x y => P x ∧ S x y) n n' := by
  obtain ⟨fs', hrel, rfl⟩ := h
  exact ⟨fs', Go.ListRel.imp_mem hrel fun f hf _ hr => Go.FieldRel.and_left hr (hp f hf), rfl⟩

/-- no `$ref` and no `$dynamicRef` on the left: the resolution tables are never consulted, so they are arbitrary -/
theorem EnvSim.of_refFree {R : NodeId → NodeId → Prop} {e₁ e₂ : Spec.Env} (hd : e₁.draft = e₂.draft)
    (hre : e₁.reMatch = e₂.reMatch) (hn : ∀ a b, R a b → OptRel (NodeSim R) (e₁.st.get? a) (e₂.st.get? b))
    (hfree : ∀ a b n, R a b → e₁.st.get? a = some n → n.ref = "" ∧ n.dynamicRef = "") : EnvSim R e₁ e₂ where
  draft := hd
  reMatch := hre
  node := hn
  ref := fun a b n h hg hr => absurd (hfree a b n h hg).1 hr
  dyn := fun a b n h hg hr => absurd (hfree a b n h hg).2 hr

/-! ## reference-free trees -/

/-- the schema object has no `$ref` and no `$dynamicRef` -/
def noRefs (n : Node) : Bool := n.ref == "" && n.dynamicRef == ""

theorem noRefs_iff {n : Node} : noRefs n = true ↔ n.ref = "" ∧ n.dynamicRef = "" := by
  simp only [noRefs, Bool.and_eq_true, beq_iff_eq]

/-- **reference-free** (decidable): the unfolding of `a` through `Node.children` ends within depth `d` — nil pointers
    inside slices and maps are allowed as leaves — and no schema object of it has a `$ref` or a `$dynamicRef`.
    Nothing is asked of `$id` / `$anchor` / `$dynamicAnchor`: without references they are not observable (the theorems
    below hold for ARBITRARY resolution tables, which is the proof). -/
def refFree (st : Store) : Nat → NodeId → Bool
  | 0, a => (st.get? a).isNone
  | d + 1, a =>
    match st.get? a with
    | none => true
    | some n => noRefs n && n.children.all (refFree st d)

theorem refFree_node {st : Store} : ∀ {d : Nat} {a : NodeId} {n : Node}, refFree st d a = true → st.get? a = some n →
    ∃ d', d = d' + 1 ∧ noRefs n = true ∧ ∀ x, x ∈ n.children → refFree st d' x = true
  | 0, a, n, h, hn => by
    simp only [refFree, hn, Option.isNone_some] at h
    cases h
  | d + 1, a, n, h, hn => by
    simp only [refFree, hn, Bool.and_eq_true, List.all_eq_true] at h
    exact ⟨d, rfl, h.1, h.2⟩

/-- a full tree (no nil child) all of whose objects are reference-free is `refFree` -/
theorem refFree_of_treeAll {st : Store} : ∀ {d : Nat} {a : NodeId}, Go.treeAll noRefs st d a = true →
    refFree st d a = true
  | 0, _, h => by cases h
  | d + 1, a, h => by
    obtain ⟨n, hn, hp, hc⟩ := Go.treeAll_succ h
    simp only [refFree, hn, Bool.and_eq_true, List.all_eq_true]
    exact ⟨hp, fun x hx => refFree_of_treeAll (hc x hx)⟩

/-! ## C20: a reference-free tree and its clone -/

/-- the relation along which the clone simulates the original: `b` (in `st'`) is a copy of the subtree of `a` (in `st`)
    — `Go.Sim`, what `cloneFuel_sim` establishes — and that subtree is reference-free -/
def CloneR (B : Nat) (st st' : Store) (a b : NodeId) : Prop :=
  ∃ k, refFree st k a = true ∧ Go.Sim B st st' k a b

theorem cloneR_node {B : Nat} {st st' : Store} (hs : st.size ≤ B) (hs' : st'.size ≤ B) {a b : NodeId}
    (h : CloneR B st st' a b) : OptRel (NodeSim (CloneR B st st')) (st.get? a) (st'.get? b) := by
  obtain ⟨k, hf, hsim⟩ := h
  have hnil : ∀ {a b : NodeId}, B ≤ a ∧ b = a → OptRel (NodeSim (CloneR B st st')) (st.get? a) (st'.get? b) := by
    rintro a b ⟨hB, rfl⟩
    rw [Go.get?_eq_none_iff.2 (Nat.le_trans hs hB), Go.get?_eq_none_iff.2 (Nat.le_trans hs' hB)]
    trivial
  cases k with
  | zero => exact hnil hsim
  | succ k =>
    rcases hsim with hsim | ⟨n, n', ha, hb, hrel⟩
    · exact hnil hsim
    · rw [ha, hb]
      obtain ⟨k', hk', -, hch⟩ := refFree_node hf ha
      cases hk'
      have hrel' := nodeRel_and_left (P := fun x => refFree st k x = true) hrel
        (fun f hf' x hx => hch x (Go.mem_children_iff.2 ⟨f, hf', hx⟩))
      exact NodeSim.of_nodeRel (Go.NodeRel.imp (fun x y hxy => ⟨k, hxy.1, hxy.2⟩) hrel')

theorem cloneR_free {B : Nat} {st st' : Store} {a b : NodeId} {n : Node} (h : CloneR B st st' a b)
    (hn : st.get? a = some n) : n.ref = "" ∧ n.dynamicRef = "" := by
  obtain ⟨k, hf, -⟩ := h
  obtain ⟨_, -, hp, -⟩ := refFree_node hf hn
  exact noRefs_iff.1 hp

/-- the two stores, with any resolution tables, simulate each other along `CloneR` -/
theorem cloneR_envSim {B : Nat} {st st' : Store} (hs : st.size ≤ B) (hs' : st'.size ≤ B) (env env' : Spec.Env)
    (hd : env.draft = env'.draft) (hre : env.reMatch = env'.reMatch) :
    EnvSim (CloneR B st st') { env with st := st } { env' with st := st' } :=
  EnvSim.of_refFree hd hre (fun _ _ h => cloneR_node hs hs' h) (fun _ _ _ h hn => cloneR_free h hn)

/-! ## C05: the normal forms of the round trip are invisible to `evalStep`

  `Go.normNode` = (1) nil-vs-empty normalisations and fields `evalStep` does not read (`preNorm`), then (2) the entry
  lists of seven maps put in ascending key order (`midNorm`), then (3) "properties" in emission order.
  (1) and (3) change no result at all (`NodeSim Eq`: `preNorm_invisible`, `lookup_propEntries`); (2) changes the ORDER in
  which evaluated property names are listed, nothing else (`Inv.evalFuel_sim`: results agree up to `Inv.OutSim`). -/

theorem listRel_eq_refl {α} : ∀ (l : List α), ListRel Eq l l
  | [] => .nil
  | _ :: l => .cons rfl (listRel_eq_refl l)

theorem listRel_eq {α} : ∀ {l₁ l₂ : List α}, ListRel Eq l₁ l₂ → l₁ = l₂
  | _, _, .nil => rfl
  | _, _, .cons h1 h2 => by rw [h1, listRel_eq h2]

theorem keyRel_eq_refl : ∀ (l : List (String × NodeId)), ListRel (KeyRel Eq) l l
  | [] => .nil
  | _ :: l => .cons ⟨rfl, rfl⟩ (keyRel_eq_refl l)

theorem optRel_eq_refl {α} : ∀ (o : Option α), OptRel Eq o o
  | none => trivial
  | some _ => rfl

theorem optListRel_eq_refl {α} : ∀ (o : Option (List α)), OptRel (ListRel Eq) o o
  | none => trivial
  | some l => listRel_eq_refl l

/-- a map with `omitempty`: empty comes back nil (the entries keep their order) -/
def emptyKV {α : Type} (m : Option (List (String × α))) : Option (List (String × α)) :=
  match m with
  | some (e :: es) => some (e :: es)
  | _ => none

/-- DependencyStrings: the empty map comes back nil, a nil list as the empty list -/
def depNil (m : Option (List (String × Option (List String)))) : Option (List (String × Option (List String))) :=
  match m with
  | some (e :: es) => some ((e :: es).map fun e => (e.1, some (e.2.getD [])))
  | _ => none

/-- step (1): the part of `Go.normNode` that reorders nothing `evalStep` or the resolver walks (`$vocabulary`, of which
    only the presence is ever tested — by checkLocal — is put into its final form here: non-nil stays non-nil, keys
    ascending, `Go.normVocab`) -/
def preNorm (n : Node) : Node :=
  { n with
    required := Go.normReq n.required, extra := Go.normExtra n.extra, propertyOrder := none,
    defs := emptyKV n.defs, definitions := emptyKV n.definitions,
    patternProperties := emptyKV n.patternProperties, dependentSchemas := emptyKV n.dependentSchemas,
    prefixItems := Go.normList n.prefixItems, allOf := Go.normList n.allOf,
    dependencySchemas := emptyKV n.dependencySchemas, dependencyStrings := depNil n.dependencyStrings,
    vocabulary := Go.normVocab n.vocabulary, dependentRequired := emptyKV n.dependentRequired,
    examples := Go.normJL n.examples }

/-- step (2): the seven maps other than "properties" in ascending key order -/
def midNorm (n : Node) : Node :=
  Inv.withMaps (preNorm n) n.properties (Go.normMap n.patternProperties) (Go.normMap n.defs) (Go.normMap n.definitions)
    (Go.normMap n.dependencySchemas) (Go.normDepStrs n.dependencyStrings) (Go.normKV n.dependentRequired)
    (Go.normMap n.dependentSchemas)

/-- step (3) -/
theorem normNode_eq (n : Node) :
    Go.normNode n = { midNorm n with properties := Go.normProps n.properties (n.propertyOrder.getD []) } := rfl

theorem normReq_getD (r : Option (List String)) : (Go.normReq r).getD [] = r.getD [] := by
  cases r with
  | none => rfl
  | some l => cases l <;> rfl

theorem normList_getD (r : Option (List NodeId)) : (Go.normList r).getD [] = r.getD [] := by
  cases r with
  | none => rfl
  | some l => cases l <;> rfl

theorem emptyKV_getD {α : Type} (r : Option (List (String × α))) : (emptyKV r).getD [] = r.getD [] := by
  cases r with
  | none => rfl
  | some l => cases l <;> rfl

theorem depView_emptyKV (m : Option (List (String × Option (List String)))) : depView (emptyKV m) = depView m := by
  unfold depView
  rw [emptyKV_getD]

theorem depView_depNil (m : Option (List (String × Option (List String)))) : depView (depNil m) = depView m := by
  cases m with
  | none => rfl
  | some l =>
    cases l with
    | nil => rfl
    | cons e es =>
      unfold depView depNil
      simp only [Option.getD_some, List.map_map]
      rfl

theorem scalarView_preNorm (n : Node) : scalarView (preNorm n) = scalarView n := by
  unfold scalarView preNorm
  dsimp only
  rw [normReq_getD, depView_emptyKV, depView_depNil]

/-- **each nil-vs-empty normalisation is invisible to `evalStep`**: `required: []` ↦ nil, `allOf: []` / `prefixItems: []`
    ↦ nil, every empty map (other than `$vocabulary`, which is kept) ↦ nil, a nil list in DependencyStrings ↦ `[]`;
    and so are the fields it does not read (Extra, PropertyOrder, `examples`, `$vocabulary`, `$defs`, `definitions`) -/
theorem preNorm_invisible (n : Node) : NodeSim Eq n (preNorm n) where
  scal := (scalarView_preNorm n).symm
  allOf := by
    show ListRel Eq _ ((Go.normList n.allOf).getD [])
    rw [normList_getD]
    exact listRel_eq_refl _
  anyOf := optListRel_eq_refl _
  oneOf := optListRel_eq_refl _
  not := optRel_eq_refl _
  if_ := optRel_eq_refl _
  then_ := optRel_eq_refl _
  else_ := optRel_eq_refl _
  prefixItems := by
    show ListRel Eq _ ((Go.normList n.prefixItems).getD [])
    rw [normList_getD]
    exact listRel_eq_refl _
  items := optRel_eq_refl _
  itemsArray := optListRel_eq_refl _
  additionalItems := optRel_eq_refl _
  contains := optRel_eq_refl _
  unevaluatedItems := optRel_eq_refl _
  properties := fun _ => optRel_eq_refl _
  patternProperties := by
    show ListRel (KeyRel Eq) _ ((emptyKV n.patternProperties).getD [])
    rw [emptyKV_getD]
    exact keyRel_eq_refl _
  additionalProperties := optRel_eq_refl _
  propertyNames := optRel_eq_refl _
  unevaluatedProperties := optRel_eq_refl _
  dependentSchemas := by
    show ListRel (KeyRel Eq) _ ((emptyKV n.dependentSchemas).getD [])
    rw [emptyKV_getD]
    exact keyRel_eq_refl _
  dependencySchemas := by
    show ListRel (KeyRel Eq) _ ((emptyKV n.dependencySchemas).getD [])
    rw [emptyKV_getD]
    exact keyRel_eq_refl _

theorem get?_map (st : Store) (f : Node → Node) (i : NodeId) : Store.get? (st.map f) i = (Store.get? st i).map f := by
  simp only [Store.get?, Array.getElem?_map]

/-- rewriting every schema object by an `f` that `evalStep` cannot tell from the identity: same ids, same tables -/
theorem envSim_map (env : Spec.Env) (st : Store) (f : Node → Node) (hf : ∀ n, NodeSim Eq n (f n)) :
    EnvSim Eq { env with st := st } { env with st := st.map f } where
  draft := rfl
  reMatch := rfl
  node := fun a b h => by
    subst h
    show OptRel _ (st.get? a) (Store.get? (st.map f) a)
    rw [get?_map]
    cases st.get? a with
    | none => trivial
    | some n => exact hf n
  ref := fun a b _ h _ _ => by
    subst h
    exact optRel_eq_refl _
  dyn := fun a b _ h _ _ => by
    subst h
    refine ⟨optRel_eq_refl _, rfl, fun sc₁ sc₂ hsc => ?_⟩
    rw [listRel_eq hsc]
    exact optRel_eq_refl _

theorem evalFuel_map (env : Spec.Env) (st : Store) (f : Node → Node) (hf : ∀ n, NodeSim Eq n (f n)) (fuel : Nat)
    (scope : List NodeId) (s : NodeId) (j : Json) :
    Spec.evalFuel { env with st := st } fuel scope s j = Spec.evalFuel { env with st := st.map f } fuel scope s j :=
  evalFuel_sim (envSim_map env st f hf) fuel (listRel_eq_refl scope) rfl j

/-! ### step (2): sorted maps -/

theorem optPerm_emptyKV_normMap (m : Option (List (String × NodeId))) : Inv.optPerm (emptyKV m) (Go.normMap m) := by
  cases m with
  | none => trivial
  | some l =>
    cases l with
    | nil => trivial
    | cons e es => exact (Go.sortKV_perm _).symm

theorem optPerm_emptyKV_normKV {α : Type} (m : Option (List (String × α))) : Inv.optPerm (emptyKV m) (Go.normKV m) := by
  cases m with
  | none => trivial
  | some l =>
    cases l with
    | nil => trivial
    | cons e es => exact (Go.sortKV_perm _).symm

theorem optPerm_depNil (m : Option (List (String × Option (List String)))) :
    Inv.optPerm (depNil m) (Go.normDepStrs m) := by
  cases m with
  | none => trivial
  | some l =>
    cases l with
    | nil => trivial
    | cons e es => exact (Go.sortKV_perm _).symm

theorem permNode_pre_mid (n : Node) : Inv.permNode (preNorm n) (midNorm n) :=
  ⟨n.properties, Go.normMap n.patternProperties, Go.normMap n.defs, Go.normMap n.definitions,
    Go.normMap n.dependencySchemas, Go.normDepStrs n.dependencyStrings, Go.normKV n.dependentRequired,
    Go.normMap n.dependentSchemas, Inv.optPerm.refl _, optPerm_emptyKV_normMap _, optPerm_emptyKV_normMap _,
    optPerm_emptyKV_normMap _, optPerm_emptyKV_normMap _, optPerm_depNil _, optPerm_emptyKV_normKV _,
    optPerm_emptyKV_normMap _, rfl⟩

theorem permStore_pre_mid (st : Store) : Inv.permStore (st.map preNorm) (st.map midNorm) := by
  refine ⟨by rw [Array.size_map, Array.size_map], fun i => ?_⟩
  rw [get?_map, get?_map]
  cases st.get? i with
  | none => trivial
  | some n => exact permNode_pre_mid n

theorem storeWF_preNorm {st : Store} (h : Refine.StoreWF st) : Refine.StoreWF (st.map preNorm) := by
  intro s n hn
  rw [get?_map] at hn
  cases hm : st.get? s with
  | none => rw [hm] at hn; cases hn
  | some m =>
    rw [hm] at hn
    cases hn
    exact h s m hm

/-! ### step (3): "properties" in emission order -/

theorem mem_orderedKeys {ps : List (String × NodeId)} {order : List String} {k : String} (hk : k ∈ ps.map (·.1)) :
    k ∈ Go.orderedKeys ps order := by
  rw [Go.orderedKeys_blocks, List.mem_append]
  by_cases ho : k ∈ order
  · exact Or.inl (Go.mem_listedKeys.2 ⟨ho, hk⟩)
  · exact Or.inr ((Go.sortStrings_perm' _).mem_iff.2 (Go.mem_restKeys.2 ⟨hk, ho⟩))

/-- `evalStep` only looks "properties" up by name, and orderedProperties keeps every lookup -/
theorem lookup_propEntries (ps : List (String × NodeId)) (order : List String) (k : String) :
    Json.lookup k (Go.propEntries ps order) = Json.lookup k ps := by
  by_cases hk : k ∈ Go.orderedKeys ps order
  · exact Go.lookup_filterMap_lookup _ (fun _ h => Go.orderedKeys_isSome h) k hk
  · have h1 : Json.lookup k (Go.propEntries ps order) = none := by
      cases h : Json.lookup k (Go.propEntries ps order) with
      | none => rfl
      | some v =>
        have hm : k ∈ (Go.propEntries ps order).map (·.1) :=
          Go.lookup_isSome_iff_mem_keys.1 (by rw [h]; rfl)
        rw [Go.keys_propEntries] at hm
        exact absurd hm hk
    have h2 : Json.lookup k ps = none := by
      cases h : Json.lookup k ps with
      | none => rfl
      | some v => exact absurd (mem_orderedKeys (Go.lookup_isSome_iff_mem_keys.1 (by rw [h]; rfl))) hk
    rw [h1, h2]

theorem lookup_normProps (ps : Option (List (String × NodeId))) (order : List String) (k : String) :
    Json.lookup k ((Go.normProps ps order).getD []) = Json.lookup k (ps.getD []) := by
  cases ps with
  | none => rfl
  | some l => exact lookup_propEntries l order k

/-- replacing "properties" by a list with the same lookups -/
theorem NodeSim.of_props {R : NodeId → NodeId → Prop} {m n' : Node} (P : Option (List (String × NodeId)))
    (h : NodeSim R { m with properties := P } n')
    (hl : ∀ k, Json.lookup k (m.properties.getD []) = Json.lookup k (P.getD [])) : NodeSim R m n' where
  scal := h.scal
  allOf := h.allOf
  anyOf := h.anyOf
  oneOf := h.oneOf
  not := h.not
  if_ := h.if_
  then_ := h.then_
  else_ := h.else_
  prefixItems := h.prefixItems
  items := h.items
  itemsArray := h.itemsArray
  additionalItems := h.additionalItems
  contains := h.contains
  unevaluatedItems := h.unevaluatedItems
  properties := fun k => by rw [hl k]; exact h.properties k
  patternProperties := h.patternProperties
  additionalProperties := h.additionalProperties
  propertyNames := h.propertyNames
  unevaluatedProperties := h.unevaluatedProperties
  dependentSchemas := h.dependentSchemas
  dependencySchemas := h.dependencySchemas

/-! ### the tree read back -/

/-- the relation along which the tree read back simulates the (normalised) original: `Go.TreeEq` on a reference-free
    tree without nil children -/
def TreeR (st st' : Store) (a b : NodeId) : Prop :=
  ∃ k, Go.treeAll noRefs st k a = true ∧ Go.TreeEq st st' k a b

theorem treeR_node {st st' : Store} {a b : NodeId} (h : TreeR st st' a b) :
    OptRel (NodeSim (TreeR st st')) (Store.get? (st.map midNorm) a) (st'.get? b) := by
  obtain ⟨k, hf, hte⟩ := h
  cases k with
  | zero => exact hte.elim
  | succ k =>
    obtain ⟨n, n', ha, hb, hrel⟩ := hte
    obtain ⟨n0, hn0, -, hc⟩ := Go.treeAll_succ hf
    rw [ha] at hn0
    cases hn0
    rw [get?_map, ha, hb]
    have hrel' := nodeRel_and_left (P := fun x => Go.treeAll noRefs st k x = true) hrel
      (fun f hf' x hx => hc x (Go.normNode_ids_sub hf' hx))
    have hsim : NodeSim (TreeR st st') (Go.normNode n) n' :=
      NodeSim.of_nodeRel (Go.NodeRel.imp (fun x y hxy => ⟨k, hxy.1, hxy.2⟩) hrel')
    rw [normNode_eq] at hsim
    exact NodeSim.of_props _ hsim fun k => (lookup_normProps n.properties _ k).symm

theorem treeR_free {st st' : Store} {a b : NodeId} {m : Node} (h : TreeR st st' a b)
    (hm : Store.get? (st.map midNorm) a = some m) : m.ref = "" ∧ m.dynamicRef = "" := by
  obtain ⟨k, hf, -⟩ := h
  cases k with
  | zero => cases hf
  | succ k =>
    obtain ⟨n, hn, hp, -⟩ := Go.treeAll_succ hf
    rw [get?_map, hn] at hm
    cases hm
    exact noRefs_iff.1 hp

theorem treeR_envSim (st st' : Store) (env env' : Spec.Env) (hd : env.draft = env'.draft)
    (hre : env.reMatch = env'.reMatch) :
    EnvSim (TreeR st st') { env with st := st.map midNorm } { env' with st := st' } :=
  EnvSim.of_refFree hd hre (fun _ _ h => treeR_node h) (fun _ _ _ h hn => treeR_free h hn)

/-- **equal trees (up to the normal forms of the round trip) mean the same**, when reference-free: with any
    resolution tables on either side, the same draft and regexp matcher, every instance (without duplicate keys) gets
    results that agree up to the order in which the evaluated properties are listed (`Inv.OutSim`: undefined together,
    invalid together, valid together with the same evaluated sets).
    `Refine.StoreWF st`: the "properties" maps of `st` have distinct keys (they are Go maps). -/
theorem treeEq_meaning {st st' : Store} {d : Nat} {a b : NodeId} (hte : Go.TreeEq st st' d a b)
    (hfree : Go.treeAll noRefs st d a = true) (hst : Refine.StoreWF st) (env env' : Spec.Env)
    (hd : env.draft = env'.draft) (hre : env.reMatch = env'.reMatch) (fuel : Nat) (j : Json)
    (hj : Json.WF j = true) :
    Inv.OutSim (Spec.evalFuel { env with st := st } fuel [] a j) (Spec.evalFuel { env' with st := st' } fuel [] b j) := by
  rw [evalFuel_map env st preNorm preNorm_invisible fuel [] a j,
    ← evalFuel_sim (treeR_envSim st st' env env' hd hre) fuel .nil ⟨d, hfree, hte⟩ j]
  exact Inv.evalFuel_sim env (st.map preNorm) (st.map midNorm) (permStore_pre_mid st) (storeWF_preNorm hst) fuel
    [] a j j (Inv.permJson_refl j) hj

/-! ### all three steps at fixed ids -/

theorem NodeSim.refl_eq (n : Node) : NodeSim Eq n n where
  scal := rfl
  allOf := listRel_eq_refl _
  anyOf := optListRel_eq_refl _
  oneOf := optListRel_eq_refl _
  not := optRel_eq_refl _
  if_ := optRel_eq_refl _
  then_ := optRel_eq_refl _
  else_ := optRel_eq_refl _
  prefixItems := listRel_eq_refl _
  items := optRel_eq_refl _
  itemsArray := optListRel_eq_refl _
  additionalItems := optRel_eq_refl _
  contains := optRel_eq_refl _
  unevaluatedItems := optRel_eq_refl _
  properties := fun _ => optRel_eq_refl _
  patternProperties := keyRel_eq_refl _
  additionalProperties := optRel_eq_refl _
  propertyNames := optRel_eq_refl _
  unevaluatedProperties := optRel_eq_refl _
  dependentSchemas := keyRel_eq_refl _
  dependencySchemas := keyRel_eq_refl _

/-- "properties" in emission order is invisible to `evalStep` -/
theorem midNorm_normNode (n : Node) : NodeSim Eq (midNorm n) (Go.normNode n) :=
  NodeSim.of_props (Go.normProps n.properties (n.propertyOrder.getD [])) (by rw [← normNode_eq]; exact NodeSim.refl_eq _)
    fun k => (lookup_normProps n.properties _ k).symm

/-- two rewritings of every schema object that `evalStep` cannot tell apart: same ids, same tables -/
theorem envSim_map₂ (env : Spec.Env) (st : Store) (f g : Node → Node) (hfg : ∀ n, NodeSim Eq (f n) (g n)) :
    EnvSim Eq { env with st := st.map f } { env with st := st.map g } where
  draft := rfl
  reMatch := rfl
  node := fun a b h => by
    subst h
    show OptRel _ (Store.get? (st.map f) a) (Store.get? (st.map g) a)
    rw [get?_map, get?_map]
    cases st.get? a with
    | none => trivial
    | some n => exact hfg n
  ref := fun a b _ h _ _ => by
    subst h
    exact optRel_eq_refl _
  dyn := fun a b _ h _ _ => by
    subst h
    refine ⟨optRel_eq_refl _, rfl, fun sc₁ sc₂ hsc => ?_⟩
    rw [listRel_eq hsc]
    exact optRel_eq_refl _

/-- **`Go.normNode` at every schema object of the store is invisible to the Spec**, up to the order in which evaluated
    property names are listed: same ids, same tables, any scope -/
theorem normNode_invisible (env : Spec.Env) (st : Store) (hst : Refine.StoreWF st) (fuel : Nat) (scope : List NodeId)
    (s : NodeId) (j : Json) (hj : Json.WF j = true) :
    Inv.OutSim (Spec.evalFuel { env with st := st } fuel scope s j)
      (Spec.evalFuel { env with st := st.map Go.normNode } fuel scope s j) := by
  rw [evalFuel_map env st preNorm preNorm_invisible fuel scope s j,
    ← evalFuel_sim (envSim_map₂ env st midNorm Go.normNode midNorm_normNode) fuel (listRel_eq_refl scope) rfl j]
  exact Inv.evalFuel_sim env (st.map preNorm) (st.map midNorm) (permStore_pre_mid st) (storeWF_preNorm hst) fuel
    scope s j j (Inv.permJson_refl j) hj

/-! ## a checker for `NodeSim` on concrete schema objects -/

def listRelB {α β : Type} (r : α → β → Bool) : List α → List β → Bool
  | [], [] => true
  | a :: l, b :: l' => r a b && listRelB r l l'
  | _, _ => false

def optRelB {α β : Type} (r : α → β → Bool) : Option α → Option β → Bool
  | none, none => true
  | some a, some b => r a b
  | _, _ => false

def keyRelB (r : NodeId → NodeId → Bool) (a b : String × NodeId) : Bool := a.1 == b.1 && r a.2 b.2

theorem listRelB_sound {α β : Type} {r : α → β → Bool} {S : α → β → Prop} (h : ∀ a b, r a b = true → S a b) :
    ∀ {l : List α} {l' : List β}, listRelB r l l' = true → ListRel S l l'
  | [], [], _ => .nil
  | a :: l, b :: l', hb => by
    simp only [listRelB, Bool.and_eq_true] at hb
    exact .cons (h a b hb.1) (listRelB_sound h hb.2)
  | [], _ :: _, hb => by cases hb
  | _ :: _, [], hb => by cases hb

theorem optRelB_sound {α β : Type} {r : α → β → Bool} {S : α → β → Prop} (h : ∀ a b, r a b = true → S a b) :
    ∀ {o : Option α} {o' : Option β}, optRelB r o o' = true → OptRel S o o'
  | none, none, _ => trivial
  | some a, some b, hb => h a b hb
  | none, some _, hb => by cases hb
  | some _, none, hb => by cases hb

theorem keyRelB_sound {r : NodeId → NodeId → Bool} (a b : String × NodeId) (h : keyRelB r a b = true) :
    KeyRel (fun x y => r x y = true) a b := by
  simp only [keyRelB, Bool.and_eq_true, beq_iff_eq] at h
  exact h

/-- the schema-valued part of `NodeSim`, decidable ("properties" compared entry by entry) -/
def childSimB (r : NodeId → NodeId → Bool) (n₁ n₂ : Node) : Bool :=
  listRelB r (n₁.allOf.getD []) (n₂.allOf.getD []) && optRelB (listRelB r) n₁.anyOf n₂.anyOf &&
  optRelB (listRelB r) n₁.oneOf n₂.oneOf && optRelB r n₁.not n₂.not && optRelB r n₁.if_ n₂.if_ &&
  optRelB r n₁.then_ n₂.then_ && optRelB r n₁.else_ n₂.else_ &&
  listRelB r (n₁.prefixItems.getD []) (n₂.prefixItems.getD []) && optRelB r n₁.items n₂.items &&
  optRelB (listRelB r) n₁.itemsArray n₂.itemsArray && optRelB r n₁.additionalItems n₂.additionalItems &&
  optRelB r n₁.contains n₂.contains && optRelB r n₁.unevaluatedItems n₂.unevaluatedItems &&
  listRelB (keyRelB r) (n₁.properties.getD []) (n₂.properties.getD []) &&
  listRelB (keyRelB r) (n₁.patternProperties.getD []) (n₂.patternProperties.getD []) &&
  optRelB r n₁.additionalProperties n₂.additionalProperties && optRelB r n₁.propertyNames n₂.propertyNames &&
  optRelB r n₁.unevaluatedProperties n₂.unevaluatedProperties &&
  listRelB (keyRelB r) (n₁.dependentSchemas.getD []) (n₂.dependentSchemas.getD []) &&
  listRelB (keyRelB r) (n₁.dependencySchemas.getD []) (n₂.dependencySchemas.getD [])

theorem NodeSim.of_check {r : NodeId → NodeId → Bool} {n₁ n₂ : Node} (hs : scalarView n₁ = scalarView n₂)
    (h : childSimB r n₁ n₂ = true) : NodeSim (fun a b => r a b = true) n₁ n₂ := by
  simp only [childSimB, Bool.and_eq_true] at h
  obtain ⟨⟨⟨⟨⟨⟨⟨⟨⟨⟨⟨⟨⟨⟨⟨⟨⟨⟨⟨h1, h2⟩, h3⟩, h4⟩, h5⟩, h6⟩, h7⟩, h8⟩, h9⟩, h10⟩, h11⟩, h12⟩, h13⟩, h14⟩, h15⟩, h16⟩, h17⟩,
    h18⟩, h19⟩, h20⟩ := h
  have id' : ∀ a b, r a b = true → (fun a b => r a b = true) a b := fun _ _ h => h
  have hl : ∀ {l l' : List NodeId}, listRelB r l l' = true → ListRel (fun a b => r a b = true) l l' :=
    fun h => listRelB_sound id' h
  have hk : ∀ {l l' : List (String × NodeId)}, listRelB (keyRelB r) l l' = true →
      ListRel (KeyRel fun a b => r a b = true) l l' := fun h => listRelB_sound keyRelB_sound h
  have ho : ∀ {o o' : Option NodeId}, optRelB r o o' = true → OptRel (fun a b => r a b = true) o o' :=
    fun h => optRelB_sound id' h
  have hol : ∀ {o o' : Option (List NodeId)}, optRelB (listRelB r) o o' = true →
      OptRel (ListRel fun a b => r a b = true) o o' := fun h => optRelB_sound (fun _ _ h => hl h) h
  exact {
    scal := hs
    allOf := hl h1
    anyOf := hol h2
    oneOf := hol h3
    not := ho h4
    if_ := ho h5
    then_ := ho h6
    else_ := ho h7
    prefixItems := hl h8
    items := ho h9
    itemsArray := hol h10
    additionalItems := ho h11
    contains := ho h12
    unevaluatedItems := ho h13
    properties := fun k => Go.lookup_rel k (hk h14)
    patternProperties := hk h15
    additionalProperties := ho h16
    propertyNames := ho h17
    unevaluatedProperties := ho h18
    dependentSchemas := hk h19
    dependencySchemas := hk h20 }

/-! ## The hypotheses are satisfiable on non-trivial data -/

/-- one schema — with a `$ref` and a `$dynamicRef` —, stored twice at different ids, in a different order -/
def exSt₁ : Store := #[
  { type := "object", ref := "#/$defs/len", properties := some [("a", 1)], defs := some [("len", 2)],
    dynamicRef := "#d", required := some ["a"] },
  { type := "string" },
  { minProperties := some 1, dynamicAnchor := "d" }]

def exSt₂ : Store := #[
  { minProperties := some 1, dynamicAnchor := "d" },
  {},
  { type := "string" },
  { type := "object", ref := "#/$defs/len", properties := some [("a", 2)], defs := some [("len", 0)],
    dynamicRef := "#d", required := some ["a"] }]

def exEnv₁ : Spec.Env :=
  { st := exSt₁, draft := .d2020, refTarget := fun s => if s = 0 then some 2 else none,
    dynInitial := fun s => if s = 0 then some 2 else none, dynName := fun s => if s = 0 then "d" else "",
    resource := fun _ => some 0, dynDecl := fun r name => if r = 0 ∧ name = "d" then some 2 else none,
    reMatch := fun _ _ => false }

def exEnv₂ : Spec.Env :=
  { st := exSt₂, draft := .d2020, refTarget := fun s => if s = 3 then some 0 else none,
    dynInitial := fun s => if s = 3 then some 0 else none, dynName := fun s => if s = 3 then "d" else "",
    resource := fun _ => some 3, dynDecl := fun r name => if r = 3 ∧ name = "d" then some 0 else none,
    reMatch := fun _ _ => false }

def exR (a b : NodeId) : Bool := (a == 0 && b == 3) || (a == 1 && b == 2) || (a == 2 && b == 0)

theorem exR_cases {a b : NodeId} (h : exR a b = true) : (a = 0 ∧ b = 3) ∨ (a = 1 ∧ b = 2) ∨ (a = 2 ∧ b = 0) := by
  simpa only [exR, Bool.or_eq_true, Bool.and_eq_true, beq_iff_eq, or_assoc] using h

theorem exEnvSim : EnvSim (fun a b => exR a b = true) exEnv₁ exEnv₂ := by
  refine TablesSim.toEnvSim ⟨?_, ?_, ?_, ?_, ?_⟩ rfl rfl ?_
  · intro a b h
    rcases exR_cases h with ⟨rfl, rfl⟩ | ⟨rfl, rfl⟩ | ⟨rfl, rfl⟩
    · show exR 2 0 = true
      decide
    · trivial
    · trivial
  · intro a b h
    rcases exR_cases h with ⟨rfl, rfl⟩ | ⟨rfl, rfl⟩ | ⟨rfl, rfl⟩
    · show exR 2 0 = true
      decide
    · trivial
    · trivial
  · intro a b h
    rcases exR_cases h with ⟨rfl, rfl⟩ | ⟨rfl, rfl⟩ | ⟨rfl, rfl⟩ <;> rfl
  · intro a b _
    show exR 0 3 = true
    decide
  · intro r₁ r₂ name h
    rcases exR_cases h with ⟨rfl, rfl⟩ | ⟨rfl, rfl⟩ | ⟨rfl, rfl⟩
    · by_cases hn : name = "d"
      · subst hn
        show exR 2 0 = true
        decide
      · show OptRel _ (if 0 = 0 ∧ name = "d" then some 2 else none) (if 3 = 3 ∧ name = "d" then some 0 else none)
        rw [if_neg (fun h => hn h.2), if_neg (fun h => hn h.2)]
        trivial
    · trivial
    · trivial
  · intro a b h
    rcases exR_cases h with ⟨rfl, rfl⟩ | ⟨rfl, rfl⟩ | ⟨rfl, rfl⟩
    · exact NodeSim.of_check (n₁ := exSt₁[0]) (n₂ := exSt₂[3]) rfl (by decide)
    · exact NodeSim.of_check (n₁ := exSt₁[1]) (n₂ := exSt₂[2]) rfl (by decide)
    · exact NodeSim.of_check (n₁ := exSt₁[2]) (n₂ := exSt₂[0]) rfl (by decide)

/-- `evalFuel_sim` applied: the two copies give every instance the same result -/
example (fuel : Nat) (j : Json) : Spec.evalFuel exEnv₁ fuel [] 0 j = Spec.evalFuel exEnv₂ fuel [] 3 j :=
  evalFuel_sim exEnvSim fuel .nil (by decide) j

/-- … and these results are defined and not all the same: the `$ref` (to `minProperties: 1`), the `$dynamicRef`
    (resolved through the dynamic scope to the same schema), `required` and `properties` are all exercised -/
example : Spec.valid exEnv₁ 3 0 (.obj [("a", .str "x")]) = some true := by decide
example : Spec.valid exEnv₂ 3 3 (.obj [("a", .str "x")]) = some true := by decide
example : Spec.valid exEnv₁ 3 0 (.obj [("a", .num 1)]) = some false := by decide
example : Spec.valid exEnv₁ 3 0 (.obj []) = some false := by decide

/-! ### … and `validate_iso` on two resolved environments over these stores -/

def exVEnv₁ : Go.VEnv :=
  { st := exSt₁, draft := .d2020, reMatch := fun _ _ => false, hash := fun _ => 0,
    infos := [(0, { base := some 0, resolvedRef := some 2, resolvedDynamicRef := some 2, dynamicRefAnchor := "d",
                    anchors := [("d", ⟨2, true⟩)] }),
              (1, { base := some 0 }), (2, { base := some 0 })] }

def exVEnv₂ : Go.VEnv :=
  { st := exSt₂, draft := .d2020, reMatch := fun _ _ => false, hash := fun _ => 0,
    infos := [(3, { base := some 3, resolvedRef := some 0, resolvedDynamicRef := some 0, dynamicRefAnchor := "d",
                    anchors := [("d", ⟨0, true⟩)] }),
              (2, { base := some 3 }), (1, { base := some 3 }), (0, { base := some 3 })] }

theorem exVEnv₁_wf : Refine.EnvWF exVEnv₁ := Refine.EnvWF_of_checks _ (by decide) (by decide) (fun _ _ _ => rfl)
theorem exVEnv₂_wf : Refine.EnvWF exVEnv₂ := Refine.EnvWF_of_checks _ (by decide) (by decide) (fun _ _ _ => rfl)

theorem exVEnvSim : EnvSim (fun a b => exR a b = true) (Refine.specEnvOf exVEnv₁) (Refine.specEnvOf exVEnv₂) := by
  refine TablesSim.toEnvSim ⟨?_, ?_, ?_, ?_, ?_⟩ rfl rfl exEnvSim.node
  · intro a b h
    rcases exR_cases h with ⟨rfl, rfl⟩ | ⟨rfl, rfl⟩ | ⟨rfl, rfl⟩
    · show exR 2 0 = true
      decide
    · trivial
    · trivial
  · intro a b h
    rcases exR_cases h with ⟨rfl, rfl⟩ | ⟨rfl, rfl⟩ | ⟨rfl, rfl⟩
    · show exR 2 0 = true
      decide
    · trivial
    · trivial
  · intro a b h
    rcases exR_cases h with ⟨rfl, rfl⟩ | ⟨rfl, rfl⟩ | ⟨rfl, rfl⟩ <;> rfl
  · intro a b h
    rcases exR_cases h with ⟨rfl, rfl⟩ | ⟨rfl, rfl⟩ | ⟨rfl, rfl⟩ <;> exact (by decide : exR 0 3 = true)
  · intro r₁ r₂ name h
    rcases exR_cases h with ⟨rfl, rfl⟩ | ⟨rfl, rfl⟩ | ⟨rfl, rfl⟩
    · show OptRel _ (match Json.lookup name [("d", (⟨2, true⟩ : Go.AnchorInfo))] with
          | some a => if a.dynamic then some a.schema else none
          | none => none)
        (match Json.lookup name [("d", (⟨0, true⟩ : Go.AnchorInfo))] with
          | some a => if a.dynamic then some a.schema else none
          | none => none)
      simp only [Json.lookup_cons, Json.lookup_nil]
      by_cases hn : "d" = name
      · rw [if_pos hn, if_pos hn]
        show exR 2 0 = true
        decide
      · rw [if_neg hn, if_neg hn]
        trivial
    · trivial
    · trivial

/-- `validate_iso` applied: one Spec result governs the evaluator on both copies -/
example (fuel : Nat) (j : Json) (hj : Json.WF j = true) :
    Refine.Rel j (Spec.evalFuel (Refine.specEnvOf exVEnv₁) fuel [] 0 j)
        (Go.validateFuel exVEnv₁ fuel [] (GoVal.ofJson j) 0) ∧
      Refine.Rel j (Spec.evalFuel (Refine.specEnvOf exVEnv₁) fuel [] 0 j)
        (Go.validateFuel exVEnv₂ fuel [] (GoVal.ofJson j) 3) :=
  validate_iso exVEnv₁ exVEnv₂ exVEnv₁_wf exVEnv₂_wf (Refine.StoreWF_of_check _ (by decide))
    (Refine.StoreWF_of_check _ (by decide)) exVEnvSim fuel .nil (fun _ h => nomatch h) (fun _ h => nomatch h)
    (by decide) j hj

example : Spec.valid (Refine.specEnvOf exVEnv₁) 3 0 (.obj [("a", .str "x")]) = some true := by decide
example : (Go.validateFuel exVEnv₂ 3 [] (GoVal.ofJson (.obj [("a", .str "x")])) 3).isOk = true := by decide
example : (Go.validateFuel exVEnv₂ 3 [] (GoVal.ofJson (.obj [("a", .num 1)])) 3).isOk = false := by decide

end Iso
end JSV
