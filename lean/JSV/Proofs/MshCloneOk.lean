/-
  C20 (stretch): the clone traversal does not run out of fuel on an acyclic subtree, and allocates exactly
  one node per visited node; marshalFuel is stable above the depth.
-/
import JSV.Proofs.MshNode
import JSV.Model.Resolve
namespace JSV
namespace Go

/-! ## Good is monotone in the depth bound -/

theorem Good.mono {B : Nat} {st : Store} : ∀ {d : Nat} {a : NodeId}, Good B st d a → Good B st (d + 1) a
  | 0, _, h => Or.inl h
  | d + 1, _, h => by
    rcases h with h | ⟨n, hn, hch⟩
    · exact Or.inl h
    · exact Or.inr ⟨n, hn, fun x hx => Good.mono (hch x hx)⟩

theorem Good.mono_le {B : Nat} {st : Store} {d k : Nat} {a : NodeId} (h : Good B st d a) (hk : d ≤ k) :
    Good B st k a := by
  induction hk with
  | refl => exact h
  | step _ ih => exact Good.mono ih

/-! ## the number of nodes the clone allocates -/

def sumNat : List Nat → Nat
  | [] => 0
  | x :: xs => x + sumNat xs

theorem sumNat_append : ∀ (l₁ l₂ : List Nat), sumNat (l₁ ++ l₂) = sumNat l₁ + sumNat l₂
  | [], _ => by simp [sumNat]
  | x :: xs, l₂ => by simp [sumNat, sumNat_append xs l₂, Nat.add_assoc]

/-- visited nodes (with repetitions) of the unfolding of `a` to depth `d` -/
def cloneCount (st : Store) : Nat → NodeId → Nat
  | 0, _ => 0
  | d + 1, a =>
    match st.get? a with
    | none => 0
    | some n => 1 + sumNat ((n.childFields.flatMap ChildField.ids).map (cloneCount st d))

/-- what is assumed of the recursive call for progress -/
structure CloneOk (rec : CRec) (Pre : Store → Prop) (P : NodeId → Prop) (cnt : NodeId → Nat) (B : Nat) : Prop where
  call : ∀ x s, Pre s → P x → s.size + cnt x ≤ B →
    ∃ x' s', rec x s = .ok (x', s') ∧ Pre s' ∧ s'.size = s.size + cnt x

section
variable {rec : CRec} {Pre : Store → Prop} {P : NodeId → Prop} {cnt : NodeId → Nat} {B : Nat}

theorem cloneIds_ok (I : CloneOk rec Pre P cnt B) : ∀ (l : List NodeId) (s : Store),
    Pre s → (∀ x, x ∈ l → P x) → s.size + sumNat (l.map cnt) ≤ B →
    ∃ l' s', cloneIds rec l s = .ok (l', s') ∧ Pre s' ∧ s'.size = s.size + sumNat (l.map cnt)
  | [], s, hp, _, _ => ⟨[], s, rfl, hp, rfl⟩
  | x :: xs, s, hp, hP, hb => by
    simp only [List.map_cons, sumNat] at hb ⊢
    obtain ⟨x', s1, h1, hp1, hs1⟩ := I.call x s hp (hP x (by simp)) (by omega)
    obtain ⟨xs', s2, h2, hp2, hs2⟩ := cloneIds_ok I xs s1 hp1 (fun y hy => hP y (by simp [hy])) (by omega)
    refine ⟨x' :: xs', s2, ?_, hp2, by omega⟩
    simp only [cloneIds, h1, h2, Res.bind_ok]

theorem cloneEntries_ok (I : CloneOk rec Pre P cnt B) : ∀ (l : List (String × NodeId)) (s : Store),
    Pre s → (∀ x, x ∈ l.map (·.2) → P x) → s.size + sumNat ((l.map (·.2)).map cnt) ≤ B →
    ∃ l' s', cloneEntries rec l s = .ok (l', s') ∧ Pre s' ∧ s'.size = s.size + sumNat ((l.map (·.2)).map cnt)
  | [], s, hp, _, _ => ⟨[], s, rfl, hp, rfl⟩
  | (k, x) :: xs, s, hp, hP, hb => by
    simp only [List.map_cons, sumNat] at hb ⊢
    obtain ⟨x', s1, h1, hp1, hs1⟩ := I.call x s hp (hP x (by simp)) (by omega)
    obtain ⟨xs', s2, h2, hp2, hs2⟩ := cloneEntries_ok I xs s1 hp1
      (fun y hy => hP y (by simp only [List.map_cons, List.mem_cons]; exact Or.inr hy)) (by omega)
    refine ⟨(k, x') :: xs', s2, ?_, hp2, by omega⟩
    simp only [cloneEntries, h1, h2, Res.bind_ok]

theorem cloneField_ok (I : CloneOk rec Pre P cnt B) (f : ChildField) (s : Store)
    (hp : Pre s) (hP : ∀ x, x ∈ f.ids → P x) (hb : s.size + sumNat (f.ids.map cnt) ≤ B) :
    ∃ f' s', cloneField rec f s = .ok (f', s') ∧ Pre s' ∧ s'.size = s.size + sumNat (f.ids.map cnt) := by
  cases f with
  | one k c =>
    cases c with
    | none => exact ⟨.one k none, s, rfl, hp, rfl⟩
    | some x =>
      simp only [ChildField.ids, Option.toList, List.map_cons, List.map_nil, sumNat, Nat.add_zero] at hb ⊢
      obtain ⟨x', s1, h1, hp1, hs1⟩ := I.call x s hp (hP x (by simp [ChildField.ids])) hb
      refine ⟨.one k (some x'), s1, ?_, hp1, hs1⟩
      simp only [cloneField, cloneOpt, h1, Res.bind_ok]
  | many k cs =>
    cases cs with
    | none => exact ⟨.many k none, s, rfl, hp, rfl⟩
    | some l =>
      obtain ⟨l', s1, h1, hp1, hs1⟩ := cloneIds_ok I l s hp hP hb
      refine ⟨.many k (some l'), s1, ?_, hp1, hs1⟩
      simp only [cloneField, cloneList, h1, Res.bind_ok]
  | keyed k cs =>
    cases cs with
    | none => exact ⟨.keyed k none, s, rfl, hp, rfl⟩
    | some l =>
      obtain ⟨l', s1, h1, hp1, hs1⟩ := cloneEntries_ok I l s hp hP hb
      refine ⟨.keyed k (some l'), s1, ?_, hp1, hs1⟩
      simp only [cloneField, cloneMap, h1, Res.bind_ok]

theorem cloneFields_ok (I : CloneOk rec Pre P cnt B) : ∀ (fs : List ChildField) (s : Store),
    Pre s → (∀ f, f ∈ fs → ∀ x, x ∈ f.ids → P x) →
    s.size + sumNat ((fs.flatMap ChildField.ids).map cnt) ≤ B →
    ∃ fs' s', cloneFields rec fs s = .ok (fs', s') ∧ Pre s' ∧
      s'.size = s.size + sumNat ((fs.flatMap ChildField.ids).map cnt)
  | [], s, hp, _, _ => ⟨[], s, rfl, hp, rfl⟩
  | f :: fs, s, hp, hP, hb => by
    simp only [List.flatMap_cons, List.map_append, sumNat_append] at hb ⊢
    obtain ⟨f', s1, h1, hp1, hs1⟩ := cloneField_ok I f s hp (hP f (by simp)) (by omega)
    obtain ⟨fs', s2, h2, hp2, hs2⟩ := cloneFields_ok I fs s1 hp1 (fun g hg => hP g (by simp [hg])) (by omega)
    refine ⟨f' :: fs', s2, ?_, hp2, by omega⟩
    simp only [cloneFields, h1, h2, Res.bind_ok]

end

/-- progress: on an acyclic subtree of depth ≤ d, fuel d+1 is enough, one node is allocated per visit -/
theorem cloneFuel_ok (B : Nat) (st0 : Store) : ∀ (d : Nat) (a : NodeId) (s : Store),
    Ext st0 s → Good B st0 d a → s.size + cloneCount st0 d a ≤ B →
    ∃ a' s', cloneFuel (d + 1) a s = .ok (a', s') ∧ Ext st0 s' ∧ s'.size = s.size + cloneCount st0 d a := by
  intro d
  induction d with
  | zero =>
    intro a s he hg hb
    have hnone : s.get? a = none := get?_eq_none_iff.2 (Nat.le_trans (by simpa [cloneCount] using hb) hg)
    exact ⟨a, s, cloneStep_none hnone, he, rfl⟩
  | succ d ih =>
    intro a s he hg hb
    show ∃ a' s', cloneStep (cloneFuel (d + 1)) a s = .ok (a', s') ∧ _
    rcases hg with hg | ⟨n, hn, hch⟩
    · have hs : s.size ≤ B := Nat.le_trans (Nat.le_add_right _ _) hb
      have hnone : s.get? a = none := get?_eq_none_iff.2 (Nat.le_trans hs hg)
      have h0 : st0.get? a = none := get?_eq_none_iff.2 (Nat.le_trans he.1 (Nat.le_trans hs hg))
      refine ⟨a, s, cloneStep_none hnone, he, ?_⟩
      simp only [cloneCount, h0, Nat.add_zero]
    · have hcnt : cloneCount st0 (d + 1) a =
          1 + sumNat ((n.childFields.flatMap ChildField.ids).map (cloneCount st0 d)) := by
        simp only [cloneCount, hn]
      rw [hcnt] at hb ⊢
      have I : CloneOk (cloneFuel (d + 1)) (fun s => Ext st0 s) (fun x => Good B st0 d x) (cloneCount st0 d) B :=
        ⟨fun x s hp hP hb => ih x s hp hP hb⟩
      obtain ⟨fs', s1, h1, hp1, hs1⟩ := cloneFields_ok I n.childFields s he
        (fun f hf x hx => hch x (mem_children_iff.2 ⟨f, hf, hx⟩)) (by omega)
      refine ⟨s1.size, s1.push (setChildFields n fs'), ?_, hp1.trans (Ext.push _ _), ?_⟩
      · rw [cloneStep_eq, he.get? hn]
        simp only [h1, Res.bind_ok]
        rfl
      · rw [Array.size_push]; omega

/-! ## marshalFuel is stable above the depth -/

theorem marshalFuel_stable {B : Nat} {st : Store} (hs : st.size ≤ B) :
    ∀ (d : Nat) (a : NodeId), Good B st d a → ∀ f f', d < f → d < f' → marshalFuel st f a = marshalFuel st f' a := by
  intro d
  induction d with
  | zero =>
    intro a hg f f' hf hf'
    obtain ⟨f0, rfl⟩ : ∃ f0, f = f0 + 1 := ⟨f - 1, by omega⟩
    obtain ⟨f0', rfl⟩ : ∃ f0, f' = f0 + 1 := ⟨f' - 1, by omega⟩
    show marshalStep st _ a = marshalStep st _ a
    rw [marshalStep_eq, marshalStep_eq, get?_eq_none_iff.2 (Nat.le_trans hs hg)]
  | succ d ih =>
    intro a hg f f' hf hf'
    obtain ⟨f0, rfl⟩ : ∃ f0, f = f0 + 1 := ⟨f - 1, by omega⟩
    obtain ⟨f0', rfl⟩ : ∃ f0, f' = f0 + 1 := ⟨f' - 1, by omega⟩
    show marshalStep st _ a = marshalStep st _ a
    rw [marshalStep_eq, marshalStep_eq]
    rcases hg with hg | ⟨n, hn, hch⟩
    · rw [get?_eq_none_iff.2 (Nat.le_trans hs hg)]
    · rw [hn]
      dsimp only
      have hm : ∀ x y, (y = x ∧ Good B st d x) →
          mSchema st (marshalFuel st f0) x = mSchema st (marshalFuel st f0') y := by
        rintro x y ⟨rfl, hx⟩
        unfold mSchema
        cases st.get? y with
        | none => rfl
        | some _ => exact ih y hx f0 f0' (by omega) (by omega)
      have hrel : ListRel (FieldRel fun x y => y = x ∧ Good B st d x) n.childFields n.childFields :=
        ListRel.refl_of _ fun f hf => FieldRel.refl_of f fun x hx =>
          ⟨rfl, hch x (mem_children_iff.2 ⟨f, hf, hx⟩)⟩
      have h := marshalNode_congr hm hrel
      have hset : setChildFields n n.childFields = n := rfl
      rw [hset] at h
      rw [h]

/-! ## every tree accepted by checkStructure is `Good` -/

theorem mem_childEntries {n : Node} {x : NodeId} (path : String) (hx : x ∈ n.children) :
    ∃ p, (x, p) ∈ childEntries n path := by
  obtain ⟨f, hf, hxf⟩ := mem_children_iff.1 hx
  unfold childEntries
  cases f with
  | one j c =>
    cases c with
    | none => simp [ChildField.ids] at hxf
    | some c =>
      have hxc : x = c := by simpa [ChildField.ids] using hxf
      subst hxc
      exact ⟨_, List.mem_flatMap.2 ⟨_, hf, List.mem_singleton.2 rfl⟩⟩
  | many j cs =>
    have hxl : x ∈ cs.getD [] := hxf
    have : x ∈ ((cs.getD []).zipIdx).map Prod.fst := by rw [List.zipIdx_map_fst]; exact hxl
    obtain ⟨⟨c, i⟩, hci, hc⟩ := List.mem_map.1 this
    have hc' : c = x := hc
    subst hc'
    exact ⟨_, List.mem_flatMap.2 ⟨_, hf, List.mem_map.2 ⟨(c, i), hci, rfl⟩⟩⟩
  | keyed j cs =>
    have hxl : x ∈ (cs.getD []).map (·.2) := hxf
    obtain ⟨⟨k, c⟩, hkc, hc⟩ := List.mem_map.1 hxl
    have hc' : c = x := hc
    subst hc'
    exact ⟨_, List.mem_flatMap.2 ⟨_, hf, List.mem_map.2 ⟨(k, c), hkc, rfl⟩⟩⟩

theorem checkStructure_good (B : Nat) (st : Store) : ∀ (fuel : Nat) (work : List (NodeId × String))
    (acc acc' : List (NodeId × Info)), checkStructure st fuel work acc = .ok acc' →
    ∀ x p, (x, p) ∈ work → Good B st fuel x := by
  intro fuel
  induction fuel with
  | zero => intro work acc acc' h; cases h
  | succ fuel ih =>
    intro work acc acc' h x p hx
    cases work with
    | nil => cases hx
    | cons w work =>
      obtain ⟨id, path⟩ := w
      simp only [checkStructure] at h
      cases hn : st.get? id with
      | none => rw [hn] at h; cases h
      | some n =>
        rw [hn] at h
        dsimp only at h
        split at h
        · cases h
        · have ih' := ih _ _ _ h
          rcases List.mem_cons.1 hx with hx | hx
          · cases hx
            refine Or.inr ⟨n, hn, fun y hy => ?_⟩
            obtain ⟨q, hq⟩ := mem_childEntries p hy
            exact ih' y q (List.mem_append_left _ hq)
          · exact Good.mono (ih' x p (List.mem_append_right _ hx))

/-- … with the sharper depth bound: the number of nodes checkStructure has visited -/
theorem checkStructure_good' (B : Nat) (st : Store) : ∀ (fuel : Nat) (work : List (NodeId × String))
    (acc acc' : List (NodeId × Info)), checkStructure st fuel work acc = .ok acc' →
    ∃ k, acc'.length = acc.length + k ∧ ∀ x p, (x, p) ∈ work → Good B st k x := by
  intro fuel
  induction fuel with
  | zero => intro work acc acc' h; cases h
  | succ fuel ih =>
    intro work acc acc' h
    cases work with
    | nil =>
      simp only [checkStructure] at h
      cases h
      exact ⟨0, rfl, fun x p hx => by cases hx⟩
    | cons w work =>
      obtain ⟨id, path⟩ := w
      simp only [checkStructure] at h
      cases hn : st.get? id with
      | none => rw [hn] at h; cases h
      | some n =>
        rw [hn] at h
        dsimp only at h
        split at h
        · cases h
        · obtain ⟨k, hk, ih'⟩ := ih _ _ _ h
          refine ⟨k + 1, ?_, fun x p hx => ?_⟩
          · rw [hk, List.length_append]; simp; omega
          · rcases List.mem_cons.1 hx with hx | hx
            · cases hx
              refine Or.inr ⟨n, hn, fun y hy => ?_⟩
              obtain ⟨q, hq⟩ := mem_childEntries path hy
              exact ih' y q (List.mem_append_left _ hq)
            · exact Good.mono (ih' x p (List.mem_append_right _ hx))

theorem lookupNat_isSome_of_mem {α : Type} {k : Nat} : ∀ {l : List (Nat × α)}, k ∈ l.map (·.1) →
    (lookupNat k l).isSome = true
  | [], h => by cases h
  | (k', v) :: l, h => by
    simp only [lookupNat]
    split
    · rfl
    · next hne =>
      simp only [List.map_cons, List.mem_cons] at h
      rcases h with h | h
      · exact absurd h.symm hne
      · exact lookupNat_isSome_of_mem h

/-- the visited ids are pairwise distinct nodes of the store -/
theorem checkStructure_keys (st : Store) : ∀ (fuel : Nat) (work : List (NodeId × String))
    (acc acc' : List (NodeId × Info)), checkStructure st fuel work acc = .ok acc' →
    (acc.map (·.1)).Nodup → (∀ k, k ∈ acc.map (·.1) → k < st.size) →
    (acc'.map (·.1)).Nodup ∧ ∀ k, k ∈ acc'.map (·.1) → k < st.size := by
  intro fuel
  induction fuel with
  | zero => intro work acc acc' h; cases h
  | succ fuel ih =>
    intro work acc acc' h hnd hlt
    cases work with
    | nil =>
      simp only [checkStructure] at h
      cases h
      exact ⟨hnd, hlt⟩
    | cons w work =>
      obtain ⟨id, path⟩ := w
      simp only [checkStructure] at h
      cases hn : st.get? id with
      | none => rw [hn] at h; cases h
      | some n =>
        rw [hn] at h
        dsimp only at h
        split at h
        · cases h
        · next hdup =>
          refine ih _ _ _ h ?_ ?_
          · rw [List.map_append, List.nodup_append]
            refine ⟨hnd, by simp, ?_⟩
            intro a ha b hb hab
            simp only [List.map_cons, List.map_nil, List.mem_singleton] at hb
            subst hab
            subst hb
            exact hdup (lookupNat_isSome_of_mem ha)
          · intro k hk
            rw [List.map_append, List.mem_append] at hk
            rcases hk with hk | hk
            · exact hlt k hk
            · simp only [List.map_cons, List.map_nil, List.mem_singleton] at hk
              subst hk
              exact lt_size_of_get? hn

/-- a tree accepted by checkStructure is acyclic with depth at most the number of nodes of the store -/
theorem good_of_checkStructure (B : Nat) (st : Store) (fuel : Nat) (root : NodeId) (infos : List (NodeId × Info))
    (h : checkStructure st fuel [(root, "")] [] = .ok infos) : Good B st st.size root := by
  obtain ⟨k, hk, hg⟩ := checkStructure_good' B st fuel _ _ _ h
  obtain ⟨hnd, hlt⟩ := checkStructure_keys st fuel _ _ _ h (by simp) (by simp)
  have hlen : (infos.map (·.1)).length ≤ (List.range st.size).length :=
    List.Nodup.length_le_of_subset hnd (fun a ha => List.mem_range.2 (hlt a ha))
  rw [List.length_map, List.length_range] at hlen
  have hk' : k ≤ st.size := by
    simp only [List.length_nil, Nat.zero_add] at hk
    omega
  exact Good.mono_le (hg root "" (List.mem_singleton.2 rfl)) hk'

end Go
end JSV
