/-
  Resolve commutes with the JSON round trip, WITH documents fetched through a Loader.

  `RIso.treeEq_resolves` (JSV/Proofs/ResIsoNorm.lean) normalises the WHOLE store (`st.map Iso.preNorm`, `st.map normT`)
  before it compares the normalised original with the tree read back.  A Loader document lives in the same store, on
  both sides: normalising it on the left only would break the agreement of the two sides on the Loader universe.  So
  here the normal forms are applied OUTSIDE a set `L` of schemas (`mapOff L`): `L` is the Loader universe, shared by
  both sides and untouched; the tree below the root lies outside `L` (in a set `T` closed under the schema-valued
  fields) and is normalised as before.  The three steps are those of `treeEq_resolves`; step (3) is
  `resolve_rel` along the pairing of the two trees extended by the identity on `L` (`PairL`, JSV/Proofs/ResIsoDocs.lean).
-/
import JSV.Proofs.ResIsoNorm
import JSV.Proofs.ResIsoDocs
namespace JSV
namespace Go
namespace RIso
open RInv

/-! ### a normal form applied outside a set of schemas -/

open Classical in
/-- `f` at every schema object whose id is not in `L` -/
noncomputable def mapOff (L : NodeId → Prop) (f : Node → Node) (st : Store) : Store :=
  st.mapIdx fun i n => if L i then n else f n

theorem size_mapOff (L : NodeId → Prop) (f : Node → Node) (st : Store) : (mapOff L f st).size = st.size := by
  unfold mapOff
  exact Array.size_mapIdx

theorem get?_mapOff_in {L : NodeId → Prop} (f : Node → Node) (st : Store) {i : NodeId} (h : L i) :
    (mapOff L f st).get? i = st.get? i := by
  unfold mapOff Store.get?
  rw [Array.getElem?_mapIdx]
  cases st[i]? with
  | none => rfl
  | some n => simp [h]

theorem get?_mapOff_out {L : NodeId → Prop} (f : Node → Node) (st : Store) {i : NodeId} (h : ¬ L i) :
    (mapOff L f st).get? i = (st.get? i).map f := by
  unfold mapOff Store.get?
  rw [Array.getElem?_mapIdx]
  cases st[i]? with
  | none => rfl
  | some n => simp [h]

/-! ### step (1): nil vs empty, outside `L` -/

theorem envRel_preNorm_off (env : Env) (L : NodeId → Prop) (hs : env.st.size ≤ 1000000000) :
    EnvRel Eq env { env with st := mapOff L Iso.preNorm env.st } where
  biu := fun a b a' b' h h' => by subst h; subst h'; exact Iff.rfl
  node := fun a b h => by
    subst h
    show OptRel _ (env.st.get? a) (Store.get? (mapOff L Iso.preNorm env.st) a)
    by_cases hL : L a
    · rw [get?_mapOff_in _ _ hL]
      cases env.st.get? a with
      | none => trivial
      | some n =>
        exact RNode.of_nodeRel (env₁ := env) (env₂ := { env with st := mapOff L Iso.preNorm env.st }) rfl
          (get?_eq_none_iff.2 hs) (get?_eq_none_iff.2 (by rw [size_mapOff]; exact hs))
          (nodeRel_refl n fun _ _ _ _ => rfl)
    · rw [get?_mapOff_out _ _ hL]
      cases env.st.get? a with
      | none => trivial
      | some n => exact rnode_preNorm env { env with st := mapOff L Iso.preNorm env.st } rfl n
  loader := fun t₁ ht₁ => ⟨t₁, ht₁, fun key l₁ hk => ⟨l₁, hk, rfl⟩⟩
  draft7 := rfl

/-! ### step (2): the maps in the order they come back, outside `L` -/

theorem permStore_off (L : NodeId → Prop) (st : Store) (hst : RPerm.StoreKeysNodup st) :
    Inv.permStore (mapOff L Iso.preNorm st) (mapOff L normT st) := by
  refine ⟨by rw [size_mapOff, size_mapOff], fun i => ?_⟩
  by_cases hL : L i
  · rw [get?_mapOff_in _ _ hL, get?_mapOff_in _ _ hL]
    cases st.get? i with
    | none => trivial
    | some n => exact Inv.permNode.refl n
  · rw [get?_mapOff_out _ _ hL, get?_mapOff_out _ _ hL]
    cases hn : st.get? i with
    | none => trivial
    | some n =>
      refine permNode_pre_normT n ?_
      cases hp : n.properties with
      | none => exact List.nodup_nil
      | some l => exact hst i n hn "properties" l (by rw [← hp]; simp [Node.childFields])

theorem keysNodup_preNorm {n : Node} (h : RPerm.KeysNodup n) : RPerm.KeysNodup (Iso.preNorm n) := by
  have h1 : RPerm.StoreKeysNodup #[n] := by
    intro i m hm
    have : m = n := by
      cases i with
      | zero => exact (Option.some.inj hm).symm
      | succ i => exact nomatch hm
    rw [this]
    exact h
  exact storeKeysNodup_preNorm h1 0 (Iso.preNorm n) (by rw [Iso.get?_map]; rfl)

theorem storeKeysNodup_off (L : NodeId → Prop) {st : Store} (hst : RPerm.StoreKeysNodup st) :
    RPerm.StoreKeysNodup (mapOff L Iso.preNorm st) := by
  intro i m hm
  by_cases hL : L i
  · rw [get?_mapOff_in _ _ hL] at hm
    exact hst i m hm
  · rw [get?_mapOff_out _ _ hL] at hm
    cases hn : st.get? i with
    | none => rw [hn] at hm; cases hm
    | some n =>
      rw [hn] at hm
      cases hm
      exact keysNodup_preNorm (hst i n hn)

/-! ### step (3): the tree read back, next to the Loader universe -/

/-- checkStructure only registers schemas of a set that contains the worklist and is closed under the schema-valued
    fields -/
theorem cs_ids_pred (st : Store) (P : NodeId → Prop)
    (hP : ∀ x n, P x → st.get? x = some n → ∀ c, c ∈ n.children → P c) :
    ∀ (fuel : Nat) (work : List (NodeId × String)) (acc res : List (NodeId × Info)),
      checkStructure st fuel work acc = .ok res → (∀ w, w ∈ work → P w.1) → (∀ e, e ∈ acc → P e.1) →
      ∀ e, e ∈ res → P e.1 := by
  intro fuel
  induction fuel with
  | zero => intro work acc res h; rw [RPerm.cs_zero] at h; cases h
  | succ fuel ih =>
    intro work acc res h hwork hacc
    cases work with
    | nil => rw [RPerm.cs_nil] at h; cases h; exact hacc
    | cons w work =>
      obtain ⟨id, path⟩ := w
      obtain ⟨n, hn, _, hrest⟩ := (RPerm.cs_cons_ok _ _ _ _ _ _ _).mp h
      have hid : P id := hwork (id, path) List.mem_cons_self
      refine ih _ _ _ hrest (fun w hw => ?_) (fun e he => ?_)
      · rcases List.mem_append.1 hw with hw | hw
        · have h1 : w.1 ∈ (childEntries n path).map (·.1) := List.mem_map.2 ⟨w, hw, rfl⟩
          rw [childEntries_fst, List.mem_flatMap] at h1
          obtain ⟨fl, hfl, hx⟩ := h1
          exact hP id n hid hn w.1 (mem_children_iff.2 ⟨fl, hfl, hx⟩)
        · exact hwork w (List.mem_cons_of_mem _ hw)
      · rcases List.mem_append.1 he with he | he
        · exact hacc e he
        · rw [List.mem_singleton] at he
          subst he
          exact hid

theorem children_normT_sub (n : Node) {x : NodeId} (hx : x ∈ (normT n).children) : x ∈ n.children := by
  unfold normT at hx
  split at hx
  · rw [← children_eqv (preNorm_fields n)] at hx
    exact hx
  · obtain ⟨f', hf', hxf⟩ := mem_children_iff.1 hx
    exact normNode_ids_sub hf' hxf

/-- the tree read back from a tree of schemas of `T` (closed under the schema-valued fields, disjoint from `L`) is a
    copy, node by node, of the original normalised outside `L` -/
theorem treeEqS_treeSim_off (st st' : Store) (L T : NodeId → Prop)
    (hTcl : ∀ x n, T x → st.get? x = some n → ∀ c, c ∈ n.children → T c) (hLT : ∀ x, L x → ¬ T x) :
    TreeSim (fun x y => T x ∧ TreeEqS st st' x y) (mapOff L normT st) st' := by
  rintro a b ⟨hTa, d, hte, hok⟩
  cases d with
  | zero => exact hte.elim
  | succ d =>
    obtain ⟨n, n', ha, hb, hrel⟩ := hte
    obtain ⟨n0, hn0, hp, hc⟩ := treeAll_succ hok
    rw [ha] at hn0
    cases hn0
    rw [get?_mapOff_out _ _ (fun hL => hLT a hL hTa), ha, hb]
    have hnt : normT n = normNode n := by
      unfold normT
      have : hasDup (n.propertyOrder.getD []) = false := by
        unfold orderOK at hp
        cases h : hasDup (n.propertyOrder.getD []) with
        | false => rfl
        | true => rw [h] at hp; cases hp
      rw [this]
      rfl
    show NodeRel _ (normT n) n'
    rw [hnt]
    have hrel' := Iso.nodeRel_and_left (P := fun x => T x ∧ treeAll orderOK st d x = true) hrel
      (fun f hf' x hx => ⟨hTcl a n hTa ha x (normNode_ids_sub hf' hx), hc x (normNode_ids_sub hf' hx)⟩)
    exact NodeRel.imp (fun x y hxy => ⟨hxy.1.1, d, hxy.2, hxy.1.2⟩) hrel'

/-! ### the three steps together -/

/-- **Resolve commutes with the JSON round trip, next to a shared Loader universe.**  As `treeEq_resolves`, with a
    Loader that hands out documents.  `L` is the Loader universe: a set of schemas (ids; nil ones included) on which the
    two stores agree, closed under the schema-valued fields, containing the root of every document the Loader hands out,
    and disjoint from both trees — from the original because the tree below `a` lies in a set `T` closed under the
    schema-valued fields and disjoint from `L`, from the tree read back by `hd₃`. -/
theorem treeEq_resolves_docs (st st' : Store) (env : Env) (L T : NodeId → Prop) (hk : RPerm.StoreKeysNodup st)
    (hs : st.size ≤ 1000000000) (hs' : st'.size ≤ 1000000000) {a b : NodeId} {d : Nat} (hte : TreeEq st st' d a b)
    (hok : treeAll orderOK st d a = true)
    (hTa : T a) (hTcl : ∀ x n, T x → st.get? x = some n → ∀ c, c ∈ n.children → T c) (hLT : ∀ x, L x → ¬ T x)
    (hLagree : ∀ x, L x → st.get? x = st'.get? x)
    (hLcl : ∀ x n, L x → st.get? x = some n → ∀ f, f ∈ n.childFields → ∀ y, y ∈ f.ids → L y)
    (hLroots : ∀ t key l, env.loader = some t → Json.lookup key t = some (.doc l) → L l)
    (fuel : Nat) (base : String) {rs₀ : Resolved}
    (h₀ : resolve { env with st := st } fuel a base = .ok rs₀) {f₃ : Nat} {fresh₃ : List (NodeId × Info)}
    (hcs₃ : checkStructure st' f₃ [(b, "")] [] = .ok fresh₃) (hd₃ : ∀ x, L x → x ∉ fresh₃.map (·.1)) :
    ∃ rs₃, resolve { env with st := st' } fuel b base = .ok rs₃ ∧ rs₀.draft = rs₃.draft ∧ rs₀.log = rs₃.log ∧
      ∀ (reMatch : String → String → Bool) (vfuel : Nat) (j : Json), Json.WF j = true →
        Inv.OutSim (Spec.evalFuel (specOf st rs₀ reMatch) vfuel [] a j)
          (Spec.evalFuel (specOf st' rs₃ reMatch) vfuel [] b j) := by
  -- step (1)
  obtain ⟨rs₁, h₁, hres₀₁⟩ := resolve_rel (envRel_preNorm_off { env with st := st } L hs) fuel (r₁ := a) (r₂ := a) rfl
    base rs₀ h₀
  -- step (2)
  have hP := RPerm.resolve_rel { env with st := mapOff L Iso.preNorm st } (mapOff L normT st) (permStore_off L st hk)
    (storeKeysNodup_off L hk) fuel a base
  have h₁' : resolve { env with st := mapOff L Iso.preNorm st } fuel a base = .ok rs₁ := h₁
  rw [h₁'] at hP
  cases h₂ : resolve { env with st := mapOff L normT st } fuel a base with
  | fuel => exact absurd hP (by rw [show resolve _ fuel a base = Res.fuel from h₂]; exact fun h => h)
  | panic => exact absurd hP (by rw [show resolve _ fuel a base = Res.panic from h₂]; exact fun h => h)
  | err => exact absurd hP (by rw [show resolve _ fuel a base = Res.err from h₂]; exact fun h => h)
  | ok rs₂ =>
    have hP' : RPerm.ResolvedRel rs₁ rs₂ := by
      rw [show resolve _ fuel a base = Res.ok rs₂ from h₂] at hP
      exact hP
    obtain ⟨hroot₁₂, hdraft₁₂, hlog₁₂, hinfos₁₂⟩ := hP'
    -- step (3)
    have hS := treeEqS_treeSim_off st st' L T hTcl hLT
    have hr : T a ∧ TreeEqS st st' a b := ⟨hTa, d, hte, hok⟩
    obtain ⟨fresh₂, hcs₂⟩ := resolve_ok_cs { env with st := mapOff L normT st } fuel a base rs₂ h₂
    have hTcl₂ : ∀ x n, T x → (mapOff L normT st).get? x = some n → ∀ c, c ∈ n.children → T c := by
      intro x n hx hn c hc
      rw [get?_mapOff_out _ _ (fun hL => hLT x hL hx)] at hn
      cases hn0 : st.get? x with
      | none => rw [hn0] at hn; cases hn
      | some n0 =>
        rw [hn0] at hn
        cases hn
        exact hTcl x n0 hx hn0 c (children_normT_sub n0 hc)
    have hd₂ : ∀ x, L x → x ∉ fresh₂.map (·.1) := by
      intro x hx hm
      obtain ⟨e, he, rfl⟩ := List.mem_map.1 hm
      exact hLT e.1 hx (cs_ids_pred _ T hTcl₂ _ _ _ _ hcs₂
        (fun w hw => by rw [List.mem_singleton] at hw; subst hw; exact hTa) (fun _ he' => nomatch he') e he)
    have hL : DocsOK { env with st := mapOff L normT st } { env with st := st' } L := by
      refine ⟨fun x hx => ?_, fun x n hx hn => ?_, hLroots⟩
      · show (mapOff L normT st).get? x = st'.get? x
        rw [get?_mapOff_in _ _ hx]
        exact hLagree x hx
      · have hn' : (mapOff L normT st).get? x = some n := hn
        rw [get?_mapOff_in _ _ hx] at hn'
        exact hLcl x n hx hn'
    have hnil₂ : (mapOff L normT st).get? 1000000000 = none :=
      get?_eq_none_iff.2 (by rw [size_mapOff]; exact hs)
    have hnil₃ : st'.get? 1000000000 = none := get?_eq_none_iff.2 hs'
    have hE := envRel_of_trees_docs (env₁ := { env with st := mapOff L normT st }) (env₂ := { env with st := st' })
      hS rfl rfl rfl hnil₂ hnil₃ hr hcs₂ hcs₃ hL hd₂ hd₃
    have hab : PairL (fun x y => T x ∧ TreeEqS st st' x y) fresh₂ fresh₃ L a b :=
      Or.inl (pairR_root hS hr hcs₂ hcs₃)
    obtain ⟨rs₃, h₃, hres₂₃⟩ := resolve_rel hE fuel hab base rs₂ h₂
    have hnode := pairL_nodeRel (env₁ := { env with st := mapOff L normT st }) (env₂ := { env with st := st' })
      hS hr hcs₂ hcs₃ hL
    refine ⟨rs₃, h₃, ?_, ?_, ?_⟩
    · rw [hres₀₁.draft, ← hdraft₁₂, hres₂₃.draft]
    · rw [hres₀₁.log, ← hlog₁₂, hres₂₃.log]
    · intro reMatch vfuel j hj
      -- V0: nil vs empty
      have hn₀ : ∀ x y, x = y → OptRel (Iso.NodeSim Eq) (st.get? x) (Store.get? (mapOff L Iso.preNorm st) y) := by
        intro x y hxy
        subst hxy
        by_cases hLx : L x
        · rw [get?_mapOff_in _ _ hLx]
          cases st.get? x with
          | none => trivial
          | some n => exact Iso.NodeSim.of_nodeRel (nodeRel_refl n fun _ _ _ _ => rfl)
        · rw [get?_mapOff_out _ _ hLx]
          cases st.get? x with
          | none => trivial
          | some n => exact Iso.preNorm_invisible n
      have V0 := Iso.evalFuel_sim (envSim_of_resolved hres₀₁ hn₀ reMatch) vfuel .nil (rfl : a = a) j
      -- V1: the order of the maps
      have V1 := Inv.evalFuel_sim (specOf (mapOff L Iso.preNorm st) rs₁ reMatch) (mapOff L Iso.preNorm st)
        (mapOff L normT st) (permStore_off L st hk) (storeWF_of_keysNodup (storeKeysNodup_off L hk)) vfuel [] a j j
        (Inv.permJson_refl j) hj
      -- V2: the renaming
      have hres₁₃ : ResolvedRel (PairL (fun x y => T x ∧ TreeEqS st st' x y) fresh₂ fresh₃ L) rs₁ rs₃ := by
        refine ⟨?_, ?_, ?_, ?_⟩
        · rw [← hroot₁₂]; exact hres₂₃.root
        · rw [← hdraft₁₂]; exact hres₂₃.draft
        · rw [← hlog₁₂]; exact hres₂₃.log
        · intro x y hxy
          rw [← hinfos₁₂ x]
          exact hres₂₃.infos x y hxy
      have V2 := evalFuel_of_resolvedRel (st₁ := mapOff L normT st) (st₂ := st') hres₁₃ hnode hab reMatch vfuel j
      rw [V0, ← V2]
      exact V1

end RIso
end Go
end JSV
