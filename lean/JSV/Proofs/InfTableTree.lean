/-
  C04 with entries of the type table that are reference-free schema TREES (objects with `properties`, `items`, `allOf`,
  `anyOf`, `if`/`then`/`else`, `additionalProperties`, `unevaluated*` …): the clone `forType` makes of the entry — with
  `null` added to the types of its ROOT for a pointer — validates like the entry, in the store `forType` returns and in
  every later one.

  Ingredients:
  * under `specEnvNoRefs` the dynamic scope is never read (`evalFuel_scope`);
  * `TSim st st' k a b`: the subtree of `b` in `st'` is, for `Spec.evalStep`, a copy of the full reference-free tree of
    depth `≤ k` at `a` in `st` (`Iso.NodeSim` at every node: descriptions and ids may differ); it survives every later
    change of the right store that keeps the nodes up to their descriptions (`TSim.mono_right`), and it is an
    `Iso.EnvSim`, so related nodes validate alike (`Iso.evalFuel_sim`);
  * `CloneSchemas` of a full reference-free tree produces a `TSim` copy (`clone_tsim`, from `Go.cloneFuel_sim`), whose
    children live in the store BEFORE the root of the clone is pushed — so rewriting the root afterwards (`tableNull`)
    does not touch them;
  * one schema object whose subschemas are `TSim`-related (`evalFuel_root`), and adding `null` to the types of a schema
    object that has a type keyword loses no instance (`specBody_tableNull`).
-/
import JSV.Proofs.InfTable
import JSV.Proofs.IsoValid
import JSV.Proofs.RefineSpecMono
namespace JSV
namespace Iso
open Go (ListRel OptRel KeyRel)
open Spec

/-! ## the dynamic scope is not read without references -/

theorem kwDynamicRef_noRefs (st : Store) (re : String → String → Bool) (sub : NodeId → Json → Out)
    (sc sc' : List NodeId) (s : NodeId) (n : Node) (j : Json) :
    kwDynamicRef (specEnvNoRefs st re) sub sc s n j = kwDynamicRef (specEnvNoRefs st re) sub sc' s n j := by
  unfold kwDynamicRef
  rfl

theorem evalStep_scope (st : Store) (re : String → String → Bool) {rec : Rec} (hrec : ∀ sc sc', rec sc = rec sc')
    (sc sc' : List NodeId) : evalStep (specEnvNoRefs st re) rec sc = evalStep (specEnvNoRefs st re) rec sc' := by
  funext s j
  rw [Inv.evalStep_unfold, Inv.evalStep_unfold]
  cases (specEnvNoRefs st re).st.get? s with
  | none => rfl
  | some n =>
    simp only [Inv.specBody, Inv.kwList]
    rw [hrec (sc ++ [s]) (sc' ++ [s]), kwDynamicRef_noRefs st re _ (sc ++ [s]) (sc' ++ [s])]

/-- **under `specEnvNoRefs` the result does not depend on the dynamic scope** -/
theorem evalFuel_scope (st : Store) (re : String → String → Bool) :
    ∀ (f : Nat) (sc sc' : List NodeId), evalFuel (specEnvNoRefs st re) f sc = evalFuel (specEnvNoRefs st re) f sc'
  | 0, _, _ => rfl
  | f + 1, sc, sc' => evalStep_scope st re (evalFuel_scope st re f) sc sc'

/-! ## `NodeSim` under a weaker relation, another description, `null` added to the types -/

theorem NodeSim.imp {R S : NodeId → NodeId → Prop} (h : ∀ a b, R a b → S a b) {n₁ n₂ : Node} (hn : NodeSim R n₁ n₂) :
    NodeSim S n₁ n₂ where
  scal := hn.scal
  allOf := ListRel.imp h hn.allOf
  anyOf := OptRel.imp (fun _ _ => ListRel.imp h) hn.anyOf
  oneOf := OptRel.imp (fun _ _ => ListRel.imp h) hn.oneOf
  not := OptRel.imp h hn.not
  if_ := OptRel.imp h hn.if_
  then_ := OptRel.imp h hn.then_
  else_ := OptRel.imp h hn.else_
  prefixItems := ListRel.imp h hn.prefixItems
  items := OptRel.imp h hn.items
  itemsArray := OptRel.imp (fun _ _ => ListRel.imp h) hn.itemsArray
  additionalItems := OptRel.imp h hn.additionalItems
  contains := OptRel.imp h hn.contains
  unevaluatedItems := OptRel.imp h hn.unevaluatedItems
  properties := fun k => OptRel.imp h (hn.properties k)
  patternProperties := ListRel.imp (KeyRel.imp h) hn.patternProperties
  additionalProperties := OptRel.imp h hn.additionalProperties
  propertyNames := OptRel.imp h hn.propertyNames
  unevaluatedProperties := OptRel.imp h hn.unevaluatedProperties
  dependentSchemas := ListRel.imp (KeyRel.imp h) hn.dependentSchemas
  dependencySchemas := ListRel.imp (KeyRel.imp h) hn.dependencySchemas

/-- the description is not read -/
theorem NodeSim.desc {R : NodeId → NodeId → Prop} {n₁ n₂ : Node} (hn : NodeSim R n₁ n₂) (d : String) :
    NodeSim R n₁ { n₂ with description := d } where
  scal := hn.scal
  allOf := hn.allOf
  anyOf := hn.anyOf
  oneOf := hn.oneOf
  not := hn.not
  if_ := hn.if_
  then_ := hn.then_
  else_ := hn.else_
  prefixItems := hn.prefixItems
  items := hn.items
  itemsArray := hn.itemsArray
  additionalItems := hn.additionalItems
  contains := hn.contains
  unevaluatedItems := hn.unevaluatedItems
  properties := hn.properties
  patternProperties := hn.patternProperties
  additionalProperties := hn.additionalProperties
  propertyNames := hn.propertyNames
  unevaluatedProperties := hn.unevaluatedProperties
  dependentSchemas := hn.dependentSchemas
  dependencySchemas := hn.dependencySchemas

/-- `tableNull` reads and writes `type` / `types` only -/
theorem NodeSim.tableNull {R : NodeId → NodeId → Prop} {n₁ n₂ : Node} (hn : NodeSim R n₁ n₂) (b : Bool) :
    NodeSim R (Go.tableNull b n₁) (Go.tableNull b n₂) := by
  have ht : n₁.type = n₂.type := congrArg (·.type) hn.scal
  have hts : n₁.types = n₂.types := congrArg (·.types) hn.scal
  have hsc := hn.scal
  unfold Go.tableNull
  rw [← ht, ← hts]
  split
  · split
    · exact { hn with scal := by simp only [scalarView] at hsc ⊢; simp only [Node.mk.injEq] at hsc ⊢; simp [hsc] }
    · split
      · exact { hn with scal := by simp only [scalarView] at hsc ⊢; simp only [Node.mk.injEq] at hsc ⊢; simp [hsc] }
      · exact hn
  · exact hn

/-! ## copies of full reference-free trees, as `Spec.evalStep` sees them -/

/-- `TSim st st' k a b`: the tree at `a` in `st` is full (no nil child), at most `k` deep and reference-free, and the
    subtree of `b` in `st'` looks the same to `Spec.evalStep`, node by node (`NodeSim`) -/
def TSim (st st' : Store) : Nat → NodeId → NodeId → Prop
  | 0, _, _ => False
  | k + 1, a, b => ∃ n n', st.get? a = some n ∧ st'.get? b = some n' ∧ n.ref = "" ∧ n.dynamicRef = "" ∧
      NodeSim (TSim st st' k) n n'

/-- … at some depth -/
def TSimS (st st' : Store) (a b : NodeId) : Prop := ∃ k, TSim st st' k a b

/-- the right store may change as long as every node stays, up to its description -/
theorem TSim.mono_right {st st' st'' : Store} (h : Go.DExt st' st'') :
    ∀ (k : Nat) (a b : NodeId), TSim st st' k a b → TSim st st'' k a b
  | 0, _, _, hs => hs.elim
  | k + 1, _, b, ⟨n, n', ha, hb, h1, h2, hn⟩ => by
    obtain ⟨d, hd⟩ := h b n' hb
    exact ⟨n, _, ha, hd, h1, h2, (hn.imp (TSim.mono_right h k)).desc d⟩

/-- the left store may grow -/
theorem TSim.mono_left {st0 st st' : Store} (h : Go.Ext st0 st) :
    ∀ (k : Nat) (a b : NodeId), TSim st0 st' k a b → TSim st st' k a b
  | 0, _, _, hs => hs.elim
  | k + 1, _, _, ⟨n, n', ha, hb, h1, h2, hn⟩ => ⟨n, n', h.get? ha, hb, h1, h2, hn.imp (TSim.mono_left h k)⟩

theorem TSimS.mono_right {st st' st'' : Store} (h : Go.DExt st' st'') {a b : NodeId} (hs : TSimS st st' a b) :
    TSimS st st'' a b := hs.imp fun k hk => TSim.mono_right h k a b hk

theorem TSimS.mono_left {st0 st st' : Store} (h : Go.Ext st0 st) {a b : NodeId} (hs : TSimS st0 st' a b) :
    TSimS st st' a b := hs.imp fun k hk => TSim.mono_left h k a b hk

/-- the two stores, without references, simulate each other along `TSimS` -/
theorem tsim_envSim (st st' : Store) (re : String → String → Bool) :
    EnvSim (TSimS st st') (specEnvNoRefs st re) (specEnvNoRefs st' re) := by
  refine EnvSim.of_refFree rfl rfl (fun a b h => ?_) (fun a _ n h hn => ?_)
  · obtain ⟨k, hk⟩ := h
    cases k with
    | zero => exact hk.elim
    | succ k =>
      obtain ⟨n, n', ha, hb, -, -, hn⟩ := hk
      show OptRel _ (st.get? a) (st'.get? b)
      rw [ha, hb]
      exact hn.imp fun x y hxy => ⟨k, hxy⟩
  · obtain ⟨k, hk⟩ := h
    cases k with
    | zero => exact hk.elim
    | succ k =>
      obtain ⟨n0, n', ha, hb, h1, h2, -⟩ := hk
      have : n0 = n := by
        have hn' : st.get? a = some n := hn
        rw [ha] at hn'
        exact Option.some.inj hn'
      subst this
      exact ⟨h1, h2⟩

/-- related subtrees give every instance the same result, whatever the dynamic scopes -/
theorem tsim_eval {st st' : Store} (re : String → String → Bool) {a b : NodeId} (h : TSimS st st' a b) (f : Nat)
    (sc sc' : List NodeId) (j : Json) :
    evalFuel (specEnvNoRefs st re) f sc a j = evalFuel (specEnvNoRefs st' re) f sc' b j := by
  rw [evalFuel_scope st re f sc [], evalFuel_scope st' re f sc' []]
  exact evalFuel_sim (tsim_envSim st st' re) f .nil h j

/-! ## one schema object over related subschemas -/

/-- `Iso.specBody_iso` for a reference-free schema object given explicitly: nothing is asked of the ids `s₁`, `s₂` at
    which it is evaluated, only of its subschemas -/
theorem specBody_root {R : NodeId → NodeId → Prop} {e₁ e₂ : Spec.Env} (hd : e₁.draft = e₂.draft)
    (hre : e₁.reMatch = e₂.reMatch) {rec₁ rec₂ : Spec.Rec} {sc₁ sc₂ : List NodeId} {s₁ s₂ : NodeId}
    (hsub : SubIso R (rec₁ (sc₁ ++ [s₁])) (rec₂ (sc₂ ++ [s₂]))) (j : Json) {n₁ n₂ : Node} (hr : n₁.ref = "")
    (hdr : n₁.dynamicRef = "") (hn : NodeSim R n₁ n₂) :
    Inv.specBody e₁ rec₁ sc₁ s₁ j n₁ = Inv.specBody e₂ rec₂ sc₂ s₂ j n₂ := by
  have href : n₁.ref = n₂.ref := scal_ref hn.scal
  have hdr' : n₁.dynamicRef = n₂.dynamicRef := scal_dynamicRef hn.scal
  have hkref := kwRef_iso hsub (e₁ := e₁) (e₂ := e₂) (s₁ := s₁) (s₂ := s₂) href (fun h => absurd hr h) j
  have hdrv : (Spec.vocab e₁.draft n₁).dynamicRef = (Spec.vocab e₂.draft n₂).dynamicRef := by
    rw [hd]; simp only [Spec.vocab, hdr']
  have hkdyn := kwDynamicRef_iso hsub (e₁ := e₁) (e₂ := e₂) (sc₁ := sc₁ ++ [s₁]) (sc₂ := sc₂ ++ [s₂]) (s₁ := s₁)
    (s₂ := s₂) (n₁ := Spec.vocab e₁.draft n₁) (n₂ := Spec.vocab e₂.draft n₂) hdrv
    (fun h => absurd (by cases e₁.draft <;> simp [Spec.vocab, hdr]) h) j
  have hkl : Inv.kwList e₁ rec₁ sc₁ s₁ j n₁ = Inv.kwList e₂ rec₂ sc₂ s₂ j n₂ := by
    unfold Inv.kwList
    rw [hkref, hkdyn, kwAllOf_iso hsub hn.allOf j, kwAnyOf_iso hsub hn.anyOf j, kwOneOf_iso hsub hn.oneOf j,
      kwNot_iso hsub hn.not j, kwIf_iso hsub hn.if_ hn.then_ hn.else_ j, kwItems_iso hsub hd hn j,
      kwContains_iso hsub (n₁ := Spec.vocab e₁.draft n₁) (n₂ := Spec.vocab e₂.draft n₂) hn.contains
        (by rw [hd]; simp only [Spec.vocab, scal_minContains hn.scal])
        (by rw [hd]; simp only [Spec.vocab, scal_maxContains hn.scal]) j,
      kwProps_iso hsub hre hn.properties hn.patternProperties hn.additionalProperties j,
      kwPropertyNames_iso hsub hn.propertyNames j,
      kwDependentSchemas_iso hsub hd hn.dependentSchemas hn.dependencySchemas j]
  have hvi : OptRel R (Spec.vocab e₁.draft n₁).unevaluatedItems (Spec.vocab e₂.draft n₂).unevaluatedItems := by
    rw [hd]
    cases e₂.draft
    · trivial
    · exact hn.unevaluatedItems
  have hvp : OptRel R (Spec.vocab e₁.draft n₁).unevaluatedProperties
      (Spec.vocab e₂.draft n₂).unevaluatedProperties := by
    rw [hd]
    cases e₂.draft
    · trivial
    · exact hn.unevaluatedProperties
  have hui : Spec.kwUnevaluatedItems (rec₁ (sc₁ ++ [s₁])) (Spec.vocab e₁.draft n₁) j =
      Spec.kwUnevaluatedItems (rec₂ (sc₂ ++ [s₂])) (Spec.vocab e₂.draft n₂) j :=
    funext fun ev => kwUnevaluatedItems_iso hsub hvi j ev
  have hup : Spec.kwUnevaluatedProps (rec₁ (sc₁ ++ [s₁])) (Spec.vocab e₁.draft n₁) j =
      Spec.kwUnevaluatedProps (rec₂ (sc₂ ++ [s₂])) (Spec.vocab e₂.draft n₂) j :=
    funext fun ev => kwUnevaluatedProps_iso hsub hvp j ev
  unfold Inv.specBody
  rw [hkl, hui, hup, hkref, assertsOf_iso hd hre hn.scal j, hd, href]

/-- a reference-free schema object `n`, evaluated anywhere over the store `st`, against a schema object in `st'` that
    looks the same and whose subschemas are copies of those of `n` -/
theorem specBody_eval {st st' : Store} (re : String → String → Bool) {b : NodeId} {n n' : Node}
    (hb : st'.get? b = some n') (hr : n.ref = "") (hdr : n.dynamicRef = "") (hn : NodeSim (TSimS st st') n n')
    (f : Nat) (sc : List NodeId) (a : NodeId) (sc' : List NodeId) (j : Json) :
    Inv.specBody (specEnvNoRefs st re) (evalFuel (specEnvNoRefs st re) f) sc a j n =
      evalFuel (specEnvNoRefs st' re) (f + 1) sc' b j := by
  show _ = evalStep (specEnvNoRefs st' re) (evalFuel (specEnvNoRefs st' re) f) sc' b j
  rw [Inv.evalStep_unfold]
  show _ = (match st'.get? b with
    | none => none
    | some n => Inv.specBody (specEnvNoRefs st' re) (evalFuel (specEnvNoRefs st' re) f) sc' b j n)
  rw [hb]
  exact specBody_root (R := TSimS st st') rfl rfl (fun t₁ t₂ j' ht => tsim_eval re ht f _ _ j') j hr hdr hn

/-- the schema object at `a` -/
theorem evalFuel_specBody {st : Store} (re : String → String → Bool) {a : NodeId} {n : Node} (ha : st.get? a = some n)
    (f : Nat) (sc : List NodeId) (j : Json) :
    evalFuel (specEnvNoRefs st re) (f + 1) sc a j =
      Inv.specBody (specEnvNoRefs st re) (evalFuel (specEnvNoRefs st re) f) sc a j n := by
  show evalStep (specEnvNoRefs st re) (evalFuel (specEnvNoRefs st re) f) sc a j = _
  rw [Inv.evalStep_unfold]
  show (match st.get? a with
    | none => none
    | some n => Inv.specBody (specEnvNoRefs st re) (evalFuel (specEnvNoRefs st re) f) sc a j n) = _
  rw [ha]

/-! ## `null` added to the types of a schema object -/

theorem tableNull_eq (b : Bool) (n : Node) :
    Go.tableNull b n = { n with type := (Go.tableNull b n).type, types := (Go.tableNull b n).types } := by
  unfold Go.tableNull
  split
  · split
    · rfl
    · split <;> rfl
  · rfl

/-- adding `null` to the types of a schema object that has a type keyword (not D17) loses no instance: only the
    `type` assertion changes -/
theorem specBody_tableNull {env : Env} {rec : Rec} {sc : List NodeId} {s : NodeId} {j : Json} {n : Node} (b : Bool)
    (ht : b = true → (n.type ≠ "" ∨ n.types.isSome = true)) (h : Valid (Inv.specBody env rec sc s j n)) :
    Valid (Inv.specBody env rec sc s j (Go.tableNull b n)) := by
  have hk : Inv.kwList env rec sc s j (Go.tableNull b n) = Inv.kwList env rec sc s j n := by
    rw [tableNull_eq]; rfl
  have hui : kwUnevaluatedItems (rec (sc ++ [s])) (Spec.vocab env.draft (Go.tableNull b n)) j =
      kwUnevaluatedItems (rec (sc ++ [s])) (Spec.vocab env.draft n) j := by
    rw [tableNull_eq]; rfl
  have hup : kwUnevaluatedProps (rec (sc ++ [s])) (Spec.vocab env.draft (Go.tableNull b n)) j =
      kwUnevaluatedProps (rec (sc ++ [s])) (Spec.vocab env.draft n) j := by
    rw [tableNull_eq]; rfl
  have href : (Go.tableNull b n).ref = n.ref := by rw [tableNull_eq]
  have hkr : kwRef env (rec (sc ++ [s])) s (Go.tableNull b n) j = kwRef env (rec (sc ++ [s])) s n j := by
    rw [tableNull_eq]; rfl
  unfold Inv.specBody at h ⊢
  rw [hk, hui, hup, href, hkr]
  split
  · rename_i hc
    rw [if_pos hc] at h
    exact h
  · rename_i hc
    rw [if_neg hc] at h
    cases hs : sequence (Inv.kwList env rec sc s j n) with
    | none => rw [hs] at h; obtain ⟨e, he⟩ := h; cases he
    | some rs =>
      rw [hs] at h
      show Valid (Refine.specTail _ _ _ _)
      change Valid (Refine.specTail _ _ _ _) at h
      have ha : Inv.assertsOf env n j = true := by
        unfold Refine.specTail at h
        cases hcj : conj rs with
        | none => rw [hcj] at h; obtain ⟨e, he⟩ := h; cases he
        | some ev0 =>
          rw [hcj] at h
          cases hA : Inv.assertsOf env n j with
          | true => rfl
          | false => rw [hA] at h; obtain ⟨e, he⟩ := h; cases he
      have ha' : Inv.assertsOf env (Go.tableNull b n) j = true := EncJson.asserts_tableNull (env := env) b ht ha
      rw [ha'] 
      rw [ha] at h
      exact h

/-! ## from the clone relation `Go.Sim` -/

theorem good_of_treeAll {P : Node → Bool} (B : Nat) {st : Store} : ∀ {d : Nat} {a : NodeId},
    Go.treeAll P st d a = true → Go.Good B st d a
  | 0, _, h => by cases h
  | d + 1, a, h => by
    obtain ⟨n, hn, -, hc⟩ := Go.treeAll_succ h
    exact Or.inr ⟨n, hn, fun x hx => good_of_treeAll B (hc x hx)⟩

/-- a `Go.Sim` copy of a full reference-free tree is a `TSim` copy -/
theorem tsim_of_sim {B : Nat} {st st' : Store} (hs : st.size ≤ B) : ∀ {k : Nat} {a b : NodeId},
    Go.treeAll noRefs st k a = true → Go.Sim B st st' k a b → TSim st st' k a b
  | 0, _, _, h, _ => by cases h
  | k + 1, a, b, h, hsim => by
    obtain ⟨n, hn, hp, hc⟩ := Go.treeAll_succ h
    rcases hsim with ⟨hB, -⟩ | ⟨n0, n', ha, hb, hrel⟩
    · exact absurd (Nat.lt_of_lt_of_le (Go.lt_size_of_get? hn) hs) (Nat.not_lt_of_le hB)
    · have : n0 = n := by rw [hn] at ha; exact (Option.some.inj ha).symm
      subst this
      have hrel' := nodeRel_and_left (P := fun x => Go.treeAll noRefs st k x = true) hrel
        (fun f hf' x hx => hc x (Go.mem_children_iff.2 ⟨f, hf', hx⟩))
      obtain ⟨h1, h2⟩ := noRefs_iff.1 hp
      exact ⟨n0, n', hn, hb, h1, h2,
        NodeSim.of_nodeRel (Go.NodeRel.imp (fun x y hxy => tsim_of_sim hs hxy.1 hxy.2) hrel')⟩

/-- **`CloneSchemas` of a full reference-free tree**: the clone's root is pushed last, onto a store `s'` in which its
    subschemas already are copies of the subschemas of the original -/
theorem clone_root {st0 st : Store} (hext : Go.Ext st0 st) {d : Nat} {sid : NodeId}
    (ht : Go.treeAll noRefs st0 d sid = true) {c : NodeId} {st1 : Store} (h : Go.clone st sid = .ok (c, st1)) :
    ∃ n cn s', st0.get? sid = some n ∧ n.ref = "" ∧ n.dynamicRef = "" ∧ c = s'.size ∧ st1 = s'.push cn ∧
      Go.Ext st s' ∧ NodeSim (TSimS st0 s') n cn := by
  cases d with
  | zero => cases ht
  | succ d =>
    obtain ⟨n, hn, hp, hc⟩ := Go.treeAll_succ ht
    obtain ⟨h1, h2⟩ := noRefs_iff.1 hp
    change Go.cloneStep (Go.cloneFuel (st.size + 1)) sid st = _ at h
    obtain ⟨fs', s', hcf, rfl, rfl⟩ := Go.cloneStep_some (hext.get? hn) h
    have I := Go.cloneInv_sim s'.size st0 d (st.size + 1)
      (fun he hg hcl hsz => Go.cloneFuel_sim s'.size st0 (st.size + 1) d he hg hcl hsz)
    have r := Go.cloneFields_inv I hext
      (fun f hf x hx => good_of_treeAll s'.size (hc x (Go.mem_children_iff.2 ⟨f, hf, hx⟩))) hcf
    have hs0 : st0.size ≤ s'.size := Nat.le_trans hext.1 r.1.1
    have hrel : Go.NodeRel (Go.Sim s'.size st0 s' d) n (Go.setChildFields n fs') :=
      ⟨fs', ListRel.imp (Go.FieldRel.imp fun x y hr => hr (Nat.le_refl _)) r.2, rfl⟩
    have hrel' := nodeRel_and_left (P := fun x => Go.treeAll noRefs st0 d x = true) hrel
      (fun f hf' x hx => hc x (Go.mem_children_iff.2 ⟨f, hf', hx⟩))
    exact ⟨n, _, s', hn, h1, h2, rfl, rfl, r.1,
      NodeSim.of_nodeRel (Go.NodeRel.imp (fun x y hxy => ⟨d, tsim_of_sim hs0 hxy.1 hxy.2⟩) hrel')⟩

/-- a defined answer of the Spec is stable under more fuel -/
theorem evalFuel_stable (env : Spec.Env) (sc : List NodeId) (s : NodeId) (j : Json) (n : Nat) (r : Spec.R)
    (h : evalFuel env n sc s j = some r) : ∀ m, n ≤ m → evalFuel env m sc s j = some r := by
  intro m hm
  induction m with
  | zero =>
    have : n = 0 := by omega
    subst this; exact h
  | succ m ih =>
    by_cases hn : n = m + 1
    · subst hn; exact h
    · exact Refine.evalFuel_mono env m sc s j r (ih (by omega))

theorem valid_stable {env : Spec.Env} {sc : List NodeId} {s : NodeId} {j : Json} {n m : Nat}
    (h : Valid (evalFuel env n sc s j)) (hm : n ≤ m) : Valid (evalFuel env m sc s j) := by
  obtain ⟨e, he⟩ := h
  exact ⟨e, evalFuel_stable env sc s j n _ he m hm⟩

end Iso

namespace Go
open EncJson Spec Iso

/-- **the clone of a tree entry, with `null` added to its root for a pointer, means what the entry means** — in the
    store `forType` leaves and in every later one.  `F`: the fuel with which the entry accepts the encodings. -/
theorem namedLeaf_table {st0 st : Store} (hext : Ext st0 st) {d : Nat} {sid : NodeId} {n : Node}
    (ht : treeAll noRefs st0 d sid = true) (hn : st0.get? sid = some n) {c : NodeId} {st1 : Store} {cn : Node}
    (h : clone st sid = .ok (c, st1)) (hc : st1.get? c = some cn) (u : GoType) (an : Bool) (F : Nat)
    (hF : F ≤ depth u + 1)
    (hv : ∀ re v, HasType u v → Spec.valid (specEnvNoRefs st0 re) F sid (encode u v) = some true)
    (hnull : an = true → (n.type ≠ "" ∨ n.types.isSome = true) ∧
      ∀ re, Spec.valid (specEnvNoRefs (st0.push (tableNull true n)) re) F st0.size .null = some true) :
    NamedLeaf (st1.set! c (tableNull an cn)) u an c := by
  obtain ⟨n0, cn0, s', hn0, hr, hdr, rfl, rfl, hss, hns⟩ := clone_root hext ht h
  have : n0 = n := by rw [hn] at hn0; exact (Option.some.inj hn0).symm
  subst this
  have : cn0 = cn := by rw [get?_push_size] at hc; exact Option.some.inj hc
  subst this
  rw [set!_push_size]
  intro st'' hd re f scope hf
  obtain ⟨f, rfl⟩ : ∃ f', f = f' + 1 := ⟨f - 1, by omega⟩
  obtain ⟨d', hget⟩ := hd s'.size _ (get?_push_size s' (tableNull an cn0))
  have hd' : DExt s' st'' := (Ext.push s' _).toDExt.trans hd
  have hns'' : NodeSim (TSimS st0 st'') (tableNull an n0) { tableNull an cn0 with description := d' } :=
    ((hns.imp fun _ _ hxy => hxy.mono_right hd').tableNull an).desc d'
  have hr' : (tableNull an n0).ref = "" := by rw [tableNull_eq]; exact hr
  have hdr' : (tableNull an n0).dynamicRef = "" := by rw [tableNull_eq]; exact hdr
  have key : ∀ (L : Store), Ext st0 L → ∀ (a : NodeId) (j : Json),
      Inv.specBody (specEnvNoRefs L re) (evalFuel (specEnvNoRefs L re) f) [] a j (tableNull an n0) =
        evalFuel (specEnvNoRefs st'' re) (f + 1) scope s'.size j := fun L hL a j =>
    specBody_eval re hget hr' hdr' (hns''.imp fun _ _ hxy => hxy.mono_left hL) f [] a scope j
  refine ⟨fun han => ?_, fun v hv' => ?_⟩
  · subst han
    obtain ⟨-, hn0'⟩ := hnull rfl
    have h0 : Valid (evalFuel (specEnvNoRefs (st0.push (tableNull true n0)) re) F [] st0.size .null) :=
      valid_iff_isSome.2 (hn0' re)
    have h1 := valid_stable h0 (m := f + 1) (by omega)
    rw [evalFuel_specBody re (get?_push_size st0 _)] at h1
    rw [← key _ (Ext.push st0 _) st0.size .null]
    exact h1
  · have h0 : Valid (evalFuel (specEnvNoRefs st0 re) F [] sid (encode u v)) := valid_iff_isSome.2 (hv re v hv')
    have h1 := valid_stable h0 (m := f + 1) (by omega)
    rw [evalFuel_specBody re hn] at h1
    rw [← key st0 (Ext.refl st0) sid (encode u v)]
    exact specBody_tableNull an (fun han => (hnull han).1) h1

end Go

/-! ## the hypothesis on the entries of the type table -/

namespace EncJson
open Go Spec

/-- **the entry `sid` of the type table accepts the encodings of a declared type with underlying type `u`**; `an`: the
    type is used through a pointer.
    * the entry is a full reference-free schema tree (`Go.treeAll Iso.noRefs st d sid`, decidable: every subschema
      pointer below `sid` is non-nil, the unfolding ends within depth `d` — so it is acyclic; subschemas may be shared,
      `CloneSchemas` unfolds them — and no schema object has a `$ref` or a `$dynamicRef`): any combination of `properties`,
      `items`, `prefixItems`, `allOf` / `anyOf` / `oneOf` / `not`, `if` / `then` / `else`, `additionalProperties`,
      `patternProperties`, `contains`, `dependentSchemas`, `propertyNames`, `unevaluated*` … over assertion keywords;
    * it accepts the encoding of every value of the type (Spec validity in the store that holds the table; fuel
      `depth u + 1`, what the schema `forType` builds for `u` itself would need — a defined answer with less fuel is one
      with this fuel, `C01.spec_stable`; deeper entries: `EntryAcceptsDeep`);
    * through a pointer: its root has a type keyword (otherwise `null` is not *added* to its types: they become
      `["null"]`, the known finding D17), and the entry with `null` added to the types of its root — the schema object
      `tableNull true m` over the same subschemas, pushed onto the store — accepts `null` (an `enum`, a `const`, an
      `allOf` branch with a type of its own … may still refuse). -/
def EntryAcceptsTree (st : Store) (sid : NodeId) (u : GoType) (an : Bool) : Prop :=
  ∃ m d, st.get? sid = some m ∧ treeAll Iso.noRefs st d sid = true ∧
    (∀ re v, HasType u v → Spec.valid (specEnvNoRefs st re) (depth u + 1) sid (encode u v) = some true) ∧
    (an = true → (m.type ≠ "" ∨ m.types.isSome = true) ∧
      ∀ re, Spec.valid (specEnvNoRefs (st.push (tableNull true m)) re) (depth u + 1) st.size .null = some true)

mutual
  /-- `EntryAcceptsTree` for every declared type of `T` that has an entry in the type table and that `forType` meets (not
      inside `json:"-"` fields, not below another entry); the flag: a pointer was stripped just above -/
  def EntriesAcceptTree (opts : IOpts) (st : Store) : Bool → GoType → Prop
    | _, .basic _ => True
    | _, .ptr e => EntriesAcceptTree opts st true e
    | _, .slice e => EntriesAcceptTree opts st false e
    | _, .array _ e => EntriesAcceptTree opts st false e
    | _, .map _ e => EntriesAcceptTree opts st false e
    | _, .struct fields => EntriesAcceptTreeFields opts st fields
    | an, .named n u =>
      (match Json.lookup n opts.schemas with
       | some sid => EntryAcceptsTree st sid u an
       | none => EntriesAcceptTree opts st false u)
    | _, .ref _ => True
  def EntriesAcceptTreeFields (opts : IOpts) (st : Store) : List (String × String × GoType) → Prop
    | [] => True
    | f :: rest =>
      ((fieldJSONInfo f.1 f.2.1).omitted = true ∨ EntriesAcceptTree opts st false f.2.2) ∧
        EntriesAcceptTreeFields opts st rest
end

end EncJson

namespace Go
open EncJson Spec

/-! ## forwards equations, for evaluating `forType` on examples -/

/-- writing back the node that is there -/
theorem set!_get?_self {st : Store} {i : NodeId} {n : Node} (h : st.get? i = some n) : st.set! i n = st := by
  apply Array.ext_getElem?
  intro j
  rw [Array.set!_eq_setIfInBounds, Array.getElem?_setIfInBounds]
  by_cases hj : i = j
  · subst hj
    have h' : st[i]? = some n := h
    simp only [if_true, lt_size_of_get? h, h']
  · simp [hj]

/-- one step of `CloneSchemas` on a schema without subschemas -/
theorem cloneStep_leaf {rec : CRec} {st : Store} {sid : NodeId} {m : Node} (h : st.get? sid = some m) (L : LeafSchema m) :
    cloneStep rec sid st = .ok (st.size, st.push m) := by
  unfold cloneStep
  rw [h]
  simp only [L.defs, L.additionalItems, L.additionalProperties, L.allOf, L.anyOf, L.contains, L.contentSchema,
    L.definitions, L.dependencySchemas, L.dependentSchemas, L.else_, L.if_, L.items, L.itemsArray, L.not, L.oneOf,
    L.patternProperties, L.prefixItems, L.properties, L.propertyNames, L.then_, L.unevaluatedItems,
    L.unevaluatedProperties, cloneMap, cloneOpt, cloneList, Res.bind_ok, Store.alloc]
  congr 3
  cases m
  cases L
  simp_all

/-- one iteration of the struct loop, forwards: a field that is kept, without `jsonschema` tag -/
theorem structLoop_step {rec : IRec} {seen : List String} {g tag : String} {ft : GoType}
    {rest : List (String × String × GoType)} {n : Node} {st : Store} {fid : NodeId} {st1 : Store}
    (ho : (fieldJSONInfo g tag).omitted = false) (hd : tagLookup "jsonschema" tag = none)
    (hr : rec ft seen st = .ok (some fid, st1)) :
    structLoop rec seen ((g, tag, ft) :: rest) n st =
      structLoop rec seen rest (addField (ensureProps n) (fieldJSONInfo g tag) fid) st1 := by
  simp only [structLoop, ho, hr, hd, Res.bind_ok, Bool.false_eq_true, if_false]
  rfl

/-! ## the recursion -/

theorem stripPtrs_entriesAcceptTree (opts : IOpts) (st : Store) : ∀ (T : GoType) (b : Bool),
    EntriesAcceptTree opts st b T → EntriesAcceptTree opts st (b || (stripPtrs T).2) (stripPtrs T).1
  | .ptr e, b, h => by
    simp only [EntriesAcceptTree] at h
    simp only [stripPtrs, Bool.or_true]
    have := stripPtrs_entriesAcceptTree opts st e true h
    simpa using this
  | .basic _, b, h => by simpa [stripPtrs] using h
  | .named _ _, b, h => by simpa [stripPtrs] using h
  | .ref _, b, h => by simpa [stripPtrs] using h
  | .slice _, b, h => by simpa [stripPtrs, EntriesAcceptTree] using h
  | .array _ _, b, h => by simpa [stripPtrs, EntriesAcceptTree] using h
  | .map _ _, b, h => by simpa [stripPtrs, EntriesAcceptTree] using h
  | .struct _, b, h => by simpa [stripPtrs, EntriesAcceptTree] using h

theorem entriesAcceptTreeFields_mem {opts : IOpts} {st : Store} : ∀ {fields : List (String × String × GoType)},
    EntriesAcceptTreeFields opts st fields → ∀ f, f ∈ fields → (fieldJSONInfo f.1 f.2.1).omitted = false →
    EntriesAcceptTree opts st false f.2.2
  | [], _, _, hf, _ => nomatch hf
  | g :: rest, h, f, hf, ho => by
    simp only [EntriesAcceptTreeFields] at h
    rcases List.mem_cons.1 hf with rfl | hf
    · rcases h.1 with h1 | h1
      · rw [ho] at h1; cases h1
      · exact h1
    · exact entriesAcceptTreeFields_mem h.2 f hf ho

/-! ## `forType` builds a schema that `Models` describes, tree entries of the type table included -/

/-- what is assumed of the recursive call, on the stores that extend the one holding the type table -/
def RecOkTT (opts : IOpts) (st0 : Store) (rec : IRec) : Prop :=
  ∀ T seen st r st', Ext st0 st → InDomainN T = true → EntriesAcceptTree opts st0 false T →
    rec T seen st = .ok (r, st') → ∃ id, r = some id ∧ Models opts.nullForSlices st' T false id

/-- one step on a type that is, under its pointers, not a declared type (as `inferStep_modelsT_shape`) -/
theorem inferStep_modelsTT_shape {opts : IOpts} {st0 : Store} {rec : IRec} (hinv : IRecInv rec)
    (hrec : RecOkTT opts st0 rec) {T t : GoType} {an : Bool} {seen : List String} {st : Store} {r : Option NodeId}
    {st' : Store} (hs : stripPtrs T = (t, an)) (hsh : namedShape t = true) (hdomT : InDomainN t = true)
    (hacc : EntriesAcceptTree opts st0 false t) (hext : Ext st0 st) (h : inferStep opts rec T seen st = .ok (r, st')) :
    ∃ id, r = some id ∧ Models opts.nullForSlices st' t an id := by
  cases t with
  | ptr e => simp [namedShape] at hsh
  | named nm u => simp [namedShape] at hsh
  | ref nm => simp [namedShape] at hsh
  | basic kind =>
    simp only [InDomainN] at hdomT
    obtain ⟨ty, mn, mx, hk⟩ := kindEntry_domain hdomT
    rw [inferStep_basic hs, hk] at h
    cases h
    refine ⟨_, rfl, ?_⟩
    simp only [Models]
    exact ⟨ty, mn, mx, hk, HasNode.of_get (get?_push_size _ _)⟩
  | slice e =>
    simp only [InDomainN] at hdomT
    simp only [EntriesAcceptTree] at hacc
    rw [inferStep_slice hs] at h
    obtain ⟨⟨es, st1⟩, he, h⟩ := Res.bind_eq_ok h
    obtain ⟨eid, rfl, hm⟩ := hrec _ _ _ _ _ hext hdomT hacc he
    cases h
    refine ⟨_, rfl, ?_⟩
    simp only [Models]
    exact ⟨eid, Models.mono (Ext.push _ _).toDExt _ _ _ hm, HasNode.of_get (get?_push_size _ _)⟩
  | array len e =>
    simp only [InDomainN] at hdomT
    simp only [EntriesAcceptTree] at hacc
    rw [inferStep_array hs] at h
    obtain ⟨⟨es, st1⟩, he, h⟩ := Res.bind_eq_ok h
    obtain ⟨eid, rfl, hm⟩ := hrec _ _ _ _ _ hext hdomT hacc he
    cases h
    refine ⟨_, rfl, ?_⟩
    simp only [Models]
    exact ⟨eid, Models.mono (Ext.push _ _).toDExt _ _ _ hm, HasNode.of_get (get?_push_size _ _)⟩
  | map keyKind e =>
    simp only [InDomainN, Bool.and_eq_true, beq_iff_eq] at hdomT
    simp only [EntriesAcceptTree] at hacc
    rw [inferStep_map hs] at h
    simp only [hdomT.1, bne_self_eq_false, Bool.false_eq_true, if_false] at h
    obtain ⟨⟨es, st1⟩, he, h⟩ := Res.bind_eq_ok h
    obtain ⟨eid, rfl, hm⟩ := hrec _ _ _ _ _ hext hdomT.2 hacc he
    cases h
    refine ⟨_, rfl, ?_⟩
    simp only [Models]
    exact ⟨eid, Models.mono (Ext.push _ _).toDExt _ _ _ hm, HasNode.of_get (get?_push_size _ _)⟩
  | struct fields =>
    simp only [InDomainN, Bool.and_eq_true] at hdomT
    simp only [EntriesAcceptTree] at hacc
    obtain ⟨⟨hnd, _⟩, hdf⟩ := hdomT
    obtain ⟨n, st1, hl, rfl, rfl⟩ := inferStep_struct_ok hs h
    refine ⟨_, rfl, ?_⟩
    have hrm : RecModels (Ext st0) opts.nullForSlices rec seen fields :=
      fun f hf ho s r s1 hs1 hr =>
        hrec _ _ _ _ _ hs1 (inDomainFieldsN_mem hdf f hf ho) (entriesAcceptTreeFields_mem hacc f hf ho) hr
    have hext2 : Ext st0 ((st.push emptyNode).push (falseNode st.size)) :=
      hext.trans ((Ext.push _ _).trans (Ext.push _ _))
    have hP : ∀ s s', Ext st0 s → Ext s s' → Ext st0 s' := fun _ _ h1 h2 => h1.trans h2
    obtain ⟨hmf, _⟩ := structLoop_models (P := Ext st0) hP hinv fields hext2 hrm hl hnd (fun _ _ => rfl)
    have hndrop : NeverDropsOn (Ext st0) rec seen fields := fun f hf ho s s1 hs1 hr => by
      obtain ⟨fid, hfid, _⟩ := hrm f hf ho s _ s1 hs1 hr
      cases hfid
    obtain ⟨_, hrq, hkeys⟩ := structLoop_listsOn (P := Ext st0) hP hinv fields hext2 hndrop hl
    have hcore := node_of_core (structLoop_core fields hl)
    have hext' : Ext ((st.push emptyNode).push (falseNode st.size)) (st1.push (addNull an (finalOrder n))) :=
      (structLoop_inv hinv seen _ _ _ _ _ hl).1.trans (Ext.push _ _)
    have hnot : HasNode (st1.push (addNull an (finalOrder n))) st.size emptyNode := by
      refine HasNode.of_get (hext'.get? ?_)
      rw [get?_push_lt _ (by rw [Array.size_push]; exact Nat.lt_succ_self _)]
      exact get?_push_size _ _
    have hfalse : HasNode (st1.push (addNull an (finalOrder n))) (st.size + 1) (falseNode st.size) := by
      refine HasNode.of_get (hext'.get? ?_)
      have := get?_push_size (st.push emptyNode) (falseNode st.size)
      rwa [Array.size_push] at this
    simp only [Models]
    refine ⟨st.size, st.size + 1, n.properties, (finalOrder n).propertyOrder, n.required, hnot, hfalse, ?_, ?_, ?_,
      ModelsFields.mono (Ext.push _ _).toDExt _ _ hmf⟩
    · refine HasNode.of_get ?_
      rw [get?_push_size]
      congr 2
      have : finalOrder n = { n with propertyOrder := (finalOrder n).propertyOrder } := by
        unfold finalOrder
        split
        · split <;> rfl
        · rfl
      rw [this, hcore]
      rfl
    · rw [hrq]; rfl
    · intro k hk
      have := (hkeys k).1 hk
      simpa [structNode0] using this

theorem inferStep_modelsTT (opts : IOpts) (hnfs : opts.nullForSlices = true) (st0 : Store) {rec : IRec}
    (hinv : IRecInv rec) (hrec : RecOkTT opts st0 rec) : RecOkTT opts st0 (inferStep opts rec) := by
  intro T seen st r st' hext hdomT haccT h
  rw [← stripPtrs_inDomainN] at hdomT
  have hacc := stripPtrs_entriesAcceptTree opts st0 T false haccT
  simp only [stripPtrs_models opts.nullForSlices st' T]
  have hnp := stripPtrs_not_ptr T
  generalize hs : stripPtrs T = p at hdomT hacc hnp
  obtain ⟨t, an⟩ := p
  simp only [Bool.false_or] at hdomT hacc hnp ⊢
  cases t with
  | ptr e => exact absurd rfl (hnp e)
  | ref nm => simp [InDomainN] at hdomT
  | basic kind => exact inferStep_modelsTT_shape hinv hrec hs rfl hdomT (by simp only [EntriesAcceptTree]) hext h
  | slice e => exact inferStep_modelsTT_shape hinv hrec hs rfl hdomT (by simpa only [EntriesAcceptTree] using hacc) hext h
  | array len e =>
    exact inferStep_modelsTT_shape hinv hrec hs rfl hdomT (by simpa only [EntriesAcceptTree] using hacc) hext h
  | map kk e => exact inferStep_modelsTT_shape hinv hrec hs rfl hdomT (by simpa only [EntriesAcceptTree] using hacc) hext h
  | struct fs => exact inferStep_modelsTT_shape hinv hrec hs rfl hdomT (by simpa only [EntriesAcceptTree] using hacc) hext h
  | named nm u =>
    simp only [InDomainN] at hdomT
    simp only [EntriesAcceptTree] at hacc
    cases hl : Json.lookup nm opts.schemas with
    | some sid =>
      -- an entry of the type table: a clone of the tree, `null` added at its root for a pointer
      rw [hl] at hacc
      obtain ⟨m, d, hm, htree, hv, hnull⟩ := hacc
      cases hc : seen.contains nm with
      | true =>
        rw [inferStep_seen (t := .named nm u) hs rfl hc] at h
        cases h
      | false =>
        rw [inferStep_table (t := .named nm u) hs rfl hc hl] at h
        obtain ⟨⟨c, st1⟩, hcl, h⟩ := Res.bind_eq_ok h
        simp only at h
        cases hcn : st1.get? c with
        | none => rw [hcn] at h; cases h
        | some cn =>
          rw [hcn, hnfs, Bool.true_and] at h
          cases h
          refine ⟨_, rfl, ?_⟩
          simp only [Models]
          exact namedLeaf_table hext htree hm hcl hcn u an (depth u + 1) (Nat.le_refl _) hv hnull
    | none =>
      -- a declared type that `forType` expands
      rw [hl] at hacc
      obtain ⟨hseen, hsh⟩ := inferStep_named_ok hs hl h
      rw [inferStep_named_transparent hs hseen hl hsh] at h
      have hup : ∀ e, u ≠ .ptr e := by cases u <;> simp_all [namedShape]
      obtain ⟨id, hid, hm⟩ := inferStep_modelsTT_shape hinv hrec (stripPtrs_wrapPtr hup an) hsh hdomT hacc hext h
      refine ⟨id, hid, ?_⟩
      simp only [Models]
      intro st'' hd re f scope hf
      rw [hnfs] at hm
      exact Models.sound (re := re) u an id (Models.mono hd u an id hm) f scope (by omega)

theorem inferFuel_modelsTT (opts : IOpts) (hnfs : opts.nullForSlices = true) (st0 : Store) :
    ∀ fuel, RecOkTT opts st0 (inferFuel opts fuel)
  | 0 => fun _ _ _ _ _ _ _ _ h => by cases h
  | fuel + 1 => inferStep_modelsTT opts hnfs st0 (inferFuel_inv opts fuel) (inferFuel_modelsTT opts hnfs st0 fuel)

end Go
/-! ## entries without subschemas are tree entries -/

namespace EncJson
open Go Spec

theorem children_leaf {m : Node} (L : LeafSchema m) : m.children = [] := by
  unfold Node.children Node.childFields
  simp [L.defs, L.additionalItems, L.additionalProperties, L.allOf, L.anyOf, L.contains, L.contentSchema,
    L.definitions, L.dependencySchemas, L.dependentSchemas, L.else_, L.if_, L.items, L.itemsArray, L.not, L.oneOf,
    L.patternProperties, L.prefixItems, L.properties, L.propertyNames, L.then_, L.unevaluatedItems,
    L.unevaluatedProperties, sortByKey]

/-- an entry without subschemas (`EntryAccepts`, the hypothesis of `infer_sound_table_partial`) is a tree entry -/
theorem entryAcceptsTree_of_leaf {st : Store} {sid : NodeId} {u : GoType} {an : Bool} (h : EntryAccepts st sid u an) :
    EntryAcceptsTree st sid u an := by
  obtain ⟨m, hm, L, hv, hnull⟩ := h
  refine ⟨m, 1, hm, ?_, fun re v hv' => ?_, fun han => ⟨(hnull han).1, fun re => ?_⟩⟩
  · simp only [treeAll, hm, children_leaf L, List.all_nil, Bool.and_true]
    exact Iso.noRefs_iff.2 ⟨L.ref, L.dynamicRef⟩
  · exact valid_iff_isSome.1 (Iso.valid_stable (valid_iff_isSome.2 (hv re v hv')) (by omega))
  · have h0 : Valid (evalFuel (specEnvNoRefs #[tableNull true m] re) (0 + 1) [] 0 .null) :=
      valid_iff_isSome.2 ((hnull han).2 re)
    have L' := L.tableNull true
    have ha := (leaf_valid_iff (st := #[tableNull true m]) (HasNode.of_get rfl) L' 0 [] .null).1 h0
    exact valid_iff_isSome.1 ((leaf_valid_iff (st := st.push (tableNull true m)) (HasNode.of_get (get?_push_size _ _)) L'
      (depth u) [] .null).2 ha)

theorem entriesAcceptTree_of_leaves (opts : IOpts) (st : Store) :
    (∀ (T : GoType) (an : Bool), EntriesAccept opts st an T → EntriesAcceptTree opts st an T) ∧
    ∀ fs : List (String × String × GoType), EntriesAcceptFields opts st fs → EntriesAcceptTreeFields opts st fs := by
  have key : ∀ n : Nat,
      (∀ (T : GoType) (an : Bool), sizeOf T ≤ n → EntriesAccept opts st an T → EntriesAcceptTree opts st an T) ∧
      ∀ fs : List (String × String × GoType), sizeOf fs ≤ n → EntriesAcceptFields opts st fs →
        EntriesAcceptTreeFields opts st fs := by
    intro n
    induction n with
    | zero =>
      constructor
      · intro T an hs; cases T <;> simp at hs
      · intro fs hs; cases fs <;> simp at hs
    | succ n ih =>
      constructor
      · intro T an hs h
        cases T with
        | basic k => simp only [EntriesAcceptTree]
        | ref k => simp only [EntriesAcceptTree]
        | ptr e => simp only [EntriesAccept] at h; simp only [EntriesAcceptTree]; exact ih.1 e _ (by simp at hs; omega) h
        | slice e => simp only [EntriesAccept] at h; simp only [EntriesAcceptTree]; exact ih.1 e _ (by simp at hs; omega) h
        | array k e => simp only [EntriesAccept] at h; simp only [EntriesAcceptTree]; exact ih.1 e _ (by simp at hs; omega) h
        | map k e => simp only [EntriesAccept] at h; simp only [EntriesAcceptTree]; exact ih.1 e _ (by simp at hs; omega) h
        | struct fs => simp only [EntriesAccept] at h; simp only [EntriesAcceptTree]; exact ih.2 fs (by simp at hs; omega) h
        | named k u =>
          simp only [EntriesAccept] at h
          simp only [EntriesAcceptTree]
          cases hl : Json.lookup k opts.schemas with
          | some sid => rw [hl] at h; exact entryAcceptsTree_of_leaf h
          | none => rw [hl] at h; exact ih.1 u _ (by simp at hs; omega) h
      · intro fs hs h
        cases fs with
        | nil => simp only [EntriesAcceptTreeFields]
        | cons f rest =>
          obtain ⟨g, tag, ft⟩ := f
          simp only [EntriesAcceptFields] at h
          simp only [EntriesAcceptTreeFields]
          refine ⟨h.1.imp id (ih.1 ft _ (by simp at hs; omega)), ih.2 rest (by simp at hs; omega) h.2⟩
  exact ⟨fun T an => (key _).1 T an (Nat.le_refl _), fun fs => (key _).2 fs (Nat.le_refl _)⟩

end EncJson
end JSV
