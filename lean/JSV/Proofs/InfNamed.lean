/-
  Declared (named) types: `forType` on a type whose declared types are transparent (`EncJson.NamedOk`) is `forType` on
  the type with the declared types erased (`EncJson.erase`) — the same outcome, the same schema, the same store —, and
  typing, json.Marshal and the strict decoder do not see the difference either.  C04 / C09 / C16 for types with declared
  types are corollaries of the statements for types without.
-/
import JSV.Proofs.InfModels
namespace JSV
namespace EncJson
open Go

/-! ## the encoding/json side -/

theorem jsonNames_erase : ∀ (fs : List (String × String × GoType)), jsonNames (eraseFields fs) = jsonNames fs
  | [] => rfl
  | f :: rest => by
    rw [eraseFields, jsonNames_cons, jsonNames_cons, jsonNames_erase rest]

theorem alwaysNames_erase : ∀ (fs : List (String × String × GoType)), alwaysNames (eraseFields fs) = alwaysNames fs
  | [] => rfl
  | f :: rest => by
    rw [eraseFields, alwaysNames_cons, alwaysNames_cons, alwaysNames_erase rest]

theorem all_tagOk_erase : ∀ (fs : List (String × String × GoType)),
    (eraseFields fs).all (fun f => fieldTagOk f.1 f.2.1) = fs.all (fun f => fieldTagOk f.1 f.2.1)
  | [] => rfl
  | f :: rest => by
    rw [eraseFields, List.all_cons, List.all_cons, all_tagOk_erase rest]

mutual
  /-- `InDomainN` is `InDomain` of the erased type -/
  theorem inDomainN_eq_erase : ∀ (T : GoType), InDomainN T = InDomain (erase T)
    | .basic _ => rfl
    | .ptr e => by simp only [InDomainN, erase, InDomain]; exact inDomainN_eq_erase e
    | .slice e => by simp only [InDomainN, erase, InDomain]; exact inDomainN_eq_erase e
    | .array _ e => by simp only [InDomainN, erase, InDomain]; exact inDomainN_eq_erase e
    | .map _ e => by simp only [InDomainN, erase, InDomain]; rw [inDomainN_eq_erase e]
    | .struct fs => by
      simp only [InDomainN, erase, InDomain]
      rw [jsonNames_erase, all_tagOk_erase, inDomainFieldsN_eq_erase fs]
    | .named _ u => by simp only [InDomainN, erase]; exact inDomainN_eq_erase u
    | .ref _ => rfl
  theorem inDomainFieldsN_eq_erase : ∀ (fs : List (String × String × GoType)),
      inDomainFieldsN fs = inDomainFields (eraseFields fs)
    | [] => rfl
    | f :: rest => by
      simp only [inDomainFieldsN, eraseFields, inDomainFields]
      rw [inDomainN_eq_erase f.2.2, inDomainFieldsN_eq_erase rest]
end

mutual
  /-- a type without declared types is in `InDomainN` iff it is in `InDomain` -/
  theorem inDomainN_of_inDomain : ∀ (T : GoType), InDomain T = true → InDomainN T = true
    | .basic _, h => h
    | .ptr e, h => by simp only [InDomain] at h; simp only [InDomainN]; exact inDomainN_of_inDomain e h
    | .slice e, h => by simp only [InDomain] at h; simp only [InDomainN]; exact inDomainN_of_inDomain e h
    | .array _ e, h => by simp only [InDomain] at h; simp only [InDomainN]; exact inDomainN_of_inDomain e h
    | .map _ e, h => by
      simp only [InDomain, Bool.and_eq_true] at h
      simp only [InDomainN, Bool.and_eq_true]
      exact ⟨h.1, inDomainN_of_inDomain e h.2⟩
    | .struct fs, h => by
      simp only [InDomain, Bool.and_eq_true] at h
      simp only [InDomainN, Bool.and_eq_true]
      exact ⟨h.1, inDomainFieldsN_of_inDomainFields fs h.2⟩
    | .named _ _, h => by simp [InDomain] at h
    | .ref _, h => by simp [InDomain] at h
  theorem inDomainFieldsN_of_inDomainFields : ∀ (fs : List (String × String × GoType)),
      inDomainFields fs = true → inDomainFieldsN fs = true
    | [], _ => rfl
    | f :: rest, h => by
      simp only [inDomainFields, Bool.and_eq_true, Bool.or_eq_true] at h
      simp only [inDomainFieldsN, Bool.and_eq_true, Bool.or_eq_true]
      exact ⟨h.1.imp id (inDomainN_of_inDomain f.2.2), inDomainFieldsN_of_inDomainFields rest h.2⟩
end

mutual
  /-- typing does not see declared types -/
  theorem hasType_erase : ∀ (T : GoType) (v : GoValue), HasType (erase T) v ↔ HasType T v
    | .basic _, _ => Iff.rfl
    | .ptr e, v => by
      simp only [erase, HasType]
      cases v with
      | ptr w => exact hasType_erase e w
      | _ => exact Iff.rfl
    | .slice e, v => by
      simp only [erase, HasType]
      cases v with
      | slice vs => exact forall_congr' fun w => imp_congr_right fun _ => hasType_erase e w
      | _ => exact Iff.rfl
    | .array n e, v => by
      simp only [erase, HasType]
      cases v with
      | array vs => exact and_congr_right fun _ => forall_congr' fun w => imp_congr_right fun _ => hasType_erase e w
      | _ => exact Iff.rfl
    | .map k e, v => by
      simp only [erase, HasType]
      cases v with
      | map kvs => exact and_congr_right fun _ => forall_congr' fun p => imp_congr_right fun _ => hasType_erase e p.2
      | _ => exact Iff.rfl
    | .struct fs, v => by
      simp only [erase, HasType]
      cases v with
      | struct vs => exact hasTypeFields_erase fs vs
      | _ => exact Iff.rfl
    | .named _ u, v => by
      simp only [erase, HasType]
      exact hasType_erase u v
    | .ref _, _ => Iff.rfl
  theorem hasTypeFields_erase : ∀ (fs : List (String × String × GoType)) (vs : List GoValue),
      HasTypeFields (eraseFields fs) vs ↔ HasTypeFields fs vs
    | [], _ => Iff.rfl
    | f :: rest, vs => by
      simp only [eraseFields, HasTypeFields]
      cases vs with
      | nil => exact Iff.rfl
      | cons v vs' => exact and_congr (or_congr Iff.rfl (hasType_erase f.2.2 v)) (hasTypeFields_erase rest vs')
end

mutual
  /-- json.Marshal does not see declared types -/
  theorem encode_erase : ∀ (T : GoType) (v : GoValue), encode (erase T) v = encode T v
    | .basic _, _ => rfl
    | .ptr e, v => by
      simp only [erase, encode]
      cases v with
      | ptr w => exact encode_erase e w
      | _ => rfl
    | .slice e, v => by
      simp only [erase, encode]
      cases v with
      | slice vs =>
        simp only
        congr 1
        exact List.map_congr_left fun w _ => encode_erase e w
      | _ => rfl
    | .array _ e, v => by
      simp only [erase, encode]
      cases v with
      | array vs =>
        simp only
        congr 1
        exact List.map_congr_left fun w _ => encode_erase e w
      | _ => rfl
    | .map _ e, v => by
      simp only [erase, encode]
      cases v with
      | map kvs =>
        simp only
        congr 1
        exact List.map_congr_left fun p _ => by rw [encode_erase e p.2]
      | _ => rfl
    | .struct fs, v => by
      simp only [erase, encode]
      cases v with
      | struct vs => simp only; rw [encodeFields_erase fs vs]
      | _ => rfl
    | .named _ u, v => by
      simp only [erase, encode]
      exact encode_erase u v
    | .ref _, _ => rfl
  theorem encodeFields_erase : ∀ (fs : List (String × String × GoType)) (vs : List GoValue),
      encodeFields (eraseFields fs) vs = encodeFields fs vs
    | [], _ => rfl
    | f :: rest, vs => by
      simp only [eraseFields, encodeFields]
      cases vs with
      | nil => rfl
      | cons v vs' =>
        simp only
        rw [encodeFields_erase rest vs', encode_erase f.2.2 v]
end

mutual
  /-- the strict decoder does not see declared types -/
  theorem decodable_erase : ∀ (T : GoType) (j : Json), decodable (erase T) j = decodable T j
    | .basic _, _ => rfl
    | .ptr e, j => by simp only [erase, decodable]; exact decodable_erase e j
    | .slice e, j => by
      simp only [erase, decodable]
      cases j with
      | arr xs => exact List.all_congr rfl fun x => decodable_erase e x
      | _ => rfl
    | .array _ e, j => by
      simp only [erase, decodable]
      cases j with
      | arr xs => exact List.all_congr rfl fun x => decodable_erase e x
      | _ => rfl
    | .map _ e, j => by
      simp only [erase, decodable]
      cases j with
      | obj kvs =>
        simp only
        congr 1
        exact List.all_congr rfl fun p => decodable_erase e p.2
      | _ => rfl
    | .struct fs, j => by
      simp only [erase, decodable]
      cases j with
      | obj kvs =>
        simp only
        refine List.all_congr rfl fun p => ?_
        rw [decodableExact_erase fs p.1 p.2, decodableFold_erase fs p.1 p.2]
      | _ => rfl
    | .named _ u, j => by
      simp only [erase, decodable]
      exact decodable_erase u j
    | .ref _, _ => rfl
  theorem decodableExact_erase : ∀ (fs : List (String × String × GoType)) (k : String) (v : Json),
      decodableExact (eraseFields fs) k v = decodableExact fs k v
    | [], _, _ => rfl
    | f :: rest, k, v => by
      simp only [eraseFields, decodableExact]
      rw [decodable_erase f.2.2 v, decodableExact_erase rest k v]
  theorem decodableFold_erase : ∀ (fs : List (String × String × GoType)) (k : String) (v : Json),
      decodableFold (eraseFields fs) k v = decodableFold fs k v
    | [], _, _ => rfl
    | f :: rest, k, v => by
      simp only [eraseFields, decodableFold]
      rw [decodable_erase f.2.2 v, decodableFold_erase rest k v]
end

mutual
  /-- the schema of the erased type is no deeper -/
  theorem depth_erase_le : ∀ (T : GoType), depth (erase T) ≤ depth T
    | .basic _ => Nat.le_refl _
    | .ptr e => by simp only [erase, depth]; exact depth_erase_le e
    | .slice e => by simp only [erase, depth]; exact Nat.succ_le_succ (depth_erase_le e)
    | .array _ e => by simp only [erase, depth]; exact Nat.succ_le_succ (depth_erase_le e)
    | .map _ e => by simp only [erase, depth]; exact Nat.succ_le_succ (depth_erase_le e)
    | .struct fs => by simp only [erase, depth]; exact Nat.succ_le_succ (depthFields_erase_le fs)
    | .named _ u => by simp only [erase, depth]; exact Nat.le_succ_of_le (depth_erase_le u)
    | .ref _ => Nat.le_refl _
  theorem depthFields_erase_le : ∀ (fs : List (String × String × GoType)), depthFields (eraseFields fs) ≤ depthFields fs
    | [] => Nat.le_refl _
    | f :: rest => by
      simp only [eraseFields, depthFields]
      have h1 := depth_erase_le f.2.2
      have h2 := depthFields_erase_le rest
      omega
end

end EncJson

/-! ## the `forType` side -/

namespace Res
theorem bind_congr_ok {α β} {x : Res α} {f g : α → Res β} (h : ∀ a, x = .ok a → f a = g a) :
    Res.bind x f = Res.bind x g := by
  cases x <;> first | rfl | exact h _ rfl
end Res

namespace Go
open EncJson

theorem stripPtrs_nonptr : ∀ {t : GoType}, (∀ e, t ≠ .ptr e) → stripPtrs t = (t, false)
  | .ptr e, h => absurd rfl (h e)
  | .basic _, _ => rfl
  | .named _ _, _ => rfl
  | .ref _, _ => rfl
  | .slice _, _ => rfl
  | .array _ _, _ => rfl
  | .map _ _, _ => rfl
  | .struct _, _ => rfl

theorem stripPtrs_not_ptr : ∀ (T : GoType) (e : GoType), (stripPtrs T).1 ≠ .ptr e
  | .ptr e', e => by simp only [stripPtrs]; exact stripPtrs_not_ptr e' e
  | .basic _, _ => fun h => nomatch h
  | .named _ _, _ => fun h => nomatch h
  | .ref _, _ => fun h => nomatch h
  | .slice _, _ => fun h => nomatch h
  | .array _ _, _ => fun h => nomatch h
  | .map _ _, _ => fun h => nomatch h
  | .struct _, _ => fun h => nomatch h

theorem stripPtrs_erase : ∀ (T : GoType), (∀ e, erase (stripPtrs T).1 ≠ .ptr e) →
    stripPtrs (erase T) = (erase (stripPtrs T).1, (stripPtrs T).2)
  | .ptr e, h => by
    simp only [stripPtrs] at h
    simp only [erase, stripPtrs]
    rw [stripPtrs_erase e h]
  | .basic _, h => stripPtrs_nonptr h
  | .named _ _, h => stripPtrs_nonptr h
  | .ref _, h => stripPtrs_nonptr h
  | .slice _, h => stripPtrs_nonptr h
  | .array _ _, h => stripPtrs_nonptr h
  | .map _ _, h => stripPtrs_nonptr h
  | .struct _, h => stripPtrs_nonptr h

theorem stripPtrs_namedOk (opts : IOpts) (strs : List String) : ∀ (T : GoType) (seen : List String),
    NamedOk opts strs seen T = NamedOk opts strs seen (stripPtrs T).1
  | .ptr e, seen => by simp only [NamedOk, stripPtrs]; exact stripPtrs_namedOk opts strs e seen
  | .basic _, _ => rfl
  | .named _ _, _ => rfl
  | .ref _, _ => rfl
  | .slice _, _ => rfl
  | .array _ _, _ => rfl
  | .map _ _, _ => rfl
  | .struct _, _ => rfl

theorem namedOkFields_mem {opts : IOpts} {strs seen : List String} : ∀ {fs : List (String × String × GoType)},
    namedOkFields opts strs seen fs = true → ∀ f, f ∈ fs → NamedOk opts strs seen f.2.2 = true
  | [], _, _, hf => nomatch hf
  | g :: rest, h, f, hf => by
    simp only [namedOkFields, Bool.and_eq_true] at h
    rcases List.mem_cons.1 hf with rfl | hf
    · exact h.1
    · exact namedOkFields_mem h.2 f hf

theorem strEntries_ext {schemas : List (String × NodeId)} {strs : List String} {st st' : Store}
    (h : StrEntries schemas strs st) (he : Ext st st') : StrEntries schemas strs st' :=
  fun n hn sid hs => he.get? (h n hn sid hs)

/-- the struct loop on the erased fields, if the recursive calls agree -/
theorem structLoop_erase {rec : IRec} (hinv : IRecInv rec) {seen seen' : List String} {P : Store → Prop}
    (hP : ∀ st st', P st → Ext st st' → P st') :
    ∀ (fields : List (String × String × GoType)) (n : Node) (st : Store), P st →
      (∀ f, f ∈ fields → ∀ st, P st → rec f.2.2 seen st = rec (erase f.2.2) seen' st) →
      structLoop rec seen fields n st = structLoop rec seen' (eraseFields fields) n st := by
  intro fields
  induction fields with
  | nil => intro n st _ _; rfl
  | cons f rest ih =>
    obtain ⟨goName, tag, ft⟩ := f
    intro n st hst hf
    have hf' : ∀ f, f ∈ rest → ∀ st, P st → rec f.2.2 seen st = rec (erase f.2.2) seen' st :=
      fun f h => hf f (List.mem_cons_of_mem _ h)
    simp only [eraseFields, structLoop]
    split
    · exact ih _ _ hst hf'
    · rw [← hf _ List.mem_cons_self st hst]
      refine Res.bind_congr_ok fun r hr => ?_
      obtain ⟨fs, st1⟩ := r
      obtain ⟨he1, hid1, _⟩ := hinv _ _ _ _ _ hr
      have hst1 : P st1 := hP _ _ hst he1
      cases fs with
      | none => exact ih _ _ hst1 hf'
      | some fid =>
        simp only
        split
        · rfl
        · split
          · rfl
          · refine ih _ _ (hP _ _ hst ?_) hf'
            split
            · exact he1.set! (hid1 fid rfl).1 _
            · exact he1
        · exact ih _ _ hst1 hf'

theorem clone_strNode {st : Store} {sid : NodeId} (h : st.get? sid = some strNode) :
    clone st sid = .ok (st.size, st.push strNode) := by
  show cloneStep (cloneFuel (st.size + 1)) sid st = _
  unfold cloneStep
  rw [h]
  rfl

theorem set!_push_size (st : Store) (n m : Node) : (st.push n).set! st.size m = st.push m := by
  apply Array.ext_getElem?
  intro i
  rw [Array.set!_eq_setIfInBounds, Array.getElem?_setIfInBounds, Array.getElem?_push, Array.getElem?_push]
  by_cases h : st.size = i
  · subst h; simp
  · simp [h, Ne.symm h]

/-- a marshaler type: the clone of `{"type":"string"}` is the schema of the kind `string` -/
theorem inferStep_strEntry {opts : IOpts} {rec : IRec} {t0 u : GoType} {nm : String} {an : Bool} {seen : List String}
    {st : Store} {sid : NodeId} (hnfs : opts.nullForSlices = true) (h : stripPtrs t0 = (.named nm u, an))
    (hseen : seen.contains nm = false) (hs : Json.lookup nm opts.schemas = some sid) (hn : st.get? sid = some strNode) :
    inferStep opts rec t0 seen st = .ok (some st.size, st.push (addNull an (basicNode "string" none none))) := by
  rw [inferStep_table (t := .named nm u) h rfl hseen hs, clone_strNode hn, Res.bind_ok]
  simp only
  rw [get?_push_size]
  simp only
  rw [set!_push_size, hnfs]
  cases an <;> rfl

/-- `*T` or `T` -/
def wrapPtr (an : Bool) (u : GoType) : GoType := if an then .ptr u else u

theorem stripPtrs_wrapPtr {u : GoType} (h : ∀ e, u ≠ .ptr e) (an : Bool) : stripPtrs (wrapPtr an u) = (u, an) := by
  cases an
  · exact stripPtrs_nonptr h
  · show ((stripPtrs u).1, true) = _
    rw [stripPtrs_nonptr h]

/-- a declared type without a table entry: its underlying type, with the name entered into `seen` -/
theorem inferStep_named_transparent {opts : IOpts} {rec : IRec} {t0 u : GoType} {nm : String} {an : Bool}
    {seen : List String} {st : Store} (h : stripPtrs t0 = (.named nm u, an)) (hseen : seen.contains nm = false)
    (hs : Json.lookup nm opts.schemas = none) (hsh : namedShape u = true) :
    inferStep opts rec t0 seen st = inferStep opts rec (wrapPtr an u) (nm :: seen) st := by
  have h2 : stripPtrs (wrapPtr an u) = (u, an) := stripPtrs_wrapPtr (by cases u <;> simp_all [namedShape]) an
  unfold inferStep
  rw [h, h2]
  cases u <;> simp_all [namedShape, typeName]

/-- what is assumed of the recursive call -/
def RecErase (opts : IOpts) (strs : List String) (rec : IRec) : Prop :=
  ∀ T seen seen' st, StrEntries opts.schemas strs st → NamedOk opts strs seen T = true →
    rec T seen st = rec (erase T) seen' st

/-- one step on a type that is, under its pointers, not a declared type -/
theorem inferStep_erase_shape {opts : IOpts} {strs : List String} {rec : IRec} (hinv : IRecInv rec)
    (hrec : RecErase opts strs rec) {T T' t : GoType} {an : Bool} {seen seen' : List String} {st : Store}
    (hs : stripPtrs T = (t, an)) (hs' : stripPtrs T' = (erase t, an)) (hsh : namedShape t = true)
    (hok : NamedOk opts strs seen t = true) (hst : StrEntries opts.schemas strs st) :
    inferStep opts rec T seen st = inferStep opts rec T' seen' st := by
  cases t with
  | ptr e => simp [namedShape] at hsh
  | ref n => simp [namedShape] at hsh
  | named n u => simp [namedShape] at hsh
  | basic kind =>
    simp only [erase] at hs'
    rw [inferStep_basic hs, inferStep_basic hs']
  | slice e =>
    simp only [erase] at hs'
    simp only [NamedOk] at hok
    rw [inferStep_slice hs, inferStep_slice hs', hrec e seen seen' st hst hok]
  | array len e =>
    simp only [erase] at hs'
    simp only [NamedOk] at hok
    rw [inferStep_array hs, inferStep_array hs', hrec e seen seen' st hst hok]
  | map keyKind e =>
    simp only [erase] at hs'
    simp only [NamedOk] at hok
    rw [inferStep_map hs, inferStep_map hs', hrec e seen seen' st hst hok]
  | struct fs =>
    simp only [erase] at hs'
    simp only [NamedOk] at hok
    rw [inferStep_struct hs, inferStep_struct hs']
    rw [structLoop_erase hinv (P := StrEntries opts.schemas strs) (fun _ _ h he => strEntries_ext h he) fs _ _
      (strEntries_ext hst ((Ext.push _ _).trans (Ext.push _ _)))
      (fun f hf st1 hst1 => hrec _ _ _ _ hst1 (namedOkFields_mem hok f hf))]

theorem inferStep_erase (opts : IOpts) (strs : List String) {rec : IRec} (hinv : IRecInv rec)
    (hrec : RecErase opts strs rec) : RecErase opts strs (inferStep opts rec) := by
  intro T seen seen' st hst hok
  rw [stripPtrs_namedOk] at hok
  have hnp := stripPtrs_not_ptr T
  have hse := stripPtrs_erase T
  generalize hs : stripPtrs T = p at hok hnp hse
  obtain ⟨t, an⟩ := p
  simp only at hok hnp hse
  cases t with
  | ptr e => exact absurd rfl (hnp e)
  | ref n => simp [NamedOk] at hok
  | basic kind =>
    exact inferStep_erase_shape hinv hrec hs (hse (fun e h => by simp [erase] at h)) rfl hok hst
  | slice e =>
    exact inferStep_erase_shape hinv hrec hs (hse (fun e h => by simp [erase] at h)) rfl hok hst
  | array len e =>
    exact inferStep_erase_shape hinv hrec hs (hse (fun e h => by simp [erase] at h)) rfl hok hst
  | map keyKind e =>
    exact inferStep_erase_shape hinv hrec hs (hse (fun e h => by simp [erase] at h)) rfl hok hst
  | struct fs =>
    exact inferStep_erase_shape hinv hrec hs (hse (fun e h => by simp [erase] at h)) rfl hok hst
  | named n u =>
    simp only [NamedOk, Bool.and_eq_true, Bool.not_eq_true'] at hok
    obtain ⟨hseen, hrest⟩ := hok
    by_cases hstr : strs.contains n = true
    · -- a marshaler type: `{"type":"string"}` in the table, `string` after erasure
      simp only [hstr, if_true, Bool.and_eq_true] at hrest
      obtain ⟨⟨hnfs, hsome⟩, hu⟩ := hrest
      obtain ⟨sid, hsid⟩ := Option.isSome_iff_exists.1 hsome
      have hn := hst n (by simpa using hstr) sid hsid
      cases u with
      | basic kind =>
        have hk : kind = "String" := by simpa [isStringKind] using hu
        subst hk
        have hs' := hse (fun e h => by simp [erase] at h)
        simp only [erase] at hs'
        rw [inferStep_strEntry hnfs hs hseen hsid hn, inferStep_basic hs']
        rfl
      | _ => simp [isStringKind] at hu
    · -- a declared type that `forType` expands
      simp only [hstr, Bool.false_eq_true, if_false, Bool.and_eq_true] at hrest
      obtain ⟨⟨hnone, hsh⟩, hu⟩ := hrest
      have hnone' : Json.lookup n opts.schemas = none := by
        cases hl : Json.lookup n opts.schemas with
        | none => rfl
        | some x => rw [hl] at hnone; cases hnone
      have hup : ∀ e, u ≠ .ptr e := by cases u <;> simp_all [namedShape]
      have hue : ∀ e, erase u ≠ .ptr e := by cases u <;> simp_all [namedShape, erase]
      rw [inferStep_named_transparent hs hseen hnone' hsh]
      have hs' := hse (fun e h => by simp only [erase] at h; exact hue e h)
      simp only [erase] at hs'
      exact inferStep_erase_shape hinv hrec (stripPtrs_wrapPtr hup an) hs' hsh hu hst

theorem inferFuel_erase (opts : IOpts) (strs : List String) : ∀ fuel, RecErase opts strs (inferFuel opts fuel)
  | 0 => fun _ _ _ _ _ _ => rfl
  | fuel + 1 => inferStep_erase opts strs (inferFuel_inv opts fuel) (inferFuel_erase opts strs fuel)

/-- **`forType` does not see transparent declared types**: the same outcome, the same schema, the same store -/
theorem forType_erase (opts : IOpts) (strs : List String) (fuel : Nat) (T : GoType) (st : Store)
    (hst : StrEntries opts.schemas strs st) (hok : NamedOk opts strs [] T = true) :
    forType opts fuel T st = forType opts fuel (erase T) st :=
  inferFuel_erase opts strs fuel T [] [] st hst hok

/-- the schema of a struct type, under any list of declared types being expanded (C16.struct_schema is `seen = []`) -/
theorem inferStep_struct_schema {opts : IOpts} {fuel : Nat} {fields : List (String × String × GoType)}
    {seen : List String} {st : Store} {id : NodeId} {st' : Store} (hi : opts.ignore = false)
    (h : inferStep opts (inferFuel opts fuel) (.struct fields) seen st = .ok (some id, st')) :
    ∃ n, st'.get? id = some n ∧ n.type = "object" ∧
      n.required.getD [] = alwaysNames fields ∧
      (∀ k, k ∈ (n.properties.getD []).map (·.1) ↔ k ∈ jsonNames fields) ∧
      (nodup (jsonNames fields) = true → n.propertyOrder.getD [] = jsonNames fields) := by
  obtain ⟨n, st1, hl, hr, rfl⟩ := inferStep_struct_ok (t0 := .struct fields) (fields := fields) (an := false) rfl h
  cases hr
  have hnd : NeverDrops (inferFuel opts fuel) seen fields :=
    fun f _ _ s s1 hf => inferFuel_never_none hi fuel _ _ _ _ hf
  obtain ⟨h1, h2, h3⟩ := structLoop_lists fields hnd hl
  refine ⟨_, get?_push_size _ _, ?_, ?_, ?_, ?_⟩
  · rw [addNull_false, finalOrder_type, coreOf_type (structLoop_core fields hl)]
    rfl
  · rw [addNull_false, finalOrder_required, h2]
    rfl
  · intro k
    rw [addNull_false, finalOrder_properties, h3]
    simp [structNode0]
  · intro hnd
    have h1' : n.propertyOrder.getD [] = jsonNames fields := by rw [h1]; rfl
    rw [addNull_false, finalOrder_order_of_nodup n (by rw [h1']; exact hnd), h1']

end Go
end JSV
