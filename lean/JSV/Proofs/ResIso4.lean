/-
  Resolve commutes with a renaming of schema node ids (part 4: from related resolutions to related Spec environments,
  `Iso.TablesSim` / `Iso.EnvSim`; a tree and its clone).
-/
import JSV.Proofs.ResIso3
import JSV.Proofs.IsoValid
namespace JSV
namespace Go
namespace RIso
open RInv

/-! ### related resolutions give related Spec environments -/

/-- related info tables make `Iso.TablesSim`: `$ref` targets, initial `$dynamicRef` targets and anchor names, resources
    and dynamic-anchor declarations of related schemas are related -/
theorem tablesSim_of_infos {R : NodeId → NodeId → Prop} {v₁ v₂ : VEnv}
    (h : ∀ x y, R x y → OptRel (InfoRel R) (v₁.info? x) (v₂.info? y)) :
    Iso.TablesSim R (Refine.specEnvOf v₁) (Refine.specEnvOf v₂) := by
  have key : ∀ {x y}, R x y → ∀ {P : Option Info → Option Info → Prop},
      P none none → (∀ i₁ i₂, InfoRel R i₁ i₂ → P (some i₁) (some i₂)) → P (v₁.info? x) (v₂.info? y) := by
    intro x y hxy P hnone hsome
    have := h x y hxy
    cases h1 : v₁.info? x with
    | none =>
      cases h2 : v₂.info? y with
      | none => exact hnone
      | some _ => rw [h1, h2] at this; exact this.elim
    | some i₁ =>
      cases h2 : v₂.info? y with
      | none => rw [h1, h2] at this; exact this.elim
      | some i₂ => rw [h1, h2] at this; exact hsome i₁ i₂ this
  refine ⟨?_, ?_, ?_, ?_, ?_⟩
  · intro a b hab
    show OptRel R ((v₁.info? a).bind (·.resolvedRef)) ((v₂.info? b).bind (·.resolvedRef))
    exact key hab (P := fun o₁ o₂ => OptRel R (o₁.bind (·.resolvedRef)) (o₂.bind (·.resolvedRef))) trivial
      fun _ _ hi => hi.resolvedRef
  · intro a b hab
    show OptRel R ((v₁.info? a).bind (·.resolvedDynamicRef)) ((v₂.info? b).bind (·.resolvedDynamicRef))
    exact key hab (P := fun o₁ o₂ => OptRel R (o₁.bind (·.resolvedDynamicRef)) (o₂.bind (·.resolvedDynamicRef)))
      trivial fun _ _ hi => hi.resolvedDynamicRef
  · intro a b hab
    show ((v₁.info? a).map (·.dynamicRefAnchor)).getD "" = ((v₂.info? b).map (·.dynamicRefAnchor)).getD ""
    exact key hab (P := fun o₁ o₂ => (o₁.map (·.dynamicRefAnchor)).getD "" = (o₂.map (·.dynamicRefAnchor)).getD "")
      rfl fun _ _ hi => hi.dynamicRefAnchor
  · intro a b hab
    show OptRel R ((v₁.info? a).bind (·.base)) ((v₂.info? b).bind (·.base))
    exact key hab (P := fun o₁ o₂ => OptRel R (o₁.bind (·.base)) (o₂.bind (·.base))) trivial fun _ _ hi => hi.base
  · intro r₁ r₂ name hr
    show OptRel R
      ((v₁.info? r₁).bind fun i => match Json.lookup name i.anchors with
        | some a => if a.dynamic then some a.schema else none
        | none => none)
      ((v₂.info? r₂).bind fun i => match Json.lookup name i.anchors with
        | some a => if a.dynamic then some a.schema else none
        | none => none)
    refine key hr (P := fun o₁ o₂ => OptRel R
      (o₁.bind fun i => match Json.lookup name i.anchors with
        | some a => if a.dynamic then some a.schema else none
        | none => none)
      (o₂.bind fun i => match Json.lookup name i.anchors with
        | some a => if a.dynamic then some a.schema else none
        | none => none)) trivial fun i₁ i₂ hi => ?_
    have hl := lookup_krel name hi.anchors
    show OptRel R
      (match Json.lookup name i₁.anchors with
        | some a => if a.dynamic then some a.schema else none
        | none => none)
      (match Json.lookup name i₂.anchors with
        | some a => if a.dynamic then some a.schema else none
        | none => none)
    cases h1 : Json.lookup name i₁.anchors with
    | none =>
      cases h2 : Json.lookup name i₂.anchors with
      | none => trivial
      | some _ => rw [h1, h2] at hl; exact hl.elim
    | some a₁ =>
      cases h2 : Json.lookup name i₂.anchors with
      | none => rw [h1, h2] at hl; exact hl.elim
      | some a₂ =>
        rw [h1, h2] at hl
        dsimp only
        rw [← hl.2]
        cases a₁.dynamic with
        | false => trivial
        | true => exact hl.1

/-- the environment `Validate` runs on after `Resolve`: the store, and the draft and tables of the `Resolved` -/
def venvOf (st : Store) (rs : Resolved) (reMatch : String → String → Bool) (hash : GoVal → UInt64) : VEnv :=
  { st := st, draft := rs.draft, infos := rs.infos, reMatch := reMatch, hash := hash }

/-- … and the Spec environment read off it -/
def specOf (st : Store) (rs : Resolved) (reMatch : String → String → Bool) : Spec.Env :=
  Refine.specEnvOf (venvOf st rs reMatch fun _ => 0)

theorem specOf_hash (st : Store) (rs : Resolved) (reMatch : String → String → Bool) (hash : GoVal → UInt64) :
    Refine.specEnvOf (venvOf st rs reMatch hash) = specOf st rs reMatch := rfl

/-- two resolutions related along `R`, over stores whose schema objects are `Iso.NodeSim R`-related: the Spec
    environments simulate each other (`Iso.EnvSim`), so validity is the same (`Iso.evalFuel_sim`) -/
theorem envSim_of_resolved {R : NodeId → NodeId → Prop} {st₁ st₂ : Store} {rs₁ rs₂ : Resolved}
    (hres : ResolvedRel R rs₁ rs₂)
    (hn : ∀ a b, R a b → OptRel (Iso.NodeSim R) (st₁.get? a) (st₂.get? b)) (reMatch : String → String → Bool) :
    Iso.EnvSim R (specOf st₁ rs₁ reMatch) (specOf st₂ rs₂ reMatch) :=
  (tablesSim_of_infos (v₁ := venvOf st₁ rs₁ reMatch fun _ => 0) (v₂ := venvOf st₂ rs₂ reMatch fun _ => 0)
    hres.infos).toEnvSim hres.draft rfl hn

/-! ### a successful Resolve has accepted the structure of the root document -/

theorem resolve_ok_cs (env : Env) (fuel : Nat) (root : NodeId) (base : String) (rs : Resolved)
    (h : resolve env fuel root base = .ok rs) :
    ∃ fresh, checkStructure env.st (env.st.size + 2) [(root, "")] [] = .ok fresh := by
  obtain ⟨s, b, d, hs, _, _, _⟩ := resolve_ok env fuel root base rs h
  cases fuel with
  | zero => simp [resolveDoc] at hs
  | succ fuel =>
    exact (resolveDocStep_docs env _ (resolveDoc_docs env fuel) _ _ _ _ _ hs (docsOk_init env)).2

/-- … and every schema checkStructure registered for the root document has an info record in the `Resolved` -/
theorem resolve_fresh_known (env : Env) (fuel : Nat) (root : NodeId) (base : String) (rs : Resolved)
    (h : resolve env fuel root base = .ok rs) (fresh : List (NodeId × Info))
    (hfresh : checkStructure env.st (env.st.size + 2) [(root, "")] [] = .ok fresh) :
    ∀ id, id ∈ fresh.map (·.1) → (lookupNat id rs.infos).isSome = true := by
  obtain ⟨s, b, d, hs, hd, _, hinfos⟩ := resolve_ok env fuel root base rs h
  intro id hmem
  cases fuel with
  | zero => simp [resolveDoc] at hs
  | succ fuel =>
    obtain ⟨hdocs, _⟩ := resolveDocStep_docs env _ (resolveDoc_docs env fuel) _ _ _ _ _ hs (docsOk_init env)
    have hknown : d.known.contains id = true := hdocs root d hd fresh hfresh id hmem
    rw [hinfos, lookupNat_filter_key id (fun x => d.known.contains x) s.infos hknown]
    exact resolveDocStep_table env _ (resolveDoc_keeps env fuel) _ _ _ _ _ hs fresh hfresh id hmem

/-! ### the structural relation between a tree and its clone -/

/-- `b` (in `st'`) is a copy of the subtree of `a` (in `st`), at some depth -/
def CloneS (B : Nat) (st st' : Store) (a b : NodeId) : Prop := ∃ d, Sim B st st' d a b

theorem cloneS_treeSim {B : Nat} {st st' : Store} (hs : st.size ≤ B) (hs' : st'.size ≤ B) :
    TreeSim (CloneS B st st') st st' := by
  rintro a b ⟨d, hsim⟩
  rcases Sim.cases hsim with ⟨hB, rfl⟩ | ⟨d', n, n', ha, hb, hrel⟩
  · rw [get?_eq_none_iff.2 (Nat.le_trans hs hB), get?_eq_none_iff.2 (Nat.le_trans hs' hB)]
    trivial
  · rw [ha, hb]
    exact NodeRel.imp (fun x y hxy => ⟨d', hxy⟩) hrel

/-! ### two trees that look alike, each resolved on its own -/

section
variable {S : NodeId → NodeId → Prop} {env₁ env₂ : Env} (hS : TreeSim S env₁.st env₂.st)
  (hre : env₁.reOk = env₂.reOk) (hd7 : env₁.draft7URIs = env₂.draft7URIs) (hl : env₂.loader = env₁.loader)
  (hnd : NoDocs env₁) (hnil₁ : env₁.st.get? 1000000000 = none) (hnil₂ : env₂.st.get? 1000000000 = none)
  {r₁ r₂ : NodeId} (hr : S r₁ r₂)
include hS hre hd7 hl hnd hnil₁ hnil₂ hr

/-- **Resolve commutes with the renaming between two trees that look alike** (self-contained resolution).  If the
    left `Resolve` returns normally and checkStructure accepts the right root, the right `Resolve` returns normally, and
    the two results are related along a one-to-one relation `R` (the pairing `PairR`) that relates the roots and along
    which paired schemas are shallow copies of each other with paired members. -/
theorem resolve_trees (fuel : Nat) (base : String) {rs₁ : Resolved} (h₁ : resolve env₁ fuel r₁ base = .ok rs₁)
    {f₂ : Nat} {fresh₂ : List (NodeId × Info)} (hcs₂ : checkStructure env₂.st f₂ [(r₂, "")] [] = .ok fresh₂) :
    ∃ (R : NodeId → NodeId → Prop) (rs₂ : Resolved), resolve env₂ fuel r₂ base = .ok rs₂ ∧ BiU R ∧ R r₁ r₂ ∧
      (∀ a b, R a b → S a b ∧ (lookupNat a rs₁.infos).isSome = true) ∧
      (∀ a b, R a b → OptRel (NodeRel R) (env₁.st.get? a) (env₂.st.get? b)) ∧ ResolvedRel R rs₁ rs₂ := by
  obtain ⟨fresh₁, hcs₁⟩ := resolve_ok_cs env₁ fuel r₁ base rs₁ h₁
  have hE := envRel_of_trees hS hre hd7 hl hnd hnil₁ hnil₂ hr hcs₁ hcs₂
  have hroot := pairR_root hS hr hcs₁ hcs₂
  obtain ⟨rs₂, h₂, hres⟩ := resolve_rel hE fuel hroot base rs₁ h₁
  exact ⟨PairR S fresh₁ fresh₂, rs₂, h₂, hE.biu, hroot,
    fun a b h => ⟨h.1, resolve_fresh_known env₁ fuel r₁ base rs₁ h₁ fresh₁ hcs₁ a (List.of_mem_zip h.2).1⟩,
    pairR_nodeRel hS hr hcs₁ hcs₂, hres⟩

/-- each resolved on its own: the same draft, the same Loader log, and every instance gets the same Spec result — with
    every amount of fuel, under `R`-related dynamic scopes — from the two roots -/
theorem trees_validate_same (fuel : Nat) (base : String) {rs₁ rs₂ : Resolved}
    (h₁ : resolve env₁ fuel r₁ base = .ok rs₁) (h₂ : resolve env₂ fuel r₂ base = .ok rs₂) :
    rs₁.draft = rs₂.draft ∧ rs₁.log = rs₂.log ∧ ∀ (reMatch : String → String → Bool) (vfuel : Nat) (j : Json),
      Spec.evalFuel (specOf env₁.st rs₁ reMatch) vfuel [] r₁ j = Spec.evalFuel (specOf env₂.st rs₂ reMatch) vfuel [] r₂ j := by
  obtain ⟨fresh₂, hcs₂⟩ := resolve_ok_cs env₂ fuel r₂ base rs₂ h₂
  obtain ⟨R, rs₂', h₂', _, hroot, _, hnode, hres⟩ := resolve_trees hS hre hd7 hl hnd hnil₁ hnil₂ hr fuel base h₁ hcs₂
  rw [h₂] at h₂'
  cases h₂'
  refine ⟨hres.draft, hres.log, fun reMatch vfuel j => ?_⟩
  have hn : ∀ a b, R a b → OptRel (Iso.NodeSim R) (env₁.st.get? a) (env₂.st.get? b) := by
    intro a b hab
    have := hnode a b hab
    cases e1 : env₁.st.get? a with
    | none =>
      cases e2 : env₂.st.get? b with
      | none => trivial
      | some _ => rw [e1, e2] at this; exact this.elim
    | some n₁ =>
      cases e2 : env₂.st.get? b with
      | none => rw [e1, e2] at this; exact this.elim
      | some n₂ => rw [e1, e2] at this; exact Iso.NodeSim.of_nodeRel this
  exact Iso.evalFuel_sim (envSim_of_resolved hres hn reMatch) vfuel .nil hroot j

/-- … and for the evaluator itself (`Go.validateFuel`, through `C01.validate_refines_spec`).  `v₁`, `v₂`: the
    environments `Validate` runs on — the drafts of the two `Resolved`; tables and stores that agree with the tables of
    the `Resolved` and with the resolved stores on the schemas the `Resolved` know (elsewhere they are arbitrary: the
    evaluation never gets there); the same regexp matcher —, well formed (`EnvWF`, `StoreWF`).  ONE Spec result governs the two runs: wherever the Spec decides, both return an error or
    both succeed with annotations denoting the same evaluated sets. -/
theorem trees_validate_iso (fuel : Nat) (base : String) {rs₁ rs₂ : Resolved}
    (h₁ : resolve env₁ fuel r₁ base = .ok rs₁) (h₂ : resolve env₂ fuel r₂ base = .ok rs₂) (v₁ v₂ : VEnv)
    (hi₁ : ∀ a, (lookupNat a rs₁.infos).isSome = true → v₁.info? a = lookupNat a rs₁.infos)
    (hi₂ : ∀ b, (lookupNat b rs₂.infos).isSome = true → v₂.info? b = lookupNat b rs₂.infos)
    (hd₁ : v₁.draft = rs₁.draft) (hd₂ : v₂.draft = rs₂.draft)
    (hs₁ : ∀ a, (lookupNat a rs₁.infos).isSome = true → v₁.st.get? a = env₁.st.get? a)
    (hs₂ : ∀ b, (lookupNat b rs₂.infos).isSome = true → v₂.st.get? b = env₂.st.get? b)
    (hrm : v₁.reMatch = v₂.reMatch) (hwf₁ : Refine.EnvWF v₁) (hwf₂ : Refine.EnvWF v₂)
    (hst₁ : Refine.StoreWF v₁.st) (hst₂ : Refine.StoreWF v₂.st) (vfuel : Nat) (j : Json) (hj : Json.WF j = true) :
    Refine.Rel j (Spec.evalFuel (Refine.specEnvOf v₁) vfuel [] r₁ j) (validateFuel v₁ vfuel [] (GoVal.ofJson j) r₁) ∧
      Refine.Rel j (Spec.evalFuel (Refine.specEnvOf v₁) vfuel [] r₁ j)
        (validateFuel v₂ vfuel [] (GoVal.ofJson j) r₂) := by
  obtain ⟨fresh₂, hcs₂⟩ := resolve_ok_cs env₂ fuel r₂ base rs₂ h₂
  obtain ⟨R, rs₂', h₂', _, hroot, hknown, hnode, hres⟩ :=
    resolve_trees hS hre hd7 hl hnd hnil₁ hnil₂ hr fuel base h₁ hcs₂
  rw [h₂] at h₂'
  cases h₂'
  have hkn : ∀ a b, R a b → (lookupNat a rs₁.infos).isSome = true ∧ (lookupNat b rs₂.infos).isSome = true := by
    intro a b hab
    have hka := (hknown a b hab).2
    exact ⟨hka, by rw [← OptRel.isSome_eq (hres.infos a b hab)]; exact hka⟩
  have hinfo : ∀ x y, R x y → OptRel (InfoRel R) (v₁.info? x) (v₂.info? y) := by
    intro x y hxy
    rw [hi₁ x (hkn x y hxy).1, hi₂ y (hkn x y hxy).2]
    exact hres.infos x y hxy
  have hn : ∀ a b, R a b → OptRel (Iso.NodeSim R) (v₁.st.get? a) (v₂.st.get? b) := by
    intro a b hab
    rw [hs₁ a (hkn a b hab).1, hs₂ b (hkn a b hab).2]
    have := hnode a b hab
    cases e1 : env₁.st.get? a with
    | none =>
      cases e2 : env₂.st.get? b with
      | none => trivial
      | some _ => rw [e1, e2] at this; exact this.elim
    | some n₁ =>
      cases e2 : env₂.st.get? b with
      | none => rw [e1, e2] at this; exact this.elim
      | some n₂ => rw [e1, e2] at this; exact Iso.NodeSim.of_nodeRel this
  have hE : Iso.EnvSim R (Refine.specEnvOf v₁) (Refine.specEnvOf v₂) :=
    (tablesSim_of_infos hinfo).toEnvSim (by show v₁.draft = v₂.draft; rw [hd₁, hd₂, hres.draft]) hrm hn
  exact Iso.validate_iso v₁ v₂ hwf₁ hwf₂ hst₁ hst₂ hE vfuel .nil (fun _ hx => nomatch hx) (fun _ hx => nomatch hx)
    hroot j hj

end

/-! ### the structural relation read the other way -/

theorem listRel_flip {α β} {S : α → β → Prop} : ∀ {l : List α} {l' : List β}, ListRel S l l' →
    ListRel (fun b a => S a b) l' l
  | _, _, .nil => .nil
  | _, _, .cons h1 h2 => .cons h1 (listRel_flip h2)

theorem optRel_flip {α β} {S : α → β → Prop} : ∀ {o : Option α} {o' : Option β}, OptRel S o o' →
    OptRel (fun b a => S a b) o' o
  | none, none, _ => trivial
  | some _, some _, h => h
  | none, some _, h => h.elim
  | some _, none, h => h.elim

theorem fieldRel_flip {R : NodeId → NodeId → Prop} : ∀ {f f' : ChildField}, FieldRel R f f' →
    FieldRel (fun b a => R a b) f' f
  | _, _, .one hr => .one (optRel_flip hr)
  | _, _, .many (cs := cs) (cs' := cs') hr => by
    refine .many ?_
    cases cs with
    | none =>
      cases cs' with
      | none => trivial
      | some _ => exact hr.elim
    | some l =>
      cases cs' with
      | none => exact hr.elim
      | some l' => exact listRel_flip (hr : ListRel R l l')
  | _, _, .keyed (cs := cs) (cs' := cs') hr => by
    refine .keyed ?_
    cases cs with
    | none =>
      cases cs' with
      | none => trivial
      | some _ => exact hr.elim
    | some l =>
      cases cs' with
      | none => exact hr.elim
      | some l' =>
        have h : ListRel (KeyRel R) l l' := hr
        exact ListRel.imp (fun a b (hab : KeyRel R b a) => (⟨hab.1.symm, hab.2⟩ : KeyRel (fun b a => R a b) a b))
          (listRel_flip h)

/-- a shallow copy read the other way -/
theorem NodeRel.flip {R : NodeId → NodeId → Prop} {n n' : Node} (h : NodeRel R n n') :
    NodeRel (fun b a => R a b) n' n := by
  obtain ⟨fs', hrel, rfl⟩ := h
  refine ⟨n.childFields, ?_, (setChildFields_shallow n fs').symm⟩
  rw [childFields_set hrel]
  exact ListRel.imp (fun _ _ hf => fieldRel_flip hf) (listRel_flip hrel)

theorem TreeSim.flip {S : NodeId → NodeId → Prop} {st₁ st₂ : Store} (h : TreeSim S st₁ st₂) :
    TreeSim (fun b a => S a b) st₂ st₁ := by
  intro b a hab
  have := h a b hab
  cases e1 : st₁.get? a with
  | none =>
    cases e2 : st₂.get? b with
    | none => trivial
    | some _ => rw [e1, e2] at this; exact this.elim
  | some n₁ =>
    cases e2 : st₂.get? b with
    | none => rw [e1, e2] at this; exact this.elim
    | some n₂ => rw [e1, e2] at this; exact NodeRel.flip this

end RIso
end Go
end JSV
