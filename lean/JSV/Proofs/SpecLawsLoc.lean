/-
  Algebraic laws, part 5: locations.  The keywords that apply subschemas at CHILD instance locations (`properties`,
  `patternProperties`, `additionalProperties`, `propertyNames`, `prefixItems`, `items`, `contains`, `unevaluated*`) use of
  those applications the verdict only: what was evaluated at a child location never reaches the parent
  (`child_locations_invisible`).  Hence one step of the Spec at the instance `j` depends on the applications at other
  instances through their verdicts only (`evalStep_forget`), at every level of the in-place nesting — what a cousin
  evaluated at a child location is invisible (`cousins_invisible`).
-/
import JSV.Proofs.SpecLaws
import JSV.Proofs.Defined
namespace JSV
namespace Laws
open Go GoVal Refine _root_.JSV.Inv
set_option linter.unusedSimpArgs false

/-- of a result, the verdict only -/
def forgetR (r : Spec.R) : Spec.R := r.map fun _ => {}

/-- of an outcome, definedness and the verdict only: the evaluated sets erased -/
def forget (o : Spec.Out) : Spec.Out := o.map forgetR

@[simp] theorem forgetR_isSome (r : Spec.R) : (forgetR r).isSome = r.isSome := by cases r <;> rfl
@[simp] theorem forget_none : forget none = none := rfl
@[simp] theorem forget_some (r : Spec.R) : forget (some r) = some (forgetR r) := rfl
@[simp] theorem forget_forget (o : Spec.Out) : forget (forget o) = forget o := by
  cases o with
  | none => rfl
  | some r => cases r <;> rfl

theorem sequence_map_forget : ∀ (l : List Spec.Out),
    Spec.sequence (l.map forget) = (Spec.sequence l).map (List.map forgetR)
  | [] => rfl
  | none :: l => by simp [Spec.sequence]
  | some r :: l => by
    simp only [List.map_cons, forget_some, Spec.sequence, sequence_map_forget l, Option.map_map]
    rfl

/-- a function of the verdicts only does not see `forget` -/
theorem seq_forget {α : Type} (F : List Spec.R → α) (hF : ∀ rs, F (rs.map forgetR) = F rs) (l : List Spec.Out) :
    (Spec.sequence (l.map forget)).map F = (Spec.sequence l).map F := by
  rw [sequence_map_forget, Option.map_map]
  congr 1
  funext rs
  exact hF rs

theorem allHold_forget (rs : List Spec.R) : Spec.allHold (rs.map forgetR) = Spec.allHold rs := by
  unfold Spec.allHold
  rw [List.all_map]
  congr 1
  funext r
  exact forgetR_isSome r

section child
variable (env : Spec.Env) (sub : NodeId → Json → Spec.Out) (n : Node) (j : Json)

/-- `propertyNames` -/
theorem kwPropertyNames_forget :
    Spec.kwPropertyNames (fun t v => forget (sub t v)) n j = Spec.kwPropertyNames sub n j := by
  unfold Spec.kwPropertyNames
  split
  · rename_i kvs t _
    have : (kvs.map fun (p : String × Json) => forget (sub t (.str p.1)))
        = (kvs.map fun (p : String × Json) => sub t (.str p.1)).map forget := by rw [List.map_map]; rfl
    simp only [this]
    exact seq_forget _ (fun rs => by simp only [allHold_forget]) _
  · rfl

/-- `unevaluatedItems` -/
theorem kwUnevaluatedItems_forget (ev : Spec.Ev) :
    Spec.kwUnevaluatedItems (fun t v => forget (sub t v)) n j ev = Spec.kwUnevaluatedItems sub n j ev := by
  unfold Spec.kwUnevaluatedItems
  split
  · rename_i xs t _
    generalize ((xs.zip (Spec.indices xs.length)).filter fun (p : Json × Nat) => !ev.items.contains p.2) = todo
    have : (todo.map fun (p : Json × Nat) => forget (sub t p.1))
        = (todo.map fun (p : Json × Nat) => sub t p.1).map forget := by rw [List.map_map]; rfl
    simp only [this]
    exact seq_forget _ (fun rs => by simp only [allHold_forget]) _
  · rfl

/-- `unevaluatedProperties` -/
theorem kwUnevaluatedProps_forget (ev : Spec.Ev) :
    Spec.kwUnevaluatedProps (fun t v => forget (sub t v)) n j ev = Spec.kwUnevaluatedProps sub n j ev := by
  unfold Spec.kwUnevaluatedProps
  split
  · rename_i kvs t _
    generalize (kvs.filter fun (p : String × Json) => !ev.props.contains p.1) = todo
    have : (todo.map fun (p : String × Json) => forget (sub t p.2))
        = (todo.map fun (p : String × Json) => sub t p.2).map forget := by rw [List.map_map]; rfl
    simp only [this]
    exact seq_forget _ (fun rs => by simp only [allHold_forget]) _
  · rfl

/-- `prefixItems` / `items` (draft-07: `items` / `additionalItems`) -/
theorem kwItems_forget : Spec.kwItems env (fun t v => forget (sub t v)) n j = Spec.kwItems env sub n j := by
  unfold Spec.kwItems
  split
  · rename_i xs
    generalize Spec.arrayShape env n = sh
    obtain ⟨pre, rest⟩ := sh
    cases rest with
    | none =>
      dsimp only
      have : ((pre.zip xs).map (fun (p : NodeId × Json) => forget (sub p.1 p.2)) ++ [])
          = (((pre.zip xs).map fun (p : NodeId × Json) => sub p.1 p.2) ++ []).map forget := by
        rw [List.map_append, List.map_map]; rfl
      simp only [this]
      exact seq_forget _ (fun rs => by simp only [allHold_forget]) _
    | some t =>
      dsimp only
      have : ((pre.zip xs).map (fun (p : NodeId × Json) => forget (sub p.1 p.2)) ++
            (xs.drop pre.length).map fun x => forget (sub t x))
          = (((pre.zip xs).map fun (p : NodeId × Json) => sub p.1 p.2) ++
            (xs.drop pre.length).map fun x => sub t x).map forget := by
        rw [List.map_append, List.map_map, List.map_map]; rfl
      simp only [this]
      exact seq_forget _ (fun rs => by simp only [allHold_forget]) _
  · rfl

theorem hits_forget (rs : List Spec.R) (idx : List Nat) :
    ((rs.map forgetR).zip idx).filterMap (fun (p : Spec.R × Nat) => if p.1.isSome then some p.2 else none)
      = (rs.zip idx).filterMap (fun (p : Spec.R × Nat) => if p.1.isSome then some p.2 else none) := by
  induction rs generalizing idx with
  | nil => rfl
  | cons r rs ih =>
    cases idx with
    | nil => rfl
    | cons i idx => simp only [List.map_cons, List.zip_cons_cons, List.filterMap_cons, forgetR_isSome, ih]

/-- `contains`: which items matched is kept (these ARE evaluated at this location), what was evaluated inside them is not -/
theorem kwContains_forget : Spec.kwContains (fun t v => forget (sub t v)) n j = Spec.kwContains sub n j := by
  unfold Spec.kwContains
  split
  · rename_i xs c _
    have : (xs.map fun x => forget (sub c x)) = (xs.map fun x => sub c x).map forget := by rw [List.map_map]; rfl
    simp only [this]
    exact seq_forget _ (fun rs => by simp only [hits_forget]) _
  · rfl

/-! ### properties / patternProperties / additionalProperties -/

/-- the verdict only, the key kept -/
def forgetK (p : String × Spec.Out) : String × Spec.Out := (p.1, forget p.2)

theorem map_fst_forgetK (l : List (String × Spec.Out)) : (l.map forgetK).map (·.1) = l.map (·.1) := by
  rw [List.map_map]; rfl

theorem map_snd_forgetK (l : List (String × Spec.Out)) : (l.map forgetK).map (·.2) = (l.map (·.2)).map forget := by
  rw [List.map_map, List.map_map]; rfl

theorem namedL_forget (props : List (String × NodeId)) (kvs : List (String × Json)) :
    namedL (fun t v => forget (sub t v)) props kvs = (namedL sub props kvs).map forgetK := by
  unfold namedL
  rw [List.map_filterMap]
  congr 1
  funext p
  cases Json.lookup p.1 props <;> rfl

theorem patternedL_forget (reMatch : String → String → Bool) (pats : List (String × NodeId)) (kvs : List (String × Json)) :
    patternedL reMatch (fun t v => forget (sub t v)) pats kvs = (patternedL reMatch sub pats kvs).map forgetK := by
  unfold patternedL
  rw [List.map_flatMap]
  congr 1
  funext p
  rw [List.map_map]
  rfl

theorem coveredL_forget (reMatch : String → String → Bool) (props pats : List (String × NodeId))
    (kvs : List (String × Json)) :
    coveredL reMatch (fun t v => forget (sub t v)) props pats kvs = coveredL reMatch sub props pats kvs := by
  unfold coveredL
  rw [namedL_forget, patternedL_forget, map_fst_forgetK, map_fst_forgetK]

theorem additionalL_forget (t : NodeId) (covered : List String) (kvs : List (String × Json)) :
    additionalL (fun t v => forget (sub t v)) t covered kvs = (additionalL sub t covered kvs).map forgetK := by
  unfold additionalL
  rw [List.map_map]
  rfl

/-- `properties` / `patternProperties` / `additionalProperties`: the names matched are kept, what the subschemas
    evaluated inside the member values is not -/
theorem kwProps_forget : Spec.kwProps env (fun t v => forget (sub t v)) n j = Spec.kwProps env sub n j := by
  cases j with
  | obj kvs =>
    cases hap : n.additionalProperties with
    | none =>
      rw [kwProps_none env _ n kvs hap, kwProps_none env sub n kvs hap, namedL_forget, patternedL_forget,
        ← List.map_nil (f := forgetK), ← List.map_append, ← List.map_append, map_fst_forgetK, map_snd_forgetK]
      exact seq_forget _ (fun rs => by simp only [allHold_forget]) _
    | some t =>
      rw [kwProps_some env _ n kvs t hap, kwProps_some env sub n kvs t hap, coveredL_forget, namedL_forget,
        patternedL_forget, additionalL_forget, ← List.map_append, ← List.map_append, map_fst_forgetK, map_snd_forgetK]
      exact seq_forget _ (fun rs => by simp only [allHold_forget]) _
  | _ => rfl

end child

/-! ## the in-place keywords apply subschemas to the instance itself -/

section inplace
variable (env : Spec.Env) (sub sub' : NodeId → Json → Spec.Out) (n : Node) (j : Json) (h : ∀ t, sub' t j = sub t j)
include h

theorem kwRef_congr (s : NodeId) : Spec.kwRef env sub' s n j = Spec.kwRef env sub s n j := by
  unfold Spec.kwRef Spec.inPlace
  simp only [h]

theorem kwDynamicRef_congr (scope : List NodeId) (s : NodeId) :
    Spec.kwDynamicRef env sub' scope s n j = Spec.kwDynamicRef env sub scope s n j := by
  unfold Spec.kwDynamicRef
  simp only [h]

theorem kwAllOf_congr : Spec.kwAllOf sub' n j = Spec.kwAllOf sub n j := by
  unfold Spec.kwAllOf
  simp only [h]

theorem kwAnyOf_congr : Spec.kwAnyOf sub' n j = Spec.kwAnyOf sub n j := by
  unfold Spec.kwAnyOf
  simp only [h]

theorem kwOneOf_congr : Spec.kwOneOf sub' n j = Spec.kwOneOf sub n j := by
  unfold Spec.kwOneOf
  simp only [h]

theorem kwNot_congr : Spec.kwNot sub' n j = Spec.kwNot sub n j := by
  unfold Spec.kwNot
  simp only [h]

theorem kwIf_congr : Spec.kwIf sub' n j = Spec.kwIf sub n j := by
  unfold Spec.kwIf
  simp only [h]

theorem kwDependentSchemas_congr : Spec.kwDependentSchemas env sub' n j = Spec.kwDependentSchemas env sub n j := by
  unfold Spec.kwDependentSchemas
  simp only [h]

end inplace

/-! ## one schema object -/

/-- two families of recursive calls that agree at the instance `j`, and elsewhere up to the evaluated sets -/
structure AgreeAt (j : Json) (rec rec' : Spec.Rec) : Prop where
  here : ∀ sc t, rec' sc t j = rec sc t j
  elsewhere : ∀ sc t v, forget (rec' sc t v) = forget (rec sc t v)

/-- a child-location keyword under such families -/
theorem child_congr {K : (NodeId → Json → Spec.Out) → Spec.Out} (hK : ∀ sub, K (fun t v => forget (sub t v)) = K sub)
    (sub sub' : NodeId → Json → Spec.Out) (h : ∀ t v, forget (sub' t v) = forget (sub t v)) : K sub' = K sub := by
  rw [← hK sub', ← hK sub]
  congr 1
  funext t v
  exact h t v

/-- **Locations.**  One step of the Spec at the instance `j` uses, of the applications at other instances, the verdict
    only. -/
theorem specBody_agree (env : Spec.Env) (rec rec' : Spec.Rec) (scope : List NodeId) (s : NodeId) (j : Json) (n : Node)
    (h : AgreeAt j rec rec') : specBody env rec' scope s j n = specBody env rec scope s j n := by
  have hh : ∀ t, rec' (scope ++ [s]) t j = rec (scope ++ [s]) t j := fun t => h.here _ t
  have he : ∀ t v, forget (rec' (scope ++ [s]) t v) = forget (rec (scope ++ [s]) t v) := fun t v => h.elsewhere _ t v
  have e1 : Spec.kwUnevaluatedItems (rec' (scope ++ [s])) (Spec.vocab env.draft n) j =
      Spec.kwUnevaluatedItems (rec (scope ++ [s])) (Spec.vocab env.draft n) j := by
    funext ev
    exact child_congr (K := fun sub => Spec.kwUnevaluatedItems sub (Spec.vocab env.draft n) j ev)
      (fun sub => kwUnevaluatedItems_forget sub _ j ev) _ _ he
  have e2 : Spec.kwUnevaluatedProps (rec' (scope ++ [s])) (Spec.vocab env.draft n) j =
      Spec.kwUnevaluatedProps (rec (scope ++ [s])) (Spec.vocab env.draft n) j := by
    funext ev
    exact child_congr (K := fun sub => Spec.kwUnevaluatedProps sub (Spec.vocab env.draft n) j ev)
      (fun sub => kwUnevaluatedProps_forget sub _ j ev) _ _ he
  unfold specBody kwList
  rw [kwRef_congr env _ _ n j hh, kwDynamicRef_congr env _ _ (Spec.vocab env.draft n) j hh, kwAllOf_congr _ _ n j hh, kwAnyOf_congr _ _ n j hh,
    kwOneOf_congr _ _ n j hh, kwNot_congr _ _ n j hh, kwIf_congr _ _ n j hh, kwDependentSchemas_congr env _ _ n j hh,
    child_congr (K := fun sub => Spec.kwItems env sub n j) (fun sub => kwItems_forget env sub n j) _ _ he,
    child_congr (K := fun sub => Spec.kwContains sub (Spec.vocab env.draft n) j)
      (fun sub => kwContains_forget sub _ j) _ _ he,
    child_congr (K := fun sub => Spec.kwProps env sub n j) (fun sub => kwProps_forget env sub n j) _ _ he,
    child_congr (K := fun sub => Spec.kwPropertyNames sub n j) (fun sub => kwPropertyNames_forget sub n j) _ _ he,
    e1, e2]

theorem evalStep_agree (env : Spec.Env) (rec rec' : Spec.Rec) (scope : List NodeId) (s : NodeId) (j : Json)
    (h : AgreeAt j rec rec') : Spec.evalStep env rec' scope s j = Spec.evalStep env rec scope s j := by
  rw [evalStep_unfold, evalStep_unfold]
  cases env.st.get? s with
  | none => rfl
  | some n => exact specBody_agree env rec rec' scope s j n h

open Classical in
/-- the recursive calls with the evaluated sets erased at every instance other than `j` -/
noncomputable def eraseOff (j : Json) (rec : Spec.Rec) : Spec.Rec :=
  fun sc t v => if v = j then rec sc t v else forget (rec sc t v)

theorem eraseOff_agree (j : Json) (rec : Spec.Rec) : AgreeAt j rec (eraseOff j rec) where
  here := by intro sc t; simp [eraseOff]
  elsewhere := by
    intro sc t v
    unfold eraseOff
    split
    · rfl
    · exact forget_forget _

/-- every application of the Spec at `(s, j)` is the step over the calls erased off `j` — at every level of the in-place
    nesting (the law holds for each `s` and each fuel), so nothing evaluated at another instance location by a subschema, a
    sibling branch or a cousin is ever visible at `j` -/
theorem evalFuel_eraseOff (env : Spec.Env) (fuel : Nat) (scope : List NodeId) (s : NodeId) (j : Json) :
    Spec.evalFuel env (fuel + 1) scope s j = Spec.evalStep env (eraseOff j (Spec.evalFuel env fuel)) scope s j :=
  (evalStep_agree env (Spec.evalFuel env fuel) _ scope s j (eraseOff_agree j _)).symm

/-! ## what `properties` evaluates -/

theorem namedL_keys (sub : NodeId → Json → Spec.Out) (ps : List (String × NodeId)) (kvs : List (String × Json)) :
    (namedL sub ps kvs).map (·.1) = (kvs.filter fun p => (Json.lookup p.1 ps).isSome).map (·.1) := by
  unfold namedL
  induction kvs with
  | nil => rfl
  | cons p kvs ih =>
    simp only [List.filterMap_cons, List.filter_cons]
    cases Json.lookup p.1 ps with
    | none => simp [ih]
    | some t => simp [ih]

theorem patternedL_nil (reMatch : String → String → Bool) (sub : NodeId → Json → Spec.Out) (kvs : List (String × Json)) :
    patternedL reMatch sub [] kvs = [] := by
  unfold patternedL
  induction kvs with
  | nil => rfl
  | cons p kvs ih => simp

/-- a schema object whose only keyword is `properties`: when valid on an object, it evaluates exactly the members named
    in `properties`, and no item — whatever the subschemas evaluated inside the member values -/
theorem kwProps_properties_only (env : Spec.Env) (sub : NodeId → Json → Spec.Out) (ps : List (String × NodeId))
    (kvs : List (String × Json)) (e : Spec.Ev)
    (h : Spec.kwProps env sub { properties := some ps } (.obj kvs) = some (some e)) :
    e = { props := (kvs.filter fun p => (Json.lookup p.1 ps).isSome).map (·.1), items := [] } := by
  rw [kwProps_none env sub _ kvs rfl] at h
  simp only [Option.map_eq_some_iff] at h
  obtain ⟨rs, _, hr⟩ := h
  split at hr
  · simp only [Option.some.injEq] at hr
    subst hr
    show ({ props := _, items := [] } : Spec.Ev) = _
    congr 1
    show ((namedL sub ps kvs ++ patternedL env.reMatch sub [] kvs ++ []).map (fun (p : String × Spec.Out) => p.1)) = _
    rw [patternedL_nil, List.append_nil, List.append_nil]
    exact namedL_keys sub ps kvs
  · cases hr

end Laws
end JSV
