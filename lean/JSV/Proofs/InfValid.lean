/-
  Helper lemmas for C04 / C09: the Spec's `evalStep` on the keyword fragment that `forType` emits
  (type / types, minimum, maximum, items, minItems, maxItems, properties, required,
  additionalProperties, and `not` for the false schema).
-/
import JSV.Spec.Valid
import JSV.Proofs.InfEqns
namespace JSV
namespace Spec
open Go (Draft)

/-- the environment of an inferred schema: draft 2020-12, no `$ref` / `$dynamicRef` anywhere, any regexp
    matcher (no `pattern` is emitted) -/
def specEnvNoRefs (st : Store) (reMatch : String → String → Bool := fun _ _ => false) : Env :=
  { st := st, draft := .d2020, refTarget := fun _ => none, dynInitial := fun _ => none,
    dynName := fun _ => "", resource := fun _ => none, dynDecl := fun _ _ => none, reMatch := reMatch }

/-! ### all results defined and valid -/

def AllValid (l : List (Option R)) : Prop := ∀ o, o ∈ l → ∃ e, o = some (some e)

theorem sequence_allValid : ∀ {l : List (Option R)}, AllValid l →
    ∃ rs, sequence l = some rs ∧ allHold rs = true
  | [], _ => ⟨[], rfl, rfl⟩
  | o :: l, h => by
    obtain ⟨e, rfl⟩ := h o List.mem_cons_self
    obtain ⟨rs, h1, h2⟩ := sequence_allValid (l := l) fun o ho => h o (List.mem_cons_of_mem _ ho)
    refine ⟨some e :: rs, by simp [sequence, h1], ?_⟩
    simpa [allHold] using h2

theorem allValid_of_sequence : ∀ {l : List (Option R)} {rs : List R}, sequence l = some rs → allHold rs = true →
    AllValid l
  | [], _, _, _ => fun _ ho => nomatch ho
  | none :: l, rs, h, _ => by simp [sequence] at h
  | some r :: l, rs, h, ha => by
    simp only [sequence, Option.map_eq_some_iff] at h
    obtain ⟨rs', h1, rfl⟩ := h
    simp only [allHold, List.all_cons, Bool.and_eq_true] at ha
    intro o ho
    rcases List.mem_cons.1 ho with rfl | ho
    · cases r with
      | none => simp at ha
      | some e => exact ⟨e, rfl⟩
    · exact allValid_of_sequence h1 (by simpa [allHold] using ha.2) o ho

/-- the shape every array / object keyword has -/
theorem seq_guard_valid {l : List (Option R)} (c : Ev) (h : AllValid l) :
    ((sequence l).map fun rs => if allHold rs then some c else none) = some (some c) := by
  obtain ⟨rs, h1, h2⟩ := sequence_allValid h
  simp [h1, h2]

theorem seq_guard_inv {l : List (Option R)} {c e : Ev}
    (h : ((sequence l).map fun rs => if allHold rs then some c else none) = some (some e)) : AllValid l := by
  cases hs : sequence l with
  | none => simp [hs] at h
  | some rs =>
    simp only [hs, Option.map_some, Option.some.injEq] at h
    split at h
    · rename_i ha; exact allValid_of_sequence hs ha
    · cases h

/-! ### keywords that are absent -/

theorem kwContains_none {sub : NodeId → Json → Out} {n : Node} (h : n.contains = none) (j : Json) :
    kwContains sub n j = some (some {}) := by
  unfold kwContains
  cases j <;> simp [h]

theorem kwPropertyNames_none {sub : NodeId → Json → Out} {n : Node} (h : n.propertyNames = none) (j : Json) :
    kwPropertyNames sub n j = some (some {}) := by
  unfold kwPropertyNames
  cases j <;> simp [h]

theorem kwUnevaluatedItems_none {sub : NodeId → Json → Out} {n : Node} (h : n.unevaluatedItems = none) (j : Json) (ev : Ev) :
    kwUnevaluatedItems sub n j ev = some (some {}) := by
  unfold kwUnevaluatedItems
  cases j <;> simp [h]

theorem kwUnevaluatedProps_none {sub : NodeId → Json → Out} {n : Node} (h : n.unevaluatedProperties = none) (j : Json) (ev : Ev) :
    kwUnevaluatedProps sub n j ev = some (some {}) := by
  unfold kwUnevaluatedProps
  cases j <;> simp [h]

theorem kwDependentSchemas_none {env : Env} {sub : NodeId → Json → Out} {n : Node} (hd : env.draft = .d2020)
    (h : n.dependentSchemas = none) (j : Json) :
    ∃ ev, kwDependentSchemas env sub n j = some (some ev) := by
  unfold kwDependentSchemas
  cases j <;> simp [h, hd, sequence, conj]

/-- the assertions of one schema object -/
def asserts (env : Env) (n : Node) (j : Json) : Bool :=
  typeOk n j && enumOk n j && constOk n j && numericOk n j && stringOk env n j &&
    arrayLimitsOk n j && objectLimitsOk env n j

/-- none of the applicators outside the fragment is present -/
structure Plain (n : Node) : Prop where
  ref : n.ref = ""
  dynamicRef : n.dynamicRef = ""
  allOf : n.allOf = none
  anyOf : n.anyOf = none
  oneOf : n.oneOf = none
  if_ : n.if_ = none
  contains : n.contains = none
  propertyNames : n.propertyNames = none
  dependentSchemas : n.dependentSchemas = none
  unevaluatedItems : n.unevaluatedItems = none
  unevaluatedProperties : n.unevaluatedProperties = none

/-- validity at a schema object of the fragment: the assertions, `not`, the items and the properties -/
theorem evalStep_plain {env : Env} {rec : Rec} {scope : List NodeId} {s : NodeId} {n : Node} {j : Json}
    (hd : env.draft = .d2020) (hn : env.st.get? s = some n) (P : Plain n) :
    (evalStep env rec scope s j).map Option.isSome =
      match kwNot (rec (scope ++ [s])) n j, kwItems env (rec (scope ++ [s])) n j, kwProps env (rec (scope ++ [s])) n j with
      | some a, some b, some c => some (a.isSome && b.isSome && c.isSome && asserts env n j)
      | _, _, _ => none := by
  unfold evalStep
  rw [hn]
  obtain ⟨evd, hds⟩ := kwDependentSchemas_none (sub := rec (scope ++ [s])) hd P.dependentSchemas j
  simp only [hd, show vocab Draft.d2020 n = n from rfl, P.ref, kwRef, inPlace, kwDynamicRef, P.dynamicRef, kwAllOf, P.allOf, kwAnyOf, P.anyOf, kwOneOf, P.oneOf,
    kwIf, P.if_, kwContains_none P.contains, kwPropertyNames_none P.propertyNames, hds,
    kwUnevaluatedItems_none P.unevaluatedItems, kwUnevaluatedProps_none P.unevaluatedProperties]
  simp only [asserts]
  generalize kwNot (rec (scope ++ [s])) n j = a
  generalize kwItems env (rec (scope ++ [s])) n j = b
  generalize kwProps env (rec (scope ++ [s])) n j = c
  generalize (typeOk n j && enumOk n j && constOk n j && numericOk n j && stringOk env n j && arrayLimitsOk n j &&
    objectLimitsOk env n j) = A
  rcases a with _ | _ | a <;> rcases b with _ | _ | b <;> rcases c with _ | _ | c <;> cases A <;>
    simp [sequence, conj]

/-! ### `not`, `items` -/

/-- defined and valid -/
def Valid (o : Out) : Prop := ∃ e, o = some (some e)

theorem kwNot_none {sub : NodeId → Json → Out} {n : Node} (h : n.not = none) (j : Json) :
    kwNot sub n j = some (some {}) := by
  unfold kwNot
  simp [h]

theorem kwItems_none {env : Env} {sub : NodeId → Json → Out} {n : Node} (hd : env.draft = .d2020)
    (hp : n.prefixItems = none) (hi : n.items = none) (j : Json) :
    ∃ ev, kwItems env sub n j = some (some ev) := by
  unfold kwItems
  cases j <;> simp [arrayShape, hd, hp, hi, sequence, allHold]

theorem kwItems_nonarr {env : Env} {sub : NodeId → Json → Out} {n : Node} {j : Json} (h : j.isArr = false) :
    kwItems env sub n j = some (some {}) := by
  unfold kwItems
  cases j <;> simp_all [Json.isArr]

theorem kwItems_arr {env : Env} {sub : NodeId → Json → Out} {n : Node} (hd : env.draft = .d2020)
    (hp : n.prefixItems = none) {eid : NodeId} (hi : n.items = some eid) (xs : List Json) :
    kwItems env sub n (.arr xs) =
      (sequence (xs.map fun x => sub eid x)).map fun rs =>
        if allHold rs then some { items := indices xs.length } else none := by
  unfold kwItems
  simp [arrayShape, hd, hp, hi]

theorem kwItems_arr_valid {env : Env} {sub : NodeId → Json → Out} {n : Node} (hd : env.draft = .d2020)
    (hp : n.prefixItems = none) {eid : NodeId} (hi : n.items = some eid) {xs : List Json}
    (h : ∀ x, x ∈ xs → Valid (sub eid x)) : Valid (kwItems env sub n (.arr xs)) := by
  rw [kwItems_arr hd hp hi]
  refine ⟨_, seq_guard_valid _ ?_⟩
  intro o ho
  obtain ⟨x, hx, rfl⟩ := List.mem_map.1 ho
  exact h x hx

theorem kwItems_arr_inv {env : Env} {sub : NodeId → Json → Out} {n : Node} (hd : env.draft = .d2020)
    (hp : n.prefixItems = none) {eid : NodeId} (hi : n.items = some eid) {xs : List Json}
    (h : Valid (kwItems env sub n (.arr xs))) : ∀ x, x ∈ xs → Valid (sub eid x) := by
  rw [kwItems_arr hd hp hi] at h
  obtain ⟨e, h⟩ := h
  intro x hx
  exact seq_guard_inv h _ (List.mem_map_of_mem hx)

/-! ### properties / additionalProperties -/

def namedOf (sub : NodeId → Json → Out) (props : List (String × NodeId)) (kvs : List (String × Json)) :
    List (String × Out) :=
  kvs.filterMap fun p => (Json.lookup p.1 props).map fun t => (p.1, sub t p.2)

def additionalOf (sub : NodeId → Json → Out) (ap : Option NodeId) (covered : List String) (kvs : List (String × Json)) :
    List (String × Out) :=
  match ap with
  | some t => (kvs.filter fun p => !covered.contains p.1).map fun p => (p.1, sub t p.2)
  | none => []

theorem flatMap_nil' {α β} (l : List α) : l.flatMap (fun _ => ([] : List β)) = [] := by
  induction l with
  | nil => rfl
  | cons x l ih => simp [List.flatMap_cons, ih]

theorem kwProps_obj {env : Env} {sub : NodeId → Json → Out} {n : Node} (hpp : n.patternProperties = none)
    (kvs : List (String × Json)) :
    kwProps env sub n (.obj kvs) =
      (sequence ((namedOf sub (n.properties.getD []) kvs ++
          additionalOf sub n.additionalProperties ((namedOf sub (n.properties.getD []) kvs).map (·.1)) kvs).map (·.2))).map
        fun rs => if allHold rs then
          some { props := (namedOf sub (n.properties.getD []) kvs ++
            additionalOf sub n.additionalProperties ((namedOf sub (n.properties.getD []) kvs).map (·.1)) kvs).map (·.1) }
        else none := by
  unfold kwProps
  simp only [hpp, Option.getD_none, List.filter_nil, List.map_nil, flatMap_nil', List.append_nil]
  cases hap : n.additionalProperties <;> rfl


theorem mem_namedOf {sub : NodeId → Json → Out} {props : List (String × NodeId)} {kvs : List (String × Json)}
    {q : String × Out} : q ∈ namedOf sub props kvs ↔ ∃ p t, p ∈ kvs ∧ Json.lookup p.1 props = some t ∧ q = (p.1, sub t p.2) := by
  unfold namedOf
  simp only [List.mem_filterMap, Option.map_eq_some_iff]
  constructor
  · rintro ⟨p, hp, t, ht, rfl⟩
    exact ⟨p, t, hp, ht, rfl⟩
  · rintro ⟨p, t, hp, ht, rfl⟩
    exact ⟨p, hp, t, ht, rfl⟩

theorem mem_namedOf_keys {sub : NodeId → Json → Out} {props : List (String × NodeId)} {kvs : List (String × Json)}
    {k : String} : k ∈ (namedOf sub props kvs).map (·.1) ↔ (∃ v, (k, v) ∈ kvs) ∧ (Json.lookup k props).isSome = true := by
  simp only [List.mem_map, mem_namedOf]
  constructor
  · rintro ⟨q, ⟨p, t, hp, ht, rfl⟩, rfl⟩
    exact ⟨⟨p.2, hp⟩, by simp [ht]⟩
  · rintro ⟨⟨v, hv⟩, hs⟩
    obtain ⟨t, ht⟩ := Option.isSome_iff_exists.1 hs
    exact ⟨_, ⟨(k, v), t, hv, ht, rfl⟩, rfl⟩

/-- every member that has a property schema is valid against it, every other one against
    additionalProperties (if present) -/
def PropsValid (sub : NodeId → Json → Out) (n : Node) (kvs : List (String × Json)) : Prop :=
  ∀ p, p ∈ kvs →
    (∀ t, Json.lookup p.1 (n.properties.getD []) = some t → Valid (sub t p.2)) ∧
    (Json.lookup p.1 (n.properties.getD []) = none → ∀ t, n.additionalProperties = some t → Valid (sub t p.2))

theorem kwProps_obj_valid {env : Env} {sub : NodeId → Json → Out} {n : Node} (hpp : n.patternProperties = none)
    {kvs : List (String × Json)} (h : PropsValid sub n kvs) : Valid (kwProps env sub n (.obj kvs)) := by
  rw [kwProps_obj hpp]
  refine ⟨_, seq_guard_valid _ ?_⟩
  intro o ho
  obtain ⟨q, hq, rfl⟩ := List.mem_map.1 ho
  rcases List.mem_append.1 hq with hq | hq
  · obtain ⟨p, t, hp, ht, rfl⟩ := mem_namedOf.1 hq
    exact (h p hp).1 t ht
  · unfold additionalOf at hq
    cases hap : n.additionalProperties with
    | none => rw [hap] at hq; cases hq
    | some t =>
      rw [hap] at hq
      obtain ⟨p, hp, rfl⟩ := List.mem_map.1 hq
      obtain ⟨hp, hc⟩ := List.mem_filter.1 hp
      refine (h p hp).2 ?_ t hap
      cases hl : Json.lookup p.1 (n.properties.getD []) with
      | none => rfl
      | some t0 =>
        have : p.1 ∈ (namedOf sub (n.properties.getD []) kvs).map (·.1) :=
          mem_namedOf_keys.2 ⟨⟨p.2, hp⟩, by simp [hl]⟩
        simp [this] at hc

theorem kwProps_obj_inv {env : Env} {sub : NodeId → Json → Out} {n : Node} (hpp : n.patternProperties = none)
    {kvs : List (String × Json)} (h : Valid (kwProps env sub n (.obj kvs))) : PropsValid sub n kvs := by
  rw [kwProps_obj hpp] at h
  obtain ⟨e, h⟩ := h
  have hv := seq_guard_inv h
  intro p hp
  constructor
  · intro t ht
    refine hv _ (List.mem_map.2 ⟨(p.1, sub t p.2), List.mem_append_left _ (mem_namedOf.2 ⟨p, t, hp, ht, rfl⟩), rfl⟩)
  · intro hl t hap
    refine hv _ (List.mem_map.2 ⟨(p.1, sub t p.2), List.mem_append_right _ ?_, rfl⟩)
    unfold additionalOf
    rw [hap]
    refine List.mem_map.2 ⟨p, List.mem_filter.2 ⟨hp, ?_⟩, rfl⟩
    have : ¬ p.1 ∈ (namedOf sub (n.properties.getD []) kvs).map (·.1) := fun hm => by
      have := (mem_namedOf_keys.1 hm).2
      rw [hl] at this
      cases this
    simpa using this

theorem kwProps_nonobj {env : Env} {sub : NodeId → Json → Out} {n : Node} {j : Json} (h : j.isObj = false) :
    kwProps env sub n j = some (some {}) := by
  unfold kwProps
  cases j <;> simp_all [Json.isObj]

end Spec
end JSV
