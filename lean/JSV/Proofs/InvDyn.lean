/-
  C06 helpers: the dynamic-scope walk.
-/
import JSV.Proofs.RefineInPlace
namespace JSV
namespace Inv
open Go GoVal Refine

/-- the schema bearing `$dynamicAnchor: name` in the schema resource that scope entry `x` belongs to -/
def declAt (env : Spec.Env) (name : String) (x : NodeId) : Option NodeId :=
  (env.resource x).bind (env.dynDecl · name)

theorem dynTarget_eq_findSome (env : Spec.Env) (scope : List NodeId) (name : String) :
    Spec.dynTarget env scope name = scope.findSome? (declAt env name) := by
  unfold Spec.dynTarget
  congr 1
  funext s
  unfold declAt
  cases env.resource s <;> rfl

/-- the `$dynamicRef` block of the evaluator under 2020-12 (`hd20`: under draft-07 the keyword is unknown and the block
    does nothing, `bDynamicRef_d7`), when the resolution tables are well formed: one in-place application,
    to the initial target if it carries no dynamic anchor, else to the Spec's `dynTarget` of the evaluator's stack -/
theorem bDynamicRef_target (env : VEnv) (hd20 : env.draft = .d2020) (hwf : EnvWF env) (rec : Go.Rec) (stack : List NodeId)
    (hstack : ∀ x, x ∈ stack → (env.info? x).isSome = true) (n : Node) (i : Info) (initial : NodeId)
    (hdr : n.dynamicRef ≠ "") (hres : i.resolvedDynamicRef = some initial) (inst : GoVal) (anns : Anns) :
    bDynamicRef env rec stack n (some i) inst anns =
      mustValid rec stack inst
        (if i.dynamicRefAnchor = "" then initial
         else (Spec.dynTarget (specEnvOf env) stack i.dynamicRefAnchor).getD initial) anns := by
  unfold bDynamicRef
  have h1 : (n.dynamicRef != "") = true := by simp [hdr]
  simp only [h1, hd20, beq_d2020_d2020, Bool.and_self, if_true, hres]
  by_cases ha : i.dynamicRefAnchor = ""
  · simp [ha]
  · have h2 : (i.dynamicRefAnchor == "") = false := by simp [ha]
    simp only [h2, Bool.false_eq_true, if_false, ha, dynLookup_eq env hwf i.dynamicRefAnchor stack hstack, Res.bind_ok]

end Inv
end JSV
