/-
  C02 helpers: each draft sees only its own vocabulary.  `eraseNon7` clears every field of a schema object that only
  2020-12 gives a meaning to and that the draft-07 evaluation does not read; `eraseNon2020` clears the draft-07-only
  forms.  Neither the Spec nor the evaluator can tell the erased store from the original under the respective draft.
-/
import JSV.Proofs.InvDraft
import JSV.Proofs.InvLater
namespace JSV
namespace Inv
open Go GoVal Refine

/-- clear `$anchor` and `$dynamicAnchor` (2020-12 only; draft-07 spells a plain-name anchor `"$id": "#name"`) -/
def eraseAnchors (n : Node) : Node := { n with anchor := "", dynamicAnchor := "" }

/-- clear every 2020-12-only keyword the draft-07 evaluation ignores: the five of `eraseLater` (`$dynamicRef`,
    `minContains`, `maxContains`, `unevaluatedItems`, `unevaluatedProperties`), the three of `erase2020only`
    (`prefixItems`, `dependentRequired`, `dependentSchemas`), and `$anchor`, `$dynamicAnchor` -/
def eraseNon7 (n : Node) : Node :=
  { n with dynamicRef := "", minContains := none, maxContains := none, unevaluatedItems := none,
           unevaluatedProperties := none, prefixItems := none, dependentRequired := none, dependentSchemas := none,
           anchor := "", dynamicAnchor := "" }

/-- clear every draft-07-only keyword: both forms of `dependencies`, array-form `items`, `additionalItems` -/
def eraseNon2020 (n : Node) : Node :=
  { n with dependencySchemas := none, dependencyStrings := none, itemsArray := none, additionalItems := none }

theorem eraseNon7_eq (n : Node) : eraseNon7 n = eraseLater (erase2020only (eraseAnchors n)) := rfl
theorem eraseNon2020_eq (n : Node) : eraseNon2020 n = erase7only n := rfl

/-- the Go names of the fields `eraseNon7` clears, in the order of the struct declaration -/
def non7Fields : List String :=
  ["Anchor", "DynamicAnchor", "DynamicRef", "PrefixItems", "MinContains", "MaxContains", "UnevaluatedItems",
   "DependentRequired", "UnevaluatedProperties", "DependentSchemas"]

/-- the Go names of the fields `eraseNon2020` clears -/
def non2020Fields : List String := ["DependencySchemas", "DependencyStrings", "ItemsArray", "AdditionalItems"]

/-- … as compositions of the field-wise erasures of C18 -/
theorem eraseNon7_eq_foldr (n : Node) : eraseNon7 n = non7Fields.foldr eraseField n := by
  have h1 : ∀ m : Node, eraseField "PrefixItems" m = { m with prefixItems := none } := fun _ => rfl
  have h2 : ∀ m : Node, eraseField "DependentRequired" m = { m with dependentRequired := none } := fun _ => rfl
  have h3 : ∀ m : Node, eraseField "DependentSchemas" m = { m with dependentSchemas := none } := fun _ => rfl
  have h4 : ∀ m : Node, eraseField "Anchor" m = { m with anchor := "" } := fun _ => rfl
  have h5 : ∀ m : Node, eraseField "DynamicAnchor" m = { m with dynamicAnchor := "" } := fun _ => rfl
  have h6 : ∀ m : Node, eraseField "DynamicRef" m = { m with dynamicRef := "" } := fun _ => rfl
  have h7 : ∀ m : Node, eraseField "UnevaluatedProperties" m = { m with unevaluatedProperties := none } := fun _ => rfl
  have h8 : ∀ m : Node, eraseField "UnevaluatedItems" m = { m with unevaluatedItems := none } := fun _ => rfl
  have h9 : ∀ m : Node, eraseField "MaxContains" m = { m with maxContains := none } := fun _ => rfl
  have h10 : ∀ m : Node, eraseField "MinContains" m = { m with minContains := none } := fun _ => rfl
  show _ = eraseField "Anchor" (eraseField "DynamicAnchor" (eraseField "DynamicRef" (eraseField "PrefixItems"
    (eraseField "MinContains" (eraseField "MaxContains" (eraseField "UnevaluatedItems" (eraseField "DependentRequired"
    (eraseField "UnevaluatedProperties" (eraseField "DependentSchemas" n)))))))))
  rw [h3, h7, h2, h8, h9, h10, h1, h6, h5, h4]
  rfl

theorem eraseNon2020_eq_foldr (n : Node) : eraseNon2020 n = non2020Fields.foldr eraseField n := by
  have h1 : ∀ m : Node, eraseField "DependencySchemas" m = { m with dependencySchemas := none } := fun _ => rfl
  have h2 : ∀ m : Node, eraseField "DependencyStrings" m = { m with dependencyStrings := none } := fun _ => rfl
  have h3 : ∀ m : Node, eraseField "ItemsArray" m = { m with itemsArray := none } := fun _ => rfl
  have h4 : ∀ m : Node, eraseField "AdditionalItems" m = { m with additionalItems := none } := fun _ => rfl
  show _ = eraseField "DependencySchemas" (eraseField "DependencyStrings" (eraseField "ItemsArray"
    (eraseField "AdditionalItems" n)))
  rw [h4, h3, h2, h1]
  rfl

/-! ### the evaluator -/

theorem stepBody_anchors (env : VEnv) (rec : Go.Rec) (stack : List NodeId) (i : GoVal) (s : NodeId) (n : Node) :
    stepBody env rec stack i s (eraseAnchors n) = stepBody env rec stack i s n :=
  stepBody_congr env rec stack i s _ _ rfl

theorem stepBody_non7 (env : VEnv) (hd : env.draft = .d7) (rec : Go.Rec) (stack : List NodeId) (i : GoVal) (s : NodeId)
    (n : Node) : stepBody env rec stack i s (eraseNon7 n) = stepBody env rec stack i s n := by
  rw [eraseNon7_eq, stepBody_later7 env hd, stepBody_d7 env hd, stepBody_anchors]

theorem stepBody_non2020 (env : VEnv) (hd : env.draft = .d2020) (rec : Go.Rec) (stack : List NodeId) (i : GoVal)
    (s : NodeId) (n : Node) : stepBody env rec stack i s (eraseNon2020 n) = stepBody env rec stack i s n :=
  stepBody_d2020 env hd rec stack i s n

/-- a draft-07 evaluation reads none of the ten fields of `eraseNon7` -/
theorem validateFuel_non7 (env : VEnv) (hd : env.draft = .d7) : ∀ fuel stack i s,
    validateFuel { env with st := env.st.map eraseNon7 } fuel stack i s = validateFuel env fuel stack i s :=
  validateFuel_map_of env eraseNon7 (fun rec stack i s n => stepBody_non7 env hd rec stack i s n)

/-- a 2020-12 evaluation reads none of the four fields of `eraseNon2020` -/
theorem validateFuel_non2020 (env : VEnv) (hd : env.draft = .d2020) : ∀ fuel stack i s,
    validateFuel { env with st := env.st.map eraseNon2020 } fuel stack i s = validateFuel env fuel stack i s :=
  validateFuel_map_of env eraseNon2020 (fun rec stack i s n => stepBody_non2020 env hd rec stack i s n)

/-- the entry point `(*Resolved).Validate` on a store mapped by an `f` the evaluator cannot tell from the identity and
    that keeps `$schema` -/
theorem validate_map_of (env : VEnv) (f : Node → Node) (hs : ∀ n, (f n).schema = n.schema)
    (hf : ∀ fuel stack i s, validateFuel { env with st := env.st.map f } fuel stack i s = validateFuel env fuel stack i s)
    (supported : List String) (fuel : Nat) (root : NodeId) (inst : GoVal) :
    Go.validate { env with st := env.st.map f } supported fuel root inst = Go.validate env supported fuel root inst := by
  unfold Go.validate
  show (match Store.get? (env.st.map f) root with
        | none => Res.panic
        | some rn => if (!supported.contains rn.schema) = true then Res.err
                     else Res.bind (validateFuel { env with st := env.st.map f } fuel [] inst root) fun _ => .ok ()) = _
  rw [get?_map]
  cases Store.get? env.st root with
  | none => rfl
  | some n =>
    show (if (!supported.contains (f n).schema) = true then Res.err
          else Res.bind (validateFuel { env with st := env.st.map f } fuel [] inst root) fun _ => .ok ()) = _
    rw [hs n, hf]

/-! ### the Spec -/

theorem kwItems_d7 (env : Spec.Env) (hd : env.draft = .d7) (sub : NodeId → Json → Spec.Out) (n : Node) (j : Json) :
    Spec.kwItems env sub (erase2020only n) j = Spec.kwItems env sub n j := by
  unfold Spec.kwItems Spec.arrayShape; rw [hd]; rfl

theorem objectLimitsOk_d7 (env : Spec.Env) (hd : env.draft = .d7) (n : Node) (j : Json) :
    Spec.objectLimitsOk env (erase2020only n) j = Spec.objectLimitsOk env n j := by
  unfold Spec.objectLimitsOk; rw [hd]; rfl

theorem kwDependentSchemas_d7 (env : Spec.Env) (hd : env.draft = .d7) (sub : NodeId → Json → Spec.Out) (n : Node)
    (j : Json) : Spec.kwDependentSchemas env sub (erase2020only n) j = Spec.kwDependentSchemas env sub n j := by
  unfold Spec.kwDependentSchemas; rw [hd]; rfl

theorem kwItems_d2020 (env : Spec.Env) (hd : env.draft = .d2020) (sub : NodeId → Json → Spec.Out) (n : Node) (j : Json) :
    Spec.kwItems env sub (erase7only n) j = Spec.kwItems env sub n j := by
  unfold Spec.kwItems Spec.arrayShape; rw [hd]; rfl

theorem objectLimitsOk_d2020 (env : Spec.Env) (hd : env.draft = .d2020) (n : Node) (j : Json) :
    Spec.objectLimitsOk env (erase7only n) j = Spec.objectLimitsOk env n j := by
  unfold Spec.objectLimitsOk; rw [hd]; rfl

theorem kwDependentSchemas_d2020 (env : Spec.Env) (hd : env.draft = .d2020) (sub : NodeId → Json → Spec.Out) (n : Node)
    (j : Json) : Spec.kwDependentSchemas env sub (erase7only n) j = Spec.kwDependentSchemas env sub n j := by
  unfold Spec.kwDependentSchemas; rw [hd]; rfl

/-- draft-07: the Spec reads a schema object without `prefixItems`, `dependentRequired`, `dependentSchemas` alike -/
theorem specBody_d7 (env : Spec.Env) (hd : env.draft = .d7) (rec : Spec.Rec) (scope : List NodeId) (s : NodeId)
    (j : Json) (n : Node) : specBody env rec scope s j (erase2020only n) = specBody env rec scope s j n := by
  unfold specBody kwList assertsOf
  rw [kwItems_d7 env hd, objectLimitsOk_d7 env hd, kwDependentSchemas_d7 env hd]
  rfl

/-- 2020-12: … without `dependencies`, array-form `items`, `additionalItems` alike -/
theorem specBody_d2020 (env : Spec.Env) (hd : env.draft = .d2020) (rec : Spec.Rec) (scope : List NodeId) (s : NodeId)
    (j : Json) (n : Node) : specBody env rec scope s j (erase7only n) = specBody env rec scope s j n := by
  unfold specBody kwList assertsOf
  rw [kwItems_d2020 env hd, objectLimitsOk_d2020 env hd, kwDependentSchemas_d2020 env hd]
  rfl

/-- the Spec never reads `$anchor` / `$dynamicAnchor` (it reads `env.dynDecl`, what Resolve made of them) -/
theorem specBody_anchors (env : Spec.Env) (rec : Spec.Rec) (scope : List NodeId) (s : NodeId) (j : Json) (n : Node) :
    specBody env rec scope s j (eraseAnchors n) = specBody env rec scope s j n := rfl

theorem specBody_non7 (env : Spec.Env) (hd : env.draft = .d7) (rec : Spec.Rec) (scope : List NodeId) (s : NodeId)
    (j : Json) (n : Node) : specBody env rec scope s j (eraseNon7 n) = specBody env rec scope s j n := by
  rw [eraseNon7_eq, specBody_later7 env hd, specBody_d7 env hd, specBody_anchors]

theorem evalFuel_non7 (env : Spec.Env) (hd : env.draft = .d7) : ∀ fuel scope s j,
    Spec.evalFuel { env with st := env.st.map eraseNon7 } fuel scope s j = Spec.evalFuel env fuel scope s j :=
  evalFuel_map_of env eraseNon7 (fun rec scope s j n => specBody_non7 env hd rec scope s j n)

theorem evalFuel_non2020 (env : Spec.Env) (hd : env.draft = .d2020) : ∀ fuel scope s j,
    Spec.evalFuel { env with st := env.st.map eraseNon2020 } fuel scope s j = Spec.evalFuel env fuel scope s j :=
  evalFuel_map_of env eraseNon2020 (fun rec scope s j n => specBody_d2020 env hd rec scope s j n)

end Inv
end JSV
