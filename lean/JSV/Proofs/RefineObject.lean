/-
  Refinement proof, part 4: the object block (properties / patternProperties / additionalProperties,
  propertyNames, limits, dependencies, unevaluatedProperties).
-/
import JSV.Proofs.RefineArray
namespace JSV
namespace Refine
open Go GoVal
set_option linter.unusedSimpArgs false

theorem bind_assoc {α β γ} (x : Res α) (f : α → Res β) (g : β → Res γ) :
    Res.bind (Res.bind x f) g = Res.bind x (fun a => Res.bind (f a) g) := by
  cases x <;> rfl

theorem lookup_ofJsonObj_wrap (k : String) (kvs : List (String × Json)) :
    Json.lookup k (ofJsonObj kvs) = (Json.lookup k kvs).map wrap := by
  rw [lookup_ofJsonObj]; rfl

/-! ### the loops as lists of calls -/

section
variable {rec : Go.Rec} {stack : List NodeId}

theorem propertiesLoop_eq (kvs : List (String × Json)) : ∀ (props : List (String × NodeId)) (ev : List String),
    propertiesLoop rec stack (ofJsonObj kvs) props ev
      = Res.bind (callLoop rec stack ((props.filterMap fun p => (Json.lookup p.1 kvs).map fun v => (p.2, v)).map
            fun c => (c.1, wrap c.2)))
          fun _ => .ok (ev ++ (props.filter fun p => (Json.lookup p.1 kvs).isSome).map (·.1))
  | [], ev => by simp [propertiesLoop, callLoop]
  | (k, t) :: props, ev => by
    rw [propertiesLoop, lookup_ofJsonObj_wrap]
    cases hl : Json.lookup k kvs with
    | none => simp [hl, propertiesLoop_eq kvs props ev]
    | some v =>
      simp [hl, callLoop, propertiesLoop_eq kvs props (ev ++ [k]), bind_assoc, List.append_assoc]

theorem patternsLoop_eq (env : VEnv) (prop : String) (v : Json) : ∀ (pats : List (String × NodeId)) (hit : Bool),
    patternsLoop env rec stack prop (wrap v) pats hit
      = Res.bind (callLoop rec stack (((pats.filter fun q => env.reMatch q.1 prop).map fun q => (q.2, v)).map
            fun c => (c.1, wrap c.2)))
          fun _ => .ok (hit || pats.any fun q => env.reMatch q.1 prop)
  | [], hit => by simp [patternsLoop, callLoop]
  | (re, t) :: pats, hit => by
    rw [patternsLoop]
    by_cases hm : env.reMatch re prop = true
    · simp [hm, callLoop, patternsLoop_eq env prop v pats true, bind_assoc]
    · simp [hm, patternsLoop_eq env prop v pats hit]

theorem patternPropsLoop_eq (env : VEnv) (pats : List (String × NodeId)) :
    ∀ (kvs : List (String × Json)) (ev : List String),
    patternPropsLoop env rec stack pats (ofJsonObj kvs) ev
      = Res.bind (callLoop rec stack ((kvs.flatMap fun p =>
              (pats.filter fun q => env.reMatch q.1 p.1).map fun q => (q.2, p.2)).map fun c => (c.1, wrap c.2)))
          fun _ => .ok (ev ++ (kvs.filter fun p => pats.any fun q => env.reMatch q.1 p.1).map (·.1))
  | [], ev => by simp [ofJsonObj, patternPropsLoop, callLoop]
  | (k, v) :: kvs, ev => by
    rw [ofJsonObj, patternPropsLoop]
    show Res.bind (patternsLoop env rec stack k (wrap v) pats false) _ = _
    rw [patternsLoop_eq, bind_assoc]
    simp only [Res.bind_ok, Bool.false_or, List.flatMap_cons, List.map_append, callLoop_append, bind_assoc]
    congr 1
    funext _
    rw [patternPropsLoop_eq env pats kvs]
    by_cases ha : (pats.any fun q => env.reMatch q.1 k) = true
    · simp [ha, List.append_assoc]
    · simp [ha]

theorem additionalLoop_eq (ap : NodeId) : ∀ (kvs : List (String × Json)) (ev : List String),
    (kvs.map (·.1)).Nodup →
    additionalLoop rec stack ap (ofJsonObj kvs) ev
      = Res.bind (callLoop rec stack (((kvs.filter fun p => !ev.contains p.1).map fun p => (ap, p.2)).map
            fun c => (c.1, wrap c.2)))
          fun _ => .ok (ev ++ (kvs.filter fun p => !ev.contains p.1).map (·.1))
  | [], ev, _ => by simp [ofJsonObj, additionalLoop, callLoop]
  | (k, v) :: kvs, ev, hnd => by
    rw [ofJsonObj, additionalLoop]
    have hnd' : (kvs.map (·.1)).Nodup := (List.nodup_cons.1 hnd).2
    have hk : k ∉ kvs.map (·.1) := (List.nodup_cons.1 hnd).1
    by_cases hc : ev.contains k = true
    · rw [if_pos hc, additionalLoop_eq ap kvs ev hnd', List.filter_cons_of_neg (by simpa using hc)]
    · rw [if_neg hc, additionalLoop_eq ap kvs (ev ++ [k]) hnd']
      have hfil : (kvs.filter fun p => !(ev ++ [k]).contains p.1) = kvs.filter fun p => !ev.contains p.1 := by
        apply List.filter_congr
        intro p hp
        have : p.1 ≠ k := fun h => hk (h ▸ List.mem_map.2 ⟨p, hp, rfl⟩)
        simp [this]
      have hc' : ev.contains k = false := by simpa using hc
      rw [hfil, List.filter_cons_of_pos (by simpa using hc')]
      simp only [List.map_cons, callLoop, bind_assoc, List.append_assoc, List.cons_append, List.nil_append]
      rfl

theorem propertyNamesLoop_eq (pn : NodeId) : ∀ (kvs : List (String × Json)),
    propertyNamesLoop rec stack pn (ofJsonObj kvs)
      = callLoop rec stack ((kvs.map fun p => (pn, Json.str p.1)).map fun c => (c.1, ofJson c.2))
  | [] => by simp [ofJsonObj, propertyNamesLoop, callLoop]
  | (k, v) :: kvs => by
    rw [ofJsonObj, propertyNamesLoop, propertyNamesLoop_eq pn kvs]
    simp [callLoop, ofJson]

theorem unevalPropsLoop_eq (u : NodeId) (anns : Anns) : ∀ (kvs : List (String × Json)),
    unevalPropsLoop rec stack u anns (ofJsonObj kvs)
      = callLoop rec stack (((kvs.filter fun p => !anns.evaluatedProperties.contains p.1).map fun p => (u, p.2)).map
          fun c => (c.1, wrap c.2))
  | [] => by simp [ofJsonObj, unevalPropsLoop, callLoop]
  | (k, v) :: kvs => by
    rw [ofJsonObj, unevalPropsLoop, unevalPropsLoop_eq u anns kvs]
    by_cases hc : anns.evaluatedProperties.contains k = true
    · rw [if_pos hc, List.filter_cons_of_neg (by simpa using hc)]
    · have hc' : anns.evaluatedProperties.contains k = false := by simpa using hc
      rw [if_neg hc, List.filter_cons_of_pos (by simpa using hc')]
      simp only [List.map_cons, callLoop]
      rfl

end

/-! ### properties, patternProperties, additionalProperties -/

def namedL (sub : NodeId → Json → Spec.Out) (props : List (String × NodeId)) (kvs : List (String × Json)) :
    List (String × Spec.Out) :=
  kvs.filterMap fun p => (Json.lookup p.1 props).map fun t => (p.1, sub t p.2)

def patternedL (reMatch : String → String → Bool) (sub : NodeId → Json → Spec.Out) (pats : List (String × NodeId))
    (kvs : List (String × Json)) : List (String × Spec.Out) :=
  kvs.flatMap fun p => (pats.filter fun q => reMatch q.1 p.1).map fun q => (p.1, sub q.2 p.2)

def additionalL (sub : NodeId → Json → Spec.Out) (t : NodeId) (covered : List String) (kvs : List (String × Json)) :
    List (String × Spec.Out) :=
  (kvs.filter fun p => !covered.contains p.1).map fun p => (p.1, sub t p.2)

def coveredL (reMatch : String → String → Bool) (sub : NodeId → Json → Spec.Out) (props pats : List (String × NodeId))
    (kvs : List (String × Json)) : List String :=
  (namedL sub props kvs).map (·.1) ++ (patternedL reMatch sub pats kvs).map (·.1)

theorem kwProps_some (senv : Spec.Env) (sub : NodeId → Json → Spec.Out) (n : Node) (kvs : List (String × Json))
    (t : NodeId) (hap : n.additionalProperties = some t) :
    Spec.kwProps senv sub n (.obj kvs) =
      (Spec.sequence ((namedL sub (n.properties.getD []) kvs ++ patternedL senv.reMatch sub (n.patternProperties.getD []) kvs
          ++ additionalL sub t (coveredL senv.reMatch sub (n.properties.getD []) (n.patternProperties.getD []) kvs) kvs).map (·.2))).map
        fun rs => if Spec.allHold rs then
          some { props := (namedL sub (n.properties.getD []) kvs ++ patternedL senv.reMatch sub (n.patternProperties.getD []) kvs
          ++ additionalL sub t (coveredL senv.reMatch sub (n.properties.getD []) (n.patternProperties.getD []) kvs) kvs).map (·.1) }
          else none := by
  unfold Spec.kwProps
  simp only [hap]
  rfl

theorem kwProps_none (senv : Spec.Env) (sub : NodeId → Json → Spec.Out) (n : Node) (kvs : List (String × Json))
    (hap : n.additionalProperties = none) :
    Spec.kwProps senv sub n (.obj kvs) =
      (Spec.sequence ((namedL sub (n.properties.getD []) kvs ++ patternedL senv.reMatch sub (n.patternProperties.getD []) kvs
          ++ ([] : List (String × Spec.Out))).map (·.2))).map
        fun rs => if Spec.allHold rs then
          some { props := (namedL sub (n.properties.getD []) kvs ++ patternedL senv.reMatch sub (n.patternProperties.getD []) kvs
          ++ ([] : List (String × Spec.Out))).map (·.1) }
          else none := by
  unfold Spec.kwProps
  simp only [hap]
  rfl

/-- calls of the `properties` loop -/
def callsNamed (props : List (String × NodeId)) (kvs : List (String × Json)) : List (NodeId × Json) :=
  props.filterMap fun p => (Json.lookup p.1 kvs).map fun v => (p.2, v)

def callsPatterned (reMatch : String → String → Bool) (pats : List (String × NodeId)) (kvs : List (String × Json)) :
    List (NodeId × Json) :=
  kvs.flatMap fun p => (pats.filter fun q => reMatch q.1 p.1).map fun q => (q.2, p.2)

def presentKeys (props : List (String × NodeId)) (kvs : List (String × Json)) : List String :=
  (props.filter fun p => (Json.lookup p.1 kvs).isSome).map (·.1)

def patKeys (reMatch : String → String → Bool) (pats : List (String × NodeId)) (kvs : List (String × Json)) :
    List String :=
  (kvs.filter fun p => pats.any fun q => reMatch q.1 p.1).map (·.1)

theorem mem_named_snd {sub : NodeId → Json → Spec.Out} {props : List (String × NodeId)} {kvs : List (String × Json)}
    (hnd : (kvs.map (·.1)).Nodup) (hpnd : (props.map (·.1)).Nodup) (o : Spec.Out) :
    o ∈ (namedL sub props kvs).map (·.2) ↔ o ∈ (callsNamed props kvs).map fun c => sub c.1 c.2 := by
  simp only [namedL, callsNamed, List.mem_map, List.mem_filterMap, Option.map_eq_some_iff]
  constructor
  · rintro ⟨_, ⟨⟨k, v⟩, hp, t, ht, rfl⟩, rfl⟩
    refine ⟨(t, v), ⟨(k, t), Json.mem_of_lookup ht, v, Json.lookup_of_mem_nodup hnd hp, rfl⟩, rfl⟩
  · rintro ⟨_, ⟨⟨k, t⟩, hq, v, hv, rfl⟩, rfl⟩
    refine ⟨(k, sub t v), ⟨(k, v), Json.mem_of_lookup hv, t, Json.lookup_of_mem_nodup hpnd hq, rfl⟩, rfl⟩

theorem patterned_snd (reMatch : String → String → Bool) (sub : NodeId → Json → Spec.Out)
    (pats : List (String × NodeId)) (kvs : List (String × Json)) :
    (patternedL reMatch sub pats kvs).map (·.2) = (callsPatterned reMatch pats kvs).map fun c => sub c.1 c.2 := by
  simp only [patternedL, callsPatterned, List.map_flatMap, List.map_map]
  rfl

theorem mem_named_keys {sub : NodeId → Json → Spec.Out} {props : List (String × NodeId)} {kvs : List (String × Json)}
    (k : String) : k ∈ (namedL sub props kvs).map (·.1) ↔ k ∈ presentKeys props kvs := by
  simp only [namedL, presentKeys, List.mem_map, List.mem_filterMap, Option.map_eq_some_iff, List.mem_filter]
  constructor
  · rintro ⟨_, ⟨⟨k', v⟩, hp, t, ht, rfl⟩, rfl⟩
    exact ⟨(k', t), ⟨Json.mem_of_lookup ht, lookup_isSome_iff.2 (List.mem_map.2 ⟨(k', v), hp, rfl⟩)⟩, rfl⟩
  · rintro ⟨⟨k', t⟩, ⟨hq, hs⟩, rfl⟩
    obtain ⟨v, hv⟩ := Option.isSome_iff_exists.1 hs
    obtain ⟨t', ht'⟩ := Json.lookup_isSome_of_mem_keys (k := k') (kvs := props) (List.mem_map.2 ⟨(k', t), hq, rfl⟩)
    exact ⟨(k', sub t' v), ⟨(k', v), Json.mem_of_lookup hv, t', ht', rfl⟩, rfl⟩

theorem mem_patterned_keys (reMatch : String → String → Bool) (sub : NodeId → Json → Spec.Out)
    (pats : List (String × NodeId)) (kvs : List (String × Json)) (k : String) :
    k ∈ (patternedL reMatch sub pats kvs).map (·.1) ↔ k ∈ patKeys reMatch pats kvs := by
  simp only [patternedL, patKeys, List.mem_map, List.mem_flatMap, List.mem_filter, List.any_eq_true]
  constructor
  · rintro ⟨_, ⟨p, hp, q, ⟨hq, hm⟩, rfl⟩, rfl⟩
    exact ⟨p, ⟨hp, q, hq, hm⟩, rfl⟩
  · rintro ⟨p, ⟨hp, q, hq, hm⟩, rfl⟩
    exact ⟨(p.1, sub q.2 p.2), ⟨p, hp, q, ⟨hq, hm⟩, rfl⟩, rfl⟩

theorem covered_contains (reMatch : String → String → Bool) (sub : NodeId → Json → Spec.Out)
    (props pats : List (String × NodeId)) (kvs : List (String × Json)) (k : String) :
    (coveredL reMatch sub props pats kvs).contains k = (presentKeys props kvs ++ patKeys reMatch pats kvs).contains k := by
  rw [Bool.eq_iff_iff]
  simp only [coveredL, List.contains_eq_mem, List.mem_append, decide_eq_true_eq, mem_named_keys,
    mem_patterned_keys]

theorem additional_eq (sub : NodeId → Json → Spec.Out) (t : NodeId) (c1 c2 : List String) (kvs : List (String × Json))
    (h : ∀ k, c1.contains k = c2.contains k) : additionalL sub t c1 kvs = additionalL sub t c2 kvs := by
  unfold additionalL
  congr 1
  apply List.filter_congr
  intro p _
  rw [h]

section
variable {sub : NodeId → Json → Spec.Out} {rec : Go.Rec} {stack : List NodeId}
variable (H : SubRel sub rec stack)
include H

omit H in
theorem patternPart_eq (env : VEnv) (i : Info) (pats : List (String × NodeId)) (kvs : List (String × Json))
    (ev : List String) :
    (if pats.length > 0 then
        match (some i : Option Info) with
        | none => Res.panic
        | some _ => patternPropsLoop env rec stack pats (ofJsonObj kvs) ev
      else .ok ev)
    = Res.bind (callLoop rec stack ((callsPatterned env.reMatch pats kvs).map fun c => (c.1, wrap c.2)))
        fun _ => .ok (ev ++ patKeys env.reMatch pats kvs) := by
  by_cases hp : pats.length > 0
  · rw [if_pos hp]
    exact patternPropsLoop_eq env pats kvs ev
  · have : pats = [] := by
      cases pats with
      | nil => rfl
      | cons a b => simp at hp
    subst this
    have h1 : callsPatterned env.reMatch [] kvs = [] := by
      induction kvs with
      | nil => rfl
      | cons p kvs ih => simp [callsPatterned]
    have h2 : patKeys env.reMatch [] kvs = [] := by simp [patKeys]
    rw [h1, h2]
    simp [callLoop]

theorem bProps_spec (env : VEnv) (i : Info) (n : Node) (kvs : List (String × Json))
    (hnd : (kvs.map (·.1)).Nodup) (hpnd : ((n.properties.getD []).map (·.1)).Nodup)
    (hwf : ∀ p, p ∈ kvs → Json.WF p.2 = true) {r : Spec.R}
    (h : Spec.kwProps (specEnvOf env) sub n (.obj kvs) = some r) :
    (r = none → bProps env rec stack n (some i) (ofJsonObj kvs) = .err) ∧
    (∀ e, r = some e → ∃ ev, bProps env rec stack n (some i) (ofJsonObj kvs) = .ok ev ∧
        (∀ k, ev.contains k = e.props.contains k) ∧ e.items = []) := by
  have hre : (specEnvOf env).reMatch = env.reMatch := rfl
  have hwf1 : ∀ c, c ∈ callsNamed (n.properties.getD []) kvs → Json.WF c.2 = true := by
    intro c hc
    simp only [callsNamed, List.mem_filterMap, Option.map_eq_some_iff] at hc
    obtain ⟨q, _, v, hv, rfl⟩ := hc
    exact hwf (q.1, v) (Json.mem_of_lookup hv)
  have hwf2 : ∀ c, c ∈ callsPatterned env.reMatch (n.patternProperties.getD []) kvs → Json.WF c.2 = true := by
    intro c hc
    simp only [callsPatterned, List.mem_flatMap, List.mem_map] at hc
    obtain ⟨p, hp, q, _, rfl⟩ := hc
    exact hwf p hp
  unfold bProps
  rw [propertiesLoop_eq, bind_assoc]
  simp only [Res.bind_ok, List.nil_append]
  have hpp := fun ev => patternPart_eq (rec := rec) (stack := stack) env i (n.patternProperties.getD []) kvs ev
  simp only [hpp, bind_assoc, Res.bind_ok]
  cases hap : n.additionalProperties with
  | none =>
    rw [kwProps_none _ _ _ _ hap, hre] at h
    simp only [Option.map_eq_some_iff] at h
    obtain ⟨rs, hs, rfl⟩ := h
    obtain ⟨hdef, hall⟩ := sequence_allHold hs
    rw [hall]
    simp only [List.append_nil, List.map_append, List.all_append] at hdef ⊢
    rw [all_eq_of_mem_iff (mem_named_snd hnd hpnd), patterned_snd]
    rw [show callLoop rec stack (List.map (fun c => (c.1, wrap c.2))
          (List.filterMap (fun p => Option.map (fun v => (p.2, v)) (Json.lookup p.1 kvs)) (n.properties.getD [])))
        = callLoop rec stack ((callsNamed (n.properties.getD []) kvs).map fun c => (c.1, wrap c.2)) from rfl]
    rw [callLoop_spec' H wrap strip_wrap _ hwf1
      (fun o ho => hdef o (List.mem_append_left _ ((mem_named_snd hnd hpnd o).2 ho)))]
    rw [callLoop_spec' H wrap strip_wrap _ hwf2
      (fun o ho => hdef o (List.mem_append_right _ (by rw [patterned_snd]; exact ho)))]
    cases ((callsNamed (n.properties.getD []) kvs).map fun c => sub c.1 c.2).all okOut
    · simp
    · cases ((callsPatterned env.reMatch (n.patternProperties.getD []) kvs).map fun c => sub c.1 c.2).all okOut
      · simp
      · simp only [okIf_true, Res.bind_ok, Bool.and_self, if_true, reduceCtorEq, false_imp_iff, true_and,
          Option.some.injEq]
        intro e he
        subst he
        refine ⟨_, rfl, ?_, rfl⟩
        intro k
        have := covered_contains env.reMatch sub (n.properties.getD []) (n.patternProperties.getD []) kvs k
        simp only [coveredL] at this
        rw [this]
        rfl
  | some t =>
    rw [kwProps_some _ _ _ _ t hap, hre,
      additional_eq sub t _ _ kvs
        (covered_contains env.reMatch sub (n.properties.getD []) (n.patternProperties.getD []) kvs)] at h
    simp only [Option.map_eq_some_iff] at h
    obtain ⟨rs, hs, rfl⟩ := h
    obtain ⟨hdef, hall⟩ := sequence_allHold hs
    rw [hall]
    have hadd_snd : (additionalL sub t (presentKeys (n.properties.getD []) kvs ++
          patKeys env.reMatch (n.patternProperties.getD []) kvs) kvs).map (·.2)
        = (((kvs.filter fun p => !(presentKeys (n.properties.getD []) kvs ++
              patKeys env.reMatch (n.patternProperties.getD []) kvs).contains p.1).map fun p => (t, p.2)).map
            fun c => sub c.1 c.2) := by
      simp only [additionalL, List.map_map]; rfl
    have hadd_fst : (additionalL sub t (presentKeys (n.properties.getD []) kvs ++
          patKeys env.reMatch (n.patternProperties.getD []) kvs) kvs).map (·.1)
        = ((kvs.filter fun p => !(presentKeys (n.properties.getD []) kvs ++
              patKeys env.reMatch (n.patternProperties.getD []) kvs).contains p.1).map (·.1)) := by
      simp only [additionalL, List.map_map]; rfl
    simp only [List.map_append, List.all_append] at hdef ⊢
    rw [all_eq_of_mem_iff (mem_named_snd hnd hpnd), patterned_snd, hadd_snd]
    rw [show callLoop rec stack (List.map (fun c => (c.1, wrap c.2))
          (List.filterMap (fun p => Option.map (fun v => (p.2, v)) (Json.lookup p.1 kvs)) (n.properties.getD [])))
        = callLoop rec stack ((callsNamed (n.properties.getD []) kvs).map fun c => (c.1, wrap c.2)) from rfl]
    rw [callLoop_spec' H wrap strip_wrap _ hwf1
      (fun o ho => hdef o (List.mem_append_left _ (List.mem_append_left _ ((mem_named_snd hnd hpnd o).2 ho))))]
    rw [callLoop_spec' H wrap strip_wrap _ hwf2
      (fun o ho => hdef o (List.mem_append_left _ (List.mem_append_right _ (by rw [patterned_snd]; exact ho))))]
    rw [show (List.map (fun x : String × NodeId => x.1)
            (List.filter (fun p => (Json.lookup p.1 kvs).isSome) (n.properties.getD [])) ++
          patKeys env.reMatch (n.patternProperties.getD []) kvs)
        = presentKeys (n.properties.getD []) kvs ++ patKeys env.reMatch (n.patternProperties.getD []) kvs from rfl]
    rw [additionalLoop_eq t kvs _ hnd]
    rw [callLoop_spec' H wrap strip_wrap _ (by
        intro c hc
        obtain ⟨p, hp, rfl⟩ := List.mem_map.1 hc
        exact hwf p (List.mem_filter.1 hp).1)
      (fun o ho => hdef o (List.mem_append_right _ (by rw [hadd_snd]; exact ho)))]
    cases ((callsNamed (n.properties.getD []) kvs).map fun c => sub c.1 c.2).all okOut
    · simp
    · cases ((callsPatterned env.reMatch (n.patternProperties.getD []) kvs).map fun c => sub c.1 c.2).all okOut
      · simp
      · generalize (List.map (fun c : NodeId × Json => sub c.1 c.2) _).all okOut = b3
        cases b3
        · simp
        · simp only [okIf_true, Res.bind_ok, Bool.and_self, if_true, reduceCtorEq, false_imp_iff, true_and,
            Option.some.injEq]
          intro e he
          subst he
          refine ⟨_, rfl, ?_, rfl⟩
          intro k
          have := covered_contains env.reMatch sub (n.properties.getD []) (n.patternProperties.getD []) kvs k
          simp only [coveredL] at this
          simp only [hadd_fst, List.contains_append] at this ⊢
          rw [this]

end

/-! ### propertyNames, limits, dependencies, unevaluatedProperties, and the object block -/

/-- minProperties / maxProperties / required -/
def objLim3 (n : Node) (kvs : List (String × Json)) : Bool :=
  (match n.minProperties with | some m => decide (m ≤ (kvs.length : Int)) | none => true) &&
  (match n.maxProperties with | some m => decide ((kvs.length : Int) ≤ m) | none => true) &&
  (match n.required with | some r => r.all (fun k => (Json.lookup k kvs).isSome) | none => true)

def depReqList (draft : Draft) (n : Node) : List (String × Option (List String)) :=
  match draft with
  | .d7 => n.dependencyStrings.getD []
  | .d2020 => n.dependentRequired.getD []

def depReqOk (draft : Draft) (n : Node) (kvs : List (String × Json)) : Bool :=
  (depReqList draft n).all fun p =>
    !(Json.lookup p.1 kvs).isSome || (p.2.getD []).all fun k => (Json.lookup k kvs).isSome

theorem objectLimitsOk_obj (senv : Spec.Env) (n : Node) (kvs : List (String × Json)) :
    Spec.objectLimitsOk senv n (.obj kvs) = (objLim3 n kvs && depReqOk senv.draft n kvs) := by
  simp only [Spec.objectLimitsOk, objLim3, depReqOk, depReqList]
  cases n.minProperties <;> cases n.maxProperties <;> cases n.required <;> cases senv.draft <;> rfl

theorem allPresent_ofJsonObj (kvs : List (String × Json)) (ps : List String) :
    allPresent (ofJsonObj kvs) ps = ps.all fun k => (Json.lookup k kvs).isSome := by
  unfold allPresent
  congr 1
  funext k
  exact hasProperty_ofJsonObj kvs k

theorem ite_chain3 (c1 c2 c3 : Bool) :
    (if c1 = true then (Res.err : Res Unit) else if c2 = true then .err else if c3 = true then .err else .ok ())
      = okIf (!c1 && !c2 && !c3) := by
  cases c1 <;> cases c2 <;> cases c3 <;> rfl

theorem bObjectLimits_eq (n : Node) (i : Info) (kvs : List (String × Json)) :
    bObjectLimits n (some i) (ofJsonObj kvs) = okIf (objLim3 n kvs) := by
  unfold bObjectLimits objLim3
  have hlen : (ofJsonObj kvs).length = kvs.length := by rw [ofJsonObj_eq_wrap, List.length_map]
  rw [hlen]
  simp only [Option.isNone_some, Bool.and_false, Bool.false_eq_true, if_false]
  rw [ite_chain3]
  congr 1
  cases n.minProperties <;> cases n.maxProperties <;> cases n.required <;>
    simp only [int_le, GT.gt, allPresent_ofJsonObj, Bool.not_false, Bool.not_not, Bool.true_and, Bool.and_true]

theorem depRequiredLoop_eq (kvs : List (String × Json)) : ∀ ds : List (String × Option (List String)),
    depRequiredLoop (ofJsonObj kvs) ds = okIf (ds.all fun p =>
      !(Json.lookup p.1 kvs).isSome || (p.2.getD []).all fun k => (Json.lookup k kvs).isSome)
  | [] => rfl
  | (k, reqs) :: ds => by
    rw [depRequiredLoop, hasProperty_ofJsonObj, allPresent_ofJsonObj, depRequiredLoop_eq kvs ds, List.all_cons]
    cases (Json.lookup k kvs).isSome <;> cases ((reqs.getD []).all fun k => (Json.lookup k kvs).isSome) <;> simp

/-- the propertyNames step of the object block -/
def pnPart (rec : Go.Rec) (stack : List NodeId) (n : Node) (gkvs : List (String × GoVal)) : Res Unit :=
  match n.propertyNames with
  | some pn => propertyNamesLoop rec stack pn gkvs
  | none => .ok ()

section
variable {sub : NodeId → Json → Spec.Out} {rec : Go.Rec} {stack : List NodeId}
variable (H : SubRel sub rec stack)
include H

theorem propertyNames_spec (n : Node) (kvs : List (String × Json)) {r : Spec.R}
    (h : Spec.kwPropertyNames sub n (.obj kvs) = some r) :
    ∃ b : Bool, pnPart rec stack n (ofJsonObj kvs) = okIf b ∧ r = if b then some {} else none := by
  unfold Spec.kwPropertyNames at h
  unfold pnPart
  cases hpn : n.propertyNames with
  | none =>
    simp only [hpn, Option.some.injEq] at h
    exact ⟨true, rfl, h.symm⟩
  | some t =>
    simp only [hpn] at h
    change (Spec.sequence (List.map (fun p : String × Json => sub t (Json.str p.1)) kvs)).map _ = some r at h
    simp only [Option.map_eq_some_iff] at h
    obtain ⟨rs, hs, rfl⟩ := h
    obtain ⟨hdef, hall⟩ := sequence_allHold hs
    rw [hall]
    refine ⟨_, ?_, rfl⟩
    simp only
    have e2 : List.map (fun p : String × Json => sub t (Json.str p.1)) kvs
        = (kvs.map fun p => (t, Json.str p.1)).map fun c : NodeId × Json => sub c.1 c.2 := by
      rw [List.map_map]; rfl
    rw [e2] at hdef ⊢
    rw [propertyNamesLoop_eq]
    exact callLoop_spec' H ofJson strip_ofJson _ (by
      intro c hc
      obtain ⟨p, _, rfl⟩ := List.mem_map.1 hc
      rfl) hdef

theorem bDependencies_spec (env : VEnv) (n : Node) (kvs : List (String × Json)) (hj : Json.WF (.obj kvs) = true)
    (anns : Anns) {r : Spec.R} (h : Spec.kwDependentSchemas (specEnvOf env) sub n (.obj kvs) = some r) :
    ∃ M : Res Anns, Blk (.obj kvs) anns r M ∧
      bDependencies env rec stack n (ofJson (.obj kvs)) (ofJsonObj kvs) anns
        = Res.bind (okIf (depReqOk env.draft n kvs)) fun _ => M := by
  unfold Spec.kwDependentSchemas at h
  unfold bDependencies depReqOk depReqList
  have hd : (specEnvOf env).draft = env.draft := rfl
  rw [hd] at h
  cases hdr : env.draft with
  | d7 =>
    simp only [hdr] at h
    change (Spec.sequence (List.map (fun p : String × NodeId => sub p.2 (.obj kvs))
      (List.filter (fun p => (Json.lookup p.1 kvs).isSome) (n.dependencySchemas.getD [])))).map _ = some r at h
    simp only [Option.map_eq_some_iff] at h
    obtain ⟨rs, hs, rfl⟩ := h
    refine ⟨_, depSchemasLoop_blk H hj kvs _ rs anns hs, ?_⟩
    simp only [depRequiredLoop_eq]
  | d2020 =>
    simp only [hdr] at h
    change (Spec.sequence (List.map (fun p : String × NodeId => sub p.2 (.obj kvs))
      (List.filter (fun p => (Json.lookup p.1 kvs).isSome) (n.dependentSchemas.getD [])))).map _ = some r at h
    simp only [Option.map_eq_some_iff] at h
    obtain ⟨rs, hs, rfl⟩ := h
    refine ⟨_, depSchemasLoop_blk H hj kvs _ rs anns hs, ?_⟩
    simp only [depRequiredLoop_eq]

theorem bUnevaluatedProps_blk (n : Node) (kvs : List (String × Json)) (hwf : ∀ p, p ∈ kvs → Json.WF p.2 = true)
    (anns : Anns) (ev : Spec.Ev) (hm : ∀ k, k ∈ kvs.map (·.1) → γprop anns k = ev.props.contains k) {r : Spec.R}
    (h : Spec.kwUnevaluatedProps sub n (.obj kvs) ev = some r) :
    Blk (.obj kvs) anns r (bUnevaluatedProps .d2020 rec stack n (ofJsonObj kvs) anns) := by
  unfold Spec.kwUnevaluatedProps at h
  unfold bUnevaluatedProps
  simp only [beq_d2020_d2020, if_true]
  cases hu : n.unevaluatedProperties with
  | none => simp only [hu, Option.some.injEq] at h; subst h; exact Blk_ok _ anns
  | some t =>
    simp only [hu] at h
    change (Spec.sequence (List.map (fun p : String × Json => sub t p.2)
      (List.filter (fun p => !ev.props.contains p.1) kvs))).map _ = some r at h
    simp only [Option.map_eq_some_iff] at h
    obtain ⟨rs, hs, rfl⟩ := h
    obtain ⟨hdef, hall⟩ := sequence_allHold hs
    rw [hall]
    simp only
    by_cases hai : anns.allProperties = true
    · rw [if_pos hai]
      have hnil : List.filter (fun p : String × Json => !ev.props.contains p.1) kvs = [] := by
        rw [List.filter_eq_nil_iff]
        intro p hp
        have := hm p.1 (List.mem_map.2 ⟨p, hp, rfl⟩)
        rw [← this]
        simp [γprop, hai]
      rw [hnil]
      simp only [List.map_nil, List.all_nil, if_true]
      refine ⟨anns, rfl, ?_, ?_⟩
      · intro k _
        have : γprop anns k = true := by simp [γprop, hai]
        rw [this]; rfl
      · intro i _; simp
    · rw [if_neg hai, unevalPropsLoop_eq]
      have hfil : List.filter (fun p : String × Json => !anns.evaluatedProperties.contains p.1) kvs
          = List.filter (fun p : String × Json => !ev.props.contains p.1) kvs := by
        apply List.filter_congr
        intro p hp
        have := hm p.1 (List.mem_map.2 ⟨p, hp, rfl⟩)
        rw [← this]
        simp [γprop, hai]
      rw [hfil]
      have e2 : List.map (fun p : String × Json => sub t p.2)
            (List.filter (fun p : String × Json => !ev.props.contains p.1) kvs)
          = ((List.filter (fun p : String × Json => !ev.props.contains p.1) kvs).map
              fun p => (t, p.2)).map fun c => sub c.1 c.2 := by
        rw [List.map_map]; rfl
      rw [e2] at hdef ⊢
      rw [callLoop_spec' H wrap strip_wrap _ (by
        intro c hc
        obtain ⟨p, hp, rfl⟩ := List.mem_map.1 hc
        exact hwf p (List.mem_filter.1 hp).1) hdef]
      generalize (List.map (fun c : NodeId × Json => sub c.1 c.2) _).all okOut = b
      cases b
      · simp [Blk]
      · simp only [okIf_true, Res.bind_ok, if_true]
        refine ⟨_, rfl, ?_, ?_⟩
        · intro k hk
          rw [γprop_allProperties]
          have : k ∈ kvs.map (·.1) := hk
          simp [this]
        · intro i _; rw [γitem_allProperties]; simp

theorem bObject_spec (env : VEnv) (i : Info) (n : Node) (kvs : List (String × Json))
    (hj : Json.WF (.obj kvs) = true) (hpnd : ((n.properties.getD []).map (·.1)).Nodup)
    (anns : Anns) {r10 r11 r12 : Spec.R}
    (h10 : Spec.kwProps (specEnvOf env) sub n (.obj kvs) = some r10)
    (h11 : Spec.kwPropertyNames sub n (.obj kvs) = some r11)
    (h12 : Spec.kwDependentSchemas (specEnvOf env) sub n (.obj kvs) = some r12) :
    (conj2 r10 (conj2 r11 r12) = none ∨ Spec.objectLimitsOk (specEnvOf env) n (.obj kvs) = false →
      bObject env rec stack n (some i) (ofJson (.obj kvs)) anns = .err) ∧
    (∀ e, conj2 r10 (conj2 r11 r12) = some e → Spec.objectLimitsOk (specEnvOf env) n (.obj kvs) = true →
      ∀ ev, AnnsMatch (.obj kvs) anns ev → ∀ ev' ru, (∀ k, k ∈ kvs.map (·.1) → ev'.props.contains k = (ev.union e).props.contains k) →
        Spec.kwUnevaluatedProps sub (Spec.vocab env.draft n) (.obj kvs) ev' = some ru →
        Blk (.obj kvs) anns (conj2 (some e) ru) (bObject env rec stack n (some i) (ofJson (.obj kvs)) anns)) := by
  obtain ⟨hnd, hwfv⟩ := Json.WF_obj hj
  have hwf : ∀ p, p ∈ kvs → Json.WF p.2 = true := fun p hp => hwfv p.1 p.2 hp
  have hform : bObject env rec stack n (some i) (ofJson (.obj kvs)) anns =
      Res.bind (bProps env rec stack n (some i) (ofJsonObj kvs)) fun ev =>
      Res.bind (pnPart rec stack n (ofJsonObj kvs)) fun _ =>
      Res.bind (bObjectLimits n (some i) (ofJsonObj kvs)) fun _ =>
      Res.bind (bDependencies env rec stack n (ofJson (.obj kvs)) (ofJsonObj kvs) (anns.noteProperties ev)) fun a =>
      bUnevaluatedProps .d2020 rec stack (Spec.vocab env.draft n) (ofJsonObj kvs) a := by
    simp only [ofJson, bObject, ← bUnevaluatedProps_vocab]
    rfl
  rw [hform, objectLimitsOk_obj]
  have hd : (specEnvOf env).draft = env.draft := rfl
  rw [hd]
  have b10 := bProps_spec H env i n kvs hnd hpnd hwf h10
  obtain ⟨b11, hpn, hr11⟩ := propertyNames_spec H n kvs h11
  rw [hpn, bObjectLimits_eq]
  cases r10 with
  | none => rw [b10.1 rfl]; simp
  | some e10 =>
    obtain ⟨evp, hb, hc, hitems⟩ := b10.2 e10 rfl
    rw [hb, Res.bind_ok]
    obtain ⟨M, hM, hdep⟩ := bDependencies_spec H env n kvs hj (anns.noteProperties evp) h12
    rw [hdep]
    subst hr11
    cases b11 with
    | false => simp
    | true =>
      cases hl : objLim3 n kvs with
      | false => simp
      | true =>
        cases hdr : depReqOk env.draft n kvs with
        | false => simp
        | true =>
          simp only [okIf_true, Res.bind_ok, if_true, Bool.and_self]
          cases r12 with
          | none => simp only [Blk] at hM; rw [hM]; simp
          | some e12 =>
            obtain ⟨a2, rfl, hx2⟩ := hM
            simp only [Res.bind_ok, conj2_some, reduceCtorEq, Bool.true_eq_false, or_self, false_imp_iff, true_and,
              Option.some.injEq, forall_const]
            intro e he ev hm ev' ru hev hru
            subst he
            have hx1 : Ext (.obj kvs) anns (anns.noteProperties evp) e10 := by
              constructor
              · intro k _; rw [γprop_noteProperties, hc k]
              · intro m _; rw [γitem_noteProperties, hitems]; simp
            have hx12 : Ext (.obj kvs) anns a2 (e10.union (Spec.Ev.union {} e12)) := by
              apply Ext_congr (Ext_trans hx1 hx2)
              · intro k _; simp [Spec.Ev.union]
              · intro m _; simp [Spec.Ev.union]
            apply Blk_of_Ext hx12
            apply bUnevaluatedProps_blk H (Spec.vocab env.draft n) kvs hwf a2 ev' _ hru
            intro k hk
            rw [hev k hk, hx12.1 k hk, hm.1 k hk]
            simp only [Spec.Ev.union, List.contains_append]

end

end Refine
end JSV
