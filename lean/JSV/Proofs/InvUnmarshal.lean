/-
  C18 helpers: unknown keywords in UnmarshalJSON.
-/
import JSV.Model.Unmarshal
namespace JSV
namespace Inv
open Go

/-- a member whose key is not a keyword is stored in `Extra` and nothing else happens -/
theorem setField_unknown (rec : URec) (n : Node) (st : Store) (k : String) (v : Json)
    (hk : Go.knownKeys.contains k = false) :
    setField rec n st k v = .ok ({ n with extra := some ((n.extra.getD []) ++ [(k, v)]) }, st) := by
  unfold setField
  split <;> first
    | rfl
    | exact absurd hk (by decide)

theorem setFields_append (rec : URec) : ∀ (l1 l2 : List (String × Json)) (n : Node) (st : Store),
    setFields rec (l1 ++ l2) n st = Res.bind (setFields rec l1 n st) fun p => setFields rec l2 p.1 p.2
  | [], l2, n, st => rfl
  | (k, v) :: rest, l2, n, st => by
    simp only [List.cons_append, setFields]
    cases setField rec n st k v with
    | ok p => simp only [Res.bind_ok]; exact setFields_append rec rest l2 p.1 p.2
    | _ => rfl

end Inv
end JSV
