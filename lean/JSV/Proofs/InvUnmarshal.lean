/-
  C18 helpers: unknown keywords in UnmarshalJSON.
-/
import JSV.Model.Unmarshal
namespace JSV
namespace Inv
open Go

/-- a member whose key is not a keyword is stored in `Extra` and nothing else happens -/
theorem setField_unknown (rec : URec) (n : Node) (st : Store) (k : String) (v : Json)
    (hk : Go.knownKeys.contains k = false) :
    setField rec n st k v = .ok ({ n with extra := some ((n.extra.getD []) ++ [(k, v)]) }, st) := by
  unfold setField
  split <;> first
    | rfl
    | exact absurd hk (by decide)

theorem setFields_append (rec : URec) : ∀ (l1 l2 : List (String × Json)) (n : Node) (st : Store),
    setFields rec (l1 ++ l2) n st = Res.bind (setFields rec l1 n st) fun p => setFields rec l2 p.1 p.2
  | [], l2, n, st => rfl
  | (k, v) :: rest, l2, n, st => by
    simp only [List.cons_append, setFields]
    cases setField rec n st k v with
    | ok p => simp only [Res.bind_ok]; exact setFields_append rec rest l2 p.1 p.2
    | _ => rfl

/-! ## an unknown member anywhere in the object -/

/-- replace the `Extra` map -/
def withExtra (e : Option (List (String × Json))) (n : Node) : Node := { n with extra := e }

def mapRes {α β : Type} (f : α → β) : Res α → Res β
  | .ok a => .ok (f a)
  | .fuel => .fuel
  | .panic => .panic
  | .err => .err

theorem mapRes_bind {α β γ : Type} (f : β → γ) (x : Res α) (g : α → Res β) :
    mapRes f (Res.bind x g) = Res.bind x (fun a => mapRes f (g a)) := by
  cases x <;> rfl

theorem decDependencies_withExtra (rec : URec) (e : Option (List (String × Json))) :
    ∀ (kvs : List (String × Json)) (n : Node) (st : Store),
    decDependencies rec kvs (withExtra e n) st = mapRes (fun p => (withExtra e p.1, p.2)) (decDependencies rec kvs n st)
  | [], n, st => rfl
  | (k, x) :: rest, n, st => by
    cases x with
    | arr xs =>
      simp only [decDependencies]
      rw [mapRes_bind]
      congr 1; funext sl
      exact decDependencies_withExtra rec e rest
        { n with dependencyStrings := some ((n.dependencyStrings.getD []) ++ [(k, sl)]) } st
    | null =>
      simp only [decDependencies]; rw [mapRes_bind]; congr 1; funext p
      exact decDependencies_withExtra rec e rest
        { n with dependencySchemas := some ((n.dependencySchemas.getD []) ++ [(k, p.1)]) } p.2
    | bool b =>
      simp only [decDependencies]; rw [mapRes_bind]; congr 1; funext p
      exact decDependencies_withExtra rec e rest
        { n with dependencySchemas := some ((n.dependencySchemas.getD []) ++ [(k, p.1)]) } p.2
    | num q =>
      simp only [decDependencies]; rw [mapRes_bind]; congr 1; funext p
      exact decDependencies_withExtra rec e rest
        { n with dependencySchemas := some ((n.dependencySchemas.getD []) ++ [(k, p.1)]) } p.2
    | str s =>
      simp only [decDependencies]; rw [mapRes_bind]; congr 1; funext p
      exact decDependencies_withExtra rec e rest
        { n with dependencySchemas := some ((n.dependencySchemas.getD []) ++ [(k, p.1)]) } p.2
    | obj o =>
      simp only [decDependencies]; rw [mapRes_bind]; congr 1; funext p
      exact decDependencies_withExtra rec e rest
        { n with dependencySchemas := some ((n.dependencySchemas.getD []) ++ [(k, p.1)]) } p.2

/-- a keyword member never looks at `Extra` and never changes it -/
theorem setField_withExtra_known (rec : URec) (e : Option (List (String × Json))) (n : Node) (st : Store) (k : String)
    (v : Json) (hk : knownKeys.contains k = true) :
    setField rec (withExtra e n) st k v = mapRes (fun p => (withExtra e p.1, p.2)) (setField rec n st k v) := by
  unfold setField
  split <;> first
    | rfl
    | (simp only [mapRes_bind]; rfl)
    | (cases v <;> first | rfl | (simp only [mapRes_bind]; rfl) | exact decDependencies_withExtra rec e _ n st)
    | skip
  exfalso
  simp [knownKeys] at hk
  simp_all

/-- two outcomes of unmarshalling an object: the same failure, or success with the same store and schema objects that
    differ at most in `Extra` -/
def SameUpToExtra : Res (Node × Store) → Res (Node × Store) → Prop
  | .ok (a, s), .ok (b, t) => (∃ e, a = withExtra e b) ∧ s = t
  | .fuel, .fuel => True
  | .panic, .panic => True
  | .err, .err => True
  | _, _ => False

theorem setFields_withExtra (rec : URec) : ∀ (l : List (String × Json)) (e : Option (List (String × Json))) (m : Node)
    (st : Store), SameUpToExtra (setFields rec l (withExtra e m) st) (setFields rec l m st)
  | [], e, m, st => ⟨⟨e, rfl⟩, rfl⟩
  | (k, v) :: rest, e, m, st => by
    simp only [setFields]
    cases hk : knownKeys.contains k with
    | true =>
      rw [setField_withExtra_known rec e m st k v hk]
      cases setField rec m st k v with
      | ok p => exact setFields_withExtra rec rest e p.1 p.2
      | fuel => trivial
      | panic => trivial
      | err => trivial
    | false =>
      rw [setField_unknown rec (withExtra e m) st k v hk, setField_unknown rec m st k v hk]
      simp only [Res.bind_ok]
      exact setFields_withExtra rec rest (some (((withExtra e m).extra.getD []) ++ [(k, v)]))
        { m with extra := some ((m.extra.getD []) ++ [(k, v)]) } st

/-- an unknown member at ANY position: the document without it and the document with it fail the same way, or both
    succeed with the same store and schema objects that differ at most in `Extra` -/
theorem setFields_unknown_anywhere (rec : URec) (l1 l2 : List (String × Json)) (k : String) (v : Json) (n : Node)
    (st : Store) (hk : knownKeys.contains k = false) :
    SameUpToExtra (setFields rec (l1 ++ (k, v) :: l2) n st) (setFields rec (l1 ++ l2) n st) := by
  rw [setFields_append, setFields_append]
  cases setFields rec l1 n st with
  | ok p =>
    simp only [Res.bind_ok, setFields, setField_unknown rec p.1 p.2 k v hk]
    exact setFields_withExtra rec l2 _ p.1 p.2
  | fuel => trivial
  | panic => trivial
  | err => trivial

end Inv
end JSV
