/-
  C18 helpers: unknown keywords in UnmarshalJSON; bridging lemmas between `setMember` (encoding/json's exact-then-
  case-insensitive field matching, known finding D4) and `setField` (one keyword's field).
-/
import JSV.Model.Unmarshal
namespace JSV
namespace Go

/-! ## `canonKey` / `setMember`: encoding/json's case-insensitive field matching -/

/-- `foldEq` is equality of the ASCII-lower-cased strings -/
theorem foldEq_eq_toLower (a b : String) : foldEq a b = (a.toLower == b.toLower) := by
  unfold foldEq String.toLower
  rw [← String.toList_map, ← String.toList_map, Bool.eq_iff_iff, beq_iff_eq, beq_iff_eq]
  exact String.toList_inj

theorem canonKey_of_known {k : String} (h : knownKeys.contains k = true) : canonKey k = k := by
  unfold canonKey
  rw [if_pos h]

/-- every keyword is its own field -/
theorem canonKey_knownKeys : ∀ k ∈ knownKeys, canonKey k = k := by decide

/-- a key that is neither a keyword nor a case variant of one has no field -/
theorem canonKey_of_unfolded {k : String} (h : knownKeys.contains k = false) (hf : isFoldedKey k = false) :
    canonKey k = k := by
  have hany : knownKeys.any (foldEq k) = false := by
    unfold isFoldedKey at hf
    rw [h] at hf
    exact hf
  have hfind : knownKeys.find? (foldEq k) = none := by
    rw [List.find?_eq_none]
    intro x hx hp
    have : knownKeys.any (foldEq k) = true := List.any_eq_true.2 ⟨x, hx, hp⟩
    rw [hany] at this
    cases this
  unfold canonKey
  rw [if_neg (by rw [h]; decide), hfind]
  rfl

theorem contains_false_of_not_mem {k : String} (h : k ∉ knownKeys) : knownKeys.contains k = false := by
  cases hc : knownKeys.contains k with
  | false => rfl
  | true => exact absurd (List.contains_iff_mem.1 hc) h

theorem canonKey_of_not_mem {k : String} (h : k ∉ knownKeys) (hf : isFoldedKey k = false) : canonKey k = k :=
  canonKey_of_unfolded (contains_false_of_not_mem h) hf

/-- the field a case variant is routed to is a keyword's -/
theorem canonKey_known_of_ne {k : String} (h : canonKey k ≠ k) : knownKeys.contains (canonKey k) = true := by
  unfold canonKey at h ⊢
  split
  · next hc => rw [if_pos hc] at h; exact absurd rfl h
  · next hc =>
    rw [if_neg hc] at h
    cases hfind : knownKeys.find? (foldEq k) with
    | none => rw [hfind] at h; exact absurd rfl h
    | some c => exact List.contains_iff_mem.2 (List.mem_of_find?_eq_some hfind)

/-- a key with `canonKey k ≠ k` is a case variant of a keyword (the class of D4) -/
theorem isFoldedKey_of_canonKey_ne {k : String} (h : canonKey k ≠ k) : isFoldedKey k = true := by
  cases hc : knownKeys.contains k with
  | true => exact absurd (canonKey_of_known hc) h
  | false =>
    cases hf : isFoldedKey k with
    | true => rfl
    | false => exact absurd (canonKey_of_unfolded hc hf) h

theorem setMember_eq_setField (rec : URec) (n : Node) (st : Store) {k : String} (v : Json) (h : canonKey k = k) :
    setMember rec n st k v = setField rec n st k v := by
  unfold setMember
  rw [if_pos (beq_iff_eq.2 h)]

theorem setMember_of_folded (rec : URec) (n : Node) (st : Store) {k : String} (v : Json) (h : canonKey k ≠ k) :
    setMember rec n st k v = (setField rec n st (canonKey k) v).bind fun p =>
      .ok ({ p.1 with extra := some ((p.1.extra.getD []) ++ [(k, v)]) }, p.2) := by
  unfold setMember
  rw [if_neg (fun hb => h (beq_iff_eq.1 hb))]

theorem setFields_cons (rec : URec) (k : String) (v : Json) (rest : List (String × Json)) (n : Node) (st : Store) :
    setFields rec ((k, v) :: rest) n st = Res.bind (setMember rec n st k v) fun p => setFields rec rest p.1 p.2 := rfl

/-- a member whose key is its own field: `setFields` runs `setField` on it -/
theorem setFields_cons_canon (rec : URec) {k : String} (v : Json) (rest : List (String × Json)) (n : Node) (st : Store)
    (h : canonKey k = k) :
    setFields rec ((k, v) :: rest) n st = Res.bind (setField rec n st k v) fun p => setFields rec rest p.1 p.2 := by
  rw [setFields_cons, setMember_eq_setField rec n st v h]

end Go
namespace Inv
open Go

/-- a member whose key is not a keyword is stored in `Extra` and nothing else happens -/
theorem setField_unknown (rec : URec) (n : Node) (st : Store) (k : String) (v : Json)
    (hk : Go.knownKeys.contains k = false) :
    setField rec n st k v = .ok ({ n with extra := some ((n.extra.getD []) ++ [(k, v)]) }, st) := by
  unfold setField
  split <;> first
    | rfl
    | exact absurd hk (by decide)

/-- … provided it is not a case variant of a keyword either (H_D4): then `setMember` is `setField` -/
theorem setMember_unknown (rec : URec) (n : Node) (st : Store) (k : String) (v : Json)
    (hk : Go.knownKeys.contains k = false) (hf : Go.isFoldedKey k = false) :
    setMember rec n st k v = .ok ({ n with extra := some ((n.extra.getD []) ++ [(k, v)]) }, st) := by
  rw [setMember_eq_setField rec n st v (canonKey_of_unfolded hk hf), setField_unknown rec n st k v hk]

theorem setFields_append (rec : URec) : ∀ (l1 l2 : List (String × Json)) (n : Node) (st : Store),
    setFields rec (l1 ++ l2) n st = Res.bind (setFields rec l1 n st) fun p => setFields rec l2 p.1 p.2
  | [], l2, n, st => rfl
  | (k, v) :: rest, l2, n, st => by
    simp only [List.cons_append, setFields]
    cases setMember rec n st k v with
    | ok p => simp only [Res.bind_ok]; exact setFields_append rec rest l2 p.1 p.2
    | _ => rfl

/-! ## an unknown member anywhere in the object -/

/-- replace the `Extra` map -/
def withExtra (e : Option (List (String × Json))) (n : Node) : Node := { n with extra := e }

def mapRes {α β : Type} (f : α → β) : Res α → Res β
  | .ok a => .ok (f a)
  | .fuel => .fuel
  | .panic => .panic
  | .err => .err

theorem mapRes_bind {α β γ : Type} (f : β → γ) (x : Res α) (g : α → Res β) :
    mapRes f (Res.bind x g) = Res.bind x (fun a => mapRes f (g a)) := by
  cases x <;> rfl

theorem decDependencies_withExtra (rec : URec) (e : Option (List (String × Json))) :
    ∀ (kvs : List (String × Json)) (n : Node) (st : Store),
    decDependencies rec kvs (withExtra e n) st = mapRes (fun p => (withExtra e p.1, p.2)) (decDependencies rec kvs n st)
  | [], n, st => rfl
  | (k, x) :: rest, n, st => by
    cases x with
    | arr xs =>
      simp only [decDependencies]
      rw [mapRes_bind]
      congr 1; funext sl
      exact decDependencies_withExtra rec e rest
        { n with dependencyStrings := some ((n.dependencyStrings.getD []) ++ [(k, sl)]) } st
    | null =>
      simp only [decDependencies]; rw [mapRes_bind]; congr 1; funext p
      exact decDependencies_withExtra rec e rest
        { n with dependencySchemas := some ((n.dependencySchemas.getD []) ++ [(k, p.1)]) } p.2
    | bool b =>
      simp only [decDependencies]; rw [mapRes_bind]; congr 1; funext p
      exact decDependencies_withExtra rec e rest
        { n with dependencySchemas := some ((n.dependencySchemas.getD []) ++ [(k, p.1)]) } p.2
    | num q =>
      simp only [decDependencies]; rw [mapRes_bind]; congr 1; funext p
      exact decDependencies_withExtra rec e rest
        { n with dependencySchemas := some ((n.dependencySchemas.getD []) ++ [(k, p.1)]) } p.2
    | str s =>
      simp only [decDependencies]; rw [mapRes_bind]; congr 1; funext p
      exact decDependencies_withExtra rec e rest
        { n with dependencySchemas := some ((n.dependencySchemas.getD []) ++ [(k, p.1)]) } p.2
    | obj o =>
      simp only [decDependencies]; rw [mapRes_bind]; congr 1; funext p
      exact decDependencies_withExtra rec e rest
        { n with dependencySchemas := some ((n.dependencySchemas.getD []) ++ [(k, p.1)]) } p.2

/-- a keyword member never looks at `Extra` and never changes it -/
theorem setField_withExtra_known (rec : URec) (e : Option (List (String × Json))) (n : Node) (st : Store) (k : String)
    (v : Json) (hk : knownKeys.contains k = true) :
    setField rec (withExtra e n) st k v = mapRes (fun p => (withExtra e p.1, p.2)) (setField rec n st k v) := by
  unfold setField
  split <;> first
    | rfl
    | (simp only [mapRes_bind]; rfl)
    | (cases v <;> first | rfl | (simp only [mapRes_bind]; rfl) | exact decDependencies_withExtra rec e _ n st)
    | skip
  exfalso
  simp [knownKeys] at hk
  simp_all

/-- two outcomes of unmarshalling an object: the same failure, or success with the same store and schema objects that
    differ at most in `Extra` -/
def SameUpToExtra : Res (Node × Store) → Res (Node × Store) → Prop
  | .ok (a, s), .ok (b, t) => (∃ e, a = withExtra e b) ∧ s = t
  | .fuel, .fuel => True
  | .panic, .panic => True
  | .err, .err => True
  | _, _ => False

theorem setFields_withExtra (rec : URec) : ∀ (l : List (String × Json)) (e : Option (List (String × Json))) (m : Node)
    (st : Store), SameUpToExtra (setFields rec l (withExtra e m) st) (setFields rec l m st)
  | [], e, m, st => ⟨⟨e, rfl⟩, rfl⟩
  | (k, v) :: rest, e, m, st => by
    simp only [setFields]
    by_cases hc : canonKey k = k
    · rw [setMember_eq_setField rec _ st v hc, setMember_eq_setField rec _ st v hc]
      cases hk : knownKeys.contains k with
      | true =>
        rw [setField_withExtra_known rec e m st k v hk]
        cases setField rec m st k v with
        | ok p => exact setFields_withExtra rec rest e p.1 p.2
        | fuel => trivial
        | panic => trivial
        | err => trivial
      | false =>
        rw [setField_unknown rec (withExtra e m) st k v hk, setField_unknown rec m st k v hk]
        simp only [Res.bind_ok]
        exact setFields_withExtra rec rest (some (((withExtra e m).extra.getD []) ++ [(k, v)]))
          { m with extra := some ((m.extra.getD []) ++ [(k, v)]) } st
    · -- a case variant of a keyword: the keyword's field is set (it never looks at `Extra`), then `Extra` grows
      rw [setMember_of_folded rec _ st v hc, setMember_of_folded rec _ st v hc,
        setField_withExtra_known rec e m st (canonKey k) v (canonKey_known_of_ne hc)]
      cases setField rec m st (canonKey k) v with
      | ok p =>
        simp only [mapRes, Res.bind_ok]
        exact setFields_withExtra rec rest (some (((withExtra e p.1).extra.getD []) ++ [(k, v)]))
          { p.1 with extra := some ((p.1.extra.getD []) ++ [(k, v)]) } p.2
      | fuel => trivial
      | panic => trivial
      | err => trivial

/-- an unknown member (no keyword, and — H_D4 — no case variant of one) at ANY position: the document without it and the
    document with it fail the same way, or both succeed with the same store and schema objects that differ at most in
    `Extra` -/
theorem setFields_unknown_anywhere (rec : URec) (l1 l2 : List (String × Json)) (k : String) (v : Json) (n : Node)
    (st : Store) (hk : knownKeys.contains k = false) (hf : isFoldedKey k = false) :
    SameUpToExtra (setFields rec (l1 ++ (k, v) :: l2) n st) (setFields rec (l1 ++ l2) n st) := by
  rw [setFields_append, setFields_append]
  cases setFields rec l1 n st with
  | ok p =>
    simp only [Res.bind_ok, setFields, setMember_unknown rec p.1 p.2 k v hk hf]
    exact setFields_withExtra rec l2 _ p.1 p.2
  | fuel => trivial
  | panic => trivial
  | err => trivial

end Inv
end JSV
