/-
  Helper lemmas for C10 (third part): resolveRef / resolveRefs / resolver.resolve / Schema.Resolve never panic when the
  documents share no schema object (`Sep`).  Open recursion on the loader callback + induction on fuel.
-/
import JSV.Proofs.ResBase
namespace JSV
namespace Go
namespace RTot
open RInv
open Uri

/-- what the open-recursion callback must satisfy -/
def RecNP (env : Env) (R : List NodeId) (recDoc : ResolveDoc) : Prop :=
  ∀ root base draft s, root ∈ R → Inv env R s →
    Tot (recDoc root base draft s) (fun s' => Inv env R s' ∧ DocsKeep s s' ∧ (s'.doc? root).isSome = true)

/-! ### resolveRef -/

theorem resolveRef_tot (env : Env) (R : List NodeId) (hroots : RootsIn env R) (recDoc : ResolveDoc)
    (hrec : RecNP env R recDoc) (root : NodeId) (s : RState) (id : NodeId) (ref : String)
    (hinv : Inv env R s) (hroot : (s.doc? root).isSome = true) (hid : id ∈ docAll env root) :
    Tot (resolveRef env recDoc root s id ref) (fun p => Inv env R p.2 ∧ DocsKeep s p.2) := by
  cases hd : s.doc? root with
  | none => rw [hd] at hroot; cases hroot
  | some d =>
  obtain ⟨hR, hrr, hkn, hur⟩ := hinv.doc root d hd
  have hidN := docAll_sub env root hrr id hid
  obtain ⟨i, b, hi, hb, hbN, bi, hbi, hbu⟩ := hinv.base root hroot (by simp) id hid
  obtain ⟨i', e1, e1'⟩ := (hinv.doc.knows hd hidN).info?
  have hii : i' = i := by rw [hi] at e1'; exact (Option.some.inj e1').symm
  subst hii
  obtain ⟨bi', e2, e2'⟩ := (hinv.doc.knows hd hbN).info?
  have hbb : bi' = bi := by rw [hbi] at e2'; exact (Option.some.inj e2').symm
  subst hbb
  cases hbu' : bi'.uri with
  | none => rw [hbu'] at hbu; cases hbu
  | some bu =>
  unfold resolveRef
  refine Tot.bind (Tot.of_ne_panic (parse_NoPF ref).1) fun refURI0 _ _ => ?_
  rw [e1]
  simp only []
  rw [hb]
  simp only []
  rw [e2]
  simp only []
  rw [hbu', hd]
  simp only []
  refine Tot.bind (P := fun p => Inv env R p.2 ∧ DocsKeep s p.2 ∧ Knows p.2 root p.1) ?_ ?_
  · split
    · rename_i t ht
      exact Tot.ok ⟨hinv, DocsKeep.refl s, hinv.doc.knows hd (hur _ (lookup_mem _ _ _ ht))⟩
    · split
      · rename_i lroot hl
        have hlr : (s.doc? lroot).isSome = true := hinv.loaded _ (lookup_mem _ _ _ hl)
        obtain ⟨im, dk⟩ := hinv.mergeKnown root lroot
        exact Tot.ok ⟨im, dk, mergeKnown_knows hinv root lroot hroot hlr⟩
      · split
        · exact Tot.err
        · rename_i tbl htbl
          split
          · exact Tot.err
          · exact Tot.err
          · exact Tot.err
          · rename_i lroot hlk
            have hlR := hroots tbl _ lroot htbl hlk
            refine Tot.bind (hrec lroot _ d.draft _ hlR (hinv.gentle rfl rfl (InfoLe.refl _ _))) fun s2 _ hs2 => ?_
            obtain ⟨inv2, dk2, hl2⟩ := hs2
            have hroot2 : (s2.doc? root).isSome = true := dk2 root hroot
            obtain ⟨im, dk⟩ := inv2.mergeKnown root lroot
            exact Tot.ok ⟨im, fun r hr => dk r (dk2 r hr), mergeKnown_knows inv2 root lroot hroot2 hl2⟩
  · intro p _ hp
    obtain ⟨referenced, s1⟩ := p
    obtain ⟨inv1, dk1, kn1⟩ := hp
    simp only []
    split
    · obtain ⟨ri, hri, _⟩ := kn1.info?
      rw [hri]
      simp only []
      split
      · exact Tot.err
      · exact Tot.ok ⟨inv1, dk1⟩
    · exact Tot.bind (Tot.of_ne_panic (C10.dereference_NoPF _ _ _ _ _).1) fun t _ _ => Tot.ok ⟨inv1, dk1⟩

/-! ### resolveRefs -/

theorem resolveRefsLoop_tot (env : Env) (R : List NodeId) (hroots : RootsIn env R) (recDoc : ResolveDoc)
    (hrec : RecNP env R recDoc) (root : NodeId) :
    ∀ ids s, (∀ id ∈ ids, id ∈ docAll env root) → Inv env R s → (s.doc? root).isSome = true →
      Tot (resolveRefsLoop env recDoc root ids s) (fun s' => Inv env R s' ∧ DocsKeep s s') := by
  intro ids
  induction ids with
  | nil => intro s _ hinv _; rw [resolveRefsLoop]; exact Tot.ok ⟨hinv, DocsKeep.refl s⟩
  | cons id rest ih =>
    intro s hids hinv hroot
    have hid := hids id (by simp)
    rw [resolveRefsLoop]
    split
    · rename_i hn
      have := allNodes_store env.st _ _ id hid
      rw [hn] at this; cases this
    · rename_i n hn
      simp only []
      refine Tot.bind (P := fun s1 => Inv env R s1 ∧ DocsKeep s s1) ?_ ?_
      · split
        · refine Tot.bind (resolveRef_tot env R hroots recDoc hrec root s id _ hinv hroot hid) fun p _ hp => ?_
          exact Tot.ok ⟨hp.1.updInfo id _ (fun _ => rfl) (fun _ h => h),
            hp.2.trans (DocsKeep.of_docs_eq (updInfo_docs _ _ _))⟩
        · exact Tot.ok ⟨hinv, DocsKeep.refl s⟩
      · intro s1 _ hs1
        refine Tot.bind (P := fun s2 => Inv env R s2 ∧ DocsKeep s s2) ?_ ?_
        · split
          · refine Tot.bind (resolveRef_tot env R hroots recDoc hrec root s1 id _ hs1.1 (hs1.2 root hroot) hid)
              fun p _ hp => ?_
            exact Tot.ok ⟨hp.1.updInfo id _ (fun _ => rfl) (fun _ h => h),
              hs1.2.trans (hp.2.trans (DocsKeep.of_docs_eq (updInfo_docs _ _ _)))⟩
          · exact Tot.ok hs1
        · intro s2 _ hs2
          refine (ih s2 (fun x hx => hids x (List.mem_cons_of_mem _ hx)) hs2.1 (hs2.2 root hroot)).mono ?_
          intro s' hs'
          exact ⟨hs'.1, hs2.2.trans hs'.2⟩

/-! ### resolver.resolve -/

/-- the state handed to resolveURIs -/
def docInit (s : RState) (fresh : List (NodeId × Info)) (root : NodeId) (draft : Draft) (baseURI : Url) : RState :=
  (({ s with infos := s.infos ++ fresh } : RState).setDoc
      { root := root, draft := draft, uris := [(Uri.toString baseURI, root)], known := fresh.map (·.1) }).updInfo root
    fun i => { i with uri := some baseURI }

theorem docInit_spec (env : Env) (R : List NodeId) (s : RState) (fresh : List (NodeId × Info)) (root : NodeId)
    (draft : Draft) (baseURI : Url) (hinv : DocInv env R s) (hrootR : root ∈ R)
    (hfresh : checkStructure env.st (env.st.size + 2) [(root, "")] [] = .ok fresh) :
    InfoLe [] s.infos (docInit s fresh root draft baseURI).infos ∧
    (docInit s fresh root draft baseURI).loaded = s.loaded ∧
    (docInit s fresh root draft baseURI).log = s.log ∧
    DocInv env R (docInit s fresh root draft baseURI) ∧
    (∀ r, ((docInit s fresh root draft baseURI).doc? r).isSome = (decide (root = r) || (s.doc? r).isSome)) ∧
    HasUri (docInit s fresh root draft baseURI).infos root := by
  have hV : docNodes env root = ids fresh := docNodes_eq env root fresh hfresh
  have hrootV : root ∈ docNodes env root := docNodes_root env root fresh hfresh
  have le0 : InfoLe [] s.infos (s.infos ++ fresh) := infoLe_append [] _ _
  have inv0 : DocInv env R ({ s with infos := s.infos ++ fresh } : RState) :=
    docInv_infos hinv rfl (fun x hx => le0.isSome x hx)
  have h3 : ∀ x ∈ docNodes env root,
      (fresh.map (·.1)).contains x = true ∧ (lookupNat x (s.infos ++ fresh)).isSome = true := by
    intro x hx
    rw [hV] at hx
    refine ⟨by simpa [ids] using hx, ?_⟩
    obtain ⟨e, he, hex⟩ := List.mem_map.mp hx
    have : (x, e.2) ∈ s.infos ++ fresh := by
      rw [← hex]; exact List.mem_append_right _ he
    exact lookupNat_isSome_of_mem x e.2 _ this
  have inv1 : DocInv env R (({ s with infos := s.infos ++ fresh } : RState).setDoc
      { root := root, draft := draft, uris := [(Uri.toString baseURI, root)], known := fresh.map (·.1) }) := by
    refine docInv_setDoc inv0 _ hrootR hrootV h3 ?_
    intro e he
    simp only [List.mem_singleton] at he
    rw [he]; exact hrootV
  have le2 := infoLe_updInfo [] (({ s with infos := s.infos ++ fresh } : RState).setDoc
      { root := root, draft := draft, uris := [(Uri.toString baseURI, root)], known := fresh.map (·.1) }) root
      (fun i => { i with uri := some baseURI }) (fun _ => rfl) (fun _ _ => rfl)
  refine ⟨le0.trans le2, (updInfo_same _ _ _).2, (updInfo_same _ _ _).1,
    docInv_infos inv1 (updInfo_docs _ _ _) (fun x hx => le2.isSome x hx), ?_, ?_⟩
  · intro r
    unfold docInit
    rw [doc?_of_docs_eq (updInfo_docs _ _ _), doc?_setDoc]
    by_cases hr : root = r
    · simp only [hr, if_true, decide_true, Bool.true_or, Option.isSome_some]
    · simp only [hr, if_false, decide_false, Bool.false_or]
      rfl
  · unfold HasUri docInit
    rw [updInfo_infos_lookup, if_pos rfl]
    cases hl : lookupNat root (s.infos ++ fresh) with
    | none => have := (h3 root hrootV).2; rw [hl] at this; cases this
    | some i =>
      refine ⟨{ i with uri := some baseURI }, ?_, rfl⟩
      show Option.map _ (lookupNat root (s.infos ++ fresh)) = _
      rw [hl]; rfl

theorem resolveDocStep_np (env : Env) (R : List NodeId) (hsep : Sep env R) (hroots : RootsIn env R)
    (recDoc : ResolveDoc) (hrec : RecNP env R recDoc) : RecNP env R (resolveDocStep env recDoc) := by
  intro root baseURI inherit s hrootR hinv
  unfold resolveDocStep
  split
  · exact Tot.err
  split
  · exact Tot.err
  rename_i rn hrn
  simp only []
  refine Tot.bind (P := fun _ => True) (Tot.of_ne_panic (C10.checkStructure_no_panic_gen _ _ _ _))
    fun fresh hfresh _ => ?_
  split
  · exact Tot.err
  have hV : docNodes env root = ids fresh := docNodes_eq env root fresh hfresh
  have hrootV : root ∈ docNodes env root := docNodes_root env root fresh hfresh
  obtain ⟨leA, loadedA, logA, invA, docsA, uriA⟩ :=
    docInit_spec env R s fresh root (if rn.schema == "" then inherit else detectDraft env rn.schema) baseURI
      hinv.doc hrootR hfresh
  have hrootA : ((docInit s fresh root (if rn.schema == "" then inherit else detectDraft env rn.schema)
      baseURI).doc? root).isSome = true := by rw [docsA]; simp
  refine Tot.bind (resolveURIsLoop_tot env R _ root (env.st.size + 2) [(root, root)]
    (docInit s fresh root (if rn.schema == "" then inherit else detectDraft env rn.schema) baseURI)
    ?_ invA hrootA) fun sB _ hB => ?_
  · intro w hw
    simp only [List.mem_singleton] at hw
    rw [hw]; exact ⟨hrootV, hrootV, uriA⟩
  obtain ⟨leB, sameB, docsB, invB, covB⟩ := hB
  -- the Resolveds of `s` are still there
  have keepB : DocsKeep s sB := by
    intro r hr
    rw [docsB, docsA, hr]; simp
  have hrootB : (sB.doc? root).isSome = true := by rw [docsB]; exact hrootA
  have leSB : InfoLe (docNodes env root) s.infos sB.infos := leA.of_nil.trans leB
  -- the invariant after the update of `loaded`
  have invC : Inv env R { sB with loaded :=
      (sB.loaded.filter fun e => e.1 != Uri.toString baseURI && e.1 != (match lookupNat root sB.infos with
        | some i => (i.uri.map Uri.toString).getD ""
        | none => "")) ++ [(Uri.toString baseURI, root), ((match lookupNat root sB.infos with
        | some i => (i.uri.map Uri.toString).getD ""
        | none => ""), root)] } := by
    refine ⟨docInv_infos invB rfl (fun _ h => h), ?_, ?_⟩
    · intro e he
      show (sB.doc? e.2).isSome = true
      rcases List.mem_append.mp he with he | he
      · have he' : e ∈ s.loaded := by
          have := (List.mem_filter.mp he).1
          rw [sameB.2, loadedA] at this; exact this
        exact keepB _ (hinv.loaded e he')
      · simp only [List.mem_cons, List.not_mem_nil, or_false] at he
        rcases he with he | he <;> rw [he] <;> exact hrootB
    · intro r hr _ x hx
      have hr' : (sB.doc? r).isSome = true := hr
      show HasBase env sB.infos r x
      by_cases hroot : root = r
      · subst hroot
        exact covB x hx
      · have hrs : (s.doc? r).isSome = true := by
          rw [docsB, docsA] at hr'
          simpa [hroot] using hr'
        cases hd : s.doc? r with
        | none => rw [hd] at hrs; cases hrs
        | some d =>
          obtain ⟨hrR, hrr, _, _⟩ := hinv.doc r d hd
          refine HasBase.mono leSB ?_ (hinv.base r hrs (by simp) x hx)
          intro hxV
          exact absurd hxV (hsep r hrR root hrootR (fun e => hroot e.symm) x (docAll_sub env r hrr x hx))
  refine (resolveRefsLoop_tot env R hroots recDoc hrec root _ _ (fun _ h => h) invC hrootB).mono ?_
  intro s' hs'
  exact ⟨hs'.1, keepB.trans hs'.2, hs'.2 root hrootB⟩

theorem resolveDoc_np (env : Env) (R : List NodeId) (hsep : Sep env R) (hroots : RootsIn env R) :
    ∀ fuel, RecNP env R (resolveDoc env fuel) := by
  intro fuel
  induction fuel with
  | zero => intro root base draft s _ _; rw [resolveDoc]; exact Tot.fuel
  | succ fuel ih => exact resolveDocStep_np env R hsep hroots _ ih

theorem inv_init (env : Env) (R : List NodeId) : Inv env R {} :=
  ⟨fun r d h => (by simp [RState.doc?] at h), fun e he => (by cases he),
   fun r h => (by simp [RState.doc?] at h)⟩

/-! ### Schema.Resolve -/

/-- the roots of the documents: the schema `Resolve` is called on, and the documents of the loader table -/
def docRoots (env : Env) (root : NodeId) : List NodeId :=
  root :: (env.loader.getD []).filterMap fun e => match e.2 with
    | .doc r => some r
    | _ => none

/-- documents with different roots share no schema object (decidable form of `Sep`) -/
def docsDisjoint (env : Env) (root : NodeId) : Bool :=
  (docRoots env root).all fun r1 => (docRoots env root).all fun r2 =>
    r1 == r2 || (docNodes env r1).all fun x => !(docNodes env r2).contains x

theorem sep_of_docsDisjoint (env : Env) (root : NodeId) (h : docsDisjoint env root = true) :
    Sep env (docRoots env root) := by
  intro r1 h1 r2 h2 hne x hx hx2
  unfold docsDisjoint at h
  rw [List.all_eq_true] at h
  have := h r1 h1
  rw [List.all_eq_true] at this
  have := this r2 h2
  simp only [Bool.or_eq_true, beq_iff_eq, List.all_eq_true, Bool.not_eq_true', hne, false_or] at this
  have := this x hx
  rw [List.contains_eq_mem] at this
  simp only [decide_eq_false_iff_not] at this
  exact this hx2

theorem rootsIn_docRoots (env : Env) (root : NodeId) : RootsIn env (docRoots env root) := by
  intro tbl k lroot htbl hk
  unfold docRoots
  rw [htbl]
  refine List.mem_cons_of_mem _ (List.mem_filterMap.mpr ⟨(k, .doc lroot), lookup_mem _ _ _ hk, rfl⟩)

theorem resolve_ne_panic (env : Env) (fuel : Nat) (root : NodeId) (base : String)
    (h : docsDisjoint env root = true) : resolve env fuel root base ≠ .panic := by
  have hT : Tot (resolve env fuel root base) (fun _ => True) := by
    unfold resolve
    simp only []
    refine Tot.bind (P := fun _ => True) ?_ fun b _ _ => ?_
    · split
      · exact Tot.ok trivial
      · exact Tot.of_ne_panic (parse_NoPF _).1
    · refine Tot.bind (resolveDoc_np env (docRoots env root) (sep_of_docsDisjoint env root h)
        (rootsIn_docRoots env root) fuel root b .d2020 {} (by simp [docRoots]) (inv_init env _)) fun s _ hs => ?_
      split
      · rename_i hnone
        have := hs.2.2
        rw [hnone] at this; cases this
      · exact Tot.ok trivial
  exact hT.1

end RTot
end Go
end JSV
