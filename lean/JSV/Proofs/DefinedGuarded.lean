/-
  The rank certificate is complete: on an environment whose edge targets are nodes of the store (`Go.closed`),
  the cycle search `Go.guarded` succeeds iff the rank table is a certificate (`Go.ranked`).
  `ranked → guarded` is `Refine.ranked_guarded` (JSV/Proofs/Defined.lean); here the converse:

  * the breadth-first search of `guarded`, run with `size + 1` rounds, returns a set that contains the successors of
    its starting point and is closed under successors (it cannot run out of rounds: every round adds a new node of the
    store), so a schema that reaches itself in place is found;
  * a table entry `m` after `k` rounds of relaxation is witnessed by an in-place walk of length `m`; a walk of length
    `size + 1` repeats a schema (pigeonhole), i.e. contains a cycle; hence without cycles the entries are `≤ size`;
  * an entry `≤ k` after `k + 1` rounds is already there after `k` rounds, so after `size + 1` rounds the table is a
    fixed point of the relaxation, which is what `ranked` checks.
-/
import JSV.Proofs.Defined
namespace JSV
namespace Refine
open Go GoVal
set_option linter.unusedSimpArgs false

/-! ### one relaxation round, pointwise -/

/-- `max (rank t + 1)` over the successors, from `a` -/
def supFrom (r : Array Nat) (ts : List NodeId) (a : Nat) : Nat := ts.foldl (fun m t => max m (r.getD t 0 + 1)) a

theorem supFrom_cons (r : Array Nat) (t : NodeId) (ts : List NodeId) (a : Nat) :
    supFrom r (t :: ts) a = supFrom r ts (max a (r.getD t 0 + 1)) := rfl

theorem le_supFrom (r : Array Nat) : ∀ (ts : List NodeId) (a : Nat), a ≤ supFrom r ts a
  | [], _ => Nat.le_refl _
  | t :: ts, a => by
    rw [supFrom_cons]
    exact Nat.le_trans (Nat.le_max_left _ _) (le_supFrom r ts _)

theorem mem_le_supFrom (r : Array Nat) : ∀ (ts : List NodeId) (a : Nat) (t : NodeId), t ∈ ts →
    r.getD t 0 + 1 ≤ supFrom r ts a
  | t' :: ts, a, t, h => by
    rw [supFrom_cons]
    rcases List.mem_cons.1 h with rfl | h'
    · exact Nat.le_trans (Nat.le_max_right _ _) (le_supFrom r ts _)
    · exact mem_le_supFrom r ts _ t h'

/-- the maximum is attained -/
theorem supFrom_witness (r : Array Nat) : ∀ (ts : List NodeId) (a : Nat),
    supFrom r ts a = a ∨ ∃ t, t ∈ ts ∧ supFrom r ts a = r.getD t 0 + 1
  | [], _ => Or.inl rfl
  | t :: ts, a => by
    rw [supFrom_cons]
    rcases supFrom_witness r ts (max a (r.getD t 0 + 1)) with h | ⟨t', ht', h⟩
    · rw [h]
      by_cases hm : r.getD t 0 + 1 ≤ a
      · exact Or.inl (Nat.max_eq_left hm)
      · exact Or.inr ⟨t, List.mem_cons_self, Nat.max_eq_right (by omega)⟩
    · exact Or.inr ⟨t', List.mem_cons_of_mem _ ht', h⟩

theorem supFrom_congr (r r' : Array Nat) : ∀ (ts : List NodeId) (a : Nat),
    (∀ t, t ∈ ts → r.getD t 0 = r'.getD t 0) → supFrom r ts a = supFrom r' ts a
  | [], _, _ => rfl
  | t :: ts, a, h => by
    rw [supFrom_cons, supFrom_cons, h t List.mem_cons_self]
    exact supFrom_congr r r' ts _ (fun t' ht' => h t' (List.mem_cons_of_mem _ ht'))

theorem inPlaceEdges_nil_of_ge (env : VEnv) (s : NodeId) (h : env.st.size ≤ s) : inPlaceEdges env s = [] := by
  unfold inPlaceEdges
  have : env.st.get? s = none := Array.getElem?_eq_none h
  rw [this]

/-- the entry of `s` after one more round -/
theorem relaxRanks_getD (env : VEnv) (r : Array Nat) (s : NodeId) :
    (relaxRanks (inPlaceTable env) r).getD s 0 = supFrom r (inPlaceEdges env s) 0 := by
  unfold relaxRanks inPlaceTable
  rw [Array.getD_eq_getD_getElem?, List.getElem?_toArray, List.map_map, List.getElem?_map]
  by_cases hs : s < env.st.size
  · rw [List.getElem?_range hs]
    rfl
  · have hs' : env.st.size ≤ s := Nat.le_of_not_lt hs
    rw [List.getElem?_eq_none (by rw [List.length_range]; exact hs'), inPlaceEdges_nil_of_ge env s hs']
    rfl

theorem iterRanks_succ (edges : List (List NodeId)) : ∀ (k : Nat) (r : Array Nat),
    iterRanks edges (k + 1) r = relaxRanks edges (iterRanks edges k r)
  | 0, _ => rfl
  | k + 1, r => by
    show iterRanks edges (k + 1) (relaxRanks edges r) = _
    rw [iterRanks_succ edges k (relaxRanks edges r)]
    rfl

/-- the table after `k` rounds -/
def tableAt (env : VEnv) (k : Nat) : Array Nat := iterRanks (inPlaceTable env) k #[]

theorem tableAt_zero (env : VEnv) (s : NodeId) : (tableAt env 0).getD s 0 = 0 := rfl

theorem tableAt_succ (env : VEnv) (k : Nat) (s : NodeId) :
    (tableAt env (k + 1)).getD s 0 = supFrom (tableAt env k) (inPlaceEdges env s) 0 := by
  unfold tableAt
  rw [iterRanks_succ, relaxRanks_getD]

/-- an entry `≤ k` after `k + 1` rounds is already there after `k` rounds -/
theorem tableAt_stable (env : VEnv) : ∀ (k : Nat) (s : NodeId), (tableAt env (k + 1)).getD s 0 ≤ k →
    (tableAt env (k + 1)).getD s 0 = (tableAt env k).getD s 0
  | 0, s, h => by
    rw [tableAt_zero]
    omega
  | k + 1, s, h => by
    rw [tableAt_succ env (k + 1) s] at h ⊢
    rw [tableAt_succ env k s]
    apply supFrom_congr
    intro t ht
    have h1 := mem_le_supFrom (tableAt env (k + 1)) (inPlaceEdges env s) 0 t ht
    exact tableAt_stable env k t (by omega)

/-! ### walks -/

/-- `t` is reachable from `s` by at least one in-place edge -/
inductive Reach (env : VEnv) : NodeId → NodeId → Prop where
  | step {s t : NodeId} : t ∈ inPlaceEdges env s → Reach env s t
  | cons {s t u : NodeId} : t ∈ inPlaceEdges env s → Reach env t u → Reach env s u

/-- an entry `m` is witnessed by a walk of `m` edges -/
theorem tableAt_walk (env : VEnv) : ∀ (k : Nat) (s : NodeId) (m : Nat), (tableAt env k).getD s 0 = m →
    ∃ f : Nat → NodeId, f 0 = s ∧ ∀ i, i < m → f (i + 1) ∈ inPlaceEdges env (f i)
  | 0, s, m, h => by
    rw [tableAt_zero] at h
    exact ⟨fun _ => s, rfl, fun i hi => by omega⟩
  | k + 1, s, m, h => by
    rw [tableAt_succ] at h
    rcases supFrom_witness (tableAt env k) (inPlaceEdges env s) 0 with h0 | ⟨t, ht, hw⟩
    · exact ⟨fun _ => s, rfl, fun i hi => by omega⟩
    · obtain ⟨f, hf0, hf⟩ := tableAt_walk env k t ((tableAt env k).getD t 0) rfl
      refine ⟨fun i => match i with | 0 => s | i + 1 => f i, rfl, ?_⟩
      intro i hi
      cases i with
      | zero =>
        show f 0 ∈ inPlaceEdges env s
        rw [hf0]
        exact ht
      | succ i =>
        show f (i + 1) ∈ inPlaceEdges env (f i)
        exact hf i (by omega)

theorem walk_reach (env : VEnv) (f : Nat → NodeId) (m : Nat) (hf : ∀ i, i < m → f (i + 1) ∈ inPlaceEdges env (f i)) :
    ∀ (d i : Nat), i + d + 1 ≤ m → Reach env (f i) (f (i + d + 1))
  | 0, i, h => Reach.step (hf i (by omega))
  | d + 1, i, h => by
    have h1 := walk_reach env f m hf d (i + 1) (by omega)
    rw [show i + 1 + d + 1 = i + (d + 1) + 1 by omega] at h1
    exact Reach.cons (hf i (by omega)) h1

/-- pigeonhole -/
theorem pigeon (N : Nat) (f : Nat → Nat) (h : ∀ i, i ≤ N → f i < N) : ∃ i j, i < j ∧ j ≤ N ∧ f i = f j := by
  apply Classical.byContradiction
  intro hne
  have hinj : ∀ i j, i < j → j ≤ N → f i ≠ f j := fun i j hij hj he => hne ⟨i, j, hij, hj, he⟩
  have hnd : ((List.range (N + 1)).map f).Nodup := by
    apply List.pairwise_map.2
    apply List.Pairwise.imp_of_mem (R := (· < ·)) ?_ List.pairwise_lt_range
    intro a b _ hb hab
    exact hinj a b hab (by have := List.mem_range.1 hb; omega)
  have hsub : (List.range (N + 1)).map f ⊆ List.range N := by
    intro x hx
    obtain ⟨i, hi, rfl⟩ := List.mem_map.1 hx
    exact List.mem_range.2 (h i (by have := List.mem_range.1 hi; omega))
  have hlen := hnd.length_le_of_subset hsub
  rw [List.length_map, List.length_range, List.length_range] at hlen
  omega

/-- without in-place cycles the entries never exceed the number of schemas -/
theorem tableAt_le_size (env : VEnv) (hac : ∀ u, u < env.st.size → ¬ Reach env u u) (k : Nat) (s : NodeId) :
    (tableAt env k).getD s 0 ≤ env.st.size := by
  apply Classical.byContradiction
  intro hgt
  obtain ⟨f, _, hf⟩ := tableAt_walk env k s _ rfl
  have hlt : ∀ i, i ≤ env.st.size → f i < env.st.size := fun i hi =>
    inPlaceEdges_lt_size env (f i) (f (i + 1)) (hf i (by omega))
  obtain ⟨i, j, hij, hj, he⟩ := pigeon env.st.size f hlt
  have hr := walk_reach env f _ hf (j - i - 1) i (by omega)
  rw [show i + (j - i - 1) + 1 = j by omega, ← he] at hr
  exact hac (f i) (hlt i (by omega)) hr

/-- **acyclic ⇒ ranked** -/
theorem ranked_of_acyclic (env : VEnv) (hac : ∀ u, u < env.st.size → ¬ Reach env u u) : ranked env = true := by
  unfold ranked rankedBy
  apply List.all_eq_true.2
  intro s _
  apply List.all_eq_true.2
  intro t ht
  apply decide_eq_true
  show (tableAt env (env.st.size + 1)).getD t 0 < (tableAt env (env.st.size + 1)).getD s 0
  have h1 := tableAt_stable env env.st.size t (tableAt_le_size env hac _ t)
  have h2 := mem_le_supFrom (tableAt env env.st.size) (inPlaceEdges env s) 0 t ht
  rw [← tableAt_succ] at h2
  omega

/-! ### the breadth-first search of `guarded` is complete -/

theorem nodup_eraseDups : ∀ (l : List Nat), l.eraseDups.Nodup
  | [] => by rw [List.eraseDups_nil]; exact List.nodup_nil
  | a :: as => by
    rw [List.eraseDups_cons]
    have hlen : (as.filter fun b => !b == a).length < as.length + 1 :=
      Nat.lt_succ_of_le (List.length_filter_le _ _)
    refine List.nodup_cons.2 ⟨?_, nodup_eraseDups _⟩
    intro hmem
    have h2 := (List.mem_filter.1 (List.mem_eraseDups.1 hmem)).2
    simp only [beq_self_eq_true, Bool.not_true, Bool.false_eq_true] at h2
termination_by l => l.length

/-- what the search maintains: the nodes seen are distinct nodes of the store, every round so far added one, and the
    successors of everything handled (the start `u`, the nodes seen that are not on the frontier) have been seen -/
structure BfsInv (env : VEnv) (u : NodeId) (fuel : Nat) (frontier seen : List NodeId) : Prop where
  nodup : seen.Nodup
  bound : ∀ x, x ∈ seen → x < env.st.size
  count : env.st.size + 1 ≤ fuel + seen.length
  handled : ∀ y, (y = u ∨ y ∈ seen) → y ∉ frontier → ∀ x, x ∈ inPlaceEdges env y → x ∈ seen

/-- `R` contains the successors of `u` and of its own members -/
def SuccClosed (env : VEnv) (u : NodeId) (R : List NodeId) : Prop :=
  ∀ y, (y = u ∨ y ∈ R) → ∀ x, x ∈ inPlaceEdges env y → x ∈ R

theorem reachFrom_closed (env : VEnv) (hin : ∀ y x, x ∈ inPlaceEdges env y → x < env.st.size) (u : NodeId) :
    ∀ (fuel : Nat) (frontier seen : List NodeId), BfsInv env u fuel frontier seen →
      SuccClosed env u (reachFrom env fuel frontier seen)
  | 0, frontier, seen, inv => by
    have hsub : seen ⊆ List.range env.st.size := fun x hx => List.mem_range.2 (inv.bound x hx)
    have h1 := inv.nodup.length_le_of_subset hsub
    rw [List.length_range] at h1
    have h2 := inv.count
    omega
  | fuel + 1, frontier, seen, inv => by
    unfold reachFrom
    simp only
    generalize hnext : ((frontier.flatMap (inPlaceEdges env)).eraseDups.filter fun x => !seen.contains x) = next
    have hmem : ∀ x, x ∈ next ↔ (∃ y, y ∈ frontier ∧ x ∈ inPlaceEdges env y) ∧ x ∉ seen := by
      intro x
      rw [← hnext, List.mem_filter, List.mem_eraseDups, List.mem_flatMap]
      simp only [Bool.not_eq_true', List.contains_eq_mem, decide_eq_false_iff_not]
    have hnd : next.Nodup := by
      rw [← hnext]
      exact (nodup_eraseDups _).filter _
    split
    · rename_i he
      have hnil : next = [] := List.isEmpty_iff.1 he
      intro y hy x hx
      by_cases hyf : y ∈ frontier
      · apply Classical.byContradiction
        intro hxs
        have hxn : x ∈ next := (hmem x).2 ⟨⟨y, hyf, hx⟩, hxs⟩
        rw [hnil] at hxn
        cases hxn
      · exact inv.handled y hy hyf x hx
    · rename_i he
      have hpos : 1 ≤ next.length := by
        cases next with
        | nil => exact absurd rfl he
        | cons a l => simp only [List.length_cons]; omega
      apply reachFrom_closed env hin u fuel next (seen ++ next)
      refine ⟨?_, ?_, ?_, ?_⟩
      · exact List.nodup_append.2 ⟨inv.nodup, hnd, fun a ha b hb hab => ((hmem b).1 hb).2 (hab ▸ ha)⟩
      · intro x hx
        rcases List.mem_append.1 hx with hx | hx
        · exact inv.bound x hx
        · obtain ⟨⟨y, _, hxy⟩, _⟩ := (hmem x).1 hx
          exact hin y x hxy
      · have h2 := inv.count
        rw [List.length_append]
        omega
      · intro y hy hyn x hx
        have hy' : y = u ∨ y ∈ seen := by
          rcases hy with hy | hy
          · exact Or.inl hy
          · rcases List.mem_append.1 hy with hy | hy
            · exact Or.inr hy
            · exact absurd hy hyn
        by_cases hyf : y ∈ frontier
        · by_cases hxs : x ∈ seen
          · exact List.mem_append_left _ hxs
          · exact List.mem_append_right _ ((hmem x).2 ⟨⟨y, hyf, hx⟩, hxs⟩)
        · exact List.mem_append_left _ (inv.handled y hy' hyf x hx)

theorem reach_mem_closed (env : VEnv) (u : NodeId) (R : List NodeId) (hR : SuccClosed env u R) {y x : NodeId}
    (h : Reach env y x) : (y = u ∨ y ∈ R) → x ∈ R := by
  induction h with
  | step hxs => intro hy; exact hR _ hy _ hxs
  | cons hts _ ih => intro hy; exact ih (Or.inr (hR _ hy _ hts))

/-- **guarded ⇒ acyclic** (when the edge targets are nodes of the store) -/
theorem acyclic_of_guarded (env : VEnv) (hc : closed env = true) (hg : guarded env = true) :
    ∀ u, u < env.st.size → ¬ Reach env u u := by
  intro u hu hr
  have hin : ∀ y x, x ∈ inPlaceEdges env y → x < env.st.size := by
    intro y x hx
    have hy := inPlaceEdges_lt_size env y x hx
    have hn : env.st.get? y = some env.st[y] := Array.getElem?_eq_getElem hy
    exact (closed_spec env hc y _ hn).2 x (List.mem_append_left _ hx)
  have inv : BfsInv env u (env.st.size + 1) [u] [] := by
    refine ⟨List.nodup_nil, (fun _ hx => nomatch hx), ?_, ?_⟩
    · simp only [List.length_nil]
      omega
    · intro y hy hyf x _
      rcases hy with hy | hy
      · exact absurd (List.mem_singleton.2 hy) hyf
      · cases hy
  have hcl := reachFrom_closed env hin u (env.st.size + 1) [u] [] inv
  have hmem := reach_mem_closed env u _ hcl hr (Or.inl rfl)
  unfold guarded at hg
  have h1 := List.all_eq_true.1 hg u (List.mem_range.2 hu)
  simp only [Bool.not_eq_true', List.contains_eq_mem, decide_eq_false_iff_not] at h1
  exact h1 hmem

/-- **guarded ⇒ ranked**: the rank table is a complete certificate -/
theorem guarded_ranked (env : VEnv) (hc : closed env = true) (hg : guarded env = true) : ranked env = true :=
  ranked_of_acyclic env (acyclic_of_guarded env hc hg)

end Refine
end JSV
