/-
  Helper lemmas for C02: the draft of every Resolved.  `resolveDocStep` registers a document under the draft
  its root declares, or, when it declares none, under the draft handed over by the referring document
  (`resolveRef` passes `d.draft` of the Resolved it runs for).  Two invariants over the open recursion:
  * `AllDraft D` (no assumption on the Loader): every Resolved has draft `D`;
  * the parent relation `Par` (under the freshness assumption): every loaded document is registered under
    `docDraft` of the draft of a Resolved that merged it.
-/
import JSV.Proofs.ResDesigMulti
namespace JSV
namespace Go
namespace RDraft
open RInv Uri

/-- the draft a document with root object `rn` is read under when the referrer's draft is `inherit` -/
def docDraft (env : Env) (rn : Node) (inherit : Draft) : Draft :=
  if rn.schema == "" then inherit else detectDraft env rn.schema

theorem docDraft_none (env : Env) (rn : Node) (inherit : Draft) (h : rn.schema = "") :
    docDraft env rn inherit = inherit := by
  unfold docDraft; rw [h]; rfl

theorem docDraft_some (env : Env) (rn : Node) (inherit : Draft) (h : rn.schema ≠ "") :
    docDraft env rn inherit = detectDraft env rn.schema := by
  unfold docDraft
  have : (rn.schema == "") = false := by simpa using h
  rw [this]; rfl

/-! ### the shape of resolver.resolve, resolveRef -/

/-- the state handed to resolveURIs -/
def beforeURIs (root : NodeId) (baseURI : Url) (draft : Draft) (fresh : List (NodeId × Info)) (s : RState) : RState :=
  (({ s with infos := s.infos ++ fresh } : RState).setDoc
    { root := root, draft := draft, uris := [(Uri.toString baseURI, root)], known := fresh.map (·.1) }).updInfo root
      fun i => { i with uri := some baseURI }

/-- the update of `r.loaded` between resolveURIs and resolveRefs -/
def afterURIs (root : NodeId) (baseURI : Url) (s : RState) : RState :=
  let rootUri := match lookupNat root s.infos with
    | some i => (i.uri.map Uri.toString).getD ""
    | none => ""
  { s with loaded := (s.loaded.filter fun e => e.1 != Uri.toString baseURI && e.1 != rootUri)
                      ++ [(Uri.toString baseURI, root), (rootUri, root)] }

theorem resolveDocStep_unfold (env : Env) (recDoc : ResolveDoc) (root : NodeId) (baseURI : Url) (inherit : Draft)
    (s s' : RState) (h : resolveDocStep env recDoc root baseURI inherit s = .ok s') :
    ∃ rn fresh sB, env.st.get? root = some rn ∧
      checkStructure env.st (env.st.size + 2) [(root, "")] [] = .ok fresh ∧
      resolveURIsLoop env (docDraft env rn inherit) root (env.st.size + 2) [(root, root)]
        (beforeURIs root baseURI (docDraft env rn inherit) fresh s) = .ok sB ∧
      resolveRefsLoop env recDoc root (allNodes env.st (env.st.size + 2) [root]) (afterURIs root baseURI sB) = .ok s' := by
  unfold resolveDocStep at h
  split at h
  · simp at h
  split at h
  · simp at h
  rename_i rn hrn
  simp only at h
  rw [bind_eq_ok] at h
  obtain ⟨fresh, hfresh, h⟩ := h
  split at h
  · simp at h
  rw [bind_eq_ok] at h
  obtain ⟨sB, hB, h⟩ := h
  exact ⟨rn, fresh, sB, hrn, hfresh, hB, h⟩

theorem resolveRef_cases (env : Env) (recDoc : ResolveDoc) (root : NodeId) (a : RState) (id : NodeId) (ref : String)
    (o : RefOut) (b : RState) (h : resolveRef env recDoc root a id ref = .ok (o, b)) :
    ∃ d, a.doc? root = some d ∧
      (b = a ∨ (∃ r, b = mergeKnown a root r) ∨
       ∃ u tbl r a2, Json.lookup (Uri.toString u) a.loaded = none ∧ env.loader = some tbl ∧
         Json.lookup (Uri.toString u) tbl = some (.doc r) ∧
         recDoc r u d.draft { a with log := a.log ++ [Uri.toString u] } = .ok a2 ∧ b = mergeKnown a2 root r) := by
  obtain ⟨refURI0, info, base, bInfo, bu, d, r, _, _, _, _, _, hd, hloc, _⟩ :=
    resolveRef_unfold env recDoc root a id ref o b h
  refine ⟨d, hd, ?_⟩
  unfold Located at hloc
  simp only at hloc
  rcases hloc with ⟨_, h1⟩ | ⟨_, _, h1⟩ | ⟨_, hn, tbl, s2, htbl, hl, hrec, h1⟩
  · exact Or.inl h1
  · exact Or.inr (Or.inl ⟨r, h1⟩)
  · exact Or.inr (Or.inr ⟨_, tbl, r, s2, hn, htbl, hl, hrec, h1⟩)

/-! ### state predicates along the two loops -/

theorem pres_setAnchor (J : RState → Prop) (h1 : ∀ a id f, J a → J (a.updInfo id f))
    (s : RState) (b t : NodeId) (a : String) (dyn : Bool) (h : J s) : J (setAnchor s b t a dyn) := by
  rw [setAnchor_eq]
  split
  · exact h
  · exact h1 _ _ _ h

theorem resolveURIsLoop_pres (env : Env) (draft : Draft) (root : NodeId) (J : RState → Prop)
    (h1 : ∀ a id f, J a → J (a.updInfo id f))
    (h2 : ∀ a d u, J a → a.doc? root = some d → J (a.setDoc { d with uris := u })) :
    ∀ fuel work s s', resolveURIsLoop env draft root fuel work s = .ok s' → J s → J s' := by
  intro fuel
  induction fuel with
  | zero => intro work s s' h; simp [resolveURIsLoop] at h
  | succ fuel ih =>
    intro work s s' h hs
    cases work with
    | nil => simp [resolveURIsLoop] at h; subst h; exact hs
    | cons e work =>
      obtain ⟨id, base⟩ := e
      obtain ⟨n, i0, bi, s1, base1, _, _, _, hstep, hrest⟩ := resolveURIsLoop_unfold env draft root fuel id base work s s' h
      apply ih _ _ _ hrest
      have hs1 : J s1 := by
        rcases uriStep_shapes draft root s id base n bi s1 base1 hstep with ⟨_, rfl | ⟨a, rfl⟩⟩ | ⟨_, u, rfl⟩
        · exact hs
        · exact pres_setAnchor J h1 _ _ _ _ _ hs
        · unfold newUriState
          simp only
          split
          · rename_i d hd
            exact h2 _ d _ (h1 _ _ _ hs) hd
          · exact h1 _ _ _ hs
      unfold postStep
      simp only
      split
      · exact pres_setAnchor J h1 _ _ _ _ _ (pres_setAnchor J h1 _ _ _ _ _ (h1 _ _ _ hs1))
      · exact h1 _ _ _ hs1

theorem resolveRefsLoop_pres (env : Env) (recDoc : ResolveDoc) (root : NodeId) (J : RState → Prop)
    (h1 : ∀ a id f, J a → J (a.updInfo id f))
    (hstep : ∀ a id ref o b, J a → resolveRef env recDoc root a id ref = .ok (o, b) → J b) :
    ∀ ids s s', resolveRefsLoop env recDoc root ids s = .ok s' → J s → J s' := by
  intro ids
  induction ids with
  | nil => intro s s' h hs; simp [resolveRefsLoop] at h; subst h; exact hs
  | cons id rest ih =>
    intro s s' h hs
    rw [resolveRefsLoop] at h
    split at h
    · simp at h
    · simp only at h
      rw [bind_eq_ok] at h
      obtain ⟨s1, e1, h⟩ := h
      rw [bind_eq_ok] at h
      obtain ⟨s2, e2, h⟩ := h
      have g1 : J s1 := by
        split at e1
        · rw [bind_eq_ok] at e1
          obtain ⟨⟨o, sa⟩, hr, e1⟩ := e1
          simp only [Res.ok.injEq] at e1
          rw [← e1]
          exact h1 _ _ _ (hstep _ _ _ _ _ hs hr)
        · simp only [Res.ok.injEq] at e1; rw [← e1]; exact hs
      have g2 : J s2 := by
        split at e2
        · rw [bind_eq_ok] at e2
          obtain ⟨⟨o, sa⟩, hr, e2⟩ := e2
          simp only [Res.ok.injEq] at e2
          rw [← e2]
          exact h1 _ _ _ (hstep _ _ _ _ _ g1 hr)
        · simp only [Res.ok.injEq] at e2; rw [← e2]; exact g1
      exact ih _ _ h g2

/-! ### membership in `docs` -/

theorem mem_setDoc (s : RState) (d x : DocRes) (h : x ∈ (s.setDoc d).docs) : x ∈ s.docs ∨ x = d := by
  unfold RState.setDoc at h
  simp only at h
  split at h
  · obtain ⟨y, hy, he⟩ := List.mem_map.mp h
    split at he
    · exact Or.inr he.symm
    · exact Or.inl (he ▸ hy)
  · rcases List.mem_append.mp h with h | h
    · exact Or.inl h
    · exact Or.inr (List.mem_singleton.mp h)

theorem doc?_mem (s : RState) (r : NodeId) (d : DocRes) (h : s.doc? r = some d) : d ∈ s.docs := by
  unfold RState.doc? at h
  exact List.mem_of_find?_eq_some h

/-! ### every Resolved has draft `D` -/

def AllDraft (D : Draft) (s : RState) : Prop := ∀ d ∈ s.docs, d.draft = D

/-- when every Resolved has draft `D`, so has the one rooted at `r` -/
theorem AllDraft.draftOf {D : Draft} {s : RState} (h : AllDraft D s) (r : NodeId) (hr : (s.doc? r).isSome = true) :
    s.draftOf r = D := by
  unfold RState.draftOf
  cases hd : s.doc? r with
  | none => rw [hd] at hr; cases hr
  | some d => exact h d (doc?_mem s r d hd)

theorem AllDraft.of_docs_eq {D : Draft} {a b : RState} (h : b.docs = a.docs) (ha : AllDraft D a) : AllDraft D b := by
  unfold AllDraft; rw [h]; exact ha

theorem allDraft_setDoc {D : Draft} (s : RState) (d : DocRes) (hd : d.draft = D) (h : AllDraft D s) :
    AllDraft D (s.setDoc d) := by
  intro x hx
  rcases mem_setDoc s d x hx with hx | hx
  · exact h x hx
  · rw [hx]; exact hd

theorem allDraft_mergeKnown {D : Draft} (s : RState) (a b : NodeId) (h : AllDraft D s) :
    AllDraft D (mergeKnown s a b) := by
  unfold mergeKnown
  split
  · rename_i d l hd hl
    exact allDraft_setDoc s _ (h d (doc?_mem s a d hd)) h
  · exact h

/-- the document rooted at `r` is read under `D` when the referrer's draft is `inh` -/
def ReadsAs (env : Env) (D : Draft) (r : NodeId) (inh : Draft) : Prop :=
  ∀ rn, env.st.get? r = some rn → docDraft env rn inh = D

/-- every Loader document declares no `$schema`, or one that selects `D` -/
def LoaderDeclares (env : Env) (D : Draft) : Prop :=
  ∀ tbl k r, env.loader = some tbl → Json.lookup k tbl = some (.doc r) → ReadsAs env D r D

def RecAll (env : Env) (D : Draft) (recDoc : ResolveDoc) : Prop :=
  ∀ root base inh s s', recDoc root base inh s = .ok s' → ReadsAs env D root inh → AllDraft D s → AllDraft D s'

theorem resolveRef_all (env : Env) (D : Draft) (recDoc : ResolveDoc) (hrec : RecAll env D recDoc)
    (hload : LoaderDeclares env D) (root : NodeId) (a : RState) (id : NodeId) (ref : String) (o : RefOut) (b : RState)
    (ha : AllDraft D a) (h : resolveRef env recDoc root a id ref = .ok (o, b)) : AllDraft D b := by
  obtain ⟨d, hd, hc⟩ := resolveRef_cases env recDoc root a id ref o b h
  rcases hc with rfl | ⟨r, rfl⟩ | ⟨u, tbl, r, a2, _, htbl, hl, hcall, rfl⟩
  · exact ha
  · exact allDraft_mergeKnown _ _ _ ha
  · apply allDraft_mergeKnown
    have hdD : d.draft = D := ha d (doc?_mem a root d hd)
    rw [hdD] at hcall
    exact hrec _ _ _ _ _ hcall (hload tbl _ r htbl hl) (AllDraft.of_docs_eq rfl ha)

theorem resolveDocStep_all (env : Env) (D : Draft) (recDoc : ResolveDoc) (hrec : RecAll env D recDoc)
    (hload : LoaderDeclares env D) : RecAll env D (resolveDocStep env recDoc) := by
  intro root baseURI inh s s' h hroot hs
  obtain ⟨rn, fresh, sB, hrn, _, hB, hC⟩ := resolveDocStep_unfold env recDoc root baseURI inh s s' h
  have hdr : docDraft env rn inh = D := hroot rn hrn
  rw [hdr] at hB
  have hupd : ∀ a id f, AllDraft D a → AllDraft D (a.updInfo id f) :=
    fun a id f ha => AllDraft.of_docs_eq (updInfo_docs a id f) ha
  have hA : AllDraft D (beforeURIs root baseURI D fresh s) := by
    unfold beforeURIs
    apply hupd
    apply allDraft_setDoc _ _ rfl
    exact AllDraft.of_docs_eq rfl hs
  have hsB : AllDraft D sB :=
    resolveURIsLoop_pres env D root (AllDraft D) hupd
      (fun a d u ha hd => allDraft_setDoc a _ (ha d (doc?_mem a root d hd)) ha) _ _ _ _ hB hA
  exact resolveRefsLoop_pres env recDoc root (AllDraft D) hupd
    (fun a id ref o b ha hr => resolveRef_all env D recDoc hrec hload root a id ref o b ha hr) _ _ _ hC
    (AllDraft.of_docs_eq rfl hsB)

theorem resolveDoc_all (env : Env) (D : Draft) (hload : LoaderDeclares env D) :
    ∀ fuel, RecAll env D (resolveDoc env fuel) := by
  intro fuel
  induction fuel with
  | zero => intro root base inh s s' h; simp [resolveDoc] at h
  | succ fuel ih => exact resolveDocStep_all env D _ ih hload

theorem allDraft_init (D : Draft) : AllDraft D {} := fun _ h => absurd h (by simp)

/-! ### the parent relation -/

/-- `r` is the top document, or a Loader document whose URI is in the log -/
def IsLogged (env : Env) (top : NodeId) (log : List String) (r : NodeId) : Prop :=
  r = top ∨ ∃ tbl k, env.loader = some tbl ∧ k ∈ log ∧ Json.lookup k tbl = some (.doc r)

def Logged (env : Env) (top : NodeId) (s : RState) : Prop :=
  ∀ r, (s.doc? r).isSome = true → IsLogged env top s.log r

/-- what the parent relation needs of the Loader: every URI has its own document, none of them the top one -/
def LoaderInj (env : Env) (top : NodeId) : Prop :=
  ∀ tbl, env.loader = some tbl →
    (∀ k r, Json.lookup k tbl = some (.doc r) → r ≠ top) ∧
    (∀ k1 k2 r, Json.lookup k1 tbl = some (.doc r) → Json.lookup k2 tbl = some (.doc r) → k1 = k2)

theorem LoaderFresh.inj {env : Env} {top : NodeId} (h : LoaderFresh env top) : LoaderInj env top := by
  intro tbl htbl
  obtain ⟨h1, h2⟩ := h tbl htbl
  constructor
  · intro k r hk e
    subst e
    exact h1 k r hk r (reach_root env.st r) (reach_root env.st r)
  · intro k1 k2 r hk1 hk2
    apply Classical.byContradiction
    intro hne
    exact h2 k1 k2 r r hne hk1 hk2 r (reach_root env.st r) (reach_root env.st r)

theorem IsLogged.mono {env : Env} {top : NodeId} {l l' : List String} {r : NodeId}
    (h : IsLogged env top l r) (hl : ∀ k ∈ l, k ∈ l') : IsLogged env top l' r := by
  rcases h with h | ⟨tbl, k, h1, h2, h3⟩
  · exact Or.inl h
  · exact Or.inr ⟨tbl, k, h1, hl k h2, h3⟩

/-- the Resolved of existing documents keep their draft and what they know -/
def DocLe (s s' : RState) : Prop :=
  ∀ r d, s.doc? r = some d → ∃ d', s'.doc? r = some d' ∧ d'.draft = d.draft ∧ ∀ x ∈ d.known, x ∈ d'.known

theorem DocLe.refl (s : RState) : DocLe s s := fun _ d h => ⟨d, h, rfl, fun _ hx => hx⟩

theorem DocLe.trans {a b c : RState} (h1 : DocLe a b) (h2 : DocLe b c) : DocLe a c := by
  intro r d hd
  obtain ⟨d1, hd1, e1, k1⟩ := h1 r d hd
  obtain ⟨d2, hd2, e2, k2⟩ := h2 r d1 hd1
  exact ⟨d2, hd2, e2.trans e1, fun x hx => k2 x (k1 x hx)⟩

theorem DocLe.of_docs_eq {a b : RState} (h : b.docs = a.docs) : DocLe a b := by
  intro r d hd
  exact ⟨d, by rw [doc?_of_docs_eq h]; exact hd, rfl, fun _ hx => hx⟩

theorem DocLe.none {a b : RState} (h : DocLe a b) (r : NodeId) (hb : b.doc? r = none) : a.doc? r = none := by
  cases ha : a.doc? r with
  | none => rfl
  | some d =>
    obtain ⟨d', hd', _⟩ := h r d ha
    rw [hb] at hd'; cases hd'

theorem docLe_setDoc_upd (a : RState) (d dn : DocRes) (r : NodeId) (hd : a.doc? r = some d) (hr : dn.root = r)
    (hdr : dn.draft = d.draft) (hk : ∀ x ∈ d.known, x ∈ dn.known) : DocLe a (a.setDoc dn) := by
  intro r' d' h'
  rw [doc?_setDoc]
  split
  · rename_i e
    have : r' = r := by rw [← e, hr]
    subst this
    rw [hd] at h'
    simp only [Option.some.injEq] at h'
    subst h'
    exact ⟨dn, rfl, hdr, hk⟩
  · exact ⟨d', h', rfl, fun _ hx => hx⟩

theorem docLe_setDoc_new (a : RState) (dn : DocRes) (h : a.doc? dn.root = none) : DocLe a (a.setDoc dn) := by
  intro r' d' h'
  rw [doc?_setDoc]
  split
  · rename_i e
    rw [e, h'] at h; cases h
  · exact ⟨d', h', rfl, fun _ hx => hx⟩

theorem docLe_mergeKnown (s : RState) (a b : NodeId) : DocLe s (mergeKnown s a b) := by
  unfold mergeKnown
  split
  · rename_i d l hd hl
    refine docLe_setDoc_upd s d _ a hd (doc?_root s a d hd) rfl ?_
    intro x hx
    exact List.mem_append_left _ hx
  · exact DocLe.refl s

theorem mergeKnown_isSome (s : RState) (a b r : NodeId) :
    ((mergeKnown s a b).doc? r).isSome = (s.doc? r).isSome := by
  unfold mergeKnown
  split
  · rename_i d l hd hl
    rw [doc?_setDoc]
    split
    · rename_i e
      have e' : d.root = r := e
      rw [← e', doc?_root s a d hd, hd]; rfl
    · rfl
  · rfl

/-- after the merge the referring Resolved knows what the referenced one knows -/
theorem mergeKnown_knows (s : RState) (a b : NodeId) (da db : DocRes) (ha : s.doc? a = some da)
    (hb : s.doc? b = some db) (x : NodeId) (hx : x ∈ db.known) :
    ∃ dp, (mergeKnown s a b).doc? a = some dp ∧ dp.draft = da.draft ∧ x ∈ dp.known := by
  unfold mergeKnown
  rw [ha, hb]
  simp only
  refine ⟨{ da with known := da.known ++ db.known.filter (fun x => !da.known.contains x) },
    by rw [doc?_setDoc, if_pos (doc?_root s a da ha)], rfl, ?_⟩
  simp only [List.mem_append, List.mem_filter, List.contains_eq_mem, Bool.not_eq_true', decide_eq_false_iff_not]
  by_cases hm : x ∈ da.known
  · exact Or.inl hm
  · exact Or.inr ⟨hx, hm⟩

/-- document `r`, registered under `dr`, was read under the draft of the Resolved of `p`, which merged it -/
def Par (env : Env) (s : RState) (r : NodeId) (dr : Draft) (p : NodeId) : Prop :=
  ∃ rn dp, env.st.get? r = some rn ∧ s.doc? p = some dp ∧ p ≠ r ∧ r ∈ dp.known ∧ dr = docDraft env rn dp.draft

theorem Par.mono {env : Env} {s s' : RState} {r p : NodeId} {dr : Draft} (hle : DocLe s s')
    (h : Par env s r dr p) : Par env s' r dr p := by
  obtain ⟨rn, dp, h1, h2, h3, h4, h5⟩ := h
  obtain ⟨dp', h2', e, k⟩ := hle p dp h2
  exact ⟨rn, dp', h1, h2', h3, k r h4, by rw [e]; exact h5⟩

/-- the documents registered between `a` and `b` have a parent: `X`, or another such document -/
def NewPar (env : Env) (X : NodeId) (a b : RState) : Prop :=
  ∀ r d, a.doc? r = none → b.doc? r = some d → ∃ p, (p = X ∨ a.doc? p = none) ∧ Par env b r d.draft p

theorem newPar_of_none (env : Env) (X : NodeId) (a b : RState) (h : ∀ r, a.doc? r = none → b.doc? r = none) :
    NewPar env X a b := by
  intro r d ha hb
  rw [h r ha] at hb; cases hb

theorem NewPar.trans {env : Env} {X : NodeId} {a b c : RState} (hab : DocLe a b) (hbc : DocLe b c)
    (h1 : NewPar env X a b) (h2 : NewPar env X b c) : NewPar env X a c := by
  intro r d ha hc
  cases hb : b.doc? r with
  | some db =>
    obtain ⟨d', hd', e, _⟩ := hbc r db hb
    rw [hc] at hd'
    simp only [Option.some.injEq] at hd'
    subst hd'
    obtain ⟨p, hp, hpar⟩ := h1 r db ha hb
    exact ⟨p, hp, by rw [e]; exact hpar.mono hbc⟩
  | none =>
    obtain ⟨p, hp, hpar⟩ := h2 r d hb hc
    refine ⟨p, ?_, hpar⟩
    rcases hp with hp | hp
    · exact Or.inl hp
    · exact Or.inr (hab.none p hp)

/-- the invariant of resolveRefs running for document `X`, entered in state `a0` -/
structure JB (env : Env) (top X : NodeId) (a0 b : RState) : Prop where
  logOk : LogOk b none
  logged : Logged env top b
  reg : (b.doc? X).isSome = true
  le : DocLe a0 b
  par : NewPar env X a0 b

theorem JB.of_eq {env : Env} {top X : NodeId} {a0 b b' : RState} (h : JB env top X a0 b) (hd : b'.docs = b.docs)
    (hl : b'.log = b.log) (hld : b'.loaded = b.loaded) : JB env top X a0 b' := by
  have hdoc : ∀ r, b'.doc? r = b.doc? r := doc?_of_docs_eq hd
  refine ⟨?_, ?_, ?_, ?_, ?_⟩
  · have := h.logOk
    unfold LogOk at this ⊢
    rw [hl, hld]; exact this
  · intro r hr
    rw [hdoc] at hr
    rw [hl]; exact h.logged r hr
  · rw [hdoc]; exact h.reg
  · exact h.le.trans (DocLe.of_docs_eq hd)
  · intro r d ha hb
    rw [hdoc] at hb
    obtain ⟨p, hp, hpar⟩ := h.par r d ha hb
    exact ⟨p, hp, hpar.mono (DocLe.of_docs_eq hd)⟩

theorem JB.updInfo {env : Env} {top X : NodeId} {a0 b : RState} (h : JB env top X a0 b) (id : NodeId) (f : Info → Info) :
    JB env top X a0 (b.updInfo id f) :=
  h.of_eq (updInfo_docs b id f) (updInfo_same b id f).1 (updInfo_same b id f).2

theorem JB.mergeKnown {env : Env} {top X : NodeId} {a0 b : RState} (h : JB env top X a0 b) (x y : NodeId) :
    JB env top X a0 (mergeKnown b x y) := by
  have hsame := mergeKnown_same b x y
  refine ⟨hsame.logOk h.logOk, ?_, ?_, h.le.trans (docLe_mergeKnown b x y), ?_⟩
  · intro r hr
    rw [mergeKnown_isSome] at hr
    rw [hsame.1]; exact h.logged r hr
  · rw [mergeKnown_isSome]; exact h.reg
  · refine NewPar.trans h.le (docLe_mergeKnown b x y) h.par (newPar_of_none env X _ _ ?_)
    intro r hr
    have := mergeKnown_isSome b x y r
    rw [hr] at this
    cases hm : (Go.mergeKnown b x y).doc? r with
    | none => rfl
    | some d => rw [hm] at this; cases this

/-- what the open-recursion callback must satisfy, entered for a document that is not registered yet -/
def RecDr (env : Env) (top : NodeId) (recDoc : ResolveDoc) : Prop :=
  ∀ root base inh s s', recDoc root base inh s = .ok s' →
    LogOk s (some (Uri.toString base)) → Logged env top s → IsLogged env top s.log root → s.doc? root = none →
    Logged env top s' ∧ DocLe s s' ∧
    (∃ rn d, env.st.get? root = some rn ∧ s'.doc? root = some d ∧ d.draft = docDraft env rn inh ∧ root ∈ d.known) ∧
    (∀ r d, r ≠ root → s.doc? r = none → s'.doc? r = some d → ∃ p, s.doc? p = none ∧ Par env s' r d.draft p)

theorem resolveRef_dr (env : Env) (top : NodeId) (recDoc : ResolveDoc) (hrec : RecSpec env recDoc)
    (hdr : RecDr env top recDoc) (hinj : LoaderInj env top) (a0 : RState) (X : NodeId) (a : RState) (id : NodeId)
    (ref : String) (o : RefOut) (b : RState) (ha : JB env top X a0 a)
    (h : resolveRef env recDoc X a id ref = .ok (o, b)) : JB env top X a0 b := by
  obtain ⟨d, hd, hc⟩ := resolveRef_cases env recDoc X a id ref o b h
  rcases hc with rfl | ⟨r, rfl⟩ | ⟨u, tbl, r, a2, hnone, htbl, hl, hcall, rfl⟩
  · exact ha
  · exact ha.mergeKnown _ _
  · -- the state the Loader document is resolved in
    have hdoc1 : ∀ x, ({ a with log := a.log ++ [Uri.toString u] } : RState).doc? x = a.doc? x := fun _ => rfl
    obtain ⟨hext, _, hlog⟩ := hrec _ _ _ _ _ hcall
    have hlogOk2 : LogOk a2 none := hlog (logOk_push a _ ha.logOk hnone)
    have hlogged1 : Logged env top { a with log := a.log ++ [Uri.toString u] } := by
      intro x hx
      exact (ha.logged x hx).mono (fun k hk => List.mem_append_left _ hk)
    have hislogged : IsLogged env top (a.log ++ [Uri.toString u]) r :=
      Or.inr ⟨tbl, _, htbl, by simp, hl⟩
    have hnew : a.doc? r = none := by
      cases hr : a.doc? r with
      | none => rfl
      | some dr =>
        exfalso
        rcases ha.logged r (by rw [hr]; rfl) with e | ⟨tbl', k, htbl', hk, hl'⟩
        · exact (hinj tbl htbl).1 _ r hl e
        · rw [htbl] at htbl'
          simp only [Option.some.injEq] at htbl'
          subst htbl'
          have := (hinj tbl htbl).2 _ _ r hl' hl
          subst this
          have := (ha.logOk.2 _ hk).resolve_left (by simp)
          rw [hnone] at this
          cases this
    obtain ⟨hlogged2, hle12, ⟨rn, dl, hrn, hdl, hdraft, hself⟩, hothers⟩ :=
      hdr _ _ _ _ _ hcall (logOk_push a _ ha.logOk hnone) hlogged1 hislogged hnew
    have hle2 : DocLe a a2 := hle12
    obtain ⟨dX, hdX, hdXdr, _⟩ := hle2 X d hd
    have hXr : X ≠ r := by
      intro e; rw [e, hnew] at hd; cases hd
    have hsame := mergeKnown_same a2 X r
    have hleM := docLe_mergeKnown a2 X r
    refine ⟨hsame.logOk hlogOk2, ?_, ?_, ha.le.trans (hle2.trans hleM), ?_⟩
    · intro x hx
      rw [mergeKnown_isSome] at hx
      rw [hsame.1]; exact hlogged2 x hx
    · rw [mergeKnown_isSome, hdX]; rfl
    · refine NewPar.trans ha.le (hle2.trans hleM) ha.par ?_
      intro r' d' hr' hb'
      by_cases e : r' = r
      · subst e
        rw [mergeKnown_doc_ne a2 X r' r' (fun e => hXr e.symm), hdl] at hb'
        simp only [Option.some.injEq] at hb'
        subst hb'
        obtain ⟨dp, hdp, hdpdr, hk⟩ := mergeKnown_knows a2 X r' dX dl hdX hdl r' hself
        exact ⟨X, Or.inl rfl, rn, dp, hrn, hdp, hXr, hk, by rw [hdraft, hdpdr, hdXdr]⟩
      · have hne : r' ≠ X := by
          intro e'; rw [e', hd] at hr'; cases hr'
        rw [mergeKnown_doc_ne a2 X r r' hne] at hb'
        obtain ⟨p, hp, hpar⟩ := hothers r' d' e hr' hb'
        exact ⟨p, Or.inr hp, hpar.mono hleM⟩

/-- resolveURIs changes the Resolved of `root` only, and keeps its draft and what it knows -/
def QU (root : NodeId) (s0 b : RState) : Prop :=
  (∀ r, r ≠ root → b.doc? r = s0.doc? r) ∧
  (∀ d, s0.doc? root = some d → ∃ d', b.doc? root = some d' ∧ d'.draft = d.draft ∧ d'.known = d.known)

theorem resolveURIsLoop_qu (env : Env) (draft : Draft) (root : NodeId) (fuel : Nat) (work : List (NodeId × NodeId))
    (s s' : RState) (h : resolveURIsLoop env draft root fuel work s = .ok s') : QU root s s' := by
  refine resolveURIsLoop_pres env draft root (QU root s) ?_ ?_ fuel work s s' h
    ⟨fun _ _ => rfl, fun d hd => ⟨d, hd, rfl, rfl⟩⟩
  · intro a id f ha
    have hdoc : ∀ r, (a.updInfo id f).doc? r = a.doc? r := doc?_of_docs_eq (updInfo_docs a id f)
    exact ⟨fun r hr => by rw [hdoc]; exact ha.1 r hr, fun d hd => by rw [hdoc]; exact ha.2 d hd⟩
  · intro a d u ha hd
    have hroot : d.root = root := doc?_root a root d hd
    constructor
    · intro r hr
      rw [doc?_setDoc]
      simp only [hroot]
      rw [if_neg (fun e => hr e.symm)]
      exact ha.1 r hr
    · intro d0 hd0
      obtain ⟨d', hd', e1, e2⟩ := ha.2 d0 hd0
      rw [hd] at hd'
      simp only [Option.some.injEq] at hd'
      subst hd'
      refine ⟨{ d with uris := u }, ?_, e1, e2⟩
      rw [doc?_setDoc]
      simp only [hroot, if_true]

theorem resolveDocStep_dr (env : Env) (top : NodeId) (recDoc : ResolveDoc) (hrec : RecSpec env recDoc)
    (hdr : RecDr env top recDoc) (hinj : LoaderInj env top) : RecDr env top (resolveDocStep env recDoc) := by
  intro root baseURI inh s s' h hlogOk hlogged hislogged hnew
  obtain ⟨rn, fresh, sB, hrn, hfresh, hB, hC⟩ := resolveDocStep_unfold env recDoc root baseURI inh s s' h
  -- the state handed to resolveURIs
  let dn : DocRes := { root := root, draft := docDraft env rn inh, uris := [(Uri.toString baseURI, root)],
                       known := fresh.map (·.1) }
  have hAdoc : ∀ r, (beforeURIs root baseURI (docDraft env rn inh) fresh s).doc? r =
      if root = r then some dn else s.doc? r := by
    intro r
    unfold beforeURIs
    rw [doc?_of_docs_eq (updInfo_docs _ _ _), doc?_setDoc]
    rfl
  have hAsame : SameLL s (beforeURIs root baseURI (docDraft env rn inh) fresh s) := by
    have h0 : SameLL s { s with infos := s.infos ++ fresh } := ⟨rfl, rfl⟩
    exact h0.trans (SameLL.trans (setDoc_same _ dn) (updInfo_same _ _ _))
  obtain ⟨sameB, _⟩ := resolveURIsLoop_spec _ _ _ _ _ _ _ hB
  have hqu := resolveURIsLoop_qu env _ root _ _ _ _ hB
  have hBlog : sB.log = s.log := sameB.1.trans hAsame.1
  have hBloaded : sB.loaded = s.loaded := sameB.2.trans hAsame.2
  -- the state handed to resolveRefs
  have hCdoc : ∀ r, (afterURIs root baseURI sB).doc? r = sB.doc? r := fun _ => rfl
  have hCne : ∀ r, r ≠ root → (afterURIs root baseURI sB).doc? r = s.doc? r := by
    intro r hr
    rw [hCdoc, hqu.1 r hr, hAdoc, if_neg (fun e => hr e.symm)]
  obtain ⟨dB, hdB, hdBdr, hdBk⟩ := hqu.2 dn (by rw [hAdoc, if_pos rfl])
  have hCroot : (afterURIs root baseURI sB).doc? root = some dB := by rw [hCdoc]; exact hdB
  have hleC : DocLe s (afterURIs root baseURI sB) := by
    intro r d hd
    have hr : r ≠ root := by
      intro e; rw [e, hnew] at hd; cases hd
    exact ⟨d, by rw [hCne r hr]; exact hd, rfl, fun _ hx => hx⟩
  have hJ : JB env top root (afterURIs root baseURI sB) (afterURIs root baseURI sB) := by
    refine ⟨?_, ?_, by rw [hCroot]; rfl, DocLe.refl _, newPar_of_none env root _ _ (fun _ h => h)⟩
    · -- as in `resolveDocStep_spec`
      have hupd := fun b => loaded_update sB.loaded (Uri.toString baseURI) b root
      obtain ⟨hn, hl⟩ := hlogOk
      refine ⟨?_, ?_⟩
      · show sB.log.Nodup
        rw [hBlog]; exact hn
      · intro k hk
        right
        have hk' : k ∈ s.log := by
          have : k ∈ sB.log := hk
          rwa [hBlog] at this
        rcases hl k hk' with e | e
        · simp only [Option.some.injEq] at e
          subst e; exact (hupd _).1
        · refine (hupd _).2 k ?_
          rw [hBloaded]; exact e
    · intro r hr
      have hlogC : (afterURIs root baseURI sB).log = s.log := hBlog
      rw [hlogC]
      by_cases e : r = root
      · rw [e]; exact hislogged
      · rw [hCne r e] at hr
        exact hlogged r hr
  have hJ' : JB env top root (afterURIs root baseURI sB) s' :=
    resolveRefsLoop_pres env recDoc root (JB env top root (afterURIs root baseURI sB))
      (fun a id f ha => ha.updInfo id f)
      (fun a id ref o b ha hr => resolveRef_dr env top recDoc hrec hdr hinj _ root a id ref o b ha hr) _ _ _ hC hJ
  refine ⟨hJ'.logged, hleC.trans hJ'.le, ?_, ?_⟩
  · obtain ⟨d', hd', e, k⟩ := hJ'.le root dB hCroot
    refine ⟨rn, d', hrn, hd', by rw [e, hdBdr], k root ?_⟩
    rw [hdBk]
    exact checkStructure_root_mem env.st _ root fresh hfresh
  · intro r d hr hs hs'
    obtain ⟨p, hp, hpar⟩ := hJ'.par r d (by rw [hCne r hr]; exact hs) hs'
    refine ⟨p, ?_, hpar⟩
    rcases hp with hp | hp
    · rw [hp]; exact hnew
    · exact hleC.none p hp

theorem resolveDoc_dr (env : Env) (top : NodeId) (hinj : LoaderInj env top) :
    ∀ fuel, RecDr env top (resolveDoc env fuel) := by
  intro fuel
  induction fuel with
  | zero => intro root base inh s s' h; simp [resolveDoc] at h
  | succ fuel ih => exact resolveDocStep_dr env top _ (resolveDoc_spec env fuel) ih hinj

end RDraft
end Go
end JSV
