/-
  C14 helpers, part 1: key-permutation of JSON values, `eqv` is invariant under it; loops of the evaluator over
  schema-side maps do not depend on the iteration order.
-/
import JSV.Proofs.InvRepr
namespace JSV
namespace Inv
open Go GoVal

/-! ## `All₂` -/

theorem All₂.mem_left {α β : Type} {R : α → β → Prop} : ∀ {xs : List α} {ys : List β}, All₂ R xs ys →
    ∀ a, a ∈ xs → ∃ b, b ∈ ys ∧ R a b
  | [], [], _, a, ha => by simp at ha
  | x :: xs, y :: ys, h, a, ha => by
    rcases List.mem_cons.1 ha with rfl | ha
    · exact ⟨y, List.mem_cons_self, h.1⟩
    · obtain ⟨b, hb, hr⟩ := All₂.mem_left (xs := xs) (ys := ys) h.2 a ha
      exact ⟨b, List.mem_cons_of_mem _ hb, hr⟩
  | [], _ :: _, h, _, _ => h.elim
  | _ :: _, [], h, _, _ => h.elim

theorem All₂.mem_right {α β : Type} {R : α → β → Prop} : ∀ {xs : List α} {ys : List β}, All₂ R xs ys →
    ∀ b, b ∈ ys → ∃ a, a ∈ xs ∧ R a b
  | [], [], _, b, hb => by simp at hb
  | x :: xs, y :: ys, h, b, hb => by
    rcases List.mem_cons.1 hb with rfl | hb
    · exact ⟨x, List.mem_cons_self, h.1⟩
    · obtain ⟨a, ha, hr⟩ := All₂.mem_right (xs := xs) (ys := ys) h.2 b hb
      exact ⟨a, List.mem_cons_of_mem _ ha, hr⟩
  | [], _ :: _, h, _, _ => h.elim
  | _ :: _, [], h, _, _ => h.elim

theorem All₂.imp {α β : Type} {R S : α → β → Prop} : ∀ {xs : List α} {ys : List β},
    (∀ a b, a ∈ xs → b ∈ ys → R a b → S a b) → All₂ R xs ys → All₂ S xs ys
  | [], [], _, _ => trivial
  | x :: _, y :: _, hi, h =>
    ⟨hi x y List.mem_cons_self List.mem_cons_self h.1,
     All₂.imp (fun a b ha hb => hi a b (List.mem_cons_of_mem _ ha) (List.mem_cons_of_mem _ hb)) h.2⟩
  | [], _ :: _, _, h => h.elim
  | _ :: _, [], _, h => h.elim

theorem All₂.flip {α β : Type} {R : α → β → Prop} : ∀ {xs : List α} {ys : List β}, All₂ R xs ys →
    All₂ (fun b a => R a b) ys xs
  | [], [], _ => trivial
  | _ :: _, _ :: _, h => ⟨h.1, All₂.flip h.2⟩
  | [], _ :: _, h => h.elim
  | _ :: _, [], h => h.elim

theorem All₂.refl {α : Type} {R : α → α → Prop} : ∀ {xs : List α}, (∀ a, a ∈ xs → R a a) → All₂ R xs xs
  | [], _ => trivial
  | x :: _, h => ⟨h x List.mem_cons_self, All₂.refl fun a ha => h a (List.mem_cons_of_mem _ ha)⟩

theorem All₂.map {α β γ δ : Type} {R : α → β → Prop} {S : γ → δ → Prop} (f : α → γ) (g : β → δ) :
    ∀ {xs : List α} {ys : List β}, (∀ a b, R a b → S (f a) (g b)) → All₂ R xs ys → All₂ S (xs.map f) (ys.map g)
  | [], [], _, _ => trivial
  | _ :: _, _ :: _, hi, h => ⟨hi _ _ h.1, All₂.map f g hi h.2⟩
  | [], _ :: _, _, h => h.elim
  | _ :: _, [], _, h => h.elim

theorem All₂.append {α β : Type} {R : α → β → Prop} : ∀ {xs : List α} {ys : List β} {xs' : List α} {ys' : List β},
    All₂ R xs ys → All₂ R xs' ys' → All₂ R (xs ++ xs') (ys ++ ys')
  | [], [], _, _, _, h' => h'
  | _ :: _, _ :: _, _, _, h, h' => ⟨h.1, All₂.append h.2 h'⟩
  | [], _ :: _, _, _, h, _ => h.elim
  | _ :: _, [], _, _, h, _ => h.elim

theorem All₂.eq_of_eq {α : Type} : ∀ {xs ys : List α}, All₂ (· = ·) xs ys → xs = ys
  | [], [], _ => rfl
  | _ :: _, _ :: _, h => by rw [h.1, All₂.eq_of_eq h.2]
  | [], _ :: _, h => h.elim
  | _ :: _, [], h => h.elim

/-! ## key permutation of JSON values -/

mutual
  /-- the same JSON value up to the order of object members, at every depth: arrays element-wise, objects as
      an entry-wise related list (`permEntries`) followed by a permutation -/
  def permJson : Json → Json → Prop
    | .null, .null => True
    | .bool a, .bool b => a = b
    | .num a, .num b => a = b
    | .str a, .str b => a = b
    | .arr xs, .arr ys => permList xs ys
    | .obj k1, .obj k2 => ∃ k', permEntries k1 k' ∧ k'.Perm k2
    | _, _ => False
  def permList : List Json → List Json → Prop
    | [], [] => True
    | x :: xs, y :: ys => permJson x y ∧ permList xs ys
    | _, _ => False
  def permEntries : List (String × Json) → List (String × Json) → Prop
    | [], [] => True
    | (k, v) :: r1, (k', w) :: r2 => k = k' ∧ permJson v w ∧ permEntries r1 r2
    | _, _ => False
end

/-- same key, values equal up to key order -/
def EntryRel (p q : String × Json) : Prop := p.1 = q.1 ∧ permJson p.2 q.2

theorem permList_iff : ∀ {xs ys : List Json}, permList xs ys ↔ All₂ permJson xs ys
  | [], [] => by simp [permList, All₂]
  | x :: xs, y :: ys => by simp only [permList, All₂, permList_iff (xs := xs) (ys := ys)]
  | [], _ :: _ => by simp [permList, All₂]
  | _ :: _, [] => by simp [permList, All₂]

theorem permEntries_iff : ∀ {k1 k2 : List (String × Json)}, permEntries k1 k2 ↔ All₂ EntryRel k1 k2
  | [], [] => by simp [permEntries, All₂]
  | (k, v) :: r1, (k', w) :: r2 => by
    simp only [permEntries, All₂, EntryRel, permEntries_iff (k1 := r1) (k2 := r2), and_assoc]
  | [], _ :: _ => by simp [permEntries, All₂]
  | _ :: _, [] => by simp [permEntries, All₂]

theorem permJson_arr {xs ys : List Json} : permJson (.arr xs) (.arr ys) ↔ All₂ permJson xs ys := by
  simp only [permJson, permList_iff]

theorem permJson_obj {k1 k2 : List (String × Json)} :
    permJson (.obj k1) (.obj k2) ↔ ∃ k', All₂ EntryRel k1 k' ∧ k'.Perm k2 := by
  simp only [permJson, permEntries_iff]

theorem keys_of_entryRel : ∀ {k1 k2 : List (String × Json)}, All₂ EntryRel k1 k2 → Json.keys k1 = Json.keys k2
  | [], [], _ => rfl
  | p :: r1, q :: r2, h => by
    simp only [Json.keys, List.map_cons]
    rw [h.1.1]
    congr 1
    exact keys_of_entryRel h.2
  | [], _ :: _, h => h.elim
  | _ :: _, [], h => h.elim

theorem permJson_refl : ∀ j : Json, permJson j j := by
  intro j
  induction j using Json.induct with
  | null => simp [permJson]
  | bool b => simp [permJson]
  | num q => simp [permJson]
  | str s => simp [permJson]
  | arr xs ih => exact permJson_arr.2 (All₂.refl ih)
  | obj kvs ih =>
    exact permJson_obj.2 ⟨kvs, All₂.refl (fun p hp => ⟨rfl, ih p.1 p.2 hp⟩), List.Perm.refl _⟩

/-- a pure reordering of the members of an object -/
theorem permJson_of_perm {k1 k2 : List (String × Json)} (h : k1.Perm k2) : permJson (.obj k1) (.obj k2) :=
  permJson_obj.2 ⟨k1, All₂.refl (fun p _ => ⟨rfl, permJson_refl p.2⟩), h⟩

/-! ## well-formedness is preserved -/

theorem wfList_iff {xs : List Json} : Json.wfList xs = true ↔ ∀ x, x ∈ xs → Json.WF x = true := by
  induction xs with
  | nil => simp [Json.wfList]
  | cons x xs ih => simp [Json.wfList, ih]

theorem wfObj_iff {kvs : List (String × Json)} : Json.wfObj kvs = true ↔ ∀ p, p ∈ kvs → Json.WF p.2 = true := by
  induction kvs with
  | nil => simp [Json.wfObj]
  | cons p kvs ih =>
    obtain ⟨k, v⟩ := p
    simp [Json.wfObj, ih]

theorem WF_obj_iff {kvs : List (String × Json)} :
    Json.WF (.obj kvs) = true ↔ (Json.keys kvs).Nodup ∧ ∀ p, p ∈ kvs → Json.WF p.2 = true := by
  simp only [Json.WF, Bool.and_eq_true, Json.nodupKeys_iff, wfObj_iff]

theorem WF_arr_iff {xs : List Json} : Json.WF (.arr xs) = true ↔ ∀ x, x ∈ xs → Json.WF x = true := by
  simp only [Json.WF, wfList_iff]

theorem permJson_WF : ∀ (a b : Json), permJson a b → Json.WF a = true → Json.WF b = true := by
  intro a
  induction a using Json.induct with
  | null => intro b h _; cases b <;> simp_all [permJson, Json.WF]
  | bool _ => intro b h _; cases b <;> simp_all [permJson, Json.WF]
  | num _ => intro b h _; cases b <;> simp_all [permJson, Json.WF]
  | str _ => intro b h _; cases b <;> simp_all [permJson, Json.WF]
  | arr xs ih =>
    intro b h hw
    cases b with
    | arr ys =>
      rw [permJson_arr] at h
      rw [WF_arr_iff] at hw ⊢
      intro y hy
      obtain ⟨x, hx, hr⟩ := h.mem_right y hy
      exact ih x hx y hr (hw x hx)
    | _ => simp [permJson] at h
  | obj k1 ih =>
    intro b h hw
    cases b with
    | obj k2 =>
      obtain ⟨k', h1, h2⟩ := permJson_obj.1 h
      rw [WF_obj_iff] at hw ⊢
      constructor
      · have : (Json.keys k').Perm (Json.keys k2) := h2.map _
        rw [← keys_of_entryRel h1] at this
        exact this.nodup_iff.1 hw.1
      · intro q hq
        have hq' : q ∈ k' := h2.mem_iff.2 hq
        obtain ⟨p, hp, hr⟩ := h1.mem_right q hq'
        exact ih p.1 p.2 hp q.2 hr.2 (hw.2 p hp)
    | _ => simp [permJson] at h

/-! ## `eqv` does not see the order of members -/

theorem eqvList_of_all₂ : ∀ {xs ys : List Json}, All₂ (fun x y => Json.eqv x y = true) xs ys → Json.eqvList xs ys = true
  | [], [], _ => rfl
  | _ :: _, _ :: _, h => by simp only [Json.eqvList, Bool.and_eq_true]; exact ⟨h.1, eqvList_of_all₂ h.2⟩
  | [], _ :: _, h => h.elim
  | _ :: _, [], h => h.elim

/-- values equal up to key order are equal JSON values -/
theorem eqv_perm : ∀ (a b : Json), permJson a b → Json.WF a = true → Json.WF b = true → Json.eqv a b = true := by
  intro a
  induction a using Json.induct with
  | null => intro b h _ _; cases b <;> simp_all [permJson, Json.eqv]
  | bool _ => intro b h _ _; cases b <;> simp_all [permJson, Json.eqv]
  | num _ => intro b h _ _; cases b <;> simp_all [permJson, Json.eqv]
  | str _ => intro b h _ _; cases b <;> simp_all [permJson, Json.eqv]
  | arr xs ih =>
    intro b h ha hb
    cases b with
    | arr ys =>
      rw [permJson_arr] at h
      rw [WF_arr_iff] at ha hb
      simp only [Json.eqv]
      apply eqvList_of_all₂
      exact All₂.imp (fun x y hx hy hr => ih x hx y hr (ha x hx) (hb y hy)) h
    | _ => simp [permJson] at h
  | obj k1 ih =>
    intro b h ha hb
    cases b with
    | obj k2 =>
      obtain ⟨k', h1, h2⟩ := permJson_obj.1 h
      rw [WF_obj_iff] at ha hb
      simp only [Json.eqv, Bool.and_eq_true, beq_iff_eq]
      constructor
      · rw [h1.length, h2.length_eq]
      · rw [Json.eqvObj_iff]
        intro k v hm
        obtain ⟨q, hq, hr⟩ := h1.mem_left (k, v) hm
        have hq2 : q ∈ k2 := h2.mem_iff.1 hq
        have hk : q.1 = k := hr.1.symm
        refine ⟨q.2, ?_, ih k v hm q.2 hr.2 (ha.2 (k, v) hm) (hb.2 q hq2)⟩
        apply Json.lookup_of_mem_nodup hb.1
        rw [← hk]; exact hq2
    | _ => simp [permJson] at h

end Inv
end JSV
