/-
  Helper lemmas for C10 (fourth part): `Schema.Resolve` does not run out of fuel when the fuel exceeds the number of
  entries of the loader table.

  * resolveURIs walks the tree checkStructure accepted: every schema is met once, so the `st.size + 2` steps the
    entry point supplies suffice (counting argument: after checkStructure, `root :: all children lists` has the
    same element counts as the list of registered schemas, which has no duplicates);
  * resolver.resolve enters `r.loaded[baseURI]` before it follows references: every recursive call is for a URI of
    the loader table that is not yet cached, and caches it; the measure is the number of table entries whose URI is
    not cached.
-/
import JSV.Proofs.ResBase
namespace JSV
namespace Go
namespace RTot
open RInv
open Uri

theorem bind_ne_fuel {α β} {x : Res α} {f : α → Res β} (hx : x ≠ .fuel) (hf : ∀ a, x = .ok a → f a ≠ .fuel) :
    Res.bind x f ≠ .fuel := by
  cases x with
  | ok a => simp only [Res.bind_ok]; exact hf a rfl
  | err => simp
  | panic => simp
  | fuel => exact absurd rfl hx

/-! ### the children lists of a checked document: every schema occurs once -/

def kidsOf (st : Store) (id : NodeId) : List NodeId :=
  match st.get? id with
  | some n => n.children
  | none => []

theorem count_insertSorted (v : NodeId) (e : String × NodeId) (l : List (String × NodeId)) :
    List.count v ((insertSorted e l).map (·.2)) = List.count v ((e :: l).map (·.2)) := by
  induction l with
  | nil => rfl
  | cons y r ih =>
    unfold insertSorted
    split
    · rfl
    · simp only [List.map_cons, List.count_cons] at ih ⊢
      omega

theorem count_sortByKey (v : NodeId) (l : List (String × NodeId)) :
    List.count v ((sortByKey l).map (·.2)) = List.count v (l.map (·.2)) := by
  induction l with
  | nil => rfl
  | cons y r ih =>
    have : sortByKey (y :: r) = insertSorted y (sortByKey r) := rfl
    rw [this, count_insertSorted]
    simp only [List.map_cons, List.count_cons, ih]

theorem zipIdx_map_fst (g : NodeId → Nat → String) : ∀ (l : List NodeId) (k : Nat),
    ((l.zipIdx k).map fun p => (p.1, g p.1 p.2)).map (·.1) = l := by
  intro l
  induction l with
  | nil => intro k; rfl
  | cons x r ih => intro k; rw [List.zipIdx_cons, List.map_cons, List.map_cons, ih]

theorem keyed_map_fst (g : String → NodeId → String) (l : List (String × NodeId)) :
    ((l.map fun p => (p.2, g p.1 p.2)).map (·.1)) = l.map (·.2) := by
  induction l with
  | nil => rfl
  | cons x r ih => rw [List.map_cons, List.map_cons, List.map_cons, ih]

/-- `children` (maps by sorted key) and the entries checkStructure pushes list the same schemas -/
theorem count_childEntries (n : Node) (path : String) (v : NodeId) :
    List.count v ((childEntries n path).map (·.1)) = List.count v n.children := by
  unfold childEntries Node.children
  generalize n.childFields = fs
  induction fs with
  | nil => rfl
  | cons f fs ih =>
    rw [List.flatMap_cons, List.flatMap_cons, List.map_append, List.count_append, List.count_append, ih]
    congr 1
    cases f with
    | one j c =>
      cases c with
      | none => rfl
      | some c => rfl
    | many j cs =>
      simp only []
      exact congrArg _ (zipIdx_map_fst (fun _ i => path ++ "/" ++ j ++ "/" ++ toString i) (cs.getD []) 0)
    | keyed j cs =>
      simp only []
      rw [count_sortByKey]
      exact congrArg _ (keyed_map_fst (fun k _ => path ++ "/" ++ j ++ "/" ++ Pointer.escapeSegment k) (cs.getD []))

/-- the counting invariant of checkStructure: registered ++ pending = root ++ children of the registered -/
theorem checkStructure_count (st : Store) (root : NodeId) : ∀ fuel work acc res,
    checkStructure st fuel work acc = .ok res →
    (∀ v, List.count v (ids acc ++ work.map (·.1)) = List.count v (root :: (ids acc).flatMap (kidsOf st))) →
    ∀ v, List.count v (ids res) = List.count v (root :: (ids res).flatMap (kidsOf st)) := by
  intro fuel
  induction fuel with
  | zero => intro work acc res h; simp [checkStructure] at h
  | succ fuel ih =>
    intro work acc res h hinv
    cases work with
    | nil =>
      simp [checkStructure] at h; subst h
      intro v
      have := hinv v
      simpa using this
    | cons w work =>
      obtain ⟨id, path⟩ := w
      rw [checkStructure] at h
      split at h
      · simp at h
      · rename_i n hn
        split at h
        · simp at h
        · apply ih _ _ _ h
          intro v
          have h1 := hinv v
          have h2 := count_childEntries n path v
          have h3 : kidsOf st id = n.children := by unfold kidsOf; rw [hn]
          simp only [ids, List.map_append, List.map_cons, List.map_nil, List.count_append, List.count_cons,
            List.count_nil, List.flatMap_append, List.flatMap_cons, List.flatMap_nil, List.append_nil, h3]
            at h1 h2 ⊢
          omega

theorem count_flatMap_erase (v : NodeId) (f : NodeId → List NodeId) (a : NodeId) :
    ∀ l : List NodeId, a ∈ l →
      List.count v (l.flatMap f) = List.count v (f a) + List.count v ((l.erase a).flatMap f) := by
  intro l
  induction l with
  | nil => intro h; cases h
  | cons x r ih =>
    intro h
    by_cases hx : x = a
    · subst hx
      rw [List.erase_cons_head, List.flatMap_cons, List.count_append]
    · have hr : a ∈ r := by
        rcases List.mem_cons.mp h with h | h
        · exact absurd h.symm hx
        · exact h
      rw [List.erase_cons_tail (by simpa using hx), List.flatMap_cons, List.flatMap_cons, List.count_append,
        List.count_append, ih hr]
      omega

theorem count_flatMap_le (v : NodeId) (f : NodeId → List NodeId) :
    ∀ vis l : List NodeId, vis.Nodup → (∀ x ∈ vis, x ∈ l) →
      List.count v (vis.flatMap f) ≤ List.count v (l.flatMap f) := by
  intro vis
  induction vis with
  | nil => intro l _ _; simp
  | cons a t ih =>
    intro l hnd hsub
    have ha : a ∈ l := hsub a (by simp)
    rw [count_flatMap_erase v f a l ha, List.flatMap_cons, List.count_append]
    have hnd' := List.nodup_cons.mp hnd
    have := ih (l.erase a) hnd'.2 (fun x hx => by
      have hne : x ≠ a := fun e => hnd'.1 (e ▸ hx)
      exact (List.mem_erase_of_ne hne).mpr (hsub x (List.mem_cons_of_mem _ hx)))
    omega

/-! ### resolveURIs -/

theorem uriStep_ne_fuel (draft : Draft) (root : NodeId) (s : RState) (id base : NodeId) (n : Node) (bi : Info) :
    uriStep draft root s id base n bi ≠ .fuel := by
  unfold uriStep
  simp only []
  split
  · refine bind_ne_fuel (parse_NoPF _).2 fun idURI _ => ?_
    repeat' split
    all_goals simp
  · simp

theorem resolveURIsLoop_ne_fuel (env : Env) (draft : Draft) (root : NodeId) (V : List NodeId)
    (hclosed : ∀ id ∈ V, ∀ n, env.st.get? id = some n → ∀ c ∈ n.children, c ∈ V)
    (hT : ∀ v, List.count v (root :: V.flatMap (kidsOf env.st)) ≤ 1) :
    ∀ fuel work s visited, (∀ w ∈ work, w.1 ∈ V) → visited.Nodup → (∀ x ∈ visited, x ∈ V) →
      (∀ v, List.count v (work.map (·.1) ++ visited) = List.count v (root :: visited.flatMap (kidsOf env.st))) →
      V.length + 1 ≤ visited.length + fuel → resolveURIsLoop env draft root fuel work s ≠ .fuel := by
  intro fuel
  induction fuel with
  | zero =>
    intro work s visited _ hnd hsub _ hle
    have := hnd.length_le_of_subset (fun x hx => hsub x hx)
    omega
  | succ fuel ih =>
    intro work s visited hw hnd hsub hcnt hle
    cases work with
    | nil => rw [resolveURIsLoop]; simp
    | cons w work =>
      obtain ⟨id, base⟩ := w
      have hidV : id ∈ V := hw (id, base) (by simp)
      cases hn : env.st.get? id with
      | none => rw [resolveURIsLoop, hn]; simp
      | some n =>
      cases hi : lookupNat id s.infos with
      | none => rw [resolveURIsLoop, hn, hi]; simp
      | some i =>
      cases hb : lookupNat base s.infos with
      | none => rw [resolveURIsLoop, hn, hi, hb]; simp
      | some bi =>
      rw [resolveURIsLoop_cons env draft root fuel id base work s n i bi hn hi hb]
      refine bind_ne_fuel (uriStep_ne_fuel _ _ _ _ _ _ _) fun p _ => ?_
      -- `id` was not visited before
      have hle1 : ∀ v, List.count v ((id :: work.map (·.1)) ++ visited) ≤ 1 := by
        intro v
        have h1 := hcnt v
        have h2 := count_flatMap_le v (kidsOf env.st) visited V hnd hsub
        have h3 := hT v
        simp only [List.map_cons, List.count_cons] at h1 h3 ⊢
        omega
      have hnot : id ∉ visited := by
        intro hm
        have h1 := hle1 id
        have h2 : 0 < List.count id visited := List.count_pos_iff.mpr hm
        simp only [List.cons_append, List.count_cons, List.count_append, beq_self_eq_true, if_true] at h1
        omega
      have hk : kidsOf env.st id = n.children := by unfold kidsOf; rw [hn]
      apply ih _ _ (id :: visited)
      · intro w hw'
        rcases List.mem_append.mp hw' with hw' | hw'
        · obtain ⟨c, hc, e⟩ := List.mem_map.mp hw'
          rw [← e]; exact hclosed id hidV n hn c hc
        · exact hw w (List.mem_cons_of_mem _ hw')
      · exact List.nodup_cons.mpr ⟨hnot, hnd⟩
      · intro x hx
        rcases List.mem_cons.mp hx with hx | hx
        · rw [hx]; exact hidV
        · exact hsub x hx
      · intro v
        have h1 := hcnt v
        rw [List.map_append, map_fst_pair]
        simp only [List.map_cons, List.cons_append, List.count_cons, List.count_append, List.flatMap_cons, hk]
          at h1 ⊢
        omega
      · simp only [List.length_cons]; omega

/-! ### the measure: table entries whose URI is not cached -/

def tblKeys (env : Env) : List String := (env.loader.getD []).map (·.1)

def missing (env : Env) (loaded : List (String × NodeId)) : Nat :=
  ((tblKeys env).filter fun k => (Json.lookup k loaded).isNone).length

/-- the same, not counting `key` -/
def missingBut (env : Env) (loaded : List (String × NodeId)) (key : String) : Nat :=
  ((tblKeys env).filter fun k => k != key && (Json.lookup k loaded).isNone).length

theorem filter_length_mono {α} (p q : α → Bool) : ∀ l : List α, (∀ x ∈ l, p x = true → q x = true) →
    (l.filter p).length ≤ (l.filter q).length := by
  intro l
  induction l with
  | nil => intro _; simp
  | cons x r ih =>
    intro h
    have ihr := ih (fun y hy => h y (List.mem_cons_of_mem _ hy))
    have hx := h x (by simp)
    rw [List.filter_cons, List.filter_cons]
    cases hp : p x with
    | true =>
      rw [hx hp]
      simp only [if_true, List.length_cons]
      omega
    | false =>
      simp only [Bool.false_eq_true, if_false]
      split
      · simp only [List.length_cons]; omega
      · exact ihr

theorem filter_length_lt {α} (p q : α → Bool) : ∀ l : List α, (∀ x ∈ l, p x = true → q x = true) →
    (∃ k ∈ l, q k = true ∧ p k = false) → (l.filter p).length < (l.filter q).length := by
  intro l
  induction l with
  | nil => intro _ ⟨k, hk, _⟩; cases hk
  | cons x r ih =>
    intro h ⟨k, hk, hqk, hpk⟩
    have hr : ∀ y ∈ r, p y = true → q y = true := fun y hy => h y (List.mem_cons_of_mem _ hy)
    have hmono := filter_length_mono p q r hr
    rw [List.filter_cons, List.filter_cons]
    rcases List.mem_cons.mp hk with e | hk'
    · subst e
      rw [hqk, hpk]
      simp only [Bool.false_eq_true, if_false, if_true, List.length_cons]
      omega
    · have ihr := ih hr ⟨k, hk', hqk, hpk⟩
      have hx := h x (by simp)
      cases hp : p x with
      | true =>
        rw [hx hp]
        simp only [if_true, List.length_cons]
        omega
      | false =>
        simp only [Bool.false_eq_true, if_false]
        split
        · simp only [List.length_cons]; omega
        · exact ihr

theorem isNone_of_isSome_imp {α β} {a : Option α} {b : Option β} (h : a.isSome = true → b.isSome = true)
    (hb : b.isNone = true) : a.isNone = true := by
  cases a with
  | none => rfl
  | some x =>
    have := h rfl
    cases b with
    | none => cases this
    | some y => cases hb

theorem missing_mono (env : Env) (a b : List (String × NodeId))
    (h : ∀ k, (Json.lookup k a).isSome = true → (Json.lookup k b).isSome = true) :
    missing env b ≤ missing env a :=
  filter_length_mono _ _ _ (fun k _ hk => isNone_of_isSome_imp (h k) hk)

theorem missingBut_lt (env : Env) (loaded : List (String × NodeId)) (key : String)
    (hk : key ∈ tblKeys env) (hn : Json.lookup key loaded = none) :
    missingBut env loaded key < missing env loaded := by
  apply filter_length_lt
  · intro x _ hx
    simp only [Bool.and_eq_true] at hx
    exact hx.2
  · refine ⟨key, hk, by rw [hn]; rfl, by simp⟩

/-- the update of `r.loaded` in resolver.resolve -/
theorem missing_after (env : Env) (l : List (String × NodeId)) (a b : String) (r : NodeId) :
    missing env (l.filter (fun e => e.1 != a && e.1 != b) ++ [(a, r), (b, r)]) ≤ missingBut env l a := by
  apply filter_length_mono
  intro k _ hk
  obtain ⟨h1, h2⟩ := loaded_update l a b r
  simp only [Bool.and_eq_true, bne_iff_ne, ne_eq]
  constructor
  · intro e
    subst e
    rw [Option.isNone_iff_eq_none] at hk
    rw [hk] at h1; cases h1
  · exact isNone_of_isSome_imp (h2 k) hk

theorem missingBut_le (env : Env) (loaded : List (String × NodeId)) (key : String) :
    missingBut env loaded key ≤ (env.loader.getD []).length := by
  unfold missingBut tblKeys
  have := List.length_filter_le (fun k => k != key && (Json.lookup k loaded).isNone) ((env.loader.getD []).map (·.1))
  rw [List.length_map] at this
  exact this

/-! ### resolveRef / resolveRefs / resolver.resolve -/

/-- the callback does not run out of fuel when it is entered for an uncached URI of the table and at most `m` table
    entries are uncached -/
def RecNF (env : Env) (m : Nat) (recDoc : ResolveDoc) : Prop :=
  ∀ root base draft s, Uri.toString base ∈ tblKeys env → Json.lookup (Uri.toString base) s.loaded = none →
    missing env s.loaded ≤ m → recDoc root base draft s ≠ .fuel

theorem resolveRef_nf (env : Env) (m : Nat) (recDoc : ResolveDoc) (hrecF : RecNF env m recDoc)
    (root : NodeId) (s : RState) (id : NodeId) (ref : String) (hm : missing env s.loaded ≤ m) :
    resolveRef env recDoc root s id ref ≠ .fuel := by
  unfold resolveRef
  refine bind_ne_fuel (parse_NoPF ref).2 fun refURI0 _ => ?_
  split
  · simp
  split
  · simp
  split
  · simp
  split
  · simp only []
    refine bind_ne_fuel ?_ fun p _ => ?_
    · split
      · simp
      · split
        · simp
        · rename_i hnone
          split
          · simp
          · rename_i tbl htbl
            split
            · simp
            · simp
            · simp
            · rename_i lroot hlk
              refine bind_ne_fuel ?_ fun _ _ => by simp
              apply hrecF
              · unfold tblKeys
                rw [htbl]
                exact List.mem_map.mpr ⟨_, lookup_mem _ _ _ hlk, rfl⟩
              · exact hnone
              · exact hm
    · obtain ⟨referenced, s1⟩ := p
      simp only []
      split
      · repeat' split
        all_goals simp
      · exact bind_ne_fuel (C10.dereference_NoPF _ _ _ _ _).2 fun _ _ => by simp
  · simp

theorem resolveRefsLoop_nf (env : Env) (m : Nat) (recDoc : ResolveDoc) (hrecS : RecSpec env recDoc)
    (hrecF : RecNF env m recDoc) (root : NodeId) :
    ∀ ids s, missing env s.loaded ≤ m → resolveRefsLoop env recDoc root ids s ≠ .fuel := by
  intro ids
  induction ids with
  | nil => intro s _; rw [resolveRefsLoop]; simp
  | cons id rest ih =>
    intro s hm
    rw [resolveRefsLoop]
    split
    · simp
    · rename_i n hn
      simp only []
      have step : ∀ (s0 : RState) (ref : String) (f : RefOut → Info → Info), missing env s0.loaded ≤ m →
          (Res.bind (resolveRef env recDoc root s0 id ref) fun (p : RefOut × RState) =>
            Res.ok (p.2.updInfo id (f p.1))) ≠ .fuel ∧
          ∀ s1, (Res.bind (resolveRef env recDoc root s0 id ref) fun (p : RefOut × RState) =>
            Res.ok (p.2.updInfo id (f p.1))) = .ok s1 → missing env s1.loaded ≤ m := by
        intro s0 ref f hm0
        constructor
        · exact bind_ne_fuel (resolveRef_nf env m recDoc hrecF root s0 id ref hm0) fun _ _ => by simp
        · intro s1 h1
          rw [bind_eq_ok] at h1
          obtain ⟨⟨o, sa⟩, hr, h1⟩ := h1
          simp only [Res.ok.injEq] at h1
          obtain ⟨e, _, _⟩ := resolveRef_spec env recDoc hrecS _ _ _ _ _ _ hr
          rw [← h1, (updInfo_same _ _ _).2]
          exact Nat.le_trans (missing_mono env _ _ e.2) hm0
      refine bind_ne_fuel ?_ fun s1 h1 => ?_
      · split
        · exact (step s n.ref (fun o i => { i with resolvedRef := some o.target }) hm).1
        · simp
      have hm1 : missing env s1.loaded ≤ m := by
        split at h1
        · exact (step s n.ref (fun o i => { i with resolvedRef := some o.target }) hm).2 s1 h1
        · simp only [Res.ok.injEq] at h1; rw [← h1]; exact hm
      refine bind_ne_fuel ?_ fun s2 h2 => ?_
      · split
        · exact (step s1 n.dynamicRef
            (fun o i => { i with resolvedDynamicRef := some o.target, dynamicRefAnchor := o.dynFrag }) hm1).1
        · simp
      have hm2 : missing env s2.loaded ≤ m := by
        split at h2
        · exact (step s1 n.dynamicRef
            (fun o i => { i with resolvedDynamicRef := some o.target, dynamicRefAnchor := o.dynFrag }) hm1).2 s2 h2
        · simp only [Res.ok.injEq] at h2; rw [← h2]; exact hm1
      exact ih s2 hm2

theorem resolveDocStep_nf (env : Env) (m : Nat) (recDoc : ResolveDoc) (hrecS : RecSpec env recDoc)
    (hrecF : RecNF env m recDoc) (root : NodeId) (baseURI : Url) (inherit : Draft) (s : RState)
    (hm : missingBut env s.loaded (Uri.toString baseURI) ≤ m) :
    resolveDocStep env recDoc root baseURI inherit s ≠ .fuel := by
  unfold resolveDocStep
  split
  · simp
  split
  · simp
  simp only []
  refine bind_ne_fuel (C10.checkStructure_no_fuel_gen env.st _ _ [] ⟨List.nodup_nil, fun _ h => nomatch h⟩
    (by simp only [List.length_nil]; omega)) fun fresh hfresh => ?_
  split
  · simp
  have hacc := C10.checkStructure_accOK env.st _ _ [] fresh hfresh ⟨List.nodup_nil, fun _ h => nomatch h⟩
  have hlen : (ids fresh).length ≤ env.st.size := by
    have := C10.AccOK_length env.st fresh hacc
    simpa [ids] using this
  have hcnt := checkStructure_count env.st root _ _ _ _ hfresh (fun v => by simp [ids])
  have hT : ∀ v, List.count v (root :: (ids fresh).flatMap (kidsOf env.st)) ≤ 1 := by
    intro v
    rw [← hcnt v]
    exact List.nodup_iff_count.mp hacc.1 v
  refine bind_ne_fuel ?_ fun sB hB => ?_
  · apply resolveURIsLoop_ne_fuel env _ root (ids fresh)
      (checkStructure_closed env.st _ _ _ _ hfresh (fun _ hid => absurd hid (by simp [ids]))) hT _ _ _ []
    · intro w hw
      simp only [List.mem_singleton] at hw
      rw [hw]; exact checkStructure_root_mem env.st _ root fresh hfresh
    · exact List.nodup_nil
    · intro x hx; cases hx
    · intro v; simp
    · simp only [List.length_nil]; omega
  · obtain ⟨sameB, _⟩ := resolveURIsLoop_spec _ _ _ _ _ _ _ hB
    have hl : sB.loaded = s.loaded :=
      ((SameLL.trans (setDoc_same _ _) (updInfo_same _ _ _)).trans sameB).2
    apply resolveRefsLoop_nf env m recDoc hrecS hrecF
    show missing env (sB.loaded.filter _ ++ _) ≤ m
    rw [hl]
    exact Nat.le_trans (missing_after env s.loaded _ _ root) hm

/-- fuel `f + 1` suffices when at most `f` table entries other than the one being resolved are uncached -/
theorem resolveDoc_nf (env : Env) : ∀ f root base draft s, missingBut env s.loaded (Uri.toString base) ≤ f →
    resolveDoc env (f + 1) root base draft s ≠ .fuel := by
  intro f
  induction f with
  | zero =>
    intro root base draft s hm
    rw [resolveDoc]
    apply resolveDocStep_nf env 0 _ (resolveDoc_spec env 0) ?_ root base draft s hm
    intro r b d s' hk hn hle
    have := missingBut_lt env s'.loaded _ hk hn
    omega
  | succ f ih =>
    intro root base draft s hm
    rw [resolveDoc]
    apply resolveDocStep_nf env (f + 1) _ (resolveDoc_spec env (f + 1)) ?_ root base draft s hm
    intro r b d s' hk hn hle
    apply ih
    have := missingBut_lt env s'.loaded _ hk hn
    omega

theorem resolve_ne_fuel (env : Env) (fuel : Nat) (root : NodeId) (base : String)
    (h : (env.loader.getD []).length + 1 ≤ fuel) : resolve env fuel root base ≠ .fuel := by
  obtain ⟨f, rfl⟩ : ∃ f, fuel = f + 1 := ⟨fuel - 1, by omega⟩
  unfold resolve
  simp only []
  refine bind_ne_fuel ?_ fun b _ => ?_
  · split
    · simp
    · exact (parse_NoPF _).2
  · refine bind_ne_fuel ?_ fun s _ => ?_
    · apply resolveDoc_nf
      have := missingBut_le env ({} : RState).loaded (Uri.toString b)
      omega
    · split <;> simp

end RTot
end Go
end JSV
