/-
  Helper lemmas for C03, the converse of soundness (second part): resolveURIs.
  * it returns no error on a document whose `$id`s are well-formed (`Doc.IdsOk`), and conversely, when it
    succeeds the `$id`s are well-formed;
  * every URI recorded in an info object is a key of the document's `resolvedURIs`.
-/
import JSV.Proofs.ResComplete
namespace JSV
namespace Go
namespace RComp
open RInv Uri Spec RDraft

theorem bind_ne_err {α β} {x : Res α} {f : α → Res β} (hx : x ≠ .err) (hf : ∀ a, x = .ok a → f a ≠ .err) :
    Res.bind x f ≠ .err := by
  cases x with
  | ok a => simp only [Res.bind_ok]; exact hf a rfl
  | err => exact absurd rfl hx
  | panic => simp
  | fuel => simp

/-! ### one step, in terms of `uriStep` / `postStep` -/

theorem resolveURIsLoop_cons' (env : Env) (draft : Draft) (root : NodeId) (fuel : Nat) (id base : NodeId)
    (work : List (NodeId × NodeId)) (s : RState) (n : Node) (i bi : Info)
    (hn : env.st.get? id = some n) (hi : lookupNat id s.infos = some i) (hb : lookupNat base s.infos = some bi) :
    resolveURIsLoop env draft root (fuel + 1) ((id, base) :: work) s =
      Res.bind (uriStep draft root s id base n bi) fun p =>
        resolveURIsLoop env draft root fuel ((n.children.map fun c => (c, p.2)) ++ work)
          (postStep draft p.1 id p.2 n) := by
  rw [resolveURIsLoop, hn, hi, hb]
  rfl

/-! ### the `$id` block: when it fails, what success means -/

theorem idRead_d2020 (n : Node) : idRead .d2020 n = (n.id != "") := by
  unfold idRead
  simp

theorem idRead_d7 (n : Node) : idRead .d7 n = (n.id != "" && !(n.ref != "")) := by
  unfold idRead
  simp

theorem uriStep_ne_err (draft : Draft) (root : NodeId) (s : RState) (id base : NodeId) (n : Node) (bi : Info)
    (h1 : idSyntaxOk draft n = true)
    (h2 : startsResource draft n = true → ∀ idURI bu, Uri.parse n.id = .ok idURI → bi.uri = some bu →
      Uri.isAbs (Uri.resolveReference bu idURI) = true) :
    uriStep draft root s id base n bi ≠ .err := by
  unfold uriStep
  simp only []
  split
  · rename_i hc
    have hread : idRead draft n = true := hc
    unfold idSyntaxOk at h1
    rw [hread] at h1
    simp only [Bool.not_true, Bool.false_or] at h1
    cases hp : Uri.parse n.id with
    | ok u =>
      rw [hp] at h1
      simp only [] at h1
      simp only [Res.bind_ok]
      split
      · rename_i hf
        rw [hf] at h1; simp at h1
      · split
        · simp
        · rename_i hf2020 hf7
          split
          · simp
          · rename_i bu hbu
            have hst : startsResource draft n = true := by
              unfold startsResource
              cases draft with
              | d2020 =>
                rw [idRead_d2020] at hread
                exact hread
              | d7 =>
                rw [idRead_d7] at hread
                simp only [Bool.and_eq_true, bne_iff_ne, ne_eq, Bool.not_eq_true', bne_eq_false_iff_eq] at hread
                have hfr : u.fragment = "" := by simpa using hf7
                simp [hread.1, hread.2, idFragment_of_parse _ _ hp, hfr]
            rw [h2 hst u bu hp hbu]
            simp
    | err => rw [hp] at h1; simp at h1
    | panic => rw [hp] at h1; simp at h1
    | fuel => rw [hp] at h1; simp at h1
  · simp

theorem uriStep_ok_checks (draft : Draft) (root : NodeId) (s : RState) (id base : NodeId) (n : Node) (bi : Info)
    (s1 : RState) (base1 : NodeId) (h : uriStep draft root s id base n bi = .ok (s1, base1)) :
    idSyntaxOk draft n = true ∧
    (startsResource draft n = true → ∃ idURI bu, Uri.parse n.id = .ok idURI ∧ bi.uri = some bu ∧
      Uri.isAbs (Uri.resolveReference bu idURI) = true) := by
  unfold uriStep at h
  simp only [] at h
  split at h
  · rename_i hc
    have hread : idRead draft n = true := hc
    rw [bind_eq_ok] at h
    obtain ⟨u, hp, h⟩ := h
    unfold idSyntaxOk
    rw [hread, hp]
    split at h
    · simp at h
    · rename_i hf2020
      refine ⟨by
        cases hh : (draft == Draft.d2020 && u.fragment != "") with
        | false => simp only [hh]; rfl
        | true => exact absurd hh hf2020, ?_⟩
      split at h
      · rename_i hf7
        intro hst
        exfalso
        have hd : draft = .d7 ∧ u.fragment ≠ "" := by simpa using hf7
        rw [hd.1] at hst
        unfold startsResource at hst
        simp only [Bool.and_eq_true, beq_iff_eq] at hst
        rw [idFragment_of_parse _ _ hp] at hst
        exact hd.2 hst.2
      · split at h
        · simp at h
        · rename_i bu hbu
          split at h
          · simp at h
          · rename_i habs
            intro _
            exact ⟨u, bu, rfl, hbu, by simpa using habs⟩
  · rename_i hc
    have hread : idRead draft n = false := by
      cases hh : idRead draft n with
      | false => rfl
      | true => exact absurd hh hc
    refine ⟨by unfold idSyntaxOk; rw [hread]; rfl, ?_⟩
    intro hst
    exfalso
    cases draft with
    | d2020 =>
      rw [idRead_d2020] at hread
      unfold startsResource at hst
      rw [hread] at hst
      simp at hst
    | d7 =>
      rw [idRead_d7] at hread
      unfold startsResource at hst
      simp only [Bool.and_eq_true, bne_iff_ne, ne_eq, beq_iff_eq] at hst
      simp [hst.1.1, hst.1.2] at hread

/-! ### the worklist invariant -/

/-- one schema of resolveURIs: the invariant of the worklist after it -/
theorem step_next (D : Doc) (ret : Url) (s : RState) (id base : NodeId) (work : List (NodeId × NodeId))
    (n : Node) (bi : Info) (s1 : RState) (base1 : NodeId)
    (hn : D.st.get? id = some n) (hidS : (lookupNat id s.infos).isSome = true)
    (hbS : (lookupNat base s.infos).isSome = true)
    (hstep : uriStep D.draft D.root s id base n bi = .ok (s1, base1))
    (hr : D.ResourceRoot id (if startsResource D.draft n = true then id else base))
    (huri : startsResource D.draft n = true → ∀ bu idURI, bi.uri = some bu → Uri.parse n.id = .ok idURI →
      ∃ l, isLineage D.st D.root l id = true ∧ nearestResource D l = id ∧
        Uri.resolveReference bu idURI = baseUriAlong D ret l)
    (hU0 : startsResource D.draft n = false → UriDone D ret s.infos base)
    (hwork : ∀ w ∈ work, WorkOk D w ∧ UriDone D ret s.infos w.2) :
    ∀ w ∈ (n.children.map fun c => (c, base1)) ++ work,
      WorkOk D w ∧ UriDone D ret (postStep D.draft s1 id base1 n).infos w.2 := by
  obtain ⟨hb1, _, _, _⟩ := nodeStep_spec D s id base n bi s1 base1 hn hidS hbS hstep hr
  obtain ⟨uKeep, uNew, _, _, _⟩ := nodeStep_uri D ret s id base n bi s1 base1 hidS hstep huri
  rw [← hb1] at hr
  have uAll : ∀ r, UriDone D ret s.infos r → UriDone D ret (postStep D.draft s1 id base1 n).infos r := by
    intro r h
    by_cases hc : r ≠ id ∨ startsResource D.draft n = false
    · exact uKeep r hc h
    · have h1 : r = id := Classical.byContradiction fun e => hc (Or.inl e)
      have h2 : startsResource D.draft n = true := by
        cases h3 : startsResource D.draft n with
        | true => rfl
        | false => exact absurd (Or.inr h3) hc
      rw [h1]; exact uNew h2
  have uBase1 : UriDone D ret (postStep D.draft s1 id base1 n).infos base1 := by
    cases hs : startsResource D.draft n with
    | true =>
      have e : base1 = id := by rw [hb1, hs]; rfl
      exact (congrArg (UriDone D ret (postStep D.draft s1 id base1 n).infos) e).mpr (uNew hs)
    | false =>
      have e : base1 = base := by rw [hb1, hs]; rfl
      exact (congrArg (UriDone D ret (postStep D.draft s1 id base1 n).infos) e).mpr (uAll base (hU0 hs))
  intro w hw
  rcases List.mem_append.mp hw with hw | hw
  · obtain ⟨c, hc, rfl⟩ := List.mem_map.mp hw
    exact ⟨⟨id, hr, (isChild_iff _ _ _).mpr ⟨n, hn, hc⟩⟩, uBase1⟩
  · obtain ⟨h1, h2⟩ := hwork w hw
    exact ⟨h1, uAll _ h2⟩

/-- a worklist entry: its lineage, and what its `$id` resolves to -/
theorem workOk_lineage (D : Doc) (w : NodeId × NodeId) (hw : WorkOk D w) : ∃ l, isLineage D.st D.root l w.1 = true := by
  obtain ⟨p, ⟨lp, hlp, _⟩, hc⟩ := hw
  exact ⟨lp ++ [w.1], isLineage_snoc _ _ _ _ _ hlp hc⟩

/-- the `$id` of schema `x` is fine whichever lineage leads to it -/
def NodeIdOk (D : Doc) (ret : Url) (x : NodeId) : Prop :=
  ∀ L n, isLineage D.st D.root L x = true → D.st.get? x = some n →
    idSyntaxOk D.draft n = true ∧ (startsResource D.draft n = true → Uri.isAbs (baseUriAlong D ret L) = true)

theorem isLineage_cons_child (st : Store) (a c : NodeId) (l : List NodeId) (x : NodeId)
    (h : isLineage st a (c :: l) x = true) : isChild st a c = true ∧ isLineage st c l x = true := by
  simpa [isLineage] using h

/-! ### A. no error on well-formed `$id`s -/

theorem resolveURIsLoop_ne_err (env : Env) (D : Doc) (hst : D.st = env.st) (ret : Url) (huniq : UniqueLineage D)
    (hids : D.IdsOk ret) :
    ∀ fuel work s, (∀ w ∈ work, WorkOk D w ∧ UriDone D ret s.infos w.2) →
      resolveURIsLoop env D.draft D.root fuel work s ≠ .err := by
  intro fuel
  induction fuel with
  | zero => intro work s _; rw [resolveURIsLoop]; simp
  | succ fuel ih =>
    intro work s hwork
    cases work with
    | nil => rw [resolveURIsLoop]; simp
    | cons w work =>
      obtain ⟨id, base⟩ := w
      cases hn : env.st.get? id with
      | none => rw [resolveURIsLoop, hn]; simp
      | some n =>
      cases hi : lookupNat id s.infos with
      | none => rw [resolveURIsLoop, hn, hi]; simp
      | some i =>
      cases hb : lookupNat base s.infos with
      | none => rw [resolveURIsLoop, hn, hi, hb]; simp
      | some bi =>
      rw [resolveURIsLoop_cons' env D.draft D.root fuel id base work s n i bi hn hi hb]
      have hn' : D.st.get? id = some n := by rw [hst]; exact hn
      obtain ⟨hw0, hU0⟩ := hwork (id, base) (by simp)
      obtain ⟨l0, hl0⟩ := workOk_lineage D (id, base) hw0
      have huri := fun hs bu idURI hbu hp =>
        workOk_uri D ret huniq s.infos id base n bi hw0 hn' hb hU0 hs bu idURI hbu hp
      refine bind_ne_err ?_ fun p hp => ?_
      · apply uriStep_ne_err _ _ _ _ _ _ _ (hids l0 id n hl0 hn').1
        intro hs idURI bu hp hbu
        obtain ⟨l, hl, _, he⟩ := huri hs bu idURI hbu hp
        rw [he]
        exact (hids l id n hl hn').2 hs
      · obtain ⟨s1, base1⟩ := p
        apply ih
        exact step_next D ret s id base work n bi s1 base1 hn' (by rw [hi]; rfl) (by rw [hb]; rfl) hp
          (workOk_resourceRoot D id base n hw0 hn') huri (fun _ => hU0)
          (fun w hw => hwork w (List.mem_cons_of_mem _ hw))

/-- the facts about the first step (the root, with itself as base) -/
theorem root_step_facts (D : Doc) (ret : Url) (s : RState) (n : Node) (bi : Info)
    (hn : D.st.get? D.root = some n) (hb : lookupNat D.root s.infos = some bi) (huri : bi.uri = some ret) :
    D.ResourceRoot D.root (if startsResource D.draft n = true then D.root else D.root) ∧
    (startsResource D.draft n = true → ∀ bu idURI, bi.uri = some bu → Uri.parse n.id = .ok idURI →
      ∃ l, isLineage D.st D.root l D.root = true ∧ nearestResource D l = D.root ∧
        Uri.resolveReference bu idURI = baseUriAlong D ret l) ∧
    (startsResource D.draft n = false → UriDone D ret s.infos D.root) := by
  have hsR : startsResourceAt D.st D.draft D.root = startsResource D.draft n := by
    unfold startsResourceAt; rw [hn]
  refine ⟨by split <;> exact resourceRoot_root D, ?_, ?_⟩
  · intro hs bu idURI hbu hp
    rw [huri] at hbu
    simp only [Option.some.injEq] at hbu
    subst hbu
    refine ⟨[], by simp [isLineage], rfl, ?_⟩
    unfold baseUriAlong
    simp [hsR, hs, idUrl_of_parse _ _ _ _ hn hp]
  · intro hs
    refine ⟨bi, [], hb, by simp [isLineage], ?_⟩
    rw [huri]
    unfold baseUriAlong
    simp [hsR, hs]

/-- resolveURIs on a whole document: no error when the `$id`s are well-formed -/
theorem resolveURIs_ne_err (env : Env) (D : Doc) (hst : D.st = env.st) (ret : Url) (huniq : UniqueLineage D)
    (hids : D.IdsOk ret) (fuel : Nat) (s : RState)
    (hroot : ∃ i, lookupNat D.root s.infos = some i ∧ i.uri = some ret) :
    resolveURIsLoop env D.draft D.root fuel [(D.root, D.root)] s ≠ .err := by
  cases fuel with
  | zero => rw [resolveURIsLoop]; simp
  | succ fuel =>
    obtain ⟨bi, hb, hu⟩ := hroot
    cases hn : env.st.get? D.root with
    | none => rw [resolveURIsLoop, hn]; simp
    | some n =>
    rw [resolveURIsLoop_cons' env D.draft D.root fuel D.root D.root [] s n bi bi hn hb hb]
    have hn' : D.st.get? D.root = some n := by rw [hst]; exact hn
    obtain ⟨hr, huri, hU0⟩ := root_step_facts D ret s n bi hn' hb hu
    have hl0 : isLineage D.st D.root [] D.root = true := by simp [isLineage]
    refine bind_ne_err ?_ fun p hp => ?_
    · apply uriStep_ne_err _ _ _ _ _ _ _ (hids [] D.root n hl0 hn').1
      intro hs idURI bu hp hbu
      obtain ⟨l, hl, _, he⟩ := huri hs bu idURI hbu hp
      rw [he]
      exact (hids l D.root n hl hn').2 hs
    · obtain ⟨s1, base1⟩ := p
      apply resolveURIsLoop_ne_err env D hst ret huniq hids
      exact step_next D ret s D.root D.root [] n bi s1 base1 hn' (by rw [hb]; rfl) (by rw [hb]; rfl) hp
        hr huri hU0 (fun w hw => absurd hw (by simp))

/-! ### B. success means well-formed `$id`s -/

theorem nodeIdOk_of_step (D : Doc) (ret : Url) (huniq : UniqueLineage D) (s : RState) (id base : NodeId)
    (n : Node) (bi : Info) (s1 : RState) (base1 : NodeId) (hn : D.st.get? id = some n)
    (hstep : uriStep D.draft D.root s id base n bi = .ok (s1, base1))
    (huri : startsResource D.draft n = true → ∀ bu idURI, bi.uri = some bu → Uri.parse n.id = .ok idURI →
      ∃ l, isLineage D.st D.root l id = true ∧ nearestResource D l = id ∧
        Uri.resolveReference bu idURI = baseUriAlong D ret l) : NodeIdOk D ret id := by
  obtain ⟨c1, c2⟩ := uriStep_ok_checks _ _ _ _ _ _ _ _ _ hstep
  intro L n' hL hn'
  rw [hn] at hn'
  simp only [Option.some.injEq] at hn'
  subst hn'
  refine ⟨c1, fun hs => ?_⟩
  obtain ⟨idURI, bu, hp, hbu, habs⟩ := c2 hs
  obtain ⟨l, hl, _, he⟩ := huri hs bu idURI hbu hp
  rw [huniq L l id hL hl, ← he]
  exact habs

theorem resolveURIsLoop_ids (env : Env) (D : Doc) (hst : D.st = env.st) (ret : Url) (huniq : UniqueLineage D) :
    ∀ fuel work s s', resolveURIsLoop env D.draft D.root fuel work s = .ok s' →
      (∀ w ∈ work, WorkOk D w ∧ UriDone D ret s.infos w.2) →
      ∀ w ∈ work, ∀ l x, isLineage D.st w.1 l x = true → NodeIdOk D ret x := by
  intro fuel
  induction fuel with
  | zero => intro work s s' h; simp [resolveURIsLoop] at h
  | succ fuel ih =>
    intro work s s' h hwork
    cases work with
    | nil => intro w hw; simp at hw
    | cons w0 work =>
      obtain ⟨id, base⟩ := w0
      obtain ⟨n, i0, bi, s1, base1, hn, hi, hb, hstep, hrest⟩ := resolveURIsLoop_unfold env _ _ _ _ _ _ _ _ h
      rw [← hst] at hn
      obtain ⟨hw0, hU0⟩ := hwork (id, base) (by simp)
      have huri := fun hs bu idURI hbu hp =>
        workOk_uri D ret huniq s.infos id base n bi hw0 hn hb hU0 hs bu idURI hbu hp
      have hnext := step_next D ret s id base work n bi s1 base1 hn (by rw [hi]; rfl) (by rw [hb]; rfl) hstep
        (workOk_resourceRoot D id base n hw0 hn) huri (fun _ => hU0)
        (fun w hw => hwork w (List.mem_cons_of_mem _ hw))
      have hrec := ih _ _ _ hrest hnext
      intro w hw l x hl
      rcases List.mem_cons.mp hw with hw | hw
      · subst hw
        cases l with
        | nil =>
          simp only [isLineage, beq_iff_eq] at hl
          subst hl
          exact nodeIdOk_of_step D ret huniq s _ base n bi s1 base1 hn hstep huri
        | cons c l =>
          obtain ⟨hc, hl'⟩ := isLineage_cons_child _ _ _ _ _ hl
          obtain ⟨n', hn', hcn⟩ := (isChild_iff _ _ _).mp hc
          rw [hn] at hn'
          simp only [Option.some.injEq] at hn'
          subst hn'
          exact hrec (c, base1) (List.mem_append_left _ (List.mem_map.mpr ⟨c, hcn, rfl⟩)) l x hl'
      · exact hrec w (List.mem_append_right _ hw) l x hl

/-- resolveURIs on a whole document: when it succeeds the `$id`s are well-formed -/
theorem resolveURIs_ids (env : Env) (D : Doc) (hst : D.st = env.st) (ret : Url) (huniq : UniqueLineage D)
    (fuel : Nat) (s s' : RState)
    (hroot : ∃ i, lookupNat D.root s.infos = some i ∧ i.uri = some ret)
    (h : resolveURIsLoop env D.draft D.root fuel [(D.root, D.root)] s = .ok s') : D.IdsOk ret := by
  cases fuel with
  | zero => simp [resolveURIsLoop] at h
  | succ fuel =>
    obtain ⟨n, i0, bi, s1, base1, hn, hi, hb, hstep, hrest⟩ := resolveURIsLoop_unfold env _ _ _ _ _ _ _ _ h
    rw [← hst] at hn
    obtain ⟨ir, hir, hu⟩ := hroot
    rw [hb] at hir
    simp only [Option.some.injEq] at hir
    subst hir
    obtain ⟨hr, huri, hU0⟩ := root_step_facts D ret s n bi hn hb hu
    have hnext := step_next D ret s D.root D.root [] n bi s1 base1 hn (by rw [hi]; rfl) (by rw [hb]; rfl) hstep
      hr huri hU0 (fun w hw => absurd hw (by simp))
    have hrec := resolveURIsLoop_ids env D hst ret huniq _ _ _ _ hrest hnext
    intro l x nx hl hnx
    cases l with
    | nil =>
      simp only [isLineage, beq_iff_eq] at hl
      subst hl
      exact nodeIdOk_of_step D ret huniq s _ D.root n bi s1 base1 hn hstep huri [] nx (by simp [isLineage]) hnx
    | cons c l =>
      obtain ⟨hc, hl'⟩ := isLineage_cons_child _ _ _ _ _ hl
      obtain ⟨n', hn', hcn⟩ := (isChild_iff _ _ _).mp hc
      rw [hn] at hn'
      simp only [Option.some.injEq] at hn'
      subst hn'
      exact hrec (c, base1) (List.mem_append_left _ (List.mem_map.mpr ⟨c, hcn, rfl⟩)) l x hl' (c :: l) nx hl hnx


/-! ### every recorded URI is a key of `resolvedURIs` -/

theorem lookup_register_isSome {α} (k k' : String) (v : α) (l : List (String × α))
    (h : (Json.lookup k l).isSome = true ∨ k = k') :
    (Json.lookup k (l.filter (fun e => e.1 != k') ++ [(k', v)])).isSome = true := by
  rw [lookup_append_isSome]
  by_cases hk : k = k'
  · subst hk; simp
  · have hl := h.resolve_right hk
    have := lookup_filter_key k (fun x => x != k') l (by simpa using hk)
    rw [this, hl]; rfl

/-- the Resolved of `root` exists; the key `k0` and the URI of every info object of a schema in `P` are keys of
    its `resolvedURIs` -/
def KeysIn (P : NodeId → Prop) (root : NodeId) (k0 : String) (s : RState) : Prop :=
  ∃ d, s.doc? root = some d ∧ (Json.lookup k0 d.uris).isSome = true ∧
    ∀ id i u, P id → lookupNat id s.infos = some i → i.uri = some u →
      (Json.lookup (Uri.toString u) d.uris).isSome = true

theorem keysIn_updInfo {P : NodeId → Prop} {root : NodeId} {k0 : String} (s : RState) (k : NodeId)
    (f : Info → Info) (hf : ∀ i, (f i).uri = i.uri) (h : KeysIn P root k0 s) : KeysIn P root k0 (s.updInfo k f) := by
  obtain ⟨d, hd, h0, hall⟩ := h
  refine ⟨d, by rw [doc?_of_docs_eq (updInfo_docs _ _ _)]; exact hd, h0, ?_⟩
  intro id i u hP hi hu
  rw [updInfo_infos_lookup] at hi
  split at hi
  · cases h0' : lookupNat id s.infos with
    | none => rw [h0'] at hi; simp at hi
    | some i0 =>
      rw [h0'] at hi
      simp only [Option.map_some, Option.some.injEq] at hi
      subst hi
      rw [hf] at hu
      exact hall id i0 u hP h0' hu
  · exact hall id i u hP hi hu

theorem keysIn_setAnchor {P : NodeId → Prop} {root : NodeId} {k0 : String} (s : RState) (b t : NodeId)
    (a : String) (dyn : Bool) (h : KeysIn P root k0 s) : KeysIn P root k0 (setAnchor s b t a dyn) := by
  rw [setAnchor_eq]; split
  · exact h
  · exact keysIn_updInfo s b _ (fun i => addAnchor_uri a t dyn i) h

theorem keysIn_newUriState {P : NodeId → Prop} {root : NodeId} {k0 : String} (s : RState) (id : NodeId) (u : Url)
    (h : KeysIn P root k0 s) : KeysIn P root k0 (newUriState root s id u) := by
  obtain ⟨d, hd, h0, hall⟩ := h
  have hd1 : (s.updInfo id fun i => { i with uri := some u }).doc? root = some d := by
    rw [doc?_of_docs_eq (updInfo_docs _ _ _)]; exact hd
  have hroot : d.root = root := doc?_root _ _ _ hd
  unfold newUriState
  simp only [hd1]
  refine ⟨{ d with uris := (d.uris.filter (·.1 != Uri.toString u)) ++ [(Uri.toString u, id)] },
    by rw [doc?_setDoc]; simp only [hroot, if_true], ?_, ?_⟩
  · exact lookup_register_isSome k0 _ id d.uris (Or.inl h0)
  · intro id' i u' hP hi hu
    rw [setDoc_infos, updInfo_infos_lookup] at hi
    apply lookup_register_isSome
    split at hi
    · cases h0' : lookupNat id' s.infos with
      | none => rw [h0'] at hi; simp at hi
      | some i0 =>
        rw [h0'] at hi
        simp only [Option.map_some, Option.some.injEq] at hi
        subst hi
        simp only [Option.some.injEq] at hu
        right; rw [hu]
    · exact Or.inl (hall id' i u' hP hi hu)

theorem keysIn_postStep {P : NodeId → Prop} {root : NodeId} {k0 : String} (draft : Draft) (s : RState)
    (id base : NodeId) (n : Node) (h : KeysIn P root k0 s) : KeysIn P root k0 (postStep draft s id base n) := by
  unfold postStep
  simp only
  have h1 := keysIn_updInfo (P := P) (root := root) (k0 := k0) s id
    (fun i => { i with base := some base }) (fun _ => rfl) h
  split
  · exact keysIn_setAnchor _ _ _ _ _ (keysIn_setAnchor _ _ _ _ _ h1)
  · exact h1

theorem resolveURIsLoop_keysIn (env : Env) (draft : Draft) (root : NodeId) (P : NodeId → Prop) (k0 : String) :
    ∀ fuel work s s', resolveURIsLoop env draft root fuel work s = .ok s' → KeysIn P root k0 s →
      KeysIn P root k0 s' := by
  intro fuel
  induction fuel with
  | zero => intro work s s' h; simp [resolveURIsLoop] at h
  | succ fuel ih =>
    intro work s s' h hs
    cases work with
    | nil => simp [resolveURIsLoop] at h; subst h; exact hs
    | cons e work =>
      obtain ⟨id, base⟩ := e
      obtain ⟨n, i0, bi, s1, base1, _, _, _, hstep, hrest⟩ := resolveURIsLoop_unfold env draft root fuel id base work s s' h
      apply ih _ _ _ hrest
      apply keysIn_postStep
      rcases uriStep_shapes draft root s id base n bi s1 base1 hstep with ⟨_, rfl | ⟨a, rfl⟩⟩ | ⟨_, u, rfl⟩
      · exact hs
      · exact keysIn_setAnchor _ _ _ _ _ hs
      · exact keysIn_newUriState _ _ _ hs

theorem keysIn_frozen {P : NodeId → Prop} {root : NodeId} {k0 : String} {s s' : RState} (h : Frozen s s')
    (hs : KeysIn P root k0 s) : KeysIn P root k0 s' := by
  obtain ⟨d, hd, h0, hall⟩ := hs
  obtain ⟨d', hd', hu, _⟩ := h.doc root d hd
  refine ⟨d', hd', by rw [hu]; exact h0, ?_⟩
  intro id i' u hP hi' hu'
  obtain ⟨i, hi, _, hue, _⟩ := h.info_rev id i' hi'
  rw [hu]
  exact hall id i u hP hi (by rw [← hue]; exact hu')

/-- the state resolveURIs starts from, when the schemas in `P` have no info object yet -/
theorem keysIn_beforeURIs (env : Env) (P : NodeId → Prop) (root : NodeId) (baseURI : Url) (draft : Draft)
    (fresh : List (NodeId × Info)) (s : RState) (fuel : Nat)
    (hfresh : checkStructure env.st fuel [(root, "")] [] = .ok fresh)
    (hP : ∀ id, P id → lookupNat id s.infos = none) :
    KeysIn P root (Uri.toString baseURI) (beforeURIs root baseURI draft fresh s) := by
  have hnone : ∀ e ∈ fresh, e.2.uri = none :=
    checkStructure_forall env.st (fun i => i.uri = none) (fun _ => rfl) _ _ _ _ hfresh
      (fun _ he => absurd he (by simp))
  unfold beforeURIs
  refine ⟨{ root := root, draft := draft, uris := [(Uri.toString baseURI, root)], known := fresh.map (·.1) },
    by rw [doc?_of_docs_eq (updInfo_docs _ _ _), doc?_setDoc]; simp only [if_true], by simp, ?_⟩
  intro id i u hPid hi hu
  rw [updInfo_infos_lookup, setDoc_infos] at hi
  show (Json.lookup (Uri.toString u) [(Uri.toString baseURI, root)]).isSome = true
  have hl : lookupNat id (s.infos ++ fresh) = lookupNat id fresh := lookupNat_append_none _ _ _ (hP id hPid)
  split at hi
  · cases h0 : lookupNat id (s.infos ++ fresh) with
    | none => rw [h0] at hi; simp at hi
    | some i0 =>
      rw [h0] at hi
      simp only [Option.map_some, Option.some.injEq] at hi
      subst hi
      simp only [Option.some.injEq] at hu
      rw [hu]; simp
  · rw [hl] at hi
    have := hnone _ (lookupNat_mem _ _ _ hi)
    simp only at this
    rw [this] at hu; simp at hu

end RComp
end Go
end JSV
