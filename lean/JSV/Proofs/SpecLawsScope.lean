/-
  Algebraic laws, part 3: the dynamic scope.  An application at `s` with scope `scope` applies the subschemas of `s` with
  scope `scope ++ [s]`; the scope is consulted by `$dynamicRef` only, through `Spec.dynTarget`.  Two scopes on which
  `dynTarget` agrees give the same outcomes (`evalFuel_scope`); in particular the scope is immaterial when no schema
  resource declares a dynamic anchor, and entering a wrapper object of the same schema resource changes nothing.
-/
import JSV.Proofs.SpecLaws
namespace JSV
namespace Laws
open Go GoVal Refine _root_.JSV.Inv
set_option linter.unusedSimpArgs false

/-- the two scopes designate the same target for every dynamic anchor name -/
def ScopeEqv (env : Spec.Env) (sc sc' : List NodeId) : Prop :=
  ∀ name, Spec.dynTarget env sc name = Spec.dynTarget env sc' name

theorem ScopeEqv.refl (env : Spec.Env) (sc : List NodeId) : ScopeEqv env sc sc := fun _ => rfl

theorem ScopeEqv.symm {env : Spec.Env} {sc sc' : List NodeId} (h : ScopeEqv env sc sc') : ScopeEqv env sc' sc :=
  fun name => (h name).symm

theorem ScopeEqv.trans {env : Spec.Env} {a b c : List NodeId} (h1 : ScopeEqv env a b) (h2 : ScopeEqv env b c) :
    ScopeEqv env a c := fun name => (h1 name).trans (h2 name)

theorem dynTarget_append (env : Spec.Env) (l1 l2 : List NodeId) (name : String) :
    Spec.dynTarget env (l1 ++ l2) name = (Spec.dynTarget env l1 name).or (Spec.dynTarget env l2 name) := by
  unfold Spec.dynTarget
  rw [List.findSome?_append]

/-- entering the same schemas keeps scopes equivalent -/
theorem ScopeEqv.append {env : Spec.Env} {sc sc' : List NodeId} (h : ScopeEqv env sc sc') (l : List NodeId) :
    ScopeEqv env (sc ++ l) (sc' ++ l) := by
  intro name
  rw [dynTarget_append, dynTarget_append, h name]

theorem ScopeEqv.prepend {env : Spec.Env} {l l' : List NodeId} (h : ScopeEqv env l l') (sc : List NodeId) :
    ScopeEqv env (sc ++ l) (sc ++ l') := by
  intro name
  rw [dynTarget_append, dynTarget_append, h name]

theorem kwDynamicRef_scope (env : Spec.Env) (sub : NodeId → Json → Spec.Out) (sc sc' : List NodeId) (s : NodeId) (n : Node)
    (j : Json) (h : ScopeEqv env sc sc') :
    Spec.kwDynamicRef env sub sc s n j = Spec.kwDynamicRef env sub sc' s n j := by
  unfold Spec.kwDynamicRef
  simp only [h (env.dynName s)]

/-- one schema object: the scope matters only through `dynTarget` of the scope extended by the object -/
theorem specBody_scope (env : Spec.Env) (rec : Spec.Rec) (sc sc' : List NodeId) (s : NodeId) (j : Json) (n : Node)
    (hrec : rec (sc ++ [s]) = rec (sc' ++ [s])) (h : ScopeEqv env (sc ++ [s]) (sc' ++ [s])) :
    specBody env rec sc s j n = specBody env rec sc' s j n := by
  unfold specBody kwList
  rw [hrec, kwDynamicRef_scope env _ _ _ s _ j h]

/-- **Scope.**  Applications at `s` under two scopes that, extended by `s`, designate the same dynamic targets have the
    same outcome -/
theorem evalFuel_scope (env : Spec.Env) : ∀ (fuel : Nat) (sc sc' : List NodeId) (s : NodeId) (j : Json),
    ScopeEqv env (sc ++ [s]) (sc' ++ [s]) → Spec.evalFuel env fuel sc s j = Spec.evalFuel env fuel sc' s j
  | 0, _, _, _, _, _ => rfl
  | fuel + 1, sc, sc', s, j, h => by
    show Spec.evalStep env (Spec.evalFuel env fuel) sc s j = Spec.evalStep env (Spec.evalFuel env fuel) sc' s j
    rw [evalStep_unfold, evalStep_unfold]
    cases env.st.get? s with
    | none => rfl
    | some n =>
      apply specBody_scope env _ sc sc' s j n _ h
      funext t j'
      exact evalFuel_scope env fuel _ _ t j' (h.append [t])

/-- equivalent scopes -/
theorem evalFuel_scope_eqv (env : Spec.Env) (fuel : Nat) (sc sc' : List NodeId) (s : NodeId) (j : Json)
    (h : ScopeEqv env sc sc') : Spec.evalFuel env fuel sc s j = Spec.evalFuel env fuel sc' s j :=
  evalFuel_scope env fuel sc sc' s j (h.append [s])

/-! ## when scopes are equivalent -/

/-- no schema resource declares a dynamic anchor (no `$dynamicAnchor` in the schema): every `$dynamicRef` behaves as
    `$ref`, the scope is immaterial -/
theorem ScopeEqv_of_no_dynamic (env : Spec.Env) (h : ∀ r name, env.dynDecl r name = none) (sc sc' : List NodeId) :
    ScopeEqv env sc sc' := by
  have : ∀ l name, Spec.dynTarget env l name = none := by
    intro l name
    unfold Spec.dynTarget
    rw [List.findSome?_eq_none_iff]
    intro x _
    cases env.resource x <;> simp [h]
  intro name
  rw [this, this]

theorem findSome?_const {α β : Type} (f : α → Option β) (c : Option β) :
    ∀ (l : List α), l ≠ [] → (∀ x, x ∈ l → f x = c) → l.findSome? f = c
  | [], h, _ => absurd rfl h
  | x :: l, _, hl => by
    rw [List.findSome?_cons, hl x List.mem_cons_self]
    cases c with
    | some v => rfl
    | none =>
      by_cases hl0 : l = []
      · subst hl0; rfl
      · exact findSome?_const f none l hl0 (fun y hy => hl y (List.mem_cons_of_mem _ hy))

/-- schemas of one schema resource designate together -/
theorem dynTarget_same_resource (env : Spec.Env) (ρ : Option NodeId) (l : List NodeId) (hl0 : l ≠ [])
    (hl : ∀ x, x ∈ l → env.resource x = ρ) (name : String) :
    Spec.dynTarget env l name = ρ.bind fun r => env.dynDecl r name := by
  unfold Spec.dynTarget
  apply findSome?_const _ _ l hl0
  intro x hx
  rw [← hl x hx]
  cases env.resource x <;> rfl

/-- two non-empty runs of schemas of the same schema resource, after the same prefix -/
theorem ScopeEqv_same_resource (env : Spec.Env) (ρ : Option NodeId) (sc l l' : List NodeId) (hl : l ≠ []) (hl' : l' ≠ [])
    (h : ∀ x, x ∈ l → env.resource x = ρ) (h' : ∀ x, x ∈ l' → env.resource x = ρ) :
    ScopeEqv env (sc ++ l) (sc ++ l') := by
  apply ScopeEqv.prepend
  intro name
  rw [dynTarget_same_resource env ρ l hl h name, dynTarget_same_resource env ρ l' hl' h' name]

/-- entering a wrapper `a` and then `s` of the same schema resource is entering `s` -/
theorem evalFuel_wrapper (env : Spec.Env) (fuel : Nat) (sc : List NodeId) (a s : NodeId) (j : Json)
    (h : env.resource a = env.resource s) :
    Spec.evalFuel env fuel (sc ++ [a]) s j = Spec.evalFuel env fuel sc s j := by
  apply evalFuel_scope
  rw [List.append_assoc]
  exact ScopeEqv_same_resource env (env.resource s) sc ([a] ++ [s]) [s] (by simp) (by simp)
    (by intro x hx; simp at hx; rcases hx with rfl | rfl; exact h; rfl) (by intro x hx; simp at hx; subst hx; rfl)

/-- the same for two wrappers -/
theorem evalFuel_wrapper2 (env : Spec.Env) (fuel : Nat) (sc : List NodeId) (a b s : NodeId) (j : Json)
    (ha : env.resource a = env.resource s) (hb : env.resource b = env.resource s) :
    Spec.evalFuel env fuel (sc ++ [a] ++ [b]) s j = Spec.evalFuel env fuel sc s j := by
  apply evalFuel_scope
  rw [List.append_assoc, List.append_assoc]
  exact ScopeEqv_same_resource env (env.resource s) sc ([a] ++ ([b] ++ [s])) [s] (by simp) (by simp)
    (by intro x hx; simp at hx; rcases hx with rfl | rfl | rfl; exact ha; exact hb; rfl)
    (by intro x hx; simp at hx; subst hx; rfl)

end Laws
end JSV
