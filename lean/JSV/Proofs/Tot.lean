/-
  C10 helper file: "neither panic nor out of fuel" for the pointer walk, checkStructure, applyDefaults.
-/
import JSV.Model.Defaults
import JSV.Model.Pointer
namespace JSV
namespace C10
open JSV Go

/-- the computation returned to its caller: a value or an error; no panic, and the model did not run out of fuel -/
def NoPF {α : Type} (r : Res α) : Prop := r ≠ .panic ∧ r ≠ .fuel

theorem NoPF_ok {α} (a : α) : NoPF (.ok a : Res α) := ⟨by simp, by simp⟩
theorem NoPF_err {α} : NoPF (.err : Res α) := ⟨by simp, by simp⟩

theorem NoPF_bind {α β} {x : Res α} {f : α → Res β} (hx : NoPF x) (hf : ∀ a, x = .ok a → NoPF (f a)) :
    NoPF (Res.bind x f) := by
  cases x with
  | ok a => simpa using hf a rfl
  | err => exact NoPF_err
  | panic => exact absurd rfl hx.1
  | fuel => exact absurd rfl hx.2

theorem NoPF_iff {α} (r : Res α) : NoPF r ↔ (r = .err ∨ ∃ a, r = .ok a) := by
  cases r <;> simp [NoPF]

/-- no panic (fuel allowed) -/
def NoP {α : Type} (r : Res α) : Prop := r ≠ .panic

theorem NoP_bind {α β} {x : Res α} {f : α → Res β} (hx : NoP x) (hf : ∀ a, x = .ok a → NoP (f a)) :
    NoP (Res.bind x f) := by
  cases x with
  | ok a => simpa using hf a rfl
  | err => simp [NoP]
  | panic => exact absurd rfl hx
  | fuel => simp [NoP]

/-! ## Pointer -/

theorem parse_NoPF (p : String) : NoPF (Pointer.parse p) := by
  unfold Pointer.parse
  split
  · exact NoPF_ok _
  · exact NoPF_ok _
  · exact NoPF_err

theorem step_NoPF (st : Store) (strict : Bool) (cur : Pointer.Cursor) (seg : String) :
    NoPF (Pointer.step st strict cur seg) := by
  unfold Pointer.step
  repeat' split
  all_goals first | exact NoPF_ok _ | exact NoPF_err

theorem walk_NoPF (st : Store) (strict : Bool) : ∀ (segs : List String) (cur : Pointer.Cursor),
    NoPF (Pointer.walk st strict cur segs)
  | [], cur => NoPF_ok _
  | seg :: rest, cur => by
    rw [Pointer.walk]
    exact NoPF_bind (step_NoPF st strict cur seg) fun c _ => walk_NoPF st strict rest c

theorem dereference_NoPF (st : Store) (strict nilIsError : Bool) (root : NodeId) (sptr : String) :
    NoPF (Pointer.dereference st strict nilIsError root sptr) := by
  unfold Pointer.dereference
  refine NoPF_bind (parse_NoPF sptr) fun segs _ => NoPF_bind (walk_NoPF st strict segs _) fun cur _ => ?_
  repeat' split
  all_goals first | exact NoPF_ok _ | exact NoPF_err

/-! ## checkStructure -/

def ids (l : List (NodeId × Info)) : List NodeId := l.map (·.1)

theorem lookupNat_none_not_mem {α} (k : Nat) : ∀ (l : List (Nat × α)), lookupNat k l = none → k ∉ l.map (·.1)
  | [], _ => by simp
  | (k', v) :: rest, h => by
    simp only [lookupNat] at h
    split at h
    · cases h
    · next hne =>
      simp only [List.map_cons, List.mem_cons, not_or]
      exact ⟨fun he => hne he.symm, lookupNat_none_not_mem k rest h⟩

/-- the invariant of the accumulator: pairwise distinct ids, all of which exist in the store -/
def AccOK (st : Store) (acc : List (NodeId × Info)) : Prop :=
  (ids acc).Nodup ∧ ∀ id ∈ ids acc, (st.get? id).isSome = true

theorem AccOK_length (st : Store) (acc : List (NodeId × Info)) (h : AccOK st acc) : acc.length ≤ st.size := by
  have hsub : ids acc ⊆ List.range st.size := by
    intro id hid
    have := h.2 id hid
    rw [List.mem_range]
    unfold Store.get? at this
    cases hg : st[id]? with
    | none => rw [hg] at this; cases this
    | some n => exact (Array.getElem?_eq_some_iff.1 hg).1
  have := h.1.length_le_of_subset hsub
  simpa [ids] using this

theorem AccOK_snoc (st : Store) (acc : List (NodeId × Info)) (id : NodeId) (i : Info) (h : AccOK st acc)
    (hn : lookupNat id acc = none) (hex : (st.get? id).isSome = true) : AccOK st (acc ++ [(id, i)]) := by
  refine ⟨?_, ?_⟩
  · simp only [ids, List.map_append, List.map_cons, List.map_nil]
    rw [List.nodup_append]
    refine ⟨h.1, by simp, ?_⟩
    intro a ha b hb
    simp only [List.mem_cons, List.not_mem_nil, or_false] at hb
    subst hb
    rintro rfl
    exact lookupNat_none_not_mem _ acc hn ha
  · intro x hx
    simp only [ids, List.map_append, List.map_cons, List.map_nil, List.mem_append, List.mem_cons,
      List.not_mem_nil, or_false] at hx
    rcases hx with hx | rfl
    · exact h.2 x hx
    · exact hex

/-- each step either errs or records a NEW existing id: `st.size + 1 - |acc|` steps always suffice, on any graph -/
theorem checkStructure_no_fuel_gen (st : Store) : ∀ fuel work acc, AccOK st acc → st.size + 1 ≤ acc.length + fuel →
    checkStructure st fuel work acc ≠ .fuel := by
  intro fuel
  induction fuel with
  | zero =>
    intro work acc hacc hle
    have := AccOK_length st acc hacc
    omega
  | succ fuel ih =>
    intro work acc hacc hle
    cases work with
    | nil => simp [checkStructure]
    | cons w rest =>
      obtain ⟨id, path⟩ := w
      rw [checkStructure]
      split
      · simp
      · next n hn =>
        split
        · simp
        · next hl =>
          have hnone : lookupNat id acc = none := by
            cases hh : lookupNat id acc with
            | none => rfl
            | some _ => rw [hh] at hl; simp at hl
          apply ih
          · exact AccOK_snoc st acc id _ hacc hnone (by simp [hn])
          · simp only [List.length_append, List.length_cons, List.length_nil]; omega

theorem checkStructure_no_panic_gen (st : Store) : ∀ fuel work acc, checkStructure st fuel work acc ≠ .panic := by
  intro fuel
  induction fuel with
  | zero => intro work acc; simp [checkStructure]
  | succ fuel ih =>
    intro work acc
    cases work with
    | nil => simp [checkStructure]
    | cons w rest =>
      obtain ⟨id, path⟩ := w
      rw [checkStructure]
      split
      · simp
      · split
        · simp
        · exact ih _ _

theorem checkStructure_accOK (st : Store) : ∀ fuel work acc res, checkStructure st fuel work acc = .ok res →
    AccOK st acc → AccOK st res := by
  intro fuel
  induction fuel with
  | zero => intro work acc res h; simp [checkStructure] at h
  | succ fuel ih =>
    intro work acc res h hacc
    cases work with
    | nil => simp [checkStructure] at h; subst h; exact hacc
    | cons w rest =>
      obtain ⟨id, path⟩ := w
      rw [checkStructure] at h
      split at h
      · cases h
      · next n hn =>
        split at h
        · cases h
        · next hl =>
          have hnone : lookupNat id acc = none := by
            cases hh : lookupNat id acc with
            | none => rfl
            | some _ => rw [hh] at hl; simp at hl
          exact ih _ _ _ h (AccOK_snoc st acc id _ hacc hnone (by simp [hn]))

/-! ## applyDefaults -/

theorem defaultsLoop_NoP (st : Store) (rec : DRec) (req : List String) :
    ∀ (props : List (String × NodeId)) (kvs : List (String × Json)),
      (∀ p c, (p, c) ∈ props → (st.get? c).isSome = true ∧ ∀ x, NoP (rec c x)) →
      NoP (defaultsLoop st rec req props kvs) := by
  intro props
  induction props with
  | nil => intro kvs _; simp [defaultsLoop, NoP]
  | cons q rest ih =>
    intro kvs h
    obtain ⟨prop, sub⟩ := q
    have hrest : ∀ p c, (p, c) ∈ rest → (st.get? c).isSome = true ∧ ∀ x, NoP (rec c x) :=
      fun p c hm => h p c (List.mem_cons_of_mem _ hm)
    obtain ⟨hex, hrec⟩ := h prop sub List.mem_cons_self
    rw [defaultsLoop]
    split
    · exact ih _ hrest
    · split
      · next hn => rw [hn] at hex; cases hex
      · split
        · exact NoP_bind (hrec _) fun v _ => ih _ hrest
        · exact NoP_bind (hrec _) fun v _ => ih _ hrest
        · split
          · exact NoP_bind (hrec _) fun v _ => ih _ hrest
          · exact ih _ hrest

/-- the `properties` children of every schema object exist (no nil subschema) -/
def PropsExist (st : Store) : Prop :=
  ∀ s n, st.get? s = some n → ∀ p c, (p, c) ∈ n.properties.getD [] → (st.get? c).isSome = true

theorem applyDefaultsFuel_NoP (env : VEnv) (hinfo : ∀ s n, env.st.get? s = some n → (env.info? s).isSome = true)
    (hprops : PropsExist env.st) : ∀ fuel id inst, (env.st.get? id).isSome = true →
    NoP (applyDefaultsFuel env fuel id inst) := by
  intro fuel
  induction fuel with
  | zero => intro id inst _; simp [applyDefaultsFuel, NoP]
  | succ fuel ih =>
    intro id inst hex
    simp only [applyDefaultsFuel, applyDefaultsStep]
    split
    · next hn => rw [hn] at hex; cases hex
    · next n hn =>
      split
      · next hi => have := hinfo id n hn; rw [hi] at this; cases this
      · split
        · refine NoP_bind (defaultsLoop_NoP _ _ _ _ _ ?_) fun _ _ => by simp [NoP]
          intro p c hm
          have hc := hprops id n hn p c hm
          exact ⟨hc, fun x => ih c x hc⟩
        · simp [NoP]

/-- with a rank that decreases along `properties` edges (a tree has one: the height), fuel above the rank suffices -/
theorem defaultsLoop_NoFuel (st : Store) (rec : DRec) (req : List String) :
    ∀ (props : List (String × NodeId)) (kvs : List (String × Json)),
      (∀ p c, (p, c) ∈ props → ∀ x, rec c x ≠ .fuel) →
      defaultsLoop st rec req props kvs ≠ .fuel := by
  intro props
  induction props with
  | nil => intro kvs _; simp [defaultsLoop]
  | cons q rest ih =>
    intro kvs h
    obtain ⟨prop, sub⟩ := q
    have hrest : ∀ p c, (p, c) ∈ rest → ∀ x, rec c x ≠ .fuel :=
      fun p c hm => h p c (List.mem_cons_of_mem _ hm)
    have hrec := h prop sub List.mem_cons_self
    have hb : ∀ x, (Res.bind (rec sub x) fun v => defaultsLoop st rec req rest (setKey prop v kvs)) ≠ .fuel := by
      intro x
      cases hr : rec sub x with
      | ok v => simp only [Res.bind_ok]; exact ih _ hrest
      | err => simp
      | panic => simp
      | fuel => exact absurd hr (hrec x)
    rw [defaultsLoop]
    split
    · exact ih _ hrest
    · split
      · simp
      · split
        · exact hb _
        · exact hb _
        · split
          · exact hb _
          · exact ih _ hrest

theorem applyDefaultsFuel_NoFuel (env : VEnv) (rank : NodeId → Nat)
    (hrank : ∀ s n, env.st.get? s = some n → ∀ p c, (p, c) ∈ n.properties.getD [] → rank c < rank s) :
    ∀ fuel id inst, rank id < fuel → applyDefaultsFuel env fuel id inst ≠ .fuel := by
  intro fuel
  induction fuel with
  | zero => intro id inst h; omega
  | succ fuel ih =>
    intro id inst hlt
    simp only [applyDefaultsFuel, applyDefaultsStep]
    split
    · simp
    · next n hn =>
      split
      · simp
      · split
        · have := defaultsLoop_NoFuel env.st (applyDefaultsFuel env fuel) (n.required.getD []) (n.properties.getD [])
            ‹_› (fun p c hm x => ih c x (by have := hrank id n hn p c hm; omega))
          cases hl : defaultsLoop env.st (applyDefaultsFuel env fuel) (n.required.getD []) (n.properties.getD []) ‹_› with
          | ok v => simp
          | err => simp
          | panic => simp
          | fuel => exact absurd hl this
        · simp

end C10
end JSV
