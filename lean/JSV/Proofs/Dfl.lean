/-
  C15 helper file: ApplyDefaults only extends the instance.
-/
import JSV.Model.Defaults
import JSV.Proofs.Equal
namespace JSV
namespace C15
open JSV Go Json

theorem bind_eq_ok {α β} {x : Res α} {f : α → Res β} {b : β} :
    Res.bind x f = .ok b ↔ ∃ a, x = .ok a ∧ f a = .ok b := by
  cases x <;> simp

/-! ## the Spec relation: `b` extends `a` -/

mutual
  /-- `Extends a b` (b extends a): scalars and arrays are equal, objects only gain keys: every member of `a` is
      found in `b` under the same key (first hit) with an extended value. -/
  def Extends : Json → Json → Prop
    | .obj kx, b => ∃ ky, b = .obj ky ∧ ExtendsObj kx ky
    | .null, b => b = .null
    | .bool x, b => b = .bool x
    | .num x, b => b = .num x
    | .str x, b => b = .str x
    | .arr x, b => b = .arr x
  def ExtendsObj : List (String × Json) → List (String × Json) → Prop
    | [], _ => True
    | (k, v) :: rest, ky => (∃ v', Json.lookup k ky = some v' ∧ Extends v v') ∧ ExtendsObj rest ky
end

mutual
  /-- positional (stronger) form, meaningful without well-formedness: the members of `a` stay where they are, in
      order, under the same keys, with extended values; new members are appended. -/
  def ExtP : Json → Json → Prop
    | .obj kx, b => ∃ ky, b = .obj ky ∧ ExtPObj kx ky
    | .null, b => b = .null
    | .bool x, b => b = .bool x
    | .num x, b => b = .num x
    | .str x, b => b = .str x
    | .arr x, b => b = .arr x
  def ExtPObj : List (String × Json) → List (String × Json) → Prop
    | [], _ => True
    | (k, v) :: rest, ky => ∃ v' ry, ky = (k, v') :: ry ∧ ExtP v v' ∧ ExtPObj rest ry
end

theorem ExtendsObj_iff {ky : List (String × Json)} : ∀ {kx : List (String × Json)},
    ExtendsObj kx ky ↔ ∀ k v, (k, v) ∈ kx → ∃ v', Json.lookup k ky = some v' ∧ Extends v v'
  | [] => by simp [ExtendsObj]
  | (k, v) :: rest => by
    simp only [ExtendsObj, ExtendsObj_iff (kx := rest), List.mem_cons]
    constructor
    · rintro ⟨h1, h2⟩ k' v' (h | h)
      · cases h; exact h1
      · exact h2 k' v' h
    · intro h
      exact ⟨h k v (Or.inl rfl), fun k' v' hm => h k' v' (Or.inr hm)⟩

theorem Extends_nonobj {a b : Json} (h : a.isObj = false) : Extends a b ↔ b = a := by
  cases a <;> simp_all [Extends, isObj]

theorem ExtP_nonobj {a b : Json} (h : a.isObj = false) : ExtP a b ↔ b = a := by
  cases a <;> simp_all [ExtP, isObj]

theorem ExtP_obj {kx : List (String × Json)} {b : Json} : ExtP (.obj kx) b ↔ ∃ ky, b = .obj ky ∧ ExtPObj kx ky := by
  simp [ExtP]

theorem Extends_obj {kx : List (String × Json)} {b : Json} :
    Extends (.obj kx) b ↔ ∃ ky, b = .obj ky ∧ ExtendsObj kx ky := by
  simp [Extends]

/-! ### reflexivity, transitivity of the positional form -/

theorem ExtPObj_refl_of : ∀ {kvs : List (String × Json)}, (∀ k v, (k, v) ∈ kvs → ExtP v v) → ExtPObj kvs kvs
  | [], _ => by simp [ExtPObj]
  | (k, v) :: rest, h => by
    simp only [ExtPObj]
    exact ⟨v, rest, rfl, h k v List.mem_cons_self,
      ExtPObj_refl_of fun k' v' hm => h k' v' (List.mem_cons_of_mem _ hm)⟩

theorem ExtP_refl : ∀ j, ExtP j j := by
  intro j
  induction j using Json.induct with
  | null => simp [ExtP]
  | bool b => simp [ExtP]
  | num q => simp [ExtP]
  | str s => simp [ExtP]
  | arr xs _ => simp [ExtP]
  | obj kvs ih => exact ExtP_obj.2 ⟨kvs, rfl, ExtPObj_refl_of ih⟩

theorem ExtPObj_refl (kvs : List (String × Json)) : ExtPObj kvs kvs := ExtPObj_refl_of fun _ v _ => ExtP_refl v

theorem ExtPObj_trans_of : ∀ {kx ky kz : List (String × Json)},
    (∀ k v, (k, v) ∈ kx → ∀ b c, ExtP v b → ExtP b c → ExtP v c) →
    ExtPObj kx ky → ExtPObj ky kz → ExtPObj kx kz
  | [], _, _, _, _, _ => by simp [ExtPObj]
  | (k, v) :: rest, ky, kz, ih, h1, h2 => by
    simp only [ExtPObj] at h1
    obtain ⟨v', ry, rfl, hv, hr⟩ := h1
    simp only [ExtPObj] at h2
    obtain ⟨v'', rz, rfl, hv', hr'⟩ := h2
    simp only [ExtPObj]
    exact ⟨v'', rz, rfl, ih k v List.mem_cons_self v' v'' hv hv',
      ExtPObj_trans_of (fun k' w hm => ih k' w (List.mem_cons_of_mem _ hm)) hr hr'⟩

theorem ExtP_trans : ∀ a b c, ExtP a b → ExtP b c → ExtP a c := by
  intro a
  induction a using Json.induct with
  | null => intro b c h1 h2; simp only [ExtP] at h1; subst h1; exact h2
  | bool x => intro b c h1 h2; simp only [ExtP] at h1; subst h1; exact h2
  | num x => intro b c h1 h2; simp only [ExtP] at h1; subst h1; exact h2
  | str x => intro b c h1 h2; simp only [ExtP] at h1; subst h1; exact h2
  | arr x _ => intro b c h1 h2; simp only [ExtP] at h1; subst h1; exact h2
  | obj kx ih =>
    intro b c h1 h2
    obtain ⟨ky, rfl, h1'⟩ := ExtP_obj.1 h1
    obtain ⟨kz, rfl, h2'⟩ := ExtP_obj.1 h2
    exact ExtP_obj.2 ⟨kz, rfl, ExtPObj_trans_of ih h1' h2'⟩

theorem ExtPObj_trans {kx ky kz : List (String × Json)} (h1 : ExtPObj kx ky) (h2 : ExtPObj ky kz) : ExtPObj kx kz :=
  ExtPObj_trans_of (fun _ v _ => ExtP_trans v) h1 h2

/-- the first hit of a key stays the first hit, with an extended value -/
theorem ExtPObj_lookup {k : String} : ∀ {kx ky : List (String × Json)} {v : Json},
    ExtPObj kx ky → Json.lookup k kx = some v → ∃ v', Json.lookup k ky = some v' ∧ ExtP v v'
  | [], _, _, _, h => by simp at h
  | (k0, v0) :: rest, ky, v, h1, h => by
    simp only [ExtPObj] at h1
    obtain ⟨v', ry, rfl, hv, hr⟩ := h1
    rw [lookup_cons] at h ⊢
    by_cases hk : k0 = k
    · simp only [hk, if_true] at h ⊢
      cases h
      exact ⟨v', rfl, hv⟩
    · simp only [hk, if_false] at h ⊢
      exact ExtPObj_lookup hr h

/-- keys are kept in place; new ones are appended -/
theorem ExtPObj_keys : ∀ {kx ky : List (String × Json)}, ExtPObj kx ky → ∃ added, keys ky = keys kx ++ added
  | [], ky, _ => ⟨keys ky, by simp [keys]⟩
  | (k0, v0) :: rest, ky, h1 => by
    simp only [ExtPObj] at h1
    obtain ⟨v', ry, rfl, _, hr⟩ := h1
    obtain ⟨added, ha⟩ := ExtPObj_keys hr
    refine ⟨added, ?_⟩
    simp only [keys, List.map_cons, List.cons_append] at ha ⊢
    rw [ha]

theorem ExtPObj_length : ∀ {kx ky : List (String × Json)}, ExtPObj kx ky → kx.length ≤ ky.length
  | [], ky, _ => Nat.zero_le _
  | (k0, v0) :: rest, ky, h1 => by
    simp only [ExtPObj] at h1
    obtain ⟨v', ry, rfl, _, hr⟩ := h1
    simpa using ExtPObj_length hr

/-- on well-formed values the positional form implies the Spec relation -/
theorem Extends_of_ExtP : ∀ a b, WF a = true → ExtP a b → Extends a b := by
  intro a
  induction a using Json.induct with
  | null => intro b _ h; simpa [ExtP, Extends] using h
  | bool x => intro b _ h; simpa [ExtP, Extends] using h
  | num x => intro b _ h; simpa [ExtP, Extends] using h
  | str x => intro b _ h; simpa [ExtP, Extends] using h
  | arr x _ => intro b _ h; simpa [ExtP, Extends] using h
  | obj kx ih =>
    intro b hw h
    obtain ⟨ky, rfl, h'⟩ := ExtP_obj.1 h
    obtain ⟨hn, hwv⟩ := WF_obj hw
    refine Extends_obj.2 ⟨ky, rfl, ExtendsObj_iff.2 ?_⟩
    intro k v hm
    obtain ⟨v', hl, hv⟩ := ExtPObj_lookup h' (lookup_of_mem_nodup hn hm)
    exact ⟨v', hl, ih k v hm v' (hwv k v hm) hv⟩

/-! ## setKey -/

theorem lookup_setKey (k k' : String) (v : Json) : ∀ kvs : List (String × Json),
    Json.lookup k (setKey k' v kvs) = if k' = k then some v else Json.lookup k kvs
  | [] => by simp [setKey]
  | (a, b) :: rest => by
    simp only [setKey]
    by_cases ha : a = k'
    · simp only [ha, if_true, lookup_cons]
      by_cases hk : k' = k <;> simp [hk]
    · simp only [ha, if_false, lookup_cons, lookup_setKey k k' v rest]
      by_cases hk : k' = k
      · have : a ≠ k := fun h => ha (h.trans hk.symm)
        simp [hk, this]
      · simp [hk]

theorem setKey_same (k : String) (v : Json) : ∀ kvs : List (String × Json),
    Json.lookup k kvs = some v → setKey k v kvs = kvs
  | [], h => by simp at h
  | (a, b) :: rest, h => by
    rw [lookup_cons] at h
    simp only [setKey]
    by_cases ha : a = k
    · simp only [ha, if_true] at h ⊢
      cases h; rfl
    · simp only [ha, if_false] at h ⊢
      rw [setKey_same k v rest h]

theorem ExtPObj_setKey (k : String) (v : Json) : ∀ kvs : List (String × Json),
    (∀ cur, Json.lookup k kvs = some cur → ExtP cur v) → ExtPObj kvs (setKey k v kvs)
  | [], _ => by simp [ExtPObj]
  | (a, b) :: rest, h => by
    simp only [setKey]
    by_cases ha : a = k
    · simp only [ha, if_true, ExtPObj]
      exact ⟨v, rest, rfl, h b (by simp [ha]), ExtPObj_refl rest⟩
    · simp only [ha, if_false, ExtPObj]
      refine ⟨b, _, rfl, ExtP_refl b, ExtPObj_setKey k v rest ?_⟩
      intro cur hc
      exact h cur (by simp [ha, hc])

theorem setKey_ne_nil (k : String) (v : Json) (kvs : List (String × Json)) : setKey k v kvs ≠ [] := by
  cases kvs with
  | nil => simp [setKey]
  | cons p r =>
    obtain ⟨a, b⟩ := p
    simp only [setKey]
    split <;> simp

/-! ## the loop -/

/-- the recursive call only extends -/
def RecExt (rec : DRec) : Prop := ∀ s c o, rec s c = .ok o → ExtP c o

theorem defaultsLoop_ext (st : Store) (rec : DRec) (req : List String) (hrec : RecExt rec) :
    ∀ (props : List (String × NodeId)) (kvs kvs' : List (String × Json)),
      defaultsLoop st rec req props kvs = .ok kvs' → ExtPObj kvs kvs' := by
  intro props
  induction props with
  | nil =>
    intro kvs kvs' h
    simp only [defaultsLoop, Res.ok.injEq] at h
    subst h
    exact ExtPObj_refl kvs
  | cons p rest ih =>
    intro kvs kvs' h
    obtain ⟨prop, sub⟩ := p
    rw [defaultsLoop] at h
    split at h
    · exact ih _ _ h
    · split at h
      · cases h
      · next sn hsn =>
        split at h
        · next d hl hd =>
          obtain ⟨v, hv, h⟩ := bind_eq_ok.1 h
          exact ExtPObj_trans (ExtPObj_setKey prop v kvs (by intro cur hc; rw [hl] at hc; cases hc)) (ih _ _ h)
        · next cur _ hl =>
          obtain ⟨v, hv, h⟩ := bind_eq_ok.1 h
          refine ExtPObj_trans (ExtPObj_setKey prop v kvs ?_) (ih _ _ h)
          intro cur' hc
          rw [hl] at hc
          cases hc
          exact hrec _ _ _ hv
        · next hl hd =>
          split at h
          · obtain ⟨v, hv, h⟩ := bind_eq_ok.1 h
            exact ExtPObj_trans (ExtPObj_setKey prop v kvs (by intro cur hc; rw [hl] at hc; cases hc)) (ih _ _ h)
          · exact ih _ _ h

theorem applyDefaultsFuel_ext (env : VEnv) : ∀ fuel, RecExt (applyDefaultsFuel env fuel) := by
  intro fuel
  induction fuel with
  | zero => intro s c o h; simp [applyDefaultsFuel] at h
  | succ fuel ih =>
    intro s c o h
    simp only [applyDefaultsFuel, applyDefaultsStep] at h
    split at h
    · cases h
    · split at h
      · cases h
      · split at h
        · next kvs =>
          obtain ⟨kvs', hl, h⟩ := bind_eq_ok.1 h
          cases h
          exact ExtP_obj.2 ⟨kvs', rfl, defaultsLoop_ext env.st _ _ ih _ _ _ hl⟩
        · cases h
          exact ExtP_refl _

/-! ## required properties are never filled -/

theorem defaultsLoop_required (st : Store) (rec : DRec) (req : List String) (p : String) (hp : p ∈ req) :
    ∀ (props : List (String × NodeId)) (kvs kvs' : List (String × Json)),
      defaultsLoop st rec req props kvs = .ok kvs' → Json.lookup p kvs = none → Json.lookup p kvs' = none := by
  intro props
  induction props with
  | nil =>
    intro kvs kvs' h hn
    simp only [defaultsLoop, Res.ok.injEq] at h
    subst h
    exact hn
  | cons q rest ih =>
    intro kvs kvs' h hn
    obtain ⟨prop, sub⟩ := q
    rw [defaultsLoop] at h
    split at h
    · exact ih _ _ h hn
    · next hreq =>
      have hne : prop ≠ p := by
        rintro rfl
        exact hreq (List.contains_iff_mem.2 hp)
      have hset : ∀ v, Json.lookup p (setKey prop v kvs) = none := by
        intro v; rw [lookup_setKey, if_neg hne]; exact hn
      split at h
      · cases h
      · split at h
        · obtain ⟨v, _, h⟩ := bind_eq_ok.1 h
          exact ih _ _ h (hset v)
        · obtain ⟨v, _, h⟩ := bind_eq_ok.1 h
          exact ih _ _ h (hset v)
        · split at h
          · obtain ⟨v, _, h⟩ := bind_eq_ok.1 h
            exact ih _ _ h (hset v)
          · exact ih _ _ h hn

end C15
end JSV
