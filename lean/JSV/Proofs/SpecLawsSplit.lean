/-
  Algebraic laws, part 4: adjacent keywords are a conjunction.  The keywords of a schema object fall into GROUPS that the
  Spec evaluates independently of each other (`Group`); `pick sel n` keeps the groups selected by `sel`.  A schema object
  without `unevaluated*` is the conjunction of `pick sel n` and `pick (not ∘ sel) n`, for every selection (`specBody_split`).
  The groups are what must stay together: `properties`/`patternProperties`/`additionalProperties`,
  `prefixItems`/`items` (`items`/`additionalItems` in draft-07), `contains`/`minContains`/`maxContains`, `if`/`then`/`else`.
-/
import JSV.Proofs.SpecLawsCongr
import JSV.Proofs.SpecLawsScope
namespace JSV
namespace Laws
open Go GoVal Refine _root_.JSV.Inv
set_option linter.unusedSimpArgs false

/-- the groups of keywords that the Spec evaluates independently of each other -/
inductive Group where
  | ref | dynamicRef | allOf | anyOf | oneOf | not
  /-- `if`, `then`, `else` -/
  | cond
  /-- `prefixItems`, `items`, and the draft-07 `items` array / `additionalItems` -/
  | array
  /-- `contains`, `minContains`, `maxContains` -/
  | contains
  /-- `properties`, `patternProperties`, `additionalProperties` -/
  | props
  | propertyNames
  /-- `dependentSchemas`, schema-form `dependencies` -/
  | dependent
  /-- `type` -/
  | type
  | enum | const
  /-- `multipleOf`, `minimum`, `maximum`, `exclusiveMinimum`, `exclusiveMaximum` -/
  | numeric
  /-- `minLength`, `maxLength`, `pattern` -/
  | string
  /-- `minItems`, `maxItems`, `uniqueItems` -/
  | arrayLimits
  /-- `minProperties`, `maxProperties`, `required`, `dependentRequired`, string-form `dependencies` -/
  | objectLimits
  deriving DecidableEq, Repr

/-- the schema object with the selected groups of keywords only (and without `unevaluated*`) -/
def pick (sel : Group → Bool) (n : Node) : Node :=
  { ref := if sel .ref then n.ref else "",
    dynamicRef := if sel .dynamicRef then n.dynamicRef else "",
    allOf := if sel .allOf then n.allOf else none,
    anyOf := if sel .anyOf then n.anyOf else none,
    oneOf := if sel .oneOf then n.oneOf else none,
    not := if sel .not then n.not else none,
    if_ := if sel .cond then n.if_ else none,
    then_ := if sel .cond then n.then_ else none,
    else_ := if sel .cond then n.else_ else none,
    prefixItems := if sel .array then n.prefixItems else none,
    items := if sel .array then n.items else none,
    itemsArray := if sel .array then n.itemsArray else none,
    additionalItems := if sel .array then n.additionalItems else none,
    contains := if sel .contains then n.contains else none,
    minContains := if sel .contains then n.minContains else none,
    maxContains := if sel .contains then n.maxContains else none,
    properties := if sel .props then n.properties else none,
    patternProperties := if sel .props then n.patternProperties else none,
    additionalProperties := if sel .props then n.additionalProperties else none,
    propertyNames := if sel .propertyNames then n.propertyNames else none,
    dependencySchemas := if sel .dependent then n.dependencySchemas else none,
    dependentSchemas := if sel .dependent then n.dependentSchemas else none,
    type := if sel .type then n.type else "",
    types := if sel .type then n.types else none,
    enum := if sel .enum then n.enum else none,
    const := if sel .const then n.const else none,
    multipleOf := if sel .numeric then n.multipleOf else none,
    minimum := if sel .numeric then n.minimum else none,
    maximum := if sel .numeric then n.maximum else none,
    exclusiveMinimum := if sel .numeric then n.exclusiveMinimum else none,
    exclusiveMaximum := if sel .numeric then n.exclusiveMaximum else none,
    minLength := if sel .string then n.minLength else none,
    maxLength := if sel .string then n.maxLength else none,
    pattern := if sel .string then n.pattern else "",
    minItems := if sel .arrayLimits then n.minItems else none,
    maxItems := if sel .arrayLimits then n.maxItems else none,
    uniqueItems := if sel .arrayLimits then n.uniqueItems else false,
    minProperties := if sel .objectLimits then n.minProperties else none,
    maxProperties := if sel .objectLimits then n.maxProperties else none,
    required := if sel .objectLimits then n.required else none,
    dependencyStrings := if sel .objectLimits then n.dependencyStrings else none,
    dependentRequired := if sel .objectLimits then n.dependentRequired else none }

/-- keeping every group: the keywords of the object, `unevaluated*` dropped -/
theorem pick_all (n : Node) :
    pick (fun _ => true) n = { keywords n with unevaluatedItems := none, unevaluatedProperties := none } := rfl

theorem pick_noUneval (sel : Group → Bool) (n : Node) : NoUneval (pick sel n) := ⟨rfl, rfl⟩

/-! ## each keyword on `pick` -/

/-- an unselected keyword is vacuous -/
abbrev gateK (b : Bool) (k : Spec.Out) : Spec.Out := if b then k else some (some {})

section kws
variable (env : Spec.Env) (sub : NodeId → Json → Spec.Out) (sel : Group → Bool) (n : Node) (j : Json)

theorem kwRef_pick (s : NodeId) : Spec.kwRef env sub s (pick sel n) j = gateK (sel .ref) (Spec.kwRef env sub s n j) := by
  cases h : sel .ref
  · exact kwRef_absent env sub _ j s (by simp [pick, h])
  · simp [gateK, Spec.kwRef, pick, h]

theorem kwDynamicRef_pick (scope : List NodeId) (s : NodeId) :
    Spec.kwDynamicRef env sub scope s (pick sel n) j = gateK (sel .dynamicRef) (Spec.kwDynamicRef env sub scope s n j) := by
  cases h : sel .dynamicRef
  · exact kwDynamicRef_absent env sub _ j scope s (by simp [pick, h])
  · simp [gateK, Spec.kwDynamicRef, pick, h]

theorem kwDynamicRef_vocab_pick (d : Draft) (scope : List NodeId) (s : NodeId) :
    Spec.kwDynamicRef env sub scope s (Spec.vocab d (pick sel n)) j
      = gateK (sel .dynamicRef) (Spec.kwDynamicRef env sub scope s (Spec.vocab d n) j) := by
  cases h : sel .dynamicRef
  · exact kwDynamicRef_absent env sub _ j scope s (by cases d <;> simp [pick, h, Spec.vocab])
  · cases d <;> simp [gateK, Spec.kwDynamicRef, pick, h, Spec.vocab]

theorem kwAllOf_pick : Spec.kwAllOf sub (pick sel n) j = gateK (sel .allOf) (Spec.kwAllOf sub n j) := by
  cases h : sel .allOf
  · exact kwAllOf_absent sub _ j (by simp [pick, h])
  · simp [gateK, Spec.kwAllOf, pick, h]

theorem kwAnyOf_pick : Spec.kwAnyOf sub (pick sel n) j = gateK (sel .anyOf) (Spec.kwAnyOf sub n j) := by
  cases h : sel .anyOf
  · exact kwAnyOf_absent sub _ j (by simp [pick, h])
  · simp [gateK, Spec.kwAnyOf, pick, h]

theorem kwOneOf_pick : Spec.kwOneOf sub (pick sel n) j = gateK (sel .oneOf) (Spec.kwOneOf sub n j) := by
  cases h : sel .oneOf
  · exact kwOneOf_absent sub _ j (by simp [pick, h])
  · simp [gateK, Spec.kwOneOf, pick, h]

theorem kwNot_pick : Spec.kwNot sub (pick sel n) j = gateK (sel .not) (Spec.kwNot sub n j) := by
  cases h : sel .not
  · exact kwNot_absent sub _ j (by simp [pick, h])
  · simp [gateK, Spec.kwNot, pick, h]

theorem kwIf_pick : Spec.kwIf sub (pick sel n) j = gateK (sel .cond) (Spec.kwIf sub n j) := by
  cases h : sel .cond
  · exact kwIf_absent sub _ j (by simp [pick, h])
  · simp [gateK, Spec.kwIf, pick, h]

theorem arrayShape_pick (h : sel .array = true) : Spec.arrayShape env (pick sel n) = Spec.arrayShape env n := by
  simp [Spec.arrayShape, pick, h]

theorem kwItems_pick : Spec.kwItems env sub (pick sel n) j = gateK (sel .array) (Spec.kwItems env sub n j) := by
  cases h : sel .array
  · exact kwItems_absent env sub _ j (by simp [pick, h]) (by simp [pick, h]) (by simp [pick, h])
  · unfold Spec.kwItems
    rw [arrayShape_pick env sel n h]
    rfl

theorem kwContains_pick : Spec.kwContains sub (pick sel n) j = gateK (sel .contains) (Spec.kwContains sub n j) := by
  cases h : sel .contains
  · exact kwContains_absent sub _ j (by simp [pick, h])
  · simp [gateK, Spec.kwContains, pick, h]

theorem kwContains_vocab_pick (d : Draft) :
    Spec.kwContains sub (Spec.vocab d (pick sel n)) j = gateK (sel .contains) (Spec.kwContains sub (Spec.vocab d n) j) := by
  cases h : sel .contains
  · exact kwContains_absent sub _ j (by simp [pick, h, Spec.vocab])
  · simp [gateK, Spec.kwContains, pick, h, Spec.vocab]

theorem kwProps_pick : Spec.kwProps env sub (pick sel n) j = gateK (sel .props) (Spec.kwProps env sub n j) := by
  cases h : sel .props
  · exact kwProps_absent env sub _ j (by simp [pick, h]) (by simp [pick, h]) (by simp [pick, h])
  · simp [gateK, Spec.kwProps, pick, h]

theorem kwPropertyNames_pick :
    Spec.kwPropertyNames sub (pick sel n) j = gateK (sel .propertyNames) (Spec.kwPropertyNames sub n j) := by
  cases h : sel .propertyNames
  · exact kwPropertyNames_absent sub _ j (by simp [pick, h])
  · simp [gateK, Spec.kwPropertyNames, pick, h]

theorem kwDependentSchemas_pick :
    Spec.kwDependentSchemas env sub (pick sel n) j = gateK (sel .dependent) (Spec.kwDependentSchemas env sub n j) := by
  cases h : sel .dependent
  · exact kwDependentSchemas_absent env sub _ j (by simp [pick, h]) (by simp [pick, h])
  · simp [gateK, Spec.kwDependentSchemas, pick, h]

/-! ### the assertions -/

theorem typeOk_pick : Spec.typeOk (pick sel n) j = (!sel .type || Spec.typeOk n j) := by
  cases h : sel .type
  · exact typeOk_absent _ j (by simp [pick, h]) (by simp [pick, h])
  · simp [Spec.typeOk, pick, h]

theorem enumOk_pick : Spec.enumOk (pick sel n) j = (!sel .enum || Spec.enumOk n j) := by
  cases h : sel .enum
  · exact enumOk_absent _ j (by simp [pick, h])
  · simp [Spec.enumOk, pick, h]

theorem constOk_pick : Spec.constOk (pick sel n) j = (!sel .const || Spec.constOk n j) := by
  cases h : sel .const
  · exact constOk_absent _ j (by simp [pick, h])
  · simp [Spec.constOk, pick, h]

theorem numericOk_pick : Spec.numericOk (pick sel n) j = (!sel .numeric || Spec.numericOk n j) := by
  cases h : sel .numeric
  · exact numericOk_absent _ j (by simp [pick, h]) (by simp [pick, h]) (by simp [pick, h]) (by simp [pick, h])
      (by simp [pick, h])
  · simp [Spec.numericOk, pick, h]

theorem stringOk_pick : Spec.stringOk env (pick sel n) j = (!sel .string || Spec.stringOk env n j) := by
  cases h : sel .string
  · exact stringOk_absent env _ j (by simp [pick, h]) (by simp [pick, h]) (by simp [pick, h])
  · simp [Spec.stringOk, pick, h]

theorem arrayLimitsOk_pick : Spec.arrayLimitsOk (pick sel n) j = (!sel .arrayLimits || Spec.arrayLimitsOk n j) := by
  cases h : sel .arrayLimits
  · exact arrayLimitsOk_absent _ j (by simp [pick, h]) (by simp [pick, h]) (by simp [pick, h])
  · simp [Spec.arrayLimitsOk, pick, h]

theorem objectLimitsOk_pick :
    Spec.objectLimitsOk env (pick sel n) j = (!sel .objectLimits || Spec.objectLimitsOk env n j) := by
  cases h : sel .objectLimits
  · exact objectLimitsOk_absent env _ j (by simp [pick, h]) (by simp [pick, h]) (by simp [pick, h]) (by simp [pick, h])
      (by simp [pick, h])
  · simp [Spec.objectLimitsOk, pick, h]

theorem gate_split (m x : Bool) : x = ((!m || x) && (!(!m) || x)) := by cases m <;> cases x <;> rfl

theorem and_split_step {X G H x g h : Bool} (hX : X = (G && H)) (hx : x = (g && h)) :
    (X && x) = ((G && g) && (H && h)) := by
  subst hX hx; cases G <;> cases H <;> cases g <;> cases h <;> rfl

/-- the assertions of the whole are those of the two parts together -/
theorem assertsOf_split :
    assertsOf env n j = (assertsOf env (pick sel n) j && assertsOf env (pick (fun g => !sel g) n) j) := by
  simp only [assertsOf, typeOk_pick, enumOk_pick, constOk_pick, numericOk_pick, stringOk_pick, arrayLimitsOk_pick,
    objectLimitsOk_pick]
  exact and_split_step (and_split_step (and_split_step (and_split_step (and_split_step (and_split_step
    (gate_split _ _) (gate_split _ _)) (gate_split _ _)) (gate_split _ _)) (gate_split _ _))
    (gate_split _ _)) (gate_split _ _)

end kws


/-! ## conjunction of outcomes up to the order of the evaluated sets -/

theorem oconj2_assoc (a b c : Spec.Out) : oconj2 (oconj2 a b) c = oconj2 a (oconj2 b c) := by
  cases a <;> cases b <;> cases c <;> simp [oconj2, conj2_assoc]

theorem conj2_comm_sim (a b : Spec.R) : RSim (conj2 a b) (conj2 b a) := by
  cases a <;> cases b <;> simp [conj2, OptRel]
  rename_i e1 e2
  constructor
  · intro k; simp only [Spec.Ev.union, List.mem_append]; exact Or.comm
  · intro i; simp only [Spec.Ev.union, List.mem_append]; exact Or.comm

theorem conj2_sim {a a' b b' : Spec.R} (h1 : RSim a a') (h2 : RSim b b') : RSim (conj2 a b) (conj2 a' b') := by
  cases a <;> cases a' <;> cases b <;> cases b' <;> simp_all [conj2, OptRel]
  exact EvEqv.union h1 h2

theorem oconj2_comm_sim (a b : Spec.Out) : OutSim (oconj2 a b) (oconj2 b a) := by
  cases a <;> cases b <;> simp [oconj2, OptRel]
  exact conj2_comm_sim _ _

theorem oconj2_sim {a a' b b' : Spec.Out} (h1 : OutSim a a') (h2 : OutSim b b') : OutSim (oconj2 a b) (oconj2 a' b') := by
  cases a <;> cases a' <;> cases b <;> cases b' <;> simp_all [oconj2, OptRel]
  exact conj2_sim h1 h2

/-- the keyword outcomes with the unselected ones made vacuous -/
def maskK (ms : List Bool) (ks : List Spec.Out) : List Spec.Out := List.zipWith gateK ms ks

/-- a list of outcomes is the conjunction of any two complementary selections of it -/
theorem seqConj_mask : ∀ (ks : List Spec.Out) (ms : List Bool), ms.length = ks.length →
    OutSim (seqConj ks) (oconj2 (seqConj (maskK ms ks)) (seqConj (maskK (ms.map (!·)) ks)))
  | [], [], _ => by simp [maskK]; exact OutSim.refl _
  | [], _ :: _, h => by simp at h
  | _ :: _, [], h => by simp at h
  | k :: ks, m :: ms, h => by
    have ih := seqConj_mask ks ms (by simpa using h)
    cases m with
    | true =>
      simp only [maskK, List.map_cons, List.zipWith_cons_cons, seqConj_cons, gateK, if_true, Bool.not_true,
        Bool.false_eq_true, if_false, oconj2_empty_left, oconj2_assoc]
      exact oconj2_sim (OutSim.refl k) ih
    | false =>
      simp only [maskK, List.map_cons, List.zipWith_cons_cons, seqConj_cons, gateK, if_true, Bool.not_false,
        Bool.false_eq_true, if_false, oconj2_empty_left]
      refine OutSim.trans (oconj2_sim (OutSim.refl k) ih) ?_
      refine OutSim.trans (oconj2_sim (OutSim.refl k) (oconj2_comm_sim _ _)) ?_
      rw [← oconj2_assoc]
      exact oconj2_comm_sim _ _

/-! ## the assertions as a gate -/

/-- the applicator outcome, turned invalid when the assertions fail -/
def gateA (a : Bool) (o : Spec.Out) : Spec.Out := o.map fun r => if a then r else none

theorem oconj2_gateA (a b : Bool) (x y : Spec.Out) : oconj2 (gateA a x) (gateA b y) = gateA (a && b) (oconj2 x y) := by
  cases x <;> cases y <;> cases a <;> cases b <;> simp [gateA, oconj2]

theorem gateA_sim (a : Bool) {x y : Spec.Out} (h : OutSim x y) : OutSim (gateA a x) (gateA a y) := by
  cases a
  · cases x <;> cases y <;> simp_all [gateA, OptRel]
  · cases x <;> cases y <;> simp_all [gateA, OptRel]

/-- a schema object without `unevaluated*`: the conjunction of its applicator keywords, gated by its assertions -/
theorem specBody_nouneval (env : Spec.Env) (rec : Spec.Rec) (scope : List NodeId) (s : NodeId) (j : Json) (n : Node)
    (hu : NoUneval n) (h7 : (env.draft == .d7 && n.ref != "") = false) :
    specBody env rec scope s j n = gateA (assertsOf env n j) (seqConj (kwList env rec scope s j n)) := by
  unfold specBody seqConj gateA
  rw [h7]
  simp only [Bool.false_eq_true, if_false]
  have e1 : Spec.kwUnevaluatedItems (rec (scope ++ [s])) (Spec.vocab env.draft n) j = fun _ => some (some {}) :=
    funext fun ev => kwUnevaluatedItems_absent _ _ j ev (hu.vocab _).items
  have e2 : Spec.kwUnevaluatedProps (rec (scope ++ [s])) (Spec.vocab env.draft n) j = fun _ => some (some {}) :=
    funext fun ev => kwUnevaluatedProps_absent _ _ j ev (hu.vocab _).props
  rw [e1, e2]
  cases Spec.sequence (kwList env rec scope s j n) with
  | none => rfl
  | some rs =>
    simp only [specTail, Option.map_some]
    cases Spec.conj rs with
    | none => cases assertsOf env n j <;> rfl
    | some ev0 => cases assertsOf env n j <;> simp [conj_cons, conj_nil]

/-- the selection of the twelve applicator keywords -/
def selList (sel : Group → Bool) : List Bool :=
  [sel .ref, sel .dynamicRef, sel .allOf, sel .anyOf, sel .oneOf, sel .not, sel .cond, sel .array, sel .contains,
   sel .props, sel .propertyNames, sel .dependent]

theorem kwList_pick (env : Spec.Env) (rec : Spec.Rec) (scope : List NodeId) (s : NodeId) (j : Json) (n : Node)
    (sel : Group → Bool) :
    kwList env rec scope s j (pick sel n) = maskK (selList sel) (kwList env rec scope s j n) := by
  simp only [kwList, kwRef_pick, kwDynamicRef_pick, kwDynamicRef_vocab_pick, kwAllOf_pick, kwAnyOf_pick, kwOneOf_pick, kwNot_pick,
    kwIf_pick, kwItems_pick, kwContains_pick, kwContains_vocab_pick, kwProps_pick, kwPropertyNames_pick, kwDependentSchemas_pick, maskK, selList,
    List.zipWith_cons_cons, List.zipWith_nil_right]

theorem pick_h7 (env : Spec.Env) (n : Node) (sel : Group → Bool) (h7 : (env.draft == .d7 && n.ref != "") = false) :
    (env.draft == .d7 && (pick sel n).ref != "") = false := by
  cases h : sel .ref
  · simp [pick, h]
  · simpa [pick, h] using h7

/-- **Adjacent keywords are a conjunction.**  A schema object without `unevaluated*` (and, under draft-07, without
    `$ref`) has the outcome of the conjunction of its two parts `pick sel n` and `pick (not ∘ sel) n`, whatever the
    selection of keyword groups and whatever the recursive calls return: defined iff both parts are, valid iff both
    are, and then the evaluated sets are the unions. -/
theorem specBody_split (env : Spec.Env) (rec : Spec.Rec) (scope : List NodeId) (s : NodeId) (j : Json) (n : Node)
    (sel : Group → Bool) (hu : NoUneval n) (h7 : (env.draft == .d7 && n.ref != "") = false) :
    OutSim (specBody env rec scope s j n)
      (oconj2 (specBody env rec scope s j (pick sel n)) (specBody env rec scope s j (pick (fun g => !sel g) n))) := by
  rw [specBody_nouneval env rec scope s j n hu h7,
    specBody_nouneval env rec scope s j _ (pick_noUneval _ n) (pick_h7 env n sel h7),
    specBody_nouneval env rec scope s j _ (pick_noUneval _ n) (pick_h7 env n _ h7),
    oconj2_gateA, ← assertsOf_split, kwList_pick, kwList_pick]
  apply gateA_sim
  have := seqConj_mask (kwList env rec scope s j n) (selList sel) rfl
  exact this


/-! ## the same content at another place of the store -/

/-- a content without `$ref` / `$dynamicRef` has the same outcome wherever it is placed, given the same recursive calls -/
theorem specBody_move (env : Spec.Env) (rec : Spec.Rec) (scope scope' : List NodeId) (s s' : NodeId) (j : Json) (n : Node)
    (hr : n.ref = "") (hd : n.dynamicRef = "") (hrec : rec (scope ++ [s]) = rec (scope' ++ [s'])) :
    specBody env rec scope s j n = specBody env rec scope' s' j n := by
  unfold specBody kwList
  rw [hrec, kwRef_absent env _ n j s hr, kwRef_absent env _ n j s' hr, kwDynamicRef_vocab_absent env _ n j _ _ s hd,
    kwDynamicRef_vocab_absent env _ n j _ _ s' hd]

/-- the verdict of a conjunction: defined when both outcomes are, valid when both are -/
def verdict2 (a b : Spec.Out) : Option Bool :=
  match a, b with
  | some r1, some r2 => some (r1.isSome && r2.isSome)
  | _, _ => none

@[simp] theorem verdict2_some (r1 r2 : Spec.R) : verdict2 (some r1) (some r2) = some (r1.isSome && r2.isSome) := rfl
@[simp] theorem verdict2_none_left (b : Spec.Out) : verdict2 none b = none := rfl
@[simp] theorem verdict2_none_right (a : Spec.Out) : verdict2 a none = none := by cases a <;> rfl

theorem oconj2_verdict (a b : Spec.Out) : (oconj2 a b).map (·.isSome) = verdict2 a b := by
  cases a <;> cases b <;> try rfl
  rename_i r1 r2
  cases r1 <;> cases r2 <;> rfl

/-- **In the store.**  Three schema objects: `s` with content `n` (no `unevaluated*`, `$ref`, `$dynamicRef`), `s1` with the
    selected keyword groups of `n`, `s2` with the others; scopes that designate alike (same schema resource, or no dynamic
    anchors).  Then `s` has the outcome of the conjunction of `s1` and `s2`. -/
theorem evalFuel_split (env : Spec.Env) (fuel : Nat) (scope : List NodeId) (s s1 s2 : NodeId) (n n1 n2 : Node) (j : Json)
    (sel : Group → Bool) (hn : env.st.get? s = some n) (hn1 : env.st.get? s1 = some n1) (hn2 : env.st.get? s2 = some n2)
    (hk1 : keywords n1 = pick sel n) (hk2 : keywords n2 = pick (fun g => !sel g) n)
    (hu : NoUneval n) (hr : n.ref = "") (hd : n.dynamicRef = "")
    (hs1 : ScopeEqv env (scope ++ [s1]) (scope ++ [s])) (hs2 : ScopeEqv env (scope ++ [s2]) (scope ++ [s])) :
    OutSim (Spec.evalFuel env (fuel + 1) scope s j)
      (oconj2 (Spec.evalFuel env (fuel + 1) scope s1 j) (Spec.evalFuel env (fuel + 1) scope s2 j)) := by
  rw [evalFuel_succ env fuel scope s j n hn, specBody_keywords,
    evalFuel_succ_of env fuel scope s1 j n1 _ hn1 hk1, evalFuel_succ_of env fuel scope s2 j n2 _ hn2 hk2]
  have hpr : ∀ sel', (pick sel' n).ref = "" ∧ (pick sel' n).dynamicRef = "" := by
    intro sel'
    constructor
    · show (if sel' .ref then n.ref else "") = ""; rw [hr]; split <;> rfl
    · show (if sel' .dynamicRef then n.dynamicRef else "") = ""; rw [hd]; split <;> rfl
  have e1 : Spec.evalFuel env fuel (scope ++ [s1]) = Spec.evalFuel env fuel (scope ++ [s]) := by
    funext t j'; exact evalFuel_scope_eqv env fuel _ _ t j' hs1
  have e2 : Spec.evalFuel env fuel (scope ++ [s2]) = Spec.evalFuel env fuel (scope ++ [s]) := by
    funext t j'; exact evalFuel_scope_eqv env fuel _ _ t j' hs2
  rw [specBody_move env _ scope scope s1 s j _ (hpr sel).1 (hpr sel).2 e1,
    specBody_move env _ scope scope s2 s j _ (hpr _).1 (hpr _).2 e2]
  exact specBody_split env _ scope s j n sel hu (by simp [hr])

end Laws
end JSV
