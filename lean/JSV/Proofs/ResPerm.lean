/-
  Helper lemmas for C14 (Resolve): what the resolver reads of a schema object does not depend on the order in
  which its maps are listed.  `Node.children` (Schema.all / resolveURIs: maps by sorted key) is literally the same
  list; `childEntries` (checkStructure: reflect's MapRange) is a permutation, and so is what checkStructure registers.
-/
import JSV.Proofs.InvPermLoops
import JSV.Proofs.MshSort
import JSV.Proofs.ResTree
import JSV.Proofs.Tot
namespace JSV
namespace Go
namespace RPerm
open Inv RInv

/-! ### sorted keys are canonical -/

theorem insertSorted_eq_insertKV (e : String × NodeId) : ∀ l, insertSorted e l = insertKV e l
  | [] => rfl
  | x :: xs => by
    unfold insertSorted insertKV
    rw [insertSorted_eq_insertKV e xs]

theorem sortByKey_eq_sortKV (l : List (String × NodeId)) : sortByKey l = sortKV l := by
  induction l with
  | nil => rfl
  | cons x xs ih =>
    show insertSorted x (sortByKey xs) = insertKV x (sortKV xs)
    rw [ih, insertSorted_eq_insertKV]

/-- `slices.Sorted(maps.Keys(m))`: the order in which a map with distinct keys is enumerated is irrelevant -/
theorem sortByKey_perm {l₁ l₂ : List (String × NodeId)} (hp : l₁.Perm l₂) (hn : (l₁.map (·.1)).Nodup) :
    sortByKey l₁ = sortByKey l₂ := by
  rw [sortByKey_eq_sortKV, sortByKey_eq_sortKV]
  exact sortKV_eq_of_perm hp hn

/-! ### schema objects -/

/-- the keys of every schema-valued map of the object are distinct (as in a Go map) -/
def KeysNodup (n : Node) : Prop :=
  ∀ j kvs, ChildField.keyed j (some kvs) ∈ n.childFields → (kvs.map (·.1)).Nodup

def StoreKeysNodup (st : Store) : Prop := ∀ i n, st.get? i = some n → KeysNodup n

theorem optPerm_symm {α : Type} {a b : Option (List α)} (h : optPerm a b) : optPerm b a := by
  cases a <;> cases b <;> simp_all [optPerm]
  exact h.symm

theorem permNode_symm {a b : Node} (h : permNode a b) : permNode b a := by
  obtain ⟨p, pp, d, df, ds, dst, dr, dsc, h1, h2, h3, h4, h5, h6, h7, h8, rfl⟩ := h
  exact ⟨a.properties, a.patternProperties, a.defs, a.definitions, a.dependencySchemas, a.dependencyStrings,
    a.dependentRequired, a.dependentSchemas, optPerm_symm h1, optPerm_symm h2, optPerm_symm h3, optPerm_symm h4, optPerm_symm h5, optPerm_symm h6,
    optPerm_symm h7, optPerm_symm h8, rfl⟩

theorem permStore_symm {s1 s2 : Store} (h : permStore s1 s2) : permStore s2 s1 := by
  refine ⟨h.1.symm, fun i => ?_⟩
  have := h.2 i
  cases h1 : s1.get? i <;> cases h2 : s2.get? i <;> rw [h1, h2] at this
  · trivial
  · exact this
  · exact this
  · exact permNode_symm this

theorem sortByKey_optPerm {a b : Option (List (String × NodeId))} (h : optPerm a b)
    (hn : ∀ kvs, a = some kvs → (kvs.map (·.1)).Nodup) : sortByKey (a.getD []) = sortByKey (b.getD []) := by
  cases a with
  | none => cases b with
    | none => rfl
    | some y => exact h.elim
  | some x => cases b with
    | none => exact h.elim
    | some y => exact sortByKey_perm h (hn x rfl)

/-- a checker for `StoreKeysNodup` -/
def keysNodupB (st : Store) : Bool :=
  st.toList.all fun n => n.childFields.all fun f =>
    match f with
    | .keyed _ (some kvs) => decide (kvs.map (·.1)).Nodup
    | _ => true

theorem storeKeysNodup_of_check (st : Store) (h : keysNodupB st = true) : StoreKeysNodup st := by
  intro i n hi j kvs hm
  unfold keysNodupB at h
  rw [List.all_eq_true] at h
  have hmem : n ∈ st.toList := by
    unfold Store.get? at hi
    rw [Array.mem_toList_iff]
    exact Array.mem_of_getElem? hi
  have := h n hmem
  rw [List.all_eq_true] at this
  have := this _ hm
  simpa using this

/-- Schema.all / resolveURIs visit the same children in the same order -/
theorem children_perm {a b : Node} (h : permNode a b) (hn : KeysNodup a) : b.children = a.children := by
  obtain ⟨p, pp, d, df, ds, dst, dr, dsc, h1, h2, h3, h4, h5, h6, h7, h8, rfl⟩ := h
  have e1 := sortByKey_optPerm h1 (fun kvs e => hn "properties" kvs (by rw [← e]; simp [Node.childFields]))
  have e2 := sortByKey_optPerm h2 (fun kvs e => hn "patternProperties" kvs (by rw [← e]; simp [Node.childFields]))
  have e3 := sortByKey_optPerm h3 (fun kvs e => hn "$defs" kvs (by rw [← e]; simp [Node.childFields]))
  have e4 := sortByKey_optPerm h4 (fun kvs e => hn "definitions" kvs (by rw [← e]; simp [Node.childFields]))
  have e5 := sortByKey_optPerm h5 (fun kvs e => hn "dependencies" kvs (by rw [← e]; simp [Node.childFields]))
  have e8 := sortByKey_optPerm h8 (fun kvs e => hn "dependentSchemas" kvs (by rw [← e]; simp [Node.childFields]))
  unfold Node.children Node.childFields
  simp only [List.flatMap_cons, List.flatMap_nil]
  rw [e1, e2, e3, e4, e5, e8]

theorem keysNodup_perm {a b : Node} (h : permNode a b) (hn : KeysNodup a) : KeysNodup b := by
  obtain ⟨p, pp, d, df, ds, dst, dr, dsc, h1, h2, h3, h4, h5, h6, h7, h8, rfl⟩ := h
  have key : ∀ {x y : Option (List (String × NodeId))} (j : String), optPerm x y →
      (∀ kvs, x = some kvs → (kvs.map (·.1)).Nodup) → ∀ kvs, y = some kvs → (kvs.map (·.1)).Nodup := by
    intro x y j hxy hx kvs e
    subst e
    cases x with
    | none => exact hxy.elim
    | some l => exact ((List.Perm.map _ hxy).nodup_iff).mp (hx l rfl)
  intro j kvs hm
  simp only [Node.childFields, List.mem_cons, ChildField.keyed.injEq, List.not_mem_nil, or_false,
    reduceCtorEq, false_or] at hm
  rcases hm with ⟨rfl, e⟩ | ⟨rfl, e⟩ | ⟨rfl, e⟩ | ⟨rfl, e⟩ | ⟨rfl, e⟩ | ⟨rfl, e⟩
  · exact key "$defs" h3 (fun kvs e => hn "$defs" kvs (by rw [← e]; simp [Node.childFields])) kvs e.symm
  · exact key "definitions" h4 (fun kvs e => hn "definitions" kvs (by rw [← e]; simp [Node.childFields])) kvs e.symm
  · exact key "dependencies" h5 (fun kvs e => hn "dependencies" kvs (by rw [← e]; simp [Node.childFields])) kvs e.symm
  · exact key "dependentSchemas" h8 (fun kvs e => hn "dependentSchemas" kvs (by rw [← e]; simp [Node.childFields])) kvs e.symm
  · exact key "patternProperties" h2 (fun kvs e => hn "patternProperties" kvs (by rw [← e]; simp [Node.childFields])) kvs e.symm
  · exact key "properties" h1 (fun kvs e => hn "properties" kvs (by rw [← e]; simp [Node.childFields])) kvs e.symm

theorem storeKeysNodup_perm {s1 s2 : Store} (h : permStore s1 s2) (hn : StoreKeysNodup s1) : StoreKeysNodup s2 := by
  intro i n2 h2
  obtain ⟨n1, h1, hp⟩ := permStore_get h h2
  exact keysNodup_perm hp (hn i n1 h1)

/-- checkStructure pushes the same entries, in another order -/
theorem childEntries_perm {a b : Node} (h : permNode a b) (path : String) :
    (childEntries a path).Perm (childEntries b path) := by
  obtain ⟨p, pp, d, df, ds, dst, dr, dsc, h1, h2, h3, h4, h5, h6, h7, h8, rfl⟩ := h
  unfold childEntries Node.childFields
  simp only [List.flatMap_cons, List.flatMap_nil]
  repeat' apply List.Perm.append
  all_goals first
    | exact List.Perm.refl _
    | exact h1.getD.map _
    | exact h2.getD.map _
    | exact h3.getD.map _
    | exact h4.getD.map _
    | exact h5.getD.map _
    | exact h8.getD.map _

/-! ### checkLocal -/

theorem perm_any_eq {α : Type} (p : α → Bool) {l1 l2 : List α} (h : l1.Perm l2) : l1.any p = l2.any p := by
  rw [Bool.eq_iff_iff, List.any_eq_true, List.any_eq_true]
  exact ⟨fun ⟨x, hx, hp⟩ => ⟨x, h.mem_iff.mp hx, hp⟩, fun ⟨x, hx, hp⟩ => ⟨x, h.mem_iff.mpr hx, hp⟩⟩

theorem optPerm_isSome {α : Type} {a b : Option (List α)} (h : optPerm a b) : b.isSome = a.isSome := by
  cases a <;> cases b <;> simp_all [optPerm]

theorem basicChecksOk_perm {a b : Node} (h : permNode a b) : basicChecksOk b = basicChecksOk a := by
  obtain ⟨p, pp, d, df, ds, dst, dr, dsc, h1, h2, h3, h4, h5, h6, h7, h8, rfl⟩ := h
  unfold basicChecksOk
  simp only
  rw [optPerm_isSome h3, optPerm_isSome h4, ← perm_any_eq _ h5.getD]
  have : (fun (x : String × NodeId) => (dst.getD []).any fun x' => x'.1 == x.1) =
      (fun (x : String × NodeId) => (a.dependencyStrings.getD []).any fun x' => x'.1 == x.1) := by
    funext x
    exact (perm_any_eq _ h6.getD).symm
  simp only [this]

theorem checkLocalOk_perm (env : Env) {a b : Node} (h : permNode a b) : checkLocalOk env b = checkLocalOk env a := by
  unfold checkLocalOk
  rw [basicChecksOk_perm h]
  obtain ⟨p, pp, d, df, ds, dst, dr, dsc, h1, h2, h3, h4, h5, h6, h7, h8, rfl⟩ := h
  simp only
  rw [← perm_all_eq _ h2.getD]

/-! ### checkStructure: the registered schemas do not depend on the order of the worklist -/

theorem lookupNat_eq_none_iff {α} (k : Nat) (l : List (Nat × α)) : lookupNat k l = none ↔ k ∉ l.map (·.1) := by
  induction l with
  | nil => simp [lookupNat]
  | cons e r ih =>
    obtain ⟨k', v⟩ := e
    unfold lookupNat
    by_cases hk : k' = k
    · simp [hk]
    · rw [if_neg hk, ih]
      simp only [List.map_cons, List.mem_cons, not_or]
      exact ⟨fun h => ⟨fun e => hk e.symm, h⟩, fun h => h.2⟩

/-- the record checkStructure creates -/
def infoOf (path : String) : Info := { path := if path == "" then "root" else path }

theorem cs_cons (st : Store) (fuel : Nat) (id : NodeId) (path : String) (work : List (NodeId × String))
    (acc : List (NodeId × Info)) :
    checkStructure st (fuel + 1) ((id, path) :: work) acc =
      match st.get? id with
      | none => .err
      | some n =>
        if (lookupNat id acc).isSome then .err
        else checkStructure st fuel (childEntries n path ++ work) (acc ++ [(id, infoOf path)]) := by
  rw [checkStructure]; rfl

theorem cs_cons_ok (st : Store) (fuel : Nat) (id : NodeId) (path : String) (work : List (NodeId × String))
    (acc res : List (NodeId × Info)) :
    checkStructure st (fuel + 1) ((id, path) :: work) acc = .ok res ↔
      ∃ n, st.get? id = some n ∧ id ∉ acc.map (·.1) ∧
        checkStructure st fuel (childEntries n path ++ work) (acc ++ [(id, infoOf path)]) = .ok res := by
  rw [cs_cons]
  cases hn : st.get? id with
  | none => simp
  | some n =>
    simp only [Option.some.injEq, exists_eq_left']
    cases hl : lookupNat id acc with
    | none =>
      simp only [Option.isSome_none, Bool.false_eq_true, if_false]
      exact ⟨fun h => ⟨(lookupNat_eq_none_iff id acc).mp hl, h⟩, fun h => h.2⟩
    | some i =>
      simp only [Option.isSome_some, if_true]
      constructor
      · intro h; cases h
      · intro h
        have := (lookupNat_eq_none_iff id acc).mpr h.1
        rw [hl] at this; cases this

theorem cs_nil (st : Store) (fuel : Nat) (acc : List (NodeId × Info)) :
    checkStructure st (fuel + 1) [] acc = .ok acc := by
  rw [checkStructure]

theorem cs_zero (st : Store) (w : List (NodeId × String)) (acc : List (NodeId × Info)) :
    checkStructure st 0 w acc = .fuel := by
  rw [checkStructure]

/-- more fuel does not change an outcome -/
theorem cs_mono (st : Store) : ∀ f k w acc, checkStructure st f w acc ≠ .fuel →
    checkStructure st (f + k) w acc = checkStructure st f w acc := by
  intro f
  induction f with
  | zero => intro k w acc h; exact absurd (cs_zero st w acc) h
  | succ f ih =>
    intro k w acc h
    have e : f + 1 + k = (f + k) + 1 := by omega
    rw [e]
    cases w with
    | nil => rw [cs_nil, cs_nil]
    | cons x w =>
      obtain ⟨id, path⟩ := x
      rw [cs_cons] at h ⊢
      rw [cs_cons]
      cases hn : st.get? id with
      | none => rfl
      | some n =>
        rw [hn] at h
        simp only at h ⊢
        split
        · rfl
        · rename_i hl
          rw [if_neg hl] at h
          exact ih k _ _ h

theorem cs_mono_ok (st : Store) (f f' : Nat) (w : List (NodeId × String)) (acc res : List (NodeId × Info))
    (h : checkStructure st f w acc = .ok res) (hle : f ≤ f') : checkStructure st f' w acc = .ok res := by
  obtain ⟨k, rfl⟩ := Nat.exists_eq_add_of_le hle
  rw [cs_mono st f k w acc (by rw [h]; simp), h]

/-- the result extends the accumulator by schemas that were not in it -/
theorem cs_extends (st : Store) : ∀ f w acc res, checkStructure st f w acc = .ok res →
    ∃ D, res = acc ++ D ∧ ∀ x ∈ D.map (·.1), x ∉ acc.map (·.1) := by
  intro f
  induction f with
  | zero => intro w acc res h; rw [cs_zero] at h; cases h
  | succ f ih =>
    intro w acc res h
    cases w with
    | nil =>
      rw [cs_nil] at h
      simp only [Res.ok.injEq] at h
      exact ⟨[], by rw [← h]; simp, by simp⟩
    | cons x w =>
      obtain ⟨id, path⟩ := x
      obtain ⟨n, hn, hid, h⟩ := (cs_cons_ok st f id path w acc res).mp h
      obtain ⟨D, hD, hdis⟩ := ih _ _ _ h
      refine ⟨(id, infoOf path) :: D, by rw [hD]; simp, ?_⟩
      intro x hx
      simp only [List.map_cons, List.mem_cons] at hx
      rcases hx with rfl | hx
      · exact hid
      · intro hm
        exact hdis x hx (by simp [hm])

/-- a shorter accumulator: the run succeeds all the more -/
theorem cs_drop (st : Store) : ∀ f w A B res, checkStructure st f w (A ++ B) = .ok res →
    ∃ D, res = A ++ B ++ D ∧ checkStructure st f w B = .ok (B ++ D) := by
  intro f
  induction f with
  | zero => intro w A B res h; rw [cs_zero] at h; cases h
  | succ f ih =>
    intro w A B res h
    cases w with
    | nil =>
      rw [cs_nil] at h
      simp only [Res.ok.injEq] at h
      exact ⟨[], by rw [← h]; simp, by rw [cs_nil]; simp⟩
    | cons x w =>
      obtain ⟨id, path⟩ := x
      obtain ⟨n, hn, hid, h⟩ := (cs_cons_ok st f id path w (A ++ B) res).mp h
      rw [List.append_assoc] at h
      obtain ⟨D, hD, hrun⟩ := ih _ A (B ++ [(id, infoOf path)]) res h
      refine ⟨(id, infoOf path) :: D, by rw [hD]; simp, ?_⟩
      rw [cs_cons_ok]
      refine ⟨n, hn, ?_, ?_⟩
      · intro hm; exact hid (by simp [hm])
      · rw [hrun]; simp

/-- a longer accumulator, disjoint from what the run adds -/
theorem cs_add (st : Store) : ∀ f w A B D, checkStructure st f w B = .ok (B ++ D) →
    (∀ x ∈ D.map (·.1), x ∉ A.map (·.1)) → checkStructure st f w (A ++ B) = .ok (A ++ B ++ D) := by
  intro f
  induction f with
  | zero => intro w A B D h; rw [cs_zero] at h; cases h
  | succ f ih =>
    intro w A B D h hdis
    cases w with
    | nil =>
      rw [cs_nil] at h ⊢
      simp only [Res.ok.injEq] at h ⊢
      have : D = [] := by
        have := congrArg List.length h
        simp only [List.length_append] at this
        exact List.length_eq_zero_iff.mp (by omega)
      rw [this]; simp
    | cons x w =>
      obtain ⟨id, path⟩ := x
      obtain ⟨n, hn, hid, h⟩ := (cs_cons_ok st f id path w B (B ++ D)).mp h
      obtain ⟨D', hD', _⟩ := cs_extends st _ _ _ _ h
      have hDeq : D = (id, infoOf path) :: D' := by
        rw [List.append_assoc] at hD'
        exact List.append_cancel_left hD'
      subst hDeq
      rw [cs_cons_ok]
      refine ⟨n, hn, ?_, ?_⟩
      · intro hm
        simp only [List.map_append, List.mem_append] at hm
        rcases hm with hm | hm
        · exact hdis id (by simp) hm
        · exact hid hm
      · have h' : checkStructure st f (childEntries n path ++ w) (B ++ [(id, infoOf path)]) =
            .ok ((B ++ [(id, infoOf path)]) ++ D') := by rw [h]; simp
        have := ih _ A _ D' h' (fun x hx => hdis x (by simp [hx]))
        rw [List.append_assoc]
        rw [this]; simp

/-- a worklist `w1 ++ w2` is processed as `w1`, then `w2` -/
theorem cs_split (st : Store) : ∀ f w1 w2 acc res, checkStructure st f (w1 ++ w2) acc = .ok res →
    ∃ mid, checkStructure st f w1 acc = .ok mid ∧ checkStructure st f w2 mid = .ok res := by
  intro f
  induction f with
  | zero => intro w1 w2 acc res h; rw [cs_zero] at h; cases h
  | succ f ih =>
    intro w1 w2 acc res h
    cases w1 with
    | nil => exact ⟨acc, cs_nil st f acc, h⟩
    | cons x w1 =>
      obtain ⟨id, path⟩ := x
      rw [List.cons_append] at h
      obtain ⟨n, hn, hid, h⟩ := (cs_cons_ok st f id path (w1 ++ w2) acc res).mp h
      rw [← List.append_assoc] at h
      obtain ⟨mid, h1, h2⟩ := ih _ _ _ _ h
      exact ⟨mid, (cs_cons_ok st f id path w1 acc mid).mpr ⟨n, hn, hid, h1⟩, cs_mono_ok st f (f + 1) _ _ _ h2 (by omega)⟩

theorem cs_join (st : Store) : ∀ f1 f2 w1 w2 acc mid res, checkStructure st f1 w1 acc = .ok mid →
    checkStructure st f2 w2 mid = .ok res → checkStructure st (f1 + f2) (w1 ++ w2) acc = .ok res := by
  intro f1
  induction f1 with
  | zero => intro f2 w1 w2 acc mid res h; rw [cs_zero] at h; cases h
  | succ f1 ih =>
    intro f2 w1 w2 acc mid res h1 h2
    cases w1 with
    | nil =>
      rw [cs_nil] at h1
      simp only [Res.ok.injEq] at h1
      subst h1
      exact cs_mono_ok st f2 _ _ _ _ h2 (by omega)
    | cons x w1 =>
      obtain ⟨id, path⟩ := x
      obtain ⟨n, hn, hid, h1⟩ := (cs_cons_ok st f1 id path w1 acc mid).mp h1
      have e : f1 + 1 + f2 = (f1 + f2) + 1 := by omega
      rw [e, List.cons_append, cs_cons_ok]
      refine ⟨n, hn, hid, ?_⟩
      rw [← List.append_assoc]
      exact ih f2 _ _ _ _ _ h1 h2

/-- started with nothing registered, with some amount of fuel, the worklist `w` registers `D` -/
def Sub (st : Store) (w : List (NodeId × String)) (D : List (NodeId × Info)) : Prop :=
  ∃ f, checkStructure st f w [] = .ok D

theorem sub_nil (st : Store) : Sub st [] [] := ⟨1, cs_nil st 0 []⟩

theorem sub_append_iff (st : Store) (w1 w2 : List (NodeId × String)) (D : List (NodeId × Info)) :
    Sub st (w1 ++ w2) D ↔ ∃ D1 D2, D = D1 ++ D2 ∧ Sub st w1 D1 ∧ Sub st w2 D2 ∧
      ∀ x ∈ D2.map (·.1), x ∉ D1.map (·.1) := by
  constructor
  · rintro ⟨f, h⟩
    obtain ⟨D1, h1, h2⟩ := cs_split st f w1 w2 [] D h
    obtain ⟨D2, hD, hdis⟩ := cs_extends st f w2 D1 D h2
    have h2' : checkStructure st f w2 (D1 ++ []) = .ok D := by rw [List.append_nil]; exact h2
    obtain ⟨D2', hD', hrun⟩ := cs_drop st f w2 D1 [] D h2'
    rw [List.append_nil] at hD'
    have : D2' = D2 := List.append_cancel_left (hD'.symm.trans hD)
    subst this
    exact ⟨D1, D2', hD, ⟨f, h1⟩, ⟨f, by simpa using hrun⟩, hdis⟩
  · rintro ⟨D1, D2, rfl, ⟨f1, h1⟩, ⟨f2, h2⟩, hdis⟩
    have h2' : checkStructure st f2 w2 [] = .ok ([] ++ D2) := by simpa using h2
    have := cs_add st f2 w2 D1 [] D2 h2' hdis
    rw [List.append_nil] at this
    exact ⟨f1 + f2, cs_join st f1 f2 w1 w2 [] D1 _ h1 this⟩

theorem sub_single_iff (st : Store) (id : NodeId) (path : String) (D : List (NodeId × Info)) :
    Sub st [(id, path)] D ↔ ∃ n D0, st.get? id = some n ∧ D = (id, infoOf path) :: D0 ∧
      Sub st (childEntries n path) D0 ∧ id ∉ D0.map (·.1) := by
  constructor
  · rintro ⟨f, h⟩
    cases f with
    | zero => rw [cs_zero] at h; cases h
    | succ f =>
      obtain ⟨n, hn, _, h⟩ := (cs_cons_ok st f id path [] [] D).mp h
      rw [List.append_nil, List.nil_append] at h
      obtain ⟨D0, hD, hdis⟩ := cs_extends st f _ _ D h
      have h' : checkStructure st f (childEntries n path) ([(id, infoOf path)] ++ []) = .ok D := h
      obtain ⟨D0', hD', hrun⟩ := cs_drop st f _ [(id, infoOf path)] [] D h'
      rw [List.append_nil] at hD'
      have : D0' = D0 := List.append_cancel_left (hD'.symm.trans hD)
      subst this
      refine ⟨n, D0', hn, hD, ⟨f, by simpa using hrun⟩, ?_⟩
      intro hm
      exact hdis id hm (by simp)
  · rintro ⟨n, D0, hn, rfl, ⟨f, h⟩, hid⟩
    refine ⟨f + 1, (cs_cons_ok st f id path [] [] _).mpr ⟨n, hn, by simp, ?_⟩⟩
    rw [List.append_nil, List.nil_append]
    have h' : checkStructure st f (childEntries n path) [] = .ok ([] ++ D0) := by simpa using h
    have := cs_add st f _ [(id, infoOf path)] [] D0 h' (by
      intro x hx hm
      simp only [List.map_cons, List.map_nil, List.mem_singleton] at hm
      subst hm; exact hid hx)
    simpa using this

theorem sub_cons_iff (st : Store) (x : NodeId × String) (w : List (NodeId × String)) (D : List (NodeId × Info)) :
    Sub st (x :: w) D ↔ ∃ D1 D2, D = D1 ++ D2 ∧ Sub st [x] D1 ∧ Sub st w D2 ∧
      ∀ y ∈ D2.map (·.1), y ∉ D1.map (·.1) :=
  sub_append_iff st [x] w D

theorem perm_keys_disjoint {A A' B B' : List (NodeId × Info)} (hA : A.Perm A') (hB : B.Perm B')
    (h : ∀ y ∈ B.map (·.1), y ∉ A.map (·.1)) : ∀ y ∈ B'.map (·.1), y ∉ A'.map (·.1) := by
  intro y hy hm
  exact h y ((hB.map _).mem_iff.mpr hy) ((hA.map _).mem_iff.mpr hm)

/-- within one store: the order of the worklist only changes the order of the result -/
theorem sub_perm (st : Store) {w w' : List (NodeId × String)} (hp : w.Perm w') :
    ∀ D, Sub st w D → ∃ D', Sub st w' D' ∧ D.Perm D' := by
  induction hp with
  | nil => intro D h; exact ⟨D, h, List.Perm.refl _⟩
  | cons x _ ih =>
    intro D h
    obtain ⟨D1, D2, rfl, h1, h2, hdis⟩ := (sub_cons_iff st x _ D).mp h
    obtain ⟨D2', h2', hp2⟩ := ih D2 h2
    exact ⟨D1 ++ D2', (sub_cons_iff st x _ _).mpr ⟨D1, D2', rfl, h1, h2', perm_keys_disjoint (List.Perm.refl _) hp2 hdis⟩,
      List.Perm.append_left _ hp2⟩
  | swap x y l =>
    intro D h
    obtain ⟨Dy, D2, rfl, hy, h2, hdis1⟩ := (sub_cons_iff st y _ D).mp h
    obtain ⟨Dx, Dl, rfl, hx, hl, hdis2⟩ := (sub_cons_iff st x _ D2).mp h2
    refine ⟨Dx ++ (Dy ++ Dl), (sub_cons_iff st x _ _).mpr ⟨Dx, Dy ++ Dl, rfl, hx,
      (sub_cons_iff st y _ _).mpr ⟨Dy, Dl, rfl, hy, hl, ?_⟩, ?_⟩, ?_⟩
    · intro z hz
      exact hdis1 z (by simp only [List.map_append, List.mem_append]; exact Or.inr hz)
    · intro z hz hm
      simp only [List.map_append, List.mem_append] at hz
      rcases hz with hz | hz
      · exact hdis1 z (by simp only [List.map_append, List.mem_append]; exact Or.inl hm) hz
      · exact hdis2 z hz hm
    · rw [← List.append_assoc, ← List.append_assoc]
      exact List.Perm.append_right _ List.perm_append_comm
  | trans _ _ ih1 ih2 =>
    intro D h
    obtain ⟨D', h', hp'⟩ := ih1 D h
    obtain ⟨D'', h'', hp''⟩ := ih2 D' h'
    exact ⟨D'', h'', hp'.trans hp''⟩

/-- across two stores that differ in the order of the maps -/
theorem sub_store_perm (st st' : Store) (hst : permStore st st') : ∀ f w D,
    checkStructure st f w [] = .ok D → ∃ D', Sub st' w D' ∧ D.Perm D' := by
  intro f
  induction f with
  | zero => intro w D h; rw [cs_zero] at h; cases h
  | succ f ih =>
    -- one entry
    have single : ∀ x D1, checkStructure st (f + 1) [x] [] = .ok D1 → ∃ D1', Sub st' [x] D1' ∧ D1.Perm D1' := by
      intro x D1 h
      obtain ⟨id, path⟩ := x
      obtain ⟨n, hn, _, h⟩ := (cs_cons_ok st f id path [] [] D1).mp h
      rw [List.append_nil, List.nil_append] at h
      obtain ⟨D0, hD, hdis⟩ := cs_extends st f _ _ D1 h
      have h' : checkStructure st f (childEntries n path) ([(id, infoOf path)] ++ []) = .ok D1 := h
      obtain ⟨D0', hD', hrun⟩ := cs_drop st f _ [(id, infoOf path)] [] D1 h'
      rw [List.append_nil] at hD'
      have : D0' = D0 := List.append_cancel_left (hD'.symm.trans hD)
      subst this
      rw [List.nil_append] at hrun
      obtain ⟨n', hn', hpn⟩ := permStore_get' hst hn
      obtain ⟨E, hE, hpE⟩ := ih _ _ hrun
      obtain ⟨E', hE', hpE'⟩ := sub_perm st' (childEntries_perm hpn path) E hE
      refine ⟨(id, infoOf path) :: E', (sub_single_iff st' id path _).mpr ⟨n', E', hn', rfl, hE', ?_⟩, ?_⟩
      · intro hm
        have : id ∈ D0'.map (·.1) := ((hpE.trans hpE').map _).mem_iff.mpr hm
        exact hdis id this (by simp)
      · rw [hD]; exact List.Perm.cons _ (hpE.trans hpE')
    intro w
    induction w with
    | nil =>
      intro D h
      rw [cs_nil] at h
      simp only [Res.ok.injEq] at h
      subst h
      exact ⟨[], sub_nil st', List.Perm.refl _⟩
    | cons x w ihw =>
      intro D h
      obtain ⟨D1, D2, rfl, ⟨f1, h1⟩, ⟨f2, h2⟩, hdis⟩ := (sub_cons_iff st x w D).mp ⟨f + 1, h⟩
      -- both parts succeed with the fuel of the whole run
      obtain ⟨mid, hm1, hm2⟩ := cs_split st (f + 1) [x] w [] _ h
      have hmid : mid = D1 := by
        have a := cs_mono_ok st _ (f + 1 + f1) _ _ _ hm1 (by omega)
        have b := cs_mono_ok st _ (f + 1 + f1) _ _ _ h1 (by omega)
        rw [a] at b
        simp only [Res.ok.injEq] at b
        exact b
      subst hmid
      have hm2' : checkStructure st (f + 1) w (mid ++ []) = .ok (mid ++ D2) := by rw [List.append_nil]; exact hm2
      obtain ⟨D2', hD2', hrun2⟩ := cs_drop st (f + 1) w mid [] _ hm2'
      rw [List.append_nil] at hD2'
      have : D2' = D2 := (List.append_cancel_left hD2').symm
      subst this
      rw [List.nil_append] at hrun2
      obtain ⟨E1, hE1, hp1⟩ := single x mid hm1
      obtain ⟨E2, hE2, hp2⟩ := ihw D2' hrun2
      exact ⟨E1 ++ E2, (sub_cons_iff st' x w _).mpr ⟨E1, E2, rfl, hE1, hE2, perm_keys_disjoint hp1 hp2 hdis⟩,
        hp1.append hp2⟩

/-- checkStructure on the permuted store: it succeeds when it did, and registers the same schemas under the same
    paths, in another order -/
theorem checkStructure_perm_ok (st st' : Store) (hst : permStore st st') (root : NodeId) (fresh : List (NodeId × Info))
    (h : checkStructure st (st.size + 2) [(root, "")] [] = .ok fresh) :
    ∃ fresh', checkStructure st' (st'.size + 2) [(root, "")] [] = .ok fresh' ∧ fresh.Perm fresh' := by
  obtain ⟨fresh', ⟨f', hf'⟩, hp⟩ := sub_store_perm st st' hst _ _ _ h
  refine ⟨fresh', ?_, hp⟩
  have hnf : checkStructure st' (st'.size + 2) [(root, "")] [] ≠ .fuel :=
    C10.checkStructure_no_fuel_gen st' _ _ [] ⟨List.nodup_nil, fun _ h => nomatch h⟩ (by simp)
  rcases Nat.le_total f' (st'.size + 2) with hle | hle
  · exact cs_mono_ok st' f' _ _ _ _ hf' hle
  · obtain ⟨k, rfl⟩ := Nat.exists_eq_add_of_le hle
    rw [← cs_mono st' _ k _ _ hnf]; exact hf'

/-- hence the same outcome: registered schemas up to order, or the same refusal -/
theorem checkStructure_perm_outcome (st st' : Store) (hst : permStore st st') (root : NodeId) :
    match checkStructure st (st.size + 2) [(root, "")] [], checkStructure st' (st'.size + 2) [(root, "")] [] with
    | .ok a, .ok b => a.Perm b
    | .err, .err => True
    | _, _ => False := by
  have hnf : checkStructure st (st.size + 2) [(root, "")] [] ≠ .fuel :=
    C10.checkStructure_no_fuel_gen st _ _ [] ⟨List.nodup_nil, fun _ h => nomatch h⟩ (by simp)
  have hnf' : checkStructure st' (st'.size + 2) [(root, "")] [] ≠ .fuel :=
    C10.checkStructure_no_fuel_gen st' _ _ [] ⟨List.nodup_nil, fun _ h => nomatch h⟩ (by simp)
  have hnp := C10.checkStructure_no_panic_gen st (st.size + 2) [(root, "")] []
  have hnp' := C10.checkStructure_no_panic_gen st' (st'.size + 2) [(root, "")] []
  cases h1 : checkStructure st (st.size + 2) [(root, "")] [] with
  | fuel => exact absurd h1 hnf
  | panic => exact absurd h1 hnp
  | ok a =>
    obtain ⟨b, hb, hp⟩ := checkStructure_perm_ok st st' hst root a h1
    rw [hb]; exact hp
  | err =>
    cases h2 : checkStructure st' (st'.size + 2) [(root, "")] [] with
    | fuel => exact absurd h2 hnf'
    | panic => exact absurd h2 hnp'
    | err => trivial
    | ok b =>
      obtain ⟨a, ha, _⟩ := checkStructure_perm_ok st' st (permStore_symm hst) root b h2
      rw [h1] at ha; cases ha

end RPerm
end Go
end JSV
