/-
  Helper lemmas for C03, the converse of soundness with a Loader (fourth part): in a universe of documents that are
  all present, well-formed and coherent (`UniverseOk`, JSV/Spec/WellFormed.lean), resolveRef / resolveRefs /
  resolver.resolve return no error.  Open recursion on the loader callback; the facts about the states reached by
  successful steps come from ResDesigMulti.lean (`GInv`) and ResDraft.lean (`AllDraft`).
-/
import JSV.Proofs.ResCompleteRefs
namespace JSV
namespace Go
namespace RComp
open RInv Uri Spec RDraft

/-! ### resolveRef in two named parts -/

/-- how resolveRef finds the document / resource the fragment-less URI `fragless` names -/
def findDoc (env : Env) (recDoc : ResolveDoc) (root : NodeId) (s : RState) (d : DocRes) (fragless : Url) :
    Res (NodeId × RState) :=
  match Json.lookup (Uri.toString fragless) d.uris with
  | some t => .ok (t, s)
  | none =>
    match Json.lookup (Uri.toString fragless) s.loaded with
    | some lroot => .ok (lroot, mergeKnown s root lroot)
    | none =>
      match env.loader with
      | none => .err
      | some tbl =>
        match Json.lookup (Uri.toString fragless) tbl with
        | none => .err
        | some .fail => .err
        | some .nilDoc => .err
        | some (.doc lroot) =>
          Res.bind (recDoc lroot fragless d.draft { s with log := s.log ++ [Uri.toString fragless] }) fun s =>
            .ok (lroot, mergeKnown s root lroot)

/-- the fragment dispatch of resolveRef -/
def fragDispatch (env : Env) (root : NodeId) (frag : String) (p : NodeId × RState) : Res (RefOut × RState) :=
  if frag != "" && frag.toList.head? != some '/' then
    match p.2.info? root p.1 with
    | none => .panic
    | some rInfo =>
      match Json.lookup frag rInfo.anchors with
      | none => .err
      | some a => .ok ({ target := a.schema, dynFrag := if a.dynamic then frag else "" }, p.2)
  else
    Res.bind (Pointer.dereference env.st true true p.1 frag) fun t =>
      .ok ({ target := t, dynFrag := "" }, p.2)

theorem resolveRef_eq (env : Env) (recDoc : ResolveDoc) (root : NodeId) (s : RState) (id : NodeId) (ref : String)
    (refURI : Url) (info bInfo : Info) (base : NodeId) (bu : Url) (d : DocRes)
    (hp : Uri.parse ref = .ok refURI) (hinfo : s.info? root id = some info) (hbase : info.base = some base)
    (hbInfo : s.info? root base = some bInfo) (hbu : bInfo.uri = some bu) (hd : s.doc? root = some d) :
    resolveRef env recDoc root s id ref =
      Res.bind (findDoc env recDoc root s d (Uri.dropFragment (Uri.resolveReference bu refURI)))
        (fragDispatch env root (Uri.resolveReference bu refURI).fragment) := by
  unfold resolveRef
  rw [hp]
  simp only [Res.bind_ok, hinfo, hbase, hbInfo, hbu, hd]
  rfl

/-- when one of the table lookups of resolveRef fails the outcome is a panic, not an error -/
theorem resolveRef_ne_err_of (env : Env) (recDoc : ResolveDoc) (root : NodeId) (s : RState) (id : NodeId)
    (ref : String) (refURI : Url) (hp : Uri.parse ref = .ok refURI)
    (h : ∀ info bInfo base bu d, s.info? root id = some info → info.base = some base →
      s.info? root base = some bInfo → bInfo.uri = some bu → s.doc? root = some d →
      Res.bind (findDoc env recDoc root s d (Uri.dropFragment (Uri.resolveReference bu refURI)))
        (fragDispatch env root (Uri.resolveReference bu refURI).fragment) ≠ .err) :
    resolveRef env recDoc root s id ref ≠ .err := by
  cases hinfo : s.info? root id with
  | none => unfold resolveRef; rw [hp]; simp [hinfo]
  | some info =>
  cases hbase : info.base with
  | none => unfold resolveRef; rw [hp]; simp [hinfo, hbase]
  | some base =>
  cases hbInfo : s.info? root base with
  | none => unfold resolveRef; rw [hp]; simp [hinfo, hbase, hbInfo]
  | some bInfo =>
  cases hbu : bInfo.uri with
  | none => unfold resolveRef; rw [hp]; simp [hinfo, hbase, hbInfo, hbu]
  | some bu =>
  cases hd : s.doc? root with
  | none => unfold resolveRef; rw [hp]; simp [hinfo, hbase, hbInfo, hbu, hd]
  | some d =>
    rw [resolveRef_eq env recDoc root s id ref refURI info bInfo base bu d hp hinfo hbase hbInfo hbu hd]
    exact h info bInfo base bu d hinfo hbase hbInfo hbu hd

/-! ### the fragment selects something: the dispatch returns no error -/

/-- the anchors of a resource root have an entry for every name declared in the resource -/
theorem docInv_anchor (D : Doc) (ret : Url) (s : RState) (hD : DocInv D ret s) (r : NodeId) (a : String) (t : NodeId)
    (h : D.AnchorTarget r a t) :
    ∃ ri, lookupNat r s.infos = some ri ∧ (Json.lookup a ri.anchors).isSome = true := by
  obtain ⟨htr, dyn, n, hn, hmem⟩ := h
  obtain ⟨⟨i, r0, hi, hb, hr0, hreg⟩, _⟩ := hD.done t (ResourceRoot.has htr)
  have e : r0 = r := resourceRoot_unique D hD.uniq t r0 r hr0 htr
  subst e
  exact hreg n hn _ hmem

theorem fragDispatch_ne_err (env : Env) (D : Doc) (hst : D.st = env.st) (ret : Url) (root r : NodeId)
    (s1 : RState) (hD : DocInv D ret s1) (frag : String) (hr : (D.st.get? r).isSome = true)
    (ht : ∃ t, D.FragTarget r frag t) : fragDispatch env root frag (r, s1) ≠ .err := by
  obtain ⟨t, ht⟩ := ht
  unfold Doc.FragTarget at ht
  unfold fragDispatch
  split
  · rename_i hc
    simp only [Bool.and_eq_true, bne_iff_ne, ne_eq] at hc
    rw [if_neg hc.1, if_neg hc.2] at ht
    obtain ⟨ri, hri, hl⟩ := docInv_anchor D ret s1 hD r frag t ht
    simp only []
    split
    · simp
    · rename_i rInfo hrInfo
      split
      · rename_i hnone
        rw [info?_lookup _ _ _ _ hrInfo] at hri
        simp only [Option.some.injEq] at hri
        subst hri
        rw [hnone] at hl
        simp at hl
      · simp
  · rename_i hc
    simp only []
    refine bind_ne_err ?_ fun _ _ => by simp
    by_cases hf : frag = ""
    · subst hf
      rw [dereference_empty_ok _ _ _ _ (by rw [← hst]; exact hr)]
      simp
    · rw [if_neg hf] at ht
      have hh : frag.toList.head? = some '/' := by
        simp only [Bool.and_eq_true, bne_iff_ne, ne_eq, not_and, Decidable.not_not] at hc
        exact hc hf
      rw [if_pos hh, hst] at ht
      rw [ht]
      simp


/-! ### the invariant carried through resolveRefs, the open-recursion hypothesis -/

/-- the names of the top document are cached -/
def TopNames (env : Env) (top : NodeId) (dr : Draft) (b : Url) (s : RState) : Prop :=
  ∀ key, (⟨env.st, dr, top⟩ : Doc).Identifies b key top → (Json.lookup key s.loaded).isSome = true

structure CInv (env : Env) (top : NodeId) (dr : Draft) (b : Url) (rets : NodeId → Url) (s : RState) : Prop where
  g : GInv env top rets s
  drafts : AllDraft dr s
  topReg : Registered s top
  topRet : rets top = b
  topNames : TopNames env top dr b s

/-- what the open-recursion callback must satisfy: no error on a Loader document of the universe -/
def RecNE (env : Env) (top : NodeId) (dr : Draft) (b : Url) (recDoc : ResolveDoc) : Prop :=
  ∀ lroot base s rets, CInv env top dr b rets s → s.doc? lroot = none →
    (∀ r, Registered s r → ∀ x, Reach env.st r x → ¬ Reach env.st lroot x) →
    (∃ tbl, env.loader = some tbl ∧ Json.lookup (Uri.toString base) tbl = some (.doc lroot)) →
    base.fragment = "" → recDoc lroot base dr s ≠ .err

theorem docInv_root_uri (D : Doc) (ret : Url) (s : RState) (hD : DocInv D ret s) (r : NodeId) (u : Url)
    (hr : D.ResourceRoot r r) (hu : D.BaseUri ret r u) :
    ∃ i, lookupNat r s.infos = some i ∧ i.uri = some u := by
  obtain ⟨⟨i, r0, hi, hb, hr0, _⟩, r', ⟨i', hi', hb'⟩, ib, lb, hib, hlb, hub⟩ := hD.done r (ResourceRoot.has hr)
  rw [hi] at hi'
  simp only [Option.some.injEq] at hi'
  subst hi'
  rw [hb] at hb'
  simp only [Option.some.injEq] at hb'
  subst hb'
  have e : r0 = r := resourceRoot_unique D hD.uniq r r0 r hr0 hr
  subst e
  exact ⟨ib, hib, by rw [hub, baseUri_unique D ret hD.uniq r0 _ _ ⟨lb, hlb, rfl⟩ hu]⟩

theorem docInv_uris_lookup (D : Doc) (ret : Url) (s : RState) (hD : DocInv D ret s)
    (huids : D.UniqueIds ret) (hkeys : KeysIn D.Has D.root (Uri.toString ret) s) (d : DocRes)
    (hd : s.doc? D.root = some d) (k : String) (r : NodeId) (h : D.Identifies ret k r) :
    Json.lookup k d.uris = some r := by
  obtain ⟨d0, hd0, hk0, hall⟩ := hkeys
  rw [hd] at hd0
  simp only [Option.some.injEq] at hd0
  subst hd0
  have hsome : (Json.lookup k d.uris).isSome = true := by
    rcases h with ⟨_, hk⟩ | ⟨hr, u, hu, hk⟩
    · rw [hk]; exact hk0
    · obtain ⟨i, hi, hiu⟩ := docInv_root_uri D ret s hD r u hr hu
      rw [hk]
      exact hall r i u (ResourceRoot.has hr) hi hiu
  cases hl : Json.lookup k d.uris with
  | none => rw [hl] at hsome; simp at hsome
  | some r' =>
    have := hD.uris d hd _ (lookup_mem _ _ _ hl)
    rw [huids k r' r this h]

theorem loaderDeclares_of (env : Env) (top : NodeId) (dr : Draft) (b : Url) (U : UniverseOk env top dr b) :
    LoaderDeclares env dr := by
  intro tbl k r htbl hk rn hrn
  exact U.loaderDraft tbl k r rn htbl hk hrn

/-- the root of every document of the universe is in the store -/
theorem named_store (env : Env) (top : NodeId) (dr : Draft) (b : Url) (U : UniverseOk env top dr b)
    (u : Url) (hu : u.fragment = "") (x : NodeId) (h : NamedDoc env top dr b (Uri.toString u) x) :
    (env.st.get? x).isSome = true := by
  have hwf : ∃ ret, DocWF env top b ⟨env.st, dr, x⟩ ret := by
    rcases h with ⟨rfl, _⟩ | ⟨tbl, htbl, hl⟩
    · exact ⟨b, U.topDoc⟩
    · exact ⟨u, U.docs tbl u x htbl hl hu⟩
  obtain ⟨ret, hwf⟩ := hwf
  obtain ⟨fresh, hcs⟩ := structureOk_ok env.st x hwf.struct
  exact has_store env.st dr x fresh hcs x ⟨[], by simp [isLineage]⟩

/-- a cache entry is a name -/
theorem cached_name (env : Env) (top : NodeId) (dr : Draft) (b : Url) (rets : NodeId → Url) (s : RState)
    (hinv : CInv env top dr b rets s) (key : String) (lr : NodeId) (h : Json.lookup key s.loaded = some lr) :
    NameOf env top dr b key lr ∧ ∃ dl, s.doc? lr = some dl ∧ dl.draft = dr := by
  obtain ⟨dl, hdl, hI⟩ := hinv.g.loaded _ (lookup_mem _ _ _ h)
  have hdr : dl.draft = dr := hinv.drafts dl (doc?_mem s lr dl hdl)
  rw [hdr] at hI
  refine ⟨?_, dl, hdl, hdr⟩
  rcases hinv.g.reg lr (by unfold Registered; rw [hdl]; rfl) with h1 | ⟨tbl, k, h1, h2, _, h4⟩
  · subst h1
    rw [hinv.topRet] at hI
    exact Or.inl ⟨rfl, hI⟩
  · exact Or.inr ⟨tbl, rets lr, h1, by rw [← h4]; exact h2, hI⟩

theorem named_name (env : Env) (top : NodeId) (dr : Draft) (b : Url) (u : Url) (x : NodeId)
    (h : NamedDoc env top dr b (Uri.toString u) x) : NameOf env top dr b (Uri.toString u) x := by
  rcases h with h | ⟨tbl, htbl, hl⟩
  · exact Or.inl h
  · exact Or.inr ⟨tbl, u, htbl, hl, Or.inl ⟨rfl, rfl⟩⟩


/-! ### one reference -/

theorem resolveRef_ne_err_G (env : Env) (top : NodeId) (dr : Draft) (b : Url) (recDoc : ResolveDoc)
    (hrecG : RecG env top recDoc) (hrecA : RecAll env dr recDoc) (hrecN : RecNE env top dr b recDoc)
    (hfresh : LoaderFresh env top) (U : UniverseOk env top dr b)
    (rets : NodeId → Url) (s : RState) (root id : NodeId) (ref : String)
    (hinv : CInv env top dr b rets s)
    (hkeys : KeysIn (Reach env.st root) root (Uri.toString (rets root)) s)
    (hwf : DocWF env top b ⟨env.st, dr, root⟩ (rets root))
    (hid : Reach env.st root id)
    (hgood : Doc.RefGood env top b ⟨env.st, dr, root⟩ (rets root) id ref) :
    resolveRef env recDoc root s id ref ≠ .err := by
  obtain ⟨bu', refURI, hBU', hparse, hcase⟩ := hgood
  apply resolveRef_ne_err_of env recDoc root s id ref refURI hparse
  intro info bInfo base bu d hinfo hbase hbInfo hbu hd
  have hdr : d.draft = dr := hinv.drafts d (doc?_mem s root d hd)
  have hD : DocInv ⟨env.st, dr, root⟩ (rets root) s := by
    have := hinv.g.docs root d hd
    rw [hdr] at this
    exact this
  have hBU : (⟨env.st, dr, root⟩ : Doc).BaseUri (rets root) id bu :=
    (done_baseUri ⟨env.st, dr, root⟩ (rets root) s.infos hD.uniq id (hD.done id hid) info bInfo base bu
      (info?_lookup _ _ _ _ hinfo) hbase (info?_lookup _ _ _ _ hbInfo) hbu).2
  have e : bu = bu' := baseUri_unique _ _ hD.uniq id _ _ hBU hBU'
  subst e
  have hfl : (Uri.dropFragment (Uri.resolveReference bu refURI)).fragment = "" := rfl
  obtain ⟨fresh, hcs⟩ := structureOk_ok env.st root hwf.struct
  have hstore := has_store env.st dr root fresh hcs
  rcases hcase with ⟨r, hI, ht⟩ | ⟨hnoI, x, hnamed, ht⟩
  · -- the URI identifies a resource of the referring document
    have hlk := docInv_uris_lookup ⟨env.st, dr, root⟩ (rets root) s hD hwf.uniq hkeys d hd _ r hI
    have hf : findDoc env recDoc root s d (Uri.dropFragment (Uri.resolveReference bu refURI)) = .ok (r, s) := by
      unfold findDoc; rw [hlk]
    rw [hf]
    simp only [Res.bind_ok]
    exact fragDispatch_ne_err env ⟨env.st, dr, root⟩ rfl (rets root) root r s hD _
      (hstore r (identifies_has _ _ _ _ hI)) ht
  · have hl1 : Json.lookup (Uri.toString (Uri.dropFragment (Uri.resolveReference bu refURI))) d.uris = none := by
      cases hl : Json.lookup (Uri.toString (Uri.dropFragment (Uri.resolveReference bu refURI))) d.uris with
      | none => rfl
      | some r' => exact absurd (hD.uris d hd _ (lookup_mem _ _ _ hl)) (hnoI r')
    have hx := named_store env top dr b U _ hfl x hnamed
    cases hl2 : Json.lookup (Uri.toString (Uri.dropFragment (Uri.resolveReference bu refURI))) s.loaded with
    | some lr =>
      -- the document is cached
      obtain ⟨hname, dl, hdl, hdldr⟩ := cached_name env top dr b rets s hinv _ lr hl2
      have e : lr = x := U.coherent _ lr x hname (named_name env top dr b _ x hnamed)
      subst e
      have hf : findDoc env recDoc root s d (Uri.dropFragment (Uri.resolveReference bu refURI)) =
          .ok (lr, mergeKnown s root lr) := by
        unfold findDoc; rw [hl1]; simp only []; rw [hl2]
      rw [hf]
      simp only [Res.bind_ok]
      have hfr := frozen_mergeKnown s root lr
      obtain ⟨dl', hdl', _, hdr'⟩ := hfr.doc lr dl hdl
      have hD' : DocInv ⟨env.st, dr, lr⟩ (rets lr) (mergeKnown s root lr) := by
        have := (gInv_frozen env top rets hfr hinv.g).docs lr dl' hdl'
        rw [hdr', hdldr] at this
        exact this
      exact fragDispatch_ne_err env ⟨env.st, dr, lr⟩ rfl (rets lr) root lr _ hD' _ hx ht
    | none =>
      rcases hnamed with ⟨rfl, hItop⟩ | ⟨tbl, htbl, hltbl⟩
      · have := hinv.topNames _ hItop
        rw [hl2] at this
        simp at this
      · -- the Loader is asked
        have hf : findDoc env recDoc root s d (Uri.dropFragment (Uri.resolveReference bu refURI)) =
            Res.bind (recDoc x (Uri.dropFragment (Uri.resolveReference bu refURI)) d.draft
              { s with log := s.log ++ [Uri.toString (Uri.dropFragment (Uri.resolveReference bu refURI))] })
              fun s2 => .ok (x, mergeKnown s2 root x) := by
          unfold findDoc; rw [hl1]; simp only []; rw [hl2]; simp only []; rw [htbl]; simp only []; rw [hltbl]
        rw [hf, hdr]
        have hfr0 : Frozen s { s with log := s.log ++ [Uri.toString (Uri.dropFragment (Uri.resolveReference bu refURI))] } :=
          ⟨fun _ => rfl, fun _ => rfl, rfl⟩
        have hg0 := gInv_frozen env top rets hfr0 hinv.g
        have hdisj : ∀ y, Registered s y → ∀ z, Reach env.st y z → ¬ Reach env.st x z := by
          intro y hy z hz hz'
          rcases hinv.g.reg y hy with rfl | ⟨tbl', k', ht', hk', hl', _⟩
          · exact (hfresh tbl htbl).1 _ x hltbl z hz' hz
          · rw [htbl] at ht'
            simp only [Option.some.injEq] at ht'
            subst ht'
            have hne : k' ≠ Uri.toString (Uri.dropFragment (Uri.resolveReference bu refURI)) := by
              intro e; rw [e, hl2] at hl'; simp at hl'
            exact (hfresh tbl htbl).2 k' _ y x hne hk' hltbl z hz hz'
        have hnone : s.doc? x = none := by
          cases hc : s.doc? x with
          | none => rfl
          | some dd =>
            exact absurd (reach_root env.st x) (hdisj x (by unfold Registered; rw [hc]; rfl) x (reach_root env.st x))
        have hinv0 : CInv env top dr b rets
            { s with log := s.log ++ [Uri.toString (Uri.dropFragment (Uri.resolveReference bu refURI))] } :=
          ⟨hg0, AllDraft.of_docs_eq rfl hinv.drafts, hinv.topReg, hinv.topRet, hinv.topNames⟩
        refine bind_ne_err (bind_ne_err (hrecN x _ _ rets hinv0 hnone hdisj ⟨tbl, htbl, hltbl⟩ hfl)
          (fun _ _ => by simp)) ?_
        intro p hp
        rw [bind_eq_ok] at hp
        obtain ⟨s2, hdoc, hp⟩ := hp
        simp only [Res.ok.injEq] at hp
        subst hp
        obtain ⟨rets', _, _, hg2, _, d2, hd2, _⟩ :=
          hrecG x _ dr _ s2 rets hdoc hg0 hnone hdisj (Or.inr ⟨tbl, htbl, hltbl⟩)
        have hall2 : AllDraft dr s2 :=
          hrecA x _ dr _ s2 hdoc (loaderDeclares_of env top dr b U tbl _ x htbl hltbl)
            (AllDraft.of_docs_eq rfl hinv.drafts)
        have hd2dr : d2.draft = dr := hall2 d2 (doc?_mem s2 x d2 hd2)
        have hfr := frozen_mergeKnown s2 root x
        obtain ⟨d2', hd2', _, hdr'⟩ := hfr.doc x d2 hd2
        have hD' : DocInv ⟨env.st, dr, x⟩ (rets' x) (mergeKnown s2 root x) := by
          have := (gInv_frozen env top rets' hfr hg2).docs x d2' hd2'
          rw [hdr', hd2dr] at this
          exact this
        exact fragDispatch_ne_err env ⟨env.st, dr, x⟩ rfl (rets' x) root x _ hD' _ hx ht


/-! ### all references of one document -/

theorem keysIn_grow {P : NodeId → Prop} {root : NodeId} {k0 : String} {s s' : RState} (h : Grow s s')
    (hdom : ∀ id, P id → (lookupNat id s.infos).isSome = true)
    (hs : KeysIn P root k0 s) : KeysIn P root k0 s' := by
  obtain ⟨d, hd, h0, hall⟩ := hs
  obtain ⟨d', hd', hu, _⟩ := h.doc root d hd
  refine ⟨d', hd', by rw [hu]; exact h0, ?_⟩
  intro id i' u hP hi' hu'
  have hfix := h.infos id (hdom id hP)
  rw [hi'] at hfix
  cases hi : lookupNat id s.infos with
  | none => rw [hi] at hfix; simp at hfix
  | some i =>
    rw [hi] at hfix
    simp only [Option.map_some, Option.some.injEq, fixedOf, Prod.mk.injEq] at hfix
    rw [hu]
    exact hall id i u hP hi (by rw [← hfix.2.1]; exact hu')

/-- a successful resolveRef (and the recording of its result) keeps the invariant -/
theorem refStep_C (env : Env) (top : NodeId) (dr : Draft) (b : Url) (recDoc : ResolveDoc)
    (hrecS : RecSpec env recDoc) (hrecG : RecG env top recDoc) (hrecA : RecAll env dr recDoc)
    (hfresh : LoaderFresh env top) (U : UniverseOk env top dr b)
    (rets : NodeId → Url) (s : RState) (root id : NodeId) (ref : String) (ret0 : Url) (o : RefOut) (sa : RState)
    (hinv : CInv env top dr b rets s) (hreg : Registered s root) (hret : rets root = ret0)
    (hkeys : KeysIn (Reach env.st root) root (Uri.toString ret0) s) (hid : Reach env.st root id)
    (h : resolveRef env recDoc root s id ref = .ok (o, sa)) (f : Info → Info) (hf : ∀ i, fixedOf (f i) = fixedOf i) :
    ∃ rets', CInv env top dr b rets' (sa.updInfo id f) ∧ Registered (sa.updInfo id f) root ∧ rets' root = ret0 ∧
      KeysIn (Reach env.st root) root (Uri.toString ret0) (sa.updInfo id f) := by
  obtain ⟨rets', d, hag, hg', hgrow, _, _, hd, _, _⟩ :=
    refStep_G env top recDoc hrecG hfresh rets s root id ref o sa hinv.g hid h f hf
  have hall : AllDraft dr (sa.updInfo id f) :=
    AllDraft.of_docs_eq (updInfo_docs _ _ _)
      (resolveRef_all env dr recDoc hrecA (loaderDeclares_of env top dr b U) root s id ref o sa hinv.drafts h)
  have hext : Ext s (sa.updInfo id f) :=
    (resolveRef_spec env recDoc hrecS _ _ _ _ _ _ h).1.trans (updInfo_same _ _ _).ext
  have hdr : d.draft = dr := hinv.drafts d (doc?_mem s root d hd)
  have hD : DocInv ⟨env.st, dr, root⟩ (rets root) s := by
    have := hinv.g.docs root d hd
    rw [hdr] at this
    exact this
  refine ⟨rets', ⟨hg', hall, hgrow.registered top hinv.topReg, by rw [hag top hinv.topReg]; exact hinv.topRet,
    fun key hk => hext.2 key (hinv.topNames key hk)⟩, hgrow.registered root hreg,
    by rw [hag root hreg]; exact hret, ?_⟩
  exact keysIn_grow hgrow (fun x hx => done_lookup_isSome (hD.done x hx).1) hkeys

theorem resolveRefsLoop_ne_err_G (env : Env) (top : NodeId) (dr : Draft) (b : Url) (recDoc : ResolveDoc)
    (hrecS : RecSpec env recDoc) (hrecG : RecG env top recDoc) (hrecA : RecAll env dr recDoc)
    (hrecN : RecNE env top dr b recDoc) (hfresh : LoaderFresh env top) (U : UniverseOk env top dr b)
    (root : NodeId) (ret0 : Url) (hwf : DocWF env top b ⟨env.st, dr, root⟩ ret0) :
    ∀ ids s rets, CInv env top dr b rets s → Registered s root → rets root = ret0 →
      KeysIn (Reach env.st root) root (Uri.toString ret0) s → (∀ id ∈ ids, Reach env.st root id) →
      (∀ id ∈ ids, ∀ n, env.st.get? id = some n →
        (n.ref ≠ "" → Doc.RefGood env top b ⟨env.st, dr, root⟩ ret0 id n.ref) ∧
        (dr = .d2020 → n.dynamicRef ≠ "" → Doc.RefGood env top b ⟨env.st, dr, root⟩ ret0 id n.dynamicRef)) →
      resolveRefsLoop env recDoc root ids s ≠ .err := by
  intro ids
  induction ids with
  | nil => intro s rets _ _ _ _ _ _; rw [resolveRefsLoop]; simp
  | cons id rest ih =>
    intro s rets hinv hreg hret hkeys hids hgood
    have hid : Reach env.st root id := hids id (by simp)
    rw [resolveRefsLoop]
    split
    · simp
    · rename_i n hn
      obtain ⟨d1, d2⟩ := hgood id (by simp) n hn
      simp only []
      refine bind_ne_err ?_ fun s1 h1 => ?_
      · split
        · rename_i hne
          refine bind_ne_err ?_ fun _ _ => by simp
          subst hret
          exact resolveRef_ne_err_G env top dr b recDoc hrecG hrecA hrecN hfresh U rets s root id n.ref hinv hkeys hwf
            hid (d1 (by simpa using hne))
        · simp
      have g1 : ∃ rets1, CInv env top dr b rets1 s1 ∧ Registered s1 root ∧ rets1 root = ret0 ∧
          KeysIn (Reach env.st root) root (Uri.toString ret0) s1 := by
        split at h1
        · rw [bind_eq_ok] at h1
          obtain ⟨⟨o, sa⟩, hr, h1⟩ := h1
          simp only [Res.ok.injEq] at h1
          subst h1
          exact refStep_C env top dr b recDoc hrecS hrecG hrecA hfresh U rets s root id n.ref ret0 o sa hinv hreg hret
            hkeys hid hr _ (fun _ => rfl)
        · simp only [Res.ok.injEq] at h1
          subst h1
          exact ⟨rets, hinv, hreg, hret, hkeys⟩
      obtain ⟨rets1, hinv1, hreg1, hret1, hkeys1⟩ := g1
      refine bind_ne_err ?_ fun s2 h2 => ?_
      · split
        · rename_i hne
          refine bind_ne_err ?_ fun _ _ => by simp
          subst hret1
          rw [hinv1.drafts.draftOf root hreg1] at hne
          simp only [Bool.and_eq_true, bne_iff_ne, ne_eq, beq_iff_eq] at hne
          exact resolveRef_ne_err_G env top dr b recDoc hrecG hrecA hrecN hfresh U rets1 s1 root id n.dynamicRef hinv1
            hkeys1 hwf hid (d2 hne.2 hne.1)
        · simp
      have g2 : ∃ rets2, CInv env top dr b rets2 s2 ∧ Registered s2 root ∧ rets2 root = ret0 ∧
          KeysIn (Reach env.st root) root (Uri.toString ret0) s2 := by
        split at h2
        · rw [bind_eq_ok] at h2
          obtain ⟨⟨o, sb⟩, hr, h2⟩ := h2
          simp only [Res.ok.injEq] at h2
          subst h2
          exact refStep_C env top dr b recDoc hrecS hrecG hrecA hfresh U rets1 s1 root id n.dynamicRef ret0 o sb hinv1
            hreg1 hret1 hkeys1 hid hr _ (fun _ => rfl)
        · simp only [Res.ok.injEq] at h2
          subst h2
          exact ⟨rets1, hinv1, hreg1, hret1, hkeys1⟩
      obtain ⟨rets2, hinv2, hreg2, hret2, hkeys2⟩ := g2
      exact ih s2 rets2 hinv2 hreg2 hret2 hkeys2 (fun x hx => hids x (List.mem_cons_of_mem _ hx))
        (fun x hx => hgood x (List.mem_cons_of_mem _ hx))


/-! ### resolver.resolve on one document of the universe -/

/-- the invariant of all documents in the state resolveRefs of a new document starts from (the first half of
    `resolveDocStep_G`, which does not expose it) -/
theorem gInv_afterURIs (env : Env) (top : NodeId) (lroot : NodeId) (baseURI : Url) (draft : Draft)
    (fresh : List (NodeId × Info)) (s sB : RState) (rets : NodeId → Url)
    (hcs : checkStructure env.st (env.st.size + 2) [(lroot, "")] [] = .ok fresh)
    (hB : resolveURIsLoop env draft lroot (env.st.size + 2) [(lroot, lroot)]
      (beforeURIs lroot baseURI draft fresh s) = .ok sB)
    (hg : GInv env top rets s) (hnone : s.doc? lroot = none)
    (hdisj : ∀ r, Registered s r → ∀ b, Reach env.st r b → ¬ Reach env.st lroot b)
    (hkey : IsDocRoot env top (Uri.toString baseURI) lroot) :
    GInv env top (fun x => if x = lroot then baseURI else rets x) (afterURIs lroot baseURI sB) ∧
    Extends s sB ∧ (∃ dB, sB.doc? lroot = some dB ∧ dB.draft = draft) ∧
    (sB.log = s.log ∧ sB.loaded = s.loaded) ∧ DocInv ⟨env.st, draft, lroot⟩ baseURI sB ∧
    (∀ x, Reach env.st lroot x → lookupNat x s.infos = none) := by
  unfold beforeURIs at hB
  let D : Doc := ⟨env.st, draft, lroot⟩
  have huniq : UniqueLineage D := tree_uniqueLineage D _ (checkStructure_tree env.st _ lroot fresh hcs)
  have hB' : resolveURIsLoop env D.draft D.root (env.st.size + 2) [(D.root, D.root)] _ = .ok sB := hB
  have hrootmem := checkStructure_root_mem env.st _ lroot fresh hcs
  -- the schemas of the new document have no info yet
  have hnoInfo : ∀ b, Reach env.st lroot b → lookupNat b s.infos = none := by
    intro b hb
    cases hc : lookupNat b s.infos with
    | none => rfl
    | some i =>
      obtain ⟨r, hr, hrb⟩ := hg.dom b (by rw [hc]; rfl)
      exact absurd hb (hdisj r hr b hrb)
  have hnotReach : ∀ id, (lookupNat id s.infos).isSome = true → ¬ Reach env.st lroot id := by
    intro id hid hr
    rw [hnoInfo id hr] at hid; simp at hid
  obtain ⟨hdone, hsnd, huris⟩ := resolveURIs_desig env D rfl baseURI huniq _ _ _ (by
    obtain ⟨⟨r', info⟩, hm, he⟩ := List.mem_map.mp hrootmem
    simp only at he
    subst he
    have hsome : (lookupNat r' (s.infos ++ fresh)).isSome = true :=
      lookupNat_isSome_of_mem r' info _ (List.mem_append_right _ hm)
    show ∃ i, lookupNat r' (RState.updInfo _ r' _).infos = some i ∧ i.uri = some baseURI
    rw [updInfo_infos_lookup, if_pos rfl, setDoc_infos]
    cases h0 : lookupNat r' (s.infos ++ fresh) with
    | none => rw [h0] at hsome; simp at hsome
    | some i0 => exact ⟨_, rfl, rfl⟩) hB'
  have hallHas : ∀ w ∈ [lroot], D.Has w := by
    intro w hw
    rw [List.mem_singleton.mp hw]
    exact reach_root env.st lroot
  obtain ⟨f1, f2⟩ := resolveURIsLoop_frame env D rfl _ _ _ _ hB' (by
    intro w hw
    rw [List.mem_singleton.mp hw]
    exact ⟨reach_root env.st lroot, reach_root env.st lroot⟩)
  have hnil : ∀ e ∈ fresh, e.2.anchors = [] :=
    checkStructure_forall env.st (fun i => i.anchors = []) (fun _ => rfl) _ _ _ _ hcs
      (fun _ he => absurd he (by simp))
  have hsB : Sound D sB.infos := by
    apply hsnd
    refine sound_updInfo D _ lroot _ ?_ ?_
    · intro _ _ he; exact Or.inl he
    · rw [setDoc_infos]
      refine sound_append_fresh D _ _ ?_ hnil
      intro b i hi hb
      rw [hnoInfo b hb] at hi; simp at hi
  have huB : UrisId D baseURI sB := by
    apply huris
    intro d hd e he
    rw [doc?_of_docs_eq (updInfo_docs _ _ _), doc?_setDoc, if_pos (rfl : lroot = D.root)] at hd
    simp only [Option.some.injEq] at hd
    subst hd
    simp only [List.mem_singleton] at he
    subst he
    exact Or.inl ⟨rfl, rfl⟩
  have hdB : ∃ dB, sB.doc? lroot = some dB ∧ dB.draft = draft := by
    have := resolveURIsLoop_draftKept _ _ _ _ _ _ _ hB lroot
      { root := lroot, draft := draft, uris := [(Uri.toString baseURI, lroot)], known := fresh.map (·.1) }
      (by rw [doc?_of_docs_eq (updInfo_docs _ _ _), doc?_setDoc]; simp)
    exact this
  obtain ⟨dB, hdB, hdrB⟩ := hdB
  have sameB : sB.log = s.log ∧ sB.loaded = s.loaded := by
    have h0 := (resolveURIsLoop_spec _ _ _ _ _ _ _ hB).1
    have := (SameLL.trans (setDoc_same _ _) (updInfo_same _ _ _)).trans h0
    exact this
  have hDB : DocInv D baseURI sB := ⟨huniq, hdone, hsB, huB⟩
  -- what existed before is untouched
  have hextB : Extends s sB := by
    constructor
    · intro id hid
      have hnr := hnotReach id hid
      have hne : id ≠ lroot := fun e => hnr (e ▸ reach_root env.st lroot)
      rw [f1 id hnr, updInfo_lookup_ne _ _ _ _ hne, setDoc_infos]
      exact lookupNat_append_of_isSome _ _ _ hid
    · intro r hr
      have hne : r ≠ lroot := by
        intro e; rw [e] at hr; unfold Registered at hr; rw [hnone] at hr; simp at hr
      rw [f2 r hne, doc?_of_docs_eq (updInfo_docs _ _ _), doc?_setDoc]
      simp only
      rw [if_neg (fun e => hne e.symm)]
      rfl
  have hdocB : ∀ r, r ≠ lroot → sB.doc? r = s.doc? r := by
    intro r hne
    rw [f2 r hne, doc?_of_docs_eq (updInfo_docs _ _ _), doc?_setDoc]
    simp only
    rw [if_neg (fun e => hne e.symm)]
    rfl
  have hrootId : D.Identifies baseURI (rootUriOf sB lroot) lroot := by
    obtain ⟨⟨i, r0, hi, hb0, hr0, _⟩, r, ⟨i', hi', hb'⟩, ir, lr, hir, hlr, hur⟩ := hdone lroot (reach_root env.st lroot)
    rw [hi] at hi'
    simp only [Option.some.injEq] at hi'
    subst hi'
    rw [hb0] at hb'
    simp only [Option.some.injEq] at hb'
    subst hb'
    have hr0' : r0 = lroot := by
      obtain ⟨l0, hl0, hn0⟩ := hr0
      have : l0 = [] := huniq l0 [] lroot hl0 (by show isLineage env.st lroot [] lroot = true; simp [isLineage])
      subst this
      exact hn0.symm
    subst hr0'
    refine Or.inr ⟨resourceRoot_root D, baseUriAlong D baseURI lr, ⟨lr, hlr, rfl⟩, ?_⟩
    unfold rootUriOf
    rw [hir]
    simp only [hur, Option.map_some, Option.getD_some]
  let rets' : NodeId → Url := fun x => if x = lroot then baseURI else rets x
  have hrets_ne : ∀ r, r ≠ lroot → rets' r = rets r := fun r hne => by simp only [rets', if_neg hne]
  have hrets_eq : rets' lroot = baseURI := by simp only [rets', if_true]
  have hregNe : ∀ r, Registered s r → r ≠ lroot := by
    intro r hr e; rw [e] at hr; unfold Registered at hr; rw [hnone] at hr; simp at hr
  have hupd := loaded_update sB.loaded (Uri.toString baseURI) (rootUriOf sB lroot) lroot
  have hgC : GInv env top rets' { sB with loaded :=
      (sB.loaded.filter fun e => e.1 != Uri.toString baseURI && e.1 != rootUriOf sB lroot) ++
        [(Uri.toString baseURI, lroot), (rootUriOf sB lroot, lroot)] } := by
    refine ⟨?_, ?_, ?_, ?_⟩
    · intro r d hd
      have hd' : sB.doc? r = some d := hd
      by_cases hr : r = lroot
      · subst hr
        rw [hdB] at hd'
        simp only [Option.some.injEq] at hd'
        subst hd'
        rw [hrets_eq, hdrB]
        exact docInv_of_eq (s := sB) D baseURI rfl rfl hDB
      · rw [hdocB r hr] at hd'
        rw [hrets_ne r hr]
        exact docInv_of_eq (s := sB) _ _ rfl rfl
          (docInv_extends _ _ hextB (by unfold Registered; rw [hd']; rfl) (hg.docs r d hd'))
    · intro r hr
      have hr' : (sB.doc? r).isSome = true := hr
      by_cases hrl : r = lroot
      · subst hrl
        rcases hkey with h1 | ⟨tbl, h1, h2⟩
        · exact Or.inl h1
        · exact Or.inr ⟨tbl, _, h1, h2, hupd.1, by rw [hrets_eq]⟩
      · rw [hdocB r hrl] at hr'
        rcases hg.reg r hr' with h1 | ⟨tbl, k, h1, h2, h3, h4⟩
        · exact Or.inl h1
        · exact Or.inr ⟨tbl, k, h1, h2, hupd.2 k (by rw [sameB.2]; exact h3), by rw [hrets_ne r hrl]; exact h4⟩
    · intro id hid
      have hid' : (lookupNat id sB.infos).isSome = true := hid
      by_cases hs : (lookupNat id s.infos).isSome = true
      · obtain ⟨r, hr, hrb⟩ := hg.dom id hs
        refine ⟨r, ?_, hrb⟩
        show (sB.doc? r).isSome = true
        rw [hextB.docs r hr]; exact hr
      · refine ⟨lroot, by show (sB.doc? lroot).isSome = true; rw [hdB]; rfl, ?_⟩
        apply Classical.byContradiction
        intro hnr
        have hne : id ≠ lroot := fun e => hnr (e ▸ reach_root env.st lroot)
        have hnone' : lookupNat id s.infos = none := by
          cases hc : lookupNat id s.infos with
          | none => rfl
          | some v => rw [hc] at hs; simp at hs
        rw [f1 id hnr, updInfo_lookup_ne _ _ _ _ hne, setDoc_infos] at hid'
        have hl : lookupNat id (s.infos ++ fresh) = lookupNat id fresh := lookupNat_append_none _ _ _ hnone'
        rw [hl] at hid'
        cases hf : lookupNat id fresh with
        | none => rw [hf] at hid'; simp at hid'
        | some v =>
          exact hnr (checkStructure_ids_reach env.st _ lroot fresh hcs id
            (List.mem_map.mpr ⟨(id, v), lookupNat_mem _ _ _ hf, rfl⟩))
    · intro e he
      have he' : e ∈ (sB.loaded.filter _) ++ [(_, lroot), (_, lroot)] := he
      rcases List.mem_append.mp he' with h1 | h1
      · have hmem := (List.mem_filter.mp h1).1
        rw [sameB.2] at hmem
        obtain ⟨d, hd, hI⟩ := hg.loaded e hmem
        have hreg : Registered s e.2 := by unfold Registered; rw [hd]; rfl
        refine ⟨d, ?_, by rw [hrets_ne _ (hregNe _ hreg)]; exact hI⟩
        show sB.doc? e.2 = some d
        rw [hextB.docs _ hreg]; exact hd
      · simp only [List.mem_cons, List.mem_nil_iff, or_false] at h1
        rcases h1 with h1 | h1
        · subst h1
          refine ⟨dB, hdB, ?_⟩
          rw [hrets_eq]
          exact Or.inl ⟨rfl, rfl⟩
        · subst h1
          refine ⟨dB, hdB, ?_⟩
          rw [hrets_eq, hdrB]
          exact hrootId
  exact ⟨hgC, hextB, ⟨dB, hdB, hdrB⟩, sameB, hDB, hnoInfo⟩


theorem loaded_update_snd {α} (l : List (String × α)) (a b : String) (r : α) :
    (Json.lookup b (l.filter (fun e => e.1 != a && e.1 != b) ++ [(a, r), (b, r)])).isSome = true := by
  rw [lookup_append_isSome]
  by_cases h : a = b
  · subst h; simp
  · simp [h]

theorem docStep_ne_err (env : Env) (top : NodeId) (dr : Draft) (b : Url) (recDoc : ResolveDoc)
    (hrecS : RecSpec env recDoc) (hrecG : RecG env top recDoc) (hrecA : RecAll env dr recDoc)
    (hrecN : RecNE env top dr b recDoc) (hfresh : LoaderFresh env top) (U : UniverseOk env top dr b)
    (root : NodeId) (baseURI : Url) (inherit : Draft) (s : RState) (rets : NodeId → Url)
    (hg : GInv env top rets s) (hall : AllDraft dr s) (hnone : s.doc? root = none)
    (hdisj : ∀ r, Registered s r → ∀ x, Reach env.st r x → ¬ Reach env.st root x)
    (hkey : IsDocRoot env top (Uri.toString baseURI) root)
    (hwf : DocWF env top b ⟨env.st, dr, root⟩ baseURI)
    (hdraft : ∀ rn, env.st.get? root = some rn → docDraft env rn inherit = dr)
    (htop : (root = top ∧ baseURI = b) ∨
      (root ≠ top ∧ Registered s top ∧ rets top = b ∧ TopNames env top dr b s)) :
    resolveDocStep env recDoc root baseURI inherit s ≠ .err := by
  obtain ⟨fresh, hcs⟩ := structureOk_ok env.st root hwf.struct
  let D : Doc := ⟨env.st, dr, root⟩
  have huniq : UniqueLineage D := tree_uniqueLineage D _ (checkStructure_tree env.st _ root fresh hcs)
  have hrootS := has_store env.st dr root fresh hcs root ⟨[], by simp [isLineage]⟩
  unfold resolveDocStep
  split
  · rename_i hc
    have := hwf.frag
    rw [this] at hc
    simp at hc
  split
  · rename_i hnone'
    rw [hnone'] at hrootS
    simp at hrootS
  rename_i rn hrn
  have hdr : docDraft env rn inherit = dr := hdraft rn hrn
  simp only []
  refine bind_ne_err (by rw [hcs]; simp) fun fresh' hfresh' => ?_
  rw [hcs] at hfresh'
  simp only [Res.ok.injEq] at hfresh'
  subst hfresh'
  split
  · rename_i hc
    exfalso
    have hlocal := hwf.locals
    unfold localOk at hlocal
    rw [docNodes_of_ok env.st root fresh hcs] at hlocal
    rw [List.all_eq_true] at hlocal
    simp only [Bool.not_eq_true', List.all_eq_false] at hc
    obtain ⟨x, hx, hxf⟩ := hc
    have := hlocal x hx
    cases hgx : env.st.get? x with
    | none => rw [hgx] at this; simp at this
    | some nd => rw [hgx] at this hxf; exact hxf this
  have hrootmem := checkStructure_root_mem env.st _ root fresh hcs
  refine bind_ne_err ?_ fun sB hB => ?_
  · show resolveURIsLoop env (docDraft env rn inherit) root _ _ _ ≠ .err
    rw [hdr]
    apply resolveURIs_ne_err env D rfl baseURI huniq hwf.ids
    obtain ⟨⟨r', info⟩, hm, he⟩ := List.mem_map.mp hrootmem
    simp only at he
    subst he
    have hsome : (lookupNat r' (s.infos ++ fresh)).isSome = true :=
      lookupNat_isSome_of_mem r' info _ (List.mem_append_right _ hm)
    show ∃ i, lookupNat r' (RState.updInfo _ r' _).infos = some i ∧ i.uri = some baseURI
    rw [updInfo_infos_lookup, if_pos rfl, setDoc_infos]
    cases h0 : lookupNat r' (s.infos ++ fresh) with
    | none => rw [h0] at hsome; simp at hsome
    | some i0 => exact ⟨_, rfl, rfl⟩
  · have hB' : resolveURIsLoop env dr root (env.st.size + 2) [(root, root)]
        (beforeURIs root baseURI dr fresh s) = .ok sB := by
      rw [← hdr]; exact hB
    obtain ⟨hgC, hextB, ⟨dB, hdB, hdrB⟩, sameB, hDB, hnoInfo⟩ :=
      gInv_afterURIs env top root baseURI dr fresh s sB rets hcs hB' hg hnone hdisj hkey
    have hupd : ∀ a id f, AllDraft dr a → AllDraft dr (a.updInfo id f) :=
      fun a id f ha => AllDraft.of_docs_eq (updInfo_docs a id f) ha
    have hA : AllDraft dr (beforeURIs root baseURI dr fresh s) := by
      unfold beforeURIs
      apply hupd
      apply allDraft_setDoc _ _ rfl
      exact AllDraft.of_docs_eq rfl hall
    have hallB : AllDraft dr sB :=
      resolveURIsLoop_pres env dr root (AllDraft dr) hupd
        (fun a d u ha hd => allDraft_setDoc a _ (ha d (doc?_mem a root d hd)) ha) _ _ _ _ hB' hA
    have hkeysB : KeysIn (Reach env.st root) root (Uri.toString baseURI) sB :=
      resolveURIsLoop_keysIn env dr root _ _ _ _ _ _ hB'
        (keysIn_beforeURIs env (Reach env.st root) root baseURI dr fresh s _ hcs hnoInfo)
    have hkeys : KeysIn (Reach env.st root) root (Uri.toString baseURI) (afterURIs root baseURI sB) := by
      obtain ⟨d, hd, h0, hall'⟩ := hkeysB
      exact ⟨d, hd, h0, hall'⟩
    have hregC : Registered (afterURIs root baseURI sB) root := by
      show (sB.doc? root).isSome = true
      rw [hdB]; rfl
    have hupdL := loaded_update sB.loaded (Uri.toString baseURI) (rootUriOf sB root) root
    have hinvC : CInv env top dr b (fun x => if x = root then baseURI else rets x) (afterURIs root baseURI sB) := by
      refine ⟨hgC, AllDraft.of_docs_eq rfl hallB, ?_, ?_, ?_⟩
      · rcases htop with ⟨e, _⟩ | ⟨_, hr, _, _⟩
        · rw [← e]; exact hregC
        · show (sB.doc? top).isSome = true
          rw [hextB.docs top hr]; exact hr
      · rcases htop with ⟨e, eb⟩ | ⟨hne, _, hr, _⟩
        · simp only [e, if_true]; rw [← eb]
        · have : top ≠ root := fun e => hne e.symm
          simp only [this, if_false]; exact hr
      · intro key hI
        show (Json.lookup key ((sB.loaded.filter fun e => e.1 != Uri.toString baseURI && e.1 != rootUriOf sB root) ++
          [(Uri.toString baseURI, root), (rootUriOf sB root, root)])).isSome = true
        rcases htop with ⟨e, eb⟩ | ⟨_, _, _, hn⟩
        · subst e
          subst eb
          rcases hI with ⟨_, hk⟩ | ⟨hr, u, hu, hk⟩
          · rw [hk]; exact hupdL.1
          · obtain ⟨i, hi, hiu⟩ := docInv_root_uri D baseURI sB hDB root u hr hu
            have : rootUriOf sB root = Uri.toString u := by
              unfold rootUriOf; rw [hi]; simp [hiu]
            rw [hk, ← this]
            exact loaded_update_snd _ _ _ _
        · apply hupdL.2
          rw [sameB.2]
          exact hn key hI
    show resolveRefsLoop env recDoc root _ (afterURIs root baseURI sB) ≠ .err
    exact resolveRefsLoop_ne_err_G env top dr b recDoc hrecS hrecG hrecA hrecN hfresh U root baseURI hwf _ _ _ hinvC
      hregC (by simp) hkeys
      (allNodes_has D _ _ (by
        intro w hw
        rw [List.mem_singleton.mp hw]
        exact reach_root env.st root)) hwf.refs


/-! ### every fuel, Schema.Resolve -/

theorem resolveDoc_ne_err_G (env : Env) (top : NodeId) (dr : Draft) (b : Url) (hfresh : LoaderFresh env top)
    (U : UniverseOk env top dr b) : ∀ fuel, RecNE env top dr b (resolveDoc env fuel) := by
  intro fuel
  induction fuel with
  | zero => intro lroot base s rets _ _ _ _ _; rw [resolveDoc]; simp
  | succ fuel ih =>
    intro lroot base s rets hinv hnone hdisj hk hfr
    obtain ⟨tbl, htbl, hl⟩ := hk
    rw [resolveDoc]
    have hne : lroot ≠ top := by
      intro e
      have := hinv.topReg
      unfold Registered at this
      rw [← e, hnone] at this
      simp at this
    exact docStep_ne_err env top dr b _ (resolveDoc_spec env fuel) (resolveDoc_G env top hfresh fuel)
      (resolveDoc_all env dr (loaderDeclares_of env top dr b U) fuel) ih hfresh U lroot base dr s rets hinv.g
      hinv.drafts hnone hdisj (Or.inr ⟨tbl, htbl, hl⟩) (U.docs tbl base lroot htbl hl hfr)
      (loaderDeclares_of env top dr b U tbl _ lroot htbl hl)
      (Or.inr ⟨hne, hinv.topReg, hinv.topRet, hinv.topNames⟩)

/-- Schema.Resolve returns no error in a universe of well-formed, coherent documents that are all present -/
theorem resolve_ne_err_G (env : Env) (top : NodeId) (dr : Draft) (b : Url) (base : String) (fuel : Nat)
    (hb : retrievalOf base = .ok b) (hfresh : LoaderFresh env top) (U : UniverseOk env top dr b) :
    resolve env fuel top base ≠ .err := by
  unfold resolve
  simp only []
  have hb' : (if base == "" then Res.ok ({} : Url) else Uri.parse base) = .ok b := hb
  rw [hb']
  simp only [Res.bind_ok]
  refine bind_ne_err ?_ fun s _ => by split <;> simp
  cases fuel with
  | zero => rw [resolveDoc]; simp
  | succ fuel =>
    rw [resolveDoc]
    exact docStep_ne_err env top dr b _ (resolveDoc_spec env fuel) (resolveDoc_G env top hfresh fuel)
      (resolveDoc_all env dr (loaderDeclares_of env top dr b U) fuel) (resolveDoc_ne_err_G env top dr b hfresh U fuel)
      hfresh U top b .d2020 {} (fun _ => b) (gInv_init env top _) (allDraft_init dr) (by simp [RState.doc?])
      (by intro r hr; simp [Registered, RState.doc?] at hr) (Or.inl rfl) U.topDoc
      (by intro rn hrn; rw [← topDraft_eq env top rn hrn]; exact U.topDr) (Or.inl ⟨rfl, rfl⟩)

/-- completeness with a Loader: success, for every fuel above the number of Loader entries -/
theorem resolve_ok_of_universe (env : Env) (top : NodeId) (dr : Draft) (b : Url) (base : String) (fuel : Nat)
    (hfuel : (env.loader.getD []).length + 1 ≤ fuel)
    (hb : retrievalOf base = .ok b) (hfresh : LoaderFresh env top) (hdis : RTot.docsDisjoint env top = true)
    (U : UniverseOk env top dr b) : ∃ rs, resolve env fuel top base = .ok rs := by
  have h1 := resolve_ne_err_G env top dr b base fuel hb hfresh U
  have h2 := RTot.resolve_ne_panic env fuel top base hdis
  have h3 := RTot.resolve_ne_fuel env fuel top base hfuel
  cases hr : resolve env fuel top base with
  | ok rs => exact ⟨rs, rfl⟩
  | err => exact absurd hr h1
  | panic => exact absurd hr h2
  | fuel => exact absurd hr h3

end RComp
end Go
end JSV
