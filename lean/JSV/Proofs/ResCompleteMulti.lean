/-
  Helper lemmas for C03, the converse of soundness with a Loader (fourth part): in a universe of documents that are
  all present, well-formed and coherent (`UniverseOk`, JSV/Spec/WellFormed.lean), resolveRef / resolveRefs /
  resolver.resolve return no error.  Open recursion on the loader callback; the facts about the states reached by
  successful steps come from ResDesigMulti.lean (`GInv`) and ResDraft.lean (`AllDraft`).
-/
import JSV.Proofs.ResCompleteRefs
namespace JSV
namespace Go
namespace RComp
open RInv Uri Spec RDraft

/-! ### resolveRef in two named parts -/

/-- how resolveRef finds the document / resource the fragment-less URI `fragless` names -/
def findDoc (env : Env) (recDoc : ResolveDoc) (root : NodeId) (s : RState) (d : DocRes) (fragless : Url) :
    Res (NodeId × RState) :=
  match Json.lookup (Uri.toString fragless) d.uris with
  | some t => .ok (t, s)
  | none =>
    match Json.lookup (Uri.toString fragless) s.loaded with
    | some lroot => .ok (lroot, mergeKnown s root lroot)
    | none =>
      match env.loader with
      | none => .err
      | some tbl =>
        match Json.lookup (Uri.toString fragless) tbl with
        | none => .err
        | some .fail => .err
        | some .nilDoc => .err
        | some (.doc lroot) =>
          Res.bind (recDoc lroot fragless d.draft { s with log := s.log ++ [Uri.toString fragless] }) fun s =>
            .ok (lroot, mergeKnown s root lroot)

/-- the fragment dispatch of resolveRef -/
def fragDispatch (env : Env) (root : NodeId) (frag : String) (p : NodeId × RState) : Res (RefOut × RState) :=
  if frag != "" && frag.toList.head? != some '/' then
    match p.2.info? root p.1 with
    | none => .panic
    | some rInfo =>
      match Json.lookup frag rInfo.anchors with
      | none => .err
      | some a => .ok ({ target := a.schema, dynFrag := if a.dynamic then frag else "" }, p.2)
  else
    Res.bind (Pointer.dereference env.st true true p.1 frag) fun t =>
      .ok ({ target := t, dynFrag := "" }, p.2)

theorem resolveRef_eq (env : Env) (recDoc : ResolveDoc) (root : NodeId) (s : RState) (id : NodeId) (ref : String)
    (refURI : Url) (info bInfo : Info) (base : NodeId) (bu : Url) (d : DocRes)
    (hp : Uri.parse ref = .ok refURI) (hinfo : s.info? root id = some info) (hbase : info.base = some base)
    (hbInfo : s.info? root base = some bInfo) (hbu : bInfo.uri = some bu) (hd : s.doc? root = some d) :
    resolveRef env recDoc root s id ref =
      Res.bind (findDoc env recDoc root s d (Uri.dropFragment (Uri.resolveReference bu refURI)))
        (fragDispatch env root (Uri.resolveReference bu refURI).fragment) := by
  unfold resolveRef
  rw [hp]
  simp only [Res.bind_ok, hinfo, hbase, hbInfo, hbu, hd]
  rfl

/-- when one of the table lookups of resolveRef fails the outcome is a panic, not an error -/
theorem resolveRef_ne_err_of (env : Env) (recDoc : ResolveDoc) (root : NodeId) (s : RState) (id : NodeId)
    (ref : String) (refURI : Url) (hp : Uri.parse ref = .ok refURI)
    (h : ∀ info bInfo base bu d, s.info? root id = some info → info.base = some base →
      s.info? root base = some bInfo → bInfo.uri = some bu → s.doc? root = some d →
      Res.bind (findDoc env recDoc root s d (Uri.dropFragment (Uri.resolveReference bu refURI)))
        (fragDispatch env root (Uri.resolveReference bu refURI).fragment) ≠ .err) :
    resolveRef env recDoc root s id ref ≠ .err := by
  cases hinfo : s.info? root id with
  | none => unfold resolveRef; rw [hp]; simp [hinfo]
  | some info =>
  cases hbase : info.base with
  | none => unfold resolveRef; rw [hp]; simp [hinfo, hbase]
  | some base =>
  cases hbInfo : s.info? root base with
  | none => unfold resolveRef; rw [hp]; simp [hinfo, hbase, hbInfo]
  | some bInfo =>
  cases hbu : bInfo.uri with
  | none => unfold resolveRef; rw [hp]; simp [hinfo, hbase, hbInfo, hbu]
  | some bu =>
  cases hd : s.doc? root with
  | none => unfold resolveRef; rw [hp]; simp [hinfo, hbase, hbInfo, hbu, hd]
  | some d =>
    rw [resolveRef_eq env recDoc root s id ref refURI info bInfo base bu d hp hinfo hbase hbInfo hbu hd]
    exact h info bInfo base bu d hinfo hbase hbInfo hbu hd

/-! ### the fragment selects something: the dispatch returns no error -/

/-- the anchors of a resource root have an entry for every name declared in the resource -/
theorem docInv_anchor (D : Doc) (ret : Url) (s : RState) (hD : DocInv D ret s) (r : NodeId) (a : String) (t : NodeId)
    (h : D.AnchorTarget r a t) :
    ∃ ri, lookupNat r s.infos = some ri ∧ (Json.lookup a ri.anchors).isSome = true := by
  obtain ⟨htr, dyn, n, hn, hmem⟩ := h
  obtain ⟨⟨i, r0, hi, hb, hr0, hreg⟩, _⟩ := hD.done t (ResourceRoot.has htr)
  have e : r0 = r := resourceRoot_unique D hD.uniq t r0 r hr0 htr
  subst e
  exact hreg n hn _ hmem

theorem fragDispatch_ne_err (env : Env) (D : Doc) (hst : D.st = env.st) (ret : Url) (root r : NodeId)
    (s1 : RState) (hD : DocInv D ret s1) (frag : String) (hr : (D.st.get? r).isSome = true)
    (ht : ∃ t, D.FragTarget r frag t) : fragDispatch env root frag (r, s1) ≠ .err := by
  obtain ⟨t, ht⟩ := ht
  unfold Doc.FragTarget at ht
  unfold fragDispatch
  split
  · rename_i hc
    simp only [Bool.and_eq_true, bne_iff_ne, ne_eq] at hc
    rw [if_neg hc.1, if_neg hc.2] at ht
    obtain ⟨ri, hri, hl⟩ := docInv_anchor D ret s1 hD r frag t ht
    simp only []
    split
    · simp
    · rename_i rInfo hrInfo
      split
      · rename_i hnone
        rw [info?_lookup _ _ _ _ hrInfo] at hri
        simp only [Option.some.injEq] at hri
        subst hri
        rw [hnone] at hl
        simp at hl
      · simp
  · rename_i hc
    simp only []
    refine bind_ne_err ?_ fun _ _ => by simp
    by_cases hf : frag = ""
    · subst hf
      rw [dereference_empty_ok _ _ _ _ (by rw [← hst]; exact hr)]
      simp
    · rw [if_neg hf] at ht
      have hh : frag.toList.head? = some '/' := by
        simp only [Bool.and_eq_true, bne_iff_ne, ne_eq, not_and, Decidable.not_not] at hc
        exact hc hf
      rw [if_pos hh, hst] at ht
      rw [ht]
      simp


/-! ### the invariant carried through resolveRefs, the open-recursion hypothesis -/

/-- the names of the top document are cached -/
def TopNames (env : Env) (top : NodeId) (dr : Draft) (b : Url) (s : RState) : Prop :=
  ∀ key, (⟨env.st, dr, top⟩ : Doc).Identifies b key top → (Json.lookup key s.loaded).isSome = true

structure CInv (env : Env) (top : NodeId) (dr : Draft) (b : Url) (rets : NodeId → Url) (s : RState) : Prop where
  g : GInv env top rets s
  drafts : AllDraft dr s
  topReg : Registered s top
  topRet : rets top = b
  topNames : TopNames env top dr b s

/-- what the open-recursion callback must satisfy: no error on a Loader document of the universe -/
def RecNE (env : Env) (top : NodeId) (dr : Draft) (b : Url) (recDoc : ResolveDoc) : Prop :=
  ∀ lroot base s rets, CInv env top dr b rets s → s.doc? lroot = none →
    (∀ r, Registered s r → ∀ x, Reach env.st r x → ¬ Reach env.st lroot x) →
    (∃ tbl, env.loader = some tbl ∧ Json.lookup (Uri.toString base) tbl = some (.doc lroot)) →
    base.fragment = "" → recDoc lroot base dr s ≠ .err

theorem docInv_root_uri (D : Doc) (ret : Url) (s : RState) (hD : DocInv D ret s) (r : NodeId) (u : Url)
    (hr : D.ResourceRoot r r) (hu : D.BaseUri ret r u) :
    ∃ i, lookupNat r s.infos = some i ∧ i.uri = some u := by
  obtain ⟨⟨i, r0, hi, hb, hr0, _⟩, r', ⟨i', hi', hb'⟩, ib, lb, hib, hlb, hub⟩ := hD.done r (ResourceRoot.has hr)
  rw [hi] at hi'
  simp only [Option.some.injEq] at hi'
  subst hi'
  rw [hb] at hb'
  simp only [Option.some.injEq] at hb'
  subst hb'
  have e : r0 = r := resourceRoot_unique D hD.uniq r r0 r hr0 hr
  subst e
  exact ⟨ib, hib, by rw [hub, baseUri_unique D ret hD.uniq r0 _ _ ⟨lb, hlb, rfl⟩ hu]⟩

theorem docInv_uris_lookup (D : Doc) (ret : Url) (s : RState) (hD : DocInv D ret s)
    (huids : D.UniqueIds ret) (hkeys : KeysIn D.Has D.root (Uri.toString ret) s) (d : DocRes)
    (hd : s.doc? D.root = some d) (k : String) (r : NodeId) (h : D.Identifies ret k r) :
    Json.lookup k d.uris = some r := by
  obtain ⟨d0, hd0, hk0, hall⟩ := hkeys
  rw [hd] at hd0
  simp only [Option.some.injEq] at hd0
  subst hd0
  have hsome : (Json.lookup k d.uris).isSome = true := by
    rcases h with ⟨_, hk⟩ | ⟨hr, u, hu, hk⟩
    · rw [hk]; exact hk0
    · obtain ⟨i, hi, hiu⟩ := docInv_root_uri D ret s hD r u hr hu
      rw [hk]
      exact hall r i u (ResourceRoot.has hr) hi hiu
  cases hl : Json.lookup k d.uris with
  | none => rw [hl] at hsome; simp at hsome
  | some r' =>
    have := hD.uris d hd _ (lookup_mem _ _ _ hl)
    rw [huids k r' r this h]

theorem loaderDeclares_of (env : Env) (top : NodeId) (dr : Draft) (b : Url) (U : UniverseOk env top dr b) :
    LoaderDeclares env dr := by
  intro tbl k r htbl hk rn hrn
  exact U.loaderDraft tbl k r rn htbl hk hrn

/-- the root of every document of the universe is in the store -/
theorem named_store (env : Env) (top : NodeId) (dr : Draft) (b : Url) (U : UniverseOk env top dr b)
    (u : Url) (hu : u.fragment = "") (x : NodeId) (h : NamedDoc env top dr b (Uri.toString u) x) :
    (env.st.get? x).isSome = true := by
  have hwf : ∃ ret, DocWF env top b ⟨env.st, dr, x⟩ ret := by
    rcases h with ⟨rfl, _⟩ | ⟨tbl, htbl, hl⟩
    · exact ⟨b, U.topDoc⟩
    · exact ⟨u, U.docs tbl u x htbl hl hu⟩
  obtain ⟨ret, hwf⟩ := hwf
  obtain ⟨fresh, hcs⟩ := structureOk_ok env.st x hwf.struct
  exact has_store env.st dr x fresh hcs x ⟨[], by simp [isLineage]⟩

/-- a cache entry is a name -/
theorem cached_name (env : Env) (top : NodeId) (dr : Draft) (b : Url) (rets : NodeId → Url) (s : RState)
    (hinv : CInv env top dr b rets s) (key : String) (lr : NodeId) (h : Json.lookup key s.loaded = some lr) :
    NameOf env top dr b key lr ∧ ∃ dl, s.doc? lr = some dl ∧ dl.draft = dr := by
  obtain ⟨dl, hdl, hI⟩ := hinv.g.loaded _ (lookup_mem _ _ _ h)
  have hdr : dl.draft = dr := hinv.drafts dl (doc?_mem s lr dl hdl)
  rw [hdr] at hI
  refine ⟨?_, dl, hdl, hdr⟩
  rcases hinv.g.reg lr (by unfold Registered; rw [hdl]; rfl) with h1 | ⟨tbl, k, h1, h2, _, h4⟩
  · subst h1
    rw [hinv.topRet] at hI
    exact Or.inl ⟨rfl, hI⟩
  · exact Or.inr ⟨tbl, rets lr, h1, by rw [← h4]; exact h2, hI⟩

theorem named_name (env : Env) (top : NodeId) (dr : Draft) (b : Url) (u : Url) (x : NodeId)
    (h : NamedDoc env top dr b (Uri.toString u) x) : NameOf env top dr b (Uri.toString u) x := by
  rcases h with h | ⟨tbl, htbl, hl⟩
  · exact Or.inl h
  · exact Or.inr ⟨tbl, u, htbl, hl, Or.inl ⟨rfl, rfl⟩⟩


/-! ### one reference -/

theorem resolveRef_ne_err_G (env : Env) (top : NodeId) (dr : Draft) (b : Url) (recDoc : ResolveDoc)
    (hrecG : RecG env top recDoc) (hrecA : RecAll env dr recDoc) (hrecN : RecNE env top dr b recDoc)
    (hfresh : LoaderFresh env top) (U : UniverseOk env top dr b)
    (rets : NodeId → Url) (s : RState) (root id : NodeId) (ref : String)
    (hinv : CInv env top dr b rets s)
    (hkeys : KeysIn (Reach env.st root) root (Uri.toString (rets root)) s)
    (hwf : DocWF env top b ⟨env.st, dr, root⟩ (rets root))
    (hid : Reach env.st root id)
    (hgood : Doc.RefGood env top b ⟨env.st, dr, root⟩ (rets root) id ref) :
    resolveRef env recDoc root s id ref ≠ .err := by
  obtain ⟨bu', refURI, hBU', hparse, hcase⟩ := hgood
  apply resolveRef_ne_err_of env recDoc root s id ref refURI hparse
  intro info bInfo base bu d hinfo hbase hbInfo hbu hd
  have hdr : d.draft = dr := hinv.drafts d (doc?_mem s root d hd)
  have hD : DocInv ⟨env.st, dr, root⟩ (rets root) s := by
    have := hinv.g.docs root d hd
    rw [hdr] at this
    exact this
  have hBU : (⟨env.st, dr, root⟩ : Doc).BaseUri (rets root) id bu :=
    (done_baseUri ⟨env.st, dr, root⟩ (rets root) s.infos hD.uniq id (hD.done id hid) info bInfo base bu
      (info?_lookup _ _ _ _ hinfo) hbase (info?_lookup _ _ _ _ hbInfo) hbu).2
  have e : bu = bu' := baseUri_unique _ _ hD.uniq id _ _ hBU hBU'
  subst e
  have hfl : (Uri.dropFragment (Uri.resolveReference bu refURI)).fragment = "" := rfl
  obtain ⟨fresh, hcs⟩ := structureOk_ok env.st root hwf.struct
  have hstore := has_store env.st dr root fresh hcs
  rcases hcase with ⟨r, hI, ht⟩ | ⟨hnoI, x, hnamed, ht⟩
  · -- the URI identifies a resource of the referring document
    have hlk := docInv_uris_lookup ⟨env.st, dr, root⟩ (rets root) s hD hwf.uniq hkeys d hd _ r hI
    have hf : findDoc env recDoc root s d (Uri.dropFragment (Uri.resolveReference bu refURI)) = .ok (r, s) := by
      unfold findDoc; rw [hlk]
    rw [hf]
    simp only [Res.bind_ok]
    exact fragDispatch_ne_err env ⟨env.st, dr, root⟩ rfl (rets root) root r s hD _
      (hstore r (identifies_has _ _ _ _ hI)) ht
  · have hl1 : Json.lookup (Uri.toString (Uri.dropFragment (Uri.resolveReference bu refURI))) d.uris = none := by
      cases hl : Json.lookup (Uri.toString (Uri.dropFragment (Uri.resolveReference bu refURI))) d.uris with
      | none => rfl
      | some r' => exact absurd (hD.uris d hd _ (lookup_mem _ _ _ hl)) (hnoI r')
    have hx := named_store env top dr b U _ hfl x hnamed
    cases hl2 : Json.lookup (Uri.toString (Uri.dropFragment (Uri.resolveReference bu refURI))) s.loaded with
    | some lr =>
      -- the document is cached
      obtain ⟨hname, dl, hdl, hdldr⟩ := cached_name env top dr b rets s hinv _ lr hl2
      have e : lr = x := U.coherent _ lr x hname (named_name env top dr b _ x hnamed)
      subst e
      have hf : findDoc env recDoc root s d (Uri.dropFragment (Uri.resolveReference bu refURI)) =
          .ok (lr, mergeKnown s root lr) := by
        unfold findDoc; rw [hl1]; simp only []; rw [hl2]
      rw [hf]
      simp only [Res.bind_ok]
      have hfr := frozen_mergeKnown s root lr
      obtain ⟨dl', hdl', _, hdr'⟩ := hfr.doc lr dl hdl
      have hD' : DocInv ⟨env.st, dr, lr⟩ (rets lr) (mergeKnown s root lr) := by
        have := (gInv_frozen env top rets hfr hinv.g).docs lr dl' hdl'
        rw [hdr', hdldr] at this
        exact this
      exact fragDispatch_ne_err env ⟨env.st, dr, lr⟩ rfl (rets lr) root lr _ hD' _ hx ht
    | none =>
      rcases hnamed with ⟨rfl, hItop⟩ | ⟨tbl, htbl, hltbl⟩
      · have := hinv.topNames _ hItop
        rw [hl2] at this
        simp at this
      · -- the Loader is asked
        have hf : findDoc env recDoc root s d (Uri.dropFragment (Uri.resolveReference bu refURI)) =
            Res.bind (recDoc x (Uri.dropFragment (Uri.resolveReference bu refURI)) d.draft
              { s with log := s.log ++ [Uri.toString (Uri.dropFragment (Uri.resolveReference bu refURI))] })
              fun s2 => .ok (x, mergeKnown s2 root x) := by
          unfold findDoc; rw [hl1]; simp only []; rw [hl2]; simp only []; rw [htbl]; simp only []; rw [hltbl]
        rw [hf, hdr]
        have hfr0 : Frozen s { s with log := s.log ++ [Uri.toString (Uri.dropFragment (Uri.resolveReference bu refURI))] } :=
          ⟨fun _ => rfl, fun _ => rfl, rfl⟩
        have hg0 := gInv_frozen env top rets hfr0 hinv.g
        have hdisj : ∀ y, Registered s y → ∀ z, Reach env.st y z → ¬ Reach env.st x z := by
          intro y hy z hz hz'
          rcases hinv.g.reg y hy with rfl | ⟨tbl', k', ht', hk', hl', _⟩
          · exact (hfresh tbl htbl).1 _ x hltbl z hz' hz
          · rw [htbl] at ht'
            simp only [Option.some.injEq] at ht'
            subst ht'
            have hne : k' ≠ Uri.toString (Uri.dropFragment (Uri.resolveReference bu refURI)) := by
              intro e; rw [e, hl2] at hl'; simp at hl'
            exact (hfresh tbl htbl).2 k' _ y x hne hk' hltbl z hz hz'
        have hnone : s.doc? x = none := by
          cases hc : s.doc? x with
          | none => rfl
          | some dd =>
            exact absurd (reach_root env.st x) (hdisj x (by unfold Registered; rw [hc]; rfl) x (reach_root env.st x))
        have hinv0 : CInv env top dr b rets
            { s with log := s.log ++ [Uri.toString (Uri.dropFragment (Uri.resolveReference bu refURI))] } :=
          ⟨hg0, AllDraft.of_docs_eq rfl hinv.drafts, hinv.topReg, hinv.topRet, hinv.topNames⟩
        refine bind_ne_err (bind_ne_err (hrecN x _ _ rets hinv0 hnone hdisj ⟨tbl, htbl, hltbl⟩ hfl)
          (fun _ _ => by simp)) ?_
        intro p hp
        rw [bind_eq_ok] at hp
        obtain ⟨s2, hdoc, hp⟩ := hp
        simp only [Res.ok.injEq] at hp
        subst hp
        obtain ⟨rets', _, _, hg2, _, d2, hd2, _⟩ :=
          hrecG x _ dr _ s2 rets hdoc hg0 hnone hdisj (Or.inr ⟨tbl, htbl, hltbl⟩)
        have hall2 : AllDraft dr s2 :=
          hrecA x _ dr _ s2 hdoc (loaderDeclares_of env top dr b U tbl _ x htbl hltbl)
            (AllDraft.of_docs_eq rfl hinv.drafts)
        have hd2dr : d2.draft = dr := hall2 d2 (doc?_mem s2 x d2 hd2)
        have hfr := frozen_mergeKnown s2 root x
        obtain ⟨d2', hd2', _, hdr'⟩ := hfr.doc x d2 hd2
        have hD' : DocInv ⟨env.st, dr, x⟩ (rets' x) (mergeKnown s2 root x) := by
          have := (gInv_frozen env top rets' hfr hg2).docs x d2' hd2'
          rw [hdr', hd2dr] at this
          exact this
        exact fragDispatch_ne_err env ⟨env.st, dr, x⟩ rfl (rets' x) root x _ hD' _ hx ht

end RComp
end Go
end JSV
