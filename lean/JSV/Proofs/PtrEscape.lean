/-
  Helper lemmas for C17: the two strings.Replacer tables, escape / unescape, split, parse ∘ render.
-/
import JSV.Model.Pointer
namespace JSV
namespace Pointer

theorem escapePairs_eq : escapePairs = [(['~'],['~','0']), (['/'],['~','1'])] := by decide
theorem unescapePairs_eq : unescapePairs = [(['~','0'],['~']), (['~','1'],['/'])] := by decide

/-- the per-character image of the escaper -/
def escChar (c : Char) : List Char :=
  if c = '~' then ['~','0'] else if c = '/' then ['~','1'] else [c]

theorem replaceAux_escape (fuel : Nat) (s : Cs) (h : s.length ≤ fuel) :
    replaceAux escapePairs fuel s = s.flatMap escChar := by
  induction fuel generalizing s with
  | zero =>
    cases s with
    | nil => rfl
    | cons c r => simp at h
  | succ fuel ih =>
    cases s with
    | nil => rfl
    | cons c r =>
      have hr : r.length ≤ fuel := by simpa using h
      rw [replaceAux, escapePairs_eq]
      by_cases h1 : c = '~'
      · subst h1
        simp [firstMatch, escChar, ← escapePairs_eq, ih r hr]
      · by_cases h2 : c = '/'
        · subst h2
          simp [firstMatch, escChar, ← escapePairs_eq, ih r hr]
        · have h1' : ¬ '~' = c := fun e => h1 e.symm
          have h2' : ¬ '/' = c := fun e => h2 e.symm
          simp [firstMatch, escChar, h1, h2, h1', h2', ← escapePairs_eq, ih r hr]

theorem replaceAll_escape (s : Cs) : replaceAll escapePairs s = s.flatMap escChar :=
  replaceAux_escape _ s (Nat.le_succ _)

theorem replaceAux_unescape (s : Cs) : ∀ fuel, (s.flatMap escChar).length ≤ fuel →
    replaceAux unescapePairs fuel (s.flatMap escChar) = s := by
  induction s with
  | nil => intro fuel _; cases fuel <;> rfl
  | cons c r ih =>
    intro fuel h
    cases fuel with
    | zero => simp [escChar] at h; split at h <;> (try split at h) <;> simp at h
    | succ fuel =>
      rw [List.flatMap_cons] at h ⊢
      by_cases h1 : c = '~'
      · subst h1
        have hr : (r.flatMap escChar).length ≤ fuel := by
          rw [List.length_append] at h; have e : (escChar '~').length = 2 := rfl; omega
        simp only [escChar, if_true, List.cons_append, List.nil_append]
        rw [replaceAux, unescapePairs_eq]
        simp [firstMatch, ← unescapePairs_eq, ih fuel hr]
      · by_cases h2 : c = '/'
        · subst h2
          have hr : (r.flatMap escChar).length ≤ fuel := by
            rw [List.length_append] at h; have e : (escChar '/').length = 2 := rfl; omega
          have e : escChar '/' = ['~', '1'] := rfl
          rw [e]
          simp only [List.cons_append, List.nil_append]
          rw [replaceAux, unescapePairs_eq]
          simp [firstMatch, ← unescapePairs_eq, ih fuel hr]
        · have hr : (r.flatMap escChar).length ≤ fuel := by
            rw [List.length_append] at h
            have e : (escChar c).length = 1 := by simp [escChar, h1, h2]
            omega
          have h1' : ¬ '~' = c := fun e => h1 e.symm
          simp only [escChar, if_neg h1, if_neg h2, List.cons_append, List.nil_append]
          rw [replaceAux, unescapePairs_eq]
          simp [firstMatch, h1', ← unescapePairs_eq, ih fuel hr]

theorem replaceAll_unescape_escape (s : Cs) :
    replaceAll unescapePairs (replaceAll escapePairs s) = s := by
  rw [replaceAll_escape, replaceAll]
  exact replaceAux_unescape s _ (Nat.le_succ _)

theorem toList_escapeSegment (s : String) : (escapeSegment s).toList = s.toList.flatMap escChar := by
  simp [escapeSegment, replaceAll_escape]

theorem unescapeSegment_escapeSegment (s : String) : unescapeSegment (escapeSegment s) = s := by
  unfold unescapeSegment
  rw [toList_escapeSegment, ← replaceAll_escape, replaceAll_unescape_escape, String.ofList_toList]

theorem slash_not_mem_escChars (s : Cs) : '/' ∉ s.flatMap escChar := by
  intro h
  rw [List.mem_flatMap] at h
  obtain ⟨c, _, hc⟩ := h
  unfold escChar at hc
  split at hc
  · simp at hc
  · split at hc
    · simp at hc
    · simp at hc; exact absurd hc.symm ‹_›

/-- without '~' in the output the escaper did nothing -/
theorem escChars_eq_self_of_no_tilde (s : Cs) (h : '~' ∉ s.flatMap escChar) : s.flatMap escChar = s := by
  induction s with
  | nil => rfl
  | cons c r ih =>
    rw [List.flatMap_cons] at h ⊢
    have hc : '~' ∉ escChar c := fun m => h (List.mem_append_left _ m)
    have hr : '~' ∉ r.flatMap escChar := fun m => h (List.mem_append_right _ m)
    rw [ih hr]
    unfold escChar at hc ⊢
    split at hc
    · simp at hc
    · split at hc
      · simp at hc
      · simp [*]

/-! ### splitOn -/

theorem splitOn_cons_sep (c : Char) (r : Cs) : splitOn c (c :: r) = [] :: splitOn c r := by
  simp [splitOn]

theorem splitOn_cons_ne (c x : Char) (r h : Cs) (t : List Cs) (hx : x ≠ c) (hr : splitOn c r = h :: t) :
    splitOn c (x :: r) = (x :: h) :: t := by
  unfold splitOn at hr ⊢
  rw [List.foldr_cons]
  generalize List.foldr _ _ r = p at hr ⊢
  obtain ⟨p1, p2⟩ := p
  simp only [List.cons.injEq] at hr
  have hx' : (x == c) = false := by simpa using hx
  simp [hx', hr.1, hr.2]

theorem splitOn_no_sep (c : Char) (a : Cs) (h : c ∉ a) : splitOn c a = [a] := by
  induction a with
  | nil => rfl
  | cons x r ih =>
    have hx : x ≠ c := fun e => h (by simp [e])
    have hr : c ∉ r := fun m => h (List.mem_cons_of_mem _ m)
    exact splitOn_cons_ne c x r r [] hx (ih hr)

theorem splitOn_append_sep (c : Char) (a b : Cs) (h : c ∉ a) :
    splitOn c (a ++ c :: b) = a :: splitOn c b := by
  induction a with
  | nil => exact splitOn_cons_sep c b
  | cons x r ih =>
    have hx : x ≠ c := fun e => h (by simp [e])
    have hr : c ∉ r := fun m => h (List.mem_cons_of_mem _ m)
    exact splitOn_cons_ne c x _ r _ hx (ih hr)

/-! ### parse ∘ render -/

/-- escaped characters of a segment -/
def escL (s : String) : Cs := s.toList.flatMap escChar

theorem toList_render (segs : List String) :
    (render segs).toList = segs.flatMap fun s => '/' :: escL s := by
  unfold render
  rw [String.toList_join, List.flatMap_map]
  induction segs with
  | nil => rfl
  | cons s ss ih =>
    rw [List.flatMap_cons, List.flatMap_cons, ih, String.toList_append, toList_escapeSegment]
    rfl

theorem splitOn_rendered (s : String) (ss : List String) :
    splitOn '/' (escL s ++ ss.flatMap (fun s => '/' :: escL s)) = (s :: ss).map escL := by
  induction ss generalizing s with
  | nil => simp [splitOn_no_sep '/' (escL s) (slash_not_mem_escChars s.toList)]
  | cons t ts ih =>
    rw [List.flatMap_cons, List.cons_append,
      splitOn_append_sep '/' (escL s) _ (slash_not_mem_escChars s.toList), ih t]
    rfl

theorem parse_render (segs : List String) : parse (render segs) = .ok segs := by
  cases segs with
  | nil =>
    unfold parse
    rw [toList_render]
    rfl
  | cons s ss =>
    unfold parse
    rw [toList_render]
    simp only [List.flatMap_cons, List.cons_append]
    rw [splitOn_rendered]
    split
    · -- a '~' somewhere: every segment is unescaped
      apply congrArg Res.ok
      rw [List.map_map, List.map_map]
      conv => rhs; rw [← List.map_id (s :: ss)]
      apply List.map_congr_left
      intro a _
      show unescapeSegment (String.ofList (escL a)) = a
      have : String.ofList (escL a) = escapeSegment a := by
        simp [escL, escapeSegment, replaceAll_escape]
      rw [this, unescapeSegment_escapeSegment]
    · -- no '~' anywhere: the escaper was the identity on every segment
      rename_i hc
      apply congrArg Res.ok
      rw [List.map_map]
      conv => rhs; rw [← List.map_id (s :: ss)]
      apply List.map_congr_left
      intro a ha
      show String.ofList (escL a) = a
      have hno : '~' ∉ escL a := by
        intro hm
        apply hc
        rw [List.contains_iff_mem]
        have : '~' ∈ (s :: ss).flatMap fun s => '/' :: escL s :=
          List.mem_flatMap.mpr ⟨a, ha, List.mem_cons_of_mem _ hm⟩
        simpa [List.flatMap_cons] using this
      rw [escL, escChars_eq_self_of_no_tilde _ hno, String.ofList_toList]

end Pointer
end JSV
