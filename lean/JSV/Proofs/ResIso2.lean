/-
  Resolve commutes with a renaming of schema node ids (part 2: resolveURIs, Schema.all, resolveRef, resolveRefs,
  resolver.resolve, Schema.Resolve).
-/
import JSV.Proofs.ResIso
namespace JSV
namespace Go
namespace RIso
open RInv

/-! ### resolveURIs -/

/-- the state after the `$id` block and the base for the schema and its children -/
def StepRel (R : NodeId → NodeId → Prop) (p₁ p₂ : RState × NodeId) : Prop := SRel R p₁.1 p₂.1 ∧ R p₁.2 p₂.2

/-- a worklist entry of resolveURIs: the schema and its base -/
def PairRel (R : NodeId → NodeId → Prop) (p₁ p₂ : NodeId × NodeId) : Prop := R p₁.1 p₂.1 ∧ R p₁.2 p₂.2

theorem uris_cons (env : Env) (draft : Draft) (root : NodeId) (fuel : Nat) (id base : NodeId)
    (work : List (NodeId × NodeId)) (s : RState) (n : Node) (i bi : Info)
    (hn : env.st.get? id = some n) (hi : lookupNat id s.infos = some i) (hb : lookupNat base s.infos = some bi) :
    resolveURIsLoop env draft root (fuel + 1) ((id, base) :: work) s =
      Res.bind (uriStep draft root s id base n bi) fun p =>
        resolveURIsLoop env draft root fuel ((n.children.map fun c => (c, p.2)) ++ work)
          (postStep draft p.1 id p.2 n) := by
  rw [resolveURIsLoop, hn, hi, hb]
  rfl

section
variable {R : NodeId → NodeId → Prop} {env₁ env₂ : Env} (hE : EnvRel R env₁ env₂)
include hE

theorem uriStep_rel (draft : Draft) {r₁ r₂ : NodeId} (hr : R r₁ r₂) {s₁ s₂ : RState} (h : SRel R s₁ s₂)
    {a b base₁ base₂ : NodeId} (hab : R a b) (hbase : R base₁ base₂) {n₁ n₂ : Node} (hn : RNode R env₁ env₂ n₁ n₂)
    {bi₁ bi₂ : Info} (hbi : InfoRel R bi₁ bi₂) :
    DirRel (StepRel R) (uriStep draft r₁ s₁ a base₁ n₁ bi₁) (uriStep draft r₂ s₂ b base₂ n₂ bi₂) := by
  have hb := hE.biu
  unfold uriStep
  simp only
  rw [← hn.id, ← hn.ref, ← hbi.uri]
  split
  · refine (DirRel.refl_eq (Uri.parse n₁.id)).bind ?_
    intro idURI _ e
    subst e
    split
    · exact DirRel.err
    · split
      · exact DirRel.ok ⟨h.setAnchor hb hbase hab _ _, hbase⟩
      · cases bi₁.uri with
        | none => exact DirRel.panic
        | some bu =>
          simp only
          split
          · exact DirRel.err
          · refine DirRel.ok ⟨?_, hab⟩
            have h1 : SRel R (s₁.updInfo a fun i => { i with uri := some (Uri.resolveReference bu idURI) })
                (s₂.updInfo b fun i => { i with uri := some (Uri.resolveReference bu idURI) }) :=
              h.updInfo hb hab fun _ _ hi => { hi with uri := rfl }
            have hd := h1.doc? hb hr
            cases e1 : (s₁.updInfo a fun i => { i with uri := some (Uri.resolveReference bu idURI) }).doc? r₁ with
            | none =>
              cases e2 : (s₂.updInfo b fun i => { i with uri := some (Uri.resolveReference bu idURI) }).doc? r₂ with
              | none => exact h1
              | some _ => rw [e1, e2] at hd; exact hd.elim
            | some d₁ =>
              cases e2 : (s₂.updInfo b fun i => { i with uri := some (Uri.resolveReference bu idURI) }).doc? r₂ with
              | none => rw [e1, e2] at hd; exact hd.elim
              | some d₂ =>
                rw [e1, e2] at hd
                simp only
                apply h1.setDoc hb
                refine ⟨hd.root, hd.draft, ?_, hd.known⟩
                exact listRel_append
                  (listRel_filter (fun x y hxy => by rw [show x.1 = y.1 from hxy.1]) hd.uris)
                  (.cons ⟨rfl, hab⟩ .nil)
  · exact DirRel.ok ⟨h, hbase⟩

theorem postStep_rel (draft : Draft) {s₁ s₂ : RState} (h : SRel R s₁ s₂) {a b base₁ base₂ : NodeId} (hab : R a b)
    (hbase : R base₁ base₂) {n₁ n₂ : Node} (hn : RNode R env₁ env₂ n₁ n₂) :
    SRel R (postStep draft s₁ a base₁ n₁) (postStep draft s₂ b base₂ n₂) := by
  have hb := hE.biu
  have h1 : SRel R (s₁.updInfo a fun i => { i with base := some base₁ })
      (s₂.updInfo b fun i => { i with base := some base₂ }) :=
    h.updInfo hb hab fun _ _ hi => { hi with base := hbase }
  unfold postStep
  simp only
  rw [← hn.anchor, ← hn.dynamicAnchor]
  split
  · exact (h1.setAnchor hb hbase hab _ _).setAnchor hb hbase hab _ _
  · exact h1

/-- resolveURIs on related worklists and states (two fuels: the right run is only asked not to run out) -/
theorem uris_rel (draft : Draft) {r₁ r₂ : NodeId} (hr : R r₁ r₂) :
    ∀ (f₁ f₂ : Nat) (w₁ w₂ : List (NodeId × NodeId)) (s₁ s₂ s₁' : RState),
      ListRel (PairRel R) w₁ w₂ → SRel R s₁ s₂ →
      resolveURIsLoop env₁ draft r₁ f₁ w₁ s₁ = .ok s₁' → resolveURIsLoop env₂ draft r₂ f₂ w₂ s₂ ≠ .fuel →
      ∃ s₂', resolveURIsLoop env₂ draft r₂ f₂ w₂ s₂ = .ok s₂' ∧ SRel R s₁' s₂' := by
  intro f₁
  induction f₁ with
  | zero => intro f₂ w₁ w₂ s₁ s₂ s₁' _ _ h; rw [resolveURIsLoop] at h; cases h
  | succ f₁ ih =>
    intro f₂ w₁ w₂ s₁ s₂ s₁' hw h hrun hnf
    cases f₂ with
    | zero => exact absurd (by rw [resolveURIsLoop]) hnf
    | succ f₂ =>
      cases hw with
      | nil =>
        rw [resolveURIsLoop] at hrun ⊢
        cases hrun
        exact ⟨s₂, rfl, h⟩
      | cons h1 h2 =>
        rename_i e₁ e₂ w₁' w₂'
        obtain ⟨a, base₁⟩ := e₁
        obtain ⟨b, base₂⟩ := e₂
        have hab : R a b := h1.1
        have hbase : R base₁ base₂ := h1.2
        obtain ⟨n₁, i0, bi₁, s1, b1, hn₁, hi₁, hb₁, hstep, hrest⟩ :=
          resolveURIsLoop_unfold env₁ draft r₁ f₁ a base₁ w₁' s₁ s₁' hrun
        have hn := hE.node a b hab
        rw [hn₁] at hn
        cases hn₂ : env₂.st.get? b with
        | none => rw [hn₂] at hn; exact hn.elim
        | some n₂ =>
          rw [hn₂] at hn
          have hia := h.infos a b hab
          rw [hi₁] at hia
          cases hi₂ : lookupNat b s₂.infos with
          | none => rw [hi₂] at hia; exact hia.elim
          | some i0' =>
            have hib := h.infos base₁ base₂ hbase
            rw [hb₁] at hib
            cases hb₂ : lookupNat base₂ s₂.infos with
            | none => rw [hb₂] at hib; exact hib.elim
            | some bi₂ =>
              rw [hb₂] at hib
              obtain ⟨p₂, hstep₂, hrel⟩ := uriStep_rel hE draft hr h hab hbase hn hib (s1, b1) hstep
              rw [uris_cons env₂ draft r₂ f₂ b base₂ w₂' s₂ n₂ i0' bi₂ hn₂ hi₂ hb₂, hstep₂, Res.bind_ok] at hnf ⊢
              refine ih f₂ _ _ _ _ s₁' ?_ (postStep_rel hE draft hrel.1 hab hrel.2 hn) hrest hnf
              exact listRel_append (listRel_map (fun x y hxy => ⟨hxy, hrel.2⟩) hn.children) h2

/-! ### Schema.all -/

/-- `Schema.all()` on related roots lists related schemas in the same order.  The two traversals are cut off by fuels
    that may differ; that neither is cut short is witnessed by resolveURIs — the same walk — having returned normally
    with these fuels. -/
theorem allNodes_rel (d₁ d₂ : Draft) (r₁ r₂ : NodeId) :
    ∀ (f₁ f₂ : Nat) (w₁ w₂ : List (NodeId × NodeId)) (s₁ s₂ s₁' s₂' : RState),
      ListRel R (w₁.map (·.1)) (w₂.map (·.1)) →
      resolveURIsLoop env₁ d₁ r₁ f₁ w₁ s₁ = .ok s₁' → resolveURIsLoop env₂ d₂ r₂ f₂ w₂ s₂ = .ok s₂' →
      ListRel R (allNodes env₁.st f₁ (w₁.map (·.1))) (allNodes env₂.st f₂ (w₂.map (·.1))) := by
  intro f₁
  induction f₁ with
  | zero => intro f₂ w₁ w₂ s₁ s₂ s₁' s₂' _ h; rw [resolveURIsLoop] at h; cases h
  | succ f₁ ih =>
    intro f₂ w₁ w₂ s₁ s₂ s₁' s₂' hw h₁ h₂
    cases f₂ with
    | zero => rw [resolveURIsLoop] at h₂; cases h₂
    | succ f₂ =>
      cases w₁ with
      | nil =>
        cases w₂ with
        | nil => rw [List.map_nil, allNodes, allNodes]; exact .nil
        | cons _ _ => cases hw
      | cons e₁ w₁' =>
        cases w₂ with
        | nil => cases hw
        | cons e₂ w₂' =>
          obtain ⟨a, base₁⟩ := e₁
          obtain ⟨b, base₂⟩ := e₂
          simp only [List.map_cons] at hw ⊢
          obtain ⟨_, _, e, hab, htl⟩ := hw.cons_inv
          cases e
          obtain ⟨n₁, _, _, s1, b1, hn₁, _, _, _, hrest₁⟩ := resolveURIsLoop_unfold env₁ d₁ r₁ f₁ a base₁ w₁' s₁ s₁' h₁
          obtain ⟨n₂, _, _, s2, b2, hn₂, _, _, _, hrest₂⟩ := resolveURIsLoop_unfold env₂ d₂ r₂ f₂ b base₂ w₂' s₂ s₂' h₂
          have hn := hE.node a b hab
          rw [hn₁, hn₂] at hn
          rw [allNodes, allNodes, hn₁, hn₂]
          dsimp only
          refine .cons hab ?_
          have e1 : n₁.children ++ w₁'.map (·.1) = ((n₁.children.map fun c => (c, b1)) ++ w₁').map (·.1) := by
            rw [List.map_append, RTot.map_fst_pair]
          have e2 : n₂.children ++ w₂'.map (·.1) = ((n₂.children.map fun c => (c, b2)) ++ w₂').map (·.1) := by
            rw [List.map_append, RTot.map_fst_pair]
          rw [e1, e2]
          refine ih f₂ _ _ _ _ s₁' s₂' ?_ hrest₁ hrest₂
          rw [← e1, ← e2]
          exact listRel_append hn.children htl

end

/-- resolveURIs over a document checkStructure has accepted does not run out of fuel -/
theorem uris_ne_fuel_doc (env : Env) (root : NodeId) (fresh : List (NodeId × Info))
    (hfresh : checkStructure env.st (env.st.size + 2) [(root, "")] [] = .ok fresh) (draft : Draft) (s : RState) :
    resolveURIsLoop env draft root (env.st.size + 2) [(root, root)] s ≠ .fuel := by
  have hacc := C10.checkStructure_accOK env.st _ _ [] fresh hfresh ⟨List.nodup_nil, fun _ h => nomatch h⟩
  have hlen : (ids fresh).length ≤ env.st.size := by
    have := C10.AccOK_length env.st fresh hacc
    simpa [ids] using this
  have hcnt := RTot.checkStructure_count env.st root _ _ _ _ hfresh (fun v => by simp [ids])
  have hT : ∀ v, List.count v (root :: (ids fresh).flatMap (RTot.kidsOf env.st)) ≤ 1 := by
    intro v
    rw [← hcnt v]
    exact List.nodup_iff_count.mp hacc.1 v
  apply RTot.resolveURIsLoop_ne_fuel env _ root (ids fresh)
    (checkStructure_closed env.st _ _ _ _ hfresh (fun _ hid => absurd hid (by simp [ids]))) hT _ _ _ []
  · intro w hw
    simp only [List.mem_singleton] at hw
    rw [hw]; exact checkStructure_root_mem env.st _ root fresh hfresh
  · exact List.nodup_nil
  · intro x hx; cases hx
  · intro v; simp
  · simp only [List.length_nil]; omega

/-! ### resolveRef / resolveRefs -/

/-- the open-recursion callbacks: related document roots, related states -/
def RecRel (R : NodeId → NodeId → Prop) (rec₁ rec₂ : ResolveDoc) : Prop :=
  ∀ l₁ l₂ u dr s₁ s₂, R l₁ l₂ → SRel R s₁ s₂ → DirRel (SRel R) (rec₁ l₁ u dr s₁) (rec₂ l₂ u dr s₂)

/-- related targets, the same anchor name, related states -/
def OutRel (R : NodeId → NodeId → Prop) (o₁ o₂ : RefOut × RState) : Prop :=
  R o₁.1.target o₂.1.target ∧ o₁.1.dynFrag = o₂.1.dynFrag ∧ SRel R o₁.2 o₂.2

section
variable {R : NodeId → NodeId → Prop} {env₁ env₂ : Env} (hE : EnvRel R env₁ env₂)
include hE

theorem resolveRef_rel {rec₁ rec₂ : ResolveDoc} (hrec : RecRel R rec₁ rec₂) {r₁ r₂ : NodeId} (hr : R r₁ r₂)
    {s₁ s₂ : RState} (h : SRel R s₁ s₂) {a b : NodeId} (hab : R a b) (ref : String) :
    DirRel (OutRel R) (resolveRef env₁ rec₁ r₁ s₁ a ref) (resolveRef env₂ rec₂ r₂ s₂ b ref) := by
  have hb := hE.biu
  unfold resolveRef
  refine (DirRel.refl_eq (Uri.parse ref)).bind ?_
  intro refURI0 _ e
  subst e
  have hi := h.info? hb hr hab
  cases hi₁ : s₁.info? r₁ a with
  | none => exact DirRel.panic
  | some info₁ =>
    cases hi₂ : s₂.info? r₂ b with
    | none => rw [hi₁, hi₂] at hi; exact hi.elim
    | some info₂ =>
      rw [hi₁, hi₂] at hi
      dsimp only
      have hbase := hi.base
      cases hb₁ : info₁.base with
      | none => exact DirRel.panic
      | some base₁ =>
        cases hb₂ : info₂.base with
        | none => rw [hb₁, hb₂] at hbase; exact hbase.elim
        | some base₂ =>
          rw [hb₁, hb₂] at hbase
          dsimp only
          have hbi := h.info? hb hr hbase
          cases hbi₁ : s₁.info? r₁ base₁ with
          | none => exact DirRel.panic
          | some bInfo₁ =>
            cases hbi₂ : s₂.info? r₂ base₂ with
            | none => rw [hbi₁, hbi₂] at hbi; exact hbi.elim
            | some bInfo₂ =>
              rw [hbi₁, hbi₂] at hbi
              dsimp only
              rw [← hbi.uri]
              have hd := h.doc? hb hr
              cases hu : bInfo₁.uri with
              | none => exact DirRel.panic
              | some bu =>
                cases hd₁ : s₁.doc? r₁ with
                | none => exact DirRel.panic
                | some d₁ =>
                  cases hd₂ : s₂.doc? r₂ with
                  | none => rw [hd₁, hd₂] at hd; exact hd.elim
                  | some d₂ =>
                    rw [hd₁, hd₂] at hd
                    dsimp only
                    generalize Uri.resolveReference bu refURI0 = refURI
                    generalize Uri.toString (Uri.dropFragment refURI) = key
                    refine DirRel.bind (Q := fun p₁ p₂ => R p₁.1 p₂.1 ∧ SRel R p₁.2 p₂.2) ?_ ?_
                    · have hlu := lookup_krel key hd.uris
                      cases hu₁ : Json.lookup key d₁.uris with
                      | some t₁ =>
                        cases hu₂ : Json.lookup key d₂.uris with
                        | none => rw [hu₁, hu₂] at hlu; exact hlu.elim
                        | some t₂ => rw [hu₁, hu₂] at hlu; exact DirRel.ok ⟨hlu, h⟩
                      | none =>
                        cases hu₂ : Json.lookup key d₂.uris with
                        | some t₂ => rw [hu₁, hu₂] at hlu; exact hlu.elim
                        | none =>
                          dsimp only
                          have hll := lookup_krel key h.loaded
                          cases hl₁ : Json.lookup key s₁.loaded with
                          | some l₁ =>
                            cases hl₂ : Json.lookup key s₂.loaded with
                            | none => rw [hl₁, hl₂] at hll; exact hll.elim
                            | some l₂ =>
                              rw [hl₁, hl₂] at hll
                              exact DirRel.ok ⟨hll, h.mergeKnown hb hr hll⟩
                          | none =>
                            cases hl₂ : Json.lookup key s₂.loaded with
                            | some l₂ => rw [hl₁, hl₂] at hll; exact hll.elim
                            | none =>
                              dsimp only
                              cases hld : env₁.loader with
                              | none => exact DirRel.err
                              | some tbl₁ =>
                                obtain ⟨tbl₂, hld₂, hdoc⟩ := hE.loader tbl₁ hld
                                rw [hld₂]
                                dsimp only
                                cases ht₁ : Json.lookup key tbl₁ with
                                | none => exact DirRel.err
                                | some res₁ =>
                                  cases res₁ with
                                  | fail => exact DirRel.err
                                  | nilDoc => exact DirRel.err
                                  | doc l₁ =>
                                    obtain ⟨l₂, ht₂, hl⟩ := hdoc key l₁ ht₁
                                    rw [ht₂]
                                    dsimp only
                                    rw [← hd.draft]
                                    have hs1 : SRel R { s₁ with log := s₁.log ++ [key] }
                                        { s₂ with log := s₂.log ++ [key] } :=
                                      ⟨h.infos, h.docs, h.loaded, by
                                        show s₁.log ++ _ = s₂.log ++ _
                                        rw [h.log]⟩
                                    refine (hrec l₁ l₂ _ d₁.draft _ _ hl hs1).bind ?_
                                    intro sa sb hab'
                                    exact DirRel.ok ⟨hl, hab'.mergeKnown hb hr hl⟩
                    · intro p₁ p₂ hp
                      obtain ⟨ref₁, sa⟩ := p₁
                      obtain ⟨ref₂, sb⟩ := p₂
                      obtain ⟨hrr, hs⟩ := hp
                      dsimp only at hrr hs ⊢
                      generalize (refURI.fragment != "" && refURI.fragment.toList.head? != some '/') = cnd
                      cases cnd with
                      | true =>
                        simp only [if_true]
                        have hri := hs.info? hb hr hrr
                        cases hri₁ : sa.info? r₁ ref₁ with
                        | none => exact DirRel.panic
                        | some rInfo₁ =>
                          cases hri₂ : sb.info? r₂ ref₂ with
                          | none => rw [hri₁, hri₂] at hri; exact hri.elim
                          | some rInfo₂ =>
                            rw [hri₁, hri₂] at hri
                            dsimp only
                            have hla := lookup_krel refURI.fragment hri.anchors
                            cases ha₁ : Json.lookup refURI.fragment rInfo₁.anchors with
                            | none => exact DirRel.err
                            | some a₁ =>
                              cases ha₂ : Json.lookup refURI.fragment rInfo₂.anchors with
                              | none => rw [ha₁, ha₂] at hla; exact hla.elim
                              | some a₂ =>
                                rw [ha₁, ha₂] at hla
                                dsimp only
                                refine DirRel.ok ⟨hla.1, ?_, hs⟩
                                show (if a₁.dynamic = true then _ else _) = (if a₂.dynamic = true then _ else _)
                                rw [hla.2]
                      | false =>
                        simp only [Bool.false_eq_true, if_false]
                        refine (dereference_rel hE true hrr refURI.fragment).bind ?_
                        intro t₁ t₂ ht
                        exact DirRel.ok ⟨ht, rfl, hs⟩

theorem resolveRefsLoop_rel {rec₁ rec₂ : ResolveDoc} (hrec : RecRel R rec₁ rec₂) {r₁ r₂ : NodeId} (hr : R r₁ r₂) :
    ∀ {ids₁ ids₂ : List NodeId}, ListRel R ids₁ ids₂ → ∀ {s₁ s₂ : RState}, SRel R s₁ s₂ →
      DirRel (SRel R) (resolveRefsLoop env₁ rec₁ r₁ ids₁ s₁) (resolveRefsLoop env₂ rec₂ r₂ ids₂ s₂)
  | _, _, .nil, _, _, h => by
    rw [resolveRefsLoop, resolveRefsLoop]
    exact DirRel.ok h
  | _, _, .cons (a := a) (b := b) hab htl, s₁, s₂, h => by
    have hb := hE.biu
    rw [resolveRefsLoop, resolveRefsLoop]
    have hn := hE.node a b hab
    cases hn₁ : env₁.st.get? a with
    | none => exact DirRel.panic
    | some n₁ =>
      cases hn₂ : env₂.st.get? b with
      | none => rw [hn₁, hn₂] at hn; exact hn.elim
      | some n₂ =>
        rw [hn₁, hn₂] at hn
        dsimp only
        rw [← hn.ref, ← hn.dynamicRef]
        refine DirRel.bind (Q := SRel R) ?_ ?_
        · split
          · refine (resolveRef_rel hE hrec hr h hab n₁.ref).bind ?_
            intro o₁ o₂ ho
            obtain ⟨o₁, sa⟩ := o₁
            obtain ⟨o₂, sb⟩ := o₂
            obtain ⟨ht, _, hs⟩ := ho
            exact DirRel.ok (hs.updInfo hb hab fun _ _ hi => { hi with resolvedRef := ht })
          · exact DirRel.ok h
        · intro sa sb hs
          refine DirRel.bind (Q := SRel R) ?_ ?_
          · rw [hs.draftOf hb hr]
            split
            · refine (resolveRef_rel hE hrec hr hs hab n₁.dynamicRef).bind ?_
              intro o₁ o₂ ho
              obtain ⟨o₁, sa'⟩ := o₁
              obtain ⟨o₂, sb'⟩ := o₂
              obtain ⟨ht, hf, hs'⟩ := ho
              exact DirRel.ok (hs'.updInfo hb hab fun _ _ hi =>
                { hi with resolvedDynamicRef := ht, dynamicRefAnchor := hf })
            · exact DirRel.ok hs
          · intro sa' sb' hs'
            exact resolveRefsLoop_rel hrec hr htl hs'

end

/-! ### resolver.resolve -/

theorem infoRel_infoOf (R : NodeId → NodeId → Prop) (p : String) : InfoRel R (RPerm.infoOf p) (RPerm.infoOf p) :=
  ⟨rfl, trivial, rfl, trivial, trivial, rfl, .nil⟩

/-- the entries of the info table: related ids, related records -/
def TabRel (R : NodeId → NodeId → Prop) (e₁ e₂ : NodeId × Info) : Prop := R e₁.1 e₂.1 ∧ InfoRel R e₁.2 e₂.2

theorem rootUri_eq {R : NodeId → NodeId → Prop} {o₁ o₂ : Option Info} (h : OptRel (InfoRel R) o₁ o₂) :
    (match o₁ with
      | some i => (i.uri.map Uri.toString).getD ""
      | none => "") =
    (match o₂ with
      | some i => (i.uri.map Uri.toString).getD ""
      | none => "") := by
  cases o₁ with
  | none =>
    cases o₂ with
    | none => rfl
    | some _ => exact h.elim
  | some i₁ =>
    cases o₂ with
    | none => exact h.elim
    | some i₂ =>
      have : i₁.uri = i₂.uri := h.uri
      dsimp only
      rw [this]

section
variable {R : NodeId → NodeId → Prop} {env₁ env₂ : Env} (hE : EnvRel R env₁ env₂)
include hE

theorem checkLocal_all_rel : ∀ {l₁ l₂ : List (NodeId × Info)}, ListRel (TabRel R) l₁ l₂ →
    ((l₁.map (·.1)).all fun id => match env₁.st.get? id with
        | some nd => checkLocalOk env₁ nd
        | none => false) = true →
    ((l₂.map (·.1)).all fun id => match env₂.st.get? id with
        | some nd => checkLocalOk env₂ nd
        | none => false) = true
  | _, _, .nil, _ => rfl
  | _, _, .cons (a := e₁) (b := e₂) h1 h2, h => by
    simp only [List.map_cons, List.all_cons, Bool.and_eq_true] at h ⊢
    refine ⟨?_, checkLocal_all_rel h2 h.2⟩
    have hn := hE.node e₁.1 e₂.1 h1.1
    cases hn₁ : env₁.st.get? e₁.1 with
    | none => rw [hn₁] at h; exact absurd h.1 (by simp)
    | some n₁ =>
      cases hn₂ : env₂.st.get? e₂.1 with
      | none => rw [hn₁, hn₂] at hn; exact hn.elim
      | some n₂ =>
        rw [hn₁, hn₂] at hn
        rw [hn₁] at h
        exact hn.localOk h.1

theorem detectDraft_eq (x : String) : detectDraft env₁ x = detectDraft env₂ x := by
  unfold detectDraft
  rw [hE.draft7]

theorem resolveDocStep_rel {rec₁ rec₂ : ResolveDoc} (hrec : RecRel R rec₁ rec₂) :
    RecRel R (resolveDocStep env₁ rec₁) (resolveDocStep env₂ rec₂) := by
  have hb := hE.biu
  intro r₁ r₂ baseURI inherit s₁ s₂ hr h s₁' hrun
  unfold resolveDocStep at hrun ⊢
  by_cases hfrag : (baseURI.fragment != "") = true
  · simp only [hfrag, if_true] at hrun
    cases hrun
  · simp only [hfrag, Bool.false_eq_true, if_false] at hrun ⊢
    have hn := hE.node r₁ r₂ hr
    cases hn₁ : env₁.st.get? r₁ with
    | none => rw [hn₁] at hrun; cases hrun
    | some rn₁ =>
      cases hn₂ : env₂.st.get? r₂ with
      | none => rw [hn₁, hn₂] at hn; exact hn.elim
      | some rn₂ =>
        rw [hn₁, hn₂] at hn
        rw [hn₁] at hrun
        simp only at hrun ⊢
        rw [← hn.schema, ← detectDraft_eq hE]
        generalize (if (rn₁.schema == "") = true then inherit else detectDraft env₁ rn₁.schema) = draft at hrun ⊢
        -- checkStructure
        obtain ⟨fresh₁, hcs₁, hrun⟩ := bind_eq_ok.mp hrun
        have hnf₂ : checkStructure env₂.st (env₂.st.size + 2) [(r₂, "")] [] ≠ .fuel :=
          C10.checkStructure_no_fuel_gen env₂.st _ _ [] ⟨List.nodup_nil, fun _ h => nomatch h⟩
            (by simp only [List.length_nil]; omega)
        obtain ⟨fresh₂, hcs₂, hfr⟩ := cs_rel hE (Q := InfoRel R) (infoRel_infoOf R) _ _ [(r₁, "")] [(r₂, "")] [] [] fresh₁
          (.cons ⟨hr, rfl⟩ .nil) .nil hcs₁ hnf₂
        have hfr' : ListRel (TabRel R) fresh₁ fresh₂ := hfr
        rw [hcs₂, Res.bind_ok]
        -- checkLocal
        generalize hA₁ : ((fresh₁.map (·.1)).all _) = okA₁ at hrun
        cases okA₁ with
        | false =>
          simp only [Bool.not_false, if_true] at hrun
          cases hrun
        | true =>
          have hloc₂ := checkLocal_all_rel hE hfr' hA₁
          generalize hA₂ : ((fresh₂.map (·.1)).all _) = okA₂
          have hok : okA₂ = true := by rw [← hA₂]; exact hloc₂
          subst hok
          simp only [Bool.not_true, Bool.false_eq_true, if_false] at hrun ⊢
          -- the state handed to resolveURIs
          have hknown : ∀ a b, R a b → (a ∈ fresh₁.map (·.1) ↔ b ∈ fresh₂.map (·.1)) :=
            fun a b hab => mem_keys_rel hb hab hfr'
          have hA : SRel R
              ((({ s₁ with infos := s₁.infos ++ fresh₁ } : RState).setDoc
                { root := r₁, draft := draft, uris := [(Uri.toString baseURI, r₁)], known := fresh₁.map (·.1) }).updInfo
                r₁ fun i => { i with uri := some baseURI })
              ((({ s₂ with infos := s₂.infos ++ fresh₂ } : RState).setDoc
                { root := r₂, draft := draft, uris := [(Uri.toString baseURI, r₂)], known := fresh₂.map (·.1) }).updInfo
                r₂ fun i => { i with uri := some baseURI }) := by
            refine SRel.updInfo hb ?_ hr fun _ _ hi => { hi with uri := rfl }
            refine SRel.setDoc hb ?_ ⟨hr, rfl, .cons ⟨rfl, hr⟩ .nil, hknown⟩
            refine ⟨?_, h.docs, h.loaded, h.log⟩
            intro a b hab
            show OptRel (InfoRel R) (lookupNat a (s₁.infos ++ fresh₁)) (lookupNat b (s₂.infos ++ fresh₂))
            rw [RPerm.lookupNat_append, RPerm.lookupNat_append]
            have h0 := h.infos a b hab
            cases e1 : lookupNat a s₁.infos with
            | some i₁ =>
              cases e2 : lookupNat b s₂.infos with
              | none => rw [e1, e2] at h0; exact h0.elim
              | some i₂ => rw [e1, e2] at h0; exact h0
            | none =>
              cases e2 : lookupNat b s₂.infos with
              | some i₂ => rw [e1, e2] at h0; exact h0.elim
              | none => exact lookupNat_rel hb hab hfr'
          -- resolveURIs
          obtain ⟨sB₁, hB₁, hrun⟩ := bind_eq_ok.mp hrun
          have hnfB := uris_ne_fuel_doc env₂ r₂ fresh₂ hcs₂ draft
            ((({ s₂ with infos := s₂.infos ++ fresh₂ } : RState).setDoc
                { root := r₂, draft := draft, uris := [(Uri.toString baseURI, r₂)], known := fresh₂.map (·.1) }).updInfo
                r₂ fun i => { i with uri := some baseURI })
          obtain ⟨sB₂, hB₂, hB⟩ := uris_rel hE draft hr _ _ _ _ _ _ sB₁ (.cons ⟨hr, hr⟩ .nil) hA hB₁ hnfB
          rw [hB₂, Res.bind_ok]
          -- resolveRefs
          have hall : ListRel R (allNodes env₁.st (env₁.st.size + 2) [r₁]) (allNodes env₂.st (env₂.st.size + 2) [r₂]) :=
            allNodes_rel hE draft draft r₁ r₂ _ _ [(r₁, r₁)] [(r₂, r₂)] _ _ sB₁ sB₂ (.cons hr .nil) hB₁ hB₂
          refine resolveRefsLoop_rel hE hrec hr hall ?_ s₁' hrun
          refine ⟨hB.infos, hB.docs, ?_, hB.log⟩
          dsimp only
          have hi := hB.infos r₁ r₂ hr
          have key : ∀ u : String, ListRel (KRel R)
              ((sB₁.loaded.filter fun e => e.1 != Uri.toString baseURI && e.1 != u) ++
                [(Uri.toString baseURI, r₁), (u, r₁)])
              ((sB₂.loaded.filter fun e => e.1 != Uri.toString baseURI && e.1 != u) ++
                [(Uri.toString baseURI, r₂), (u, r₂)]) := fun u =>
            listRel_append
              (listRel_filter (fun x y hxy => by rw [show x.1 = y.1 from hxy.1]) hB.loaded)
              (.cons ⟨rfl, hr⟩ (.cons ⟨rfl, hr⟩ .nil))
          cases e1 : lookupNat r₁ sB₁.infos with
          | none =>
            cases e2 : lookupNat r₂ sB₂.infos with
            | none => exact key ""
            | some _ => rw [e1, e2] at hi; exact hi.elim
          | some i₁ =>
            cases e2 : lookupNat r₂ sB₂.infos with
            | none => rw [e1, e2] at hi; exact hi.elim
            | some i₂ =>
              rw [e1, e2] at hi
              dsimp only
              rw [← hi.uri]
              exact key _

theorem resolveDoc_rel : ∀ fuel, RecRel R (resolveDoc env₁ fuel) (resolveDoc env₂ fuel)
  | 0 => fun _ _ _ _ _ _ _ _ => DirRel.fuel
  | fuel + 1 => resolveDocStep_rel hE (resolveDoc_rel fuel)

/-! ### Schema.Resolve -/

/-- related roots, the same draft and Loader log, and related info records for related schemas -/
structure ResolvedRel (R : NodeId → NodeId → Prop) (a b : Resolved) : Prop where
  root : R a.root b.root
  draft : a.draft = b.draft
  log : a.log = b.log
  infos : ∀ x y, R x y → OptRel (InfoRel R) (lookupNat x a.infos) (lookupNat y b.infos)

omit hE in
theorem sRel_init (R : NodeId → NodeId → Prop) : SRel R {} {} := ⟨fun _ _ _ => trivial, .nil, .nil, rfl⟩

/-- **Resolve commutes with a renaming of schema node ids** (directional form): if the environments correspond along
    `R` and the left `Resolve` of a root returns normally, the right `Resolve` of the related root — same base URI, same
    fuel — returns normally too, with the same draft, the same Loader log, and resolution tables that send related
    schemas to related schemas. -/
theorem resolve_rel (fuel : Nat) {r₁ r₂ : NodeId} (hr : R r₁ r₂) (baseURI : String) :
    DirRel (ResolvedRel R) (resolve env₁ fuel r₁ baseURI) (resolve env₂ fuel r₂ baseURI) := by
  have hb := hE.biu
  unfold resolve
  simp only
  refine (DirRel.refl_eq _).bind ?_
  intro b _ e
  subst e
  refine (resolveDoc_rel hE fuel r₁ r₂ b .d2020 {} {} hr (sRel_init R)).bind ?_
  intro s₁ s₂ h
  have hd := h.doc? hb hr
  cases h1 : s₁.doc? r₁ with
  | none => exact DirRel.panic
  | some d₁ =>
    cases h2 : s₂.doc? r₂ with
    | none => rw [h1, h2] at hd; exact hd.elim
    | some d₂ =>
      rw [h1, h2] at hd
      refine DirRel.ok ⟨hr, hd.draft, h.log, ?_⟩
      intro x y hxy
      show OptRel (InfoRel R) (lookupNat x (s₁.infos.filter fun e => d₁.known.contains e.1))
        (lookupNat y (s₂.infos.filter fun e => d₂.known.contains e.1))
      rw [RPerm.lookupNat_filter x (fun x => d₁.known.contains x), RPerm.lookupNat_filter y (fun x => d₂.known.contains x),
        hd.contains hxy]
      split
      · exact h.infos x y hxy
      · trivial

end

end RIso
end Go
end JSV
