/-
  Equations of `inferStep`, one per shape of the type after pointer stripping.
-/
import JSV.Proofs.InfStruct
namespace JSV
namespace Go
open EncJson (jsonNames alwaysNames nodup)

/-- the PropertyOrder clean-up at the end of the struct case -/
def finalOrder (n : Node) : Node :=
  match n.propertyOrder with
  | some po => if po.length > 1 then { n with propertyOrder := some (dedupKeepLast po) } else n
  | none => n

def basicNode (ty : String) (mn mx : Option Int) : Node :=
  { type := ty, minimum := mn.map fun i => (i : Rat), maximum := mx.map fun i => (i : Rat) }

def sliceNode (nullForSlices : Bool) (eid : NodeId) : Node :=
  if nullForSlices then { types := some ["null", "array"], items := some eid }
  else { type := "array", items := some eid }

def arrayNode (len : Nat) (eid : NodeId) : Node :=
  { type := "array", items := some eid, minItems := some len, maxItems := some len }

def mapNode (eid : NodeId) : Node := { type := "object", additionalProperties := some eid }

def structNode0 (falseId : NodeId) : Node := { type := "object", additionalProperties := some falseId }

def falseNode (notId : NodeId) : Node := { emptyNode with not := some notId }

theorem inferStep_basic {opts : IOpts} {rec : IRec} {t0 : GoType} {kind : String} {an : Bool} {seen : List String}
    {st : Store} (h : stripPtrs t0 = (.basic kind, an)) :
    inferStep opts rec t0 seen st =
      match kindEntry kind with
      | some (ty, mn, mx) => .ok (some st.size, st.push (addNull an (basicNode ty mn mx)))
      | none => if opts.ignore then .ok (none, st) else .err := by
  unfold inferStep
  rw [h]
  simp only [typeName, Option.bind_none]
  cases kindEntry kind with
  | none => rfl
  | some e => obtain ⟨ty, mn, mx⟩ := e; rfl

theorem inferStep_map {opts : IOpts} {rec : IRec} {t0 : GoType} {keyKind : String} {e : GoType} {an : Bool}
    {seen : List String} {st : Store} (h : stripPtrs t0 = (.map keyKind e, an)) :
    inferStep opts rec t0 seen st =
      if keyKind != "String" then (if opts.ignore then .ok (none, st) else .err)
      else Res.bind (rec e seen st) fun r =>
        match r.1 with
        | none => .ok (none, r.2)
        | some eid => .ok (some r.2.size, r.2.push (addNull an (mapNode eid))) := by
  unfold inferStep
  rw [h]
  simp only [typeName, Option.bind_none]
  split
  · rfl
  · refine Res.bind_congr fun r => ?_
    obtain ⟨es, st1⟩ := r
    cases es <;> rfl

theorem inferStep_slice {opts : IOpts} {rec : IRec} {t0 : GoType} {e : GoType} {an : Bool}
    {seen : List String} {st : Store} (h : stripPtrs t0 = (.slice e, an)) :
    inferStep opts rec t0 seen st =
      Res.bind (rec e seen st) fun r =>
        match r.1 with
        | none => .ok (none, r.2)
        | some eid => .ok (some r.2.size, r.2.push (addNull an (sliceNode opts.nullForSlices eid))) := by
  unfold inferStep
  rw [h]
  simp only [typeName, Option.bind_none]
  refine Res.bind_congr fun r => ?_
  obtain ⟨es, st1⟩ := r
  cases es <;> rfl

theorem inferStep_array {opts : IOpts} {rec : IRec} {t0 : GoType} {len : Nat} {e : GoType} {an : Bool}
    {seen : List String} {st : Store} (h : stripPtrs t0 = (.array len e, an)) :
    inferStep opts rec t0 seen st =
      Res.bind (rec e seen st) fun r =>
        match r.1 with
        | none => .ok (none, r.2)
        | some eid => .ok (some r.2.size, r.2.push (addNull an (arrayNode len eid))) := by
  unfold inferStep
  rw [h]
  simp only [typeName, Option.bind_none]
  refine Res.bind_congr fun r => ?_
  obtain ⟨es, st1⟩ := r
  cases es <;> rfl

theorem inferStep_struct {opts : IOpts} {rec : IRec} {t0 : GoType} {fields : List (String × String × GoType)} {an : Bool}
    {seen : List String} {st : Store} (h : stripPtrs t0 = (.struct fields, an)) :
    inferStep opts rec t0 seen st =
      Res.bind (structLoop rec seen fields (structNode0 (st.size + 1)) ((st.push emptyNode).push (falseNode st.size)))
        fun r => .ok (some r.2.size, r.2.push (addNull an (finalOrder r.1))) := by
  unfold inferStep
  rw [h]
  simp only [typeName, Option.bind_none, Store.alloc, Array.size_push]
  refine Res.bind_congr fun r => ?_
  obtain ⟨n, st1⟩ := r
  rfl

/-- a named type found in the type table: the entry is cloned, `null` is added to the clone for pointers -/
def tableNull (b : Bool) (cn : Node) : Node :=
  if b then
    (if cn.type != "" then { cn with types := some ["null", cn.type], type := "" }
     else if !(cn.types.getD []).contains "null" then { cn with types := some ("null" :: (cn.types.getD [])) } else cn)
  else cn

theorem inferStep_table {opts : IOpts} {rec : IRec} {t0 t : GoType} {nm : String} {an : Bool} {seen : List String}
    {st : Store} {sid : NodeId} (h : stripPtrs t0 = (t, an)) (hn : typeName t = some nm)
    (hseen : seen.contains nm = false) (hs : Json.lookup nm opts.schemas = some sid) :
    inferStep opts rec t0 seen st =
      Res.bind (clone st sid) fun r =>
        match r.2.get? r.1 with
        | none => .panic
        | some cn => .ok (some r.1, r.2.set! r.1 (tableNull (opts.nullForSlices && an) cn)) := by
  unfold inferStep
  rw [h]
  simp only [hn, hseen, Option.bind_some, hs, Bool.false_eq_true, if_false]
  rfl

theorem inferStep_seen {opts : IOpts} {rec : IRec} {t0 t : GoType} {nm : String} {an : Bool} {seen : List String}
    {st : Store} (h : stripPtrs t0 = (t, an)) (hn : typeName t = some nm) (hseen : seen.contains nm = true) :
    inferStep opts rec t0 seen st = .err := by
  unfold inferStep
  rw [h]
  simp only [hn, hseen, if_true]

/-- a named type that is not in the table: its underlying type, with the name entered into `seen` -/
theorem inferStep_named_struct {opts : IOpts} {rec : IRec} {t0 : GoType} {nm : String}
    {fields : List (String × String × GoType)} {an : Bool} {seen : List String} {st : Store}
    (h : stripPtrs t0 = (.named nm (.struct fields), an)) (hseen : seen.contains nm = false)
    (hs : Json.lookup nm opts.schemas = none) :
    inferStep opts rec t0 seen st =
      Res.bind (structLoop rec (nm :: seen) fields (structNode0 (st.size + 1)) ((st.push emptyNode).push (falseNode st.size)))
        fun r => .ok (some r.2.size, r.2.push (addNull an (finalOrder r.1))) := by
  unfold inferStep
  rw [h]
  simp only [typeName, hseen, Option.bind_some, hs, Store.alloc, Array.size_push, Bool.false_eq_true, if_false]
  refine Res.bind_congr fun r => ?_
  obtain ⟨n, st1⟩ := r
  rfl

theorem inferStep_named_slice {opts : IOpts} {rec : IRec} {t0 : GoType} {nm : String} {e : GoType} {an : Bool}
    {seen : List String} {st : Store} (h : stripPtrs t0 = (.named nm (.slice e), an)) (hseen : seen.contains nm = false)
    (hs : Json.lookup nm opts.schemas = none) :
    inferStep opts rec t0 seen st =
      Res.bind (rec e (nm :: seen) st) fun r =>
        match r.1 with
        | none => .ok (none, r.2)
        | some eid => .ok (some r.2.size, r.2.push (addNull an (sliceNode opts.nullForSlices eid))) := by
  unfold inferStep
  rw [h]
  simp only [typeName, hseen, Option.bind_some, hs, Bool.false_eq_true, if_false]
  refine Res.bind_congr fun r => ?_
  obtain ⟨es, st1⟩ := r
  cases es <;> rfl

/-! ## PropertyOrder without duplicates; types are never dropped without IgnoreInvalidTypes -/

theorem nodup_iff : ∀ (l : List String), nodup l = true ↔ l.Nodup
  | [] => by simp [nodup]
  | k :: ks => by
    simp only [nodup, Bool.and_eq_true, Bool.not_eq_true', List.nodup_cons, nodup_iff ks]
    constructor
    · rintro ⟨h1, h2⟩
      exact ⟨by simpa using h1, h2⟩
    · rintro ⟨h1, h2⟩
      exact ⟨by simpa using h1, h2⟩

theorem dedup_foldl (m : List String) : ∀ (acc : List String), (acc ++ m).Nodup →
    m.foldl (fun acc x => if acc.contains x then acc else acc ++ [x]) acc = acc ++ m := by
  induction m with
  | nil => intro acc _; simp
  | cons x m ih =>
    intro acc h
    have hx : acc.contains x = false := by
      rw [List.nodup_append] at h
      have := h.2.2
      cases hc : acc.contains x with
      | false => rfl
      | true =>
        have hm : x ∈ acc := by simpa using hc
        exact absurd rfl (this x hm x List.mem_cons_self)
    simp only [List.foldl_cons, hx, Bool.false_eq_true, if_false]
    rw [ih (acc ++ [x]) (by simpa using h)]
    simp

theorem dedupKeepLast_of_nodup {l : List String} (h : nodup l = true) : dedupKeepLast l = l := by
  unfold dedupKeepLast
  have hn : l.reverse.Nodup := by
    have := (nodup_iff l).1 h
    unfold List.Nodup at this ⊢
    rw [List.pairwise_reverse]
    exact this.imp fun h => h.symm
  rw [dedup_foldl l.reverse [] (by simpa using hn)]
  simp

theorem inferStep_never_none {opts : IOpts} (hi : opts.ignore = false) {rec : IRec}
    (hrec : ∀ T seen st st', rec T seen st ≠ .ok (none, st')) :
    ∀ T seen st st', inferStep opts rec T seen st ≠ .ok (none, st') := by
  intro t0 seen st st' h
  unfold inferStep at h
  generalize stripPtrs t0 = p at h
  obtain ⟨t, an⟩ := p
  simp only at h
  split at h
  · cases h
  · split at h
    · obtain ⟨⟨cid, stc⟩, hc, h⟩ := Res.bind_eq_ok h
      simp only at h
      split at h <;> cases h
    · split at h
      · cases h
      · cases h
      · cases h
      · split at h
        · cases h
        · rw [hi] at h; cases h
      · split at h
        · rw [hi] at h; cases h
        · obtain ⟨⟨es, st1⟩, he, h⟩ := Res.bind_eq_ok h
          simp only at h
          split at h
          · exact hrec _ _ _ _ he
          · cases h
      · obtain ⟨⟨es, st1⟩, he, h⟩ := Res.bind_eq_ok h
        simp only at h
        split at h
        · exact hrec _ _ _ _ he
        · cases h
      · obtain ⟨⟨es, st1⟩, he, h⟩ := Res.bind_eq_ok h
        simp only at h
        split at h
        · exact hrec _ _ _ _ he
        · cases h
      · simp only [Store.alloc] at h
        obtain ⟨⟨n, st1⟩, hl, h⟩ := Res.bind_eq_ok h
        cases h

theorem inferFuel_never_none {opts : IOpts} (hi : opts.ignore = false) :
    ∀ fuel T seen st st', inferFuel opts fuel T seen st ≠ .ok (none, st')
  | 0 => fun _ _ _ _ h => by cases h
  | fuel + 1 => inferStep_never_none hi (inferFuel_never_none hi fuel)

/-! ## names -/

theorem alwaysNames_subset : ∀ (l : List (String × String × GoType)) {k : String}, k ∈ alwaysNames l → k ∈ jsonNames l
  | [], k, h => by simp [alwaysNames] at h
  | f :: rest, k, h => by
    rw [alwaysNames_cons] at h
    rw [jsonNames_cons]
    cases ho : (fieldJSONInfo f.1 f.2.1).omitted
    · simp only [ho, Bool.false_or] at h
      simp only [Bool.false_eq_true, if_false]
      split at h
      · exact List.mem_cons_of_mem _ (alwaysNames_subset rest h)
      · rcases List.mem_cons.1 h with rfl | h
        · exact List.mem_cons_self
        · exact List.mem_cons_of_mem _ (alwaysNames_subset rest h)
    · simp only [ho, Bool.true_or, if_true] at h ⊢
      exact alwaysNames_subset rest h

theorem mem_jsonNames_of_mem : ∀ {l : List (String × String × GoType)} {f : String × String × GoType}, f ∈ l →
    (fieldJSONInfo f.1 f.2.1).omitted = false → (fieldJSONInfo f.1 f.2.1).name ∈ jsonNames l
  | g :: rest, f, hf, ho => by
    rw [jsonNames_cons]
    rcases List.mem_cons.1 hf with rfl | hf
    · simp [ho]
    · have := mem_jsonNames_of_mem hf ho
      split
      · exact this
      · exact List.mem_cons_of_mem _ this

/-- with pairwise distinct JSON names, a field's name is in the always-written list iff its own tag has
    neither omitempty nor omitzero -/
theorem mem_alwaysNames_iff : ∀ {l : List (String × String × GoType)} {f : String × String × GoType},
    nodup (jsonNames l) = true → f ∈ l → (fieldJSONInfo f.1 f.2.1).omitted = false →
    ((fieldJSONInfo f.1 f.2.1).name ∈ alwaysNames l ↔
      ((fieldJSONInfo f.1 f.2.1).omitempty = false ∧ (fieldJSONInfo f.1 f.2.1).omitzero = false))
  | g :: rest, f, hnd, hf, ho => by
    rw [jsonNames_cons] at hnd
    rw [alwaysNames_cons]
    rcases List.mem_cons.1 hf with rfl | hf
    · simp only [ho, Bool.false_eq_true, if_false, nodup, Bool.and_eq_true, Bool.not_eq_true'] at hnd
      have hnot : (fieldJSONInfo f.1 f.2.1).name ∉ alwaysNames rest := fun h => by
        have := alwaysNames_subset rest h
        have h1 := hnd.1
        simp at h1
        exact h1 this
      cases he : (fieldJSONInfo f.1 f.2.1).omitempty <;> cases hz : (fieldJSONInfo f.1 f.2.1).omitzero <;>
        simp [ho, hnot]
    · cases hog : (fieldJSONInfo g.1 g.2.1).omitted
      · simp only [hog, Bool.false_eq_true, if_false, nodup, Bool.and_eq_true, Bool.not_eq_true'] at hnd
        have hne : (fieldJSONInfo f.1 f.2.1).name ≠ (fieldJSONInfo g.1 g.2.1).name := fun h => by
          have h1 := hnd.1
          simp at h1
          exact h1 (h ▸ mem_jsonNames_of_mem hf ho)
        rw [← mem_alwaysNames_iff hnd.2 hf ho]
        simp only [Bool.false_or]
        split
        · exact Iff.rfl
        · simp [hne]
      · simp only [hog, if_true] at hnd
        simp only [Bool.true_or, if_true]
        exact mem_alwaysNames_iff hnd hf ho

theorem finalOrder_required (n : Node) : (finalOrder n).required = n.required := by
  unfold finalOrder
  split
  · split <;> rfl
  · rfl

theorem finalOrder_properties (n : Node) : (finalOrder n).properties = n.properties := by
  unfold finalOrder
  split
  · split <;> rfl
  · rfl

theorem finalOrder_type (n : Node) : (finalOrder n).type = n.type := by
  unfold finalOrder
  split
  · split <;> rfl
  · rfl

theorem finalOrder_order_of_nodup (n : Node) (h : nodup (n.propertyOrder.getD []) = true) :
    (finalOrder n).propertyOrder = n.propertyOrder := by
  unfold finalOrder
  split
  · rename_i po hpo
    rw [hpo] at h
    split
    · simp only [hpo]
      rw [dedupKeepLast_of_nodup (by simpa using h)]
    · rfl
  · rfl

theorem coreOf_type {n n' : Node} (h : coreOf n' = coreOf n) : n'.type = n.type :=
  show (coreOf n').type = (coreOf n).type from congrArg Node.type h

theorem addNull_false (n : Node) : addNull false n = n := by
  unfold addNull
  simp

/-- the struct case: the node that is allocated last is the loop's node after the PropertyOrder clean-up -/
theorem inferStep_struct_ok {opts : IOpts} {rec : IRec} {t0 : GoType} {fields : List (String × String × GoType)}
    {an : Bool} {seen : List String} {st : Store} {r : Option NodeId} {st' : Store}
    (hs : stripPtrs t0 = (.struct fields, an)) (h : inferStep opts rec t0 seen st = .ok (r, st')) :
    ∃ n st1, structLoop rec seen fields (structNode0 (st.size + 1)) ((st.push emptyNode).push (falseNode st.size)) = .ok (n, st1) ∧
      r = some st1.size ∧ st' = st1.push (addNull an (finalOrder n)) := by
  rw [inferStep_struct hs] at h
  obtain ⟨⟨n, st1⟩, hl, h⟩ := Res.bind_eq_ok h
  cases h
  exact ⟨n, st1, hl, rfl, rfl⟩

end Go
end JSV
