/-
  C14 helpers: the evaluator's loops over schema-side maps (`required`-style presence checks, dependentRequired,
  properties) do not depend on the iteration order of the map.
-/
import JSV.Proofs.InvPerm5
namespace JSV
namespace Inv
open Go GoVal Refine

theorem perm_all_eq {α : Type} (p : α → Bool) {l1 l2 : List α} (h : l1.Perm l2) : l1.all p = l2.all p :=
  PR.all_eq p p (PR.of_perm (R := (· = ·)) (fun _ _ => rfl) h) (fun a b hab => by subst hab; rfl)

/-! ## presence checks -/

theorem hasProperty_perm {kvs1 kvs2 : List (String × GoVal)} (h : kvs1.Perm kvs2) (p : String) :
    hasProperty kvs1 p = hasProperty kvs2 p := by
  unfold hasProperty
  rw [Bool.eq_iff_iff, lookup_isSome_iff, lookup_isSome_iff]
  exact (h.map _).mem_iff

theorem allPresent_perm_props (kvs : List (String × GoVal)) {ps1 ps2 : List String} (h : ps1.Perm ps2) :
    allPresent kvs ps1 = allPresent kvs ps2 := perm_all_eq _ h

theorem allPresent_perm_inst {kvs1 kvs2 : List (String × GoVal)} (h : kvs1.Perm kvs2) (ps : List String) :
    allPresent kvs1 ps = allPresent kvs2 ps := by
  unfold allPresent
  congr 1
  funext p
  exact hasProperty_perm h p

/-! ## dependentRequired / string-form dependencies -/

theorem depRequiredLoop_eq_all (kvs : List (String × GoVal)) : ∀ ds : List (String × Option (List String)),
    depRequiredLoop kvs ds =
      if ds.all (fun d => !(hasProperty kvs d.1 && !allPresent kvs (d.2.getD []))) then .ok () else .err
  | [] => rfl
  | (dprop, reqs) :: rest => by
    simp only [depRequiredLoop, List.all_cons, depRequiredLoop_eq_all kvs rest]
    by_cases hb : (hasProperty kvs dprop && !allPresent kvs (reqs.getD [])) = true
    · simp [hb]
    · have hb' : (hasProperty kvs dprop && !allPresent kvs (reqs.getD [])) = false := by
        cases h : (hasProperty kvs dprop && !allPresent kvs (reqs.getD [])) <;> simp_all
      simp only [hb', Bool.false_eq_true, if_false, Bool.not_false, Bool.true_and]

theorem depRequiredLoop_perm (kvs : List (String × GoVal)) {ds1 ds2 : List (String × Option (List String))}
    (h : ds1.Perm ds2) : depRequiredLoop kvs ds1 = depRequiredLoop kvs ds2 := by
  rw [depRequiredLoop_eq_all, depRequiredLoop_eq_all, perm_all_eq _ h]

theorem depRequiredLoop_perm_inst {kvs1 kvs2 : List (String × GoVal)} (h : kvs1.Perm kvs2)
    (ds : List (String × Option (List String))) : depRequiredLoop kvs1 ds = depRequiredLoop kvs2 ds := by
  rw [depRequiredLoop_eq_all, depRequiredLoop_eq_all]
  have h1 : hasProperty kvs1 = hasProperty kvs2 := funext (hasProperty_perm h)
  have h2 : allPresent kvs1 = allPresent kvs2 := funext (allPresent_perm_inst h)
  rw [h1, h2]

/-! ## properties -/

/-- every call the `properties` loop can make returns a verdict (no panic, enough fuel) -/
def PropsDecided (rec : Go.Rec) (stack : List NodeId) (kvs : List (String × GoVal)) (props : List (String × NodeId)) :
    Prop :=
  ∀ e, e ∈ props → ∀ v, Json.lookup e.1 kvs = some v → rec stack v e.2 = .err ∨ ∃ a, rec stack v e.2 = .ok a

/-- closed form of the `properties` loop when every call returns a verdict -/
theorem propertiesLoop_decided (rec : Go.Rec) (stack : List NodeId) (kvs : List (String × GoVal)) :
    ∀ (props : List (String × NodeId)) (ev : List String), PropsDecided rec stack kvs props →
    propertiesLoop rec stack kvs props ev =
      if props.all (fun e => match Json.lookup e.1 kvs with
          | none => true
          | some v => (rec stack v e.2).isOk) then
        .ok (ev ++ (props.filter fun e => (Json.lookup e.1 kvs).isSome).map (·.1))
      else .err
  | [], ev, _ => by simp [propertiesLoop]
  | (prop, sub) :: rest, ev, hdec => by
    have hrest : PropsDecided rec stack kvs rest := fun e he => hdec e (List.mem_cons_of_mem _ he)
    simp only [propertiesLoop, List.all_cons, List.filter_cons]
    cases hl : Json.lookup prop kvs with
    | none =>
      simp only [Option.isSome_none, Bool.false_eq_true, if_false, Bool.true_and]
      exact propertiesLoop_decided rec stack kvs rest ev hrest
    | some val =>
      simp only [Option.isSome_some, if_true, List.map_cons, mustValidChild]
      rcases hdec (prop, sub) List.mem_cons_self val hl with he | ⟨a, ha⟩
      · rw [he]
        have : (Res.err : Res Anns).isOk = false := rfl
        simp only [Res.bind_err, this, Bool.false_and, Bool.false_eq_true, if_false]
      · rw [ha]
        have : (Res.ok a : Res Anns).isOk = true := rfl
        simp only [Res.bind_ok, this, Bool.true_and]
        rw [propertiesLoop_decided rec stack kvs rest (ev ++ [prop]) hrest]
        simp only [List.append_assoc, List.singleton_append]

/-- the result of the `properties` loop under a reordering of the map: same verdict, same evaluated keys up to order -/
theorem propertiesLoop_perm (rec : Go.Rec) (stack : List NodeId) (kvs : List (String × GoVal))
    {props1 props2 : List (String × NodeId)} (h : props1.Perm props2) (hdec : PropsDecided rec stack kvs props1)
    (ev : List String) :
    (match propertiesLoop rec stack kvs props1 ev, propertiesLoop rec stack kvs props2 ev with
     | .ok e1, .ok e2 => e1.Perm e2
     | .err, .err => True
     | _, _ => False) := by
  have hdec2 : PropsDecided rec stack kvs props2 := fun e he => hdec e (h.mem_iff.2 he)
  rw [propertiesLoop_decided rec stack kvs props1 ev hdec, propertiesLoop_decided rec stack kvs props2 ev hdec2,
    perm_all_eq _ h]
  by_cases hall : (props2.all fun e => match Json.lookup e.1 kvs with
      | none => true
      | some v => (rec stack v e.2).isOk) = true
  · simp only [hall, if_true]
    exact List.Perm.append_left _ ((h.filter _).map _)
  · simp only [hall, Bool.false_eq_true, if_false]

/-! ## from the Spec-level invariance to the evaluator -/

theorem permNode_schema {a b : Node} (h : permNode a b) : b.schema = a.schema := by
  obtain ⟨p, pp, d, df, ds, dst, dr, dsc, _, _, _, _, _, _, _, _, rfl⟩ := h
  rfl

theorem permNode_properties {a b : Node} (h : permNode a b) : (a.properties.getD []).Perm (b.properties.getD []) := by
  obtain ⟨p, pp, d, df, ds, dst, dr, dsc, h1, _, _, _, _, _, _, _, rfl⟩ := h
  exact h1.getD

theorem permStore_get {st1 st2 : Store} (h : permStore st1 st2) {s : NodeId} {n2 : Node} (h2 : st2.get? s = some n2) :
    ∃ n1, st1.get? s = some n1 ∧ permNode n1 n2 := by
  have := h.2 s
  rw [h2] at this
  cases h1 : st1.get? s with
  | none => rw [h1] at this; exact this.elim
  | some n1 => rw [h1] at this; exact ⟨n1, rfl, this⟩

theorem permStore_get' {st1 st2 : Store} (h : permStore st1 st2) {s : NodeId} {n1 : Node} (h1 : st1.get? s = some n1) :
    ∃ n2, st2.get? s = some n2 ∧ permNode n1 n2 := by
  have := h.2 s
  rw [h1] at this
  cases h2 : st2.get? s with
  | none => rw [h2] at this; exact this.elim
  | some n2 => rw [h2] at this; exact ⟨n2, rfl, this⟩

theorem StoreWF_perm {st1 st2 : Store} (h : permStore st1 st2) (hwf : StoreWF st1) : StoreWF st2 := by
  intro s n2 h2
  obtain ⟨n1, h1, hn⟩ := permStore_get h h2
  have := Json.nodupKeys_iff.1 (hwf s n1 h1)
  exact Json.nodupKeys_iff.2 (((permNode_properties hn).map _).nodup_iff.1 this)

theorem EnvWF_perm (env : VEnv) (st2 : Store) (h : permStore env.st st2) (hwf : EnvWF env) :
    EnvWF { env with st := st2 } where
  info_total := by
    intro s n2 h2
    obtain ⟨n1, h1, _⟩ := permStore_get h h2
    exact hwf.info_total s n1 h1
  base_total := hwf.base_total
  hash_respects := hwf.hash_respects

end Inv
end JSV
