/-
  Helper lemmas for C03: the Bool checkers of JSV/Spec/WellFormed.lean are sound —
  `Doc.idsOk` implies `Doc.IdsOk`, `Doc.uniqueIds` implies `Doc.UniqueIds`.
-/
import JSV.Spec.WellFormed
import JSV.Proofs.ResTree
namespace JSV
namespace Go
namespace RComp
open RInv Uri Spec

/-- the base URI after the schemas `l`, starting from `u` -/
def baseFrom (D : Doc) (u : Url) (l : List NodeId) : Url :=
  (l.filter (startsResourceAt D.st D.draft)).foldl (fun u r => Uri.resolveReference u (idUrl D.st r)) u

theorem baseUriAlong_eq (D : Doc) (ret : Url) (l : List NodeId) :
    baseUriAlong D ret l = baseFrom D ret (D.root :: l) := rfl

theorem baseFrom_cons (D : Doc) (u : Url) (a : NodeId) (l : List NodeId) :
    baseFrom D u (a :: l) = baseFrom D (stepBase D.st D.draft a u) l := by
  unfold baseFrom stepBase
  rw [List.filter_cons]
  split
  · rfl
  · rfl

theorem isChild_subschemas (st : Store) (p c : NodeId) (h : isChild st p c = true) : c ∈ subschemas st p := by
  obtain ⟨n, hn, hc⟩ := (isChild_iff st p c).mp h
  unfold subschemas
  rw [hn]
  exact hc

/-- the enumeration meets every schema, with the base URI along its lineage -/
theorem basesFrom_complete (D : Doc) : ∀ (l : List NodeId) (f : Nat) (a : NodeId) (bu : Url) (s : NodeId),
    withinDepth D.st f a = true → isLineage D.st a l s = true →
      (s, baseFrom D bu (a :: l)) ∈ basesFrom D.st D.draft f a bu := by
  intro l
  induction l with
  | nil =>
    intro f a bu s hd hl
    simp only [isLineage, beq_iff_eq] at hl
    subst hl
    cases f with
    | zero => simp [withinDepth] at hd
    | succ f =>
      rw [basesFrom, baseFrom_cons]
      exact List.mem_cons_self
  | cons b l ih =>
    intro f a bu s hd hl
    simp only [isLineage, Bool.and_eq_true] at hl
    cases f with
    | zero => simp [withinDepth] at hd
    | succ f =>
      rw [withinDepth, List.all_eq_true] at hd
      have hb := isChild_subschemas D.st a b hl.1
      rw [basesFrom, baseFrom_cons]
      exact List.mem_cons_of_mem _ (List.mem_flatMap.mpr ⟨b, hb, ih f b _ s (hd b hb) hl.2⟩)

theorem bases_complete (D : Doc) (ret : Url) (hd : D.depthOk = true) (l : List NodeId) (s : NodeId)
    (hl : isLineage D.st D.root l s = true) : (s, baseUriAlong D ret l) ∈ D.bases ret :=
  basesFrom_complete D l _ D.root ret s hd hl

/-- the checker for W5 is sound -/
theorem idsOk_sound (D : Doc) (ret : Url) (h : D.idsOk ret = true) : D.IdsOk ret := by
  unfold Doc.idsOk at h
  simp only [Bool.and_eq_true, List.all_eq_true] at h
  obtain ⟨hd, hall⟩ := h
  intro l s n hl hn
  have := hall _ (bases_complete D ret hd l s hl)
  simp only [hn, Bool.and_eq_true, Bool.or_eq_true, Bool.not_eq_true'] at this
  refine ⟨this.1, fun hs => ?_⟩
  rcases this.2 with h1 | h1
  · rw [hs] at h1; simp at h1
  · exact h1

theorem identifies_mem (D : Doc) (ret : Url) (hd : D.depthOk = true) (k : String) (r : NodeId)
    (h : D.Identifies ret k r) : (k, r) ∈ D.identKeys ret := by
  unfold Doc.identKeys
  rcases h with ⟨hr, hk⟩ | ⟨⟨l', hl', hnear⟩, u, ⟨l, hl, hu⟩, hk⟩
  · rw [hr, hk]; exact List.mem_cons_self
  · apply List.mem_cons_of_mem
    have hmem := bases_complete D ret hd l r hl
    rw [hu] at hmem
    refine List.mem_map.mpr ⟨(r, u), List.mem_filter.mpr ⟨hmem, ?_⟩, by rw [hk]⟩
    unfold nearestResource at hnear
    cases hg : (l'.filter (startsResourceAt D.st D.draft)).getLast? with
    | none =>
      rw [hg] at hnear
      simp only [Option.getD_none] at hnear
      simp [hnear]
    | some x =>
      rw [hg] at hnear
      simp only [Option.getD_some] at hnear
      subst hnear
      have := List.mem_of_getLast? hg
      simp [(List.mem_filter.mp this).2]

/-- the checker for W6 is sound -/
theorem uniqueIds_sound (D : Doc) (ret : Url) (h : D.uniqueIds ret = true) : D.UniqueIds ret := by
  unfold Doc.uniqueIds at h
  simp only [Bool.and_eq_true, List.all_eq_true] at h
  obtain ⟨hd, hall⟩ := h
  intro k r r' h1 h2
  have := hall _ (identifies_mem D ret hd k r h1) _ (identifies_mem D ret hd k r' h2)
  simpa using this


/-! ### certificates for hypothesis D

`Doc.Designates` is an existential statement (lineages, a resource root); given the witnesses it is decidable. -/

/-- witnesses of one designation -/
structure DesigCert where
  /-- lineage of the referring schema -/
  ls : List NodeId
  /-- lineage of the resource root the fragment-less URI identifies -/
  lr : List NodeId
  r : NodeId
  /-- lineage of the target (used for plain-name fragments) -/
  lt : List NodeId
  t : NodeId

def checkDesignation (D : Doc) (ret : Url) (s : NodeId) (ref : String) (c : DesigCert) : Bool :=
  isLineage D.st D.root c.ls s && isLineage D.st D.root c.lr c.r && (nearestResource D c.lr == c.r) &&
  match Uri.parse ref with
  | .ok refURI =>
    (Uri.toString (Uri.dropFragment (Uri.resolveReference (baseUriAlong D ret c.ls) refURI)) ==
        Uri.toString (baseUriAlong D ret c.lr) ||
      (c.r == D.root &&
        Uri.toString (Uri.dropFragment (Uri.resolveReference (baseUriAlong D ret c.ls) refURI)) == Uri.toString ret)) &&
    (if (Uri.resolveReference (baseUriAlong D ret c.ls) refURI).fragment = "" then c.t == c.r
     else if (Uri.resolveReference (baseUriAlong D ret c.ls) refURI).fragment.toList.head? = some '/' then
       Pointer.dereference D.st true true c.r (Uri.resolveReference (baseUriAlong D ret c.ls) refURI).fragment == .ok c.t
     else isLineage D.st D.root c.lt c.t && (nearestResource D c.lt == c.r) &&
       (match D.st.get? c.t with
        | some n => (declaredAnchors D.draft n).any fun e =>
            e.1 == (Uri.resolveReference (baseUriAlong D ret c.ls) refURI).fragment
        | none => false))
  | _ => false

theorem checkDesignation_sound (D : Doc) (ret : Url) (s : NodeId) (ref : String) (c : DesigCert)
    (h : checkDesignation D ret s ref c = true) : D.Designates ret s ref c.t := by
  unfold checkDesignation at h
  simp only [Bool.and_eq_true, beq_iff_eq] at h
  obtain ⟨⟨⟨hls, hlr⟩, hnear⟩, h⟩ := h
  cases hp : Uri.parse ref with
  | ok refURI =>
    rw [hp] at h
    simp only [Bool.and_eq_true, Bool.or_eq_true, beq_iff_eq] at h
    obtain ⟨hkey, hfrag⟩ := h
    refine ⟨baseUriAlong D ret c.ls, refURI, c.r, ⟨c.ls, hls, rfl⟩, hp, ?_, ?_⟩
    · rcases hkey with hk | ⟨hr, hk⟩
      · exact Or.inr ⟨⟨c.lr, hlr, hnear⟩, _, ⟨c.lr, hlr, rfl⟩, hk⟩
      · exact Or.inl ⟨hr, hk⟩
    · unfold Doc.FragTarget
      split at hfrag
      · rename_i h0
        rw [if_pos h0]
        simpa using hfrag
      · rename_i h0
        rw [if_neg h0]
        split at hfrag
        · rename_i h1
          rw [if_pos h1]
          simpa using hfrag
        · rename_i h1
          rw [if_neg h1]
          simp only [Bool.and_eq_true, beq_iff_eq] at hfrag
          obtain ⟨⟨hlt, hnt⟩, hdecl⟩ := hfrag
          refine ⟨⟨c.lt, hlt, hnt⟩, ?_⟩
          cases hg : D.st.get? c.t with
          | none => rw [hg] at hdecl; simp at hdecl
          | some n =>
            rw [hg] at hdecl
            simp only [List.any_eq_true, beq_iff_eq] at hdecl
            obtain ⟨⟨a, dyn⟩, hmem, ha⟩ := hdecl
            simp only at ha
            subst ha
            exact ⟨dyn, n, hg, hmem⟩
  | err => rw [hp] at h; simp at h
  | panic => rw [hp] at h; simp at h
  | fuel => rw [hp] at h; simp at h

/-- check hypothesis D against a table of certificates (`cert id false` for `$ref`, `cert id true` for `$dynamicRef`,
    which is looked at in a 2020-12 document only) -/
def checkRefs (D : Doc) (ret : Url) (nodes : List NodeId) (cert : NodeId → Bool → DesigCert) : Bool :=
  nodes.all fun id =>
    match D.st.get? id with
    | some n =>
      (n.ref == "" || checkDesignation D ret id n.ref (cert id false)) &&
      (n.dynamicRef == "" || D.draft != .d2020 || checkDesignation D ret id n.dynamicRef (cert id true))
    | none => true

theorem checkRefs_sound (D : Doc) (ret : Url) (nodes : List NodeId) (cert : NodeId → Bool → DesigCert)
    (h : checkRefs D ret nodes cert = true) : D.RefsDesignate ret nodes := by
  unfold checkRefs at h
  rw [List.all_eq_true] at h
  intro id hid n hn
  have := h id hid
  rw [hn] at this
  simp only [Bool.and_eq_true, Bool.or_eq_true, beq_iff_eq, bne_iff_ne] at this
  exact ⟨fun hne => ⟨_, checkDesignation_sound D ret id n.ref _ (this.1.resolve_left hne)⟩,
    fun h20 hne => ⟨_, checkDesignation_sound D ret id n.dynamicRef _
      (this.2.resolve_left (fun h => h.elim hne (fun h => h h20)))⟩⟩


/-! ### documents without `$id` (whatever the retrieval URI) -/

/-- no subschema of the document carries an `$id` -/
def NoIds (D : Doc) : Prop := ∀ x n, D.Has x → D.st.get? x = some n → n.id = ""

theorem lineage_mem_has (st : Store) : ∀ (l : List NodeId) (a s : NodeId), isLineage st a l s = true →
    ∀ x ∈ l, ∃ l', isLineage st a l' x = true := by
  intro l
  induction l with
  | nil => intro a s _ x hx; simp at hx
  | cons c l ih =>
    intro a s h x hx
    simp only [isLineage, Bool.and_eq_true] at h
    rcases List.mem_cons.mp hx with hx | hx
    · subst hx
      exact ⟨[x], by simp [isLineage, h.1]⟩
    · obtain ⟨l', hl'⟩ := ih c s h.2 x hx
      exact ⟨c :: l', by simp [isLineage, h.1, hl']⟩

theorem noIds_starts (D : Doc) (h : NoIds D) (x : NodeId) (hx : D.Has x) :
    startsResourceAt D.st D.draft x = false := by
  unfold startsResourceAt
  cases hg : D.st.get? x with
  | none => rfl
  | some n =>
    have := h x n hx hg
    unfold startsResource
    cases D.draft <;> simp [this]

theorem noIds_filter (D : Doc) (h : NoIds D) (l : List NodeId) (s : NodeId)
    (hl : isLineage D.st D.root l s = true) :
    (D.root :: l).filter (startsResourceAt D.st D.draft) = [] := by
  rw [List.filter_eq_nil_iff]
  intro x hx
  rcases List.mem_cons.mp hx with hx | hx
  · rw [hx, noIds_starts D h D.root ⟨[], by simp [isLineage]⟩]; simp
  · rw [noIds_starts D h x (lineage_mem_has D.st l D.root s hl x hx)]; simp

theorem noIds_baseUri (D : Doc) (h : NoIds D) (u : Url) (l : List NodeId) (s : NodeId)
    (hl : isLineage D.st D.root l s = true) : baseUriAlong D u l = u := by
  unfold baseUriAlong
  rw [noIds_filter D h l s hl]
  rfl

theorem noIds_nearest (D : Doc) (h : NoIds D) (l : List NodeId) (s : NodeId)
    (hl : isLineage D.st D.root l s = true) : nearestResource D l = D.root := by
  unfold nearestResource
  have := noIds_filter D h l s hl
  rw [List.filter_cons] at this
  split at this
  · simp at this
  · rw [this]; rfl

/-- such a document has one resource, identified by the retrieval URI only -/
theorem noIds_identifies (D : Doc) (h : NoIds D) (u : Url) (k : String) (r : NodeId)
    (hI : D.Identifies u k r) : r = D.root ∧ k = Uri.toString u := by
  rcases hI with hI | ⟨⟨l, hl, hn⟩, u', ⟨l', hl', hu'⟩, hk⟩
  · exact hI
  · rw [noIds_nearest D h l r hl] at hn
    rw [noIds_baseUri D h u l' r hl'] at hu'
    exact ⟨hn.symm, by rw [hk, ← hu']⟩

theorem noIds_idsOk (D : Doc) (h : NoIds D) (u : Url) : D.IdsOk u := by
  intro l s n hl hn
  have hid := h s n ⟨l, hl⟩ hn
  constructor
  · unfold idSyntaxOk idRead
    simp [hid]
  · intro hs
    unfold startsResource at hs
    cases hd : D.draft <;> rw [hd] at hs <;> simp [hid] at hs

theorem noIds_uniqueIds (D : Doc) (h : NoIds D) (u : Url) : D.UniqueIds u := by
  intro k r r' h1 h2
  rw [(noIds_identifies D h u k r h1).1, (noIds_identifies D h u k r' h2).1]

/-! ### certificates for references into other documents -/

/-- the fragment `frag` selects `t` in the resource rooted at `r` (`lt`: lineage of `t`, for plain names) -/
def fragCheck (D : Doc) (r : NodeId) (frag : String) (lt : List NodeId) (t : NodeId) : Bool :=
  if frag = "" then t == r
  else if frag.toList.head? = some '/' then Pointer.dereference D.st true true r frag == .ok t
  else isLineage D.st D.root lt t && (nearestResource D lt == r) &&
    (match D.st.get? t with
     | some n => (declaredAnchors D.draft n).any fun e => e.1 == frag
     | none => false)

theorem fragCheck_sound (D : Doc) (r : NodeId) (frag : String) (lt : List NodeId) (t : NodeId)
    (h : fragCheck D r frag lt t = true) : D.FragTarget r frag t := by
  unfold fragCheck at h
  unfold Doc.FragTarget
  split at h
  · rename_i h0
    rw [if_pos h0]
    simpa using h
  · rename_i h0
    rw [if_neg h0]
    split at h
    · rename_i h1
      rw [if_pos h1]
      simpa using h
    · rename_i h1
      rw [if_neg h1]
      simp only [Bool.and_eq_true, beq_iff_eq] at h
      obtain ⟨⟨hlt, hnt⟩, hdecl⟩ := h
      refine ⟨⟨lt, hlt, hnt⟩, ?_⟩
      cases hg : D.st.get? t with
      | none => rw [hg] at hdecl; simp at hdecl
      | some n =>
        rw [hg] at hdecl
        simp only [List.any_eq_true, beq_iff_eq] at hdecl
        obtain ⟨⟨a, dyn⟩, hmem, ha⟩ := hdecl
        simp only at ha
        subst ha
        exact ⟨dyn, n, hg, hmem⟩

/-- the reference leaves the document: its fragment-less URI is no key of the document (`identKeys`) and is a key
    of the Loader table, with document `x`, in which the fragment selects `t` -/
def checkRefOut (env : Env) (D : Doc) (ret : Url) (s : NodeId) (ref : String) (ls : List NodeId) (x : NodeId)
    (lt : List NodeId) (t : NodeId) : Bool :=
  D.depthOk && isLineage D.st D.root ls s &&
  match Uri.parse ref with
  | .ok refURI =>
    ((D.identKeys ret).all fun e =>
      e.1 != Uri.toString (Uri.dropFragment (Uri.resolveReference (baseUriAlong D ret ls) refURI))) &&
    (match env.loader with
     | some tbl =>
       (match Json.lookup (Uri.toString (Uri.dropFragment (Uri.resolveReference (baseUriAlong D ret ls) refURI))) tbl with
        | some (.doc y) => y == x
        | _ => false)
     | none => false) &&
    fragCheck ⟨D.st, D.draft, x⟩ x (Uri.resolveReference (baseUriAlong D ret ls) refURI).fragment lt t
  | _ => false

theorem checkRefOut_sound (env : Env) (top : NodeId) (b : Url) (D : Doc) (ret : Url) (s : NodeId) (ref : String)
    (ls : List NodeId) (x : NodeId) (lt : List NodeId) (t : NodeId)
    (h : checkRefOut env D ret s ref ls x lt t = true) : D.RefGood env top b ret s ref := by
  unfold checkRefOut at h
  simp only [Bool.and_eq_true] at h
  obtain ⟨⟨hd, hls⟩, h⟩ := h
  cases hp : Uri.parse ref with
  | ok refURI =>
    rw [hp] at h
    simp only [Bool.and_eq_true, List.all_eq_true, bne_iff_ne, ne_eq] at h
    obtain ⟨⟨hkeys, htbl⟩, hfrag⟩ := h
    refine ⟨baseUriAlong D ret ls, refURI, ⟨ls, hls, rfl⟩, hp, Or.inr ⟨?_, x, Or.inr ?_, t, fragCheck_sound _ _ _ _ _ hfrag⟩⟩
    · intro r hI
      exact hkeys _ (identifies_mem D ret hd _ r hI) rfl
    · cases hl : env.loader with
      | none => rw [hl] at htbl; simp at htbl
      | some tbl =>
        rw [hl] at htbl
        simp only at htbl
        refine ⟨tbl, rfl, ?_⟩
        cases hk : Json.lookup (Uri.toString (Uri.dropFragment (Uri.resolveReference (baseUriAlong D ret ls) refURI))) tbl with
        | none => rw [hk] at htbl; simp at htbl
        | some v =>
          rw [hk] at htbl
          cases v with
          | fail => simp at htbl
          | nilDoc => simp at htbl
          | doc y =>
            simp only [beq_iff_eq] at htbl
            rw [htbl]
  | err => rw [hp] at h; simp at h
  | panic => rw [hp] at h; simp at h
  | fuel => rw [hp] at h; simp at h

theorem refGood_of_designates (env : Env) (top : NodeId) (b : Url) (D : Doc) (ret : Url) (s : NodeId) (ref : String)
    (t : NodeId) (h : D.Designates ret s ref t) : D.RefGood env top b ret s ref := by
  obtain ⟨bu, refURI, r, h1, h2, h3, h4⟩ := h
  exact ⟨bu, refURI, h1, h2, Or.inl ⟨r, h3, t, h4⟩⟩

end RComp
end Go
end JSV
