/-
  C02 helpers: which keywords each draft reads.
-/
import JSV.Proofs.InvMeta
namespace JSV
namespace Inv
open Go GoVal

/-- clear the keywords only draft 2020-12 gives a meaning to, among those the evaluator dispatches on the draft -/
def erase2020only (n : Node) : Node :=
  { n with prefixItems := none, dependentRequired := none, dependentSchemas := none }

/-- clear the draft-07 forms: array-form `items`, `additionalItems`, `dependencies` -/
def erase7only (n : Node) : Node :=
  { n with itemsArray := none, additionalItems := none, dependencyStrings := none, dependencySchemas := none }

theorem bItems_d7 (env : VEnv) (hd : env.draft = .d7) (rec : Go.Rec) (stack : List NodeId) (n : Node) (xs : List GoVal)
    (anns : Anns) : bItems env rec stack (erase2020only n) xs anns = bItems env rec stack n xs anns := by
  unfold bItems; rw [hd]; rfl

theorem bDependencies_d7 (env : VEnv) (hd : env.draft = .d7) (rec : Go.Rec) (stack : List NodeId) (n : Node)
    (inst : GoVal) (kvs : List (String × GoVal)) (anns : Anns) :
    bDependencies env rec stack (erase2020only n) inst kvs anns = bDependencies env rec stack n inst kvs anns := by
  unfold bDependencies; rw [hd]; rfl

theorem bItems_d2020 (env : VEnv) (hd : env.draft = .d2020) (rec : Go.Rec) (stack : List NodeId) (n : Node)
    (xs : List GoVal) (anns : Anns) : bItems env rec stack (erase7only n) xs anns = bItems env rec stack n xs anns := by
  unfold bItems; rw [hd]; rfl

theorem bDependencies_d2020 (env : VEnv) (hd : env.draft = .d2020) (rec : Go.Rec) (stack : List NodeId) (n : Node)
    (inst : GoVal) (kvs : List (String × GoVal)) (anns : Anns) :
    bDependencies env rec stack (erase7only n) inst kvs anns = bDependencies env rec stack n inst kvs anns := by
  unfold bDependencies; rw [hd]; rfl

theorem bArray_of_bItems (env : VEnv) (rec : Go.Rec) (stack : List NodeId) (f : Node → Node) (n : Node)
    (hi : ∀ xs anns, bItems env rec stack (f n) xs anns = bItems env rec stack n xs anns)
    (h1 : ∀ xs anns, bContains env.draft rec stack (f n) xs anns = bContains env.draft rec stack n xs anns)
    (h2 : ∀ xs cnt, bArrayLimits env.draft (f n) xs cnt = bArrayLimits env.draft n xs cnt)
    (h3 : ∀ xs, bUnique env (f n) xs = bUnique env n xs)
    (h4 : ∀ xs anns, bUnevaluatedItems env.draft rec stack (f n) xs anns =
      bUnevaluatedItems env.draft rec stack n xs anns)
    (inst : GoVal) (anns : Anns) : bArray env rec stack (f n) inst anns = bArray env rec stack n inst anns := by
  unfold bArray
  simp only [hi, h1, h2, h3, h4]

theorem bObject_of_bDependencies (env : VEnv) (rec : Go.Rec) (stack : List NodeId) (f : Node → Node) (n : Node)
    (hdp : ∀ inst kvs anns, bDependencies env rec stack (f n) inst kvs anns = bDependencies env rec stack n inst kvs anns)
    (h1 : ∀ info kvs, bProps env rec stack (f n) info kvs = bProps env rec stack n info kvs)
    (h2 : (f n).propertyNames = n.propertyNames)
    (h3 : ∀ info kvs, bObjectLimits (f n) info kvs = bObjectLimits n info kvs)
    (h4 : ∀ kvs anns, bUnevaluatedProps env.draft rec stack (f n) kvs anns =
      bUnevaluatedProps env.draft rec stack n kvs anns)
    (info : Option Info) (inst : GoVal) (anns : Anns) :
    bObject env rec stack (f n) info inst anns = bObject env rec stack n info inst anns := by
  unfold bObject
  simp only [hdp, h1, h2, h3, h4]

theorem stepBody_d7 (env : VEnv) (hd : env.draft = .d7) (rec : Go.Rec) (stack : List NodeId) (i : GoVal) (s : NodeId)
    (n : Node) : stepBody env rec stack i s (erase2020only n) = stepBody env rec stack i s n := by
  have hA := fun stk => bArray_of_bItems env rec stk erase2020only n (bItems_d7 env hd rec stk n)
    (fun _ _ => rfl) (fun _ _ => rfl) (fun _ => rfl) (fun _ _ => rfl)
  have hO := fun stk => bObject_of_bDependencies env rec stk erase2020only n (bDependencies_d7 env hd rec stk n)
    (fun _ _ => rfl) rfl (fun _ _ => rfl) (fun _ _ => rfl)
  unfold stepBody
  simp only [hA, hO]
  rfl

theorem stepBody_d2020 (env : VEnv) (hd : env.draft = .d2020) (rec : Go.Rec) (stack : List NodeId) (i : GoVal)
    (s : NodeId) (n : Node) : stepBody env rec stack i s (erase7only n) = stepBody env rec stack i s n := by
  have hA := fun stk => bArray_of_bItems env rec stk erase7only n (bItems_d2020 env hd rec stk n)
    (fun _ _ => rfl) (fun _ _ => rfl) (fun _ => rfl) (fun _ _ => rfl)
  have hO := fun stk => bObject_of_bDependencies env rec stk erase7only n (bDependencies_d2020 env hd rec stk n)
    (fun _ _ => rfl) rfl (fun _ _ => rfl) (fun _ _ => rfl)
  unfold stepBody
  simp only [hA, hO]
  rfl

/-- a draft-07 evaluation never reads prefixItems, dependentRequired, dependentSchemas -/
theorem validateFuel_d7_ignores (env : VEnv) (hd : env.draft = .d7) : ∀ fuel stack i s,
    validateFuel { env with st := env.st.map erase2020only } fuel stack i s = validateFuel env fuel stack i s :=
  validateFuel_map_of env erase2020only (fun rec stack i s n => stepBody_d7 env hd rec stack i s n)

/-- a draft 2020-12 evaluation never reads array-form items, additionalItems, dependencies -/
theorem validateFuel_d2020_ignores (env : VEnv) (hd : env.draft = .d2020) : ∀ fuel stack i s,
    validateFuel { env with st := env.st.map erase7only } fuel stack i s = validateFuel env fuel stack i s :=
  validateFuel_map_of env erase7only (fun rec stack i s n => stepBody_d2020 env hd rec stack i s n)

/-- draft-07: a schema object with `$ref` is its reference -/
theorem validateStep_ref7 (env : VEnv) (hd : env.draft = .d7) (rec : Go.Rec) (stack : List NodeId) (inst : GoVal)
    (s : NodeId) (n : Node) (i : Info) (t : NodeId) (hn : env.st.get? s = some n) (hr : n.ref ≠ "")
    (hi : env.info? s = some i) (ht : i.resolvedRef = some t) :
    validateStep env rec stack inst s = (rec (stack ++ [s]) (strip inst) t).bind fun _ => .ok {} := by
  have h1 : (n.ref != "") = true := by simp [hr]
  unfold validateStep
  simp only [hn, hi, Option.isNone_some, Bool.and_false, Bool.false_eq_true, if_false]
  unfold bRef
  simp only [h1, if_true, ht, hd, mustValid]
  cases rec (stack ++ [s]) (strip inst) t <;> simp

end Inv
end JSV
