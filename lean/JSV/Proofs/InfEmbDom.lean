/-
  Helper lemmas for C16 / C04 (embedded fields): on the domain `InDomainE`, reflect.VisibleFields restricted to the
  live fields (exported, not embedded, not `json:"-"`) is encoding/json's `typeFields`, field by field and in the
  same order: Go's selector shadowing and encoding/json's dominance coincide.
-/
import JSV.Proofs.InfEmbNames
import JSV.Proofs.InfModels
namespace JSV
namespace EncJsonEmb
open Go

/-! ## a measure for inductions over the tree of embedded structs -/

mutual
  def wt : GoTypeE → Nat
    | .basic _ => 0
    | .named _ u => wt u + 1
    | .ref _ => 0
    | .ptr e => wt e + 1
    | .slice e => wt e + 1
    | .array _ e => wt e + 1
    | .map _ e => wt e + 1
    | .struct fs => wtFs fs + 1
  def wtFs : List (FieldE GoTypeE) → Nat
    | [] => 0
    | f :: rest => wt f.type + wtFs rest + 1
end

/-- the struct whose fields an embedded field of type `t` promotes, if there is one -/
theorem embView (t : GoTypeE) :
    (∃ fs, (∀ idx, embFields idx t = allFields idx 0 fs) ∧ (∀ idx, embCandidates idx t = candidates idx 0 fs) ∧
        (inDomainEmbE t = true → inDomainFieldsE fs = true) ∧ isStructE (derefE t) = true ∧ wtFs fs < wt t) ∨
    ((∀ idx, embFields idx t = []) ∧ (∀ idx, embCandidates idx t = []) ∧ inDomainEmbE t = false) := by
  cases t with
  | ptr e =>
    cases e with
    | named nm u =>
      cases u with
      | struct fs => exact Or.inl ⟨fs, fun _ => rfl, fun _ => rfl, fun h => h, rfl, by simp only [wt]; omega⟩
      | _ => exact Or.inr ⟨fun _ => rfl, fun _ => rfl, rfl⟩
    | struct fs =>
      exact Or.inl ⟨fs, fun _ => rfl, fun _ => rfl, fun h => (by simp [inDomainEmbE] at h), rfl, by simp only [wt]; omega⟩
    | _ => exact Or.inr ⟨fun _ => rfl, fun _ => rfl, rfl⟩
  | named nm u =>
    cases u with
    | struct fs => exact Or.inl ⟨fs, fun _ => rfl, fun _ => rfl, fun h => h, rfl, by simp only [wt]; omega⟩
    | _ => exact Or.inr ⟨fun _ => rfl, fun _ => rfl, rfl⟩
  | struct fs =>
    exact Or.inl ⟨fs, fun _ => rfl, fun _ => rfl, fun h => (by simp [inDomainEmbE] at h), rfl, by simp only [wt]; omega⟩
  | _ => exact Or.inr ⟨fun _ => rfl, fun _ => rfl, rfl⟩

/-! ## the candidates of `typeFields` are the live fields of the walk -/

/-- the encoding/json `field` of a live field -/
def toT (f : VField) : TField :=
  { index := f.index, name := jsonNameOf f, tagged := jsonTagName f.tag != "",
    omitempty := (fieldJSONInfo f.goName f.tag).omitempty, omitzero := (fieldJSONInfo f.goName f.tag).omitzero,
    type := f.type }

theorem fieldJSONInfo_untagged {g tag : String} (h : (tagLookup "json" tag).isNone = true) :
    (fieldJSONInfo g tag).omitted = false ∧ jsonTagName tag = "" := by
  have hn : tagLookup "json" tag = none := by
    cases ht : tagLookup "json" tag with
    | none => rfl
    | some t => rw [ht] at h; cases h
  unfold fieldJSONInfo jsonTagName
  rw [hn]
  exact ⟨rfl, rfl⟩

/-- an embedded field of the domain is explored by `typeFields` -/
theorem classify_descend {f : FieldE GoTypeE} (he : f.embedded = true) (hx : f.exported = true)
    (ht : (tagLookup "json" f.tag).isNone = true) (hs : isStructE (derefE f.type) = true) : classify f = .descend := by
  obtain ⟨ho, hn⟩ := fieldJSONInfo_untagged (g := f.goName) ht
  unfold classify
  simp [he, hx, ho, hn, hs]

theorem live_mk (idx : List Nat) (g tag : String) (ex an : Bool) (ty : GoTypeE) :
    live { index := idx, goName := g, tag := tag, exported := ex, anonymous := an, type := ty } =
      (!an && ex && !(fieldJSONInfo g tag).omitted) := rfl

theorem candidates_eq : ∀ (n : Nat) (fs : List (FieldE GoTypeE)) (pre : List Nat) (i : Nat), wtFs fs ≤ n →
    inDomainFieldsE fs = true → candidates pre i fs = ((allFields pre i fs).filter live).map toT := by
  intro n
  induction n with
  | zero =>
    intro fs pre i hw _
    cases fs with
    | nil => simp only [candidates, allFields, List.filter_nil, List.map_nil]
    | cons f rest => simp only [wtFs] at hw; omega
  | succ n ihn =>
    intro fs pre i hw hd
    cases fs with
    | nil => simp only [candidates, allFields, List.filter_nil, List.map_nil]
    | cons f rest =>
      simp only [wtFs] at hw
      simp only [inDomainFieldsE, Bool.and_eq_true] at hd
      have ih := ihn rest pre (i + 1) (by omega) hd.2
      simp only [candidates, allFields]
      rw [List.filter_cons, List.filter_append, ih]
      cases he : f.embedded with
      | true =>
        have h1 := hd.1
        rw [he] at h1
        simp only [if_true, Bool.and_eq_true] at h1
        rcases embView f.type with ⟨fs', hf, hc, hdom, hs, hlt⟩ | ⟨_, _, hfalse⟩
        · rw [classify_descend he h1.1.1 h1.1.2 hs]
          simp only [live_mk, Bool.not_true, Bool.false_and, Bool.false_eq_true, if_false, if_true, hf, hc, List.map_append]
          rw [ihn fs' (pre ++ [i]) 0 (by omega) (hdom h1.2)]
        · rw [hfalse] at h1
          exact absurd h1.2 (by simp)
      | false =>
        have h1 := hd.1
        rw [he] at h1
        simp only [Bool.false_eq_true, if_false, Bool.or_eq_true, Bool.not_eq_true', Bool.and_eq_true] at h1
        simp only [Bool.false_eq_true, if_false, List.filter_nil, List.nil_append]
        unfold classify
        simp only [he, Bool.false_eq_true, if_false]
        cases hx : f.exported with
        | false =>
          simp only [live_mk, Bool.not_false, if_true, Bool.true_and, Bool.false_and, Bool.false_eq_true, if_false, List.nil_append]
        | true =>
          cases ho : (fieldJSONInfo f.goName f.tag).omitted with
          | true =>
            simp only [live_mk, ho, Bool.not_true, Bool.not_false, Bool.true_and, Bool.and_false, Bool.false_eq_true, if_false, if_true,
              List.nil_append]
          | false =>
            simp only [live_mk, ho, Bool.not_true, Bool.not_false, Bool.and_true, Bool.false_eq_true, if_false, if_true,
              List.map_cons, List.singleton_append]
            rfl

/-! ## pairwise -/

/-- `pairOk` as a proposition -/
def PairOk (a b : VField) : Prop :=
  (a.goName = b.goName → live a = true ∧ live b = true ∧ a.index.length ≠ b.index.length ∧ jsonNameOf a = jsonNameOf b) ∧
  (live a = true → live b = true → jsonNameOf a = jsonNameOf b → a.goName = b.goName)

theorem pairOk_iff (a b : VField) : pairOk a b = true ↔ PairOk a b := by
  unfold pairOk PairOk
  by_cases hg : a.goName = b.goName <;> by_cases hj : jsonNameOf a = jsonNameOf b <;>
    cases live a <;> cases live b <;> simp [hg, hj]

theorem PairOk.symm {a b : VField} (h : PairOk a b) : PairOk b a :=
  ⟨fun hg => by
    obtain ⟨x, y, z, w⟩ := h.1 hg.symm
    exact ⟨y, x, fun e => z e.symm, w.symm⟩,
   fun hb ha hj => (h.2 ha hb hj.symm).symm⟩

/-- any two members of a list that satisfies `namesOk` are the same field or `PairOk` -/
theorem namesOk_mem : ∀ {l : List VField}, namesOk l = true → ∀ {a b}, a ∈ l → b ∈ l → a = b ∨ PairOk a b
  | [], _, _, _, ha, _ => nomatch ha
  | x :: l, h, a, b, ha, hb => by
    simp only [namesOk, Bool.and_eq_true, List.all_eq_true] at h
    rcases List.mem_cons.1 ha with ha1 | ha2
    · rcases List.mem_cons.1 hb with hb1 | hb2
      · exact Or.inl (ha1.trans hb1.symm)
      · rw [ha1]
        exact Or.inr ((pairOk_iff _ _).1 (h.1 b hb2))
    · rcases List.mem_cons.1 hb with hb1 | hb2
      · rw [hb1]
        exact Or.inr ((pairOk_iff _ _).1 (h.1 a ha2)).symm
      · exact namesOk_mem h.2 ha2 hb2

theorem namesOk_pairwise : ∀ {l : List VField}, namesOk l = true → l.Pairwise PairOk
  | [], _ => List.Pairwise.nil
  | x :: l, h => by
    simp only [namesOk, Bool.and_eq_true, List.all_eq_true] at h
    exact List.Pairwise.cons (fun b hb => (pairOk_iff _ _).1 (h.1 b hb)) (namesOk_pairwise h.2)

/-! ## visible = dominant -/

theorem isVisible_iff (all : List VField) (f : VField) :
    isVisible all f = true ↔ ∀ o, o ∈ all → o.index = f.index ∨ o.goName ≠ f.goName ∨ f.index.length < o.index.length := by
  unfold isVisible
  simp only [List.all_eq_true, Bool.or_eq_true, beq_iff_eq, bne_iff_ne, ne_eq, decide_eq_true_eq, or_assoc]

theorem isDominant_iff (all : List TField) (f : TField) :
    isDominant all f = true ↔ ∀ o, o ∈ all → o.index = f.index ∨ o.name ≠ f.name ∨ dominates f o = true := by
  unfold isDominant
  simp only [List.all_eq_true, Bool.or_eq_true, beq_iff_eq, bne_iff_ne, ne_eq, or_assoc]

/-- on a tree that satisfies `namesOk`, a live field is visible (Go) iff it is dominant (encoding/json) -/
theorem visible_eq_dominant {all : List VField} (hok : namesOk all = true) {f : VField} (hf : f ∈ all) (hl : live f = true) :
    isVisible all f = isDominant ((all.filter live).map toT) (toT f) := by
  rw [Bool.eq_iff_iff, isVisible_iff, isDominant_iff]
  constructor
  · intro hv c hc
    obtain ⟨o, ho, rfl⟩ := List.mem_map.1 hc
    obtain ⟨ho, hlo⟩ := List.mem_filter.1 ho
    show o.index = f.index ∨ jsonNameOf o ≠ jsonNameOf f ∨ _
    by_cases hj : jsonNameOf o = jsonNameOf f
    · rcases namesOk_mem hok ho hf with rfl | hp
      · exact Or.inl rfl
      · rcases hv o ho with h | h | h
        · exact Or.inl h
        · exact absurd (hp.2 hlo hl hj) h
        · refine Or.inr (Or.inr ?_)
          unfold dominates
          simp [toT, h]
    · exact Or.inr (Or.inl hj)
  · intro hd o ho
    by_cases hg : o.goName = f.goName
    · rcases namesOk_mem hok ho hf with rfl | hp
      · exact Or.inl rfl
      · obtain ⟨hlo, _, hne, hj⟩ := hp.1 hg
        rcases hd (toT o) (List.mem_map.2 ⟨o, List.mem_filter.2 ⟨ho, hlo⟩, rfl⟩) with h | h | h
        · exact Or.inl h
        · exact absurd hj h
        · refine Or.inr (Or.inr ?_)
          unfold dominates at h
          simp only [toT, Bool.or_eq_true, Bool.and_eq_true, beq_iff_eq] at h
          rcases h with h | h
          · exact of_decide_eq_true h
          · exact absurd h.1.1.symm hne
    · exact Or.inr (Or.inl hg)

/-- `typeFields` is the list of the live visible fields -/
theorem typeFields_eq {fs : List (FieldE GoTypeE)} (hok : namesOk (allFields [] 0 fs) = true)
    (hd : inDomainFieldsE fs = true) : typeFields fs = ((visibleFields fs).filter live).map toT := by
  unfold typeFields visibleFields
  rw [candidates_eq _ fs [] 0 (Nat.le_refl _) hd, List.filter_map, List.filter_filter, List.filter_filter]
  congr 1
  refine List.filter_congr fun f hf => ?_
  simp only [Function.comp]
  cases hl : live f with
  | false => simp
  | true =>
    rw [← visible_eq_dominant hok hf hl]
    simp

theorem fieldNames_eq {fs : List (FieldE GoTypeE)} (hok : namesOk (allFields [] 0 fs) = true)
    (hd : inDomainFieldsE fs = true) : fieldNames fs = loopNames (visibleFields fs) := by
  unfold fieldNames loopNames
  rw [typeFields_eq hok hd, List.map_map]
  rfl

theorem alwaysFieldNames_eq {fs : List (FieldE GoTypeE)} (hok : namesOk (allFields [] 0 fs) = true)
    (hd : inDomainFieldsE fs = true) : alwaysFieldNames fs = loopAlways (visibleFields fs) := by
  unfold alwaysFieldNames loopAlways
  rw [typeFields_eq hok hd, List.filter_map, List.map_map, List.filter_filter]
  congr 1
  refine List.filter_congr fun f _ => ?_
  simp only [Function.comp, alwaysLive, toT]
  cases live f <;> simp

/-- the visible live fields have pairwise distinct JSON names -/
theorem loopNames_nodup {fs : List (FieldE GoTypeE)} (hok : namesOk (allFields [] 0 fs) = true) :
    (loopNames (visibleFields fs)).Nodup := by
  unfold loopNames visibleFields
  rw [List.filter_filter]
  have hp := namesOk_pairwise hok
  have hall : ∀ f, f ∈ allFields [] 0 fs → f ∈ allFields [] 0 fs := fun _ h => h
  generalize allFields [] 0 fs = all at hp hall ⊢
  -- `all` in the visibility test is fixed; induct on the list that is filtered
  suffices h : ∀ l : List VField, l.Pairwise PairOk → (∀ f, f ∈ l → f ∈ all) →
      ((l.filter fun f => live f && isVisible all f).map jsonNameOf).Nodup from h all hp hall
  intro l
  induction l with
  | nil => intro _ _; simp
  | cons a l ih =>
    intro hpw hsub
    rw [List.pairwise_cons] at hpw
    have ih' := ih hpw.2 fun f hf => hsub f (List.mem_cons_of_mem _ hf)
    rw [List.filter_cons]
    split
    · rename_i hc
      simp only [Bool.and_eq_true] at hc
      rw [List.map_cons, List.nodup_cons]
      refine ⟨fun hmem => ?_, ih'⟩
      obtain ⟨b, hb, hj⟩ := List.mem_map.1 hmem
      obtain ⟨hbl, hbc⟩ := List.mem_filter.1 hb
      simp only [Bool.and_eq_true] at hbc
      have hpab := hpw.1 b hbl
      have hg := hpab.2 hc.1 hbc.1 hj.symm
      obtain ⟨_, _, hne, _⟩ := hpab.1 hg
      -- each of the two hides the other
      have ha_in := hsub a List.mem_cons_self
      have hb_in := hsub b (List.mem_cons_of_mem _ hbl)
      rcases (isVisible_iff all a).1 hc.2 b hb_in with h | h | h
      · exact hne (by rw [h])
      · exact h hg.symm
      · rcases (isVisible_iff all b).1 hbc.2 a ha_in with h' | h' | h'
        · exact hne (by rw [h'])
        · exact h' hg
        · omega
    · exact ih'

/-! ## the types of the live fields are in the domain -/

theorem allFields_domain : ∀ (n : Nat) (fs : List (FieldE GoTypeE)) (pre : List Nat) (i : Nat), wtFs fs ≤ n →
    inDomainFieldsE fs = true → ∀ f, f ∈ allFields pre i fs → live f = true → InDomainE f.type = true := by
  intro n
  induction n with
  | zero =>
    intro fs pre i hw _ f hf
    cases fs with
    | nil => simp only [allFields] at hf; cases hf
    | cons g rest => simp only [wtFs] at hw; omega
  | succ n ihn =>
    intro fs pre i hw hd f hf hl
    cases fs with
    | nil => simp only [allFields] at hf; cases hf
    | cons g rest =>
      simp only [wtFs] at hw
      simp only [inDomainFieldsE, Bool.and_eq_true] at hd
      simp only [allFields, List.mem_cons, List.mem_append] at hf
      rcases hf with rfl | hf | hf
      · rw [live_mk] at hl
        simp only [Bool.and_eq_true, Bool.not_eq_true'] at hl
        have h1 := hd.1
        simp only [hl.1.1, Bool.false_eq_true, if_false, hl.1.2, Bool.not_true, hl.2, Bool.false_or, Bool.and_eq_true] at h1
        exact h1.2
      · cases he : g.embedded with
        | false => rw [he] at hf; simp at hf
        | true =>
          rw [he] at hf
          simp only [if_true] at hf
          have h1 := hd.1
          rw [he] at h1
          simp only [if_true, Bool.and_eq_true] at h1
          rcases embView g.type with ⟨fs', hfe, _, hdom, _, hlt⟩ | ⟨hfe, _, _⟩
          · rw [hfe] at hf
            exact ihn fs' _ 0 (by omega) (hdom h1.2) f hf hl
          · rw [hfe] at hf
            cases hf
      · exact ihn rest pre (i + 1) (by omega) hd.2 f hf hl

end EncJsonEmb
end JSV

namespace JSV
namespace Go
open EncJsonEmb EncJson

/-! ## equations of `inferStepE` -/

theorem inferStepE_basic {opts : IOpts} {rec : IRecE} {t0 : GoTypeE} {kind : String} {an : Bool} {seen : List String}
    {st : Store} (h : stripPtrsE t0 = (.basic kind, an)) :
    inferStepE opts rec t0 seen st =
      match kindEntry kind with
      | some (ty, mn, mx) => .ok (some st.size, st.push (addNull an (basicNode ty mn mx)))
      | none => if opts.ignore then .ok (none, st) else .err := by
  unfold inferStepE
  rw [h]
  simp only [typeNameE, Option.bind_none]
  cases kindEntry kind with
  | none => rfl
  | some e => obtain ⟨ty, mn, mx⟩ := e; rfl

theorem inferStepE_map {opts : IOpts} {rec : IRecE} {t0 : GoTypeE} {keyKind : String} {e : GoTypeE} {an : Bool}
    {seen : List String} {st : Store} (h : stripPtrsE t0 = (.map keyKind e, an)) :
    inferStepE opts rec t0 seen st =
      if keyKind != "String" then (if opts.ignore then .ok (none, st) else .err)
      else Res.bind (rec e seen st) fun r =>
        match r.1 with
        | none => .ok (none, r.2)
        | some eid => .ok (some r.2.size, r.2.push (addNull an (mapNode eid))) := by
  unfold inferStepE
  rw [h]
  simp only [typeNameE, Option.bind_none]
  split
  · rfl
  · refine Res.bind_congr fun r => ?_
    obtain ⟨es, st1⟩ := r
    cases es <;> rfl

theorem inferStepE_slice {opts : IOpts} {rec : IRecE} {t0 : GoTypeE} {e : GoTypeE} {an : Bool}
    {seen : List String} {st : Store} (h : stripPtrsE t0 = (.slice e, an)) :
    inferStepE opts rec t0 seen st =
      Res.bind (rec e seen st) fun r =>
        match r.1 with
        | none => .ok (none, r.2)
        | some eid => .ok (some r.2.size, r.2.push (addNull an (sliceNode opts.nullForSlices eid))) := by
  unfold inferStepE
  rw [h]
  simp only [typeNameE, Option.bind_none]
  refine Res.bind_congr fun r => ?_
  obtain ⟨es, st1⟩ := r
  cases es <;> rfl

theorem inferStepE_array {opts : IOpts} {rec : IRecE} {t0 : GoTypeE} {len : Nat} {e : GoTypeE} {an : Bool}
    {seen : List String} {st : Store} (h : stripPtrsE t0 = (.array len e, an)) :
    inferStepE opts rec t0 seen st =
      Res.bind (rec e seen st) fun r =>
        match r.1 with
        | none => .ok (none, r.2)
        | some eid => .ok (some r.2.size, r.2.push (addNull an (arrayNode len eid))) := by
  unfold inferStepE
  rw [h]
  simp only [typeNameE, Option.bind_none]
  refine Res.bind_congr fun r => ?_
  obtain ⟨es, st1⟩ := r
  cases es <;> rfl

theorem inferStepE_struct {opts : IOpts} {rec : IRecE} {t0 : GoTypeE} {fields : List (FieldE GoTypeE)} {an : Bool}
    {seen : List String} {st : Store} (h : stripPtrsE t0 = (.struct fields, an)) :
    inferStepE opts rec t0 seen st =
      Res.bind (structLoopE opts rec seen (visibleFields fields) none (structNode0 (st.size + 1))
          ((st.push emptyNode).push (falseNode st.size)))
        fun r => .ok (some r.2.size, r.2.push (addNull an (finalOrder r.1))) := by
  unfold inferStepE
  rw [h]
  simp only [typeNameE, Option.bind_none, Store.alloc, Array.size_push]
  refine Res.bind_congr fun r => ?_
  obtain ⟨n, st1⟩ := r
  rfl

theorem inferStepE_struct_ok {opts : IOpts} {rec : IRecE} {t0 : GoTypeE} {fields : List (FieldE GoTypeE)}
    {an : Bool} {seen : List String} {st : Store} {r : Option NodeId} {st' : Store}
    (hs : stripPtrsE t0 = (.struct fields, an)) (h : inferStepE opts rec t0 seen st = .ok (r, st')) :
    ∃ n st1, structLoopE opts rec seen (visibleFields fields) none (structNode0 (st.size + 1))
        ((st.push emptyNode).push (falseNode st.size)) = .ok (n, st1) ∧
      r = some st1.size ∧ st' = st1.push (addNull an (finalOrder n)) := by
  rw [inferStepE_struct hs] at h
  obtain ⟨⟨n, st1⟩, hl, h⟩ := Res.bind_eq_ok h
  cases h
  exact ⟨n, st1, hl, rfl, rfl⟩

/-! ## on the domain no type is dropped -/

theorem stripPtrsE_domain : ∀ (T : GoTypeE), (∀ e, (stripPtrsE T).1 ≠ .ptr e) ∧ InDomainE (stripPtrsE T).1 = InDomainE T
  | .ptr e => by
    simp only [stripPtrsE, InDomainE]
    exact stripPtrsE_domain e
  | .basic _ => ⟨fun _ h => (nomatch h), rfl⟩
  | .named _ _ => ⟨fun _ h => (nomatch h), rfl⟩
  | .ref _ => ⟨fun _ h => (nomatch h), rfl⟩
  | .slice _ => ⟨fun _ h => (nomatch h), rfl⟩
  | .array _ _ => ⟨fun _ h => (nomatch h), rfl⟩
  | .map _ _ => ⟨fun _ h => (nomatch h), rfl⟩
  | .struct _ => ⟨fun _ h => (nomatch h), rfl⟩

def RecSomeE (rec : IRecE) : Prop :=
  ∀ T seen st r st', InDomainE T = true → rec T seen st = .ok (r, st') → ∃ id, r = some id

theorem inferStepE_some (opts : IOpts) {rec : IRecE} (hrec : RecSomeE rec) : RecSomeE (inferStepE opts rec) := by
  intro T seen st r st' hdomT h
  obtain ⟨hnp, hdom⟩ := stripPtrsE_domain T
  rw [← hdom] at hdomT
  cases hs : stripPtrsE T with
  | mk t an =>
    rw [hs] at hnp hdomT
    simp only at hnp hdomT
    cases t with
    | ptr e => exact absurd rfl (hnp e)
    | named nm u => simp [InDomainE] at hdomT
    | ref nm => simp [InDomainE] at hdomT
    | basic kind =>
      simp only [InDomainE] at hdomT
      obtain ⟨ty, mn, mx, hk⟩ := kindEntry_domain hdomT
      rw [inferStepE_basic hs, hk] at h
      cases h
      exact ⟨_, rfl⟩
    | slice e =>
      simp only [InDomainE] at hdomT
      rw [inferStepE_slice hs] at h
      obtain ⟨⟨es, st1⟩, he, h⟩ := Res.bind_eq_ok h
      obtain ⟨eid, rfl⟩ := hrec _ _ _ _ _ hdomT he
      cases h
      exact ⟨_, rfl⟩
    | array len e =>
      simp only [InDomainE] at hdomT
      rw [inferStepE_array hs] at h
      obtain ⟨⟨es, st1⟩, he, h⟩ := Res.bind_eq_ok h
      obtain ⟨eid, rfl⟩ := hrec _ _ _ _ _ hdomT he
      cases h
      exact ⟨_, rfl⟩
    | map keyKind e =>
      simp only [InDomainE, Bool.and_eq_true, beq_iff_eq] at hdomT
      rw [inferStepE_map hs] at h
      simp only [hdomT.1, bne_self_eq_false, Bool.false_eq_true, if_false] at h
      obtain ⟨⟨es, st1⟩, he, h⟩ := Res.bind_eq_ok h
      obtain ⟨eid, rfl⟩ := hrec _ _ _ _ _ hdomT.2 he
      cases h
      exact ⟨_, rfl⟩
    | struct fields =>
      obtain ⟨n, st1, _, rfl, _⟩ := inferStepE_struct_ok hs h
      exact ⟨_, rfl⟩

theorem inferFuelE_some (opts : IOpts) : ∀ fuel, RecSomeE (inferFuelE opts fuel)
  | 0 => fun _ _ _ _ _ _ h => by cases h
  | fuel + 1 => inferStepE_some opts (inferFuelE_some opts fuel)

/-! ## the schema of a struct type of the domain -/

theorem mem_visibleFields {fs : List (FieldE GoTypeE)} {f : VField} (h : f ∈ visibleFields fs) : f ∈ allFields [] 0 fs :=
  (List.mem_filter.1 h).1

/-- the struct case on the domain: `propertyOrder`, the keys of `properties` and `required` are those of
    encoding/json's `typeFields` -/
theorem inferStepE_struct_names {opts : IOpts} {rec : IRecE} (hrec : RecSomeE rec) {t0 : GoTypeE}
    {fields : List (FieldE GoTypeE)} {an : Bool} {seen : List String} {st : Store} {r : Option NodeId} {st' : Store}
    (hs : stripPtrsE t0 = (.struct fields, an)) (hdom : InDomainE (.struct fields) = true)
    (hno : NoOverride opts (visibleFields fields)) (h : inferStepE opts rec t0 seen st = .ok (r, st')) :
    ∃ id n, r = some id ∧ st'.get? id = some (addNull an n) ∧ n.type = "object" ∧
      n.propertyOrder.getD [] = fieldNames fields ∧
      (∀ k, k ∈ (n.properties.getD []).map (·.1) ↔ k ∈ fieldNames fields) ∧
      n.required.getD [] = alwaysFieldNames fields := by
  simp only [InDomainE, Bool.and_eq_true] at hdom
  obtain ⟨hok, hdf⟩ := hdom
  obtain ⟨n, st1, hl, rfl, rfl⟩ := inferStepE_struct_ok hs h
  have hnd : NeverDropsE rec seen (visibleFields fields) := fun f hf hlive s s1 hr => by
    have hd := allFields_domain _ fields [] 0 (Nat.le_refl _) hdf f (mem_visibleFields hf) hlive
    obtain ⟨_, hid⟩ := hrec _ _ _ _ _ hd hr
    cases hid
  obtain ⟨h1, h2, h3, h4⟩ := structLoopE_lists (visibleFields fields) hno hnd hl
  have hnames : n.propertyOrder.getD [] = loopNames (visibleFields fields) := by rw [h1]; rfl
  refine ⟨_, finalOrder n, rfl, get?_push_size _ _, ?_, ?_, ?_, ?_⟩
  · rw [finalOrder_type, coreOf_type h4]
    rfl
  · rw [finalOrder_order_of_nodup n (by rw [hnames]; exact (nodup_iff _).2 (loopNames_nodup hok)), hnames,
      fieldNames_eq hok hdf]
  · intro k
    rw [finalOrder_properties, h3, fieldNames_eq hok hdf]
    simp [structNode0]
  · rw [finalOrder_required, h2, alwaysFieldNames_eq hok hdf]
    rfl

end Go
end JSV
