/-
  C10 helper file: UnmarshalJSON neither panics nor runs out of fuel when the fuel covers the size of the document.
-/
import JSV.Proofs.Tot
import JSV.Model.Unmarshal
namespace JSV
namespace C10
open JSV Go

theorem size_pos (j : Json) : 1 ≤ Json.size j := by
  cases j <;> simp [Json.size]

theorem size_le_sizeList : ∀ {xs : List Json} {x : Json}, x ∈ xs → Json.size x ≤ Json.sizeList xs
  | y :: ys, x, h => by
    simp only [Json.sizeList]
    rcases List.mem_cons.1 h with rfl | h
    · omega
    · have := size_le_sizeList h; omega

theorem size_le_sizeObj : ∀ {kvs : List (String × Json)} {k : String} {v : Json}, (k, v) ∈ kvs →
    Json.size v ≤ Json.sizeObj kvs
  | (k', v') :: ys, k, v, h => by
    simp only [Json.sizeObj]
    rcases List.mem_cons.1 h with h | h
    · cases h; omega
    · have := size_le_sizeObj h; omega

/-- the recursive call is safe on every document of size ≤ m -/
def Small (rec : URec) (m : Nat) : Prop := ∀ j st, Json.size j ≤ m → NoPF (rec j st)

theorem decStr_NoPF (v : Json) (c : String) : NoPF (decStr v c) := by
  cases v <;> first | exact NoPF_ok _ | exact NoPF_err
theorem decBool_NoPF (v : Json) (c : Bool) : NoPF (decBool v c) := by
  cases v <;> first | exact NoPF_ok _ | exact NoPF_err
theorem decFloat_NoPF (v : Json) : NoPF (decFloat v) := by
  cases v <;> first | exact NoPF_ok _ | exact NoPF_err
theorem decInteger_NoPF (v : Json) : NoPF (decInteger v) := by
  cases v <;> first | exact NoPF_ok _ | exact NoPF_err | (simp only [decInteger]; split <;> first | exact NoPF_ok _ | exact NoPF_err)
theorem decAnyList_NoPF (v : Json) : NoPF (decAnyList v) := by
  cases v <;> first | exact NoPF_ok _ | exact NoPF_err

theorem decStrList_fold_NoPF : ∀ xs : List Json,
    NoPF (xs.foldr (fun x acc => Res.bind acc fun l => match x with
        | .str s => (.ok (s :: l) : Res (List String))
        | .null => .ok ("" :: l)
        | _ => .err) (.ok []))
  | [] => NoPF_ok _
  | x :: xs => by
    simp only [List.foldr_cons]
    refine NoPF_bind (decStrList_fold_NoPF xs) fun l _ => ?_
    cases x <;> first | exact NoPF_ok _ | exact NoPF_err

theorem decStrList_NoPF (v : Json) : NoPF (decStrList v) := by
  cases v with
  | arr xs => exact NoPF_bind (decStrList_fold_NoPF xs) fun _ _ => NoPF_ok _
  | null => exact NoPF_ok _
  | _ => exact NoPF_err

theorem decBoolMap_fold_NoPF : ∀ kvs : List (String × Json),
    NoPF (kvs.foldr (fun (kv : String × Json) acc => Res.bind acc fun l => match kv.2 with
        | .bool b => (.ok ((kv.1, b) :: l) : Res (List (String × Bool)))
        | .null => .ok ((kv.1, false) :: l)
        | _ => .err) (.ok []))
  | [] => NoPF_ok _
  | kv :: kvs => by
    simp only [List.foldr_cons]
    refine NoPF_bind (decBoolMap_fold_NoPF kvs) fun l _ => ?_
    obtain ⟨k, v⟩ := kv
    cases v <;> first | exact NoPF_ok _ | exact NoPF_err

theorem decBoolMap_NoPF (v : Json) : NoPF (decBoolMap v) := by
  cases v with
  | obj kvs => exact NoPF_bind (decBoolMap_fold_NoPF kvs) fun _ _ => NoPF_ok _
  | null => exact NoPF_ok _
  | _ => exact NoPF_err

theorem decStrListMap_fold_NoPF : ∀ kvs : List (String × Json),
    NoPF (kvs.foldr (fun (kv : String × Json) acc => Res.bind acc fun l =>
        Res.bind (decStrList kv.2) fun sl => (.ok ((kv.1, sl) :: l) : Res (List (String × Option (List String))))) (.ok []))
  | [] => NoPF_ok _
  | kv :: kvs => by
    simp only [List.foldr_cons]
    exact NoPF_bind (decStrListMap_fold_NoPF kvs) fun l _ => NoPF_bind (decStrList_NoPF _) fun _ _ => NoPF_ok _

theorem decStrListMap_NoPF (v : Json) : NoPF (decStrListMap v) := by
  cases v with
  | obj kvs => exact NoPF_bind (decStrListMap_fold_NoPF kvs) fun _ _ => NoPF_ok _
  | null => exact NoPF_ok _
  | _ => exact NoPF_err

theorem decSchemaPtr_NoPF {rec : URec} {m : Nat} (hrec : Small rec m) (v : Json) (st : Store) (hv : Json.size v ≤ m) :
    NoPF (decSchemaPtr rec v st) := by
  cases v <;> first
    | exact NoPF_ok _
    | exact NoPF_bind (hrec _ st hv) fun _ _ => NoPF_ok _

theorem decSchemaElems_NoPF {rec : URec} {m : Nat} (hrec : Small rec m) : ∀ (xs : List Json) (st : Store),
    (∀ x ∈ xs, Json.size x ≤ m) → NoPF (decSchemaElems rec xs st)
  | [], st, _ => NoPF_ok _
  | x :: rest, st, h => by
    have hr : ∀ st, NoPF (decSchemaElems rec rest st) :=
      fun st => decSchemaElems_NoPF hrec rest st fun y hy => h y (List.mem_cons_of_mem _ hy)
    have hx := h x List.mem_cons_self
    cases x <;> simp only [decSchemaElems] <;> first
      | exact NoPF_bind (hr st) fun _ _ => NoPF_ok _
      | exact NoPF_bind (hrec _ st hx) fun _ _ => NoPF_bind (hr _) fun _ _ => NoPF_ok _

theorem decSchemaList_NoPF {rec : URec} {m : Nat} (hrec : Small rec m) (v : Json) (st : Store) (hv : Json.size v ≤ m) :
    NoPF (decSchemaList rec v st) := by
  cases v with
  | arr xs =>
    refine NoPF_bind (decSchemaElems_NoPF hrec xs st fun x hx => ?_) fun _ _ => NoPF_ok _
    have := size_le_sizeList hx
    simp only [Json.size] at hv
    omega
  | null => exact NoPF_ok _
  | _ => exact NoPF_err

theorem decSchemaEntries_NoPF {rec : URec} {m : Nat} (hrec : Small rec m) : ∀ (kvs : List (String × Json)) (st : Store),
    (∀ k v, (k, v) ∈ kvs → Json.size v ≤ m) → NoPF (decSchemaEntries rec kvs st)
  | [], st, _ => NoPF_ok _
  | (k, x) :: rest, st, h => by
    have hr : ∀ st, NoPF (decSchemaEntries rec rest st) :=
      fun st => decSchemaEntries_NoPF hrec rest st fun k' y hy => h k' y (List.mem_cons_of_mem _ hy)
    have hx := h k x List.mem_cons_self
    cases x <;> simp only [decSchemaEntries] <;> first
      | exact NoPF_bind (hr st) fun _ _ => NoPF_ok _
      | exact NoPF_bind (hrec _ st hx) fun _ _ => NoPF_bind (hr _) fun _ _ => NoPF_ok _

theorem decSchemaMap_NoPF {rec : URec} {m : Nat} (hrec : Small rec m) (v : Json) (st : Store) (hv : Json.size v ≤ m) :
    NoPF (decSchemaMap rec v st) := by
  cases v with
  | obj kvs =>
    refine NoPF_bind (decSchemaEntries_NoPF hrec kvs st fun k x hx => ?_) fun _ _ => NoPF_ok _
    have := size_le_sizeObj hx
    simp only [Json.size] at hv
    omega
  | null => exact NoPF_ok _
  | _ => exact NoPF_err

theorem decDependencies_NoPF {rec : URec} {m : Nat} (hrec : Small rec m) : ∀ (kvs : List (String × Json)) (n : Node) (st : Store),
    (∀ k v, (k, v) ∈ kvs → Json.size v ≤ m) → NoPF (decDependencies rec kvs n st)
  | [], n, st, _ => NoPF_ok _
  | (k, x) :: rest, n, st, h => by
    have hr : ∀ n st, NoPF (decDependencies rec rest n st) :=
      fun n st => decDependencies_NoPF hrec rest n st fun k' y hy => h k' y (List.mem_cons_of_mem _ hy)
    have hx := h k x List.mem_cons_self
    cases x <;> simp only [decDependencies] <;> first
      | exact NoPF_bind (decStrList_NoPF _) fun _ _ => hr _ _
      | exact NoPF_bind (hrec _ st hx) fun _ _ => hr _ _

theorem setField_NoPF {rec : URec} {m : Nat} (hrec : Small rec m) (n : Node) (st : Store) (k : String) (v : Json)
    (hv : Json.size v ≤ m) : NoPF (setField rec n st k v) := by
  unfold setField
  split
  all_goals first
    | exact NoPF_ok _
    | exact NoPF_bind (decStr_NoPF _ _) fun _ _ => NoPF_ok _
    | exact NoPF_bind (decBool_NoPF _ _) fun _ _ => NoPF_ok _
    | exact NoPF_bind (decFloat_NoPF _) fun _ _ => NoPF_ok _
    | exact NoPF_bind (decInteger_NoPF _) fun _ _ => NoPF_ok _
    | exact NoPF_bind (decStrList_NoPF _) fun _ _ => NoPF_ok _
    | exact NoPF_bind (decAnyList_NoPF _) fun _ _ => NoPF_ok _
    | exact NoPF_bind (decBoolMap_NoPF _) fun _ _ => NoPF_ok _
    | exact NoPF_bind (decStrListMap_NoPF _) fun _ _ => NoPF_ok _
    | exact NoPF_bind (decSchemaPtr_NoPF hrec v st hv) fun _ _ => NoPF_ok _
    | exact NoPF_bind (decSchemaList_NoPF hrec v st hv) fun _ _ => NoPF_ok _
    | exact NoPF_bind (decSchemaMap_NoPF hrec v st hv) fun _ _ => NoPF_ok _
    | skip
  · -- "type"
    cases v <;> first
      | exact NoPF_ok _
      | exact NoPF_err
      | exact NoPF_bind (decStrList_NoPF _) fun _ _ => NoPF_ok _
  · -- "items"
    cases v with
    | arr xs =>
      refine NoPF_bind (decSchemaElems_NoPF hrec xs st fun x hx => ?_) fun _ _ => NoPF_ok _
      have := size_le_sizeList hx
      simp only [Json.size] at hv
      omega
    | _ => exact NoPF_bind (hrec _ st hv) fun _ _ => NoPF_ok _
  · -- "dependencies"
    cases v with
    | obj kvs =>
      refine decDependencies_NoPF hrec kvs n st fun k x hx => ?_
      have := size_le_sizeObj hx
      simp only [Json.size] at hv
      omega
    | null => exact NoPF_ok _
    | _ => exact NoPF_err

/-- a member matched case-insensitively is `setField` on the keyword it is routed to, then a pure update of `Extra` -/
theorem setMember_NoPF {rec : URec} {m : Nat} (hrec : Small rec m) (n : Node) (st : Store) (k : String) (v : Json)
    (hv : Json.size v ≤ m) : NoPF (setMember rec n st k v) := by
  unfold setMember
  split
  · exact setField_NoPF hrec n st k v hv
  · exact NoPF_bind (setField_NoPF hrec n st (canonKey k) v hv) fun _ _ => NoPF_ok _

theorem setFields_NoPF {rec : URec} {m : Nat} (hrec : Small rec m) : ∀ (kvs : List (String × Json)) (n : Node) (st : Store),
    (∀ k v, (k, v) ∈ kvs → Json.size v ≤ m) → NoPF (setFields rec kvs n st)
  | [], n, st, _ => NoPF_ok _
  | (k, v) :: rest, n, st, h => by
    rw [setFields]
    exact NoPF_bind (setMember_NoPF hrec n st k v (h k v List.mem_cons_self)) fun _ _ =>
      setFields_NoPF hrec rest _ _ fun k' y hy => h k' y (List.mem_cons_of_mem _ hy)

theorem unmarshalStep_NoPF {rec : URec} {m : Nat} (hrec : Small rec m) (j : Json) (st : Store) (hj : Json.size j ≤ m + 1) :
    NoPF (unmarshalStep rec j st) := by
  unfold unmarshalStep
  split
  · exact NoPF_ok _
  · exact NoPF_ok _
  · exact NoPF_ok _
  · next kvs =>
    refine NoPF_bind (setFields_NoPF hrec kvs _ st fun k v hm => ?_) fun _ _ => NoPF_ok _
    have := size_le_sizeObj hm
    simp only [Json.size] at hj
    omega
  · exact NoPF_err

theorem unmarshalFuel_NoPF : ∀ fuel, Small (unmarshalFuel fuel) fuel := by
  intro fuel
  induction fuel with
  | zero => intro j st h; have := size_pos j; omega
  | succ fuel ih => intro j st h; exact unmarshalStep_NoPF ih j st h

end C10
end JSV
