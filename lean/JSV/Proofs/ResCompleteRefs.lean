/-
  Helper lemmas for C03, the converse of soundness (third part): resolveRef / resolveRefs / resolver.resolve /
  Schema.Resolve return no error on a well-formed self-contained document all of whose references designate a
  subschema.
-/
import JSV.Proofs.ResCompleteUris
namespace JSV
namespace Go
namespace RComp
open RInv Uri Spec RDraft

theorem dereference_empty_ok (st : Store) (strict nie : Bool) (r : NodeId) (h : (st.get? r).isSome = true) :
    Pointer.dereference st strict nie r "" = .ok r := by
  unfold Pointer.dereference
  have hp : Pointer.parse "" = .ok [] := by decide
  rw [hp]
  simp only [Res.bind_ok, Pointer.walk]
  cases hr : st.get? r with
  | none => rw [hr] at h; simp at h
  | some n => simp

theorem baseUri_unique (D : Doc) (ret : Url) (huniq : UniqueLineage D) (s : NodeId) (u u' : Url)
    (h : D.BaseUri ret s u) (h' : D.BaseUri ret s u') : u = u' := by
  obtain ⟨l, hl, hu⟩ := h
  obtain ⟨l', hl', hu'⟩ := h'
  rw [← hu, ← hu', huniq l l' s hl hl']

/-- the info object of a resource root holds its base URI -/
theorem staticInv_root_uri (D : Doc) (ret : Url) (s : RState) (hinv : StaticInv D ret s) (r : NodeId) (u : Url)
    (hr : D.ResourceRoot r r) (hu : D.BaseUri ret r u) :
    ∃ i, lookupNat r s.infos = some i ∧ i.uri = some u := by
  obtain ⟨⟨i, r0, hi, hb, hr0, _⟩, r', ⟨i', hi', hb'⟩, ib, lb, hib, hlb, hub⟩ := hinv.done r (ResourceRoot.has hr)
  rw [hi] at hi'
  simp only [Option.some.injEq] at hi'
  subst hi'
  rw [hb] at hb'
  simp only [Option.some.injEq] at hb'
  subst hb'
  have e : r0 = r := resourceRoot_unique D hinv.uniq r r0 r hr0 hr
  subst e
  exact ⟨ib, hib, by rw [hub, baseUri_unique D ret hinv.uniq r0 _ _ ⟨lb, hlb, rfl⟩ hu]⟩

/-- the table of URIs finds the resource a URI identifies -/
theorem uris_lookup_of_identifies (D : Doc) (ret : Url) (s : RState) (hinv : StaticInv D ret s)
    (huids : D.UniqueIds ret) (hkeys : KeysIn D.Has D.root (Uri.toString ret) s) (d : DocRes)
    (hd : s.doc? D.root = some d) (k : String) (r : NodeId) (h : D.Identifies ret k r) :
    Json.lookup k d.uris = some r := by
  obtain ⟨d0, hd0, hk0, hall⟩ := hkeys
  rw [hd] at hd0
  simp only [Option.some.injEq] at hd0
  subst hd0
  have hsome : (Json.lookup k d.uris).isSome = true := by
    rcases h with ⟨_, hk⟩ | ⟨hr, u, hu, hk⟩
    · rw [hk]; exact hk0
    · obtain ⟨i, hi, hiu⟩ := staticInv_root_uri D ret s hinv r u hr hu
      rw [hk]
      exact hall r i u (ResourceRoot.has hr) hi hiu
  cases hl : Json.lookup k d.uris with
  | none => rw [hl] at hsome; simp at hsome
  | some r' =>
    have := hinv.uris d hd _ (lookup_mem _ _ _ hl)
    rw [huids k r' r this h]

/-! ### one reference -/

theorem resolveRef_ne_err (env : Env) (recDoc : ResolveDoc) (D : Doc) (hst : D.st = env.st) (ret : Url)
    (s : RState) (id : NodeId) (ref : String) (hinv : StaticInv D ret s) (huids : D.UniqueIds ret)
    (hkeys : KeysIn D.Has D.root (Uri.toString ret) s) (hid : D.Has id)
    (hstore : ∀ x, D.Has x → (D.st.get? x).isSome = true) (hdes : ∃ t, D.Designates ret id ref t) :
    resolveRef env recDoc D.root s id ref ≠ .err := by
  obtain ⟨t, bu', refURI, r, hBU', hparse, hident, hfrag⟩ := hdes
  unfold resolveRef
  rw [hparse]
  simp only [Res.bind_ok]
  split
  · simp
  rename_i info hinfo
  split
  · simp
  rename_i base hbase
  split
  · simp
  rename_i bInfo hbInfo
  split
  · rename_i bu d hbu hd
    have hBU := staticInv_baseUri D ret s hinv id hid info bInfo base bu (info?_lookup _ _ _ _ hinfo) hbase
      (info?_lookup _ _ _ _ hbInfo) hbu
    have e : bu = bu' := baseUri_unique D ret hinv.uniq id _ _ hBU hBU'
    subst e
    have hlk := uris_lookup_of_identifies D ret s hinv huids hkeys d hd _ r hident
    refine bind_ne_err (by rw [hlk]; simp) fun p hp => ?_
    rw [hlk] at hp
    simp only [Res.ok.injEq] at hp
    subst hp
    simp only []
    unfold Doc.FragTarget at hfrag
    split
    · rename_i hc
      simp only [Bool.and_eq_true, bne_iff_ne, ne_eq] at hc
      rw [if_neg hc.1, if_neg hc.2] at hfrag
      obtain ⟨htr, dyn, n, hn, hmem⟩ := hfrag
      split
      · simp
      · rename_i rInfo hri
        split
        · rename_i hnone
          exfalso
          obtain ⟨⟨i, r0, hi, hb, hr0, hreg⟩, _⟩ := hinv.done t (ResourceRoot.has htr)
          have e : r0 = r := resourceRoot_unique D hinv.uniq t r0 r hr0 htr
          subst e
          obtain ⟨ri, hri', hl⟩ := hreg n hn _ hmem
          rw [info?_lookup _ _ _ _ hri] at hri'
          simp only [Option.some.injEq] at hri'
          subst hri'
          rw [hnone] at hl
          simp at hl
        · simp
    · rename_i hc
      refine bind_ne_err ?_ fun _ _ => by simp
      by_cases hf : (Uri.resolveReference bu refURI).fragment = ""
      · rw [hf, dereference_empty_ok _ _ _ _ (by rw [← hst]; exact hstore r (identifies_has D ret _ _ hident))]
        simp
      · rw [if_neg hf] at hfrag
        have hh : (Uri.resolveReference bu refURI).fragment.toList.head? = some '/' := by
          simp only [Bool.and_eq_true, bne_iff_ne, ne_eq, not_and, Decidable.not_not] at hc
          exact hc hf
        rw [if_pos hh, hst] at hfrag
        rw [hfrag]
        simp
  · simp

/-! ### all references of the document -/

theorem resolveRefsLoop_ne_err (env : Env) (recDoc : ResolveDoc) (hrec : RecSpec env recDoc)
    (hl : env.loader = none) (D : Doc) (hst : D.st = env.st) (ret : Url) (huids : D.UniqueIds ret)
    (hstore : ∀ x, D.Has x → (D.st.get? x).isSome = true) :
    ∀ ids s, StaticInv D ret s → KeysIn D.Has D.root (Uri.toString ret) s → s.draftOf D.root = D.draft →
      (∀ id ∈ ids, D.Has id) →
      D.RefsDesignate ret ids → resolveRefsLoop env recDoc D.root ids s ≠ .err := by
  intro ids
  induction ids with
  | nil => intro s _ _ _ _ _; rw [resolveRefsLoop]; simp
  | cons id rest ih =>
    intro s hinv hkeys hdraft hids hdes
    have hid : D.Has id := hids id (by simp)
    rw [resolveRefsLoop]
    split
    · simp
    · rename_i n hn
      have hn' : D.st.get? id = some n := by rw [hst]; exact hn
      obtain ⟨d1, d2⟩ := hdes id (by simp) n hn'
      simp only []
      refine bind_ne_err ?_ fun s1 h1 => ?_
      · split
        · rename_i hne
          exact bind_ne_err (resolveRef_ne_err env recDoc D hst ret s id n.ref hinv huids hkeys hid hstore
            (d1 (by simpa using hne))) fun _ _ => by simp
        · simp
      have f1 : Frozen s s1 := by
        split at h1
        · rw [bind_eq_ok] at h1
          obtain ⟨⟨o, sa⟩, hr, h1⟩ := h1
          simp only [Res.ok.injEq] at h1
          subst h1
          obtain ⟨_, hfr, _⟩ := resolveRef_local env recDoc hrec D hst ret s id n.ref o sa hinv hid hr
            (resolveRef_noloader env recDoc hl _ _ _ _ _ _ hr)
          exact hfr.trans (frozen_updInfo _ _ _ (fun _ => rfl))
        · simp only [Res.ok.injEq] at h1
          subst h1
          exact Frozen.refl _
      have hinv1 := staticInv_frozen D ret f1 hinv
      have hkeys1 := keysIn_frozen f1 hkeys
      have hdraft1 : s1.draftOf D.root = D.draft := by rw [← hdraft]; exact draftOf_frozen f1 D.root
      refine bind_ne_err ?_ fun s2 h2 => ?_
      · split
        · rename_i hne
          rw [hdraft1] at hne
          simp only [Bool.and_eq_true, bne_iff_ne, ne_eq, beq_iff_eq] at hne
          exact bind_ne_err (resolveRef_ne_err env recDoc D hst ret s1 id n.dynamicRef hinv1 huids hkeys1 hid hstore
            (d2 hne.2 hne.1)) fun _ _ => by simp
        · simp
      have f2 : Frozen s1 s2 := by
        split at h2
        · rw [bind_eq_ok] at h2
          obtain ⟨⟨o, sb⟩, hr, h2⟩ := h2
          simp only [Res.ok.injEq] at h2
          subst h2
          obtain ⟨_, hfr, _⟩ := resolveRef_local env recDoc hrec D hst ret s1 id n.dynamicRef o sb hinv1 hid hr
            (resolveRef_noloader env recDoc hl _ _ _ _ _ _ hr)
          exact hfr.trans (frozen_updInfo _ _ _ (fun _ => rfl))
        · simp only [Res.ok.injEq] at h2
          subst h2
          exact Frozen.refl _
      exact ih s2 (staticInv_frozen D ret f2 hinv1) (keysIn_frozen f2 hkeys1)
        (by rw [← hdraft1]; exact draftOf_frozen f2 D.root)
        (fun x hx => hids x (List.mem_cons_of_mem _ hx))
        (fun x hx => hdes x (List.mem_cons_of_mem _ hx))


/-! ### resolver.resolve on the top document, Schema.Resolve -/

theorem docNodes_of_ok (st : Store) (root : NodeId) (fresh : List (NodeId × Info))
    (h : checkStructure st (st.size + 2) [(root, "")] [] = .ok fresh) : docNodes st root = fresh.map (·.1) := by
  unfold docNodes; rw [h]

theorem structureOk_ok (st : Store) (root : NodeId) (h : structureOk st root = true) :
    ∃ fresh, checkStructure st (st.size + 2) [(root, "")] [] = .ok fresh := by
  unfold structureOk at h
  cases hc : checkStructure st (st.size + 2) [(root, "")] [] with
  | ok fresh => exact ⟨fresh, rfl⟩
  | err => rw [hc] at h; simp [Res.isOk] at h
  | panic => rw [hc] at h; simp [Res.isOk] at h
  | fuel => rw [hc] at h; simp [Res.isOk] at h

/-- every schema of a checked document is in the store -/
theorem has_store (st : Store) (draft : Draft) (root : NodeId) (fresh : List (NodeId × Info))
    (h : checkStructure st (st.size + 2) [(root, "")] [] = .ok fresh) :
    ∀ x, (⟨st, draft, root⟩ : Doc).Has x → (st.get? x).isSome = true := by
  intro x ⟨l, hl⟩
  have T := checkStructure_tree st _ root fresh h
  have hx : x ∈ ids fresh := T.has_mem l x hl
  exact (C10.checkStructure_accOK st _ _ [] fresh h ⟨List.nodup_nil, fun _ h => nomatch h⟩).2 x hx

theorem resolveDocStep_ne_err (env : Env) (recDoc : ResolveDoc) (hrec : RecSpec env recDoc)
    (hl : env.loader = none) (root : NodeId) (baseURI : Url) (inherit : Draft) (rn : Node)
    (hrn : env.st.get? root = some rn) (hfrag : baseURI.fragment = "")
    (hstruct : structureOk env.st root = true) (hlocal : localOk env root = true)
    (hids : Doc.IdsOk ⟨env.st, docDraft env rn inherit, root⟩ baseURI)
    (huids : Doc.UniqueIds ⟨env.st, docDraft env rn inherit, root⟩ baseURI)
    (hdes : Doc.RefsDesignate ⟨env.st, docDraft env rn inherit, root⟩ baseURI
      (allNodes env.st (env.st.size + 2) [root])) :
    resolveDocStep env recDoc root baseURI inherit {} ≠ .err := by
  obtain ⟨fresh, hcs⟩ := structureOk_ok env.st root hstruct
  let D : Doc := ⟨env.st, docDraft env rn inherit, root⟩
  have huniq : UniqueLineage D := tree_uniqueLineage D _ (checkStructure_tree env.st _ root fresh hcs)
  unfold resolveDocStep
  split
  · rename_i hc
    rw [hfrag] at hc
    simp at hc
  split
  · rename_i hnone
    rw [hrn] at hnone
    simp at hnone
  rename_i rn' hrn'
  rw [hrn] at hrn'
  simp only [Option.some.injEq] at hrn'
  subst hrn'
  simp only []
  refine bind_ne_err (by rw [hcs]; simp) fun fresh' hfresh' => ?_
  rw [hcs] at hfresh'
  simp only [Res.ok.injEq] at hfresh'
  subst hfresh'
  split
  · rename_i hc
    exfalso
    unfold localOk at hlocal
    rw [docNodes_of_ok env.st root fresh hcs] at hlocal
    rw [List.all_eq_true] at hlocal
    simp only [Bool.not_eq_true', List.all_eq_false] at hc
    obtain ⟨x, hx, hxf⟩ := hc
    have := hlocal x hx
    cases hg : env.st.get? x with
    | none => rw [hg] at this; simp at this
    | some nd => rw [hg] at this hxf; exact hxf this
  have hrootmem := checkStructure_root_mem env.st _ root fresh hcs
  refine bind_ne_err ?_ fun sB hB => ?_
  · apply resolveURIs_ne_err env D rfl baseURI huniq hids
    obtain ⟨⟨r', info⟩, hm, he⟩ := List.mem_map.mp hrootmem
    simp only at he
    subst he
    have hsome : (lookupNat r' (({} : RState).infos ++ fresh)).isSome = true :=
      lookupNat_isSome_of_mem r' info _ (List.mem_append_right _ hm)
    show ∃ i, lookupNat r' (RState.updInfo _ r' _).infos = some i ∧ i.uri = some baseURI
    rw [updInfo_infos_lookup, if_pos rfl, setDoc_infos]
    cases h0 : lookupNat r' (({} : RState).infos ++ fresh) with
    | none => rw [h0] at hsome; simp at hsome
    | some i0 => exact ⟨_, rfl, rfl⟩
  · have hB' : resolveURIsLoop env D.draft root (env.st.size + 2) [(root, root)]
        (beforeURIs root baseURI D.draft fresh {}) = .ok sB := hB
    obtain ⟨hinv, ⟨dB, hdB, hdBdr⟩, _, _⟩ := staticInv_afterURIs env root baseURI D.draft fresh {} sB hcs hB'
      (sound_nil _) (fun e he => absurd he (by simp))
    have hdraftOf : (afterURIs root baseURI sB).draftOf D.root = D.draft := by
      show (match sB.doc? root with | some d => d.draft | none => Draft.d2020) = D.draft
      rw [hdB]; exact hdBdr
    have hkeysB : KeysIn D.Has root (Uri.toString baseURI) sB :=
      resolveURIsLoop_keysIn env D.draft root D.Has _ _ _ _ _ hB'
        (keysIn_beforeURIs env D.Has root baseURI D.draft fresh {} _ hcs (fun _ _ => rfl))
    have hkeys : KeysIn D.Has D.root (Uri.toString baseURI) (afterURIs root baseURI sB) := by
      obtain ⟨d, hd, h0, hall⟩ := hkeysB
      exact ⟨d, hd, h0, hall⟩
    show resolveRefsLoop env recDoc D.root _ (afterURIs root baseURI sB) ≠ .err
    exact resolveRefsLoop_ne_err env recDoc hrec hl D rfl baseURI huids
      (has_store env.st _ root fresh hcs) _ _ hinv hkeys hdraftOf
      (allNodes_has D _ _ (by
        intro w hw
        rw [List.mem_singleton.mp hw]
        exact ResourceRoot.has (resourceRoot_root D))) hdes

/-- Schema.Resolve returns no error on a well-formed self-contained document whose references all designate -/
theorem resolve_ne_err (env : Env) (hl : env.loader = none) (fuel : Nat) (root : NodeId) (base : String) (b : Url)
    (hb : retrievalOf base = .ok b) (hfrag : b.fragment = "")
    (hstruct : structureOk env.st root = true) (hlocal : localOk env root = true)
    (hids : (topDoc env root).IdsOk b) (huids : (topDoc env root).UniqueIds b)
    (hdes : (topDoc env root).RefsDesignate b (allNodes env.st (env.st.size + 2) [root])) :
    resolve env fuel root base ≠ .err := by
  unfold resolve
  simp only []
  have hb' : (if base == "" then Res.ok ({} : Url) else Uri.parse base) = .ok b := hb
  rw [hb']
  simp only [Res.bind_ok]
  refine bind_ne_err ?_ fun s _ => by split <;> simp
  cases fuel with
  | zero => rw [resolveDoc]; simp
  | succ fuel =>
    rw [resolveDoc]
    obtain ⟨fresh, hcs⟩ := structureOk_ok env.st root hstruct
    have hroot := has_store env.st .d2020 root fresh hcs root ⟨[], by simp [isLineage]⟩
    cases hrn : env.st.get? root with
    | none => rw [hrn] at hroot; simp at hroot
    | some rn =>
      have hdr : topDoc env root = ⟨env.st, docDraft env rn .d2020, root⟩ := by
        unfold topDoc; rw [topDraft_eq env root rn hrn]
      rw [hdr] at hids huids hdes
      exact resolveDocStep_ne_err env _ (resolveDoc_spec env fuel) hl root b .d2020 rn hrn hfrag hstruct hlocal
        hids huids hdes

theorem resolve_ne_panic_noloader (env : Env) (hl : env.loader = none) (fuel : Nat) (root : NodeId)
    (base : String) : resolve env fuel root base ≠ .panic := by
  apply RTot.resolve_ne_panic
  unfold RTot.docsDisjoint RTot.docRoots
  rw [hl]
  simp

/-- completeness, self-contained documents: the well-formed document whose references all designate a
    subschema is resolved, by every positive fuel -/
theorem resolve_ok_of_wf (env : Env) (hl : env.loader = none) (fuel : Nat) (hfuel : 1 ≤ fuel) (root : NodeId)
    (base : String) (b : Url) (hb : retrievalOf base = .ok b) (hfrag : b.fragment = "")
    (hstruct : structureOk env.st root = true) (hlocal : localOk env root = true)
    (hids : (topDoc env root).IdsOk b) (huids : (topDoc env root).UniqueIds b)
    (hdes : (topDoc env root).RefsDesignate b (allNodes env.st (env.st.size + 2) [root])) :
    ∃ rs, resolve env fuel root base = .ok rs := by
  have h1 := resolve_ne_err env hl fuel root base b hb hfrag hstruct hlocal hids huids hdes
  have h2 := resolve_ne_panic_noloader env hl fuel root base
  have h3 := RTot.resolve_ne_fuel env fuel root base (by rw [hl]; simpa using hfuel)
  cases hr : resolve env fuel root base with
  | ok rs => exact ⟨rs, rfl⟩
  | err => exact absurd hr h1
  | panic => exact absurd hr h2
  | fuel => exact absurd hr h3


/-! ### conversely: a successful Schema.Resolve was given a well-formed document -/

theorem resolveDocStep_wf (env : Env) (recDoc : ResolveDoc) (root : NodeId) (baseURI : Url) (inherit : Draft)
    (s s' : RState) (h : resolveDocStep env recDoc root baseURI inherit s = .ok s') :
    baseURI.fragment = "" ∧ structureOk env.st root = true ∧ localOk env root = true := by
  unfold resolveDocStep at h
  split at h
  · simp at h
  rename_i hfr
  split at h
  · simp at h
  simp only at h
  rw [bind_eq_ok] at h
  obtain ⟨fresh, hfresh, h⟩ := h
  split at h
  · simp at h
  rename_i hloc
  refine ⟨by simpa using hfr, by unfold structureOk; rw [hfresh]; rfl, ?_⟩
  unfold localOk
  rw [docNodes_of_ok env.st root fresh hfresh, List.all_eq_true]
  intro x hx
  simp only [Bool.not_eq_true', Bool.not_eq_false] at hloc
  rw [List.all_eq_true] at hloc
  have := hloc x hx
  cases hg : env.st.get? x with
  | none => rw [hg] at this; simp at this
  | some nd => rw [hg] at this; exact this

/-- whatever the Loader: after a successful Schema.Resolve the BaseURI option parsed and has no fragment,
    checkStructure and checkLocal accepted the document, and its `$id`s are well-formed -/
theorem resolve_wf_of_ok (env : Env) (fuel : Nat) (root : NodeId) (base : String) (rs : Resolved)
    (h : resolve env fuel root base = .ok rs) :
    ∃ b, retrievalOf base = .ok b ∧ b.fragment = "" ∧ structureOk env.st root = true ∧
      localOk env root = true ∧ (topDoc env root).IdsOk b := by
  obtain ⟨s, b, d, hb, hs, _, _, _, _, _⟩ := resolve_ok' env fuel root base rs h
  cases fuel with
  | zero => simp [resolveDoc] at hs
  | succ fuel =>
    have hs' : resolveDocStep env (resolveDoc env fuel) root b .d2020 {} = .ok s := hs
    obtain ⟨h1, h2, h3⟩ := resolveDocStep_wf env _ root b .d2020 {} s hs'
    obtain ⟨rn, fresh, sB, hrn, hfresh, hB, _⟩ := resolveDocStep_unfold env _ root b .d2020 {} s hs'
    refine ⟨b, hb, h1, h2, h3, ?_⟩
    have hdr : docDraft env rn .d2020 = topDraft env root := (topDraft_eq env root rn hrn).symm
    rw [hdr] at hB
    have huniq : UniqueLineage (topDoc env root) :=
      tree_uniqueLineage (topDoc env root) _ (checkStructure_tree env.st _ root fresh hfresh)
    have hrootmem := checkStructure_root_mem env.st _ root fresh hfresh
    refine resolveURIs_ids env (topDoc env root) rfl b huniq _ _ sB ?_ hB
    obtain ⟨⟨r', info⟩, hm, he⟩ := List.mem_map.mp hrootmem
    simp only at he
    have hsome : (lookupNat r' (({} : RState).infos ++ fresh)).isSome = true :=
      lookupNat_isSome_of_mem r' info _ (List.mem_append_right _ hm)
    show ∃ i, lookupNat root (RState.updInfo _ root _).infos = some i ∧ i.uri = some b
    rw [← he, updInfo_infos_lookup, if_pos rfl, setDoc_infos]
    cases h0 : lookupNat r' (({} : RState).infos ++ fresh) with
    | none => rw [h0] at hsome; simp at hsome
    | some i0 => exact ⟨_, rfl, rfl⟩

end RComp
end Go
end JSV
