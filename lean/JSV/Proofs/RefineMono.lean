/-
  Fuel monotonicity: every block of the evaluator is monotone in the recursive-call argument
  (for the information order `⊑` of `Res`), and so is every keyword of the Spec (for definedness).
-/
import JSV.Spec.Refine
namespace JSV
namespace Refine
open Go GoVal

/-! ## the evaluator -/

def RecLe (r r' : Go.Rec) : Prop := ∀ stack i s, r stack i s ⊑ r' stack i s

section
variable {r r' : Go.Rec} (h : RecLe r r')
include h

theorem tryValid_mono (stack : List NodeId) (inst : GoVal) (s : NodeId) (anns : Anns) (c : Bool) :
    tryValid r stack inst s anns c ⊑ tryValid r' stack inst s anns c := by
  unfold tryValid
  rcases h stack inst s with hf | he
  · rw [hf]; exact Res.fuel_le _
  · rw [he]; exact Res.le_refl _

theorem mustValid_mono (stack : List NodeId) (inst : GoVal) (s : NodeId) (anns : Anns) :
    mustValid r stack inst s anns ⊑ mustValid r' stack inst s anns :=
  Res.bind_mono (h stack inst s) (fun _ => Res.le_refl _)

theorem mustValidChild_mono (stack : List NodeId) (inst : GoVal) (s : NodeId) :
    mustValidChild r stack inst s ⊑ mustValidChild r' stack inst s :=
  Res.bind_mono (h stack inst s) (fun _ => Res.le_refl _)

theorem bRef_mono (env : VEnv) (stack : List NodeId) (n : Node) (info : Option Info) (inst : GoVal) :
    bRef env r stack n info inst ⊑ bRef env r' stack n info inst := by
  unfold bRef
  split
  · cases info with
    | none => exact Res.le_refl _
    | some i =>
      simp only
      cases i.resolvedRef with
      | none => exact Res.le_refl _
      | some t => exact Res.bind_mono (mustValid_mono h stack inst t {}) (fun _ => Res.le_refl _)
  · exact Res.le_refl _

theorem bDynamicRef_mono (env : VEnv) (stack : List NodeId) (n : Node) (info : Option Info) (inst : GoVal)
    (anns : Anns) : bDynamicRef env r stack n info inst anns ⊑ bDynamicRef env r' stack n info inst anns := by
  unfold bDynamicRef
  split
  · cases info with
    | none => exact Res.le_refl _
    | some i =>
      simp only
      cases i.resolvedDynamicRef with
      | none => exact Res.le_refl _
      | some t =>
        simp only
        split
        · exact mustValid_mono h stack inst t anns
        · exact Res.bind_mono (Res.le_refl _) (fun found => mustValid_mono h stack inst _ anns)
  · exact Res.le_refl _

theorem allOfLoop_mono (stack : List NodeId) (inst : GoVal) : ∀ (ss : List NodeId) (anns : Anns),
    allOfLoop r stack inst ss anns ⊑ allOfLoop r' stack inst ss anns
  | [], _ => Res.le_refl _
  | s :: ss, anns => by
    simp only [allOfLoop]
    exact Res.bind_mono (mustValid_mono h stack inst s anns) (fun a => allOfLoop_mono stack inst ss a)

theorem bAllOf_mono (stack : List NodeId) (n : Node) (inst : GoVal) (anns : Anns) :
    bAllOf r stack n inst anns ⊑ bAllOf r' stack n inst anns := by
  unfold bAllOf
  cases n.allOf with
  | none => exact Res.le_refl _
  | some ss => exact allOfLoop_mono h stack inst ss anns

theorem anyOfLoop_mono (stack : List NodeId) (inst : GoVal) : ∀ (ss : List NodeId) (anns : Anns) (nerr : Nat),
    anyOfLoop r stack inst ss anns nerr ⊑ anyOfLoop r' stack inst ss anns nerr
  | [], _, _ => Res.le_refl _
  | s :: ss, anns, nerr => by
    simp only [anyOfLoop]
    exact Res.bind_mono (tryValid_mono h stack inst s anns true)
      (fun p => anyOfLoop_mono stack inst ss p.2 _)

theorem bAnyOf_mono (stack : List NodeId) (n : Node) (inst : GoVal) (anns : Anns) :
    bAnyOf r stack n inst anns ⊑ bAnyOf r' stack n inst anns := by
  unfold bAnyOf
  cases n.anyOf with
  | none => exact Res.le_refl _
  | some ss => exact Res.bind_mono (anyOfLoop_mono h stack inst ss anns 0) (fun _ => Res.le_refl _)

theorem oneOfLoop_mono (stack : List NodeId) (inst : GoVal) : ∀ (ss : List NodeId) (anns : Anns) (found : Bool),
    oneOfLoop r stack inst ss anns found ⊑ oneOfLoop r' stack inst ss anns found
  | [], _, _ => Res.le_refl _
  | s :: ss, anns, found => by
    simp only [oneOfLoop]
    refine Res.bind_mono (tryValid_mono h stack inst s anns true) (fun p => ?_)
    obtain ⟨ok, a⟩ := p
    simp only
    split
    · split
      · exact Res.le_refl _
      · exact oneOfLoop_mono stack inst ss a true
    · exact oneOfLoop_mono stack inst ss a found

theorem bOneOf_mono (stack : List NodeId) (n : Node) (inst : GoVal) (anns : Anns) :
    bOneOf r stack n inst anns ⊑ bOneOf r' stack n inst anns := by
  unfold bOneOf
  cases n.oneOf with
  | none => exact Res.le_refl _
  | some ss => exact Res.bind_mono (oneOfLoop_mono h stack inst ss anns false) (fun _ => Res.le_refl _)

theorem bNot_mono (stack : List NodeId) (n : Node) (inst : GoVal) (anns : Anns) :
    bNot r stack n inst anns ⊑ bNot r' stack n inst anns := by
  unfold bNot
  cases n.not with
  | none => exact Res.le_refl _
  | some s => exact Res.bind_mono (tryValid_mono h stack inst s anns false) (fun _ => Res.le_refl _)

theorem bIf_mono (stack : List NodeId) (n : Node) (inst : GoVal) (anns : Anns) :
    bIf r stack n inst anns ⊑ bIf r' stack n inst anns := by
  unfold bIf
  cases n.if_ with
  | none => exact Res.le_refl _
  | some c =>
    refine Res.bind_mono (tryValid_mono h stack inst c anns true) (fun p => ?_)
    obtain ⟨ok, a⟩ := p
    simp only
    cases (if ok = true then n.then_ else n.else_) with
    | none => exact Res.le_refl _
    | some s => exact mustValid_mono h stack inst s a

/-! arrays -/

theorem prefixLoop_mono (stack : List NodeId) : ∀ (ss : List NodeId) (xs : List GoVal),
    prefixLoop r stack ss xs ⊑ prefixLoop r' stack ss xs
  | [], _ => by simp only [prefixLoop]; exact Res.le_refl _
  | _ :: _, [] => by simp only [prefixLoop]; exact Res.le_refl _
  | s :: ss, x :: xs => by
    simp only [prefixLoop]
    exact Res.bind_mono (mustValidChild_mono h stack x s) (fun _ => prefixLoop_mono stack ss xs)

theorem eachItem_mono (stack : List NodeId) (s : NodeId) : ∀ (xs : List GoVal),
    eachItem r stack s xs ⊑ eachItem r' stack s xs
  | [] => Res.le_refl _
  | x :: xs => by
    simp only [eachItem]
    exact Res.bind_mono (mustValidChild_mono h stack x s) (fun _ => eachItem_mono stack s xs)

theorem containsLoop_mono (stack : List NodeId) (s : NodeId) : ∀ (xs : List GoVal) (i : Nat) (anns : Anns) (cnt : Nat),
    containsLoop r stack s xs i anns cnt ⊑ containsLoop r' stack s xs i anns cnt
  | [], _, _, _ => Res.le_refl _
  | x :: xs, i, anns, cnt => by
    simp only [containsLoop]
    rcases h stack x s with hf | he
    · rw [hf]; exact Res.fuel_le _
    · rw [he]
      cases r' stack x s with
      | fuel => exact Res.le_refl _
      | panic => exact Res.le_refl _
      | err => exact containsLoop_mono stack s xs _ _ _
      | ok a => exact containsLoop_mono stack s xs _ _ _

theorem unevalItemsLoop_mono (stack : List NodeId) (s : NodeId) (anns : Anns) : ∀ (xs : List GoVal) (i : Nat),
    unevalItemsLoop r stack s anns xs i ⊑ unevalItemsLoop r' stack s anns xs i
  | [], _ => Res.le_refl _
  | x :: xs, i => by
    simp only [unevalItemsLoop]
    split
    · exact unevalItemsLoop_mono stack s anns xs (i + 1)
    · exact Res.bind_mono (mustValidChild_mono h stack x s) (fun _ => unevalItemsLoop_mono stack s anns xs (i + 1))

theorem bItems_mono (env : VEnv) (stack : List NodeId) (n : Node) (xs : List GoVal) (anns : Anns) :
    bItems env r stack n xs anns ⊑ bItems env r' stack n xs anns := by
  unfold bItems
  cases env.draft with
  | d7 =>
    simp only
    cases n.itemsArray with
    | some ia =>
      simp only
      refine Res.bind_mono (prefixLoop_mono h stack ia xs) (fun _ => ?_)
      cases n.additionalItems with
      | some ai => exact Res.bind_mono (eachItem_mono h stack ai _) (fun _ => Res.le_refl _)
      | none => exact Res.le_refl _
    | none =>
      simp only
      cases n.items with
      | some it => exact Res.bind_mono (eachItem_mono h stack it _) (fun _ => Res.le_refl _)
      | none => exact Res.le_refl _
  | d2020 =>
    simp only
    refine Res.bind_mono (prefixLoop_mono h stack _ xs) (fun _ => ?_)
    cases n.items with
    | some it => exact Res.bind_mono (eachItem_mono h stack it _) (fun _ => Res.le_refl _)
    | none => exact Res.le_refl _

theorem bContains_mono (d : Draft) (stack : List NodeId) (n : Node) (xs : List GoVal) (anns : Anns) :
    bContains d r stack n xs anns ⊑ bContains d r' stack n xs anns := by
  unfold bContains
  cases n.contains with
  | none => exact Res.le_refl _
  | some c => exact Res.bind_mono (containsLoop_mono h stack c xs 0 anns 0) (fun _ => Res.le_refl _)

theorem bUnevaluatedItems_mono (d : Draft) (stack : List NodeId) (n : Node) (xs : List GoVal) (anns : Anns) :
    bUnevaluatedItems d r stack n xs anns ⊑ bUnevaluatedItems d r' stack n xs anns := by
  unfold bUnevaluatedItems
  split
  case isFalse => exact Res.le_refl _
  cases n.unevaluatedItems with
  | none => exact Res.le_refl _
  | some u =>
    simp only
    split
    · exact Res.le_refl _
    · exact Res.bind_mono (unevalItemsLoop_mono h stack u anns xs 0) (fun _ => Res.le_refl _)

theorem bArray_mono (env : VEnv) (stack : List NodeId) (n : Node) (inst : GoVal) (anns : Anns) :
    bArray env r stack n inst anns ⊑ bArray env r' stack n inst anns := by
  unfold bArray
  split
  · exact Res.bind_mono (bItems_mono h env stack n _ anns) fun a =>
      Res.bind_mono (bContains_mono h env.draft stack n _ a) fun p =>
      Res.bind_mono (Res.le_refl _) fun _ =>
      Res.bind_mono (Res.le_refl _) fun _ => bUnevaluatedItems_mono h env.draft stack n _ p.1
  · exact Res.le_refl _

/-! objects -/

theorem propertiesLoop_mono (stack : List NodeId) (kvs : List (String × GoVal)) :
    ∀ (ps : List (String × NodeId)) (ev : List String),
    propertiesLoop r stack kvs ps ev ⊑ propertiesLoop r' stack kvs ps ev
  | [], _ => Res.le_refl _
  | (prop, sub) :: rest, ev => by
    simp only [propertiesLoop]
    cases Json.lookup prop kvs with
    | none => exact propertiesLoop_mono stack kvs rest ev
    | some val =>
      exact Res.bind_mono (mustValidChild_mono h stack val sub) (fun _ => propertiesLoop_mono stack kvs rest _)

theorem patternsLoop_mono (env : VEnv) (stack : List NodeId) (prop : String) (val : GoVal) :
    ∀ (ps : List (String × NodeId)) (hit : Bool),
    patternsLoop env r stack prop val ps hit ⊑ patternsLoop env r' stack prop val ps hit
  | [], _ => Res.le_refl _
  | (re, sub) :: rest, hit => by
    simp only [patternsLoop]
    split
    · exact Res.bind_mono (mustValidChild_mono h stack val sub) (fun _ => patternsLoop_mono env stack prop val rest true)
    · exact patternsLoop_mono env stack prop val rest hit

theorem patternPropsLoop_mono (env : VEnv) (stack : List NodeId) (pats : List (String × NodeId)) :
    ∀ (kvs : List (String × GoVal)) (ev : List String),
    patternPropsLoop env r stack pats kvs ev ⊑ patternPropsLoop env r' stack pats kvs ev
  | [], _ => Res.le_refl _
  | (prop, val) :: rest, ev => by
    simp only [patternPropsLoop]
    exact Res.bind_mono (patternsLoop_mono h env stack prop val pats false)
      (fun _ => patternPropsLoop_mono env stack pats rest _)

theorem additionalLoop_mono (stack : List NodeId) (ap : NodeId) :
    ∀ (kvs : List (String × GoVal)) (ev : List String),
    additionalLoop r stack ap kvs ev ⊑ additionalLoop r' stack ap kvs ev
  | [], _ => Res.le_refl _
  | (prop, val) :: rest, ev => by
    simp only [additionalLoop]
    split
    · exact additionalLoop_mono stack ap rest ev
    · exact Res.bind_mono (mustValidChild_mono h stack val ap) (fun _ => additionalLoop_mono stack ap rest _)

theorem propertyNamesLoop_mono (stack : List NodeId) (pn : NodeId) : ∀ (kvs : List (String × GoVal)),
    propertyNamesLoop r stack pn kvs ⊑ propertyNamesLoop r' stack pn kvs
  | [] => Res.le_refl _
  | (prop, _) :: rest => by
    simp only [propertyNamesLoop]
    exact Res.bind_mono (mustValidChild_mono h stack _ pn) (fun _ => propertyNamesLoop_mono stack pn rest)

theorem depSchemasLoop_mono (stack : List NodeId) (inst : GoVal) (kvs : List (String × GoVal)) :
    ∀ (ds : List (String × NodeId)) (anns : Anns),
    depSchemasLoop r stack inst kvs ds anns ⊑ depSchemasLoop r' stack inst kvs ds anns
  | [], _ => Res.le_refl _
  | (dprop, ds) :: rest, anns => by
    simp only [depSchemasLoop]
    split
    · exact Res.bind_mono (mustValid_mono h stack inst ds anns) (fun a => depSchemasLoop_mono stack inst kvs rest a)
    · exact depSchemasLoop_mono stack inst kvs rest anns

theorem unevalPropsLoop_mono (stack : List NodeId) (u : NodeId) (anns : Anns) : ∀ (kvs : List (String × GoVal)),
    unevalPropsLoop r stack u anns kvs ⊑ unevalPropsLoop r' stack u anns kvs
  | [] => Res.le_refl _
  | (prop, val) :: rest => by
    simp only [unevalPropsLoop]
    split
    · exact unevalPropsLoop_mono stack u anns rest
    · exact Res.bind_mono (mustValidChild_mono h stack val u) (fun _ => unevalPropsLoop_mono stack u anns rest)

theorem bProps_mono (env : VEnv) (stack : List NodeId) (n : Node) (info : Option Info) (kvs : List (String × GoVal)) :
    bProps env r stack n info kvs ⊑ bProps env r' stack n info kvs := by
  unfold bProps
  refine Res.bind_mono (propertiesLoop_mono h stack kvs _ []) (fun ev => ?_)
  refine Res.bind_mono ?_ (fun ev2 => ?_)
  · split
    · cases info with
      | none => exact Res.le_refl _
      | some _ => exact patternPropsLoop_mono h env stack _ kvs ev
    · exact Res.le_refl _
  · cases n.additionalProperties with
    | some ap => exact additionalLoop_mono h stack ap kvs ev2
    | none => exact Res.le_refl _

theorem bDependencies_mono (env : VEnv) (stack : List NodeId) (n : Node) (inst : GoVal)
    (kvs : List (String × GoVal)) (anns : Anns) :
    bDependencies env r stack n inst kvs anns ⊑ bDependencies env r' stack n inst kvs anns := by
  unfold bDependencies
  cases env.draft with
  | d7 => exact Res.bind_mono (Res.le_refl _) (fun _ => depSchemasLoop_mono h stack inst kvs _ anns)
  | d2020 => exact Res.bind_mono (Res.le_refl _) (fun _ => depSchemasLoop_mono h stack inst kvs _ anns)

theorem bUnevaluatedProps_mono (d : Draft) (stack : List NodeId) (n : Node) (kvs : List (String × GoVal))
    (anns : Anns) : bUnevaluatedProps d r stack n kvs anns ⊑ bUnevaluatedProps d r' stack n kvs anns := by
  unfold bUnevaluatedProps
  split
  case isFalse => exact Res.le_refl _
  cases n.unevaluatedProperties with
  | none => exact Res.le_refl _
  | some u =>
    simp only
    split
    · exact Res.le_refl _
    · exact Res.bind_mono (unevalPropsLoop_mono h stack u anns kvs) (fun _ => Res.le_refl _)

theorem bObject_mono (env : VEnv) (stack : List NodeId) (n : Node) (info : Option Info) (inst : GoVal) (anns : Anns) :
    bObject env r stack n info inst anns ⊑ bObject env r' stack n info inst anns := by
  unfold bObject
  split
  · exact Res.le_refl _
  · exact Res.le_refl _
  · refine Res.bind_mono (bProps_mono h env stack n info _) fun ev =>
      Res.bind_mono ?_ fun _ =>
      Res.bind_mono (Res.le_refl _) fun _ =>
      Res.bind_mono (bDependencies_mono h env stack n _ _ _) fun a => bUnevaluatedProps_mono h env.draft stack n _ a
    cases n.propertyNames with
    | some pn => exact propertyNamesLoop_mono h stack pn _
    | none => exact Res.le_refl _
  · exact Res.le_refl _

theorem validateStep_mono (env : VEnv) : RecLe (validateStep env r) (validateStep env r') := by
  intro stack0 inst0 sid
  unfold validateStep
  cases env.st.get? sid with
  | none => exact Res.le_refl _
  | some n =>
    simp only
    split
    · exact Res.le_refl _
    · refine Res.bind_mono (bRef_mono h env _ n _ _) (fun p => ?_)
      obtain ⟨anns, done⟩ := p
      simp only
      split
      · exact Res.le_refl _
      · exact Res.bind_mono (Res.le_refl _) fun _ =>
          Res.bind_mono (Res.le_refl _) fun _ =>
          Res.bind_mono (Res.le_refl _) fun _ =>
          Res.bind_mono (Res.le_refl _) fun _ =>
          Res.bind_mono (Res.le_refl _) fun _ =>
          Res.bind_mono (bDynamicRef_mono h env _ n _ _ anns) fun a =>
          Res.bind_mono (bAllOf_mono h _ n _ a) fun a =>
          Res.bind_mono (bAnyOf_mono h _ n _ a) fun a =>
          Res.bind_mono (bOneOf_mono h _ n _ a) fun a =>
          Res.bind_mono (bNot_mono h _ n _ a) fun a =>
          Res.bind_mono (bIf_mono h _ n _ a) fun a =>
          Res.bind_mono (bArray_mono h env _ n _ a) fun a => bObject_mono h env _ n _ _ a

end

theorem validateFuel_mono (env : VEnv) : ∀ n, RecLe (validateFuel env n) (validateFuel env (n + 1))
  | 0 => fun _ _ _ => Res.fuel_le _
  | n + 1 => validateStep_mono (validateFuel_mono env n) env

end Refine
end JSV
