/-
  Resolve commutes with a RENAMING of schema node ids (part 1: the relations, the pointer walk, Schema.all,
  checkStructure, the state updates).

  `ResPerm2.lean` keeps the ids FIXED and lets the maps be listed in another order.  Here the ids MOVE: two
  environments — two stores, or two trees in one store — whose schema objects correspond along a relation `R` on ids
  (`EnvRel`: `R` is one-to-one where it is defined, related ids hold schema objects that look alike to the resolver,
  `RNode`, and the Loader hands out related documents).  The simulation is DIRECTIONAL (`DirRel`): whenever the left run
  returns normally so does the right run, with related results — the node relation tolerates normal forms that only
  remove reasons to fail (an empty `$defs` read back as nil beside `definitions`; until /repo c50c33e also an empty
  `$vocabulary`, which MarshalJSON now writes), so failures are not compared; a symmetric situation
  (a tree and its clone) gets both directions by using the lemma twice.
  Inner fuels (`env.st.size + 2`) differ when the two stores differ in size: every loop lemma takes two fuels, and asks
  that the right run does not run out of fuel (which `ResNoFuel.lean` provides).
-/
import JSV.Proofs.ResPerm2
import JSV.Proofs.ResNoFuel
import JSV.Proofs.MshNode
namespace JSV
namespace Go
namespace RIso
open RInv

/-! ### if the left run returns normally, so does the right run -/

def DirRel {α β : Type} (Q : α → β → Prop) (x : Res α) (y : Res β) : Prop :=
  ∀ a, x = .ok a → ∃ b, y = .ok b ∧ Q a b

theorem DirRel.bind {α β γ δ : Type} {Q : α → β → Prop} {P : γ → δ → Prop} {x : Res α} {y : Res β}
    {f : α → Res γ} {g : β → Res δ} (h : DirRel Q x y) (hf : ∀ a b, Q a b → DirRel P (f a) (g b)) :
    DirRel P (x.bind f) (y.bind g) := by
  intro c hc
  obtain ⟨a, ha, hfa⟩ := bind_eq_ok.mp hc
  obtain ⟨b, hb, hq⟩ := h a ha
  obtain ⟨d, hd, hp⟩ := hf a b hq c hfa
  exact ⟨d, by rw [hb, Res.bind_ok]; exact hd, hp⟩

theorem DirRel.ok {α β : Type} {Q : α → β → Prop} {a : α} {b : β} (h : Q a b) : DirRel Q (.ok a) (.ok b) := by
  intro a' ha
  cases ha
  exact ⟨b, rfl, h⟩

theorem DirRel.of_not_ok {α β : Type} {Q : α → β → Prop} {x : Res α} {y : Res β} (h : ∀ a, x ≠ .ok a) :
    DirRel Q x y := fun a ha => absurd ha (h a)

theorem DirRel.err {α β : Type} {Q : α → β → Prop} {y : Res β} : DirRel Q (.err : Res α) y :=
  fun _ h => nomatch h
theorem DirRel.panic {α β : Type} {Q : α → β → Prop} {y : Res β} : DirRel Q (.panic : Res α) y :=
  fun _ h => nomatch h
theorem DirRel.fuel {α β : Type} {Q : α → β → Prop} {y : Res β} : DirRel Q (.fuel : Res α) y :=
  fun _ h => nomatch h

theorem DirRel.refl_eq {α : Type} (x : Res α) : DirRel (· = ·) x x := fun a h => ⟨a, h, rfl⟩

theorem DirRel.mono {α β : Type} {Q P : α → β → Prop} {x : Res α} {y : Res β} (h : DirRel Q x y)
    (hqp : ∀ a b, Q a b → P a b) : DirRel P x y := by
  intro a ha
  obtain ⟨b, hb, hq⟩ := h a ha
  exact ⟨b, hb, hqp a b hq⟩

/-! ### lifted relations -/

/-- equal keys, related values -/
def KRel {α β : Type} (Q : α → β → Prop) (e₁ : String × α) (e₂ : String × β) : Prop := e₁.1 = e₂.1 ∧ Q e₁.2 e₂.2

theorem lookup_krel {α β : Type} {Q : α → β → Prop} (k : String) : ∀ {l₁ : List (String × α)} {l₂ : List (String × β)},
    ListRel (KRel Q) l₁ l₂ → OptRel Q (Json.lookup k l₁) (Json.lookup k l₂)
  | _, _, .nil => trivial
  | _, _, .cons (a := (k1, x)) (b := (k2, y)) h1 h2 => by
    have hk : k1 = k2 := h1.1
    subst hk
    simp only [Json.lookup_cons]
    split
    · exact h1.2
    · exact lookup_krel k h2

theorem listRel_append {α β} {S : α → β → Prop} : ∀ {l₁ l₂ m₁ m₂}, ListRel S l₁ l₂ → ListRel S m₁ m₂ →
    ListRel S (l₁ ++ m₁) (l₂ ++ m₂)
  | _, _, _, _, .nil, h => h
  | _, _, _, _, .cons h1 h2, h => .cons h1 (listRel_append h2 h)

theorem listRel_getElem? {α β} {S : α → β → Prop} : ∀ {l₁ : List α} {l₂ : List β}, ListRel S l₁ l₂ → ∀ i : Nat,
    OptRel S l₁[i]? l₂[i]?
  | _, _, .nil, _ => trivial
  | _, _, .cons h1 _, 0 => h1
  | _, _, .cons _ h2, i + 1 => by
    simp only [List.getElem?_cons_succ]
    exact listRel_getElem? h2 i

theorem listRel_map {α β γ δ} {S : α → β → Prop} {T : γ → δ → Prop} {f : α → γ} {g : β → δ}
    (hfg : ∀ a b, S a b → T (f a) (g b)) : ∀ {l₁ l₂}, ListRel S l₁ l₂ → ListRel T (l₁.map f) (l₂.map g)
  | _, _, .nil => .nil
  | _, _, .cons h1 h2 => .cons (hfg _ _ h1) (listRel_map hfg h2)

theorem listRel_filter {α β} {S : α → β → Prop} {p : α → Bool} {q : β → Bool} (hpq : ∀ a b, S a b → p a = q b) :
    ∀ {l₁ l₂}, ListRel S l₁ l₂ → ListRel S (l₁.filter p) (l₂.filter q)
  | _, _, .nil => .nil
  | _, _, .cons (a := a) (b := b) h1 h2 => by
    simp only [List.filter_cons, hpq a b h1]
    split
    · exact .cons h1 (listRel_filter hpq h2)
    · exact listRel_filter hpq h2

/-- `R` is one-to-one where it is defined -/
def BiU (R : NodeId → NodeId → Prop) : Prop := ∀ a b a' b', R a b → R a' b' → (a = a' ↔ b = b')

/-! ### what the resolver reads of one schema object -/

/-- an entry of checkStructure's worklist / table: related ids, the same path (the same record) -/
def EntRel {α : Type} (R : NodeId → NodeId → Prop) (e₁ e₂ : NodeId × α) : Prop := R e₁.1 e₂.1 ∧ e₁.2 = e₂.2

/-- what the pointer walk stands on: related schemas — or a nil pointer on both sides —, lists related member by member,
    maps related lookup by lookup -/
def CurRel (R : NodeId → NodeId → Prop) (st₁ st₂ : Store) : Pointer.Cursor → Pointer.Cursor → Prop
  | .node a, .node b => R a b ∨ (st₁.get? a = none ∧ st₂.get? b = none)
  | .nodes a, .nodes b => ListRel R a b
  | .nodeMap a, .nodeMap b => ∀ k, OptRel R (Json.lookup k a) (Json.lookup k b)
  | .dead, .dead => True
  | _, _ => False

/-- `n₂` is `n₁` up to the renaming `R`, as far as Resolve can tell: the same `$id`, `$schema`, `$ref`, `$anchor`,
    `$dynamicAnchor`, `$dynamicRef`; checkLocal passes on the right if it does on the left; the children (Schema.all,
    resolveURIs: maps by sorted key) and what checkStructure pushes (maps in iteration order, with the paths) are related
    member by member; and the JSON-pointer walk finds related things under every keyword. -/
structure RNode (R : NodeId → NodeId → Prop) (env₁ env₂ : Env) (n₁ n₂ : Node) : Prop where
  id : n₁.id = n₂.id
  schema : n₁.schema = n₂.schema
  ref : n₁.ref = n₂.ref
  anchor : n₁.anchor = n₂.anchor
  dynamicAnchor : n₁.dynamicAnchor = n₂.dynamicAnchor
  dynamicRef : n₁.dynamicRef = n₂.dynamicRef
  localOk : checkLocalOk env₁ n₁ = true → checkLocalOk env₂ n₂ = true
  children : ListRel R n₁.children n₂.children
  entries : ∀ path, ListRel (EntRel R) (childEntries n₁ path) (childEntries n₂ path)
  field : ∀ name, OptRel (CurRel R env₁.st env₂.st) (Pointer.lookupField n₁ name) (Pointer.lookupField n₂ name)

/-- **the simulation between two resolver environments along `R`** -/
structure EnvRel (R : NodeId → NodeId → Prop) (env₁ env₂ : Env) : Prop where
  biu : BiU R
  node : ∀ a b, R a b → OptRel (RNode R env₁ env₂) (env₁.st.get? a) (env₂.st.get? b)
  /-- a document the left Loader hands out is handed out, for the same URI, by the right Loader, as a related root -/
  loader : ∀ t₁, env₁.loader = some t₁ → ∃ t₂, env₂.loader = some t₂ ∧
    ∀ key l₁, Json.lookup key t₁ = some (.doc l₁) → ∃ l₂, Json.lookup key t₂ = some (.doc l₂) ∧ R l₁ l₂
  draft7 : env₁.draft7URIs = env₂.draft7URIs

/-! ### the pointer walk -/

section
variable {R : NodeId → NodeId → Prop} {env₁ env₂ : Env} (hE : EnvRel R env₁ env₂)
include hE

theorem step_rel (strict : Bool) {c₁ c₂ : Pointer.Cursor} (hc : CurRel R env₁.st env₂.st c₁ c₂) (seg : String) :
    DirRel (CurRel R env₁.st env₂.st) (Pointer.step env₁.st strict c₁ seg) (Pointer.step env₂.st strict c₂ seg) := by
  cases c₁ with
  | node a =>
    cases c₂ with
    | node b =>
      unfold Pointer.step
      dsimp only
      rcases hc with hr | ⟨h1, _⟩
      · have hn := hE.node a b hr
        cases h1 : env₁.st.get? a with
        | none => exact DirRel.err
        | some n₁ =>
          cases h2 : env₂.st.get? b with
          | none => rw [h1, h2] at hn; exact hn.elim
          | some n₂ =>
            rw [h1, h2] at hn
            dsimp only
            have hf := hn.field seg
            cases e1 : Pointer.lookupField n₁ seg with
            | none => exact DirRel.err
            | some x =>
              cases e2 : Pointer.lookupField n₂ seg with
              | none => rw [e1, e2] at hf; exact hf.elim
              | some y => rw [e1, e2] at hf; exact DirRel.ok hf
      · rw [h1]; exact DirRel.err
    | nodes _ => exact hc.elim
    | nodeMap _ => exact hc.elim
    | dead => exact hc.elim
  | nodes xs =>
    cases c₂ with
    | nodes ys =>
      have hl : ListRel R xs ys := hc
      unfold Pointer.step
      dsimp only
      rw [← hl.length_eq]
      cases Pointer.arrayIndex strict seg xs.length with
      | none => exact DirRel.err
      | some i =>
        dsimp only
        have hi := listRel_getElem? hl i
        cases e1 : xs[i]? with
        | none => exact DirRel.err
        | some x =>
          cases e2 : ys[i]? with
          | none => rw [e1, e2] at hi; exact hi.elim
          | some y => rw [e1, e2] at hi; exact DirRel.ok (Or.inl hi)
    | node _ => exact hc.elim
    | nodeMap _ => exact hc.elim
    | dead => exact hc.elim
  | nodeMap xs =>
    cases c₂ with
    | nodeMap ys =>
      have hl : ∀ k, OptRel R (Json.lookup k xs) (Json.lookup k ys) := hc
      unfold Pointer.step
      dsimp only
      have hi := hl seg
      cases e1 : Json.lookup seg xs with
      | none => exact DirRel.err
      | some x =>
        cases e2 : Json.lookup seg ys with
        | none => rw [e1, e2] at hi; exact hi.elim
        | some y => rw [e1, e2] at hi; exact DirRel.ok (Or.inl hi)
    | node _ => exact hc.elim
    | nodes _ => exact hc.elim
    | dead => exact hc.elim
  | dead => exact DirRel.err

theorem walk_rel (strict : Bool) : ∀ (segs : List String) {c₁ c₂ : Pointer.Cursor},
    CurRel R env₁.st env₂.st c₁ c₂ →
      DirRel (CurRel R env₁.st env₂.st) (Pointer.walk env₁.st strict c₁ segs) (Pointer.walk env₂.st strict c₂ segs)
  | [], _, _, hc => DirRel.ok hc
  | seg :: rest, _, _, hc => by
    unfold Pointer.walk
    exact (step_rel hE strict hc seg).bind fun _ _ h => walk_rel strict rest h

/-- dereferenceJSONPointer from related schemas ends on related schemas -/
theorem dereference_rel (strict : Bool) {r₁ r₂ : NodeId} (hr : R r₁ r₂) (ptr : String) :
    DirRel R (Pointer.dereference env₁.st strict true r₁ ptr) (Pointer.dereference env₂.st strict true r₂ ptr) := by
  unfold Pointer.dereference
  refine (DirRel.refl_eq (Pointer.parse ptr)).bind ?_
  intro segs _ e
  subst e
  refine (walk_rel hE strict segs (c₁ := .node r₁) (c₂ := .node r₂) (Or.inl hr)).bind ?_
  intro c₁ c₂ hc
  cases c₁ with
  | node a =>
    cases c₂ with
    | node b =>
      dsimp only
      rcases hc with hr' | ⟨h1, _⟩
      · have hn := hE.node a b hr'
        cases h1 : env₁.st.get? a with
        | none => exact DirRel.err
        | some n₁ =>
          cases h2 : env₂.st.get? b with
          | none => rw [h1, h2] at hn; exact hn.elim
          | some n₂ => exact DirRel.ok hr'
      · rw [h1]; exact DirRel.err
    | nodes _ => exact hc.elim
    | nodeMap _ => exact hc.elim
    | dead => exact hc.elim
  | nodes _ => exact DirRel.err
  | nodeMap _ => exact DirRel.err
  | dead => exact DirRel.err

end

/-! ### checkStructure -/

theorem mem_keys_rel {α β : Type} {R : NodeId → NodeId → Prop} {Q : α → β → Prop} (hb : BiU R) {a b : NodeId}
    (hr : R a b) : ∀ {l₁ : List (NodeId × α)} {l₂ : List (NodeId × β)},
      ListRel (fun e₁ e₂ => R e₁.1 e₂.1 ∧ Q e₁.2 e₂.2) l₁ l₂ → (a ∈ l₁.map (·.1) ↔ b ∈ l₂.map (·.1))
  | _, _, .nil => by simp
  | _, _, .cons (a := e₁) (b := e₂) h1 h2 => by
    have ih := mem_keys_rel hb hr h2
    have hk : a = e₁.1 ↔ b = e₂.1 := hb a b e₁.1 e₂.1 hr h1.1
    simp only [List.map_cons, List.mem_cons, hk, ih]

/-- positionally related tables are related as maps -/
theorem lookupNat_rel {α β : Type} {R : NodeId → NodeId → Prop} {Q : α → β → Prop} (hb : BiU R) {a b : NodeId}
    (hr : R a b) : ∀ {l₁ : List (NodeId × α)} {l₂ : List (NodeId × β)},
      ListRel (fun e₁ e₂ => R e₁.1 e₂.1 ∧ Q e₁.2 e₂.2) l₁ l₂ → OptRel Q (lookupNat a l₁) (lookupNat b l₂)
  | _, _, .nil => trivial
  | _, _, .cons (a := (k₁, v₁)) (b := (k₂, v₂)) h1 h2 => by
    have hk : a = k₁ ↔ b = k₂ := hb a b k₁ k₂ hr h1.1
    unfold lookupNat
    by_cases h : k₁ = a
    · rw [if_pos h, if_pos (hk.mp h.symm).symm]
      exact h1.2
    · rw [if_neg h, if_neg (fun e => h (hk.mpr e.symm).symm)]
      exact lookupNat_rel hb hr h2

section
variable {R : NodeId → NodeId → Prop} {env₁ env₂ : Env} (hE : EnvRel R env₁ env₂)
include hE

/-- checkStructure on related worklists: the right run registers related schemas under the same paths, in the same
    order (two fuels: the right run is only asked not to run out).  `Q`: any relation on info records that holds
    between two fresh records for the same path. -/
theorem cs_rel {Q : Info → Info → Prop} (hQ : ∀ p, Q (RPerm.infoOf p) (RPerm.infoOf p)) :
    ∀ (f₁ f₂ : Nat) (w₁ w₂ : List (NodeId × String)) (acc₁ acc₂ res₁ : List (NodeId × Info)),
    ListRel (EntRel R) w₁ w₂ → ListRel (fun e₁ e₂ => R e₁.1 e₂.1 ∧ Q e₁.2 e₂.2) acc₁ acc₂ →
    checkStructure env₁.st f₁ w₁ acc₁ = .ok res₁ → checkStructure env₂.st f₂ w₂ acc₂ ≠ .fuel →
    ∃ res₂, checkStructure env₂.st f₂ w₂ acc₂ = .ok res₂ ∧
      ListRel (fun e₁ e₂ => R e₁.1 e₂.1 ∧ Q e₁.2 e₂.2) res₁ res₂ := by
  intro f₁
  induction f₁ with
  | zero => intro f₂ w₁ w₂ acc₁ acc₂ res₁ _ _ h; rw [RPerm.cs_zero] at h; cases h
  | succ f₁ ih =>
    intro f₂ w₁ w₂ acc₁ acc₂ res₁ hw hacc h hnf
    cases f₂ with
    | zero => exact absurd (RPerm.cs_zero _ _ _) hnf
    | succ f₂ =>
      cases hw with
      | nil =>
        rw [RPerm.cs_nil] at h ⊢
        cases h
        exact ⟨acc₂, rfl, hacc⟩
      | cons h1 h2 =>
        rename_i e₁ e₂ w₁' w₂'
        obtain ⟨a, p⟩ := e₁
        obtain ⟨b, p'⟩ := e₂
        have hp : p = p' := h1.2
        subst hp
        have hr : R a b := h1.1
        obtain ⟨n₁, hn₁, hid, hrest⟩ := (RPerm.cs_cons_ok _ _ _ _ _ _ _).mp h
        have hn := hE.node a b hr
        rw [hn₁] at hn
        cases hn₂ : env₂.st.get? b with
        | none => rw [hn₂] at hn; exact hn.elim
        | some n₂ =>
          rw [hn₂] at hn
          have hid₂ : b ∉ acc₂.map (·.1) := fun hm => hid ((mem_keys_rel hE.biu hr hacc).mpr hm)
          have hl₂ : lookupNat b acc₂ = none := (RPerm.lookupNat_eq_none_iff b acc₂).mpr hid₂
          have hwork : ListRel (EntRel R) (childEntries n₁ p ++ w₁') (childEntries n₂ p ++ w₂') :=
            listRel_append (hn.entries p) h2
          have hacc' : ListRel (fun e₁ e₂ => R e₁.1 e₂.1 ∧ Q e₁.2 e₂.2) (acc₁ ++ [(a, RPerm.infoOf p)])
              (acc₂ ++ [(b, RPerm.infoOf p)]) :=
            listRel_append hacc (.cons ⟨hr, hQ p⟩ .nil)
          have hstep : checkStructure env₂.st (f₂ + 1) ((b, p) :: w₂') acc₂ =
              checkStructure env₂.st f₂ (childEntries n₂ p ++ w₂') (acc₂ ++ [(b, RPerm.infoOf p)]) := by
            rw [RPerm.cs_cons, hn₂]
            simp only [hl₂, Option.isSome_none, Bool.false_eq_true, if_false]
          rw [hstep] at hnf ⊢
          exact ih f₂ _ _ _ _ res₁ hwork hacc' hrest hnf

end

/-! ### related resolver states -/

/-- an anchor entry: the same name, related targets, the same kind -/
def AncRel (R : NodeId → NodeId → Prop) (a₁ a₂ : AnchorInfo) : Prop := R a₁.schema a₂.schema ∧ a₁.dynamic = a₂.dynamic

structure InfoRel (R : NodeId → NodeId → Prop) (i₁ i₂ : Info) : Prop where
  path : i₁.path = i₂.path
  base : OptRel R i₁.base i₂.base
  uri : i₁.uri = i₂.uri
  resolvedRef : OptRel R i₁.resolvedRef i₂.resolvedRef
  resolvedDynamicRef : OptRel R i₁.resolvedDynamicRef i₂.resolvedDynamicRef
  dynamicRefAnchor : i₁.dynamicRefAnchor = i₂.dynamicRefAnchor
  anchors : ListRel (KRel (AncRel R)) i₁.anchors i₂.anchors

/-- related Resolved: related roots, the same draft, `resolvedURIs` related entry by entry, `resolvedInfos` with related
    domains -/
structure DRel (R : NodeId → NodeId → Prop) (d₁ d₂ : DocRes) : Prop where
  root : R d₁.root d₂.root
  draft : d₁.draft = d₂.draft
  uris : ListRel (KRel R) d₁.uris d₂.uris
  known : ∀ a b, R a b → (a ∈ d₁.known ↔ b ∈ d₂.known)

/-- related resolver states: the table of info objects read as a map along `R` -/
structure SRel (R : NodeId → NodeId → Prop) (s₁ s₂ : RState) : Prop where
  infos : ∀ a b, R a b → OptRel (InfoRel R) (lookupNat a s₁.infos) (lookupNat b s₂.infos)
  docs : ListRel (DRel R) s₁.docs s₂.docs
  loaded : ListRel (KRel R) s₁.loaded s₂.loaded
  log : s₁.log = s₂.log

theorem find_doc_rel {R : NodeId → NodeId → Prop} (hb : BiU R) {r₁ r₂ : NodeId} (hr : R r₁ r₂) :
    ∀ {l₁ l₂ : List DocRes}, ListRel (DRel R) l₁ l₂ →
      OptRel (DRel R) (l₁.find? (·.root == r₁)) (l₂.find? (·.root == r₂))
  | _, _, .nil => trivial
  | _, _, .cons (a := d₁) (b := d₂) h1 h2 => by
    have hk : d₁.root = r₁ ↔ d₂.root = r₂ := hb _ _ _ _ h1.root hr
    rw [List.find?_cons, List.find?_cons]
    by_cases h : d₁.root = r₁
    · have h' := hk.mp h
      simp only [h, h', beq_self_eq_true]
      exact h1
    · have h' : ¬ d₂.root = r₂ := fun e => h (hk.mpr e)
      simp only [beq_eq_false_iff_ne.mpr h, beq_eq_false_iff_ne.mpr h']
      exact find_doc_rel hb hr h2

theorem any_doc_rel {R : NodeId → NodeId → Prop} (hb : BiU R) {r₁ r₂ : NodeId} (hr : R r₁ r₂) :
    ∀ {l₁ l₂ : List DocRes}, ListRel (DRel R) l₁ l₂ → l₁.any (·.root == r₁) = l₂.any (·.root == r₂)
  | _, _, .nil => rfl
  | _, _, .cons (a := d₁) (b := d₂) h1 h2 => by
    have hk : d₁.root = r₁ ↔ d₂.root = r₂ := hb _ _ _ _ h1.root hr
    rw [List.any_cons, List.any_cons, any_doc_rel hb hr h2]
    by_cases h : d₁.root = r₁
    · simp only [h, hk.mp h, beq_self_eq_true]
    · have h' : ¬ d₂.root = r₂ := fun e => h (hk.mpr e)
      simp only [beq_eq_false_iff_ne.mpr h, beq_eq_false_iff_ne.mpr h']

section
variable {R : NodeId → NodeId → Prop} (hb : BiU R)
include hb

theorem SRel.doc? {s₁ s₂ : RState} (h : SRel R s₁ s₂) {r₁ r₂ : NodeId} (hr : R r₁ r₂) :
    OptRel (DRel R) (s₁.doc? r₁) (s₂.doc? r₂) := find_doc_rel hb hr h.docs

theorem SRel.draftOf {s₁ s₂ : RState} (h : SRel R s₁ s₂) {r₁ r₂ : NodeId} (hr : R r₁ r₂) :
    s₁.draftOf r₁ = s₂.draftOf r₂ := by
  have := h.doc? hb hr
  unfold RState.draftOf
  cases h1 : s₁.doc? r₁ <;> cases h2 : s₂.doc? r₂ <;> rw [h1, h2] at this <;>
    first | exact this.elim | rfl | exact this.draft

omit hb in
theorem DRel.contains {d₁ d₂ : DocRes} (h : DRel R d₁ d₂) {a b : NodeId} (hr : R a b) :
    d₁.known.contains a = d₂.known.contains b := by
  rw [Bool.eq_iff_iff]
  simp only [List.contains_eq_mem, decide_eq_true_eq]
  exact h.known a b hr

theorem SRel.info? {s₁ s₂ : RState} (h : SRel R s₁ s₂) {r₁ r₂ a b : NodeId} (hr : R r₁ r₂) (hab : R a b) :
    OptRel (InfoRel R) (s₁.info? r₁ a) (s₂.info? r₂ b) := by
  have hd := h.doc? hb hr
  unfold RState.info?
  cases h1 : s₁.doc? r₁ with
  | none =>
    cases h2 : s₂.doc? r₂ with
    | none => trivial
    | some d₂ => rw [h1, h2] at hd; exact hd.elim
  | some d₁ =>
    cases h2 : s₂.doc? r₂ with
    | none => rw [h1, h2] at hd; exact hd.elim
    | some d₂ =>
      rw [h1, h2] at hd
      dsimp only
      rw [hd.contains hab]
      split
      · exact h.infos a b hab
      · trivial

theorem SRel.updInfo {s₁ s₂ : RState} (h : SRel R s₁ s₂) {a b : NodeId} (hab : R a b) {f₁ f₂ : Info → Info}
    (hf : ∀ i₁ i₂, InfoRel R i₁ i₂ → InfoRel R (f₁ i₁) (f₂ i₂)) : SRel R (s₁.updInfo a f₁) (s₂.updInfo b f₂) := by
  refine ⟨?_, ?_, ?_, ?_⟩
  · intro x y hxy
    rw [updInfo_infos_lookup, updInfo_infos_lookup]
    have hk : a = x ↔ b = y := hb a b x y hab hxy
    have hi := h.infos x y hxy
    by_cases e : a = x
    · rw [if_pos e, if_pos (hk.mp e)]
      cases h1 : lookupNat x s₁.infos with
      | none =>
        cases h2 : lookupNat y s₂.infos with
        | none => trivial
        | some i₂ => rw [h1, h2] at hi; exact hi.elim
      | some i₁ =>
        cases h2 : lookupNat y s₂.infos with
        | none => rw [h1, h2] at hi; exact hi.elim
        | some i₂ => rw [h1, h2] at hi; exact hf i₁ i₂ hi
    · rw [if_neg e, if_neg (fun e' => e (hk.mpr e'))]
      exact hi
  · rw [updInfo_docs, updInfo_docs]; exact h.docs
  · rw [(updInfo_same s₁ a f₁).2, (updInfo_same s₂ b f₂).2]; exact h.loaded
  · rw [(updInfo_same s₁ a f₁).1, (updInfo_same s₂ b f₂).1]; exact h.log

omit hb in
theorem addAnchor_rel {t₁ t₂ : NodeId} (ht : R t₁ t₂) (a : String) (dyn : Bool) {i₁ i₂ : Info}
    (hi : InfoRel R i₁ i₂) : InfoRel R (addAnchor a t₁ dyn i₁) (addAnchor a t₂ dyn i₂) := by
  unfold addAnchor
  have hl := lookup_krel a hi.anchors
  have hs : (Json.lookup a i₁.anchors).isSome = (Json.lookup a i₂.anchors).isSome := OptRel.isSome_eq hl
  rw [hs]
  split
  · exact hi
  · exact { hi with anchors := listRel_append hi.anchors (.cons ⟨rfl, ht, rfl⟩ .nil) }

theorem SRel.setAnchor {s₁ s₂ : RState} (h : SRel R s₁ s₂) {b₁ b₂ t₁ t₂ : NodeId} (hbb : R b₁ b₂) (ht : R t₁ t₂)
    (a : String) (dyn : Bool) : SRel R (setAnchor s₁ b₁ t₁ a dyn) (setAnchor s₂ b₂ t₂ a dyn) := by
  rw [setAnchor_eq, setAnchor_eq]
  split
  · exact h
  · exact h.updInfo hb hbb fun _ _ hi => addAnchor_rel ht a dyn hi

theorem SRel.setDoc {s₁ s₂ : RState} (h : SRel R s₁ s₂) {d₁ d₂ : DocRes} (hd : DRel R d₁ d₂) :
    SRel R (s₁.setDoc d₁) (s₂.setDoc d₂) := by
  refine ⟨h.infos, ?_, h.loaded, h.log⟩
  unfold RState.setDoc
  dsimp only
  rw [any_doc_rel hb hd.root h.docs]
  split
  · refine listRel_map (fun x y hxy => ?_) h.docs
    have hk : x.root = d₁.root ↔ y.root = d₂.root := hb _ _ _ _ hxy.root hd.root
    by_cases e : x.root = d₁.root
    · simp only [e, hk.mp e, beq_self_eq_true, if_true]
      exact hd
    · have e' : ¬ y.root = d₂.root := fun e' => e (hk.mpr e')
      simp only [beq_eq_false_iff_ne.mpr e, beq_eq_false_iff_ne.mpr e', Bool.false_eq_true, if_false]
      exact hxy
  · exact listRel_append h.docs (.cons hd .nil)

theorem SRel.mergeKnown {s₁ s₂ : RState} (h : SRel R s₁ s₂) {a₁ a₂ b₁ b₂ : NodeId} (ha : R a₁ a₂) (hbb : R b₁ b₂) :
    SRel R (mergeKnown s₁ a₁ b₁) (mergeKnown s₂ a₂ b₂) := by
  have hda := h.doc? hb ha
  have hdb := h.doc? hb hbb
  unfold Go.mergeKnown
  cases h1 : s₁.doc? a₁ with
  | none =>
    cases h2 : s₂.doc? a₂ with
    | none => exact h
    | some _ => rw [h1, h2] at hda; exact hda.elim
  | some d₁ =>
    cases h2 : s₂.doc? a₂ with
    | none => rw [h1, h2] at hda; exact hda.elim
    | some d₂ =>
      rw [h1, h2] at hda
      cases h3 : s₁.doc? b₁ with
      | none =>
        cases h4 : s₂.doc? b₂ with
        | none => exact h
        | some _ => rw [h3, h4] at hdb; exact hdb.elim
      | some l₁ =>
        cases h4 : s₂.doc? b₂ with
        | none => rw [h3, h4] at hdb; exact hdb.elim
        | some l₂ =>
          rw [h3, h4] at hdb
          dsimp only
          apply h.setDoc hb
          refine ⟨hda.root, hda.draft, hda.uris, ?_⟩
          intro x y hxy
          simp only [List.mem_append, List.mem_filter, List.contains_eq_mem, Bool.not_eq_true',
            decide_eq_false_iff_not, hda.known x y hxy, hdb.known x y hxy]

end

end RIso
end Go
end JSV
