/-
  Helper lemmas for C03: a document accepted by checkStructure is a tree — every schema of it has
  exactly one lineage from the root.
-/
import JSV.Spec.Designate
import JSV.Proofs.ResKnown
namespace JSV
namespace Go
namespace RInv
open Spec

/-! ### lineages -/

theorem isChild_iff (st : Store) (p c : NodeId) :
    isChild st p c = true ↔ ∃ n, st.get? p = some n ∧ c ∈ n.children := by
  unfold isChild
  cases h : st.get? p with
  | none => simp
  | some n => simp

theorem isLineage_snoc (st : Store) : ∀ (l : List NodeId) (a p c : NodeId),
    isLineage st a l p = true → isChild st p c = true → isLineage st a (l ++ [c]) c = true := by
  intro l
  induction l with
  | nil =>
    intro a p c h hc
    simp only [isLineage, beq_iff_eq] at h
    subst h
    simp [isLineage, hc]
  | cons b l ih =>
    intro a p c h hc
    simp only [isLineage, Bool.and_eq_true] at h
    simp only [List.cons_append, isLineage, Bool.and_eq_true]
    exact ⟨h.1, ih b p c h.2 hc⟩

theorem isLineage_snoc_inv (st : Store) : ∀ (l : List NodeId) (a c s : NodeId),
    isLineage st a (l ++ [c]) s = true →
      s = c ∧ ∃ p, isLineage st a l p = true ∧ isChild st p c = true := by
  intro l
  induction l with
  | nil =>
    intro a c s h
    simp only [List.nil_append, isLineage, Bool.and_eq_true, beq_iff_eq] at h
    exact ⟨h.2.symm, a, by simp [isLineage], h.1⟩
  | cons b l ih =>
    intro a c s h
    simp only [List.cons_append, isLineage, Bool.and_eq_true] at h
    obtain ⟨hs, p, hp, hc⟩ := ih b c s h.2
    exact ⟨hs, p, by simp [isLineage, h.1, hp], hc⟩

theorem closed_has (st : Store) (P : NodeId → Prop)
    (hcl : ∀ p, P p → ∀ c, isChild st p c = true → P c) :
    ∀ (l : List NodeId) (a s : NodeId), P a → isLineage st a l s = true → P s := by
  intro l
  induction l with
  | nil =>
    intro a s ha h
    simp only [isLineage, beq_iff_eq] at h
    subst h; exact ha
  | cons b l ih =>
    intro a s ha h
    simp only [isLineage, Bool.and_eq_true] at h
    exact ih b s (hcl a ha b h.1) h.2

/-! ### what checkStructure pushes -/

/-- the schemas checkStructure pushes when it visits `id` -/
def kids (st : Store) (id : NodeId) : List NodeId :=
  match st.get? id with
  | some n => (childEntries n "").map (·.1)
  | none => []

theorem childEntries_ids (n : Node) (p q : String) :
    (childEntries n p).map (·.1) = (childEntries n q).map (·.1) := by
  unfold childEntries
  rw [List.map_flatMap, List.map_flatMap]
  congr 1
  funext f
  cases f with
  | one j x => cases x <;> rfl
  | many j x => simp only [List.map_map]; rfl
  | keyed j x => simp only [List.map_map]; rfl

theorem isChild_kids (st : Store) (p c : NodeId) (h : isChild st p c = true) : c ∈ kids st p := by
  obtain ⟨n, hn, hc⟩ := (isChild_iff st p c).mp h
  unfold kids
  rw [hn]
  obtain ⟨q, hq⟩ := children_sub_entries n "" c hc
  exact List.mem_map.mpr ⟨(c, q), hq, rfl⟩

theorem lookupNat_none_not_mem {α} (k : Nat) (l : List (Nat × α)) (h : lookupNat k l = none) :
    k ∉ l.map (·.1) := by
  intro hm
  obtain ⟨⟨k', v⟩, hmem, hk⟩ := List.mem_map.mp hm
  simp only at hk
  subst hk
  have := lookupNat_isSome_of_mem k' v l hmem
  rw [h] at this
  simp at this

theorem checkStructure_nodup (st : Store) : ∀ fuel work acc res,
    checkStructure st fuel work acc = .ok res → (ids acc).Nodup → (ids res).Nodup := by
  intro fuel
  induction fuel with
  | zero => intro work acc res h; simp [checkStructure] at h
  | succ fuel ih =>
    intro work acc res h hacc
    cases work with
    | nil => simp [checkStructure] at h; subst h; exact hacc
    | cons w work =>
      obtain ⟨id, path⟩ := w
      rw [checkStructure] at h
      split at h
      · simp at h
      · split at h
        · simp at h
        · rename_i hnone
          apply ih _ _ _ h
          have hn : lookupNat id acc = none := by
            cases hl : lookupNat id acc with
            | none => rfl
            | some v => rw [hl] at hnone; simp at hnone
          have := lookupNat_none_not_mem id acc hn
          simp only [ids, List.map_append, List.map_cons, List.map_nil]
          rw [List.nodup_append]
          refine ⟨hacc, by simp, ?_⟩
          intro a ha b hb
          simp only [List.mem_singleton] at hb
          subst hb
          intro e; subst e; exact this ha

/-- the newly visited schemas are, up to order, the pushed ones: the initial worklist and the
    children of every visited schema -/
theorem checkStructure_perm (st : Store) : ∀ fuel work acc res,
    checkStructure st fuel work acc = .ok res →
    ∃ V, ids res = ids acc ++ V ∧ List.Perm V (work.map (·.1) ++ V.flatMap (kids st)) := by
  intro fuel
  induction fuel with
  | zero => intro work acc res h; simp [checkStructure] at h
  | succ fuel ih =>
    intro work acc res h
    cases work with
    | nil =>
      simp [checkStructure] at h; subst h
      exact ⟨[], by simp, by simp⟩
    | cons w work =>
      obtain ⟨id, path⟩ := w
      rw [checkStructure] at h
      split at h
      · simp at h
      · rename_i n hn
        split at h
        · simp at h
        · obtain ⟨V', hres, hperm⟩ := ih _ _ _ h
          refine ⟨id :: V', ?_, ?_⟩
          · rw [hres]; simp [ids]
          · have hk : kids st id = (childEntries n path).map (·.1) := by
              unfold kids; rw [hn]; exact childEntries_ids n "" path
            simp only [List.map_cons, List.cons_append, List.flatMap_cons]
            apply List.Perm.cons
            rw [hk]
            rw [List.map_append] at hperm
            refine hperm.trans ?_
            rw [← List.append_assoc]
            exact List.Perm.append_right _ List.perm_append_comm

theorem nodup_flatMap_unique {α β} (f : α → List β) : ∀ (l : List α), (l.flatMap f).Nodup →
    ∀ a ∈ l, ∀ b ∈ l, ∀ c, c ∈ f a → c ∈ f b → a = b := by
  intro l
  induction l with
  | nil => intro _ a ha; simp at ha
  | cons x r ih =>
    intro hnd a ha b hb c hca hcb
    rw [List.flatMap_cons, List.nodup_append] at hnd
    obtain ⟨_, hr, hdis⟩ := hnd
    rcases List.mem_cons.mp ha with ha1 | ha1
    · rcases List.mem_cons.mp hb with hb1 | hb1
      · rw [ha1, hb1]
      · rw [ha1] at hca
        exact absurd rfl (hdis c hca c (List.mem_flatMap.mpr ⟨b, hb1, hcb⟩))
    · rcases List.mem_cons.mp hb with hb1 | hb1
      · rw [hb1] at hcb
        exact absurd rfl (hdis c hcb c (List.mem_flatMap.mpr ⟨a, ha1, hca⟩))
      · exact ih hr a ha1 b hb1 c hca hcb

/-! ### the document is a tree -/

/-- `V` = the schemas of the document under `root`: closed under children, every schema has one
    parent in `V`, the root has none -/
structure Tree (st : Store) (root : NodeId) (V : List NodeId) : Prop where
  root_mem : root ∈ V
  closed : ∀ p, p ∈ V → ∀ c, isChild st p c = true → c ∈ V
  parent_unique : ∀ p1 ∈ V, ∀ p2 ∈ V, ∀ c, isChild st p1 c = true → isChild st p2 c = true → p1 = p2
  root_orphan : ∀ p ∈ V, isChild st p root = false

theorem checkStructure_tree (st : Store) (fuel : Nat) (root : NodeId) (fresh : List (NodeId × Info))
    (h : checkStructure st fuel [(root, "")] [] = .ok fresh) : Tree st root (ids fresh) := by
  obtain ⟨V, hV, hperm⟩ := checkStructure_perm st fuel _ _ _ h
  have hnd : (ids fresh).Nodup := checkStructure_nodup st fuel _ _ _ h (by simp [ids])
  simp only [ids, List.map_nil, List.nil_append] at hV
  have hV' : ids fresh = V := hV
  rw [hV'] at hnd ⊢
  simp only [List.map_cons, List.map_nil, List.cons_append, List.nil_append] at hperm
  have hnd2 : (root :: V.flatMap (kids st)).Nodup := (hperm.nodup_iff).mp hnd
  rw [List.nodup_cons] at hnd2
  have hcl := checkStructure_closed st fuel _ _ _ h (fun _ hid => absurd hid (by simp [ids]))
  refine ⟨?_, ?_, ?_, ?_⟩
  · rw [← hV']; exact checkStructure_root_mem st fuel root fresh h
  · intro p hp c hc
    obtain ⟨n, hn, hcn⟩ := (isChild_iff st p c).mp hc
    rw [← hV'] at hp ⊢
    exact hcl p hp n hn c hcn
  · intro p1 hp1 p2 hp2 c h1 h2
    exact nodup_flatMap_unique (kids st) V hnd2.2 p1 hp1 p2 hp2 c (isChild_kids st p1 c h1) (isChild_kids st p2 c h2)
  · intro p hp
    cases hc : isChild st p root with
    | false => rfl
    | true => exact absurd (List.mem_flatMap.mpr ⟨p, hp, isChild_kids st p root hc⟩) hnd2.1

theorem Tree.has_mem {st : Store} {root : NodeId} {V : List NodeId} (T : Tree st root V)
    (l : List NodeId) (s : NodeId) (h : isLineage st root l s = true) : s ∈ V :=
  closed_has st (· ∈ V) T.closed l root s T.root_mem h

/-- in a tree every schema has one lineage -/
theorem Tree.lineage_unique {st : Store} {root : NodeId} {V : List NodeId} (T : Tree st root V) :
    ∀ (k : Nat) (l1 l2 : List NodeId) (s : NodeId), l1.length = k →
      isLineage st root l1 s = true → isLineage st root l2 s = true → l1 = l2 := by
  intro k
  induction k with
  | zero =>
    intro l1 l2 s hk h1 h2
    have : l1 = [] := List.length_eq_zero_iff.mp hk
    subst this
    simp only [isLineage, beq_iff_eq] at h1
    subst h1
    rcases List.eq_nil_or_concat l2 with h | ⟨l2', c, h⟩
    · exact h.symm
    · subst h
      rw [List.concat_eq_append] at h2
      obtain ⟨hs, p, hp, hc⟩ := isLineage_snoc_inv st l2' root c root h2
      subst hs
      have := T.root_orphan p (T.has_mem l2' p hp)
      rw [this] at hc
      simp at hc
  | succ k ih =>
    intro l1 l2 s hk h1 h2
    rcases List.eq_nil_or_concat l1 with h | ⟨l1', c1, h⟩
    · subst h; simp at hk
    · subst h
      rw [List.concat_eq_append] at h1 hk ⊢
      obtain ⟨hs1, p1, hp1, hc1⟩ := isLineage_snoc_inv st l1' root c1 s h1
      subst hs1
      rcases List.eq_nil_or_concat l2 with h | ⟨l2', c2, h⟩
      · subst h
        simp only [isLineage, beq_iff_eq] at h2
        subst h2
        have := T.root_orphan p1 (T.has_mem l1' p1 hp1)
        rw [this] at hc1
        simp at hc1
      · subst h
        rw [List.concat_eq_append] at h2 ⊢
        obtain ⟨hs2, p2, hp2, hc2⟩ := isLineage_snoc_inv st l2' root c2 s h2
        subst hs2
        have hp : p1 = p2 :=
          T.parent_unique p1 (T.has_mem l1' p1 hp1) p2 (T.has_mem l2' p2 hp2) s hc1 hc2
        subst hp
        have hlen : l1'.length = k := by
          simp only [List.length_append, List.length_cons, List.length_nil] at hk
          omega
        rw [ih l1' l2' p1 hlen hp1 hp2]

/-- hence one resource root -/
theorem Tree.resourceRoot_unique {D : Doc} {V : List NodeId} (T : Tree D.st D.root V) (s r r' : NodeId)
    (h : D.ResourceRoot s r) (h' : D.ResourceRoot s r') : r = r' := by
  obtain ⟨l, hl, hr⟩ := h
  obtain ⟨l', hl', hr'⟩ := h'
  rw [← hr, ← hr', T.lineage_unique l.length l l' s rfl hl hl']

end RInv
end Go
end JSV
