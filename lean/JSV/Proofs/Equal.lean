/-
  Helper lemmas for C11 (Equal = JSON value equality) and C12 (hash law, uniqueItems).
-/
import JSV.Model.Unique
namespace JSV

/-! ## Induction principles for the nested inductives -/

theorem Json.induct {P : Json → Prop}
    (null : P .null) (bool : ∀ b, P (.bool b)) (num : ∀ q, P (.num q)) (str : ∀ s, P (.str s))
    (arr : ∀ xs, (∀ x, x ∈ xs → P x) → P (.arr xs))
    (obj : ∀ kvs, (∀ k v, (k, v) ∈ kvs → P v) → P (.obj kvs)) : ∀ j, P j :=
  Json.rec (motive_1 := P)
    (motive_2 := fun xs => ∀ x, x ∈ xs → P x)
    (motive_3 := fun kvs => ∀ k v, (k, v) ∈ kvs → P v)
    (motive_4 := fun p => P p.2)
    null bool num str arr obj
    (fun x h => nomatch h)
    (fun hd tl ih1 ih2 x hx => by
      rcases List.mem_cons.1 hx with rfl | h
      · exact ih1
      · exact ih2 x h)
    (fun k v h => nomatch h)
    (fun hd tl ih1 ih2 k v hx => by
      rcases List.mem_cons.1 hx with rfl | h
      · exact ih1
      · exact ih2 k v h)
    (fun _ _ ih => ih)

theorem GoVal.induct {P : GoVal → Prop}
    (invalid : P .invalid) (bool : ∀ b, P (.bool b)) (int : ∀ v, P (.int v)) (uint : ∀ v, P (.uint v))
    (float : ∀ v, P (.float v)) (jnum : ∀ q t, P (.jnum q t)) (str : ∀ s, P (.str s))
    (list : ∀ xs, (∀ x, x ∈ xs → P x) → P (.list xs))
    (map : ∀ kvs, (∀ k v, (k, v) ∈ kvs → P v) → P (.map kvs))
    (ptr : ∀ v, P v → P (.ptr v)) (iface : ∀ v, P v → P (.iface v))
    (other : ∀ k, P (.other k)) : ∀ v, P v :=
  GoVal.rec (motive_1 := P)
    (motive_2 := fun xs => ∀ x, x ∈ xs → P x)
    (motive_3 := fun kvs => ∀ k v, (k, v) ∈ kvs → P v)
    (motive_4 := fun p => P p.2)
    invalid bool int uint float jnum str list map ptr iface other
    (fun x h => nomatch h)
    (fun hd tl ih1 ih2 x hx => by
      rcases List.mem_cons.1 hx with rfl | h
      · exact ih1
      · exact ih2 x h)
    (fun k v h => nomatch h)
    (fun hd tl ih1 ih2 k v hx => by
      rcases List.mem_cons.1 hx with rfl | h
      · exact ih1
      · exact ih2 k v h)
    (fun _ _ ih => ih)

namespace Json

/-! ## association lists -/

theorem mem_of_lookup {α} {k : String} {v : α} : ∀ {kvs : List (String × α)},
    lookup k kvs = some v → (k, v) ∈ kvs
  | [], h => by simp at h
  | (k', v') :: rest, h => by
    rw [lookup_cons] at h
    split at h
    · next hk => cases h; subst hk; exact List.mem_cons_self
    · exact List.mem_cons_of_mem _ (mem_of_lookup h)

theorem lookup_isSome_of_mem_keys {α} {k : String} : ∀ {kvs : List (String × α)},
    k ∈ keys kvs → ∃ v, lookup k kvs = some v
  | [], h => by simp [keys] at h
  | (k', v') :: rest, h => by
    rw [lookup_cons]
    by_cases hk : k' = k
    · exact ⟨v', by simp [hk]⟩
    · simp only [hk, if_false]
      apply lookup_isSome_of_mem_keys
      simp only [keys, List.map_cons, List.mem_cons] at h
      rcases h with h | h
      · exact absurd h.symm hk
      · exact h

theorem mem_keys_of_mem {α} {k : String} {v : α} {kvs : List (String × α)}
    (h : (k, v) ∈ kvs) : k ∈ keys kvs :=
  List.mem_map.2 ⟨(k, v), h, rfl⟩

theorem lookup_of_mem_nodup {α} {k : String} {v : α} : ∀ {kvs : List (String × α)},
    (keys kvs).Nodup → (k, v) ∈ kvs → lookup k kvs = some v
  | [], _, h => by simp at h
  | (k', v') :: rest, hn, h => by
    rw [lookup_cons]
    simp only [keys, List.map_cons, List.nodup_cons] at hn
    rcases List.mem_cons.1 h with h | h
    · cases h; simp
    · have : k' ≠ k := by
        rintro rfl
        exact hn.1 (mem_keys_of_mem h)
      simp only [this, if_false]
      exact lookup_of_mem_nodup hn.2 h

theorem nodupKeys_iff : ∀ {ks : List String}, nodupKeys ks = true ↔ ks.Nodup
  | [] => by simp [nodupKeys]
  | k :: ks => by
    simp only [nodupKeys, Bool.and_eq_true, Bool.not_eq_true', List.nodup_cons, nodupKeys_iff]
    simp

/-- pigeonhole: a duplicate-free list included in a list that is not longer covers it -/
theorem subset_of_nodup_of_length_le {α} [DecidableEq α] {l₁ l₂ : List α} (hn : l₁.Nodup) (hs : l₁ ⊆ l₂)
    (hl : l₂.length ≤ l₁.length) : l₂ ⊆ l₁ := by
  intro b hb
  apply Classical.byContradiction
  intro hnb
  have hsub : l₁ ⊆ l₂.erase b := by
    intro x hx
    have hxb : x ≠ b := fun h => hnb (h ▸ hx)
    exact (List.mem_erase_of_ne hxb).2 (hs hx)
  have h1 := hn.length_le_of_subset hsub
  have h2 : (l₂.erase b).length = l₂.length - 1 := by rw [List.length_erase]; simp [hb]
  have h3 : 1 ≤ l₂.length := List.length_pos_of_mem hb
  omega

/-! ## well-formedness of components -/

theorem WF_of_mem_list : ∀ {xs : List Json}, wfList xs = true → ∀ x, x ∈ xs → WF x = true
  | [], _, x, hx => by simp at hx
  | y :: ys, h, x, hx => by
    simp only [wfList, Bool.and_eq_true] at h
    rcases List.mem_cons.1 hx with rfl | hx
    · exact h.1
    · exact WF_of_mem_list h.2 x hx

theorem WF_of_mem_obj : ∀ {kvs : List (String × Json)}, wfObj kvs = true → ∀ k v, (k, v) ∈ kvs → WF v = true
  | [], _, k, v, hx => by simp at hx
  | (k', v') :: ys, h, k, v, hx => by
    simp only [wfObj, Bool.and_eq_true] at h
    rcases List.mem_cons.1 hx with hx | hx
    · cases hx; exact h.1
    · exact WF_of_mem_obj h.2 k v hx

theorem WF_obj {kvs : List (String × Json)} (h : WF (.obj kvs) = true) :
    (keys kvs).Nodup ∧ ∀ k v, (k, v) ∈ kvs → WF v = true := by
  simp only [WF, Bool.and_eq_true] at h
  exact ⟨nodupKeys_iff.1 h.1, WF_of_mem_obj h.2⟩

theorem WF_arr {xs : List Json} (h : WF (.arr xs) = true) : ∀ x, x ∈ xs → WF x = true := by
  simp only [WF] at h
  exact WF_of_mem_list h

/-! ## characterisation of eqvObj / eqvList -/

theorem eqvObj_iff {ky : List (String × Json)} : ∀ {kx : List (String × Json)},
    eqvObj kx ky = true ↔ ∀ k v, (k, v) ∈ kx → ∃ v', lookup k ky = some v' ∧ eqv v v' = true
  | [] => by simp [eqvObj]
  | (k, v) :: rest => by
    simp only [eqvObj, Bool.and_eq_true, eqvObj_iff (kx := rest), List.mem_cons]
    constructor
    · rintro ⟨h1, h2⟩ k' v' (h | h)
      · cases h
        cases hl : lookup k ky with
        | none => simp [hl] at h1
        | some w => exact ⟨w, rfl, by simpa [hl] using h1⟩
      · exact h2 k' v' h
    · intro h
      refine ⟨?_, fun k' v' hm => h k' v' (Or.inr hm)⟩
      obtain ⟨w, hw, he⟩ := h k v (Or.inl rfl)
      simp [hw, he]

theorem eqvList_length : ∀ {xs ys : List Json}, eqvList xs ys = true → xs.length = ys.length
  | [], [], _ => rfl
  | [], _ :: _, h => by simp [eqvList] at h
  | _ :: _, [], h => by simp [eqvList] at h
  | x :: xs, y :: ys, h => by
    simp only [eqvList, Bool.and_eq_true] at h
    simp [eqvList_length h.2]

/-! ## eqv is an equivalence on well-formed values -/

theorem eqvList_refl : ∀ {xs : List Json}, (∀ x, x ∈ xs → eqv x x = true) → eqvList xs xs = true
  | [], _ => by simp [eqvList]
  | x :: xs, h => by
    simp only [eqvList, Bool.and_eq_true]
    exact ⟨h x List.mem_cons_self, eqvList_refl fun y hy => h y (List.mem_cons_of_mem _ hy)⟩

theorem eqv_refl_of_WF : ∀ j, WF j = true → eqv j j = true := by
  intro j
  induction j using Json.induct with
  | null => intro _; simp [eqv]
  | bool b => intro _; simp [eqv]
  | num q => intro _; simp [eqv]
  | str s => intro _; simp [eqv]
  | arr xs ih =>
    intro h
    simp only [eqv]
    exact eqvList_refl fun x hx => ih x hx (WF_arr h x hx)
  | obj kvs ih =>
    intro h
    obtain ⟨hn, hw⟩ := WF_obj h
    simp only [eqv, Bool.and_eq_true, beq_self_eq_true, true_and]
    rw [eqvObj_iff]
    intro k v hm
    exact ⟨v, lookup_of_mem_nodup hn hm, ih k v hm (hw k v hm)⟩

theorem eqvList_symm : ∀ {xs ys : List Json},
    (∀ x, x ∈ xs → ∀ y, y ∈ ys → eqv x y = true → eqv y x = true) →
    eqvList xs ys = true → eqvList ys xs = true
  | [], [], _, _ => by simp [eqvList]
  | [], _ :: _, _, h => by simp [eqvList] at h
  | _ :: _, [], _, h => by simp [eqvList] at h
  | x :: xs, y :: ys, ih, h => by
    simp only [eqvList, Bool.and_eq_true] at h ⊢
    exact ⟨ih x List.mem_cons_self y List.mem_cons_self h.1,
      eqvList_symm (fun a ha b hb => ih a (List.mem_cons_of_mem _ ha) b (List.mem_cons_of_mem _ hb)) h.2⟩

theorem eqv_symm_imp : ∀ a b, WF a = true → WF b = true → eqv a b = true → eqv b a = true := by
  intro a
  induction a using Json.induct with
  | null => intro b _ _ h; cases b <;> simp_all [eqv]
  | bool x => intro b _ _ h; cases b <;> simp_all [eqv]
  | num x => intro b _ _ h; cases b <;> simp_all [eqv]
  | str x => intro b _ _ h; cases b <;> simp_all [eqv]
  | arr xs ih =>
    intro b ha hb h
    cases b with
    | arr ys =>
      simp only [eqv] at h ⊢
      exact eqvList_symm (fun x hx y hy => ih x hx y (WF_arr ha x hx) (WF_arr hb y hy)) h
    | _ => simp [eqv] at h
  | obj kx ih =>
    intro b ha hb h
    cases b with
    | obj ky =>
      obtain ⟨nx, wx⟩ := WF_obj ha
      obtain ⟨ny, wy⟩ := WF_obj hb
      simp only [eqv, Bool.and_eq_true, beq_iff_eq] at h ⊢
      obtain ⟨hl, h⟩ := h
      refine ⟨hl.symm, ?_⟩
      rw [eqvObj_iff] at h ⊢
      have hsub : keys kx ⊆ keys ky := by
        intro k hk
        obtain ⟨p, hp, rfl⟩ := List.mem_map.1 hk
        obtain ⟨v', hv', _⟩ := h p.1 p.2 hp
        exact mem_keys_of_mem (mem_of_lookup hv')
      have hsup : keys ky ⊆ keys kx :=
        subset_of_nodup_of_length_le nx hsub (by simp [keys, hl])
      intro k v' hm
      obtain ⟨v, hv⟩ := lookup_isSome_of_mem_keys (hsup (mem_keys_of_mem hm))
      have hvm := mem_of_lookup hv
      obtain ⟨v'', hv'', he⟩ := h k v hvm
      have : v'' = v' := by
        have := lookup_of_mem_nodup ny hm
        rw [this] at hv''
        exact (Option.some.inj hv'').symm
      subst this
      exact ⟨v, hv, ih k v hvm v'' (wx k v hvm) (wy k v'' hm) he⟩
    | _ => simp [eqv] at h

theorem eqvList_trans : ∀ {xs ys zs : List Json},
    (∀ x, x ∈ xs → ∀ y z, eqv x y = true → eqv y z = true → eqv x z = true) →
    eqvList xs ys = true → eqvList ys zs = true → eqvList xs zs = true
  | [], [], [], _, _, _ => by simp [eqvList]
  | [], [], _ :: _, _, _, h => by simp [eqvList] at h
  | [], _ :: _, _, _, h, _ => by simp [eqvList] at h
  | _ :: _, [], _, _, h, _ => by simp [eqvList] at h
  | _ :: _, _ :: _, [], _, _, h => by simp [eqvList] at h
  | x :: xs, y :: ys, z :: zs, ih, h1, h2 => by
    simp only [eqvList, Bool.and_eq_true] at h1 h2 ⊢
    exact ⟨ih x List.mem_cons_self y z h1.1 h2.1,
      eqvList_trans (fun a ha => ih a (List.mem_cons_of_mem _ ha)) h1.2 h2.2⟩

/-- transitivity needs no well-formedness -/
theorem eqv_trans_imp : ∀ a b c, eqv a b = true → eqv b c = true → eqv a c = true := by
  intro a
  induction a using Json.induct with
  | null => intro b c h1 h2; cases b <;> cases c <;> simp_all [eqv]
  | bool x => intro b c h1 h2; cases b <;> cases c <;> simp_all [eqv]
  | num x => intro b c h1 h2; cases b <;> cases c <;> simp_all [eqv]
  | str x => intro b c h1 h2; cases b <;> cases c <;> simp_all [eqv]
  | arr xs ih =>
    intro b c h1 h2
    cases b with
    | arr ys =>
      cases c with
      | arr zs =>
        simp only [eqv] at h1 h2 ⊢
        exact eqvList_trans ih h1 h2
      | _ => simp [eqv] at h2
    | _ => simp [eqv] at h1
  | obj kx ih =>
    intro b c h1 h2
    cases b with
    | obj ky =>
      cases c with
      | obj kz =>
        simp only [eqv, Bool.and_eq_true, beq_iff_eq] at h1 h2 ⊢
        refine ⟨h1.1.trans h2.1, ?_⟩
        have h1 := eqvObj_iff.1 h1.2
        have h2 := eqvObj_iff.1 h2.2
        rw [eqvObj_iff]
        intro k v hm
        obtain ⟨v', hv', e1⟩ := h1 k v hm
        obtain ⟨v'', hv'', e2⟩ := h2 k v' (mem_of_lookup hv')
        exact ⟨v'', hv'', ih k v hm v' v'' e1 e2⟩
      | _ => simp [eqv] at h2
    | _ => simp [eqv] at h1

theorem eqv_symm_of_WF (a b : Json) (ha : WF a = true) (hb : WF b = true) : eqv a b = eqv b a := by
  cases h1 : eqv a b with
  | true => exact (eqv_symm_imp a b ha hb h1).symm
  | false =>
    cases h2 : eqv b a with
    | false => rfl
    | true => rw [eqv_symm_imp b a hb ha h2] at h1; cases h1

end Json

namespace GoVal

/-! ## denote / strip -/

theorem denoteList_cons_some {x : GoVal} {xs : List GoVal} {js : List Json} :
    denoteList (x :: xs) = some js ↔
      ∃ j js', denote x = some j ∧ denoteList xs = some js' ∧ js = j :: js' := by
  rw [denoteList]
  cases hd : denote x <;> cases hl : denoteList xs <;> simp
  exact eq_comm

theorem denoteObj_cons_some {k : String} {v : GoVal} {rest : List (String × GoVal)} {js : List (String × Json)} :
    denoteObj ((k, v) :: rest) = some js ↔
      ∃ j js', denote v = some j ∧ denoteObj rest = some js' ∧ js = (k, j) :: js' := by
  rw [denoteObj]
  cases hd : denote v <;> cases hl : denoteObj rest <;> simp
  exact eq_comm

theorem denoteList_length : ∀ {xs : List GoVal} {js : List Json}, denoteList xs = some js → js.length = xs.length
  | [], js, h => by simp [denoteList] at h; subst h; simp
  | x :: xs, js, h => by
    obtain ⟨j, js', _, h2, rfl⟩ := denoteList_cons_some.1 h
    simp [denoteList_length h2]

theorem denoteObj_length : ∀ {xs : List (String × GoVal)} {js : List (String × Json)},
    denoteObj xs = some js → js.length = xs.length
  | [], js, h => by simp [denoteObj] at h; subst h; simp
  | (k, v) :: xs, js, h => by
    obtain ⟨j, js', _, h2, rfl⟩ := denoteObj_cons_some.1 h
    simp [denoteObj_length h2]

/-- lookup commutes with denoteObj -/
theorem lookup_denoteObj (k : String) : ∀ {kvs : List (String × GoVal)} {js : List (String × Json)},
    denoteObj kvs = some js →
    (match Json.lookup k kvs with
      | none => Json.lookup k js = none
      | some v => ∃ j, denote v = some j ∧ Json.lookup k js = some j)
  | [], js, h => by simp [denoteObj] at h; subst h; simp
  | (k', v) :: xs, js, h => by
    obtain ⟨j, js', h1, h2, rfl⟩ := denoteObj_cons_some.1 h
    simp only [Json.lookup_cons]
    by_cases hk : k' = k
    · simp [hk, h1]
    · simp only [hk, if_false]
      exact lookup_denoteObj k h2

theorem denote_of_mem_list : ∀ {xs : List GoVal} {js : List Json}, denoteList xs = some js →
    ∀ x, x ∈ xs → ∃ j, j ∈ js ∧ denote x = some j
  | [], _, _, x, hx => by simp at hx
  | y :: ys, js, h, x, hx => by
    obtain ⟨j, js', h1, h2, rfl⟩ := denoteList_cons_some.1 h
    rcases List.mem_cons.1 hx with rfl | hx
    · exact ⟨j, List.mem_cons_self, h1⟩
    · obtain ⟨j', hj', hd⟩ := denote_of_mem_list h2 x hx
      exact ⟨j', List.mem_cons_of_mem _ hj', hd⟩

/-- a value on which the pointer/interface stripping loop has finished -/
def Stripped : GoVal → Prop
  | .ptr _ => False
  | .iface _ => False
  | _ => True

theorem strip_stripped : ∀ v : GoVal, Stripped (strip v) := by
  intro v
  induction v using GoVal.induct <;> simp_all [strip, Stripped]

theorem denote_strip : ∀ v : GoVal, denote (strip v) = denote v := by
  intro v
  induction v using GoVal.induct <;> simp_all [strip, denote]

theorem strip_of_stripped : ∀ {v : GoVal}, Stripped v → strip v = v := by
  intro v h
  cases v <;> simp_all [strip, Stripped]

end GoVal

namespace Go
open GoVal Json

/-! ## C11: equalValue computes Json.eqv -/

/-- the leaf block of equalValue (numbers first, then eqLeaf) -/
theorem leaf_eq (x y' : GoVal) (jx jy : Json) (hx : denote x = some jx) (hy : denote y' = some jy)
    (hxs : Stripped x) (hys : Stripped y') (hnl : ∀ xs, x ≠ .list xs) (hnm : ∀ kvs, x ≠ .map kvs) :
    (match jsonNumber x, jsonNumber y' with
      | some a, some b => Res.ok (a == b)
      | some _, none => .ok false
      | none, some _ => .ok false
      | none, none => eqLeaf x y') = .ok (eqv jx jy) := by
  cases x <;> cases y'
  all_goals try (cases ‹Option Rat›)
  all_goals try (cases ‹Option Rat›)
  all_goals try (obtain ⟨a, ha, rfl⟩ := Option.map_eq_some_iff.1 hy)
  all_goals try (simp only [denote, Option.some.injEq] at hx)
  all_goals try (simp only [denote, Option.some.injEq] at hy)
  all_goals try subst hx
  all_goals try subst hy
  all_goals simp_all [jsonNumber, eqLeaf, Stripped, eqv]

theorem eqLeaf_list (xs : List GoVal) (jxs : List Json) (y' : GoVal) (jy : Json)
    (hy : denote y' = some jy) (hys : Stripped y') (hnl : ∀ ys, y' ≠ .list ys) :
    eqLeaf (.list xs) y' = .ok (eqv (.arr jxs) jy) := by
  cases y'
  all_goals try (cases ‹Option Rat›)
  all_goals try (obtain ⟨a, ha, rfl⟩ := Option.map_eq_some_iff.1 hy)
  all_goals try (simp only [denote, Option.some.injEq] at hy)
  all_goals try subst hy
  all_goals simp_all [eqLeaf, Stripped, eqv]

theorem eqLeaf_map (kx : List (String × GoVal)) (jkx : List (String × Json)) (y' : GoVal) (jy : Json)
    (hy : denote y' = some jy) (hys : Stripped y') (hnl : ∀ ys, y' ≠ .map ys) :
    eqLeaf (.map kx) y' = .ok (eqv (.obj jkx) jy) := by
  cases y'
  all_goals try (cases ‹Option Rat›)
  all_goals try (obtain ⟨a, ha, rfl⟩ := Option.map_eq_some_iff.1 hy)
  all_goals try (simp only [denote, Option.some.injEq] at hy)
  all_goals try subst hy
  all_goals simp_all [eqLeaf, Stripped, eqv]

theorem equalList_eq : ∀ {xs ys : List GoVal} {jxs jys : List Json},
    (∀ x, x ∈ xs → ∀ (y : GoVal) (jx jy : Json), denote x = some jx → denote y = some jy →
      equalValue x y = .ok (eqv jx jy)) →
    denoteList xs = some jxs → denoteList ys = some jys → xs.length = ys.length →
    equalList xs ys = .ok (eqvList jxs jys)
  | [], [], jxs, jys, _, h1, h2, _ => by
    simp [denoteList] at h1 h2; subst h1; subst h2; simp [equalList, eqvList]
  | [], _ :: _, _, _, _, _, _, hl => by simp at hl
  | _ :: _, [], _, _, _, _, _, hl => by simp at hl
  | x :: xs, y :: ys, jxs, jys, ih, h1, h2, hl => by
    obtain ⟨jx, jxs', hx, hxs, rfl⟩ := denoteList_cons_some.1 h1
    obtain ⟨jy, jys', hy, hys, rfl⟩ := denoteList_cons_some.1 h2
    simp only [equalList, eqvList]
    rw [ih x List.mem_cons_self y jx jy hx hy, Res.bind_ok]
    cases eqv jx jy
    · simp
    · simp only [if_true, Bool.true_and]
      exact equalList_eq (fun a ha => ih a (List.mem_cons_of_mem _ ha)) hxs hys (by simpa using hl)

theorem equalMap_eq {ky : List (String × GoVal)} {jky : List (String × Json)}
    (hky : denoteObj ky = some jky) : ∀ {kx : List (String × GoVal)} {jkx : List (String × Json)},
    (∀ k x, (k, x) ∈ kx → ∀ (y : GoVal) (jx jy : Json), denote x = some jx → denote y = some jy →
      equalValue x y = .ok (eqv jx jy)) →
    denoteObj kx = some jkx →
    equalMap kx ky = .ok (eqvObj jkx jky)
  | [], jkx, _, h1 => by
    simp [denoteObj] at h1; subst h1; simp [equalMap, eqvObj]
  | (k, x) :: kx, jkx, ih, h1 => by
    obtain ⟨jx, jkx', hx, hxs, rfl⟩ := denoteObj_cons_some.1 h1
    simp only [equalMap, eqvObj]
    have hl := lookup_denoteObj k hky
    cases hlk : Json.lookup k ky with
    | none =>
      rw [hlk] at hl
      simp [hl]
    | some vy =>
      rw [hlk] at hl
      obtain ⟨jy, hy, hl⟩ := hl
      simp only [hl]
      rw [ih k x List.mem_cons_self vy jx jy hx hy, Res.bind_ok]
      cases eqv jx jy
      · simp
      · simp only [if_true, Bool.true_and]
        exact equalMap_eq hky (fun k' a ha => ih k' a (List.mem_cons_of_mem _ ha)) hxs

theorem eqvList_false_of_length {jxs jys : List Json} (h : jxs.length ≠ jys.length) :
    eqvList jxs jys = false := by
  cases he : eqvList jxs jys with
  | false => rfl
  | true => exact absurd (eqvList_length he) h

theorem equalValue_eq : ∀ (x y : GoVal) (jx jy : Json),
    denote x = some jx → denote y = some jy → equalValue x y = .ok (eqv jx jy) := by
  intro x
  induction x using GoVal.induct with
  | ptr v ih =>
    intro y jx jy hx hy
    simp only [equalValue]
    exact ih y jx jy (by simpa [denote] using hx) hy
  | iface v ih =>
    intro y jx jy hx hy
    simp only [equalValue]
    exact ih y jx jy (by simpa [denote] using hx) hy
  | list xs ih =>
    intro y jx jy hx hy
    simp only [equalValue]
    have hs := strip_stripped y
    have hd : denote (strip y) = some jy := by rw [denote_strip]; exact hy
    generalize strip y = y' at hs hd
    simp only [denote, Option.map_eq_some_iff] at hx
    obtain ⟨jxs, hxs, rfl⟩ := hx
    by_cases hyl : ∃ ys, y' = .list ys
    · obtain ⟨ys, rfl⟩ := hyl
      simp only [denote, Option.map_eq_some_iff] at hd
      obtain ⟨jys, hys, rfl⟩ := hd
      simp only [eqv]
      by_cases hl : xs.length = ys.length
      · simp only [hl, bne_self_eq_false, Bool.false_eq_true, if_false]
        exact equalList_eq ih hxs hys hl
      · have : eqvList jxs jys = false :=
          eqvList_false_of_length (by rw [denoteList_length hxs, denoteList_length hys]; exact hl)
        simp [hl, this]
    · have hnl : ∀ ys, y' ≠ .list ys := fun ys h => hyl ⟨ys, h⟩
      rw [← eqLeaf_list xs jxs y' jy hd hs hnl]
      cases y' <;> first | rfl | exact absurd rfl (hnl _)
  | map kx ih =>
    intro y jx jy hx hy
    simp only [equalValue]
    have hs := strip_stripped y
    have hd : denote (strip y) = some jy := by rw [denote_strip]; exact hy
    generalize strip y = y' at hs hd
    simp only [denote, Option.map_eq_some_iff] at hx
    obtain ⟨jkx, hkx, rfl⟩ := hx
    by_cases hyl : ∃ ky, y' = .map ky
    · obtain ⟨ky, rfl⟩ := hyl
      simp only [denote, Option.map_eq_some_iff] at hd
      obtain ⟨jky, hky, rfl⟩ := hd
      simp only [eqv]
      by_cases hl : kx.length = ky.length
      · have hl' : jkx.length = jky.length := by
          rw [denoteObj_length hkx, denoteObj_length hky]; exact hl
        simp only [hl, hl', bne_self_eq_false, Bool.false_eq_true, if_false, beq_self_eq_true,
          Bool.true_and]
        exact equalMap_eq hky ih hkx
      · have hl' : jkx.length ≠ jky.length := by
          rw [denoteObj_length hkx, denoteObj_length hky]; exact hl
        simp [hl, hl']
    · have hnl : ∀ ys, y' ≠ .map ys := fun ys h => hyl ⟨ys, h⟩
      rw [← eqLeaf_map kx jkx y' jy hd hs hnl]
      cases y' <;> first | rfl | exact absurd rfl (hnl _)
  | invalid | bool | int | uint | float | jnum | str | other =>
    intro y jx jy hx hy
    simp only [equalValue]
    have hs := strip_stripped y
    have hd : denote (strip y) = some jy := by rw [denote_strip]; exact hy
    exact leaf_eq _ _ jx jy hx hd (by simp [Stripped]) hs (by simp) (by simp)

end Go

/-! ## C12: the byte stream of hashValue, as a function of the JSON value -/

namespace Go

theorem insertEntry_perm {α} (e : String × α) : ∀ l : List (String × α), (insertEntry e l).Perm (e :: l)
  | [] => by simp [insertEntry]
  | x :: xs => by
    simp only [insertEntry]
    split
    · exact List.Perm.refl _
    · exact ((insertEntry_perm e xs).cons x).trans (List.Perm.swap e x xs)

theorem sortEntries_perm {α} : ∀ l : List (String × α), (sortEntries l).Perm l
  | [] => by simp [sortEntries]
  | x :: xs => by
    have ih : (sortEntries xs).Perm xs := sortEntries_perm xs
    show (insertEntry x (sortEntries xs)).Perm (x :: xs)
    exact (insertEntry_perm x _).trans (ih.cons x)

theorem insertEntry_sorted {α} (e : String × α) : ∀ l : List (String × α),
    l.Pairwise (fun a b => a.1 ≤ b.1) → (insertEntry e l).Pairwise (fun a b => a.1 ≤ b.1)
  | [], _ => by simp [insertEntry]
  | x :: xs, h => by
    simp only [insertEntry]
    rw [List.pairwise_cons] at h
    split
    · next hle =>
      rw [List.pairwise_cons]
      refine ⟨?_, List.pairwise_cons.2 h⟩
      intro a ha
      rcases List.mem_cons.1 ha with rfl | ha
      · exact hle
      · exact String.le_trans hle (h.1 a ha)
    · next hnle =>
      rw [List.pairwise_cons]
      refine ⟨?_, insertEntry_sorted e xs h.2⟩
      intro a ha
      rcases List.mem_cons.1 ((insertEntry_perm e xs).mem_iff.1 ha) with rfl | ha
      · rcases String.le_total a.1 x.1 with h' | h'
        · exact absurd h' hnle
        · exact h'
      · exact h.1 a ha

theorem sortEntries_sorted {α} : ∀ l : List (String × α),
    (sortEntries l).Pairwise (fun a b => a.1 ≤ b.1)
  | [] => by simp [sortEntries]
  | x :: xs => by
    show (insertEntry x (sortEntries xs)).Pairwise _
    exact insertEntry_sorted x _ (sortEntries_sorted xs)

theorem entry_eq_of_key_eq {α} {l : List (String × α)} (hn : (Json.keys l).Nodup)
    {a b : String × α} (ha : a ∈ l) (hb : b ∈ l) (hk : a.1 = b.1) : a = b := by
  obtain ⟨ka, va⟩ := a
  obtain ⟨kb, vb⟩ := b
  simp only at hk
  subst hk
  have h1 := Json.lookup_of_mem_nodup hn ha
  have h2 := Json.lookup_of_mem_nodup hn hb
  rw [h1] at h2
  cases h2
  rfl

/-- sorting by key does not depend on the order in which a map with distinct keys is enumerated -/
theorem sortEntries_eq_of_perm {α} {l₁ l₂ : List (String × α)} (hp : l₁.Perm l₂)
    (hn : (Json.keys l₁).Nodup) : sortEntries l₁ = sortEntries l₂ := by
  have p1 := sortEntries_perm l₁
  have p2 := sortEntries_perm l₂
  refine List.Perm.eq_of_pairwise (le := fun a b => a.1 ≤ b.1) ?_ (sortEntries_sorted l₁)
    (sortEntries_sorted l₂) (p1.trans (hp.trans p2.symm))
  intro a b ha hb hab hba
  have ha' : a ∈ l₁ := p1.mem_iff.1 ha
  have hb' : b ∈ l₁ := hp.mem_iff.2 (p2.mem_iff.1 hb)
  exact entry_eq_of_key_eq hn ha' hb' (String.le_antisymm hab hba)

theorem nodup_of_nodup_keys {α} {l : List (String × α)} (hn : (Json.keys l).Nodup) : l.Nodup :=
  List.Pairwise.of_map (fun p : String × α => p.1) (fun a b h hab => h (by rw [hab])) hn

theorem sortEntries_eq_of_mem_iff {α} {l₁ l₂ : List (String × α)}
    (hn₁ : (Json.keys l₁).Nodup) (hn₂ : (Json.keys l₂).Nodup) (h : ∀ a, a ∈ l₁ ↔ a ∈ l₂) :
    sortEntries l₁ = sortEntries l₂ :=
  sortEntries_eq_of_perm
    ((List.perm_ext_iff_of_nodup (nodup_of_nodup_keys hn₁) (nodup_of_nodup_keys hn₂)).2 h) hn₁

end Go

namespace Json

mutual
  /-- the byte stream `hashValue` writes for (any representation of) a JSON value -/
  def enc : Json → List UInt8
    | .null => [0]
    | .bool b => [if b then 1 else 0]
    | .num q => Go.hashNum q
    | .str s => s.toUTF8.toList
    | .arr xs => Go.be64 xs.length ++ encList xs
    | .obj kvs => Go.be64 kvs.length ++ Go.flattenEntries (Go.sortEntries (encEntries kvs))
  def encList : List Json → List UInt8
    | [] => []
    | x :: xs => enc x ++ encList xs
  def encEntries : List (String × Json) → List (String × List UInt8)
    | [] => []
    | (k, v) :: rest => (k, enc v) :: encEntries rest
end

theorem keys_encEntries : ∀ kvs : List (String × Json), keys (encEntries kvs) = keys kvs
  | [] => rfl
  | (k, v) :: rest => by
    have ih := keys_encEntries rest
    simp only [keys] at ih
    simp [encEntries, keys, ih]

theorem mem_encEntries {k : String} {e : List UInt8} : ∀ {kvs : List (String × Json)},
    (k, e) ∈ encEntries kvs ↔ ∃ v, (k, v) ∈ kvs ∧ e = enc v
  | [] => by simp [encEntries]
  | (k', v') :: rest => by
    simp only [encEntries, List.mem_cons, mem_encEntries (kvs := rest), Prod.mk.injEq]
    constructor
    · rintro (⟨rfl, rfl⟩ | ⟨v, hv, rfl⟩)
      · exact ⟨v', Or.inl ⟨rfl, rfl⟩, rfl⟩
      · exact ⟨v, Or.inr hv, rfl⟩
    · rintro ⟨v, (⟨rfl, rfl⟩ | hv), rfl⟩
      · exact Or.inl ⟨rfl, rfl⟩
      · exact Or.inr ⟨v, hv, rfl⟩

theorem encList_eq : ∀ {xs ys : List Json},
    (∀ x, x ∈ xs → ∀ y, y ∈ ys → eqv x y = true → enc x = enc y) →
    eqvList xs ys = true → encList xs = encList ys
  | [], [], _, _ => rfl
  | [], _ :: _, _, h => by simp [eqvList] at h
  | _ :: _, [], _, h => by simp [eqvList] at h
  | x :: xs, y :: ys, ih, h => by
    simp only [eqvList, Bool.and_eq_true] at h
    simp only [encList]
    rw [ih x List.mem_cons_self y List.mem_cons_self h.1,
      encList_eq (fun a ha b hb => ih a (List.mem_cons_of_mem _ ha) b (List.mem_cons_of_mem _ hb)) h.2]

/-- the hash law on JSON values -/
theorem enc_eq_of_eqv : ∀ a b, WF a = true → WF b = true → eqv a b = true → enc a = enc b := by
  intro a
  induction a using Json.induct with
  | null => intro b _ _ h; cases b <;> simp_all [eqv]
  | bool x => intro b _ _ h; cases b <;> simp_all [eqv, enc]
  | num x => intro b _ _ h; cases b <;> simp_all [eqv, enc]
  | str x => intro b _ _ h; cases b <;> simp_all [eqv, enc]
  | arr xs ih =>
    intro b ha hb h
    cases b with
    | arr ys =>
      simp only [eqv] at h
      simp only [enc]
      rw [eqvList_length h, encList_eq (fun x hx y hy => ih x hx y (WF_arr ha x hx) (WF_arr hb y hy)) h]
    | _ => simp [eqv] at h
  | obj kx ih =>
    intro b ha hb h
    cases b with
    | obj ky =>
      have h' := eqv_symm_imp _ _ ha hb h
      obtain ⟨nx, wx⟩ := WF_obj ha
      obtain ⟨ny, wy⟩ := WF_obj hb
      simp only [eqv, Bool.and_eq_true, beq_iff_eq] at h h'
      simp only [enc]
      rw [h.1]
      congr 2
      have h1 := eqvObj_iff.1 h.2
      have h2 := eqvObj_iff.1 h'.2
      apply Go.sortEntries_eq_of_mem_iff (by rw [keys_encEntries]; exact nx)
        (by rw [keys_encEntries]; exact ny)
      rintro ⟨k, e⟩
      rw [mem_encEntries, mem_encEntries]
      constructor
      · rintro ⟨v, hv, rfl⟩
        obtain ⟨v', hv', he⟩ := h1 k v hv
        have hm := mem_of_lookup hv'
        exact ⟨v', hm, ih k v hv v' (wx k v hv) (wy k v' hm) he⟩
      · rintro ⟨v', hv', rfl⟩
        obtain ⟨v, hv, he⟩ := h2 k v' hv'
        have hm := mem_of_lookup hv
        have he' := eqv_symm_imp _ _ (wy k v' hv') (wx k v hm) he
        exact ⟨v, hm, (ih k v hm v' (wx k v hm) (wy k v' hv') he').symm⟩
    | _ => simp [eqv] at h

end Json

namespace Go
open GoVal

theorem hashList_eq : ∀ {xs : List GoVal} {js : List Json},
    (∀ x, x ∈ xs → ∀ j, denote x = some j → hashEnc x = .ok (Json.enc j)) →
    denoteList xs = some js → hashList xs = .ok (Json.encList js)
  | [], js, _, h => by simp [denoteList] at h; subst h; simp [hashList, Json.encList]
  | x :: xs, js, ih, h => by
    obtain ⟨j, js', hx, hxs, rfl⟩ := denoteList_cons_some.1 h
    simp only [hashList, Json.encList]
    rw [ih x List.mem_cons_self j hx, Res.bind_ok,
      hashList_eq (fun a ha => ih a (List.mem_cons_of_mem _ ha)) hxs, Res.bind_ok]

theorem hashEntries_eq : ∀ {kvs : List (String × GoVal)} {js : List (String × Json)},
    (∀ k x, (k, x) ∈ kvs → ∀ j, denote x = some j → hashEnc x = .ok (Json.enc j)) →
    denoteObj kvs = some js → hashEntries kvs = .ok (Json.encEntries js)
  | [], js, _, h => by simp [denoteObj] at h; subst h; simp [hashEntries, Json.encEntries]
  | (k, x) :: xs, js, ih, h => by
    obtain ⟨j, js', hx, hxs, rfl⟩ := denoteObj_cons_some.1 h
    simp only [hashEntries, Json.encEntries]
    rw [ih k x List.mem_cons_self j hx, Res.bind_ok,
      hashEntries_eq (fun k' a ha => ih k' a (List.mem_cons_of_mem _ ha)) hxs, Res.bind_ok]

/-- hashValue writes a stream that depends on the JSON value only -/
theorem hashEnc_eq : ∀ (x : GoVal) (j : Json), denote x = some j → hashEnc x = .ok (Json.enc j) := by
  intro x
  induction x using GoVal.induct with
  | ptr v ih => intro j h; simp only [hashEnc]; exact ih j (by simpa [denote] using h)
  | iface v ih => intro j h; simp only [hashEnc]; exact ih j (by simpa [denote] using h)
  | list xs ih =>
    intro j h
    simp only [denote, Option.map_eq_some_iff] at h
    obtain ⟨js, hjs, rfl⟩ := h
    simp only [hashEnc, Json.enc]
    rw [hashList_eq ih hjs, Res.bind_ok, denoteList_length hjs]
  | map kvs ih =>
    intro j h
    simp only [denote, Option.map_eq_some_iff] at h
    obtain ⟨js, hjs, rfl⟩ := h
    simp only [hashEnc, Json.enc]
    rw [hashEntries_eq ih hjs, Res.bind_ok, denoteObj_length hjs]
  | jnum q t =>
    intro j h
    cases q with
    | none => simp [denote] at h
    | some q => simp only [denote, Option.some.injEq] at h; subst h; simp [hashEnc, Json.enc]
  | other k => intro j h; simp [denote] at h
  | invalid | bool | int | uint | float | str =>
    intro j h
    simp only [denote, Option.some.injEq] at h
    subst h
    simp [hashEnc, Json.enc]

end Go

/-! ## C12: the uniqueItems loop -/

namespace GoVal

theorem denoteList_snoc : ∀ {pre : List GoVal} {jpre : List Json} {x : GoVal} {jx : Json},
    denoteList pre = some jpre → denote x = some jx → denoteList (pre ++ [x]) = some (jpre ++ [jx])
  | [], jpre, x, jx, h, hx => by
    simp [denoteList] at h; subst h
    exact denoteList_cons_some.2 ⟨jx, [], hx, by simp [denoteList], rfl⟩
  | y :: pre, jpre, x, jx, h, hx => by
    obtain ⟨jy, jpre', hy, hpre, rfl⟩ := denoteList_cons_some.1 h
    exact denoteList_cons_some.2 ⟨jy, jpre' ++ [jx], hy, denoteList_snoc hpre hx, rfl⟩

end GoVal

namespace Json

theorem wfList_snoc : ∀ {js : List Json} {j : Json}, wfList js = true → WF j = true → wfList (js ++ [j]) = true
  | [], j, _, hj => by simp [wfList, hj]
  | a :: js, j, h, hj => by
    simp only [wfList, Bool.and_eq_true, List.cons_append] at h ⊢
    exact ⟨h.1, wfList_snoc h.2 hj⟩

theorem all_and {α} (f g : α → Bool) : ∀ l : List α, l.all (fun y => f y && g y) = (l.all f && l.all g)
  | [] => rfl
  | a :: l => by
    simp only [List.all_cons, all_and f g l]
    cases f a <;> cases g a <;> simp

end Json

namespace Go
open GoVal

theorem checkSames_eq (hash : GoVal → UInt64) (x : GoVal) (jx : Json) (hx : denote x = some jx) :
    ∀ (pre : List GoVal) (jpre : List Json), denoteList pre = some jpre →
      (∀ y, y ∈ pre → equalValue x y = .ok true → hash x = hash y) →
      checkSames x ((pre.map fun e => (hash e, e)).filter fun p => p.1 == hash x)
        = .ok (jpre.any fun p => Json.eqv jx p)
  | [], jpre, h, _ => by simp [denoteList] at h; subst h; simp [checkSames]
  | y :: pre, jpre, h, hh => by
    obtain ⟨jy, jpre', hy, hpre, rfl⟩ := denoteList_cons_some.1 h
    have ih := checkSames_eq hash x jx hx pre jpre' hpre
      (fun z hz => hh z (List.mem_cons_of_mem _ hz))
    have he := equalValue_eq x y jx jy hx hy
    simp only [List.map_cons, List.filter_cons, List.any_cons]
    by_cases hhash : hash y = hash x
    · simp only [hhash, beq_self_eq_true, if_true, checkSames]
      rw [he, Res.bind_ok, ih]
      cases Json.eqv jx jy <;> simp
    · have hne : (hash y == hash x) = false := by simpa using hhash
      simp only [hne, Bool.false_eq_true, if_false]
      have : Json.eqv jx jy = false := by
        cases hq : Json.eqv jx jy with
        | false => rfl
        | true =>
          rw [hq] at he
          exact absurd (hh y List.mem_cons_self he).symm hhash
      rw [ih, this, Bool.false_or]

theorem uniqueLoop_eq (hash : GoVal → UInt64) : ∀ (xs pre : List GoVal) (jxs jpre : List Json),
    denoteList xs = some jxs → denoteList pre = some jpre →
    Json.wfList jxs = true → Json.wfList jpre = true →
    (∀ x y, x ∈ pre ++ xs → y ∈ pre ++ xs → equalValue x y = .ok true → hash x = hash y) →
    uniqueLoop hash xs (pre.map fun e => (hash e, e)) =
      if ((jxs.all fun x => jpre.all fun p => !Json.eqv p x) && Spec.distinct jxs) = true
      then .ok () else .err
  | [], pre, jxs, jpre, h, _, _, _, _ => by
    simp [denoteList] at h; subst h; simp [uniqueLoop, Spec.distinct]
  | x :: xs, pre, jxs, jpre, h, hpre, wxs, wpre, hh => by
    obtain ⟨jx, jxs', hx, hxs, rfl⟩ := denoteList_cons_some.1 h
    simp only [Json.wfList, Bool.and_eq_true] at wxs
    simp only [uniqueLoop]
    rw [checkSames_eq hash x jx hx pre jpre hpre
      (fun y hy => hh x y (by simp) (List.mem_append_left _ hy)), Res.bind_ok]
    cases hdup : jpre.any fun p => Json.eqv jx p with
    | true =>
      obtain ⟨p, hp, hep⟩ := List.any_eq_true.1 hdup
      have hpe : Json.eqv p jx = true :=
        Json.eqv_symm_imp jx p wxs.1 (Json.WF_of_mem_list wpre p hp) hep
      have : (jpre.all fun p => !Json.eqv p jx) = false := by
        cases hq : (jpre.all fun p => !Json.eqv p jx) with
        | false => rfl
        | true =>
          have := List.all_eq_true.1 hq p hp
          simp [hpe] at this
      simp [this]
    | false =>
      have hall : (jpre.all fun p => !Json.eqv p jx) = true := by
        rw [List.all_eq_true]
        intro p hp
        cases hq : Json.eqv p jx with
        | false => rfl
        | true =>
          have h1 := Json.eqv_symm_imp p jx (Json.WF_of_mem_list wpre p hp) wxs.1 hq
          have h2 : (jpre.any fun p => Json.eqv jx p) = true := List.any_eq_true.2 ⟨p, hp, h1⟩
          rw [hdup] at h2
          cases h2
      have hmap : (pre.map fun e => (hash e, e)) ++ [(hash x, x)] = (pre ++ [x]).map fun e => (hash e, e) := by
        simp
      simp only [Bool.false_eq_true, if_false]
      rw [hmap, uniqueLoop_eq hash xs (pre ++ [x]) jxs' (jpre ++ [jx]) hxs (denoteList_snoc hpre hx) wxs.2
        (Json.wfList_snoc wpre wxs.1)
        (by intro a b ha hb; exact hh a b (by simpa using ha) (by simpa using hb))]
      have hc : ((jxs'.all fun x => (jpre ++ [jx]).all fun p => !Json.eqv p x) && Spec.distinct jxs')
          = (((jx :: jxs').all fun x => jpre.all fun p => !Json.eqv p x) && Spec.distinct (jx :: jxs')) := by
        simp only [List.all_append, List.all_cons, List.all_nil, Bool.and_true, Spec.distinct, hall,
          Bool.true_and, Json.all_and, Bool.and_assoc]
      rw [hc]

theorem distinct_short : ∀ {js : List Json}, js.length ≤ 1 → Spec.distinct js = true
  | [], _ => rfl
  | [_], _ => rfl
  | _ :: _ :: _, h => by simp at h

theorem uniqueItems_eq (hash : GoVal → UInt64) (items : List GoVal) (js : List Json)
    (hd : denoteList items = some js) (hw : Json.wfList js = true)
    (hh : ∀ x y, x ∈ items → y ∈ items → equalValue x y = .ok true → hash x = hash y) :
    uniqueItems hash items = if Spec.distinct js = true then .ok () else .err := by
  unfold uniqueItems
  by_cases hl : items.length > 1
  · simp only [hl, if_true]
    have := uniqueLoop_eq hash items [] js [] hd (by simp [denoteList]) hw (by simp [Json.wfList])
      (by simpa using hh)
    have ht : (js.all fun x => ([] : List Json).all fun p => !Json.eqv p x) = true := by simp
    rw [ht, Bool.true_and] at this
    exact this
  · simp only [hl, if_false]
    rw [distinct_short (by rw [denoteList_length hd]; omega)]
    simp

end Go

end JSV
