/-
  C14 helpers, part 5: properties / patternProperties / additionalProperties, one step of the Spec, all fuels.
-/
import JSV.Proofs.InvPerm4
namespace JSV
namespace Inv
open Go GoVal Refine

/-- same key, results that agree -/
def KO (p q : String × Spec.Out) : Prop := p.1 = q.1 ∧ OutSim p.2 q.2

theorem KO_keys {l1 l2 : List (String × Spec.Out)} (h : PR KO l1 l2) : (l1.map (·.1)).Perm (l2.map (·.1)) :=
  PR.perm_of_eq (PR.map _ _ h (fun _ _ hr => hr.1))

section
variable {sub1 sub2 : NodeId → Json → Spec.Out} (hs : SubSim sub1 sub2)
include hs

theorem namedL_sim {k1 k2 : List (String × Json)} (hpr : PR ERW k1 k2) {props1 props2 : List (String × NodeId)}
    (hp : props1.Perm props2) (hn : (Json.keys props1).Nodup) :
    PR KO (namedL sub1 props1 k1) (namedL sub2 props2 k2) := by
  unfold namedL
  refine PR.filterMap _ _ hpr (fun p q hr => ?_)
  rw [lookup_perm hp hn, ← hr.1]
  cases Json.lookup p.1 props2 with
  | none => trivial
  | some t => exact ⟨rfl, hs t p.2 q.2 hr.2.1 hr.2.2⟩

theorem patternedL_sim (reMatch : String → String → Bool) {k1 k2 : List (String × Json)} (hpr : PR ERW k1 k2)
    {pats1 pats2 : List (String × NodeId)} (hp : pats1.Perm pats2) :
    PR KO (patternedL reMatch sub1 pats1 k1) (patternedL reMatch sub2 pats2 k2) := by
  unfold patternedL
  refine PR.flatMap _ _ hpr (fun p q hr => ?_)
  rw [← hr.1]
  refine PR.map _ _ (PR.of_perm (R := (· = ·)) (fun _ _ => rfl) (hp.filter _)) (fun a b hab => ?_)
  subst hab
  exact ⟨rfl, hs a.2 p.2 q.2 hr.2.1 hr.2.2⟩

theorem additionalL_sim (t : NodeId) {c1 c2 : List String} (hc : ∀ k, c1.contains k = c2.contains k)
    {k1 k2 : List (String × Json)} (hpr : PR ERW k1 k2) :
    PR KO (additionalL sub1 t c1 k1) (additionalL sub2 t c2 k2) := by
  unfold additionalL
  refine PR.map _ _ (PR.filter _ _ hpr (fun p q hr => ?_)) (fun p q hr => ⟨hr.1, hs t p.2 q.2 hr.2.1 hr.2.2⟩)
  rw [hc, hr.1]

theorem coveredL_sim (reMatch : String → String → Bool) {k1 k2 : List (String × Json)} (hpr : PR ERW k1 k2)
    {props1 props2 pats1 pats2 : List (String × NodeId)} (hp : props1.Perm props2) (hn : (Json.keys props1).Nodup)
    (hpp : pats1.Perm pats2) (k : String) :
    (coveredL reMatch sub1 props1 pats1 k1).contains k = (coveredL reMatch sub2 props2 pats2 k2).contains k := by
  unfold coveredL
  exact ((KO_keys (namedL_sim hs hpr hp hn)).append (KO_keys (patternedL_sim hs reMatch hpr hpp))).contains_eq

theorem kwProps_sim (env : Spec.Env) (n1 n2 : Node) {j1 j2 : Json} (hj : permJson j1 j2) (hw : Json.WF j1 = true)
    (hp : (n1.properties.getD []).Perm (n2.properties.getD []))
    (hn : (Json.keys (n1.properties.getD [])).Nodup)
    (hpp : (n1.patternProperties.getD []).Perm (n2.patternProperties.getD []))
    (hap : n2.additionalProperties = n1.additionalProperties) :
    OutSim (Spec.kwProps env sub1 n1 j1) (Spec.kwProps env sub2 n2 j2) := by
  cases j1 <;> cases j2 <;> try (first | exact OutSim_empty | (simp [permJson] at hj; done))
  rename_i k1 k2
  have hpr := permJson_obj_PR hj hw
  have hnamed := namedL_sim hs hpr hp hn
  have hpat := patternedL_sim hs env.reMatch hpr hpp
  cases ha : n1.additionalProperties with
  | none =>
    rw [kwProps_none env sub1 n1 k1 ha, kwProps_none env sub2 n2 k2 (hap.trans ha)]
    have hall := (hnamed.append hpat).append (PR.nil (R := KO))
    refine seq_map_sim (R := RSim) (PR.map _ _ hall (fun _ _ hr => hr.2)) _ _ (fun rs1 rs2 h => ?_)
    rw [allHold_sim h]
    split
    · exact ⟨fun k => (KO_keys hall).mem_iff, fun _ => Iff.rfl⟩
    · trivial
  | some t =>
    rw [kwProps_some env sub1 n1 k1 t ha, kwProps_some env sub2 n2 k2 t (hap.trans ha)]
    have hall := (hnamed.append hpat).append
      (additionalL_sim hs t (coveredL_sim hs env.reMatch hpr hp hn hpp) hpr)
    refine seq_map_sim (R := RSim) (PR.map _ _ hall (fun _ _ hr => hr.2)) _ _ (fun rs1 rs2 h => ?_)
    rw [allHold_sim h]
    split
    · exact ⟨fun k => (KO_keys hall).mem_iff, fun _ => Iff.rfl⟩
    · trivial

end

/-! ## one schema object -/

/-- the twelve applicator keywords, in the order of `Spec.evalStep` -/
def kwList (env : Spec.Env) (rec : Spec.Rec) (scope0 : List NodeId) (s : NodeId) (j : Json) (n : Node) :
    List (Option Spec.R) :=
  [Spec.kwRef env (rec (scope0 ++ [s])) s n j,
   Spec.kwDynamicRef env (rec (scope0 ++ [s])) (scope0 ++ [s]) s (Spec.vocab env.draft n) j,
   Spec.kwAllOf (rec (scope0 ++ [s])) n j, Spec.kwAnyOf (rec (scope0 ++ [s])) n j,
   Spec.kwOneOf (rec (scope0 ++ [s])) n j, Spec.kwNot (rec (scope0 ++ [s])) n j,
   Spec.kwIf (rec (scope0 ++ [s])) n j, Spec.kwItems env (rec (scope0 ++ [s])) n j,
   Spec.kwContains (rec (scope0 ++ [s])) (Spec.vocab env.draft n) j, Spec.kwProps env (rec (scope0 ++ [s])) n j,
   Spec.kwPropertyNames (rec (scope0 ++ [s])) n j, Spec.kwDependentSchemas env (rec (scope0 ++ [s])) n j]

def assertsOf (env : Spec.Env) (n : Node) (j : Json) : Bool :=
  Spec.typeOk n j && Spec.enumOk n j && Spec.constOk n j && Spec.numericOk n j && Spec.stringOk env n j &&
    Spec.arrayLimitsOk n j && Spec.objectLimitsOk env n j

/-- `Spec.evalStep` once the schema object has been fetched -/
def specBody (env : Spec.Env) (rec : Spec.Rec) (scope0 : List NodeId) (s : NodeId) (j : Json) (n : Node) : Spec.Out :=
  if env.draft == .d7 && n.ref != "" then
    (Spec.kwRef env (rec (scope0 ++ [s])) s n j).map fun r => r.map fun _ => {}
  else
    match Spec.sequence (kwList env rec scope0 s j n) with
    | none => none
    | some rs =>
      specTail (Spec.conj rs) (assertsOf env n j)
        (Spec.kwUnevaluatedItems (rec (scope0 ++ [s])) (Spec.vocab env.draft n) j)
        (Spec.kwUnevaluatedProps (rec (scope0 ++ [s])) (Spec.vocab env.draft n) j)

theorem evalStep_unfold (env : Spec.Env) (rec : Spec.Rec) (scope0 : List NodeId) (s : NodeId) (j : Json) :
    Spec.evalStep env rec scope0 s j =
      match env.st.get? s with
      | none => none
      | some n => specBody env rec scope0 s j n := by
  unfold Spec.evalStep
  cases env.st.get? s with
  | none => rfl
  | some n =>
    dsimp only
    by_cases hc : (env.draft == .d7 && n.ref != "") = true
    · simp only [specBody, hc, if_true]
    · cases hsq : Spec.sequence (kwList env rec scope0 s j n) with
      | none =>
        have hsq' := hsq
        unfold kwList at hsq'
        simp only [specBody, hc, hsq, hsq']
      | some rs =>
        have hsq' := hsq
        unfold kwList at hsq'
        simp only [specBody, hc, hsq, hsq', assertsOf, specTail]
        cases Spec.conj rs with
        | none => rfl
        | some ev0 =>
          dsimp only
          split
          · rfl
          · cases Spec.kwUnevaluatedItems (rec (scope0 ++ [s])) (Spec.vocab env.draft n) j ev0 <;>
              cases Spec.kwUnevaluatedProps (rec (scope0 ++ [s])) (Spec.vocab env.draft n) j ev0 <;> rfl

theorem specBody_store (env : Spec.Env) (st : Store) (rec : Spec.Rec) (scope0 : List NodeId) (s : NodeId) (j : Json)
    (n : Node) : specBody { env with st := st } rec scope0 s j n = specBody env rec scope0 s j n := rfl

/-- the recursive calls agree on instances equal up to key order -/
def RecSim (rec1 rec2 : Spec.Rec) : Prop :=
  ∀ scope s j1 j2, permJson j1 j2 → Json.WF j1 = true → OutSim (rec1 scope s j1) (rec2 scope s j2)

theorem specTail_sim {R1 R2 : Spec.R} (hR : RSim R1 R2) (a : Bool) {ui1 ui2 up1 up2 : Spec.Ev → Option Spec.R}
    (hui : ∀ e1 e2, EvEqv e1 e2 → OutSim (ui1 e1) (ui2 e2)) (hup : ∀ e1 e2, EvEqv e1 e2 → OutSim (up1 e1) (up2 e2)) :
    OutSim (specTail R1 a ui1 up1) (specTail R2 a ui2 up2) := by
  unfold specTail
  cases R1 <;> cases R2
  · trivial
  · exact hR.elim
  · exact hR.elim
  · rename_i e1 e2
    dsimp only
    split
    · trivial
    · have h1 := hui e1 e2 hR
      have h2 := hup e1 e2 hR
      cases hu1 : ui1 e1 <;> cases hu2 : ui2 e2 <;> rw [hu1, hu2] at h1 <;>
        cases hp1 : up1 e1 <;> cases hp2 : up2 e2 <;> rw [hp1, hp2] at h2 <;>
        first
          | trivial
          | exact h1.elim
          | exact h2.elim
          | exact conj_sim (PR.of_all₂ ⟨hR, h1, h2, trivial⟩)

theorem specBody_sim (env : Spec.Env) {rec1 rec2 : Spec.Rec} (hrec : RecSim rec1 rec2) (scope0 : List NodeId) (s : NodeId)
    {j1 j2 : Json} (hj : permJson j1 j2) (hw : Json.WF j1 = true) (n1 n2 : Node) (hn : permNode n1 n2)
    (hnd : (Json.keys (n1.properties.getD [])).Nodup) :
    OutSim (specBody env rec1 scope0 s j1 n1) (specBody env rec2 scope0 s j2 n2) := by
  obtain ⟨p, pp, d, df, ds, dst, dr, dsc, h1, h2, _, _, h5, h6, h7, h8, rfl⟩ := hn
  have hs : SubSim (rec1 (scope0 ++ [s])) (rec2 (scope0 ++ [s])) := fun t a b hab hwa => hrec _ t a b hab hwa
  unfold specBody
  dsimp only
  split
  · exact OptRel.map (kwRef_sim hs hj hw env s n1) (fun r1 r2 hr => OptRel.map hr (fun _ _ _ => EvEqv.refl _))
  · have hl : All₂ OutSim (kwList env rec1 scope0 s j1 n1)
        (kwList env rec2 scope0 s j2 (withMaps n1 p pp d df ds dst dr dsc)) :=
      ⟨kwRef_sim hs hj hw env s n1, kwDynamicRef_sim hs hj hw env _ s (Spec.vocab env.draft n1), kwAllOf_sim hs hj hw n1,
       kwAnyOf_sim hs hj hw n1, kwOneOf_sim hs hj hw n1, kwNot_sim hs hj hw n1, kwIf_sim hs hj hw n1,
       kwItems_sim hs hj hw env n1, kwContains_sim hs hj hw (Spec.vocab env.draft n1),
       kwProps_sim hs env n1 (withMaps n1 p pp d df ds dst dr dsc) hj hw h1.getD hnd h2.getD rfl,
       kwPropertyNames_sim hs hj hw n1,
       kwDependentSchemas_sim hs hj hw env n1 (withMaps n1 p pp d df ds dst dr dsc) h5.getD h8.getD, trivial⟩
    have hsq := sequence_all₂ hl
    have hasserts : assertsOf env n1 j1 = assertsOf env (withMaps n1 p pp d df ds dst dr dsc) j2 := by
      unfold assertsOf
      rw [typeOk_sim n1 hj, enumOk_sim n1 hj hw, constOk_sim n1 hj hw, numericOk_sim n1 hj, stringOk_sim env n1 hj,
        arrayLimitsOk_sim n1 hj hw, objectLimitsOk_sim env n1 (withMaps n1 p pp d df ds dst dr dsc) rfl rfl rfl h6.getD h7.getD hj hw]
      rfl
    rw [← hasserts]
    generalize Spec.sequence (kwList env rec1 scope0 s j1 n1) = sq1 at hsq ⊢
    generalize Spec.sequence (kwList env rec2 scope0 s j2 _) = sq2 at hsq ⊢
    cases sq1 <;> cases sq2
    · trivial
    · exact hsq.elim
    · exact hsq.elim
    · exact specTail_sim (conj_sim (PR.of_all₂ hsq)) _
        (fun e1 e2 he => kwUnevaluatedItems_sim hs hj hw (Spec.vocab env.draft n1) he)
        (fun e1 e2 he => kwUnevaluatedProps_sim hs hj hw (Spec.vocab env.draft n1) he)

/-- one step -/
theorem evalStep_sim (env : Spec.Env) (st1 st2 : Store) (hst : permStore st1 st2) (hwf : StoreWF st1)
    {rec1 rec2 : Spec.Rec} (hrec : RecSim rec1 rec2) :
    RecSim (Spec.evalStep { env with st := st1 } rec1) (Spec.evalStep { env with st := st2 } rec2) := by
  intro scope s j1 j2 hj hw
  rw [evalStep_unfold, evalStep_unfold]
  show OutSim (match Store.get? st1 s with
      | none => none
      | some n => specBody { env with st := st1 } rec1 scope s j1 n)
    (match Store.get? st2 s with
      | none => none
      | some n => specBody { env with st := st2 } rec2 scope s j2 n)
  have h := hst.2 s
  cases h1 : Store.get? st1 s <;> cases h2 : Store.get? st2 s <;> rw [h1, h2] at h
  · trivial
  · exact h.elim
  · exact h.elim
  · rename_i n1 n2
    show OutSim (specBody { env with st := st1 } rec1 scope s j1 n1) (specBody { env with st := st2 } rec2 scope s j2 n2)
    rw [specBody_store, specBody_store]
    exact specBody_sim env hrec scope s hj hw n1 n2 h (Json.nodupKeys_iff.1 (hwf s n1 h1))

theorem evalFuel_sim (env : Spec.Env) (st1 st2 : Store) (hst : permStore st1 st2) (hwf : StoreWF st1) :
    ∀ fuel, RecSim (Spec.evalFuel { env with st := st1 } fuel) (Spec.evalFuel { env with st := st2 } fuel)
  | 0 => fun _ _ _ _ _ _ => trivial
  | fuel + 1 => evalStep_sim env st1 st2 hst hwf (evalFuel_sim env st1 st2 hst hwf fuel)

end Inv
end JSV
