/-
  Helper definitions for C04 (embedded fields): `flatten T` — the struct types of `T` with their embedded structs
  dissolved: the fields of a struct are its live visible fields (reflect.VisibleFields without the anonymous, the
  unexported and the `json:"-"` ones), in order — and the proof that the schema `forTypeE` builds for a type of the
  domain is the schema of `flatten T` in the sense of `Go.Models`.
-/
import JSV.Proofs.InfEmbDom
namespace JSV
namespace EncJsonEmb
open Go EncJson

/-- the fields the struct loop enters: live and visible -/
def keep (all : List VField) (f : VField) : Bool := live f && isVisible all f

mutual
  def flatten : GoTypeE → GoType
    | .basic k => .basic k
    | .named n u => .named n (flatten u)
    | .ref n => .ref n
    | .ptr e => .ptr (flatten e)
    | .slice e => .slice (flatten e)
    | .array n e => .array n (flatten e)
    | .map k e => .map k (flatten e)
    | .struct fs => .struct (flattenFields (allFields [] 0 fs) [] 0 fs)
  /-- the walk of `allFields`, keeping the live visible fields (`all` is the walk of the outer struct) -/
  def flattenFields (all : List VField) (pre : List Nat) : Nat → List (FieldE GoTypeE) → List (String × String × GoType)
    | _, [] => []
    | i, f :: rest =>
      (if keep all { index := pre ++ [i], goName := f.goName, tag := f.tag, exported := f.exported, anonymous := f.embedded,
                     type := f.type }
       then [(f.goName, f.tag, flatten f.type)] else []) ++
      ((if f.embedded then flattenEmb all (pre ++ [i]) f.type else []) ++ flattenFields all pre (i + 1) rest)
  def flattenEmb (all : List VField) (idx : List Nat) : GoTypeE → List (String × String × GoType)
    | .ptr (.named _ (.struct fs)) => flattenFields all idx 0 fs
    | .ptr (.struct fs) => flattenFields all idx 0 fs
    | .named _ (.struct fs) => flattenFields all idx 0 fs
    | .struct fs => flattenFields all idx 0 fs
    | _ => []
end

/-- the plain field of a live field -/
def flatV (f : VField) : String × String × GoType := (f.goName, f.tag, flatten f.type)

/-- the plain fields the loop enters for a list of visible fields -/
def plainOf (vfs : List VField) : List (String × String × GoType) := (vfs.filter live).map flatV

theorem embViewF (t : GoTypeE) :
    (∃ fs, (∀ idx, embFields idx t = allFields idx 0 fs) ∧ (∀ all idx, flattenEmb all idx t = flattenFields all idx 0 fs) ∧
        wtFs fs < wt t) ∨
    ((∀ idx, embFields idx t = []) ∧ (∀ all idx, flattenEmb all idx t = [])) := by
  cases t with
  | ptr e =>
    cases e with
    | named nm u =>
      cases u with
      | struct fs => exact Or.inl ⟨fs, fun _ => rfl, fun _ _ => rfl, by simp only [wt]; omega⟩
      | _ => exact Or.inr ⟨fun _ => rfl, fun _ _ => rfl⟩
    | struct fs => exact Or.inl ⟨fs, fun _ => rfl, fun _ _ => rfl, by simp only [wt]; omega⟩
    | _ => exact Or.inr ⟨fun _ => rfl, fun _ _ => rfl⟩
  | named nm u =>
    cases u with
    | struct fs => exact Or.inl ⟨fs, fun _ => rfl, fun _ _ => rfl, by simp only [wt]; omega⟩
    | _ => exact Or.inr ⟨fun _ => rfl, fun _ _ => rfl⟩
  | struct fs => exact Or.inl ⟨fs, fun _ => rfl, fun _ _ => rfl, by simp only [wt]; omega⟩
  | _ => exact Or.inr ⟨fun _ => rfl, fun _ _ => rfl⟩

theorem flattenFields_eq (all : List VField) : ∀ (n : Nat) (fs : List (FieldE GoTypeE)) (pre : List Nat) (i : Nat),
    wtFs fs ≤ n → flattenFields all pre i fs = ((allFields pre i fs).filter (keep all)).map flatV := by
  intro n
  induction n with
  | zero =>
    intro fs pre i hw
    cases fs with
    | nil => simp only [flattenFields, allFields, List.filter_nil, List.map_nil]
    | cons f rest => simp only [wtFs] at hw; omega
  | succ n ihn =>
    intro fs pre i hw
    cases fs with
    | nil => simp only [flattenFields, allFields, List.filter_nil, List.map_nil]
    | cons f rest =>
      simp only [wtFs] at hw
      simp only [flattenFields, allFields]
      rw [List.filter_cons, List.filter_append, ihn rest pre (i + 1) (by omega)]
      have hemb : (if f.embedded = true then flattenEmb all (pre ++ [i]) f.type else []) =
          ((if f.embedded = true then embFields (pre ++ [i]) f.type else []).filter (keep all)).map flatV := by
        cases f.embedded with
        | false => simp
        | true =>
          simp only [if_true]
          rcases embViewF f.type with ⟨fs', hf, hfl, hlt⟩ | ⟨hf, hfl⟩
          · rw [hf, hfl, ihn fs' _ 0 (by omega)]
          · rw [hf, hfl]
            rfl
      rw [hemb]
      split
      · simp only [List.map_cons, List.map_append, List.singleton_append]
        rfl
      · simp only [List.map_append, List.nil_append]

theorem flatten_struct (fs : List (FieldE GoTypeE)) : flatten (.struct fs) = .struct (plainOf (visibleFields fs)) := by
  simp only [flatten]
  rw [flattenFields_eq _ _ fs [] 0 (Nat.le_refl _)]
  unfold plainOf visibleFields
  rw [List.filter_filter]
  rfl

/-! ## names of the plain fields -/

theorem fieldJSONInfo_of_live {f : VField} (hl : live f = true) : (fieldJSONInfo f.goName f.tag).omitted = false := by
  unfold live at hl
  simp only [Bool.and_eq_true, Bool.not_eq_true'] at hl
  exact hl.2

theorem jsonNames_plainOf : ∀ (vfs : List VField), jsonNames (plainOf vfs) = loopNames vfs
  | [] => rfl
  | f :: rest => by
    unfold plainOf loopNames
    rw [List.filter_cons]
    split
    · rename_i hl
      rw [List.map_cons, List.map_cons, jsonNames_cons]
      simp only [flatV, fieldJSONInfo_of_live hl, Bool.false_eq_true, if_false]
      congr 1
      exact jsonNames_plainOf rest
    · exact jsonNames_plainOf rest

theorem alwaysNames_plainOf : ∀ (vfs : List VField), alwaysNames (plainOf vfs) = loopAlways vfs
  | [] => rfl
  | f :: rest => by
    have ih := alwaysNames_plainOf rest
    unfold plainOf loopAlways at ih ⊢
    rw [List.filter_cons, List.filter_cons]
    cases hl : live f with
    | false =>
      have : alwaysLive f = false := by unfold alwaysLive; simp [hl]
      simp only [this, Bool.false_eq_true, if_false]
      exact ih
    | true =>
      simp only [if_true, List.map_cons]
      rw [alwaysNames_cons]
      simp only [flatV, fieldJSONInfo_of_live hl, Bool.false_or]
      have hal : alwaysLive f = (!(fieldJSONInfo f.goName f.tag).omitempty && !(fieldJSONInfo f.goName f.tag).omitzero) := by
        unfold alwaysLive
        simp only [hl, Bool.true_and]
      rw [hal]
      cases he : (fieldJSONInfo f.goName f.tag).omitempty <;> cases hz : (fieldJSONInfo f.goName f.tag).omitzero <;>
        simp [ih, jsonNameOf]

end EncJsonEmb
end JSV

namespace JSV
namespace Go
open EncJsonEmb EncJson

/-! ## `forTypeE` builds the schema of `flatten T` -/

/-- what the loop needs of the recursive call -/
def RecModelsE (nfs : Bool) (rec : IRecE) (seen : List String) (vfs : List VField) : Prop :=
  ∀ f, f ∈ vfs → live f = true → ∀ st r st1, rec f.type seen st = .ok (r, st1) →
    ∃ fid, r = some fid ∧ Models nfs st1 (flatten f.type) false fid

theorem setDescriptionE_dext (st : Store) (fid : NodeId) (d : String) : DExt st (setDescriptionE st fid d) :=
  descSet_dext st fid d

theorem plainOf_cons (f : VField) (rest : List VField) :
    plainOf (f :: rest) = if live f then flatV f :: plainOf rest else plainOf rest := by
  unfold plainOf
  rw [List.filter_cons]
  split <;> rfl

theorem structLoopE_models {nfs : Bool} {opts : IOpts} {rec : IRecE} (hinv : IRecEInv rec) {seen : List String} :
    ∀ (vfs : List VField) {n : Node} {st : Store} {n' : Node} {st' : Store},
      NoOverride opts vfs → RecModelsE nfs rec seen vfs → structLoopE opts rec seen vfs none n st = .ok (n', st') →
      (loopNames vfs).Nodup →
      (∀ k, k ∈ loopNames vfs → Json.lookup k (n.properties.getD []) = none) →
      ModelsFields nfs st' (plainOf vfs) (n'.properties.getD []) ∧
      ∀ k t, Json.lookup k (n.properties.getD []) = some t → Json.lookup k (n'.properties.getD []) = some t
  | [], n, st, n', st', _, _, h, _, _ => by
    simp only [structLoopE] at h
    cases h
    exact ⟨by simp only [plainOf, List.filter_nil, List.map_nil, ModelsFields], fun _ _ h => h⟩
  | f :: rest, n, st, n', st', hno, hrec, h, hnd, hfree => by
    have hno' : NoOverride opts rest := fun g hg => hno g (List.mem_cons_of_mem _ hg)
    have hrec' : RecModelsE nfs rec seen rest := fun g hg => hrec g (List.mem_cons_of_mem _ hg)
    rw [structLoopE_cons_none (hno f List.mem_cons_self)] at h
    rw [loopNames_cons] at hnd hfree
    rw [plainOf_cons]
    cases ha : f.anonymous with
    | true =>
      rw [ha] at h
      simp only [if_true] at h
      have hl : live f = false := by unfold live; simp [ha]
      simp only [hl, Bool.false_eq_true, if_false] at hnd hfree ⊢
      obtain ⟨hm, hk⟩ := structLoopE_models hinv rest hno' hrec' h hnd (by rw [ensureProps_getD]; exact hfree)
      rw [ensureProps_getD] at hk
      exact ⟨hm, hk⟩
    | false =>
      rw [ha] at h
      simp only [Bool.false_eq_true, if_false] at h
      obtain ⟨⟨n1, st1⟩, hstep, hloop⟩ := Res.bind_eq_ok h
      simp only at hloop
      have hlive := live_of_not_anonymous ha
      rcases fieldStepE_ok hstep with ⟨ho, rfl, rfl⟩ | ⟨ho, st2, hr, rfl, rfl⟩ | ⟨ho, fid, st2, hr, rfl, hst⟩
      · have hl : live f = false := by rw [hlive, ho]; rfl
        simp only [hl, Bool.false_eq_true, if_false] at hnd hfree ⊢
        obtain ⟨hm, hk⟩ := structLoopE_models hinv rest hno' hrec' hloop hnd (by rw [ensureProps_getD]; exact hfree)
        rw [ensureProps_getD] at hk
        exact ⟨hm, hk⟩
      · have hl : live f = true := by rw [hlive, ho]; rfl
        obtain ⟨fid, hfid, _⟩ := hrec f List.mem_cons_self hl _ _ _ hr
        cases hfid
      · have hl : live f = true := by rw [hlive, ho]; rfl
        have hinfo := fieldJSONInfoE_of_live hl
        rw [hinfo] at hloop
        simp only [hl, if_true, List.nodup_cons] at hnd hfree ⊢
        obtain ⟨fid', hfid, hmod⟩ := hrec f List.mem_cons_self hl _ _ _ hr
        cases hfid
        have hfree' : ∀ k, k ∈ loopNames rest →
            Json.lookup k ((addFieldE (ensureProps n) (fieldJSONInfo f.goName f.tag) fid).properties.getD []) = none := by
          intro k hk
          have hne : k ≠ (fieldJSONInfo f.goName f.tag).name := fun e => hnd.1 (by unfold jsonNameOf; rw [← e]; exact hk)
          simp only [addFieldE, Option.getD_some]
          rw [lookup_filter_append_ne hne, ensureProps_getD]
          exact hfree k (List.mem_cons_of_mem _ hk)
        obtain ⟨hm, hk⟩ := structLoopE_models hinv rest hno' hrec' hloop hnd.2 hfree'
        have hd12 : DExt st2 st1 := by
          rcases hst with rfl | ⟨d, rfl⟩
          · exact DExt.refl _
          · exact setDescriptionE_dext _ _ _
        have hd2 : DExt st1 st' := (structLoopE_inv opts hinv seen _ _ _ _ _ _ hloop).1.toDExt
        simp only [ModelsFields]
        refine ⟨⟨Or.inr ⟨fid, ?_, Models.mono (hd12.trans hd2) _ _ _ hmod⟩, hm⟩, ?_⟩
        · apply hk
          simp only [addFieldE, Option.getD_some, flatV]
          exact lookup_filter_append_self _ _ _
        · intro k t hkt
          apply hk
          have hne : k ≠ (fieldJSONInfo f.goName f.tag).name := fun e => by
            have hnone := hfree (jsonNameOf f) List.mem_cons_self
            unfold jsonNameOf at hnone
            rw [e, hnone] at hkt
            cases hkt
          simp only [addFieldE, Option.getD_some]
          rw [lookup_filter_append_ne hne, ensureProps_getD]
          exact hkt

theorem stripPtrsE_spec (nfs : Bool) : ∀ (T : GoTypeE), ∃ t an, stripPtrsE T = (t, an) ∧ (∀ e, t ≠ .ptr e) ∧
    InDomainE t = InDomainE T ∧ ∀ st b id, Models nfs st (flatten T) b id ↔ Models nfs st (flatten t) (b || an) id
  | .ptr e => by
    obtain ⟨t, an, h1, h2, h3, h4⟩ := stripPtrsE_spec nfs e
    refine ⟨t, true, by simp only [stripPtrsE, h1], h2, by rw [h3]; simp only [InDomainE], fun st b id => ?_⟩
    simp only [flatten, Models, Bool.or_true]
    rw [h4 st true id]
    simp
  | .basic k => ⟨_, false, rfl, (fun _ h => nomatch h), rfl, fun _ _ _ => by simp⟩
  | .named n u => ⟨_, false, rfl, (fun _ h => nomatch h), rfl, fun _ _ _ => by simp⟩
  | .ref n => ⟨_, false, rfl, (fun _ h => nomatch h), rfl, fun _ _ _ => by simp⟩
  | .slice e => ⟨_, false, rfl, (fun _ h => nomatch h), rfl, fun _ _ _ => by simp⟩
  | .array n e => ⟨_, false, rfl, (fun _ h => nomatch h), rfl, fun _ _ _ => by simp⟩
  | .map k e => ⟨_, false, rfl, (fun _ h => nomatch h), rfl, fun _ _ _ => by simp⟩
  | .struct fs => ⟨_, false, rfl, (fun _ h => nomatch h), rfl, fun _ _ _ => by simp⟩

mutual
  /-- no embedded field anywhere in `T` — in its structs, their embedded structs, the types of their fields, element
      types — is of a type that has a TypeSchemas entry (an embedded pointer type never has one) -/
  def EmbNotInTable (opts : IOpts) : GoTypeE → Prop
    | .basic _ => True
    | .ref _ => True
    | .named _ u => EmbNotInTable opts u
    | .ptr e => EmbNotInTable opts e
    | .slice e => EmbNotInTable opts e
    | .array _ e => EmbNotInTable opts e
    | .map _ e => EmbNotInTable opts e
    | .struct fs => EmbNotInTableFs opts fs
  def EmbNotInTableFs (opts : IOpts) : List (FieldE GoTypeE) → Prop
    | [] => True
    | f :: rest =>
      (f.embedded = true → ((typeNameE f.type).bind fun nm => Json.lookup nm opts.schemas) = none) ∧
      EmbNotInTable opts f.type ∧ EmbNotInTableFs opts rest
end

/-- in particular when there is no TypeSchemas entry at all -/
theorem embNotInTable_of_empty {opts : IOpts} (hno : ∀ nm, Json.lookup nm opts.schemas = none) :
    ∀ (n : Nat), (∀ T, wt T ≤ n → EmbNotInTable opts T) ∧ (∀ fs, wtFs fs ≤ n → EmbNotInTableFs opts fs) := by
  intro n
  induction n with
  | zero =>
    refine ⟨fun T hw => ?_, fun fs hw => ?_⟩
    · cases T <;> simp only [wt] at hw <;> first | trivial | omega
    · cases fs with
      | nil => trivial
      | cons f rest => simp only [wtFs] at hw; omega
  | succ n ih =>
    refine ⟨fun T hw => ?_, fun fs hw => ?_⟩
    · cases T with
      | basic _ => trivial
      | ref _ => trivial
      | named _ u => simp only [wt] at hw; simp only [EmbNotInTable]; exact ih.1 u (by omega)
      | ptr e => simp only [wt] at hw; simp only [EmbNotInTable]; exact ih.1 e (by omega)
      | slice e => simp only [wt] at hw; simp only [EmbNotInTable]; exact ih.1 e (by omega)
      | array _ e => simp only [wt] at hw; simp only [EmbNotInTable]; exact ih.1 e (by omega)
      | map _ e => simp only [wt] at hw; simp only [EmbNotInTable]; exact ih.1 e (by omega)
      | struct fs => simp only [wt] at hw; simp only [EmbNotInTable]; exact ih.2 fs (by omega)
    · cases fs with
      | nil => trivial
      | cons f rest =>
        simp only [wtFs] at hw
        simp only [EmbNotInTableFs]
        refine ⟨fun _ => ?_, ih.1 f.type (by omega), ih.2 rest (by omega)⟩
        cases typeNameE f.type with
        | none => rfl
        | some nm => exact hno nm

theorem embViewN (opts : IOpts) (t : GoTypeE) :
    (∃ fs, (∀ idx, embFields idx t = allFields idx 0 fs) ∧ (EmbNotInTable opts t → EmbNotInTableFs opts fs) ∧
        wtFs fs < wt t) ∨ (∀ idx, embFields idx t = []) := by
  cases t with
  | ptr e =>
    cases e with
    | named nm u =>
      cases u with
      | struct fs => exact Or.inl ⟨fs, fun _ => rfl, fun h => by simpa only [EmbNotInTable] using h, by simp only [wt]; omega⟩
      | _ => exact Or.inr fun _ => rfl
    | struct fs => exact Or.inl ⟨fs, fun _ => rfl, fun h => by simpa only [EmbNotInTable] using h, by simp only [wt]; omega⟩
    | _ => exact Or.inr fun _ => rfl
  | named nm u =>
    cases u with
    | struct fs => exact Or.inl ⟨fs, fun _ => rfl, fun h => by simpa only [EmbNotInTable] using h, by simp only [wt]; omega⟩
    | _ => exact Or.inr fun _ => rfl
  | struct fs => exact Or.inl ⟨fs, fun _ => rfl, fun h => by simpa only [EmbNotInTable] using h, by simp only [wt]; omega⟩
  | _ => exact Or.inr fun _ => rfl

theorem allFields_notInTable (opts : IOpts) : ∀ (n : Nat) (fs : List (FieldE GoTypeE)) (pre : List Nat) (i : Nat), wtFs fs ≤ n →
    EmbNotInTableFs opts fs → ∀ f, f ∈ allFields pre i fs →
      (f.anonymous = true → ((typeNameE f.type).bind fun nm => Json.lookup nm opts.schemas) = none) ∧
      EmbNotInTable opts f.type := by
  intro n
  induction n with
  | zero =>
    intro fs pre i hw _ f hf
    cases fs with
    | nil => simp only [allFields] at hf; cases hf
    | cons g rest => simp only [wtFs] at hw; omega
  | succ n ihn =>
    intro fs pre i hw hnt f hf
    cases fs with
    | nil => simp only [allFields] at hf; cases hf
    | cons g rest =>
      simp only [wtFs] at hw
      simp only [EmbNotInTableFs] at hnt
      simp only [allFields, List.mem_cons, List.mem_append] at hf
      rcases hf with rfl | hf | hf
      · exact ⟨hnt.1, hnt.2.1⟩
      · cases he : g.embedded with
        | false => rw [he] at hf; simp at hf
        | true =>
          rw [he] at hf
          simp only [if_true] at hf
          rcases embViewN opts g.type with ⟨fs', hfe, hsub, hlt⟩ | hfe
          · rw [hfe] at hf
            exact ihn fs' _ 0 (by omega) (hsub hnt.2.1) f hf
          · rw [hfe] at hf
            cases hf
      · exact ihn rest pre (i + 1) (by omega) hnt.2.2 f hf

theorem noOverride_of_embNotInTable {opts : IOpts} {fs : List (FieldE GoTypeE)} (h : EmbNotInTableFs opts fs) :
    NoOverride opts (visibleFields fs) :=
  fun f hf => (allFields_notInTable opts _ fs [] 0 (Nat.le_refl _) h f (mem_visibleFields hf)).1

theorem stripPtrsE_notInTable (opts : IOpts) : ∀ (T : GoTypeE), EmbNotInTable opts T → EmbNotInTable opts (stripPtrsE T).1
  | .ptr e, h => by
    simp only [EmbNotInTable] at h
    simp only [stripPtrsE]
    exact stripPtrsE_notInTable opts e h
  | .basic _, h => h
  | .named _ _, h => h
  | .ref _, h => h
  | .slice _, h => h
  | .array _ _, h => h
  | .map _ _, h => h
  | .struct _, h => h

/-- what is assumed of the recursive call on the domain -/
def RecOkE (opts : IOpts) (rec : IRecE) : Prop :=
  ∀ T seen st r st', InDomainE T = true → EmbNotInTable opts T → rec T seen st = .ok (r, st') →
    ∃ id, r = some id ∧ Models opts.nullForSlices st' (flatten T) false id

theorem inferStepE_models (opts : IOpts) {rec : IRecE}
    (hinv : IRecEInv rec) (hrec : RecOkE opts rec) : RecOkE opts (inferStepE opts rec) := by
  intro T seen st r st' hdomT hntT h
  obtain ⟨t, an, hs, hnp, hdom, hmod⟩ := stripPtrsE_spec opts.nullForSlices T
  rw [← hdom] at hdomT
  have hnt : EmbNotInTable opts t := by
    have := stripPtrsE_notInTable opts T hntT
    rw [hs] at this
    exact this
  simp only [hmod, Bool.false_or]
  cases t with
  | ptr e => exact absurd rfl (hnp e)
  | named nm u => simp [InDomainE] at hdomT
  | ref nm => simp [InDomainE] at hdomT
  | basic kind =>
    simp only [InDomainE] at hdomT
    obtain ⟨ty, mn, mx, hk⟩ := kindEntry_domain hdomT
    rw [inferStepE_basic hs, hk] at h
    cases h
    refine ⟨_, rfl, ?_⟩
    simp only [flatten, Models]
    exact ⟨ty, mn, mx, hk, HasNode.of_get (get?_push_size _ _)⟩
  | slice e =>
    simp only [InDomainE] at hdomT
    rw [inferStepE_slice hs] at h
    obtain ⟨⟨es, st1⟩, he, h⟩ := Res.bind_eq_ok h
    obtain ⟨eid, rfl, hm⟩ := hrec _ _ _ _ _ hdomT (by simpa only [EmbNotInTable] using hnt) he
    cases h
    refine ⟨_, rfl, ?_⟩
    simp only [flatten, Models]
    exact ⟨eid, Models.mono (Ext.push _ _).toDExt _ _ _ hm, HasNode.of_get (get?_push_size _ _)⟩
  | array len e =>
    simp only [InDomainE] at hdomT
    rw [inferStepE_array hs] at h
    obtain ⟨⟨es, st1⟩, he, h⟩ := Res.bind_eq_ok h
    obtain ⟨eid, rfl, hm⟩ := hrec _ _ _ _ _ hdomT (by simpa only [EmbNotInTable] using hnt) he
    cases h
    refine ⟨_, rfl, ?_⟩
    simp only [flatten, Models]
    exact ⟨eid, Models.mono (Ext.push _ _).toDExt _ _ _ hm, HasNode.of_get (get?_push_size _ _)⟩
  | map keyKind e =>
    simp only [InDomainE, Bool.and_eq_true, beq_iff_eq] at hdomT
    rw [inferStepE_map hs] at h
    simp only [hdomT.1, bne_self_eq_false, Bool.false_eq_true, if_false] at h
    obtain ⟨⟨es, st1⟩, he, h⟩ := Res.bind_eq_ok h
    obtain ⟨eid, rfl, hm⟩ := hrec _ _ _ _ _ hdomT.2 (by simpa only [EmbNotInTable] using hnt) he
    cases h
    refine ⟨_, rfl, ?_⟩
    simp only [flatten, Models]
    exact ⟨eid, Models.mono (Ext.push _ _).toDExt _ _ _ hm, HasNode.of_get (get?_push_size _ _)⟩
  | struct fields =>
    simp only [InDomainE, Bool.and_eq_true] at hdomT
    obtain ⟨hok, hdf⟩ := hdomT
    obtain ⟨n, st1, hl, rfl, rfl⟩ := inferStepE_struct_ok hs h
    refine ⟨_, rfl, ?_⟩
    have hntf : EmbNotInTableFs opts fields := by simpa only [EmbNotInTable] using hnt
    have hnov := noOverride_of_embNotInTable hntf
    have hrm : RecModelsE opts.nullForSlices rec seen (visibleFields fields) :=
      fun f hf hlive s r s1 hr =>
        hrec _ _ _ _ _ (allFields_domain _ fields [] 0 (Nat.le_refl _) hdf f (mem_visibleFields hf) hlive)
          (allFields_notInTable opts _ fields [] 0 (Nat.le_refl _) hntf f (mem_visibleFields hf)).2 hr
    have hndrop : NeverDropsE rec seen (visibleFields fields) := fun f hf hlive s s1 hr => by
      obtain ⟨fid, hfid, _⟩ := hrm f hf hlive s _ s1 hr
      cases hfid
    obtain ⟨hmf, _⟩ := structLoopE_models hinv (visibleFields fields) hnov hrm hl (loopNames_nodup hok) (fun _ _ => rfl)
    obtain ⟨_, hrq, hkeys, hcore0⟩ := structLoopE_lists (visibleFields fields) hnov hndrop hl
    have hcore := node_of_core hcore0
    have hext : Ext ((st.push emptyNode).push (falseNode st.size)) (st1.push (addNull an (finalOrder n))) :=
      (structLoopE_inv opts hinv seen _ _ _ _ _ _ hl).1.trans (Ext.push _ _)
    have hnot : HasNode (st1.push (addNull an (finalOrder n))) st.size emptyNode := by
      refine HasNode.of_get (hext.get? ?_)
      rw [get?_push_lt _ (by rw [Array.size_push]; exact Nat.lt_succ_self _)]
      exact get?_push_size _ _
    have hfalse : HasNode (st1.push (addNull an (finalOrder n))) (st.size + 1) (falseNode st.size) := by
      refine HasNode.of_get (hext.get? ?_)
      have := get?_push_size (st.push emptyNode) (falseNode st.size)
      rwa [Array.size_push] at this
    rw [flatten_struct]
    simp only [Models]
    refine ⟨st.size, st.size + 1, n.properties, (finalOrder n).propertyOrder, n.required, hnot, hfalse, ?_, ?_, ?_,
      ModelsFields.mono (Ext.push _ _).toDExt _ _ hmf⟩
    · refine HasNode.of_get ?_
      rw [get?_push_size]
      congr 2
      have : finalOrder n = { n with propertyOrder := (finalOrder n).propertyOrder } := by
        unfold finalOrder
        split
        · split <;> rfl
        · rfl
      rw [this, hcore]
      rfl
    · rw [hrq, alwaysNames_plainOf]
      rfl
    · intro k hk
      rw [jsonNames_plainOf]
      have := (hkeys k).1 hk
      simpa [structNode0] using this

theorem inferFuelE_models (opts : IOpts) : ∀ fuel, RecOkE opts (inferFuelE opts fuel)
  | 0 => fun _ _ _ _ _ _ _ h => by cases h
  | fuel + 1 => inferStepE_models opts (inferFuelE_inv opts fuel) (inferFuelE_models opts fuel)

end Go
end JSV
