/-
  Helper lemmas for C10 (second part): the invariant of the resolver state that rules out the nil map entries of
  resolveURIs / resolveRef, and its proof for resolveURIs.
-/
import JSV.Proofs.ResTot
namespace JSV
namespace Go
namespace RTot
open RInv
open Uri

/-! ### the invariant -/

/-- `x` has a base, the base is a schema of the document rooted at `r`, and the base has a URI -/
def HasBase (env : Env) (infos : List (NodeId × Info)) (r x : NodeId) : Prop :=
  ∃ i b, lookupNat x infos = some i ∧ i.base = some b ∧ b ∈ docNodes env r ∧ HasUri infos b

theorem HasBase.mono {env : Env} {V a b r x} (hle : InfoLe V a b)
    (hV : x ∈ V → ∀ b' ∈ V, b' ∈ docNodes env r) (h : HasBase env a r x) : HasBase env b r x := by
  obtain ⟨i, bb, hl, hb, hbN, hU⟩ := h
  obtain ⟨i', hl', _, hb'⟩ := hle x i hl
  rcases hb' with e | ⟨hx, b', hb', hb'V, hU'⟩
  · exact ⟨i', bb, hl', by rw [e, hb], hbN, HasUri.mono hle hU⟩
  · exact ⟨i', b', hl', hb', hV hx b' hb'V, hU'⟩

/-- every Resolved: its root is one of the document roots `R`, checkStructure accepts the root, the Resolved knows
    every schema checkStructure registers, each has an info record, and `resolvedURIs` points to such schemas -/
def DocInv (env : Env) (R : List NodeId) (s : RState) : Prop :=
  ∀ r d, s.doc? r = some d → r ∈ R ∧ r ∈ docNodes env r ∧
    (∀ x ∈ docNodes env r, d.known.contains x = true ∧ (lookupNat x s.infos).isSome = true) ∧
    (∀ e ∈ d.uris, e.2 ∈ docNodes env r)

/-- every cached URI belongs to a Resolved that exists -/
def LoadedInv (s : RState) : Prop := ∀ e ∈ s.loaded, (s.doc? e.2).isSome = true

/-- every schema of `r.all()` of every Resolved (except the one whose resolveURIs is running) has a base with a URI -/
def BaseInv (env : Env) (s : RState) (ex : Option NodeId) : Prop :=
  ∀ r, (s.doc? r).isSome = true → some r ≠ ex → ∀ x ∈ docAll env r, HasBase env s.infos r x

/-- documents with different roots share no schema object -/
def Sep (env : Env) (R : List NodeId) : Prop :=
  ∀ r1 ∈ R, ∀ r2 ∈ R, r1 ≠ r2 → ∀ x ∈ docNodes env r1, x ∉ docNodes env r2

/-- the roots of the loader documents are in `R` -/
def RootsIn (env : Env) (R : List NodeId) : Prop :=
  ∀ tbl k lroot, env.loader = some tbl → Json.lookup k tbl = some (.doc lroot) → lroot ∈ R

def DocsKeep (s s' : RState) : Prop := ∀ r, (s.doc? r).isSome = true → (s'.doc? r).isSome = true

theorem DocsKeep.refl (s : RState) : DocsKeep s s := fun _ h => h
theorem DocsKeep.trans {a b c : RState} (h1 : DocsKeep a b) (h2 : DocsKeep b c) : DocsKeep a c :=
  fun r h => h2 r (h1 r h)
theorem DocsKeep.of_docs_eq {s s' : RState} (h : s'.docs = s.docs) : DocsKeep s s' :=
  fun r hr => by rw [doc?_of_docs_eq h]; exact hr

structure Inv (env : Env) (R : List NodeId) (s : RState) : Prop where
  doc : DocInv env R s
  loaded : LoadedInv s
  base : BaseInv env s none

/-- the Resolved of `r` has a record for `x` -/
def Knows (s : RState) (r x : NodeId) : Prop :=
  ∃ d, s.doc? r = some d ∧ d.known.contains x = true ∧ (lookupNat x s.infos).isSome = true

theorem Knows.info? {s : RState} {r x : NodeId} (h : Knows s r x) :
    ∃ i, s.info? r x = some i ∧ lookupNat x s.infos = some i := by
  obtain ⟨d, hd, hk, hl⟩ := h
  cases hi : lookupNat x s.infos with
  | none => rw [hi] at hl; cases hl
  | some i =>
    refine ⟨i, ?_, rfl⟩
    unfold RState.info?
    rw [hd]
    simp only [hk, if_true]
    exact hi

theorem DocInv.knows {env : Env} {R s r d x} (h : DocInv env R s) (hd : s.doc? r = some d)
    (hx : x ∈ docNodes env r) : Knows s r x :=
  ⟨d, hd, ((h r d hd).2.2.1 x hx).1, ((h r d hd).2.2.1 x hx).2⟩

/-! ### transfer lemmas -/

theorem docInv_infos {env : Env} {R s s'} (h : DocInv env R s) (hd : s'.docs = s.docs)
    (hi : ∀ x, (lookupNat x s.infos).isSome = true → (lookupNat x s'.infos).isSome = true) : DocInv env R s' := by
  intro r d hd'
  rw [doc?_of_docs_eq hd] at hd'
  obtain ⟨h1, h2, h3, h4⟩ := h r d hd'
  exact ⟨h1, h2, fun x hx => ⟨(h3 x hx).1, hi x (h3 x hx).2⟩, h4⟩

theorem docInv_setDoc {env : Env} {R s} (h : DocInv env R s) (dn : DocRes) (h1 : dn.root ∈ R)
    (h2 : dn.root ∈ docNodes env dn.root)
    (h3 : ∀ x ∈ docNodes env dn.root, dn.known.contains x = true ∧ (lookupNat x s.infos).isSome = true)
    (h4 : ∀ e ∈ dn.uris, e.2 ∈ docNodes env dn.root) : DocInv env R (s.setDoc dn) := by
  intro r d hd
  rw [doc?_setDoc] at hd
  split at hd
  · rename_i hr
    subst hr
    simp only [Option.some.injEq] at hd
    subst hd
    exact ⟨h1, h2, h3, h4⟩
  · exact h r d hd

theorem docsKeep_setDoc (s : RState) (dn : DocRes) : DocsKeep s (s.setDoc dn) := by
  intro r hr
  rw [doc?_setDoc]
  split
  · rfl
  · exact hr

theorem doc?_setDoc_isSome (s : RState) (dn : DocRes) (h : (s.doc? dn.root).isSome = true) (r : NodeId) :
    ((s.setDoc dn).doc? r).isSome = (s.doc? r).isSome := by
  rw [doc?_setDoc]
  split
  · rename_i hr; subst hr; rw [h]; rfl
  · rfl

theorem loadedInv_of {s s' : RState} (h : LoadedInv s) (hl : s'.loaded = s.loaded) (hk : DocsKeep s s') :
    LoadedInv s' := by
  intro e he
  rw [hl] at he
  exact hk _ (h e he)

theorem baseInv_of {env : Env} {s s' : RState} {ex V} (h : BaseInv env s ex)
    (hd : ∀ r, (s'.doc? r).isSome = true → (s.doc? r).isSome = true)
    (hle : InfoLe V s.infos s'.infos)
    (hV : ∀ r, (s.doc? r).isSome = true → some r ≠ ex → ∀ x ∈ docAll env r, x ∈ V → ∀ b' ∈ V, b' ∈ docNodes env r) :
    BaseInv env s' ex := by
  intro r hr hne x hx
  exact HasBase.mono hle (hV r (hd r hr) hne x hx) (h r (hd r hr) hne x hx)

/-- updates of info records that keep `base` and URIs -/
theorem Inv.gentle {env : Env} {R s s'} (h : Inv env R s) (hd : s'.docs = s.docs) (hl : s'.loaded = s.loaded)
    (hle : InfoLe [] s.infos s'.infos) : Inv env R s' :=
  ⟨docInv_infos h.doc hd (fun x hx => hle.isSome x hx),
   loadedInv_of h.loaded hl (DocsKeep.of_docs_eq hd),
   baseInv_of h.base (fun r hr => by rw [doc?_of_docs_eq hd] at hr; exact hr) hle
     (fun _ _ _ _ _ hx => absurd hx (by simp))⟩

theorem Inv.updInfo {env : Env} {R s} (h : Inv env R s) (id : NodeId) (f : Info → Info)
    (hb : ∀ i, (f i).base = i.base) (hu : ∀ i, i.uri.isSome = true → (f i).uri.isSome = true) :
    Inv env R (s.updInfo id f) :=
  h.gentle (updInfo_docs s id f) (updInfo_same s id f).2 (infoLe_updInfo [] s id f hb hu)

theorem Inv.mergeKnown {env : Env} {R s} (h : Inv env R s) (a b : NodeId) :
    Inv env R (mergeKnown s a b) ∧ DocsKeep s (mergeKnown s a b) := by
  unfold Go.mergeKnown
  split
  · rename_i d l hd hl
    obtain ⟨h1, h2, h3, h4⟩ := h.doc a d hd
    have hroot := doc?_root s a d hd
    refine ⟨⟨?_, ?_, ?_⟩, docsKeep_setDoc _ _⟩
    · apply docInv_setDoc h.doc
      · show d.root ∈ R
        rw [hroot]; exact h1
      · show d.root ∈ docNodes env d.root
        rw [hroot]; exact h2
      · intro x hx
        have hx' : x ∈ docNodes env a := by rw [← hroot]; exact hx
        refine ⟨?_, (h3 x hx').2⟩
        have := (h3 x hx').1
        simp only [List.contains_eq_mem, List.mem_append, decide_eq_true_eq] at this ⊢
        exact Or.inl this
      · intro e he
        show e.2 ∈ docNodes env d.root
        rw [hroot]; exact h4 e he
    · exact loadedInv_of h.loaded rfl (docsKeep_setDoc _ _)
    · refine baseInv_of h.base ?_ (InfoLe.refl [] _) (fun _ _ _ _ _ hx => absurd hx (by simp))
      intro r hr
      rw [doc?_setDoc] at hr
      split at hr
      · rename_i e
        have e' : d.root = r := e
        rw [← e', hroot, hd]; rfl
      · exact hr
  · exact ⟨h, fun _ h => h⟩

/-- after the merge the referring Resolved knows the root of the referenced one -/
theorem mergeKnown_knows {env : Env} {R s} (h : Inv env R s) (a b : NodeId) (ha : (s.doc? a).isSome = true)
    (hb : (s.doc? b).isSome = true) : Knows (mergeKnown s a b) a b := by
  cases hd : s.doc? a with
  | none => rw [hd] at ha; cases ha
  | some d =>
    cases hl : s.doc? b with
    | none => rw [hl] at hb; cases hb
    | some l =>
      obtain ⟨_, hbb, hkn, _⟩ := h.doc b l hl
      have hroot := doc?_root s a d hd
      unfold Go.mergeKnown
      rw [hd, hl]
      simp only []
      refine ⟨{ d with known := d.known ++ l.known.filter (fun x => !d.known.contains x) }, ?_, ?_, (hkn b hbb).2⟩
      · rw [doc?_setDoc, if_pos hroot]
      · have := (hkn b hbb).1
        simp only [List.contains_eq_mem, List.mem_append, List.mem_filter, decide_eq_true_eq,
          Bool.not_eq_true', decide_eq_false_iff_not] at this ⊢
        by_cases hm : b ∈ d.known
        · exact Or.inl hm
        · exact Or.inr ⟨this, hm⟩

/-! ### resolveURIs -/

/-- the `$id` part of one step of resolveURIs (the `step` of `resolveURIsLoop`) -/
def uriStep (draft : Draft) (root : NodeId) (s : RState) (id base : NodeId) (n : Node) (baseInfo : Info) :
    Res (RState × NodeId) :=
  let ignore := draft == .d7 && n.ref != ""
  if n.id != "" && !ignore then
    Res.bind (Uri.parse n.id) fun idURI =>
      if draft == .d2020 && idURI.fragment != "" then .err
      else if draft == .d7 && idURI.fragment != "" then
        .ok (setAnchor s base id (stripHashPrefix n.id) false, base)
      else
        match baseInfo.uri with
        | none => .panic
        | some bu =>
          let u := Uri.resolveReference bu idURI
          if !Uri.isAbs u then .err
          else
            let s := s.updInfo id fun i => { i with uri := some u }
            let s := match s.doc? root with
              | some d => s.setDoc { d with uris := (d.uris.filter (·.1 != Uri.toString u)) ++ [(Uri.toString u, id)] }
              | none => s
            .ok (s, id)
  else .ok (s, base)

/-- the rest of the step: `info.base = base` and the anchors -/
def uriPost (draft : Draft) (s : RState) (id base : NodeId) (n : Node) : RState :=
  let s := s.updInfo id fun i => { i with base := some base }
  if draft == .d2020 then
    setAnchor (setAnchor s base id n.anchor false) base id n.dynamicAnchor true
  else s

theorem resolveURIsLoop_cons (env : Env) (draft : Draft) (root : NodeId) (fuel : Nat) (id base : NodeId)
    (work : List (NodeId × NodeId)) (s : RState) (n : Node) (i bi : Info)
    (hn : env.st.get? id = some n) (hi : lookupNat id s.infos = some i) (hb : lookupNat base s.infos = some bi) :
    resolveURIsLoop env draft root (fuel + 1) ((id, base) :: work) s =
      Res.bind (uriStep draft root s id base n bi) fun p =>
        resolveURIsLoop env draft root fuel ((n.children.map fun c => (c, p.2)) ++ work)
          (uriPost draft p.1 id p.2 n) := by
  rw [resolveURIsLoop, hn, hi, hb]
  rfl

theorem map_fst_pair (l : List NodeId) (b : NodeId) : (l.map fun c => (c, b)).map (·.1) = l := by
  induction l with
  | nil => rfl
  | cons x r ih => rw [List.map_cons, List.map_cons, ih]

theorem uriStep_spec (env : Env) (R : List NodeId) (draft : Draft) (root : NodeId) (s : RState) (id base : NodeId)
    (n : Node) (bi : Info) (hbu : bi.uri.isSome = true) (hidV : id ∈ docNodes env root)
    (hinv : DocInv env R s) (hidl : (lookupNat id s.infos).isSome = true) :
    Tot (uriStep draft root s id base n bi) (fun p =>
      InfoLe [] s.infos p.1.infos ∧ SameLL s p.1 ∧ (∀ r, (p.1.doc? r).isSome = (s.doc? r).isSome) ∧
      DocInv env R p.1 ∧ (p.2 = base ∨ (p.2 = id ∧ HasUri p.1.infos id))) := by
  unfold uriStep
  simp only []
  split
  · refine Tot.bind (Tot.of_ne_panic (parse_NoPF _).1) fun idURI _ _ => ?_
    split
    · exact Tot.err
    split
    · exact Tot.ok ⟨infoLe_setAnchor _ _ _ _ _ _, setAnchor_same _ _ _ _ _,
        fun r => by rw [doc?_of_docs_eq (setAnchor_docs _ _ _ _ _)],
        docInv_infos hinv (setAnchor_docs _ _ _ _ _) (fun x hx => (infoLe_setAnchor [] _ _ _ _ _).isSome x hx),
        Or.inl rfl⟩
    split
    · rename_i hnone
      rw [hnone] at hbu; cases hbu
    · rename_i bu _
      split
      · exact Tot.err
      · have le1 : InfoLe [] s.infos (s.updInfo id fun i => { i with uri := some (Uri.resolveReference bu idURI) }).infos :=
          infoLe_updInfo [] s id _ (fun _ => rfl) (fun _ _ => rfl)
        have inv1 : DocInv env R (s.updInfo id fun i => { i with uri := some (Uri.resolveReference bu idURI) }) :=
          docInv_infos hinv (updInfo_docs _ _ _) (fun x hx => le1.isSome x hx)
        have hU : HasUri (s.updInfo id fun i => { i with uri := some (Uri.resolveReference bu idURI) }).infos id := by
          unfold HasUri
          rw [updInfo_infos_lookup, if_pos rfl]
          cases hl : lookupNat id s.infos with
          | none => rw [hl] at hidl; cases hidl
          | some i => exact ⟨_, rfl, rfl⟩
        split
        · rename_i d hd
          have hd0 : s.doc? root = some d := by rw [← doc?_of_docs_eq (updInfo_docs s id _)]; exact hd
          obtain ⟨h1, h2, h3, h4⟩ := inv1 root d hd
          have hroot := doc?_root _ root d hd
          refine Tot.ok ⟨le1, (updInfo_same _ _ _).trans (setDoc_same _ _), ?_, ?_, Or.inr ⟨rfl, hU⟩⟩
          · intro r
            rw [doc?_setDoc_isSome _ _ (by show (RState.doc? _ d.root).isSome = true; rw [hroot, hd]; rfl),
              doc?_of_docs_eq (updInfo_docs s id _)]
          · apply docInv_setDoc inv1
            · show d.root ∈ R
              rw [hroot]; exact h1
            · show d.root ∈ docNodes env d.root
              rw [hroot]; exact h2
            · intro x hx
              exact h3 x (by rw [← hroot]; exact hx)
            · intro e he
              show e.2 ∈ docNodes env d.root
              rw [hroot]
              rcases List.mem_append.mp he with he | he
              · exact h4 e (List.mem_filter.mp he).1
              · simp only [List.mem_singleton] at he
                rw [he]; exact hidV
        · exact Tot.ok ⟨le1, updInfo_same _ _ _, fun r => by rw [doc?_of_docs_eq (updInfo_docs s id _)], inv1,
            Or.inr ⟨rfl, hU⟩⟩
  · exact Tot.ok ⟨InfoLe.refl _ _, SameLL.refl _, fun _ => rfl, hinv, Or.inl rfl⟩

theorem InfoLe.base_nil {a b : List (NodeId × Info)} (h : InfoLe [] a b) (x : NodeId) (i : Info)
    (hi : lookupNat x a = some i) : ∃ i', lookupNat x b = some i' ∧ i'.base = i.base := by
  obtain ⟨i', hl, _, hb⟩ := h x i hi
  rcases hb with e | ⟨hx, _⟩
  · exact ⟨i', hl, e⟩
  · cases hx

theorem uriPost_spec (draft : Draft) (s : RState) (id b1 : NodeId) (n : Node) (V : List NodeId)
    (hid : id ∈ V) (hb : b1 ∈ V) (hU : HasUri s.infos b1) :
    InfoLe V s.infos (uriPost draft s id b1 n).infos ∧ (uriPost draft s id b1 n).docs = s.docs ∧
    SameLL s (uriPost draft s id b1 n) ∧
    (∀ i, lookupNat id s.infos = some i →
      ∃ i2, lookupNat id (uriPost draft s id b1 n).infos = some i2 ∧ i2.base = some b1) := by
  have le1 := infoLe_setBase V s id b1 hid hb hU
  have hset : ∀ i, lookupNat id s.infos = some i →
      ∃ i2, lookupNat id (s.updInfo id fun i => { i with base := some b1 }).infos = some i2 ∧ i2.base = some b1 := by
    intro i hi
    rw [updInfo_infos_lookup, if_pos rfl, hi]
    exact ⟨_, rfl, rfl⟩
  unfold uriPost
  simp only []
  split
  · have la := infoLe_setAnchor [] (s.updInfo id fun i => { i with base := some b1 }) b1 id n.anchor false
    have lb := infoLe_setAnchor [] (setAnchor (s.updInfo id fun i => { i with base := some b1 }) b1 id n.anchor false)
      b1 id n.dynamicAnchor true
    refine ⟨le1.trans (la.trans lb).of_nil, ?_, ?_, ?_⟩
    · rw [setAnchor_docs, setAnchor_docs, updInfo_docs]
    · exact (updInfo_same _ _ _).trans ((setAnchor_same _ _ _ _ _).trans (setAnchor_same _ _ _ _ _))
    · intro i hi
      obtain ⟨i2, hl2, hb2⟩ := hset i hi
      obtain ⟨i3, hl3, hb3⟩ := (la.trans lb).base_nil id i2 hl2
      exact ⟨i3, hl3, by rw [hb3, hb2]⟩
  · exact ⟨le1, updInfo_docs _ _ _, updInfo_same _ _ _, hset⟩

/-- resolveURIs over a work list of schemas of the document: no nil map entry is met; afterwards every schema the
    traversal `Schema.all` meets (same order, same fuel) has a base with a URI -/
theorem resolveURIsLoop_tot (env : Env) (R : List NodeId) (draft : Draft) (root : NodeId) :
    ∀ fuel work s,
      (∀ w ∈ work, w.1 ∈ docNodes env root ∧ w.2 ∈ docNodes env root ∧ HasUri s.infos w.2) →
      DocInv env R s → (s.doc? root).isSome = true →
      Tot (resolveURIsLoop env draft root fuel work s) (fun s' =>
        InfoLe (docNodes env root) s.infos s'.infos ∧ SameLL s s' ∧
        (∀ r, (s'.doc? r).isSome = (s.doc? r).isSome) ∧ DocInv env R s' ∧
        ∀ x ∈ allNodes env.st fuel (work.map (·.1)), HasBase env s'.infos root x) := by
  intro fuel
  induction fuel with
  | zero => intro work s _ _ _; rw [resolveURIsLoop]; exact Tot.fuel
  | succ fuel ih =>
    intro work s hw hinv hroot
    cases work with
    | nil =>
      rw [resolveURIsLoop]
      exact Tot.ok ⟨InfoLe.refl _ _, SameLL.refl _, fun _ => rfl, hinv, fun x hx => by simp [allNodes] at hx⟩
    | cons w work =>
      obtain ⟨id, base⟩ := w
      obtain ⟨hidV, hbV, hbU⟩ := hw (id, base) (by simp)
      have hidV : id ∈ docNodes env root := hidV
      have hbV : base ∈ docNodes env root := hbV
      have hbU : HasUri s.infos base := hbU
      cases hd : s.doc? root with
      | none => rw [hd] at hroot; cases hroot
      | some d =>
      have hidl := ((hinv root d hd).2.2.1 id hidV).2
      cases hn : env.st.get? id with
      | none => have := docNodes_store env root id hidV; rw [hn] at this; cases this
      | some n =>
      cases hi : lookupNat id s.infos with
      | none => rw [hi] at hidl; cases hidl
      | some i =>
      obtain ⟨bi, hb, hbu⟩ := hbU
      rw [resolveURIsLoop_cons env draft root fuel id base work s n i bi hn hi hb]
      refine Tot.bind (uriStep_spec env R draft root s id base n bi hbu hidV hinv hidl) fun p _ hp => ?_
      obtain ⟨le1, same1, dk1, inv1, hb1⟩ := hp
      have hb1V : p.2 ∈ docNodes env root := by
        rcases hb1 with e | ⟨e, _⟩
        · rw [e]; exact hbV
        · rw [e]; exact hidV
      have hU1 : HasUri p.1.infos p.2 := by
        rcases hb1 with e | ⟨e, h⟩
        · rw [e]; exact HasUri.mono le1 ⟨bi, hb, hbu⟩
        · rw [e]; exact h
      obtain ⟨le2, docs2, same2, hbase2⟩ := uriPost_spec draft p.1 id p.2 n (docNodes env root) hidV hb1V hU1
      have inv2 : DocInv env R (uriPost draft p.1 id p.2 n) := docInv_infos inv1 docs2 (fun x hx => le2.isSome x hx)
      have hroot2 : ((uriPost draft p.1 id p.2 n).doc? root).isSome = true := by
        rw [doc?_of_docs_eq docs2, dk1, hd]; rfl
      refine (ih _ _ ?_ inv2 hroot2).mono ?_
      · intro w hw'
        rcases List.mem_append.mp hw' with hw' | hw'
        · obtain ⟨c, hc, e⟩ := List.mem_map.mp hw'
          rw [← e]
          exact ⟨docNodes_closed env root id hidV n hn c hc, hb1V, HasUri.mono le2 hU1⟩
        · obtain ⟨h1, h2, h3⟩ := hw w (List.mem_cons_of_mem _ hw')
          exact ⟨h1, h2, HasUri.mono le2 (HasUri.mono le1 h3)⟩
      · intro s' hs'
        obtain ⟨le3, same3, dk3, inv3, cov3⟩ := hs'
        refine ⟨(le1.of_nil.trans le2).trans le3, same1.trans (same2.trans same3),
          fun r => by rw [dk3, doc?_of_docs_eq docs2, dk1], inv3, ?_⟩
        intro x hx
        simp only [List.map_cons] at hx
        rw [allNodes, hn] at hx
        simp only [] at hx
        rcases List.mem_cons.mp hx with hx | hx
        · subst hx
          obtain ⟨i1, hl1⟩ : ∃ i1, lookupNat x p.1.infos = some i1 := by
            have := le1.isSome x hidl
            cases hh : lookupNat x p.1.infos with
            | none => rw [hh] at this; cases this
            | some i1 => exact ⟨i1, rfl⟩
          obtain ⟨i2, hl2, hb2⟩ := hbase2 i1 hl1
          exact HasBase.mono le3 (fun _ b' hb' => hb') ⟨i2, p.2, hl2, hb2, hb1V, HasUri.mono le2 hU1⟩
        · apply cov3 x
          rw [List.map_append, map_fst_pair]
          exact hx

end RTot
end Go
end JSV
