/-
  Helper lemmas for C03: invariants of the resolver state threaded through
  resolveDoc / resolveRefsLoop / resolveRef (open recursion on the loader callback, induction on fuel).
-/
import JSV.Model.Resolve
import JSV.Proofs.PtrWalk
namespace JSV
namespace Go
namespace RInv
open Uri

theorem bind_eq_ok {α β} {x : Res α} {f : α → Res β} {b : β} :
    Res.bind x f = .ok b ↔ ∃ a, x = .ok a ∧ f a = .ok b := by
  cases x <;> simp

/-! ### the relations -/

/-- `log` and `loaded` untouched -/
def SameLL (s s' : RState) : Prop := s'.log = s.log ∧ s'.loaded = s.loaded

/-- the log only grows at the end, loaded keys are never removed -/
def Ext (s s' : RState) : Prop :=
  (∃ l, s'.log = s.log ++ l) ∧
  (∀ k, (Json.lookup k s.loaded).isSome = true → (Json.lookup k s'.loaded).isSome = true)

/-- no URI was passed to the Loader twice, and every URI passed to it is cached in `loaded`,
    except possibly `key`: the URI whose document is being resolved right now -/
def LogOk (s : RState) (key : Option String) : Prop :=
  s.log.Nodup ∧ ∀ k ∈ s.log, some k = key ∨ (Json.lookup k s.loaded).isSome = true

/-- everything an info object points to exists in the store -/
def InfoOk (st : Store) (i : Info) : Prop :=
  (∀ a ∈ i.anchors, (st.get? a.2.schema).isSome = true) ∧
  (∀ t, i.resolvedRef = some t → (st.get? t).isSome = true) ∧
  (∀ t, i.resolvedDynamicRef = some t → (st.get? t).isSome = true)

def InfosOk (st : Store) (infos : List (NodeId × Info)) : Prop := ∀ e ∈ infos, InfoOk st e.2

theorem SameLL.refl (s : RState) : SameLL s s := ⟨rfl, rfl⟩
theorem SameLL.trans {a b c : RState} (h1 : SameLL a b) (h2 : SameLL b c) : SameLL a c :=
  ⟨h2.1.trans h1.1, h2.2.trans h1.2⟩
theorem Ext.refl (s : RState) : Ext s s := ⟨⟨[], by simp⟩, fun _ h => h⟩
theorem Ext.trans {a b c : RState} (h1 : Ext a b) (h2 : Ext b c) : Ext a c := by
  obtain ⟨⟨l1, e1⟩, m1⟩ := h1
  obtain ⟨⟨l2, e2⟩, m2⟩ := h2
  exact ⟨⟨l1 ++ l2, by rw [e2, e1, List.append_assoc]⟩, fun k h => m2 k (m1 k h)⟩
theorem SameLL.ext {a b : RState} (h : SameLL a b) : Ext a b :=
  ⟨⟨[], by rw [h.1]; simp⟩, fun k hk => by rw [h.2]; exact hk⟩
theorem SameLL.logOk {a b : RState} (h : SameLL a b) {key} (hl : LogOk a key) : LogOk b key := by
  unfold LogOk at *
  rw [h.1, h.2]; exact hl
theorem LogOk.weaken {s : RState} (h : LogOk s none) (key) : LogOk s key :=
  ⟨h.1, fun k hk => Or.inr ((h.2 k hk).resolve_left (by simp))⟩

/-! ### tables -/

theorem lookupNat_mem {α} (k : Nat) (l : List (Nat × α)) (v : α) (h : lookupNat k l = some v) :
    (k, v) ∈ l := by
  induction l with
  | nil => simp [lookupNat] at h
  | cons e r ih =>
    obtain ⟨k', v'⟩ := e
    unfold lookupNat at h
    split at h
    · rename_i hk; subst hk; simp at h; subst h; simp
    · exact List.mem_cons_of_mem _ (ih h)

theorem mem_setNat {α} (k : Nat) (v : α) (l : List (Nat × α)) (e : Nat × α) (h : e ∈ setNat k v l) :
    e ∈ l ∨ e = (k, v) := by
  induction l with
  | nil => simp [setNat] at h; exact Or.inr h
  | cons x r ih =>
    obtain ⟨k', v'⟩ := x
    unfold setNat at h
    split at h
    · rcases List.mem_cons.mp h with h | h
      · exact Or.inr h
      · exact Or.inl (List.mem_cons_of_mem _ h)
    · rcases List.mem_cons.mp h with h | h
      · exact Or.inl (by rw [h]; simp)
      · rcases ih h with h | h
        · exact Or.inl (List.mem_cons_of_mem _ h)
        · exact Or.inr h

/-! ### the state updates that do not touch log / loaded -/

theorem updInfo_same (s : RState) (id : NodeId) (f : Info → Info) : SameLL s (s.updInfo id f) := by
  unfold RState.updInfo; split <;> exact ⟨rfl, rfl⟩

theorem updInfo_docs (s : RState) (id : NodeId) (f : Info → Info) : (s.updInfo id f).docs = s.docs := by
  unfold RState.updInfo; split <;> rfl

theorem updInfo_infosOk (st : Store) (s : RState) (id : NodeId) (f : Info → Info)
    (h : InfosOk st s.infos) (hf : ∀ i, InfoOk st i → InfoOk st (f i)) :
    InfosOk st (s.updInfo id f).infos := by
  unfold RState.updInfo
  split
  · rename_i i hi
    intro e he
    rcases mem_setNat _ _ _ _ he with he | he
    · exact h e he
    · rw [he]; exact hf i (h _ (lookupNat_mem _ _ _ hi))
  · exact h

theorem setDoc_same (s : RState) (d : DocRes) : SameLL s (s.setDoc d) := ⟨rfl, rfl⟩
theorem setDoc_infos (s : RState) (d : DocRes) : (s.setDoc d).infos = s.infos := rfl

theorem mergeKnown_same (s : RState) (a b : NodeId) : SameLL s (mergeKnown s a b) := by
  unfold mergeKnown; split <;> exact ⟨rfl, rfl⟩
theorem mergeKnown_infos (s : RState) (a b : NodeId) : (mergeKnown s a b).infos = s.infos := by
  unfold mergeKnown; split <;> rfl

theorem setAnchor_same (s : RState) (b t : NodeId) (a : String) (d : Bool) : SameLL s (setAnchor s b t a d) := by
  unfold setAnchor; split
  · exact SameLL.refl s
  · exact updInfo_same _ _ _

theorem setAnchor_infosOk (st : Store) (s : RState) (b t : NodeId) (a : String) (d : Bool)
    (h : InfosOk st s.infos) (ht : (st.get? t).isSome = true) : InfosOk st (setAnchor s b t a d).infos := by
  unfold setAnchor; split
  · exact h
  · apply updInfo_infosOk st s b _ h
    intro i hi
    split
    · exact hi
    · refine ⟨?_, hi.2.1, hi.2.2⟩
      intro x hx
      rcases List.mem_append.mp hx with hx | hx
      · exact hi.1 x hx
      · simp at hx; subst hx; exact ht

/-! ### resolveURIs -/

theorem resolveURIsLoop_spec (env : Env) (draft : Draft) (root : NodeId) :
    ∀ fuel work s s', resolveURIsLoop env draft root fuel work s = .ok s' →
      SameLL s s' ∧ (InfosOk env.st s.infos → InfosOk env.st s'.infos) := by
  intro fuel
  induction fuel with
  | zero => intro work s s' h; simp [resolveURIsLoop] at h
  | succ fuel ih =>
    intro work s s' h
    cases work with
    | nil => simp [resolveURIsLoop] at h; subst h; exact ⟨SameLL.refl _, id⟩
    | cons e work =>
      obtain ⟨id, base⟩ := e
      rw [resolveURIsLoop] at h
      split at h
      · rename_i n _ baseInfo hn _ _
        have hid : (env.st.get? id).isSome = true := by rw [hn]; rfl
        rw [bind_eq_ok] at h
        obtain ⟨⟨s1, base1⟩, hstep, hrest⟩ := h
        have h1 : SameLL s s1 ∧ (InfosOk env.st s.infos → InfosOk env.st s1.infos) := by
          split at hstep
          · rw [bind_eq_ok] at hstep
            obtain ⟨idURI, _, hstep⟩ := hstep
            split at hstep
            · simp at hstep
            · split at hstep
              · simp only [Res.ok.injEq, Prod.mk.injEq] at hstep
                rw [← hstep.1]
                exact ⟨setAnchor_same _ _ _ _ _, fun h => setAnchor_infosOk _ _ _ _ _ _ h hid⟩
              · split at hstep
                · simp at hstep
                · simp only at hstep
                  split at hstep
                  · simp at hstep
                  · simp only [Res.ok.injEq, Prod.mk.injEq] at hstep
                    rw [← hstep.1]
                    split
                    · exact ⟨(updInfo_same _ _ _).trans (setDoc_same _ _), fun h => by
                        rw [setDoc_infos]; exact updInfo_infosOk _ _ _ _ h (fun i hi => hi)⟩
                    · exact ⟨updInfo_same _ _ _, fun h => updInfo_infosOk _ _ _ _ h (fun i hi => hi)⟩
          · simp only [Res.ok.injEq, Prod.mk.injEq] at hstep
            rw [← hstep.1]; exact ⟨SameLL.refl _, fun h => h⟩
        simp only at hrest
        have h2 := ih _ _ _ hrest
        refine ⟨h1.1.trans (SameLL.trans ?_ h2.1), fun h => h2.2 ?_⟩
        · split
          · exact (updInfo_same _ _ _).trans ((setAnchor_same _ _ _ _ _).trans (setAnchor_same _ _ _ _ _))
          · exact updInfo_same _ _ _
        · have h3 := updInfo_infosOk env.st s1 id (fun i => { i with base := some base1 }) (h1.2 h) (fun i hi => hi)
          split
          · exact setAnchor_infosOk _ _ _ _ _ _ (setAnchor_infosOk _ _ _ _ _ _ h3 hid) hid
          · exact h3
      · simp at h

/-! ### resolveRef -/

/-- what the open-recursion callback must satisfy -/
def RecSpec (env : Env) (recDoc : ResolveDoc) : Prop :=
  ∀ root base draft s s', recDoc root base draft s = .ok s' →
    Ext s s' ∧ (InfosOk env.st s.infos → InfosOk env.st s'.infos) ∧
    (LogOk s (some (Uri.toString base)) → LogOk s' none)

theorem lookup_mem {α} (k : String) (l : List (String × α)) (v : α) (h : Json.lookup k l = some v) :
    (k, v) ∈ l := by
  induction l with
  | nil => simp at h
  | cons e r ih =>
    obtain ⟨k', v'⟩ := e
    rw [Json.lookup_cons] at h
    split at h
    · rename_i hk; subst hk; simp at h; subst h; simp
    · exact List.mem_cons_of_mem _ (ih h)

theorem info?_mem (s : RState) (root id : NodeId) (i : Info) (h : s.info? root id = some i) :
    (id, i) ∈ s.infos := by
  unfold RState.info? at h
  split at h
  · split at h
    · exact lookupNat_mem _ _ _ h
    · simp at h
  · simp at h

theorem logOk_push (s : RState) (key : String) (h : LogOk s none) (hk : Json.lookup key s.loaded = none) :
    LogOk { s with log := s.log ++ [key] } (some key) := by
  obtain ⟨hn, hl⟩ := h
  have hnot : key ∉ s.log := by
    intro hm
    have := (hl key hm).resolve_left (by simp)
    rw [hk] at this; simp at this
  refine ⟨?_, ?_⟩
  · show (s.log ++ [key]).Nodup
    rw [List.nodup_append]
    refine ⟨hn, by simp, ?_⟩
    intro a ha b hb
    simp at hb; subst hb
    intro e; subst e; exact hnot ha
  · intro k hk'
    have hk'' : k ∈ s.log ++ [key] := hk'
    rcases List.mem_append.mp hk'' with hm | hm
    · exact Or.inr ((hl k hm).resolve_left (by simp))
    · simp at hm; subst hm; exact Or.inl rfl

theorem ext_push (s : RState) (key : String) : Ext s { s with log := s.log ++ [key] } :=
  ⟨⟨[key], rfl⟩, fun _ h => h⟩

theorem resolveRef_spec (env : Env) (recDoc : ResolveDoc) (hrec : RecSpec env recDoc)
    (root : NodeId) (s : RState) (id : NodeId) (ref : String) (o : RefOut) (s' : RState)
    (h : resolveRef env recDoc root s id ref = .ok (o, s')) :
    Ext s s' ∧ (InfosOk env.st s.infos → InfosOk env.st s'.infos ∧ (env.st.get? o.target).isSome = true) ∧
    (LogOk s none → LogOk s' none) := by
  unfold resolveRef at h
  rw [bind_eq_ok] at h
  obtain ⟨refURI0, _, h⟩ := h
  split at h
  · simp at h
  split at h
  · simp at h
  split at h
  · simp at h
  split at h
  · simp only at h
    rw [bind_eq_ok] at h
    obtain ⟨⟨referenced, s1⟩, hfound, h⟩ := h
    have h1 : Ext s s1 ∧ (InfosOk env.st s.infos → InfosOk env.st s1.infos) ∧ (LogOk s none → LogOk s1 none) := by
      split at hfound
      · simp only [Res.ok.injEq, Prod.mk.injEq] at hfound
        rw [← hfound.2]; exact ⟨Ext.refl _, fun h => h, fun h => h⟩
      · split at hfound
        · simp only [Res.ok.injEq, Prod.mk.injEq] at hfound
          rw [← hfound.2]
          exact ⟨(mergeKnown_same _ _ _).ext, fun h => by rw [mergeKnown_infos]; exact h,
            fun h => (mergeKnown_same _ _ _).logOk h⟩
        · rename_i hnone
          split at hfound
          · simp at hfound
          · split at hfound
            · simp at hfound
            · simp at hfound
            · simp at hfound
            · rw [bind_eq_ok] at hfound
              obtain ⟨s2, hdoc, hfound⟩ := hfound
              simp only [Res.ok.injEq, Prod.mk.injEq] at hfound
              rw [← hfound.2]
              obtain ⟨e, i, l⟩ := hrec _ _ _ _ _ hdoc
              refine ⟨(ext_push s _).trans (e.trans (mergeKnown_same _ _ _).ext),
                fun h => by rw [mergeKnown_infos]; exact i h,
                fun h => (mergeKnown_same _ _ _).logOk (l (logOk_push s _ h hnone))⟩
    have h2 : s' = s1 ∧ (InfosOk env.st s1.infos → (env.st.get? o.target).isSome = true) := by
      simp only at h
      split at h
      · split at h
        · simp at h
        · rename_i rInfo hr
          split at h
          · simp at h
          · rename_i a ha
            simp only [Res.ok.injEq, Prod.mk.injEq] at h
            refine ⟨h.2.symm, fun hi => ?_⟩
            rw [← h.1]
            exact (hi _ (info?_mem _ _ _ _ hr)).1 _ (lookup_mem _ _ _ ha)
      · rw [bind_eq_ok] at h
        obtain ⟨t, ht, h⟩ := h
        simp only [Res.ok.injEq, Prod.mk.injEq] at h
        refine ⟨h.2.symm, fun _ => ?_⟩
        rw [← h.1]
        exact Pointer.dereference_ok_exists _ _ _ _ _ ht
    rw [h2.1]
    exact ⟨h1.1, fun hi => ⟨h1.2.1 hi, h2.2 (h1.2.1 hi)⟩, h1.2.2⟩
  · simp at h

/-! ### resolveRefs -/

/-- the three facts carried along a run that starts from a consistent state -/
def Good (st : Store) (s s' : RState) : Prop :=
  Ext s s' ∧ (InfosOk st s.infos → InfosOk st s'.infos) ∧ (LogOk s none → LogOk s' none)

theorem Good.refl (st : Store) (s : RState) : Good st s s := ⟨Ext.refl _, fun h => h, fun h => h⟩
theorem Good.trans {st : Store} {a b c : RState} (h1 : Good st a b) (h2 : Good st b c) : Good st a c :=
  ⟨h1.1.trans h2.1, fun h => h2.2.1 (h1.2.1 h), fun h => h2.2.2 (h1.2.2 h)⟩

theorem good_updInfo (st : Store) (s : RState) (id : NodeId) (f : Info → Info)
    (hf : InfosOk st s.infos → ∀ i, InfoOk st i → InfoOk st (f i)) : Good st s (s.updInfo id f) :=
  ⟨(updInfo_same _ _ _).ext, fun h => updInfo_infosOk _ _ _ _ h (hf h), fun h => (updInfo_same _ _ _).logOk h⟩

theorem resolveRefsLoop_spec (env : Env) (recDoc : ResolveDoc) (hrec : RecSpec env recDoc) (root : NodeId) :
    ∀ ids s s', resolveRefsLoop env recDoc root ids s = .ok s' → Good env.st s s' := by
  intro ids
  induction ids with
  | nil => intro s s' h; simp [resolveRefsLoop] at h; subst h; exact Good.refl _ _
  | cons id rest ih =>
    intro s s' h
    rw [resolveRefsLoop] at h
    split at h
    · simp at h
    · rename_i n hn
      simp only at h
      rw [bind_eq_ok] at h
      obtain ⟨s1, h1, h⟩ := h
      rw [bind_eq_ok] at h
      obtain ⟨s2, h2, h⟩ := h
      have g1 : Good env.st s s1 := by
        split at h1
        · rw [bind_eq_ok] at h1
          obtain ⟨⟨o, sa⟩, hr, h1⟩ := h1
          simp only [Res.ok.injEq] at h1
          obtain ⟨e, i, l⟩ := resolveRef_spec env recDoc hrec _ _ _ _ _ _ hr
          rw [← h1]
          refine ⟨e.trans (updInfo_same _ _ _).ext, fun h => ?_, fun h => (updInfo_same _ _ _).logOk (l h)⟩
          obtain ⟨hi, ht⟩ := i h
          exact updInfo_infosOk _ _ _ _ hi (fun i hi => ⟨hi.1, fun t e => by simp at e; subst e; exact ht, hi.2.2⟩)
        · simp only [Res.ok.injEq] at h1; rw [← h1]; exact Good.refl _ _
      have g2 : Good env.st s1 s2 := by
        split at h2
        · rw [bind_eq_ok] at h2
          obtain ⟨⟨o, sa⟩, hr, h2⟩ := h2
          simp only [Res.ok.injEq] at h2
          obtain ⟨e, i, l⟩ := resolveRef_spec env recDoc hrec _ _ _ _ _ _ hr
          rw [← h2]
          refine ⟨e.trans (updInfo_same _ _ _).ext, fun h => ?_, fun h => (updInfo_same _ _ _).logOk (l h)⟩
          obtain ⟨hi, ht⟩ := i h
          exact updInfo_infosOk _ _ _ _ hi (fun i hi => ⟨hi.1, hi.2.1, fun t e => by simp at e; subst e; exact ht⟩)
        · simp only [Res.ok.injEq] at h2; rw [← h2]; exact Good.refl _ _
      exact g1.trans (g2.trans (ih _ _ h))

/-! ### resolver.resolve -/

theorem checkStructure_infosOk (st : Store) : ∀ fuel work acc res,
    checkStructure st fuel work acc = .ok res → InfosOk st acc → InfosOk st res := by
  intro fuel
  induction fuel with
  | zero => intro work acc res h; simp [checkStructure] at h
  | succ fuel ih =>
    intro work acc res h hacc
    cases work with
    | nil => simp [checkStructure] at h; subst h; exact hacc
    | cons e work =>
      obtain ⟨id, path⟩ := e
      rw [checkStructure] at h
      split at h
      · simp at h
      · split at h
        · simp at h
        · apply ih _ _ _ h
          intro e he
          rcases List.mem_append.mp he with he | he
          · exact hacc e he
          · simp at he; subst he
            exact ⟨by simp, by simp, by simp⟩

theorem lookup_append_isSome {α} (k : String) (x y : List (String × α)) :
    (Json.lookup k (x ++ y)).isSome = ((Json.lookup k x).isSome || (Json.lookup k y).isSome) := by
  induction x with
  | nil => simp
  | cons e r ih =>
    obtain ⟨k', v⟩ := e
    rw [List.cons_append, Json.lookup_cons, Json.lookup_cons]
    split
    · simp
    · exact ih

theorem lookup_filter_key {α} (k : String) (p : String → Bool) (l : List (String × α)) (hp : p k = true) :
    Json.lookup k (l.filter fun e => p e.1) = Json.lookup k l := by
  induction l with
  | nil => rfl
  | cons e r ih =>
    obtain ⟨k', v⟩ := e
    rw [List.filter_cons]
    by_cases hk : k' = k
    · subst hk; simp [hp]
    · split
      · simp [hk, ih]
      · simp [hk, ih]

/-- the update of `r.loaded` in resolver.resolve: both keys are present afterwards, no key is lost -/
theorem loaded_update {α} (l : List (String × α)) (a b : String) (r : α) :
    (Json.lookup a (l.filter (fun e => e.1 != a && e.1 != b) ++ [(a, r), (b, r)])).isSome = true ∧
    ∀ k, (Json.lookup k l).isSome = true →
      (Json.lookup k (l.filter (fun e => e.1 != a && e.1 != b) ++ [(a, r), (b, r)])).isSome = true := by
  constructor
  · rw [lookup_append_isSome]; simp
  · intro k hk
    rw [lookup_append_isSome]
    by_cases ha : a = k
    · subst ha; simp
    · by_cases hb : b = k
      · subst hb; simp
      · have := lookup_filter_key k (fun x => x != a && x != b) l (by
          have ha' : k ≠ a := fun e => ha e.symm
          have hb' : k ≠ b := fun e => hb e.symm
          simp [ha', hb'])
        rw [this, hk]; rfl

theorem resolveDocStep_spec (env : Env) (recDoc : ResolveDoc) (hrec : RecSpec env recDoc) :
    RecSpec env (resolveDocStep env recDoc) := by
  intro root baseURI inherit s s' h
  unfold resolveDocStep at h
  split at h
  · simp at h
  split at h
  · simp at h
  simp only at h
  rw [bind_eq_ok] at h
  obtain ⟨fresh, hfresh, h⟩ := h
  split at h
  · simp at h
  rw [bind_eq_ok] at h
  obtain ⟨sB, hB, h⟩ := h
  obtain ⟨sameB, infB⟩ := resolveURIsLoop_spec _ _ _ _ _ _ _ hB
  obtain ⟨eC, iC, lC⟩ := resolveRefsLoop_spec env recDoc hrec _ _ _ _ h
  -- the state handed to resolveURIs has the log / loaded of `s`
  have sameB' : sB.log = s.log ∧ sB.loaded = s.loaded := by
    have := (SameLL.trans (setDoc_same _ _) (updInfo_same _ _ _)).trans sameB
    exact this
  have hupd := fun b => loaded_update sB.loaded (Uri.toString baseURI) b root
  refine ⟨?_, ?_, ?_⟩
  · refine Ext.trans ⟨⟨[], ?_⟩, ?_⟩ eC
    · show sB.log = s.log ++ []
      rw [sameB'.1]; simp
    · intro k hk
      refine (hupd _).2 k ?_
      rw [sameB'.2]; exact hk
  · intro hi
    apply iC
    apply infB
    refine updInfo_infosOk env.st _ root _ ?_ ?_
    · rw [setDoc_infos]
      intro e he
      rcases List.mem_append.mp he with he | he
      · exact hi e he
      · exact checkStructure_infosOk _ _ _ _ _ hfresh (fun _ h => absurd h (by simp)) e he
    · intro i hi; exact hi
  · intro hl
    apply lC
    obtain ⟨hn, hl⟩ := hl
    refine ⟨?_, ?_⟩
    · show sB.log.Nodup
      rw [sameB'.1]; exact hn
    · intro k hk
      right
      have hk' : k ∈ s.log := by
        have : k ∈ sB.log := hk
        rwa [sameB'.1] at this
      rcases hl k hk' with e | e
      · simp only [Option.some.injEq] at e
        subst e; exact (hupd _).1
      · refine (hupd _).2 k ?_
        rw [sameB'.2]; exact e

/-- when resolver.resolve returns, the document is cached under the base URI it was entered with -/
theorem resolveDocStep_loaded (env : Env) (recDoc : ResolveDoc) (hrec : RecSpec env recDoc)
    (root : NodeId) (baseURI : Url) (inherit : Draft) (s s' : RState)
    (h : resolveDocStep env recDoc root baseURI inherit s = .ok s') :
    (Json.lookup (Uri.toString baseURI) s'.loaded).isSome = true := by
  unfold resolveDocStep at h
  split at h
  · simp at h
  split at h
  · simp at h
  simp only at h
  rw [bind_eq_ok] at h
  obtain ⟨fresh, hfresh, h⟩ := h
  split at h
  · simp at h
  rw [bind_eq_ok] at h
  obtain ⟨sB, hB, h⟩ := h
  obtain ⟨eC, _, _⟩ := resolveRefsLoop_spec env recDoc hrec _ _ _ _ h
  exact eC.2 _ (loaded_update sB.loaded (Uri.toString baseURI) _ root).1

theorem resolveDoc_spec (env : Env) : ∀ fuel, RecSpec env (resolveDoc env fuel) := by
  intro fuel
  induction fuel with
  | zero => intro root base draft s s' h; simp [resolveDoc] at h
  | succ fuel ih => exact resolveDocStep_spec env _ ih

theorem logOk_init : LogOk {} none := ⟨List.nodup_nil, fun _ h => absurd h (by simp)⟩
theorem infosOk_init (st : Store) : InfosOk st ({} : RState).infos := fun _ h => absurd h (by simp)

/-- Schema.Resolve: what the final state of a successful run satisfies -/
theorem resolve_ok (env : Env) (fuel : Nat) (root : NodeId) (base : String) (rs : Resolved)
    (h : resolve env fuel root base = .ok rs) :
    ∃ s b d, resolveDoc env fuel root b .d2020 {} = .ok s ∧ s.doc? root = some d ∧
      rs.log = s.log ∧ rs.infos = s.infos.filter (fun e => d.known.contains e.1) := by
  unfold resolve at h
  simp only at h
  rw [bind_eq_ok] at h
  obtain ⟨b, _, h⟩ := h
  rw [bind_eq_ok] at h
  obtain ⟨s, hs, h⟩ := h
  split at h
  · simp at h
  · rename_i d hd
    simp only [Res.ok.injEq] at h
    exact ⟨s, b, d, hs, hd, by rw [← h], by rw [← h]⟩

end RInv
end Go
end JSV
