/-
  Helper lemmas for C20 (CloneSchemas): cloneStep as a fold over `Node.childFields`, store extension,
  the simulation relation between a subtree and its clone, and the congruence of marshalStep.
-/
import JSV.Model.Clone
import JSV.Model.Marshal
import JSV.Proofs.MshSort
namespace JSV

namespace Res

theorem bind_eq_ok {α β} {x : Res α} {f : α → Res β} {b : β} (h : Res.bind x f = .ok b) :
    ∃ a, x = .ok a ∧ f a = .ok b := by
  cases x with
  | ok a => exact ⟨a, rfl, h⟩
  | fuel => cases h
  | panic => cases h
  | err => cases h

theorem bind_assoc {α β γ} (x : Res α) (f : α → Res β) (g : β → Res γ) :
    Res.bind (Res.bind x f) g = Res.bind x fun a => Res.bind (f a) g := by
  cases x <;> rfl

theorem bind_congr {α β} {x : Res α} {f g : α → Res β} (h : ∀ a, f a = g a) :
    Res.bind x f = Res.bind x g := by
  cases x <;> first | rfl | exact h _

end Res

namespace Go

/-! ## cloneStep as a fold over the child fields -/

def cloneField (rec : CRec) : ChildField → Store → Res (ChildField × Store)
  | .one k c, st => Res.bind (cloneOpt rec c st) fun r => .ok (.one k r.1, r.2)
  | .many k cs, st => Res.bind (cloneList rec cs st) fun r => .ok (.many k r.1, r.2)
  | .keyed k cs, st => Res.bind (cloneMap rec cs st) fun r => .ok (.keyed k r.1, r.2)

def cloneFields (rec : CRec) : List ChildField → Store → Res (List ChildField × Store)
  | [], st => .ok ([], st)
  | f :: fs, st =>
    Res.bind (cloneField rec f st) fun r => Res.bind (cloneFields rec fs r.2) fun r' => .ok (r.1 :: r'.1, r'.2)

def getOne (fs : List ChildField) (i : Nat) : Option NodeId :=
  match fs[i]? with
  | some (.one _ c) => c
  | _ => none

def getMany (fs : List ChildField) (i : Nat) : Option (List NodeId) :=
  match fs[i]? with
  | some (.many _ c) => c
  | _ => none

def getKeyed (fs : List ChildField) (i : Nat) : Option (List (String × NodeId)) :=
  match fs[i]? with
  | some (.keyed _ c) => c
  | _ => none

/-- the node with its schema-bearing fields replaced by the entries of a list shaped like `childFields` -/
def setChildFields (n : Node) (fs : List ChildField) : Node :=
  { n with
    defs := getKeyed fs 0, additionalItems := getOne fs 1, additionalProperties := getOne fs 2,
    allOf := getMany fs 3, anyOf := getMany fs 4, contains := getOne fs 5, contentSchema := getOne fs 6,
    definitions := getKeyed fs 7, dependencySchemas := getKeyed fs 8, dependentSchemas := getKeyed fs 9,
    else_ := getOne fs 10, if_ := getOne fs 11, items := getOne fs 12, itemsArray := getMany fs 13,
    not := getOne fs 14, oneOf := getMany fs 15, patternProperties := getKeyed fs 16,
    prefixItems := getMany fs 17, properties := getKeyed fs 18, propertyNames := getOne fs 19,
    then_ := getOne fs 20, unevaluatedItems := getOne fs 21, unevaluatedProperties := getOne fs 22 }

theorem cloneStep_eq (rec : CRec) (id : NodeId) (st : Store) :
    cloneStep rec id st =
      match st.get? id with
      | none => .ok (id, st)
      | some n => Res.bind (cloneFields rec n.childFields st) fun r => .ok (r.2.alloc (setChildFields n r.1)) := by
  unfold cloneStep
  cases st.get? id with
  | none => rfl
  | some n =>
    simp only [Node.childFields, cloneFields, cloneField, Res.bind_assoc, Res.bind_ok]
    repeat (first | rfl | (refine Res.bind_congr fun r => ?_))


/-! ## store extension -/

theorem get?_eq_none_iff {st : Store} {i : NodeId} : st.get? i = none ↔ st.size ≤ i := by
  unfold Store.get?
  exact Array.getElem?_eq_none_iff

theorem lt_size_of_get? {st : Store} {i : NodeId} {n : Node} (h : st.get? i = some n) : i < st.size := by
  apply Classical.byContradiction
  intro hlt
  rw [get?_eq_none_iff.2 (Nat.le_of_not_lt hlt)] at h
  cases h

theorem get?_push_lt {st : Store} {i : NodeId} (n : Node) (h : i < st.size) :
    Store.get? (st.push n) i = st.get? i := by
  unfold Store.get?
  rw [Array.getElem?_push, if_neg (Nat.ne_of_lt h)]

theorem get?_push_size (st : Store) (n : Node) : Store.get? (st.push n) st.size = some n := by
  unfold Store.get?
  exact Array.getElem?_push_size

/-- `st'` extends `st`: every node of `st` is still there, unchanged -/
def Ext (st st' : Store) : Prop := st.size ≤ st'.size ∧ ∀ i, i < st.size → st'.get? i = st.get? i

theorem Ext.refl (st : Store) : Ext st st := ⟨Nat.le_refl _, fun _ _ => rfl⟩

theorem Ext.trans {a b c : Store} (h₁ : Ext a b) (h₂ : Ext b c) : Ext a c :=
  ⟨Nat.le_trans h₁.1 h₂.1, fun i hi => (h₂.2 i (Nat.lt_of_lt_of_le hi h₁.1)).trans (h₁.2 i hi)⟩

theorem Ext.push (st : Store) (n : Node) : Ext st (st.push n) :=
  ⟨by rw [Array.size_push]; exact Nat.le_succ _, fun _ hi => get?_push_lt n hi⟩

theorem Ext.get? {st st' : Store} (h : Ext st st') {i : NodeId} {n : Node} (hn : st.get? i = some n) :
    st'.get? i = some n := by
  rw [h.2 i (lt_size_of_get? hn), hn]

/-! ## lifted relations -/

inductive ListRel {α β : Type} (R : α → β → Prop) : List α → List β → Prop
  | nil : ListRel R [] []
  | cons {a b l l'} : R a b → ListRel R l l' → ListRel R (a :: l) (b :: l')

def OptRel {α β : Type} (R : α → β → Prop) : Option α → Option β → Prop
  | none, none => True
  | some a, some b => R a b
  | _, _ => False

def KeyRel (R : NodeId → NodeId → Prop) (a b : String × NodeId) : Prop := a.1 = b.1 ∧ R a.2 b.2

inductive FieldRel (R : NodeId → NodeId → Prop) : ChildField → ChildField → Prop
  | one {k c c'} : OptRel R c c' → FieldRel R (.one k c) (.one k c')
  | many {k cs cs'} : OptRel (ListRel R) cs cs' → FieldRel R (.many k cs) (.many k cs')
  | keyed {k cs cs'} : OptRel (ListRel (KeyRel R)) cs cs' → FieldRel R (.keyed k cs) (.keyed k cs')

theorem ListRel.imp {α β} {R S : α → β → Prop} (h : ∀ a b, R a b → S a b) :
    ∀ {l l'}, ListRel R l l' → ListRel S l l'
  | _, _, .nil => .nil
  | _, _, .cons h1 h2 => .cons (h _ _ h1) (ListRel.imp h h2)

theorem OptRel.imp {α β} {R S : α → β → Prop} (h : ∀ a b, R a b → S a b) :
    ∀ {o o'}, OptRel R o o' → OptRel S o o'
  | none, none, _ => trivial
  | some _, some _, hr => h _ _ hr
  | none, some _, hr => hr.elim
  | some _, none, hr => hr.elim

theorem KeyRel.imp {R S : NodeId → NodeId → Prop} (h : ∀ a b, R a b → S a b) (a b : String × NodeId) :
    KeyRel R a b → KeyRel S a b := fun hr => ⟨hr.1, h _ _ hr.2⟩

theorem FieldRel.imp {R S : NodeId → NodeId → Prop} (h : ∀ a b, R a b → S a b) :
    ∀ f f', FieldRel R f f' → FieldRel S f f'
  | _, _, .one hr => .one (OptRel.imp h hr)
  | _, _, .many hr => .many (OptRel.imp (fun _ _ => ListRel.imp h) hr)
  | _, _, .keyed hr => .keyed (OptRel.imp (fun _ _ => ListRel.imp (KeyRel.imp h)) hr)

theorem ListRel.cons_inv {α β} {R : α → β → Prop} {a l l'} (h : ListRel R (a :: l) l') :
    ∃ b l'', l' = b :: l'' ∧ R a b ∧ ListRel R l l'' := by
  cases h with
  | cons h1 h2 => exact ⟨_, _, rfl, h1, h2⟩

theorem ListRel.nil_inv {α β} {R : α → β → Prop} {l'} (h : ListRel R ([] : List α) l') : l' = ([] : List β) := by
  cases h; rfl

theorem FieldRel.one_inv {R k c f} (h : FieldRel R (.one k c) f) : ∃ c', f = .one k c' ∧ OptRel R c c' := by
  cases h with
  | one hr => exact ⟨_, rfl, hr⟩

theorem FieldRel.many_inv {R k c f} (h : FieldRel R (.many k c) f) :
    ∃ c', f = .many k c' ∧ OptRel (ListRel R) c c' := by
  cases h with
  | many hr => exact ⟨_, rfl, hr⟩

theorem FieldRel.keyed_inv {R k c f} (h : FieldRel R (.keyed k c) f) :
    ∃ c', f = .keyed k c' ∧ OptRel (ListRel (KeyRel R)) c c' := by
  cases h with
  | keyed hr => exact ⟨_, rfl, hr⟩

theorem ListRel.length_eq {α β} {R : α → β → Prop} : ∀ {l l'}, ListRel R l l' → l.length = l'.length
  | _, _, .nil => rfl
  | _, _, .cons _ h => by simp [ListRel.length_eq h]

theorem OptRel.isSome_eq {α β} {R : α → β → Prop} : ∀ {o : Option α} {o' : Option β}, OptRel R o o' → o.isSome = o'.isSome
  | none, none, _ => rfl
  | some _, some _, _ => rfl
  | none, some _, hr => hr.elim
  | some _, none, hr => hr.elim

/-- all ids stored in a schema-bearing field (nil elements of slices / maps included) -/
def _root_.JSV.ChildField.ids : ChildField → List NodeId
  | .one _ c => c.toList
  | .many _ cs => cs.getD []
  | .keyed _ cs => (cs.getD []).map (·.2)

/-! ## a generic invariant of the clone traversal -/

/-- what is assumed of the recursive call: from a store satisfying `Pre`, on an id satisfying `P`,
    a successful call takes the store to a `T`-later one and relates argument and result by `R` -/
structure CloneInv (rec : CRec) (T : Store → Store → Prop) (R : Store → NodeId → NodeId → Prop)
    (Pre : Store → Prop) (P : NodeId → Prop) : Prop where
  refl : ∀ s, T s s
  trans : ∀ {a b c}, T a b → T b c → T a c
  pre : ∀ {s s'}, Pre s → T s s' → Pre s'
  mono : ∀ {s s' x y}, T s s' → R s x y → R s' x y
  call : ∀ {x s x' s'}, Pre s → P x → rec x s = .ok (x', s') → T s s' ∧ R s' x x'

section
variable {rec : CRec} {T : Store → Store → Prop} {R : Store → NodeId → NodeId → Prop}
  {Pre : Store → Prop} {P : NodeId → Prop}

theorem cloneOpt_inv (I : CloneInv rec T R Pre P) {c : Option NodeId} {st : Store} {c' st'}
    (hpre : Pre st) (hP : ∀ x, x ∈ c.toList → P x) (h : cloneOpt rec c st = .ok (c', st')) :
    T st st' ∧ OptRel (R st') c c' := by
  cases c with
  | none =>
    simp only [cloneOpt] at h
    cases h
    exact ⟨I.refl _, trivial⟩
  | some x =>
    simp only [cloneOpt] at h
    obtain ⟨⟨x', s'⟩, h1, h2⟩ := Res.bind_eq_ok h
    cases h2
    exact I.call hpre (hP x (by simp)) h1

theorem cloneIds_inv (I : CloneInv rec T R Pre P) : ∀ {l : List NodeId} {st : Store} {l' st'},
    Pre st → (∀ x, x ∈ l → P x) → cloneIds rec l st = .ok (l', st') → T st st' ∧ ListRel (R st') l l'
  | [], st, l', st', _, _, h => by
    simp only [cloneIds] at h
    cases h
    exact ⟨I.refl _, .nil⟩
  | x :: xs, st, l', st', hpre, hP, h => by
    simp only [cloneIds] at h
    obtain ⟨⟨x', s1⟩, h1, h2⟩ := Res.bind_eq_ok h
    obtain ⟨⟨xs', s2⟩, h3, h4⟩ := Res.bind_eq_ok h2
    cases h4
    have c1 := I.call hpre (hP x (by simp)) h1
    have c2 := cloneIds_inv I (I.pre hpre c1.1) (fun y hy => hP y (by simp [hy])) h3
    exact ⟨I.trans c1.1 c2.1, .cons (I.mono c2.1 c1.2) c2.2⟩

theorem cloneEntries_inv (I : CloneInv rec T R Pre P) : ∀ {l : List (String × NodeId)} {st : Store} {l' st'},
    Pre st → (∀ x, x ∈ l.map (·.2) → P x) → cloneEntries rec l st = .ok (l', st') →
    T st st' ∧ ListRel (KeyRel (R st')) l l'
  | [], st, l', st', _, _, h => by
    simp only [cloneEntries] at h
    cases h
    exact ⟨I.refl _, .nil⟩
  | (k, x) :: xs, st, l', st', hpre, hP, h => by
    simp only [cloneEntries] at h
    obtain ⟨⟨x', s1⟩, h1, h2⟩ := Res.bind_eq_ok h
    obtain ⟨⟨xs', s2⟩, h3, h4⟩ := Res.bind_eq_ok h2
    cases h4
    have c1 := I.call hpre (hP x (by simp)) h1
    have c2 := cloneEntries_inv I (I.pre hpre c1.1) (fun y hy => hP y (by simp only [List.map_cons, List.mem_cons]; exact Or.inr hy)) h3
    exact ⟨I.trans c1.1 c2.1, .cons ⟨rfl, I.mono c2.1 c1.2⟩ c2.2⟩

theorem cloneField_inv (I : CloneInv rec T R Pre P) {f : ChildField} {st : Store} {f' st'}
    (hpre : Pre st) (hP : ∀ x, x ∈ f.ids → P x) (h : cloneField rec f st = .ok (f', st')) :
    T st st' ∧ FieldRel (R st') f f' := by
  cases f with
  | one k c =>
    simp only [cloneField] at h
    obtain ⟨⟨c', s1⟩, h1, h2⟩ := Res.bind_eq_ok h
    cases h2
    have := cloneOpt_inv I hpre hP h1
    exact ⟨this.1, .one this.2⟩
  | many k cs =>
    simp only [cloneField] at h
    obtain ⟨⟨c', s1⟩, h1, h2⟩ := Res.bind_eq_ok h
    cases h2
    cases cs with
    | none =>
      simp only [cloneList] at h1
      cases h1
      exact ⟨I.refl _, .many trivial⟩
    | some l =>
      simp only [cloneList] at h1
      obtain ⟨⟨l', s2⟩, h3, h4⟩ := Res.bind_eq_ok h1
      cases h4
      have := cloneIds_inv I hpre hP h3
      exact ⟨this.1, .many this.2⟩
  | keyed k cs =>
    simp only [cloneField] at h
    obtain ⟨⟨c', s1⟩, h1, h2⟩ := Res.bind_eq_ok h
    cases h2
    cases cs with
    | none =>
      simp only [cloneMap] at h1
      cases h1
      exact ⟨I.refl _, .keyed trivial⟩
    | some l =>
      simp only [cloneMap] at h1
      obtain ⟨⟨l', s2⟩, h3, h4⟩ := Res.bind_eq_ok h1
      cases h4
      have := cloneEntries_inv I hpre hP h3
      exact ⟨this.1, .keyed this.2⟩

theorem cloneFields_inv (I : CloneInv rec T R Pre P) : ∀ {fs : List ChildField} {st : Store} {fs' st'},
    Pre st → (∀ f, f ∈ fs → ∀ x, x ∈ f.ids → P x) → cloneFields rec fs st = .ok (fs', st') →
    T st st' ∧ ListRel (FieldRel (R st')) fs fs'
  | [], st, l', st', _, _, h => by
    simp only [cloneFields] at h
    cases h
    exact ⟨I.refl _, .nil⟩
  | f :: fs, st, l', st', hpre, hP, h => by
    simp only [cloneFields] at h
    obtain ⟨⟨f', s1⟩, h1, h2⟩ := Res.bind_eq_ok h
    obtain ⟨⟨fs', s2⟩, h3, h4⟩ := Res.bind_eq_ok h2
    cases h4
    have c1 := cloneField_inv I hpre (hP f (by simp)) h1
    have c2 := cloneFields_inv I (I.pre hpre c1.1) (fun g hg => hP g (by simp [hg])) h3
    exact ⟨I.trans c1.1 c2.1, .cons (FieldRel.imp (fun _ _ hr => I.mono c2.1 hr) _ _ c1.2) c2.2⟩

end


/-! ## one level of cloneStep -/

theorem cloneStep_none {rec : CRec} {id : NodeId} {st : Store} (hn : st.get? id = none) :
    cloneStep rec id st = .ok (id, st) := by
  rw [cloneStep_eq, hn]

theorem cloneStep_some {rec : CRec} {id : NodeId} {st : Store} {n : Node} {c : NodeId} {st' : Store}
    (hn : st.get? id = some n) (h : cloneStep rec id st = .ok (c, st')) :
    ∃ fs' s', cloneFields rec n.childFields st = .ok (fs', s') ∧ c = s'.size ∧
      st' = s'.push (setChildFields n fs') := by
  rw [cloneStep_eq, hn] at h
  obtain ⟨⟨fs', s'⟩, h1, h2⟩ := Res.bind_eq_ok h
  cases h2
  exact ⟨fs', s', h1, rfl, rfl⟩

/-- a list shaped like `n.childFields` is the `childFields` of the node it is written into -/
theorem childFields_set {R : NodeId → NodeId → Prop} {n : Node} {fs : List ChildField}
    (h : ListRel (FieldRel R) n.childFields fs) : (setChildFields n fs).childFields = fs := by
  unfold Node.childFields at h
  obtain ⟨_, fs0, rfl, hf0, h0⟩ := h.cons_inv
  obtain ⟨c0, rfl, -⟩ := hf0.keyed_inv
  obtain ⟨_, fs1, rfl, hf1, h1⟩ := h0.cons_inv
  obtain ⟨c1, rfl, -⟩ := hf1.one_inv
  obtain ⟨_, fs2, rfl, hf2, h2⟩ := h1.cons_inv
  obtain ⟨c2, rfl, -⟩ := hf2.one_inv
  obtain ⟨_, fs3, rfl, hf3, h3⟩ := h2.cons_inv
  obtain ⟨c3, rfl, -⟩ := hf3.many_inv
  obtain ⟨_, fs4, rfl, hf4, h4⟩ := h3.cons_inv
  obtain ⟨c4, rfl, -⟩ := hf4.many_inv
  obtain ⟨_, fs5, rfl, hf5, h5⟩ := h4.cons_inv
  obtain ⟨c5, rfl, -⟩ := hf5.one_inv
  obtain ⟨_, fs6, rfl, hf6, h6⟩ := h5.cons_inv
  obtain ⟨c6, rfl, -⟩ := hf6.one_inv
  obtain ⟨_, fs7, rfl, hf7, h7⟩ := h6.cons_inv
  obtain ⟨c7, rfl, -⟩ := hf7.keyed_inv
  obtain ⟨_, fs8, rfl, hf8, h8⟩ := h7.cons_inv
  obtain ⟨c8, rfl, -⟩ := hf8.keyed_inv
  obtain ⟨_, fs9, rfl, hf9, h9⟩ := h8.cons_inv
  obtain ⟨c9, rfl, -⟩ := hf9.keyed_inv
  obtain ⟨_, fs10, rfl, hf10, h10⟩ := h9.cons_inv
  obtain ⟨c10, rfl, -⟩ := hf10.one_inv
  obtain ⟨_, fs11, rfl, hf11, h11⟩ := h10.cons_inv
  obtain ⟨c11, rfl, -⟩ := hf11.one_inv
  obtain ⟨_, fs12, rfl, hf12, h12⟩ := h11.cons_inv
  obtain ⟨c12, rfl, -⟩ := hf12.one_inv
  obtain ⟨_, fs13, rfl, hf13, h13⟩ := h12.cons_inv
  obtain ⟨c13, rfl, -⟩ := hf13.many_inv
  obtain ⟨_, fs14, rfl, hf14, h14⟩ := h13.cons_inv
  obtain ⟨c14, rfl, -⟩ := hf14.one_inv
  obtain ⟨_, fs15, rfl, hf15, h15⟩ := h14.cons_inv
  obtain ⟨c15, rfl, -⟩ := hf15.many_inv
  obtain ⟨_, fs16, rfl, hf16, h16⟩ := h15.cons_inv
  obtain ⟨c16, rfl, -⟩ := hf16.keyed_inv
  obtain ⟨_, fs17, rfl, hf17, h17⟩ := h16.cons_inv
  obtain ⟨c17, rfl, -⟩ := hf17.many_inv
  obtain ⟨_, fs18, rfl, hf18, h18⟩ := h17.cons_inv
  obtain ⟨c18, rfl, -⟩ := hf18.keyed_inv
  obtain ⟨_, fs19, rfl, hf19, h19⟩ := h18.cons_inv
  obtain ⟨c19, rfl, -⟩ := hf19.one_inv
  obtain ⟨_, fs20, rfl, hf20, h20⟩ := h19.cons_inv
  obtain ⟨c20, rfl, -⟩ := hf20.one_inv
  obtain ⟨_, fs21, rfl, hf21, h21⟩ := h20.cons_inv
  obtain ⟨c21, rfl, -⟩ := hf21.one_inv
  obtain ⟨_, fs22, rfl, hf22, h22⟩ := h21.cons_inv
  obtain ⟨c22, rfl, -⟩ := hf22.one_inv
  cases h22.nil_inv
  rfl

theorem setChildFields_shallow (n : Node) (fs : List ChildField) :
    setChildFields (setChildFields n fs) n.childFields = n := rfl

/-! ## frame: the original store is untouched -/

theorem cloneInv_ext {rec : CRec} (hrec : ∀ x s x' s', rec x s = .ok (x', s') → Ext s s') :
    CloneInv rec Ext (fun _ _ _ => True) (fun _ => True) (fun _ => True) where
  refl := Ext.refl
  trans := Ext.trans
  pre := fun _ _ => trivial
  mono := fun _ _ => trivial
  call := fun _ _ h => ⟨hrec _ _ _ _ h, trivial⟩

theorem cloneStep_ext {rec : CRec} (hrec : ∀ x s x' s', rec x s = .ok (x', s') → Ext s s')
    {id : NodeId} {st : Store} {c : NodeId} {st' : Store} (h : cloneStep rec id st = .ok (c, st')) :
    Ext st st' := by
  cases hn : st.get? id with
  | none =>
    rw [cloneStep_none hn] at h
    cases h
    exact Ext.refl _
  | some n =>
    obtain ⟨fs', s', h1, -, rfl⟩ := cloneStep_some hn h
    exact (cloneFields_inv (cloneInv_ext hrec) trivial (fun _ _ _ _ => trivial) h1).1.trans (Ext.push _ _)

theorem cloneFuel_ext : ∀ (fc : Nat) {id : NodeId} {st : Store} {c : NodeId} {st' : Store},
    cloneFuel fc id st = .ok (c, st') → Ext st st'
  | 0, _, _, _, _, h => by cases h
  | fc + 1, _, _, _, _, h => cloneStep_ext (fun _ _ _ _ h' => cloneFuel_ext fc h') h


/-! ## children -/

theorem insertSorted_perm (e : String × NodeId) : ∀ l : List (String × NodeId), (insertSorted e l).Perm (e :: l)
  | [] => by simp [insertSorted]
  | x :: xs => by
    simp only [insertSorted]
    split
    · exact List.Perm.refl _
    · exact ((insertSorted_perm e xs).cons x).trans (List.Perm.swap e x xs)

theorem sortByKey_perm : ∀ l : List (String × NodeId), (sortByKey l).Perm l
  | [] => by simp [sortByKey]
  | x :: xs => by
    have ih : (sortByKey xs).Perm xs := sortByKey_perm xs
    show (insertSorted x (sortByKey xs)).Perm (x :: xs)
    exact (insertSorted_perm x _).trans (ih.cons x)

theorem mem_children_iff {n : Node} {x : NodeId} :
    x ∈ n.children ↔ ∃ f, f ∈ n.childFields ∧ x ∈ f.ids := by
  unfold Node.children
  rw [List.mem_flatMap]
  constructor
  · rintro ⟨f, hf, hx⟩
    refine ⟨f, hf, ?_⟩
    cases f with
    | one k c => exact hx
    | many k cs => exact hx
    | keyed k cs => exact ((sortByKey_perm _).map _).mem_iff.1 hx
  · rintro ⟨f, hf, hx⟩
    refine ⟨f, hf, ?_⟩
    cases f with
    | one k c => exact hx
    | many k cs => exact hx
    | keyed k cs => exact ((sortByKey_perm _).map _).mem_iff.2 hx

theorem ListRel.mem_right {α β} {R : α → β → Prop} : ∀ {l l'}, ListRel R l l' → ∀ {b}, b ∈ l' → ∃ a, a ∈ l ∧ R a b
  | _, _, .nil, _, hb => by cases hb
  | _, _, .cons h1 h2, b, hb => by
    rcases List.mem_cons.1 hb with rfl | hb
    · exact ⟨_, List.mem_cons_self, h1⟩
    · obtain ⟨a, ha, hr⟩ := ListRel.mem_right h2 hb
      exact ⟨a, List.mem_cons_of_mem _ ha, hr⟩

theorem ListRel.map_snd {R : NodeId → NodeId → Prop} : ∀ {l l' : List (String × NodeId)},
    ListRel (KeyRel R) l l' → ListRel R (l.map (·.2)) (l'.map (·.2))
  | _, _, .nil => .nil
  | _, _, .cons h1 h2 => .cons h1.2 (ListRel.map_snd h2)

theorem ListRel.map_fst {R : NodeId → NodeId → Prop} : ∀ {l l' : List (String × NodeId)},
    ListRel (KeyRel R) l l' → l.map (·.1) = l'.map (·.1)
  | _, _, .nil => rfl
  | _, _, .cons h1 h2 => by
    simp only [List.map_cons, h1.1, ListRel.map_fst h2]

theorem FieldRel.ids_rel {R : NodeId → NodeId → Prop} : ∀ {f f'}, FieldRel R f f' → ListRel R f.ids f'.ids
  | _, _, .one (c := none) (c' := none) _ => .nil
  | _, _, .one (c := some _) (c' := some _) h => .cons h .nil
  | _, _, .one (c := none) (c' := some _) h => h.elim
  | _, _, .one (c := some _) (c' := none) h => h.elim
  | _, _, .many (cs := none) (cs' := none) _ => .nil
  | _, _, .many (cs := some _) (cs' := some _) h => h
  | _, _, .many (cs := none) (cs' := some _) h => h.elim
  | _, _, .many (cs := some _) (cs' := none) h => h.elim
  | _, _, .keyed (cs := none) (cs' := none) _ => .nil
  | _, _, .keyed (cs := some _) (cs' := some _) h => ListRel.map_snd h
  | _, _, .keyed (cs := none) (cs' := some _) h => h.elim
  | _, _, .keyed (cs := some _) (cs' := none) h => h.elim

/-! ## the simulation between a subtree and its clone -/

/-- `n'` is `n` with its schema-bearing fields replaced by `R`-related ones (same shape, same keys) -/
def NodeRel (R : NodeId → NodeId → Prop) (n n' : Node) : Prop :=
  ∃ fs', ListRel (FieldRel R) n.childFields fs' ∧ n' = setChildFields n fs'

theorem NodeRel.imp {R S : NodeId → NodeId → Prop} (h : ∀ a b, R a b → S a b) {n n' : Node} :
    NodeRel R n n' → NodeRel S n n' := fun ⟨fs', h1, h2⟩ => ⟨fs', ListRel.imp (FieldRel.imp h) h1, h2⟩

/-- `Good B st d a`: the unfolding of `a` in `st` ends within depth `d` (so it is acyclic), where a nil
    pointer is an id `≥ B` (`B` bounds the size of every store considered, so nil stays nil) -/
def Good (B : Nat) (st : Store) : Nat → NodeId → Prop
  | 0, a => B ≤ a
  | d + 1, a => B ≤ a ∨ ∃ n, st.get? a = some n ∧ ∀ x, x ∈ n.children → Good B st d x

/-- `Sim B st st' d a b`: the subtree of `b` in `st'` is a copy of the subtree of `a` in `st`:
    same shape, same non-schema fields at every node, nil at the same places -/
def Sim (B : Nat) (st st' : Store) : Nat → NodeId → NodeId → Prop
  | 0, a, b => B ≤ a ∧ b = a
  | d + 1, a, b => (B ≤ a ∧ b = a) ∨
      ∃ n n', st.get? a = some n ∧ st'.get? b = some n' ∧ NodeRel (Sim B st st' d) n n'

theorem Sim.mono_right {B : Nat} {st st' st'' : Store} (he : Ext st' st'') :
    ∀ (d : Nat) (a b : NodeId), Sim B st st' d a b → Sim B st st'' d a b
  | 0, _, _, h => h
  | d + 1, _, _, h => by
    rcases h with h | ⟨n, n', ha, hb, hr⟩
    · exact Or.inl h
    · exact Or.inr ⟨n, n', ha, he.get? hb, NodeRel.imp (Sim.mono_right he d) hr⟩

theorem cloneInv_sim (B : Nat) (st0 : Store) (d fc : Nat)
    (IH : ∀ {st root c st'}, Ext st0 st → Good B st0 d root → cloneFuel fc root st = .ok (c, st') →
      st'.size ≤ B → Sim B st0 st' d root c) :
    CloneInv (cloneFuel fc) Ext (fun s' x x' => s'.size ≤ B → Sim B st0 s' d x x')
      (fun s => Ext st0 s) (fun x => Good B st0 d x) where
  refl := Ext.refl
  trans := Ext.trans
  pre := Ext.trans
  mono := fun hT hR hsz => Sim.mono_right hT _ _ _ (hR (Nat.le_trans hT.1 hsz))
  call := fun hpre hP h => ⟨cloneFuel_ext fc h, fun hsz => IH hpre hP h hsz⟩

theorem cloneFuel_sim (B : Nat) (st0 : Store) : ∀ (fc d : Nat) {st : Store} {root c : NodeId} {st' : Store},
    Ext st0 st → Good B st0 d root → cloneFuel fc root st = .ok (c, st') → st'.size ≤ B →
    Sim B st0 st' d root c := by
  intro fc
  induction fc with
  | zero => intro d st root c st' _ _ h; cases h
  | succ fc ih =>
    intro d st root c st' he hg h hsz
    have hext := cloneFuel_ext (fc + 1) h
    change cloneStep (cloneFuel fc) root st = _ at h
    cases hn : st.get? root with
    | none =>
      rw [cloneStep_none hn] at h
      cases h
      have hB : B ≤ root := by
        cases d with
        | zero => exact hg
        | succ d =>
          rcases hg with hg | ⟨n, hn0, _⟩
          · exact hg
          · rw [he.get? hn0] at hn; cases hn
      cases d with
      | zero => exact ⟨hB, rfl⟩
      | succ d => exact Or.inl ⟨hB, rfl⟩
    | some n =>
      have hlt : root < B := Nat.lt_of_lt_of_le (lt_size_of_get? hn) (Nat.le_trans hext.1 hsz)
      cases d with
      | zero => exact absurd hg (Nat.not_le_of_lt hlt)
      | succ d =>
        rcases hg with hg | ⟨n0, hn0, hch⟩
        · exact absurd hg (Nat.not_le_of_lt hlt)
        · have hnn : n0 = n := by
            have := he.get? hn0
            rw [hn] at this
            cases this
            rfl
          subst hnn
          obtain ⟨fs', s', h1, rfl, rfl⟩ := cloneStep_some hn h
          have I := cloneInv_sim B st0 d fc (fun a b c e => ih d a b c e)
          have r := cloneFields_inv I he (fun f hf x hx => hch x (mem_children_iff.2 ⟨f, hf, hx⟩)) h1
          have hs' : s'.size ≤ B := Nat.le_trans (Ext.push s' _).1 hsz
          refine Or.inr ⟨n0, _, hn0, get?_push_size _ _, fs', ?_, rfl⟩
          exact ListRel.imp (FieldRel.imp fun x y hr => Sim.mono_right (Ext.push _ _) _ _ _ (hr hs')) r.2

/-! ## freshness: no node of the clone is a node of the original -/

/-- every node stored at an index `≥ s0` points only to ids `≥ s0` -/
def FreshAbove (s0 : Nat) (st : Store) : Prop :=
  ∀ i n, s0 ≤ i → st.get? i = some n → ∀ x, x ∈ n.children → s0 ≤ x

theorem cloneInv_fresh (s0 fc : Nat)
    (IH : ∀ {st root c st'}, s0 ≤ st.size → cloneFuel fc root st = .ok (c, st') →
      s0 ≤ c ∧ (FreshAbove s0 st → FreshAbove s0 st')) :
    CloneInv (cloneFuel fc) (fun s s' => Ext s s' ∧ (FreshAbove s0 s → FreshAbove s0 s'))
      (fun _ _ x' => s0 ≤ x') (fun s => s0 ≤ s.size) (fun _ => True) where
  refl := fun s => ⟨Ext.refl s, id⟩
  trans := fun h1 h2 => ⟨h1.1.trans h2.1, fun hf => h2.2 (h1.2 hf)⟩
  pre := fun hp hT => Nat.le_trans hp hT.1.1
  mono := fun _ hR => hR
  call := fun hpre _ h => ⟨⟨cloneFuel_ext fc h, (IH hpre h).2⟩, (IH hpre h).1⟩

theorem cloneFuel_fresh (s0 : Nat) : ∀ (fc : Nat) {st : Store} {root c : NodeId} {st' : Store},
    s0 ≤ st.size → cloneFuel fc root st = .ok (c, st') → s0 ≤ c ∧ (FreshAbove s0 st → FreshAbove s0 st') := by
  intro fc
  induction fc with
  | zero => intro st root c st' _ h; cases h
  | succ fc ih =>
    intro st root c st' hs h
    change cloneStep (cloneFuel fc) root st = _ at h
    cases hn : st.get? root with
    | none =>
      rw [cloneStep_none hn] at h
      cases h
      exact ⟨Nat.le_trans hs (get?_eq_none_iff.1 hn), id⟩
    | some n =>
      obtain ⟨fs', s', h1, rfl, rfl⟩ := cloneStep_some hn h
      have I := cloneInv_fresh s0 fc (fun a b => ih a b)
      have r := cloneFields_inv I hs (fun _ _ _ _ => trivial) h1
      have hs' : s0 ≤ s'.size := Nat.le_trans hs r.1.1.1
      refine ⟨hs', fun hf => ?_⟩
      have hf' := r.1.2 hf
      intro i m hi hm x hx
      by_cases hlt : i < s'.size
      · rw [get?_push_lt _ hlt] at hm
        exact hf' i m hi hm x hx
      · have hi' : i = s'.size := by
          have h2 : i < (s'.push (setChildFields n fs')).size := lt_size_of_get? hm
          rw [Array.size_push] at h2
          omega
        subst hi'
        rw [get?_push_size] at hm
        cases hm
        obtain ⟨f', hf'mem, hxf⟩ := mem_children_iff.1 hx
        rw [childFields_set r.2] at hf'mem
        obtain ⟨f, _, hrel⟩ := ListRel.mem_right r.2 hf'mem
        obtain ⟨_, _, hle⟩ := ListRel.mem_right (FieldRel.ids_rel hrel) hxf
        exact hle

/-- reachability through `Node.children` (the model's everyChild) -/
inductive Reach (st : Store) : NodeId → NodeId → Prop
  | refl (a : NodeId) : Reach st a a
  | step {a : NodeId} {n : Node} {x b : NodeId} : st.get? a = some n → x ∈ n.children → Reach st x b → Reach st a b

theorem Reach.fresh {s0 : Nat} {st : Store} (hf : FreshAbove s0 st) {a b : NodeId} (h : Reach st a b) :
    s0 ≤ a → s0 ≤ b := by
  induction h with
  | refl a => exact id
  | step hn hx _ ih => exact fun ha => ih (hf _ _ ha hn _ hx)

theorem reachable_sound (st : Store) : ∀ (fuel : Nat) (work : List NodeId) (b : NodeId),
    b ∈ reachable st fuel work → ∃ a, a ∈ work ∧ Reach st a b
  | 0, _, _, h => by simp [reachable] at h
  | _ + 1, [], _, h => by simp [reachable] at h
  | fuel + 1, id :: work, b, h => by
    simp only [reachable] at h
    cases hn : st.get? id with
    | none =>
      rw [hn] at h
      obtain ⟨a, ha, hr⟩ := reachable_sound st fuel work b h
      exact ⟨a, List.mem_cons_of_mem _ ha, hr⟩
    | some n =>
      rw [hn] at h
      rcases List.mem_cons.1 h with rfl | h
      · exact ⟨_, List.mem_cons_self, .refl _⟩
      · obtain ⟨a, ha, hr⟩ := reachable_sound st fuel _ b h
        rcases List.mem_append.1 ha with ha | ha
        · exact ⟨id, List.mem_cons_self, .step hn ha hr⟩
        · exact ⟨a, List.mem_cons_of_mem _ ha, hr⟩

end Go
end JSV
