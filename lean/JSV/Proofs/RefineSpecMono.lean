/-
  Fuel monotonicity of the Spec: a defined answer of `Spec.evalFuel` is stable under more fuel.
-/
import JSV.Proofs.Refine
namespace JSV
namespace Refine
open Go GoVal
set_option linter.unusedSimpArgs false

/-- definedness order on `Option` -/
def OLe {α} (a b : Option α) : Prop := ∀ r, a = some r → b = some r

def SubLe (f f' : NodeId → Json → Spec.Out) : Prop := ∀ s j, OLe (f s j) (f' s j)
def SRecLe (r r' : Spec.Rec) : Prop := ∀ scope s j, OLe (r scope s j) (r' scope s j)

theorem OLe_refl {α} (a : Option α) : OLe a a := fun _ h => h

theorem OLe_map {α β} (g : α → β) {a b : Option α} (h : OLe a b) : OLe (a.map g) (b.map g) := by
  intro r hr
  cases a with
  | none => simp at hr
  | some x => rw [h x rfl]; exact hr

theorem eq_of_OLe_defined {α} {a b : Option α} (h : OLe a b) (hd : ∃ r, a = some r) : b = a := by
  obtain ⟨r, hr⟩ := hd
  rw [hr, h r hr]

theorem sequence_defined {α} {l : List (Option α)} {rs : List α} (h : Spec.sequence l = some rs) :
    ∀ o, o ∈ l → ∃ r, o = some r := by
  have hl := sequence_eq_some.1 h
  subst hl
  intro o ho
  obtain ⟨r, _, hr⟩ := List.mem_map.1 ho
  exact ⟨r, hr.symm⟩

theorem sequence_map_mono {α β} (xs : List β) (f f' : β → Option α) (h : ∀ x, x ∈ xs → OLe (f x) (f' x)) :
    OLe (Spec.sequence (xs.map f)) (Spec.sequence (xs.map f')) := by
  intro rs hs
  have : xs.map f' = xs.map f :=
    List.map_congr_left (fun x hx =>
      eq_of_OLe_defined (h x hx) (sequence_defined hs (f x) (List.mem_map_of_mem hx)))
  rw [this]; exact hs

theorem filterMap_congr' {α β} {f g : α → Option β} : ∀ {l : List α}, (∀ x, x ∈ l → f x = g x) →
    l.filterMap f = l.filterMap g
  | [], _ => rfl
  | x :: l, h => by
    have hx := h x (by simp)
    have ih := filterMap_congr' (l := l) (fun y hy => h y (by simp [hy]))
    simp only [List.filterMap_cons, hx, ih]

theorem flatMap_congr' {α β} {f g : α → List β} : ∀ {l : List α}, (∀ x, x ∈ l → f x = g x) →
    l.flatMap f = l.flatMap g
  | [], _ => rfl
  | x :: l, h => by
    have hx := h x (by simp)
    have ih := flatMap_congr' (l := l) (fun y hy => h y (by simp [hy]))
    simp only [List.flatMap_cons, hx, ih]

section
variable {sub sub' : NodeId → Json → Spec.Out} (h : SubLe sub sub')
include h

theorem kwRef_mono (env : Spec.Env) (s : NodeId) (n : Node) (j : Json) :
    OLe (Spec.kwRef env sub s n j) (Spec.kwRef env sub' s n j) := by
  unfold Spec.kwRef Spec.inPlace
  split
  · cases env.refTarget s with
    | none => exact OLe_refl _
    | some t => exact h t j
  · exact OLe_refl _

theorem kwDynamicRef_mono (env : Spec.Env) (scope : List NodeId) (s : NodeId) (n : Node) (j : Json) :
    OLe (Spec.kwDynamicRef env sub scope s n j) (Spec.kwDynamicRef env sub' scope s n j) := by
  unfold Spec.kwDynamicRef
  split
  · cases env.dynInitial s with
    | none => exact OLe_refl _
    | some t => exact h _ j
  · exact OLe_refl _

theorem kwAllOf_mono (n : Node) (j : Json) : OLe (Spec.kwAllOf sub n j) (Spec.kwAllOf sub' n j) := by
  unfold Spec.kwAllOf
  cases n.allOf with
  | none => exact OLe_refl _
  | some ss => exact OLe_map _ (sequence_map_mono ss _ _ (fun t _ => h t j))

theorem kwAnyOf_mono (n : Node) (j : Json) : OLe (Spec.kwAnyOf sub n j) (Spec.kwAnyOf sub' n j) := by
  unfold Spec.kwAnyOf
  cases n.anyOf with
  | none => exact OLe_refl _
  | some ss => exact OLe_map _ (sequence_map_mono ss _ _ (fun t _ => h t j))

theorem kwOneOf_mono (n : Node) (j : Json) : OLe (Spec.kwOneOf sub n j) (Spec.kwOneOf sub' n j) := by
  unfold Spec.kwOneOf
  cases n.oneOf with
  | none => exact OLe_refl _
  | some ss => exact OLe_map _ (sequence_map_mono ss _ _ (fun t _ => h t j))

theorem kwNot_mono (n : Node) (j : Json) : OLe (Spec.kwNot sub n j) (Spec.kwNot sub' n j) := by
  unfold Spec.kwNot
  cases n.not with
  | none => exact OLe_refl _
  | some t => exact OLe_map _ (h t j)

theorem kwIf_mono (n : Node) (j : Json) : OLe (Spec.kwIf sub n j) (Spec.kwIf sub' n j) := by
  unfold Spec.kwIf
  cases n.if_ with
  | none => exact OLe_refl _
  | some c =>
    simp only
    cases hc : sub c j with
    | none => intro r hr; simp at hr
    | some rc =>
      rw [h c j rc hc]
      simp only
      cases (if rc.isSome = true then n.then_ else n.else_) with
      | none => exact OLe_refl _
      | some b => exact OLe_map _ (h b j)

theorem kwDependentSchemas_mono (env : Spec.Env) (n : Node) (j : Json) :
    OLe (Spec.kwDependentSchemas env sub n j) (Spec.kwDependentSchemas env sub' n j) := by
  unfold Spec.kwDependentSchemas
  cases j with
  | obj kvs => exact OLe_map _ (sequence_map_mono _ _ _ (fun p _ => h p.2 _))
  | _ => exact OLe_refl _

theorem kwItems_mono (env : Spec.Env) (n : Node) (j : Json) :
    OLe (Spec.kwItems env sub n j) (Spec.kwItems env sub' n j) := by
  unfold Spec.kwItems
  cases j with
  | arr xs =>
    simp only
    generalize Spec.arrayShape env n = p
    obtain ⟨pre, rest⟩ := p
    simp only
    apply OLe_map
    intro rs hs
    have hdef := sequence_defined hs
    have e1 : (pre.zip xs).map (fun c => sub' c.1 c.2) = (pre.zip xs).map (fun c => sub c.1 c.2) :=
      List.map_congr_left (fun c hc => eq_of_OLe_defined (h c.1 c.2)
        (hdef _ (List.mem_append_left _ (List.mem_map_of_mem (f := fun c : NodeId × Json => sub c.1 c.2) hc))))
    cases rest with
    | none =>
      simp only at hs hdef ⊢
      rw [show (List.map (fun x : NodeId × Json => sub' x.1 x.2) (pre.zip xs)) = _ from e1]
      exact hs
    | some t =>
      simp only at hs hdef ⊢
      have e2 : (xs.drop pre.length).map (fun x => sub' t x) = (xs.drop pre.length).map (fun x => sub t x) :=
        List.map_congr_left (fun x hx => eq_of_OLe_defined (h t x)
          (hdef _ (List.mem_append_right _ (List.mem_map_of_mem (f := fun x => sub t x) hx))))
      rw [show (List.map (fun x : NodeId × Json => sub' x.1 x.2) (pre.zip xs)) = _ from e1, e2]
      exact hs
  | _ => exact OLe_refl _

theorem kwContains_mono (n : Node) (j : Json) : OLe (Spec.kwContains sub n j) (Spec.kwContains sub' n j) := by
  unfold Spec.kwContains
  cases j with
  | arr xs =>
    cases n.contains with
    | none => exact OLe_refl _
    | some c => exact OLe_map _ (sequence_map_mono xs _ _ (fun x _ => h c x))
  | _ => exact OLe_refl _

theorem kwPropertyNames_mono (n : Node) (j : Json) :
    OLe (Spec.kwPropertyNames sub n j) (Spec.kwPropertyNames sub' n j) := by
  unfold Spec.kwPropertyNames
  cases j with
  | obj kvs =>
    cases n.propertyNames with
    | none => exact OLe_refl _
    | some t => exact OLe_map _ (sequence_map_mono kvs _ _ (fun p _ => h t _))
  | _ => exact OLe_refl _

theorem kwUnevaluatedItems_mono (n : Node) (j : Json) (ev : Spec.Ev) :
    OLe (Spec.kwUnevaluatedItems sub n j ev) (Spec.kwUnevaluatedItems sub' n j ev) := by
  unfold Spec.kwUnevaluatedItems
  cases j with
  | arr xs =>
    cases n.unevaluatedItems with
    | none => exact OLe_refl _
    | some t => exact OLe_map _ (sequence_map_mono _ _ _ (fun p _ => h t _))
  | _ => exact OLe_refl _

theorem kwUnevaluatedProps_mono (n : Node) (j : Json) (ev : Spec.Ev) :
    OLe (Spec.kwUnevaluatedProps sub n j ev) (Spec.kwUnevaluatedProps sub' n j ev) := by
  unfold Spec.kwUnevaluatedProps
  cases j with
  | obj kvs =>
    cases n.unevaluatedProperties with
    | none => exact OLe_refl _
    | some t => exact OLe_map _ (sequence_map_mono _ _ _ (fun p _ => h t _))
  | _ => exact OLe_refl _

theorem kwProps_mono (env : Spec.Env) (n : Node) (j : Json) :
    OLe (Spec.kwProps env sub n j) (Spec.kwProps env sub' n j) := by
  cases j with
  | obj kvs =>
    have hnamed : ∀ (L : List (String × Spec.Out)),
        (∀ o, o ∈ (namedL sub (n.properties.getD []) kvs ++ L).map (·.2) → ∃ r, o = some r) →
        namedL sub' (n.properties.getD []) kvs = namedL sub (n.properties.getD []) kvs := by
      intro L hdef
      unfold namedL
      apply filterMap_congr'
      intro p hp
      cases hl : Json.lookup p.1 (n.properties.getD []) with
      | none => rfl
      | some t =>
        simp only [Option.map_some, Option.some.injEq, Prod.mk.injEq, true_and]
        apply eq_of_OLe_defined (h t p.2)
        apply hdef
        apply List.mem_map.2
        refine ⟨(p.1, sub t p.2), List.mem_append_left _ ?_, rfl⟩
        exact List.mem_filterMap.2 ⟨p, hp, by simp [hl]⟩
    have hpat : ∀ (L1 L2 : List (String × Spec.Out)),
        (∀ o, o ∈ (L1 ++ patternedL env.reMatch sub (n.patternProperties.getD []) kvs ++ L2).map (·.2) →
          ∃ r, o = some r) →
        patternedL env.reMatch sub' (n.patternProperties.getD []) kvs
          = patternedL env.reMatch sub (n.patternProperties.getD []) kvs := by
      intro L1 L2 hdef
      unfold patternedL
      apply flatMap_congr'
      intro p hp
      apply List.map_congr_left
      intro q hq
      simp only [Prod.mk.injEq, true_and]
      apply eq_of_OLe_defined (h q.2 p.2)
      apply hdef
      apply List.mem_map.2
      refine ⟨(p.1, sub q.2 p.2), List.mem_append_left _ (List.mem_append_right _ ?_), rfl⟩
      exact List.mem_flatMap.2 ⟨p, hp, List.mem_map.2 ⟨q, hq, rfl⟩⟩
    cases hap : n.additionalProperties with
    | none =>
      rw [kwProps_none env sub n kvs hap, kwProps_none env sub' n kvs hap]
      intro r hr
      simp only [Option.map_eq_some_iff] at hr
      obtain ⟨rs, hs, rfl⟩ := hr
      have hdef := sequence_defined hs
      rw [hnamed _ (by rw [List.append_assoc] at hdef; exact hdef), hpat _ _ hdef, hs]
      rfl
    | some t =>
      rw [kwProps_some env sub n kvs t hap, kwProps_some env sub' n kvs t hap]
      intro r hr
      simp only [Option.map_eq_some_iff] at hr
      obtain ⟨rs, hs, rfl⟩ := hr
      have hdef := sequence_defined hs
      have e1 := hnamed _ (by rw [List.append_assoc] at hdef; exact hdef)
      have e2 := hpat _ _ hdef
      have ec : coveredL env.reMatch sub' (n.properties.getD []) (n.patternProperties.getD []) kvs
          = coveredL env.reMatch sub (n.properties.getD []) (n.patternProperties.getD []) kvs := by
        unfold coveredL; rw [e1, e2]
      have e3 : additionalL sub' t (coveredL env.reMatch sub (n.properties.getD []) (n.patternProperties.getD []) kvs) kvs
          = additionalL sub t (coveredL env.reMatch sub (n.properties.getD []) (n.patternProperties.getD []) kvs) kvs := by
        unfold additionalL
        apply List.map_congr_left
        intro p hp
        simp only [Prod.mk.injEq, true_and]
        apply eq_of_OLe_defined (h t p.2)
        apply hdef
        apply List.mem_map.2
        refine ⟨(p.1, sub t p.2), List.mem_append_right _ ?_, rfl⟩
        exact List.mem_map.2 ⟨p, hp, rfl⟩
      rw [e1, e2, ec, e3, hs]
      rfl
  | _ => unfold Spec.kwProps; exact OLe_refl _

end

theorem specTail_mono (R : Spec.R) (A : Bool) {ui ui' up up' : Spec.Ev → Option Spec.R}
    (h1 : ∀ ev, OLe (ui ev) (ui' ev)) (h2 : ∀ ev, OLe (up ev) (up' ev)) :
    OLe (specTail R A ui up) (specTail R A ui' up') := by
  intro r hr
  unfold specTail at hr ⊢
  cases R with
  | none => exact hr
  | some ev0 =>
    simp only at hr ⊢
    split
    · rename_i hA; rw [if_pos hA] at hr; exact hr
    · rename_i hA
      rw [if_neg hA] at hr
      cases hui : ui ev0 with
      | none => rw [hui] at hr; simp at hr
      | some ri =>
        cases hup : up ev0 with
        | none => rw [hui, hup] at hr; simp at hr
        | some rp =>
          rw [hui, hup] at hr
          rw [h1 ev0 ri hui, h2 ev0 rp hup]
          exact hr

theorem evalStep_mono (env : Spec.Env) {srec srec' : Spec.Rec} (h : SRecLe srec srec') :
    SRecLe (Spec.evalStep env srec) (Spec.evalStep env srec') := by
  intro scope0 s j r hr
  cases hn : env.st.get? s with
  | none => unfold Spec.evalStep at hr; simp [hn] at hr
  | some n =>
    have hs : SubLe (srec (scope0 ++ [s])) (srec' (scope0 ++ [s])) := fun t j => h _ t j
    by_cases hd7 : (env.draft == .d7 && n.ref != "") = true
    · unfold Spec.evalStep at hr ⊢
      simp only [hn, hd7, if_true] at hr ⊢
      exact OLe_map _ (kwRef_mono hs env s n j) r hr
    · have hnd7 : (env.draft == .d7 && n.ref != "") = false := by simpa using hd7
      cases hseq : Spec.sequence [Spec.kwRef env (srec (scope0 ++ [s])) s n j,
        Spec.kwDynamicRef env (srec (scope0 ++ [s])) (scope0 ++ [s]) s (Spec.vocab env.draft n) j,
        Spec.kwAllOf (srec (scope0 ++ [s])) n j, Spec.kwAnyOf (srec (scope0 ++ [s])) n j,
        Spec.kwOneOf (srec (scope0 ++ [s])) n j, Spec.kwNot (srec (scope0 ++ [s])) n j,
        Spec.kwIf (srec (scope0 ++ [s])) n j, Spec.kwItems env (srec (scope0 ++ [s])) n j,
        Spec.kwContains (srec (scope0 ++ [s])) (Spec.vocab env.draft n) j, Spec.kwProps env (srec (scope0 ++ [s])) n j,
        Spec.kwPropertyNames (srec (scope0 ++ [s])) n j,
        Spec.kwDependentSchemas env (srec (scope0 ++ [s])) n j] with
      | none => rw [evalStep_undefined env srec scope0 s j n hn hnd7 hseq] at hr; cases hr
      | some rs =>
        obtain ⟨r1, rs1, h1, hs1, rfl⟩ := sequence_cons_eq_some hseq
        obtain ⟨r2, rs2, h2, hs2, rfl⟩ := sequence_cons_eq_some hs1
        obtain ⟨r3, rs3, h3, hs3, rfl⟩ := sequence_cons_eq_some hs2
        obtain ⟨r4, rs4, h4, hs4, rfl⟩ := sequence_cons_eq_some hs3
        obtain ⟨r5, rs5, h5, hs5, rfl⟩ := sequence_cons_eq_some hs4
        obtain ⟨r6, rs6, h6, hs6, rfl⟩ := sequence_cons_eq_some hs5
        obtain ⟨r7, rs7, h7, hs7, rfl⟩ := sequence_cons_eq_some hs6
        obtain ⟨r8, rs8, h8, hs8, rfl⟩ := sequence_cons_eq_some hs7
        obtain ⟨r9, rs9, h9, hs9, rfl⟩ := sequence_cons_eq_some hs8
        obtain ⟨r10, rs10, h10, hs10, rfl⟩ := sequence_cons_eq_some hs9
        obtain ⟨r11, rs11, h11, hs11, rfl⟩ := sequence_cons_eq_some hs10
        obtain ⟨r12, rs12, h12, hs12, rfl⟩ := sequence_cons_eq_some hs11
        rw [evalStep_defined env srec scope0 s j n hn hnd7 h1 h2 h3 h4 h5 h6 h7 h8 h9 h10 h11 h12] at hr
        rw [evalStep_defined env srec' scope0 s j n hn hnd7
          (kwRef_mono hs env s n j r1 h1) (kwDynamicRef_mono hs env _ s _ j r2 h2)
          (kwAllOf_mono hs n j r3 h3) (kwAnyOf_mono hs n j r4 h4) (kwOneOf_mono hs n j r5 h5)
          (kwNot_mono hs n j r6 h6) (kwIf_mono hs n j r7 h7) (kwItems_mono hs env n j r8 h8)
          (kwContains_mono hs _ j r9 h9) (kwProps_mono hs env n j r10 h10)
          (kwPropertyNames_mono hs n j r11 h11) (kwDependentSchemas_mono hs env n j r12 h12)]
        exact specTail_mono _ _ (fun ev => kwUnevaluatedItems_mono hs _ j ev)
          (fun ev => kwUnevaluatedProps_mono hs _ j ev) r hr

theorem evalFuel_mono (env : Spec.Env) : ∀ n, SRecLe (Spec.evalFuel env n) (Spec.evalFuel env (n + 1))
  | 0 => fun _ _ _ r hr => by simp [Spec.evalFuel] at hr
  | n + 1 => evalStep_mono env (evalFuel_mono env n)

end Refine
end JSV
