/-
  C10 helper file: forType — the cycle check, and fuel.
-/
import JSV.Proofs.Tot
import JSV.Model.Infer
namespace JSV
namespace C10
open JSV Go

/-- a named type (or a back reference to one) that is already being processed is refused: no recursion -/
theorem inferStep_cycle (opts : IOpts) (rec : IRec) (t0 : GoType) (seen : List String) (st : Store) (nm : String)
    (h1 : typeName (stripPtrs t0).1 = some nm) (h2 : seen.contains nm = true) :
    inferStep opts rec t0 seen st = .err := by
  unfold inferStep
  simp only [h1, h2, if_true]

mutual
  /-- nesting depth: the number of forType calls on the longest path (pointers and the step from a named type to its
      underlying type are handled inside one call) -/
  def depth : GoType → Nat
    | .basic _ => 1
    | .named _ u => depth u
    | .ref _ => 1
    | .ptr e => depth e
    | .slice e => depth e + 1
    | .array _ e => depth e + 1
    | .map _ e => depth e + 1
    | .struct fields => depthFields fields + 1
  def depthFields : List (String × String × GoType) → Nat
    | [] => 0
    | (_, _, t) :: rest => max (depth t) (depthFields rest)
end

theorem depth_pos : ∀ t : GoType, 1 ≤ depth t
  | .basic _ => by simp [depth]
  | .named _ u => by simp only [depth]; exact depth_pos u
  | .ref _ => by simp [depth]
  | .ptr e => by simp only [depth]; exact depth_pos e
  | .slice e => by simp [depth]
  | .array _ e => by simp [depth]
  | .map _ e => by simp [depth]
  | .struct _ => by simp [depth]

theorem depth_stripPtrs : ∀ t : GoType, depth (stripPtrs t).1 = depth t
  | .ptr e => by simp only [stripPtrs, depth]; exact depth_stripPtrs e
  | .basic _ => rfl
  | .named _ _ => rfl
  | .ref _ => rfl
  | .slice _ => rfl
  | .array _ _ => rfl
  | .map _ _ => rfl
  | .struct _ => rfl

theorem NoF_bind {α β} {x : Res α} {f : α → Res β} (hx : x ≠ .fuel) (hf : ∀ a, x = .ok a → f a ≠ .fuel) :
    Res.bind x f ≠ .fuel := by
  cases x with
  | ok a => simpa using hf a rfl
  | err => simp
  | panic => simp
  | fuel => exact absurd rfl hx

theorem depth_le_depthFields : ∀ {fields : List (String × String × GoType)} {g tag : String} {ft : GoType},
    (g, tag, ft) ∈ fields → depth ft ≤ depthFields fields
  | (g', tag', ft') :: rest, g, tag, ft, h => by
    simp only [depthFields]
    rcases List.mem_cons.1 h with h | h
    · cases h; exact Nat.le_max_left _ _
    · exact Nat.le_trans (depth_le_depthFields h) (Nat.le_max_right _ _)

theorem structLoop_NoFuel (rec : IRec) (seen : List String) :
    ∀ (fields : List (String × String × GoType)) (n : Node) (st : Store),
      (∀ g tag ft, (g, tag, ft) ∈ fields → ∀ seen st, rec ft seen st ≠ .fuel) →
      structLoop rec seen fields n st ≠ .fuel := by
  intro fields
  induction fields with
  | nil => intro n st _; simp [structLoop]
  | cons f rest ih =>
    intro n st h
    obtain ⟨g, tag, ft⟩ := f
    have hrest : ∀ g tag ft, (g, tag, ft) ∈ rest → ∀ seen st, rec ft seen st ≠ .fuel :=
      fun g tag ft hm => h g tag ft (List.mem_cons_of_mem _ hm)
    rw [structLoop]
    simp only []
    split
    · exact ih _ _ hrest
    · refine NoF_bind (h g tag ft List.mem_cons_self _ _) fun p _ => ?_
      obtain ⟨fs, st'⟩ := p
      simp only []
      split
      · exact ih _ _ hrest
      · split
        · simp
        · split
          · simp
          · exact ih _ _ hrest
        · exact ih _ _ hrest

/-- the body of inferStep after the type-table lookup failed, as a function of the underlying type -/
theorem inferStep_NoFuel (opts : IOpts)
    (hs : ∀ nm sid st, Json.lookup nm opts.schemas = some sid → clone st sid ≠ .fuel) (rec : IRec) (m : Nat)
    (hrec : ∀ t seen st, depth t ≤ m → rec t seen st ≠ .fuel) (t0 : GoType) (seen : List String) (st : Store)
    (h : depth t0 ≤ m + 1) : inferStep opts rec t0 seen st ≠ .fuel := by
  unfold inferStep
  have hd := depth_stripPtrs t0
  generalize stripPtrs t0 = p at hd
  obtain ⟨t, an⟩ := p
  simp only [] at hd ⊢
  rw [← hd] at h
  split
  · simp
  · next seen' _ =>
    split
    · next sid hsid =>
      have : ∃ nm, Json.lookup nm opts.schemas = some sid := by
        cases htn : typeName t with
        | none => rw [htn] at hsid; cases hsid
        | some nm => rw [htn] at hsid; exact ⟨nm, hsid⟩
      obtain ⟨nm, hnm⟩ := this
      refine NoF_bind (hs nm sid st hnm) fun p _ => ?_
      obtain ⟨cid, st'⟩ := p
      simp only []
      split <;> simp
    cases t with
    | basic kind =>
      simp only []
      split
      · simp
      · split <;> simp
    | ref nm => simp
    | ptr e => simp
    | named nm u =>
      simp only [depth] at h
      simp only []
      cases u with
        | basic kind =>
          simp only []
          split
          · simp
          · split <;> simp
        | ref nm => simp
        | ptr e => simp
        | map kk e =>
          simp only [depth] at h
          simp only []
          split
          · split <;> simp
          · refine NoF_bind (hrec e _ _ (by omega)) fun p _ => ?_
            obtain ⟨es, st'⟩ := p
            simp only []
            split <;> simp
        | slice e =>
          simp only [depth] at h
          simp only []
          refine NoF_bind (hrec e _ _ (by omega)) fun p _ => ?_
          obtain ⟨es, st'⟩ := p
          simp only []
          split <;> simp
        | array len e =>
          simp only [depth] at h
          simp only []
          refine NoF_bind (hrec e _ _ (by omega)) fun p _ => ?_
          obtain ⟨es, st'⟩ := p
          simp only []
          split <;> simp
        | struct fields =>
          simp only [depth] at h
          simp only []
          refine NoF_bind (structLoop_NoFuel rec _ fields _ _ fun g tag ft hm seen st => hrec ft seen st ?_) fun p _ => ?_
          · have := depth_le_depthFields hm; omega
          · simp
        | named nm' u' => simp
    | map kk e =>
      simp only [depth] at h
      simp only []
      split
      · split <;> simp
      · refine NoF_bind (hrec e _ _ (by omega)) fun p _ => ?_
        obtain ⟨es, st'⟩ := p
        simp only []
        split <;> simp
    | slice e =>
      simp only [depth] at h
      simp only []
      refine NoF_bind (hrec e _ _ (by omega)) fun p _ => ?_
      obtain ⟨es, st'⟩ := p
      simp only []
      split <;> simp
    | array len e =>
      simp only [depth] at h
      simp only []
      refine NoF_bind (hrec e _ _ (by omega)) fun p _ => ?_
      obtain ⟨es, st'⟩ := p
      simp only []
      split <;> simp
    | struct fields =>
      simp only [depth] at h
      simp only []
      refine NoF_bind (structLoop_NoFuel rec _ fields _ _ fun g tag ft hm seen st => hrec ft seen st ?_) fun p _ => ?_
      · have := depth_le_depthFields hm; omega
      · simp

theorem inferFuel_NoFuel (opts : IOpts)
    (hs : ∀ nm sid st, Json.lookup nm opts.schemas = some sid → clone st sid ≠ .fuel) :
    ∀ fuel t seen st, depth t ≤ fuel → inferFuel opts fuel t seen st ≠ .fuel := by
  intro fuel
  induction fuel with
  | zero => intro t seen st h; have := depth_pos t; omega
  | succ fuel ih =>
    intro t seen st h
    exact inferStep_NoFuel opts hs (inferFuel opts fuel) fuel ih t seen st h

end C10
end JSV
