/-
  `EncJsonEmb` is conservative over `EncJson`: on a type without embedded fields (`GoType.toE`) typing is the same,
  and — for pairwise distinct JSON names, which is H_D14 of `InDomain` — `typeFields`, `encodeE` and `decodableE` are
  `jsonNames`, `encode` and `decodable`.
-/
import JSV.Spec.EncJsonEmb
import JSV.Proofs.InfEmbCons
import JSV.Proofs.InfEmbDom
namespace JSV
namespace EncJsonEmb
open Go EncJson

/-! ## fields -/

/-- a field of `fieldsToE` -/
def fE (f : String × String × GoType) : FieldE GoTypeE :=
  { goName := f.1, tag := f.2.1, exported := true, embedded := false, type := f.2.2.toE }

theorem classify_toE (g tag : String) (t : GoTypeE) :
    classify { goName := g, tag := tag, exported := true, embedded := false, type := t } =
      if (fieldJSONInfo g tag).omitted then .ignored else .leaf := by
  unfold classify
  simp

theorem candidates_toE (pre : List Nat) : ∀ (i : Nat) (fs : List (String × String × GoType)),
    (candidates pre i (fieldsToE fs)).map (·.name) = jsonNames fs
  | _, [] => by simp [fieldsToE, candidates, jsonNames]
  | i, f :: rest => by
    simp only [fieldsToE, candidates, classify_toE, jsonNames_cons, List.map_append]
    rw [candidates_toE pre (i + 1) rest]
    cases ho : (fieldJSONInfo f.1 f.2.1).omitted <;> simp [mkTField]

/-- candidates with pairwise distinct names are all dominant -/
theorem isDominant_of_nodup {all : List TField} (h : (all.map (·.name)).Nodup) {c : TField} (hc : c ∈ all) :
    isDominant all c = true := by
  unfold isDominant
  rw [List.all_eq_true]
  intro o ho
  by_cases hn : o.name = c.name
  · have : o = c := eq_of_nodup_map (·.name) h ho hc hn
    subst this
    simp
  · simp [hn]

theorem typeFields_toE (fs : List (String × String × GoType)) (h : nodup (jsonNames fs) = true) :
    typeFields (fieldsToE fs) = candidates [] 0 (fieldsToE fs) := by
  unfold typeFields
  refine List.filter_eq_self.2 fun c hc => isDominant_of_nodup ?_ hc
  rw [candidates_toE]
  exact (nodup_iff _).1 h

/-- the JSON names json.Marshal emits: those of the non-omitted fields, in declaration order -/
theorem fieldNames_toE (fs : List (String × String × GoType)) (h : nodup (jsonNames fs) = true) :
    fieldNames (fieldsToE fs) = jsonNames fs := by
  unfold fieldNames
  rw [typeFields_toE fs h, candidates_toE]

theorem candidates_always_toE (pre : List Nat) : ∀ (i : Nat) (fs : List (String × String × GoType)),
    ((candidates pre i (fieldsToE fs)).filter fun f => !f.omitempty && !f.omitzero).map (·.name) = alwaysNames fs
  | _, [] => by simp [fieldsToE, candidates, alwaysNames]
  | i, f :: rest => by
    simp only [fieldsToE, candidates, classify_toE, alwaysNames_cons, List.filter_append, List.map_append]
    rw [candidates_always_toE pre (i + 1) rest]
    cases ho : (fieldJSONInfo f.1 f.2.1).omitted with
    | true => simp
    | false =>
      simp only [Bool.false_eq_true, if_false, Bool.false_or, List.filter_cons, List.filter_nil, mkTField]
      cases he : (fieldJSONInfo f.1 f.2.1).omitempty <;> cases hz : (fieldJSONInfo f.1 f.2.1).omitzero <;> simp

theorem alwaysFieldNames_toE (fs : List (String × String × GoType)) (h : nodup (jsonNames fs) = true) :
    alwaysFieldNames (fieldsToE fs) = alwaysNames fs := by
  unfold alwaysFieldNames
  rw [typeFields_toE fs h, candidates_always_toE]

/-! ## typing -/

mutual
  theorem hasTypeE_toE : ∀ (T : GoType) (v : GoValue), HasTypeE T.toE v ↔ HasType T v
    | .basic _, _ => by simp only [GoType.toE, HasTypeE, HasType]
    | .ptr e, v => by
      simp only [GoType.toE, HasTypeE, HasType]
      cases v with
      | ptr w => exact hasTypeE_toE e w
      | _ => exact Iff.rfl
    | .slice e, v => by
      simp only [GoType.toE, HasTypeE, HasType]
      cases v with
      | slice vs => exact forall_congr' fun w => imp_congr_right fun _ => hasTypeE_toE e w
      | _ => exact Iff.rfl
    | .array n e, v => by
      simp only [GoType.toE, HasTypeE, HasType]
      cases v with
      | array vs => exact and_congr_right fun _ => forall_congr' fun w => imp_congr_right fun _ => hasTypeE_toE e w
      | _ => exact Iff.rfl
    | .map k e, v => by
      simp only [GoType.toE, HasTypeE, HasType]
      cases v with
      | map kvs => exact and_congr_right fun _ => forall_congr' fun p => imp_congr_right fun _ => hasTypeE_toE e p.2
      | _ => exact Iff.rfl
    | .struct fs, v => by
      simp only [GoType.toE, HasTypeE, HasType]
      cases v with
      | struct vs => exact hasTypeFieldsE_toE fs vs
      | _ => exact Iff.rfl
    | .named _ u, v => by
      simp only [GoType.toE, HasTypeE, HasType]
      exact hasTypeE_toE u v
    | .ref _, _ => by simp only [GoType.toE, HasTypeE, HasType]
  theorem hasTypeFieldsE_toE : ∀ (fs : List (String × String × GoType)) (vs : List GoValue),
      HasTypeFieldsE (fieldsToE fs) vs ↔ HasTypeFields fs vs
    | [], _ => by simp only [fieldsToE, HasTypeFieldsE, HasTypeFields]
    | f :: rest, vs => by
      simp only [fieldsToE, HasTypeFieldsE, HasTypeFields]
      cases vs with
      | nil => exact Iff.rfl
      | cons v vs' =>
        simp only [classify_toE]
        refine and_congr ?_ (hasTypeFieldsE_toE rest vs')
        cases ho : (fieldJSONInfo f.1 f.2.1).omitted with
        | true => simp
        | false =>
          simp only [Bool.false_eq_true, if_false, false_or]
          exact hasTypeE_toE f.2.2 v
end

/-! ## json.Marshal -/

mutual
  theorem encodeE_toE : ∀ (T : GoType) (v : GoValue), InDomain T = true → encodeE T.toE v = encode T v
    | .basic _, v, _ => by cases v <;> rfl
    | .ptr e, v, h => by
      simp only [InDomain] at h
      simp only [GoType.toE, encodeE, encode]
      cases v with
      | ptr w => exact encodeE_toE e w h
      | _ => rfl
    | .slice e, v, h => by
      simp only [InDomain] at h
      simp only [GoType.toE, encodeE, encode]
      cases v with
      | slice vs =>
        simp only
        congr 1
        exact List.map_congr_left fun w _ => encodeE_toE e w h
      | _ => rfl
    | .array n e, v, h => by
      simp only [InDomain] at h
      simp only [GoType.toE, encodeE, encode]
      cases v with
      | array vs =>
        simp only
        congr 1
        exact List.map_congr_left fun w _ => encodeE_toE e w h
      | _ => rfl
    | .map k e, v, h => by
      simp only [InDomain, Bool.and_eq_true] at h
      simp only [GoType.toE, encodeE, encode]
      cases v with
      | map kvs =>
        simp only
        congr 1
        exact List.map_congr_left fun p _ => by rw [encodeE_toE e p.2 h.2]
      | _ => rfl
    | .struct fs, v, h => by
      simp only [InDomain, Bool.and_eq_true] at h
      simp only [GoType.toE, encodeE, encode]
      cases v with
      | struct vs =>
        simp only
        congr 1
        have hnd : ((candidates [] 0 (fieldsToE fs)).map (·.name)).Nodup := by
          rw [candidates_toE]
          exact (nodup_iff _).1 h.1.1
        exact encodeFieldsE_toE (candidates [] 0 (fieldsToE fs)) fs 0 vs h.2 fun c hc => isDominant_of_nodup hnd hc
      | _ => rfl
    | .named _ _, _, h => by simp [InDomain] at h
    | .ref _, _, h => by simp [InDomain] at h
  theorem encodeFieldsE_toE (all : List TField) : ∀ (fs : List (String × String × GoType)) (i : Nat) (vs : List GoValue),
      inDomainFields fs = true → (∀ c, c ∈ candidates [] i (fieldsToE fs) → isDominant all c = true) →
      encodeFieldsE all [] i (fieldsToE fs) vs = encodeFields fs vs
    | [], _, _, _, _ => by simp only [fieldsToE, encodeFieldsE, encodeFields]
    | f :: rest, i, vs, h, hdom => by
      simp only [inDomainFields, Bool.and_eq_true, Bool.or_eq_true] at h
      simp only [fieldsToE, encodeFieldsE, encodeFields]
      cases vs with
      | nil => rfl
      | cons v vs' =>
        simp only [classify_toE]
        have hrest : ∀ c, c ∈ candidates [] (i + 1) (fieldsToE rest) → isDominant all c = true := fun c hc =>
          hdom c (by simp only [fieldsToE, candidates, List.mem_append]; exact Or.inr hc)
        rw [encodeFieldsE_toE all rest (i + 1) vs' h.2 hrest]
        cases ho : (fieldJSONInfo f.1 f.2.1).omitted with
        | true => simp [fieldSkipped, ho]
        | false =>
          have hd : isDominant all (mkTField ([] ++ [i]) (fE f)) = true :=
            hdom _ (by simp only [fieldsToE, candidates, classify_toE, ho, Bool.false_eq_true, if_false, List.mem_append,
              List.mem_singleton, fE, true_or])
          unfold fE at hd
          have hty : InDomain f.2.2 = true := by
            rcases h.1 with h1 | h1
            · rw [ho] at h1; cases h1
            · exact h1
          simp only [Bool.false_eq_true, if_false, hd, Bool.true_and]
          rw [encodeE_toE f.2.2 v hty]
          cases fieldSkipped (fieldJSONInfo f.1 f.2.1) v <;> simp
end

/-! ## json.Decoder -/

mutual
  theorem decodableE_toE : ∀ (T : GoType) (j : Json), InDomain T = true → decodableE T.toE j = decodable T j
    | .basic _, j, _ => by simp only [GoType.toE, decodableE, decodable]
    | .ptr e, j, h => by
      simp only [InDomain] at h
      simp only [GoType.toE, decodableE, decodable]
      exact decodableE_toE e j h
    | .slice e, j, h => by
      simp only [InDomain] at h
      simp only [GoType.toE, decodableE, decodable]
      cases j with
      | arr xs =>
        simp only
        exact List.all_congr rfl fun x => decodableE_toE e x h
      | _ => rfl
    | .array n e, j, h => by
      simp only [InDomain] at h
      simp only [GoType.toE, decodableE, decodable]
      cases j with
      | arr xs =>
        simp only
        exact List.all_congr rfl fun x => decodableE_toE e x h
      | _ => rfl
    | .map k e, j, h => by
      simp only [InDomain, Bool.and_eq_true] at h
      simp only [GoType.toE, decodableE, decodable]
      cases j with
      | obj kvs =>
        simp only
        congr 1
        exact List.all_congr rfl fun p => decodableE_toE e p.2 h.2
      | _ => rfl
    | .struct fs, j, h => by
      simp only [InDomain, Bool.and_eq_true] at h
      simp only [GoType.toE, decodableE, decodable]
      cases j with
      | obj kvs =>
        simp only
        have hnd : ((candidates [] 0 (fieldsToE fs)).map (·.name)).Nodup := by
          rw [candidates_toE]
          exact (nodup_iff _).1 h.1.1
        have hdom : ∀ c, c ∈ candidates [] 0 (fieldsToE fs) → isDominant (candidates [] 0 (fieldsToE fs)) c = true :=
          fun c hc => isDominant_of_nodup hnd hc
        refine List.all_congr rfl fun p => ?_
        rw [(decodableFindE_toE (candidates [] 0 (fieldsToE fs)) fs 0 p.1 p.2 h.2 hdom).1,
          (decodableFindE_toE (candidates [] 0 (fieldsToE fs)) fs 0 p.1 p.2 h.2 hdom).2]
        cases decodableExact fs p.1 p.2 <;> rfl
      | _ => rfl
    | .named _ _, _, h => by simp [InDomain] at h
    | .ref _, _, h => by simp [InDomain] at h
  theorem decodableFindE_toE (all : List TField) : ∀ (fs : List (String × String × GoType)) (i : Nat) (k : String) (v : Json),
      inDomainFields fs = true → (∀ c, c ∈ candidates [] i (fieldsToE fs) → isDominant all c = true) →
      decodableFindE all (fun n k => n == k) [] i (fieldsToE fs) k v = decodableExact fs k v ∧
      decodableFindE all foldEq [] i (fieldsToE fs) k v = decodableFold fs k v
    | [], _, _, _, _, _ => by simp only [fieldsToE, decodableFindE, decodableExact, decodableFold, and_self]
    | f :: rest, i, k, v, h, hdom => by
      simp only [inDomainFields, Bool.and_eq_true, Bool.or_eq_true] at h
      have hrest : ∀ c, c ∈ candidates [] (i + 1) (fieldsToE rest) → isDominant all c = true := fun c hc =>
        hdom c (by simp only [fieldsToE, candidates, List.mem_append]; exact Or.inr hc)
      obtain ⟨ih1, ih2⟩ := decodableFindE_toE all rest (i + 1) k v h.2 hrest
      simp only [fieldsToE, decodableFindE, decodableExact, decodableFold, classify_toE]
      rw [ih1, ih2]
      cases ho : (fieldJSONInfo f.1 f.2.1).omitted with
      | true => simp
      | false =>
        have hd : isDominant all (mkTField ([] ++ [i]) (fE f)) = true :=
          hdom _ (by simp only [fieldsToE, candidates, classify_toE, ho, Bool.false_eq_true, if_false, List.mem_append,
            List.mem_singleton, fE, true_or])
        unfold fE at hd
        have hty : InDomain f.2.2 = true := by
          rcases h.1 with h1 | h1
          · rw [ho] at h1; cases h1
          · exact h1
        simp only [Bool.false_eq_true, if_false, hd, Bool.true_and, Bool.not_false]
        rw [decodableE_toE f.2.2 v hty]
        constructor
        · cases hm : ((fieldJSONInfo f.1 f.2.1).name == k) <;> simp
        · cases hm : foldEq (fieldJSONInfo f.1 f.2.1).name k <;> simp
end

end EncJsonEmb
end JSV

namespace JSV
namespace EncJsonEmb
open Go EncJson

/-! ## the domain -/

theorem plainV_mem {pre : List Nat} : ∀ {i : Nat} {fs : List (String × String × GoType)} {b : VField}, b ∈ plainV pre i fs →
    ∃ g, g ∈ fs ∧ b.goName = g.1 ∧ b.tag = g.2.1 ∧ b.exported = true ∧ b.anonymous = false
  | _, [], _, h => by simp only [plainV] at h; cases h
  | i, f :: rest, b, h => by
    simp only [plainV, List.mem_cons] at h
    rcases h with rfl | h
    · exact ⟨f, List.mem_cons_self, rfl, rfl, rfl, rfl⟩
    · obtain ⟨g, hg, h1⟩ := plainV_mem h
      exact ⟨g, List.mem_cons_of_mem _ hg, h1⟩

theorem mem_goNamesOf : ∀ {fs : List (String × String × GoType)} {g : String × String × GoType}, g ∈ fs → g.1 ∈ goNamesOf fs
  | f :: rest, g, h => by
    simp only [goNamesOf, List.mem_cons]
    rcases List.mem_cons.1 h with rfl | h
    · exact Or.inl rfl
    · exact Or.inr (mem_goNamesOf h)

theorem namesOk_plainV (pre : List Nat) : ∀ (i : Nat) (fs : List (String × String × GoType)),
    nodup (goNamesOf fs) = true → nodup (jsonNames fs) = true → namesOk (plainV pre i fs) = true
  | _, [], _, _ => rfl
  | i, f :: rest, hg, hj => by
    simp only [goNamesOf, nodup, Bool.and_eq_true, Bool.not_eq_true'] at hg
    have hgn : f.1 ∉ goNamesOf rest := by simpa using hg.1
    rw [jsonNames_cons] at hj
    have hj' : nodup (jsonNames rest) = true := by
      split at hj
      · exact hj
      · simp only [nodup, Bool.and_eq_true] at hj
        exact hj.2
    simp only [plainV, namesOk, Bool.and_eq_true, List.all_eq_true]
    refine ⟨fun b hb => ?_, namesOk_plainV pre (i + 1) rest hg.2 hj'⟩
    obtain ⟨g, hgm, h1, h2, h3, h4⟩ := plainV_mem hb
    rw [pairOk_iff]
    constructor
    · intro he
      exact absurd (by rw [show f.1 = g.1 from he.trans h1]; exact mem_goNamesOf hgm) hgn
    · intro hla hlb hjn
      exfalso
      rw [live_mk] at hla
      simp only [Bool.not_false, Bool.true_and, Bool.not_eq_true'] at hla
      simp only [hla, Bool.false_eq_true, if_false, nodup, Bool.and_eq_true, Bool.not_eq_true'] at hj
      have hnot : (fieldJSONInfo f.1 f.2.1).name ∉ jsonNames rest := by simpa using hj.1
      refine hnot ?_
      have hob : (fieldJSONInfo g.1 g.2.1).omitted = false := by
        unfold live at hlb
        simp only [Bool.and_eq_true, Bool.not_eq_true'] at hlb
        rw [← h1, ← h2]
        exact hlb.2
      have : (fieldJSONInfo f.1 f.2.1).name = (fieldJSONInfo g.1 g.2.1).name := by
        have := hjn
        unfold jsonNameOf at this
        rw [h1, h2] at this
        exact this
      rw [this]
      exact mem_jsonNames_of_mem hgm hob

mutual
  /-- `InDomainE` extends `InDomain` (on types whose structs have pairwise distinct Go field names) -/
  theorem inDomainE_toE : ∀ (T : GoType), InDomain T = true → DistinctNames T = true → InDomainE T.toE = true
    | .basic _, h, _ => by simpa only [GoType.toE, InDomainE, InDomain] using h
    | .ptr e, h, hd => by
      simp only [InDomain] at h
      simp only [DistinctNames] at hd
      simp only [GoType.toE, InDomainE]
      exact inDomainE_toE e h hd
    | .slice e, h, hd => by
      simp only [InDomain] at h
      simp only [DistinctNames] at hd
      simp only [GoType.toE, InDomainE]
      exact inDomainE_toE e h hd
    | .array _ e, h, hd => by
      simp only [InDomain] at h
      simp only [DistinctNames] at hd
      simp only [GoType.toE, InDomainE]
      exact inDomainE_toE e h hd
    | .map _ e, h, hd => by
      simp only [InDomain, Bool.and_eq_true] at h
      simp only [DistinctNames] at hd
      simp only [GoType.toE, InDomainE, Bool.and_eq_true]
      exact ⟨h.1, inDomainE_toE e h.2 hd⟩
    | .struct fs, h, hd => by
      simp only [InDomain, Bool.and_eq_true] at h
      simp only [DistinctNames, Bool.and_eq_true] at hd
      simp only [GoType.toE, InDomainE, Bool.and_eq_true]
      refine ⟨?_, inDomainFieldsE_toE fs h.1.2 h.2 hd.2⟩
      rw [allFields_toE]
      exact namesOk_plainV [] 0 fs hd.1 h.1.1
    | .named _ _, h, _ => by simp [InDomain] at h
    | .ref _, h, _ => by simp [InDomain] at h
  theorem inDomainFieldsE_toE : ∀ (fs : List (String × String × GoType)), (fs.all fun f => fieldTagOk f.1 f.2.1) = true →
      inDomainFields fs = true → distinctNamesFields fs = true → inDomainFieldsE (fieldsToE fs) = true
    | [], _, _, _ => rfl
    | f :: rest, ht, h, hd => by
      simp only [List.all_cons, Bool.and_eq_true] at ht
      simp only [inDomainFields, Bool.and_eq_true, Bool.or_eq_true] at h
      simp only [distinctNamesFields, Bool.and_eq_true] at hd
      simp only [fieldsToE, inDomainFieldsE, Bool.false_eq_true, if_false, Bool.not_true, Bool.false_or, Bool.and_eq_true,
        Bool.or_eq_true]
      refine ⟨?_, inDomainFieldsE_toE rest ht.2 h.2 hd.2⟩
      rcases h.1 with ho | hty
      · exact Or.inl ho
      · exact Or.inr ⟨ht.1, inDomainE_toE f.2.2 hty hd.1⟩
end

end EncJsonEmb
end JSV
