/-
  C14 helpers, part 4: the array and object keywords of the Spec under key permutation.
-/
import JSV.Proofs.InvPerm3
namespace JSV
namespace Inv
open Go GoVal Refine

theorem all₂_zip_left {α β γ : Type} {R : α → β → Prop} : ∀ (pre : List γ) {xs : List α} {ys : List β}, All₂ R xs ys →
    All₂ (fun p q => p.1 = q.1 ∧ R p.2 q.2) (pre.zip xs) (pre.zip ys)
  | [], _, _, _ => by simp [All₂]
  | _ :: _, [], [], _ => by simp [All₂]
  | t :: pre, x :: xs, y :: ys, h => by
    simp only [List.zip_cons_cons]
    exact ⟨⟨rfl, h.1⟩, all₂_zip_left pre h.2⟩
  | _ :: _, [], _ :: _, h => h.elim
  | _ :: _, _ :: _, [], h => h.elim

theorem all₂_zip_right {α β γ : Type} {R : α → β → Prop} : ∀ {xs : List α} {ys : List β} (idx : List γ), All₂ R xs ys →
    All₂ (fun p q => R p.1 q.1 ∧ p.2 = q.2) (xs.zip idx) (ys.zip idx)
  | [], [], _, _ => by simp [All₂]
  | _ :: _, _ :: _, [], _ => by simp [All₂]
  | x :: xs, y :: ys, i :: idx, h => by
    simp only [List.zip_cons_cons]
    exact ⟨⟨h.1, rfl⟩, all₂_zip_right idx h.2⟩
  | [], _ :: _, _, h => h.elim
  | _ :: _, [], _, h => h.elim

theorem zip_filterMap_congr {α β γ : Type} {R : α → α → Prop} (f : α × β → Option γ) :
    ∀ {rs1 rs2 : List α} (idx : List β), All₂ R rs1 rs2 → (∀ r1 r2 i, R r1 r2 → f (r1, i) = f (r2, i)) →
      (rs1.zip idx).filterMap f = (rs2.zip idx).filterMap f
  | [], [], _, _, _ => by simp
  | _ :: _, _ :: _, [], _, _ => by simp
  | r1 :: rs1, r2 :: rs2, i :: idx, h, hf => by
    simp only [List.zip_cons_cons, List.filterMap_cons, hf r1 r2 i h.1, zip_filterMap_congr f idx h.2 hf]
  | [], _ :: _, _, h, _ => h.elim
  | _ :: _, [], _, h, _ => h.elim

theorem RSim_refl (r : Spec.R) : RSim r r := by
  cases r
  · trivial
  · exact EvEqv.refl _

section
variable {sub1 sub2 : NodeId → Json → Spec.Out} (hs : SubSim sub1 sub2)
variable {j1 j2 : Json} (hj : permJson j1 j2) (hw : Json.WF j1 = true)
include hs hj hw

/-! ## arrays -/

theorem kwItems_sim (env : Spec.Env) (n : Node) :
    OutSim (Spec.kwItems env sub1 n j1) (Spec.kwItems env sub2 n j2) := by
  cases j1 <;> cases j2 <;> try (first | exact OutSim_empty | (simp [permJson] at hj; done))
  rename_i xs ys
  have ha := permJson_arr_all₂ hj hw
  unfold Spec.kwItems
  dsimp only
  generalize Spec.arrayShape env n = sh
  obtain ⟨pre, rest⟩ := sh
  dsimp only
  refine seq_map_sim (R := RSim) (PR.of_all₂ (All₂.append ?_ ?_)) _ _ (fun rs1 rs2 h => ?_)
  · refine All₂.map _ _ (fun p q hr => ?_) (all₂_zip_left pre ha)
    obtain ⟨t, x⟩ := p
    obtain ⟨t', y⟩ := q
    obtain ⟨ht, hr⟩ := hr
    dsimp only at ht ⊢
    subst ht
    exact hs t x y hr.1 hr.2
  · cases rest with
    | none => trivial
    | some t => exact All₂.map _ _ (fun x y hr => hs t x y hr.1 hr.2) (ha.drop _)
  · rw [allHold_sim h, ha.length]
    split
    · exact EvEqv.refl _
    · trivial

theorem kwContains_sim (n : Node) : OutSim (Spec.kwContains sub1 n j1) (Spec.kwContains sub2 n j2) := by
  cases j1 <;> cases j2 <;> try (first | exact OutSim_empty | (simp [permJson] at hj; done))
  rename_i xs ys
  have ha := permJson_arr_all₂ hj hw
  unfold Spec.kwContains
  cases n.contains with
  | none => exact OutSim_empty
  | some c =>
    dsimp only
    refine seq_map_sim_all₂ (R := RSim) (All₂.map _ _ (fun x y hr => hs c x y hr.1 hr.2) ha) _ _ (fun rs1 rs2 h => ?_)
    rw [ha.length, zip_filterMap_congr _ _ h (fun r1 r2 i hr => by dsimp only; rw [RSim.isSome_eq hr])]
    exact RSim_refl _

theorem kwUnevaluatedItems_sim (n : Node) {ev1 ev2 : Spec.Ev} (hev : EvEqv ev1 ev2) :
    OutSim (Spec.kwUnevaluatedItems sub1 n j1 ev1) (Spec.kwUnevaluatedItems sub2 n j2 ev2) := by
  cases j1 <;> cases j2 <;> try (first | exact OutSim_empty | (simp [permJson] at hj; done))
  rename_i xs ys
  have ha := permJson_arr_all₂ hj hw
  unfold Spec.kwUnevaluatedItems
  cases n.unevaluatedItems with
  | none => exact OutSim_empty
  | some t =>
    dsimp only
    rw [ha.length]
    refine seq_map_sim (R := RSim) (PR.of_all₂ (All₂.map _ _ (fun p q hr => ?_)
      (All₂.filter _ _ (fun p q hr => ?_) (all₂_zip_right (Spec.indices ys.length) ha)))) _ _ (fun rs1 rs2 h => ?_)
    · obtain ⟨x, i⟩ := p
      obtain ⟨y, i'⟩ := q
      exact hs t x y hr.1.1 hr.1.2
    · obtain ⟨x, i⟩ := p
      obtain ⟨y, i'⟩ := q
      obtain ⟨_, hi⟩ := hr
      dsimp only at hi ⊢
      subst hi
      rw [hev.items_contains]
    · rw [allHold_sim h]
      split
      · exact EvEqv.refl _
      · trivial

/-! ## objects -/

theorem kwPropertyNames_sim (n : Node) :
    OutSim (Spec.kwPropertyNames sub1 n j1) (Spec.kwPropertyNames sub2 n j2) := by
  cases j1 <;> cases j2 <;> try (first | exact OutSim_empty | (simp [permJson] at hj; done))
  rename_i k1 k2
  have hpr := permJson_obj_PR hj hw
  unfold Spec.kwPropertyNames
  cases n.propertyNames with
  | none => exact OutSim_empty
  | some t =>
    dsimp only
    refine seq_map_sim (R := RSim) (PR.map _ _ hpr (fun p q hr => ?_)) _ _ (fun rs1 rs2 h => ?_)
    · obtain ⟨k, v⟩ := p
      obtain ⟨k', w⟩ := q
      have hk : k = k' := hr.1
      subst hk
      exact hs t (.str k) (.str k) (permJson_refl _) rfl
    · rw [allHold_sim h]
      split
      · exact EvEqv.refl _
      · trivial

theorem kwUnevaluatedProps_sim (n : Node) {ev1 ev2 : Spec.Ev} (hev : EvEqv ev1 ev2) :
    OutSim (Spec.kwUnevaluatedProps sub1 n j1 ev1) (Spec.kwUnevaluatedProps sub2 n j2 ev2) := by
  cases j1 <;> cases j2 <;> try (first | exact OutSim_empty | (simp [permJson] at hj; done))
  rename_i k1 k2
  have hpr := permJson_obj_PR hj hw
  unfold Spec.kwUnevaluatedProps
  cases n.unevaluatedProperties with
  | none => exact OutSim_empty
  | some t =>
    dsimp only
    refine seq_map_sim (R := RSim) (PR.map _ _ (PR.filter _ _ hpr (fun p q hr => ?_)) (fun p q hr => ?_)) _ _ (fun rs1 rs2 h => ?_)
    · obtain ⟨k, v⟩ := p
      obtain ⟨k', w⟩ := q
      have hk : k = k' := hr.1
      subst hk
      dsimp only
      rw [hev.props_contains]
    · obtain ⟨k, v⟩ := p
      obtain ⟨k', w⟩ := q
      exact hs t v w hr.2.1 hr.2.2
    · rw [allHold_sim h]
      split
      · exact ⟨fun k => (PR_ERW_keys hpr).mem_iff, fun _ => Iff.rfl⟩
      · trivial

theorem kwDependentSchemas_sim (env : Spec.Env) (n1 n2 : Node)
    (hds : (n1.dependencySchemas.getD []).Perm (n2.dependencySchemas.getD []))
    (hdsc : (n1.dependentSchemas.getD []).Perm (n2.dependentSchemas.getD [])) :
    OutSim (Spec.kwDependentSchemas env sub1 n1 j1) (Spec.kwDependentSchemas env sub2 n2 j2) := by
  cases j1 <;> cases j2 <;> try (first | exact OutSim_empty | (simp [permJson] at hj; done))
  rename_i k1 k2
  have hpr := permJson_obj_PR hj hw
  have hdep : (match env.draft with
      | .d7 => n1.dependencySchemas.getD []
      | .d2020 => n1.dependentSchemas.getD []).Perm
      (match env.draft with
      | .d7 => n2.dependencySchemas.getD []
      | .d2020 => n2.dependentSchemas.getD []) := by
    cases env.draft <;> assumption
  unfold Spec.kwDependentSchemas
  dsimp only
  refine seq_map_sim (R := RSim) (PR.map _ _ (PR.filter _ _ (PR.of_perm (R := (· = ·)) (fun _ _ => rfl) hdep) (fun p q hr => ?_))
    (fun p q hr => ?_)) _ _ (fun rs1 rs2 h => conj_sim h)
  · subst hr
    obtain ⟨k, t⟩ := p
    dsimp only
    rw [lookup_isSome_PR hpr]
  · subst hr
    obtain ⟨k, t⟩ := p
    exact hs t _ _ hj hw

end

end Inv
end JSV
