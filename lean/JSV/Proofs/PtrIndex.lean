/-
  Helper lemmas for C17: decimal array indices.  `arrayIndex strict (toString i) len = some i` and,
  for the strict rule, the converse: only the canonical decimal numeral of `i` selects element `i`.
-/
import JSV.Model.Pointer
namespace JSV
namespace Pointer

/-- the digit test used by `allDigits` -/
def isDig (c : Char) : Bool := '0' ≤ c && c ≤ '9'

theorem isDig_iff (c : Char) : isDig c = true ↔ 48 ≤ c.toNat ∧ c.toNat ≤ 57 := by
  simp [isDig, Char.le_def, UInt32.le_iff_toNat_le, Char.toNat_val]

theorem allDigits_iff (s : Cs) : allDigits s = true ↔ s ≠ [] ∧ ∀ c ∈ s, isDig c = true := by
  simp [allDigits, isDig, List.all_eq_true]

/-- the value computed by `atoi` on the digits -/
def digitsVal (s : Cs) : Nat := s.foldl (fun a c => a * 10 + (c.toNat - '0'.toNat)) 0

theorem digitsVal_eq (s : Cs) : digitsVal s = Nat.ofDigitChars 10 s 0 := by
  unfold digitsVal Nat.ofDigitChars
  congr 1
  funext a c
  rw [Nat.mul_comm]

theorem digitChar_sub (c : Char) (h : isDig c = true) : Nat.digitChar (c.toNat - 48) = c := by
  rw [isDig_iff] at h
  apply Char.toNat_inj.mp
  rw [Nat.toNat_digitChar_of_lt_ten (by omega)]
  omega

theorem isDig_of_mem_toDigits (n : Nat) (c : Char) (h : c ∈ Nat.toDigits 10 n) : isDig c = true := by
  have := Nat.isDigit_of_mem_toDigits (by decide) (by decide) h
  rw [Char.isDigit_iff_toNat] at this
  rw [isDig_iff]
  exact this

theorem allDigits_toDigits (n : Nat) : allDigits (Nat.toDigits 10 n) = true := by
  rw [allDigits_iff]
  exact ⟨Nat.toDigits_ne_nil, fun c h => isDig_of_mem_toDigits n c h⟩

theorem digitsVal_toDigits (n : Nat) : digitsVal (Nat.toDigits 10 n) = n := by
  rw [digitsVal_eq, Nat.ofDigitChars_ten_toDigits]

/-- a positive number has no leading zero -/
theorem head_toDigits_ne_zero (n : Nat) (hn : 0 < n) : (Nat.toDigits 10 n).head? ≠ some '0' := by
  induction n using Nat.base_induction 10 (by decide) with
  | single m hm =>
    rw [Nat.toDigits_of_lt_base hm]
    simp only [List.head?_cons, ne_eq, Option.some.injEq]
    intro h
    have := congrArg Char.toNat h
    rw [Nat.toNat_digitChar_of_lt_ten hm] at this
    simp at this
    omega
  | digit m k hk hm ih =>
    rw [← Nat.toDigits_append_toDigits (by decide) hm hk]
    have ih' := ih hm
    obtain ⟨x, xs, hx⟩ := List.exists_cons_of_ne_nil (Nat.toDigits_ne_nil (n := m) (b := 10))
    rw [hx] at ih' ⊢
    simpa using ih'

theorem toDigits_length_one_of_head_zero (n : Nat) (h : (Nat.toDigits 10 n).head? = some '0') :
    (Nat.toDigits 10 n).length = 1 := by
  cases n with
  | zero => simp
  | succ k => exact absurd h (head_toDigits_ne_zero _ (Nat.succ_pos _))

theorem atoi_of_allDigits (s : Cs) (h : allDigits s = true) : atoi s = some (digitsVal s : Int) := by
  obtain ⟨hne, hd⟩ := (allDigits_iff s).mp h
  cases s with
  | nil => exact absurd rfl hne
  | cons c r =>
    have hc := (isDig_iff c).mp (hd c (by simp))
    have h1 : c ≠ '+' := by rintro rfl; simp at hc
    have h2 : c ≠ '-' := by rintro rfl; simp at hc
    unfold atoi
    split
    · rename_i heq; simp at heq; exact absurd heq.1 h1
    · rename_i heq; simp at heq; exact absurd heq.1 h2
    · simp only [h, if_true]; rfl

theorem toString_ne_dash (i : Nat) : (toString i == "-") = false := by
  rw [beq_eq_false_iff_ne]
  intro h
  have := congrArg String.toList h
  rw [Nat.toString_eq_repr, Nat.toList_repr] at this
  have hd := isDig_of_mem_toDigits i '-' (by rw [this]; simp)
  simp [isDig_iff] at hd

theorem arrayIndex_toString (strict : Bool) (i len : Nat) (h : i < len) :
    arrayIndex strict (toString i) len = some i := by
  unfold arrayIndex
  simp only [toString_ne_dash, Bool.false_eq_true, if_false]
  rw [Nat.toString_eq_repr, Nat.toList_repr]
  have hz : ((Nat.toDigits 10 i).length > 1 && (Nat.toDigits 10 i).head? == some '0') = false := by
    rw [Bool.and_eq_false_iff]
    by_cases hh : (Nat.toDigits 10 i).head? = some '0'
    · left; rw [toDigits_length_one_of_head_zero i hh]; decide
    · right; simpa using hh
  rw [hz]
  simp only [Bool.false_eq_true, if_false, allDigits_toDigits, Bool.not_true, Bool.and_false]
  rw [atoi_of_allDigits _ (allDigits_toDigits i), digitsVal_toDigits]
  simp [h]

/-- uniqueness of the canonical numeral, stated on the reversed digit list -/
theorem toDigits_digitsVal_rev (r : Cs) (hne : r ≠ []) (hd : ∀ c ∈ r, isDig c = true)
    (hz : r.length > 1 → r.getLast? ≠ some '0') :
    Nat.toDigits 10 (digitsVal r.reverse) = r.reverse := by
  induction r with
  | nil => exact absurd rfl hne
  | cons d r' ih =>
    have hdd := hd d (by simp)
    have hdd' := (isDig_iff d).mp hdd
    by_cases hr' : r' = []
    · subst hr'
      simp only [List.reverse_cons, List.reverse_nil, List.nil_append]
      have : digitsVal [d] = d.toNat - 48 := by simp [digitsVal]
      rw [this, Nat.toDigits_of_lt_base (by omega), digitChar_sub d hdd]
    · have hlen : (d :: r').length > 1 := by
        cases r' with
        | nil => exact absurd rfl hr'
        | cons _ _ => simp
      have hlast : r'.getLast? ≠ some '0' := by
        have := hz hlen
        cases r' with
        | nil => exact absurd rfl hr'
        | cons _ _ => rwa [List.getLast?_cons_cons] at this
      have ih' := ih hr' (fun c hc => hd c (List.mem_cons_of_mem _ hc)) (fun _ => hlast)
      rw [List.reverse_cons]
      have hv : digitsVal (r'.reverse ++ [d]) = 10 * digitsVal r'.reverse + (d.toNat - 48) := by
        simp [digitsVal, List.foldl_append, Nat.mul_comm]
      have hpos : 0 < digitsVal r'.reverse := by
        rcases Nat.eq_zero_or_pos (digitsVal r'.reverse) with h0 | h0
        · exfalso
          rw [h0, Nat.toDigits_zero] at ih'
          have : r' = ['0'] := by
            have := congrArg List.reverse ih'
            simpa using this.symm
          subst this
          exact hlast rfl
        · exact h0
      rw [hv, ← Nat.toDigits_append_toDigits (by decide) hpos (by omega), ih',
        Nat.toDigits_of_lt_base (by omega), digitChar_sub d hdd]

theorem toDigits_digitsVal (s : Cs) (h : allDigits s = true)
    (hz : ¬ (s.length > 1 ∧ s.head? = some '0')) : Nat.toDigits 10 (digitsVal s) = s := by
  obtain ⟨hne, hd⟩ := (allDigits_iff s).mp h
  have := toDigits_digitsVal_rev s.reverse (by simpa using hne) (by simpa using hd)
    (by
      intro hl
      rw [List.getLast?_reverse]
      intro hh
      exact hz ⟨by simpa using hl, hh⟩)
  simpa using this

/-- under the strict (RFC 6901) rule only the canonical numeral of `i` addresses element `i` -/
theorem arrayIndex_strict_digits (seg : String) (len i : Nat)
    (h : arrayIndex true seg len = some i) : seg = toString i ∧ i < len := by
  unfold arrayIndex at h
  simp only [Bool.true_and] at h
  split at h
  · exact absurd h (by simp)
  · split at h
    · exact absurd h (by simp)
    · split at h
      · exact absurd h (by simp)
      · rename_i hz hd
        have hd' : allDigits seg.toList = true := by simpa using hd
        have hz' : ¬ (seg.toList.length > 1 ∧ seg.toList.head? = some '0') := by
          simpa using hz
        rw [atoi_of_allDigits _ hd'] at h
        simp only at h
        split at h
        · rename_i hlt
          simp only [Int.toNat_natCast, Option.some.injEq] at h
          subst h
          constructor
          · rw [Nat.toString_eq_repr, Nat.repr_eq_ofList_toDigits, toDigits_digitsVal _ hd' hz',
              String.ofList_toList]
          · have := hlt.2; omega
        · exact absurd h (by simp)

end Pointer
end JSV
