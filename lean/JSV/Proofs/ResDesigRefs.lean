/-
  Helper lemmas for C03, continued: resolveRef / resolveRefs / resolver.resolve against the declarative
  designation (JSV/Spec/Designate.lean), for resolutions that load no other document.
-/
import JSV.Proofs.ResDesig
namespace JSV
namespace Go
namespace RInv
open Uri Spec

/-! ### resolveRef, unfolded into facts about the tables -/

/-- how resolveRef finds the resource named by the fragment-less URI -/
def Located (env : Env) (recDoc : ResolveDoc) (root : NodeId) (s : RState) (d : DocRes) (u : Url)
    (r : NodeId) (s' : RState) : Prop :=
  let key := Uri.toString (Uri.dropFragment u)
  (Json.lookup key d.uris = some r ∧ s' = s) ∨
  (Json.lookup key d.uris = none ∧ Json.lookup key s.loaded = some r ∧ s' = mergeKnown s root r) ∨
  (Json.lookup key d.uris = none ∧ Json.lookup key s.loaded = none ∧
    ∃ tbl s2, env.loader = some tbl ∧ Json.lookup key tbl = some (.doc r) ∧
      recDoc r (Uri.dropFragment u) d.draft { s with log := s.log ++ [key] } = .ok s2 ∧
      s' = mergeKnown s2 root r)

/-- the fragment dispatch of resolveRef, anchors read from the table -/
def TableFrag (env : Env) (s' : RState) (root r : NodeId) (frag : String) (o : RefOut) : Prop :=
  if (frag != "" && frag.toList.head? != some '/') = true then
    ∃ rInfo a, s'.info? root r = some rInfo ∧ Json.lookup frag rInfo.anchors = some a ∧
      o.target = a.schema ∧ o.dynFrag = (if a.dynamic then frag else "")
  else Pointer.dereference env.st true true r frag = .ok o.target ∧ o.dynFrag = ""

theorem resolveRef_unfold (env : Env) (recDoc : ResolveDoc) (root : NodeId) (s : RState) (id : NodeId)
    (ref : String) (o : RefOut) (s' : RState)
    (h : resolveRef env recDoc root s id ref = .ok (o, s')) :
    ∃ refURI0 info base bInfo bu d r,
      Uri.parse ref = .ok refURI0 ∧ s.info? root id = some info ∧ info.base = some base ∧
      s.info? root base = some bInfo ∧ bInfo.uri = some bu ∧ s.doc? root = some d ∧
      Located env recDoc root s d (Uri.resolveReference bu refURI0) r s' ∧
      TableFrag env s' root r (Uri.resolveReference bu refURI0).fragment o := by
  unfold resolveRef at h
  rw [bind_eq_ok] at h
  obtain ⟨refURI0, hp, h⟩ := h
  split at h
  · simp at h
  rename_i info hinfo
  split at h
  · simp at h
  rename_i base hbase
  split at h
  · simp at h
  rename_i bInfo hbInfo
  split at h
  · rename_i bu d hbu hd
    simp only at h
    rw [bind_eq_ok] at h
    obtain ⟨⟨r, s1⟩, hfound, h⟩ := h
    have h1 : Located env recDoc root s d (Uri.resolveReference bu refURI0) r s1 := by
      unfold Located
      simp only
      split at hfound
      · rename_i t ht
        simp only [Res.ok.injEq, Prod.mk.injEq] at hfound
        left; rw [← hfound.1, ← hfound.2]; exact ⟨ht, rfl⟩
      · rename_i hnone
        split at hfound
        · rename_i lroot hl
          simp only [Res.ok.injEq, Prod.mk.injEq] at hfound
          right; left; rw [← hfound.1, ← hfound.2]; exact ⟨hnone, hl, rfl⟩
        · rename_i hnone2
          right; right
          split at hfound
          · simp at hfound
          · rename_i tbl htbl
            split at hfound
            · simp at hfound
            · simp at hfound
            · simp at hfound
            · rename_i lroot hl
              rw [bind_eq_ok] at hfound
              obtain ⟨s2, hdoc, hfound⟩ := hfound
              simp only [Res.ok.injEq, Prod.mk.injEq] at hfound
              rw [← hfound.1, ← hfound.2]
              exact ⟨hnone, hnone2, tbl, s2, htbl, hl, hdoc, rfl⟩
    have h2 : s' = s1 ∧ TableFrag env s1 root r (Uri.resolveReference bu refURI0).fragment o := by
      unfold TableFrag
      simp only at h
      split at h
      · rename_i hc
        rw [if_pos hc]
        split at h
        · simp at h
        · rename_i rInfo hr
          split at h
          · simp at h
          · rename_i a ha
            simp only [Res.ok.injEq, Prod.mk.injEq] at h
            refine ⟨h.2.symm, rInfo, a, hr, ha, ?_, ?_⟩
            · rw [← h.1]
            · rw [← h.1]
      · rename_i hc
        rw [if_neg hc]
        rw [bind_eq_ok] at h
        obtain ⟨t, ht, h⟩ := h
        simp only [Res.ok.injEq, Prod.mk.injEq] at h
        refine ⟨h.2.symm, ?_, ?_⟩
        · rw [← h.1]; exact ht
        · rw [← h.1]
    rw [h2.1]
    exact ⟨refURI0, info, base, bInfo, bu, d, r, hp, hinfo, hbase, hbInfo, hbu, hd, h1, h2.2⟩
  · simp at h

theorem dereference_empty (st : Store) (strict nie : Bool) (r t : NodeId)
    (h : Pointer.dereference st strict nie r "" = .ok t) : t = r := by
  unfold Pointer.dereference at h
  have hp : Pointer.parse "" = .ok [] := by decide
  rw [hp] at h
  simp only [Res.bind_ok, Pointer.walk] at h
  split at h
  · simp at h
  · simp only [Res.ok.injEq] at h; exact h.symm

/-- with sound anchor tables, the table dispatch is the declarative one -/
theorem tableFrag_desig (env : Env) (D : Doc) (hst : D.st = env.st) (s' : RState) (root r : NodeId)
    (frag : String) (o : RefOut) (hs : Sound D s'.infos) (hr : D.Has r)
    (h : TableFrag env s' root r frag o) : D.FragTarget r frag o.target := by
  unfold TableFrag at h
  unfold Doc.FragTarget
  split at h
  · rename_i hc
    simp only [Bool.and_eq_true, bne_iff_ne, ne_eq] at hc
    rw [if_neg hc.1, if_neg hc.2]
    obtain ⟨rInfo, a, hri, ha, ht, _⟩ := h
    have := hs r rInfo (info?_lookup _ _ _ _ hri) hr _ (lookup_mem _ _ _ ha)
    rw [ht]
    exact ⟨this.1, _, this.2⟩
  · rename_i hc
    by_cases hf : frag = ""
    · rw [if_pos hf]
      subst hf
      exact dereference_empty _ _ _ _ _ h.1
    · rw [if_neg hf]
      have : frag.toList.head? = some '/' := by
        simp only [Bool.and_eq_true, bne_iff_ne, ne_eq, not_and, Decidable.not_not] at hc
        exact hc hf
      rw [if_pos this, hst]
      exact h.1

/-! ### what resolveRefs leaves alone -/

/-- the part of an info object resolveURIs computes -/
def fixedOf (i : Info) : Option NodeId × Option Url × List (String × AnchorInfo) := (i.base, i.uri, i.anchors)

/-- base / uri / anchors of every info object, uris / draft of every document, and `loaded` are the same -/
def Frozen (s s' : RState) : Prop :=
  (∀ k, (lookupNat k s'.infos).map fixedOf = (lookupNat k s.infos).map fixedOf) ∧
  (∀ r, (s'.doc? r).map (fun d => (d.uris, d.draft)) = (s.doc? r).map (fun d => (d.uris, d.draft))) ∧
  s'.loaded = s.loaded

theorem Frozen.refl (s : RState) : Frozen s s := ⟨fun _ => rfl, fun _ => rfl, rfl⟩
theorem Frozen.trans {a b c : RState} (h1 : Frozen a b) (h2 : Frozen b c) : Frozen a c :=
  ⟨fun k => (h2.1 k).trans (h1.1 k), fun r => (h2.2.1 r).trans (h1.2.1 r), h2.2.2.trans h1.2.2⟩

theorem Frozen.info {s s' : RState} (h : Frozen s s') (k : NodeId) (i : Info)
    (hi : lookupNat k s.infos = some i) :
    ∃ i', lookupNat k s'.infos = some i' ∧ i'.base = i.base ∧ i'.uri = i.uri ∧ i'.anchors = i.anchors := by
  have := h.1 k
  rw [hi] at this
  cases h' : lookupNat k s'.infos with
  | none => rw [h'] at this; simp at this
  | some i' =>
    rw [h'] at this
    simp only [Option.map_some, Option.some.injEq, fixedOf, Prod.mk.injEq] at this
    exact ⟨i', rfl, this.1, this.2.1, this.2.2⟩

theorem Frozen.info_rev {s s' : RState} (h : Frozen s s') (k : NodeId) (i' : Info)
    (hi : lookupNat k s'.infos = some i') :
    ∃ i, lookupNat k s.infos = some i ∧ i'.base = i.base ∧ i'.uri = i.uri ∧ i'.anchors = i.anchors := by
  have := h.1 k
  rw [hi] at this
  cases h' : lookupNat k s.infos with
  | none => rw [h'] at this; simp at this
  | some i =>
    rw [h'] at this
    simp only [Option.map_some, Option.some.injEq, fixedOf, Prod.mk.injEq] at this
    exact ⟨i, rfl, this.1, this.2.1, this.2.2⟩

theorem Frozen.doc {s s' : RState} (h : Frozen s s') (r : NodeId) (d : DocRes)
    (hd : s.doc? r = some d) : ∃ d', s'.doc? r = some d' ∧ d'.uris = d.uris ∧ d'.draft = d.draft := by
  have := h.2.1 r
  rw [hd] at this
  cases h' : s'.doc? r with
  | none => rw [h'] at this; simp at this
  | some d' =>
    rw [h'] at this
    simp only [Option.map_some, Option.some.injEq, Prod.mk.injEq] at this
    exact ⟨d', rfl, this.1, this.2⟩

/-- the draft of a Resolved is frozen -/
theorem draftOf_frozen {s s' : RState} (h : Frozen s s') (r : NodeId) : s'.draftOf r = s.draftOf r := by
  unfold RState.draftOf
  have := h.2.1 r
  cases h1 : s.doc? r <;> cases h2 : s'.doc? r <;> rw [h1, h2] at this <;> simp at this
  · exact this.2

theorem Frozen.doc_rev {s s' : RState} (h : Frozen s s') (r : NodeId) (d' : DocRes)
    (hd : s'.doc? r = some d') : ∃ d, s.doc? r = some d ∧ d'.uris = d.uris ∧ d'.draft = d.draft := by
  have := h.2.1 r
  rw [hd] at this
  cases h' : s.doc? r with
  | none => rw [h'] at this; simp at this
  | some d =>
    rw [h'] at this
    simp only [Option.map_some, Option.some.injEq, Prod.mk.injEq] at this
    exact ⟨d, rfl, this.1, this.2⟩

theorem frozen_updInfo (s : RState) (k : NodeId) (f : Info → Info) (hf : ∀ i, fixedOf (f i) = fixedOf i) :
    Frozen s (s.updInfo k f) := by
  refine ⟨?_, ?_, (updInfo_same s k f).2⟩
  · intro x
    rw [updInfo_infos_lookup]
    split
    · rw [Option.map_map]
      congr 1
      funext i
      exact hf i
    · rfl
  · intro r
    rw [doc?_of_docs_eq (updInfo_docs s k f)]

theorem frozen_mergeKnown (s : RState) (a b : NodeId) : Frozen s (mergeKnown s a b) := by
  refine ⟨fun k => by rw [mergeKnown_infos], ?_, (mergeKnown_same s a b).2⟩
  intro r
  unfold mergeKnown
  split
  · rename_i d l hd hl
    rw [doc?_setDoc]
    simp only
    split
    · rename_i hr
      have : d.root = a := doc?_root _ _ _ hd
      rw [← hr, this, hd]
      rfl
    · rfl
  · rfl

theorem done_frozen (D : Doc) {s s' : RState} (h : Frozen s s') (p : NodeId) (hd : Done D s.infos p) :
    Done D s'.infos p := by
  obtain ⟨i, r, hi, hb, hr, hreg⟩ := hd
  obtain ⟨i', hi', hb', _, _⟩ := h.info p i hi
  refine ⟨i', r, hi', by rw [hb', hb], hr, ?_⟩
  intro n hn e he
  obtain ⟨ri, hri, hl⟩ := hreg n hn e he
  obtain ⟨ri', hri', _, _, ha⟩ := h.info r ri hri
  exact ⟨ri', hri', by rw [ha]; exact hl⟩

theorem sound_frozen (D : Doc) {s s' : RState} (h : Frozen s s') (hs : Sound D s.infos) :
    Sound D s'.infos := by
  intro b i' hi' hb e he
  obtain ⟨i, hi, _, _, ha⟩ := h.info_rev b i' hi'
  rw [ha] at he
  exact hs b i hi hb e he

theorem uriDone_frozen (D : Doc) (ret : Url) {s s' : RState} (h : Frozen s s') (r : NodeId)
    (hd : UriDone D ret s.infos r) : UriDone D ret s'.infos r := by
  obtain ⟨i, l, hi, hl, hu⟩ := hd
  obtain ⟨i', hi', _, hu', _⟩ := h.info r i hi
  exact ⟨i', l, hi', hl, by rw [hu', hu]⟩

theorem hasBase_frozen {s s' : RState} (h : Frozen s s') (p r : NodeId)
    (hd : HasBase s.infos p r) : HasBase s'.infos p r := by
  obtain ⟨i, hi, hb⟩ := hd
  obtain ⟨i', hi', hb', _, _⟩ := h.info p i hi
  exact ⟨i', hi', by rw [hb', hb]⟩

theorem urisId_frozen (D : Doc) (ret : Url) {s s' : RState} (h : Frozen s s') (hs : UrisId D ret s) :
    UrisId D ret s' := by
  intro d' hd' e he
  obtain ⟨d, hd, hu, _⟩ := h.doc_rev D.root d' hd'
  rw [hu] at he
  exact hs d hd e he

/-! ### one reference, resolved without loading a document -/

/-- what resolveURIs established for the document (`ret` = its retrieval URI), plus: every cached
    URI identifies a resource of this document -/
structure StaticInv (D : Doc) (ret : Url) (s : RState) : Prop where
  uniq : UniqueLineage D
  done : ∀ p, D.Has p → Done D s.infos p ∧ ∃ r, HasBase s.infos p r ∧ UriDone D ret s.infos r
  sound : Sound D s.infos
  uris : UrisId D ret s
  loaded : ∀ e ∈ s.loaded, D.Identifies ret e.1 e.2

theorem staticInv_frozen (D : Doc) (ret : Url) {s s' : RState} (h : Frozen s s') (hs : StaticInv D ret s) :
    StaticInv D ret s' :=
  ⟨hs.uniq,
    fun p hp =>
      let ⟨h1, r, h2, h3⟩ := hs.done p hp
      ⟨done_frozen D h p h1, r, hasBase_frozen h p r h2, uriDone_frozen D ret h r h3⟩,
    sound_frozen D h hs.sound, urisId_frozen D ret h hs.uris,
    fun e he => hs.loaded e (by rw [← h.2.2]; exact he)⟩

theorem identifies_has (D : Doc) (ret : Url) (k : String) (r : NodeId) (h : D.Identifies ret k r) : D.Has r := by
  rcases h with ⟨h, _⟩ | ⟨h, _⟩
  · rw [h]; exact ResourceRoot.has (resourceRoot_root D)
  · exact ResourceRoot.has h

theorem lookup_append_some {α} (k : String) (x y : List (String × α)) (v : α)
    (h : Json.lookup k x = some v) : Json.lookup k (x ++ y) = some v := by
  induction x with
  | nil => simp at h
  | cons e r ih =>
    obtain ⟨k', v'⟩ := e
    rw [List.cons_append, Json.lookup_cons]
    rw [Json.lookup_cons] at h
    split
    · rename_i hk; rw [if_pos hk] at h; exact h
    · rename_i hk; rw [if_neg hk] at h; exact ih h

theorem lookup_append_none {α} (k : String) (x y : List (String × α))
    (h : Json.lookup k x = none) : Json.lookup k (x ++ y) = Json.lookup k y := by
  induction x with
  | nil => rfl
  | cons e r ih =>
    obtain ⟨k', v'⟩ := e
    rw [List.cons_append, Json.lookup_cons]
    rw [Json.lookup_cons] at h
    split
    · rename_i hk; rw [if_pos hk] at h; simp at h
    · rename_i hk; rw [if_neg hk] at h; exact ih h

/-- the base URI recorded for the resource root of `id` is the base URI of `id` -/
theorem done_baseUri (D : Doc) (ret : Url) (infos : List (NodeId × Info)) (huniq : UniqueLineage D) (id : NodeId)
    (hdone : Done D infos id ∧ ∃ r, HasBase infos id r ∧ UriDone D ret infos r)
    (info bInfo : Info) (base : NodeId) (bu : Url)
    (hinfo : lookupNat id infos = some info) (hbase : info.base = some base)
    (hbInfo : lookupNat base infos = some bInfo) (hbu : bInfo.uri = some bu) :
    D.ResourceRoot id base ∧ D.BaseUri ret id bu := by
  obtain ⟨⟨i, b, hi, hb, ⟨lid, hlid, hnear⟩, _⟩, r', ⟨i', hi', hb'⟩, ib, lb, hib, hlb, hub⟩ := hdone
  rw [hinfo] at hi hi'
  simp only [Option.some.injEq] at hi hi'
  subst hi
  subst hi'
  rw [hbase] at hb hb'
  simp only [Option.some.injEq] at hb hb'
  subst hb
  subst hb'
  rw [hbInfo] at hib
  simp only [Option.some.injEq] at hib
  subst hib
  rw [hbu] at hub
  simp only [Option.some.injEq] at hub
  obtain ⟨l', hl', heq⟩ := baseUriAlong_nearest D ret lid id hlid
  rw [hnear] at hl'
  have : l' = lb := huniq l' lb _ hl' hlb
  subst this
  exact ⟨⟨lid, hlid, hnear⟩, lid, hlid, by rw [← heq, hub]⟩

theorem staticInv_baseUri (D : Doc) (ret : Url) (s : RState) (hinv : StaticInv D ret s) (id : NodeId)
    (hid : D.Has id) (info bInfo : Info) (base : NodeId) (bu : Url)
    (hinfo : lookupNat id s.infos = some info) (hbase : info.base = some base)
    (hbInfo : lookupNat base s.infos = some bInfo) (hbu : bInfo.uri = some bu) :
    D.BaseUri ret id bu :=
  (done_baseUri D ret s.infos hinv.uniq id (hinv.done id hid) info bInfo base bu hinfo hbase hbInfo hbu).2

theorem resolveRef_local (env : Env) (recDoc : ResolveDoc) (hrec : RecSpec env recDoc) (D : Doc)
    (hst : D.st = env.st) (ret : Url) (s : RState) (id : NodeId) (ref : String) (o : RefOut) (s' : RState)
    (hinv : StaticInv D ret s) (hid : D.Has id)
    (h : resolveRef env recDoc D.root s id ref = .ok (o, s')) (hlog : s'.log = s.log) :
    s'.infos = s.infos ∧ Frozen s s' ∧ D.Designates ret id ref o.target := by
  obtain ⟨refURI0, info, base, bInfo, bu, d, r, hp, hinfo, hbase, hbInfo, hbu, hd, hloc, hfrag⟩ :=
    resolveRef_unfold env recDoc D.root s id ref o s' h
  have hBU := staticInv_baseUri D ret s hinv id hid info bInfo base bu (info?_lookup _ _ _ _ hinfo) hbase
    (info?_lookup _ _ _ _ hbInfo) hbu
  unfold Located at hloc
  simp only at hloc
  rcases hloc with ⟨hl, rfl⟩ | ⟨hl1, hl2, rfl⟩ | ⟨_, _, tbl, s2, _, _, hdoc, rfl⟩
  · have hI := hinv.uris d hd _ (lookup_mem _ _ _ hl)
    exact ⟨rfl, Frozen.refl _, bu, refURI0, r, hBU, hp, hI,
      tableFrag_desig env D hst _ _ _ _ _ hinv.sound (identifies_has D ret _ _ hI) hfrag⟩
  · have hI := hinv.loaded _ (lookup_mem _ _ _ hl2)
    have hs : Sound D (mergeKnown s D.root r).infos := by rw [mergeKnown_infos]; exact hinv.sound
    exact ⟨mergeKnown_infos _ _ _, frozen_mergeKnown _ _ _, bu, refURI0, r, hBU, hp, hI,
      tableFrag_desig env D hst _ _ _ _ _ hs (identifies_has D ret _ _ hI) hfrag⟩
  · exfalso
    obtain ⟨⟨l, hl⟩, _⟩ := (hrec _ _ _ _ _ hdoc).1
    rw [(mergeKnown_same _ _ _).1, hl] at hlog
    have := congrArg List.length hlog
    simp only [List.length_append, List.length_cons, List.length_nil] at this
    omega

/-! ### resolveRefs over one document, nothing loaded -/

/-- schema `id`, if it carries a `$ref`, has a recorded target, and it is the designated one -/
def RefOk (D : Doc) (ret : Url) (s : RState) (id : NodeId) : Prop :=
  ∀ n, D.st.get? id = some n → n.ref ≠ "" →
    ∃ info t, lookupNat id s.infos = some info ∧ info.resolvedRef = some t ∧ D.Designates ret id n.ref t

/-- `$ref` targets outside `ids` are untouched -/
def RefFrame (ids : List NodeId) (s s' : RState) : Prop :=
  ∀ k, k ∉ ids → (lookupNat k s'.infos).map (·.resolvedRef) = (lookupNat k s.infos).map (·.resolvedRef)

theorem log_squeeze {a b c : RState} (h1 : Ext a b) (h2 : Ext b c) (h : c.log = a.log) :
    b.log = a.log ∧ c.log = b.log := by
  obtain ⟨⟨l1, e1⟩, _⟩ := h1
  obtain ⟨⟨l2, e2⟩, _⟩ := h2
  have : a.log ++ (l1 ++ l2) = a.log ++ [] := by
    rw [← List.append_assoc, ← e1, ← e2, h]; simp
  have := List.append_cancel_left this
  have hl1 : l1 = [] := (List.append_eq_nil_iff.mp this).1
  have hl2 : l2 = [] := (List.append_eq_nil_iff.mp this).2
  subst hl1 hl2
  simp only [List.append_nil] at e1 e2
  exact ⟨e1, e2⟩

theorem has_child (D : Doc) (p c : NodeId) (hp : D.Has p) (hc : isChild D.st p c = true) : D.Has c := by
  obtain ⟨l, hl⟩ := hp
  exact ⟨l ++ [c], isLineage_snoc _ _ _ _ _ hl hc⟩

theorem allNodes_has (D : Doc) : ∀ fuel work, (∀ w ∈ work, D.Has w) →
    ∀ id ∈ allNodes D.st fuel work, D.Has id := by
  intro fuel
  induction fuel with
  | zero => intro work _ id h; simp [allNodes] at h
  | succ fuel ih =>
    intro work hw id h
    cases work with
    | nil => simp [allNodes] at h
    | cons w work =>
      rw [allNodes] at h
      split at h
      · rename_i n hn
        rcases List.mem_cons.mp h with h | h
        · subst h; exact hw _ (by simp)
        · apply ih _ _ id h
          intro x hx
          rcases List.mem_append.mp hx with hx | hx
          · exact has_child D w x (hw w (by simp)) ((isChild_iff _ _ _).mpr ⟨n, hn, hx⟩)
          · exact hw x (List.mem_cons_of_mem _ hx)
      · exact ih _ (fun x hx => hw x (List.mem_cons_of_mem _ hx)) id h

theorem resolveRefsLoop_local (env : Env) (recDoc : ResolveDoc) (hrec : RecSpec env recDoc) (D : Doc)
    (hst : D.st = env.st) (ret : Url) :
    ∀ ids s s', resolveRefsLoop env recDoc D.root ids s = .ok s' → s'.log = s.log →
      StaticInv D ret s → (∀ id ∈ ids, D.Has id) →
      Frozen s s' ∧ RefFrame ids s s' ∧ ∀ id ∈ ids, RefOk D ret s' id := by
  intro ids
  induction ids with
  | nil =>
    intro s s' h _ _ _
    simp [resolveRefsLoop] at h; subst h
    exact ⟨Frozen.refl _, fun _ _ => rfl, fun _ h => absurd h (by simp)⟩
  | cons id rest ih =>
    intro s s' h hlog hinv hids
    rw [resolveRefsLoop] at h
    split at h
    · simp at h
    · rename_i n hn
      simp only at h
      rw [bind_eq_ok] at h
      obtain ⟨s1, h1, h⟩ := h
      rw [bind_eq_ok] at h
      obtain ⟨s2, h2, h⟩ := h
      have hid : D.Has id := hids id (by simp)
      have g1 : Ext s s1 ∧ (s1.log = s.log → Frozen s s1 ∧
          (∀ k, k ≠ id → lookupNat k s1.infos = lookupNat k s.infos) ∧
          (n.ref ≠ "" → ∃ info t, lookupNat id s1.infos = some info ∧ info.resolvedRef = some t ∧
            D.Designates ret id n.ref t)) := by
        split at h1
        · rw [bind_eq_ok] at h1
          obtain ⟨⟨o, sa⟩, hr, h1⟩ := h1
          simp only [Res.ok.injEq] at h1
          subst h1
          refine ⟨(resolveRef_spec env recDoc hrec _ _ _ _ _ _ hr).1.trans (updInfo_same _ _ _).ext, ?_⟩
          intro hl
          rw [(updInfo_same _ _ _).1] at hl
          obtain ⟨hinf, hfr, hdes⟩ := resolveRef_local env recDoc hrec D hst ret s id n.ref o sa hinv hid hr hl
          refine ⟨hfr.trans (frozen_updInfo _ _ _ (fun _ => rfl)), ?_, fun _ => ?_⟩
          · intro k hk
            rw [updInfo_infos_lookup, if_neg (fun e => hk e.symm), hinf]
          · obtain ⟨i, _, hi, _⟩ := (hinv.done id hid).1
            rw [updInfo_infos_lookup, if_pos rfl, hinf, hi]
            exact ⟨_, o.target, rfl, rfl, hdes⟩
        · rename_i hne
          simp only [Res.ok.injEq] at h1
          subst h1
          exact ⟨Ext.refl _, fun _ => ⟨Frozen.refl _, fun _ _ => rfl, fun h => absurd (by simpa using h) hne⟩⟩
      have g2 : Ext s1 s2 ∧ (s2.log = s1.log → StaticInv D ret s1 → Frozen s1 s2 ∧
          (∀ k, k ≠ id → lookupNat k s2.infos = lookupNat k s1.infos) ∧
          (∀ i t, lookupNat id s1.infos = some i → i.resolvedRef = some t →
            ∃ i', lookupNat id s2.infos = some i' ∧ i'.resolvedRef = some t)) := by
        split at h2
        · rw [bind_eq_ok] at h2
          obtain ⟨⟨o, sb⟩, hr, h2⟩ := h2
          simp only [Res.ok.injEq] at h2
          subst h2
          refine ⟨(resolveRef_spec env recDoc hrec _ _ _ _ _ _ hr).1.trans (updInfo_same _ _ _).ext, ?_⟩
          intro hl hinv1
          rw [(updInfo_same _ _ _).1] at hl
          obtain ⟨hinf, hfr, _⟩ := resolveRef_local env recDoc hrec D hst ret s1 id n.dynamicRef o sb hinv1 hid hr hl
          refine ⟨hfr.trans (frozen_updInfo _ _ _ (fun _ => rfl)), ?_, ?_⟩
          · intro k hk
            rw [updInfo_infos_lookup, if_neg (fun e => hk e.symm), hinf]
          · intro i t hi ht
            rw [updInfo_infos_lookup, if_pos rfl, hinf, hi]
            exact ⟨_, rfl, ht⟩
        · simp only [Res.ok.injEq] at h2
          subst h2
          exact ⟨Ext.refl _, fun _ _ => ⟨Frozen.refl _, fun _ _ => rfl, fun i t hi ht => ⟨i, hi, ht⟩⟩⟩
      have e3 : Ext s2 s' := (resolveRefsLoop_spec env recDoc hrec _ _ _ _ h).1
      obtain ⟨hl1, hl23⟩ := log_squeeze g1.1 (g2.1.trans e3) hlog
      obtain ⟨hl2, hl3⟩ := log_squeeze g2.1 e3 hl23
      obtain ⟨f1, k1, r1⟩ := g1.2 hl1
      have hinv1 := staticInv_frozen D ret f1 hinv
      obtain ⟨f2, k2, r2⟩ := g2.2 hl2 hinv1
      have hinv2 := staticInv_frozen D ret f2 hinv1
      obtain ⟨f3, fr3, ok3⟩ := ih s2 s' h hl3 hinv2 (fun x hx => hids x (List.mem_cons_of_mem _ hx))
      refine ⟨f1.trans (f2.trans f3), ?_, ?_⟩
      · intro k hk
        have hk1 : k ≠ id := fun e => hk (by rw [e]; simp)
        have hk2 : k ∉ rest := fun e => hk (List.mem_cons_of_mem _ e)
        rw [fr3 k hk2, k2 k hk1, k1 k hk1]
      · intro x hx
        by_cases hxr : x ∈ rest
        · exact ok3 x hxr
        · have hxid : x = id := (List.mem_cons.mp hx).resolve_right hxr
          subst hxid
          intro n' hn' hne
          rw [hst, hn] at hn'
          simp only [Option.some.injEq] at hn'
          subst hn'
          obtain ⟨info, t, hi, ht, hdes⟩ := r1 hne
          obtain ⟨i2, hi2, ht2⟩ := r2 info t hi ht
          have := fr3 x hxr
          rw [hi2] at this
          cases h' : lookupNat x s'.infos with
          | none => rw [h'] at this; simp at this
          | some i' =>
            rw [h'] at this
            simp only [Option.map_some, Option.some.injEq] at this
            exact ⟨i', t, rfl, by rw [this, ht2], hdes⟩

/-! ### resolver.resolve on one document, nothing loaded -/

theorem checkStructure_forall (st : Store) (P : Info → Prop) (hP : ∀ p, P { path := p }) :
    ∀ fuel work acc res, checkStructure st fuel work acc = .ok res →
      (∀ e ∈ acc, P e.2) → ∀ e ∈ res, P e.2 := by
  intro fuel
  induction fuel with
  | zero => intro work acc res h; simp [checkStructure] at h
  | succ fuel ih =>
    intro work acc res h hacc
    cases work with
    | nil => simp [checkStructure] at h; subst h; exact hacc
    | cons e work =>
      obtain ⟨id, path⟩ := e
      rw [checkStructure] at h
      split at h
      · simp at h
      · split at h
        · simp at h
        · apply ih _ _ _ h
          intro e he
          rcases List.mem_append.mp he with he | he
          · exact hacc e he
          · simp only [List.mem_singleton] at he
            subst he; exact hP _

theorem lookupNat_append_none {α} (k : Nat) (a b : List (Nat × α)) (h : lookupNat k a = none) :
    lookupNat k (a ++ b) = lookupNat k b := by
  induction a with
  | nil => rfl
  | cons e r ih =>
    obtain ⟨k', v⟩ := e
    simp only [List.cons_append, lookupNat] at h ⊢
    split
    · rename_i hk; rw [if_pos hk] at h; simp at h
    · rename_i hk; rw [if_neg hk] at h; exact ih h

theorem sound_append_fresh (D : Doc) (a fresh : List (NodeId × Info)) (ha : Sound D a)
    (hf : ∀ e ∈ fresh, e.2.anchors = []) : Sound D (a ++ fresh) := by
  intro b i hi hb e he
  cases h0 : lookupNat b a with
  | some i0 =>
    rw [lookupNat_append_of_isSome _ _ _ (by rw [h0]; rfl), h0] at hi
    simp only [Option.some.injEq] at hi
    subst hi
    exact ha b i0 h0 hb e he
  | none =>
    rw [lookupNat_append_none _ _ _ h0] at hi
    have := hf _ (lookupNat_mem _ _ _ hi)
    simp only at this
    rw [this] at he
    simp at he

/-- the draft recorded for a document is not changed by resolveURIs -/
def DraftKept (s s' : RState) : Prop :=
  ∀ r d, s.doc? r = some d → ∃ d', s'.doc? r = some d' ∧ d'.draft = d.draft

theorem DraftKept.refl (s : RState) : DraftKept s s := fun _ d h => ⟨d, h, rfl⟩
theorem DraftKept.trans {a b c : RState} (h1 : DraftKept a b) (h2 : DraftKept b c) : DraftKept a c := by
  intro r d hd
  obtain ⟨d1, hd1, e1⟩ := h1 r d hd
  obtain ⟨d2, hd2, e2⟩ := h2 r d1 hd1
  exact ⟨d2, hd2, e2.trans e1⟩
theorem DraftKept.of_docs_eq {a b : RState} (h : b.docs = a.docs) : DraftKept a b :=
  fun r d hd => ⟨d, by rw [doc?_of_docs_eq h]; exact hd, rfl⟩

theorem newUriState_draftKept (root : NodeId) (s : RState) (id : NodeId) (u : Url) :
    DraftKept s (newUriState root s id u) := by
  unfold newUriState
  simp only
  split
  · rename_i d hd
    intro r d0 hd0
    rw [doc?_setDoc]
    simp only
    split
    · rename_i hr
      have h1 : d.root = root := doc?_root _ _ _ hd
      rw [doc?_of_docs_eq (updInfo_docs _ _ _)] at hd
      rw [h1] at hr
      subst hr
      rw [hd] at hd0
      simp only [Option.some.injEq] at hd0
      subst hd0
      exact ⟨_, rfl, rfl⟩
    · exact ⟨d0, by rw [doc?_of_docs_eq (updInfo_docs _ _ _)]; exact hd0, rfl⟩
  · exact DraftKept.of_docs_eq (updInfo_docs _ _ _)

theorem uriStep_draftKept (draft : Draft) (root : NodeId) (s : RState) (id base : NodeId) (n : Node)
    (bi : Info) (s1 : RState) (base1 : NodeId) (h : uriStep draft root s id base n bi = .ok (s1, base1)) :
    DraftKept s s1 := by
  cases draft with
  | d2020 =>
    rcases uriStep_d2020 _ _ _ _ _ _ _ _ h with ⟨_, rfl, _⟩ | ⟨_, _, _, _, _, _, rfl⟩
    · exact DraftKept.refl _
    · exact newUriState_draftKept _ _ _ _
  | d7 =>
    rcases uriStep_d7 _ _ _ _ _ _ _ _ h with ⟨_, rfl, _⟩ | ⟨_, _, _, rfl, _⟩ | ⟨_, _, _, _, _, _, _, _, rfl⟩
    · exact DraftKept.refl _
    · exact DraftKept.of_docs_eq (setAnchor_docs _ _ _ _ _)
    · exact newUriState_draftKept _ _ _ _

theorem resolveURIsLoop_draftKept (env : Env) (draft : Draft) (root : NodeId) :
    ∀ fuel work s s', resolveURIsLoop env draft root fuel work s = .ok s' → DraftKept s s' := by
  intro fuel
  induction fuel with
  | zero => intro work s s' h; simp [resolveURIsLoop] at h
  | succ fuel ih =>
    intro work s s' h
    cases work with
    | nil => simp [resolveURIsLoop] at h; subst h; exact DraftKept.refl _
    | cons w work =>
      obtain ⟨id, base⟩ := w
      obtain ⟨n, i0, bi, s1, base1, _, _, _, hstep, hrest⟩ := resolveURIsLoop_unfold env _ _ _ _ _ _ _ _ h
      exact (uriStep_draftKept _ _ _ _ _ _ _ _ _ hstep).trans
        ((DraftKept.of_docs_eq (postStep_docs _ _ _ _ _)).trans (ih _ _ _ hrest))

/-- the key under which resolver.resolve caches the document besides its retrieval URI -/
def rootUriOf (s : RState) (root : NodeId) : String :=
  match lookupNat root s.infos with
  | some i => (i.uri.map Uri.toString).getD ""
  | none => ""

theorem tree_uniqueLineage (D : Doc) (V : List NodeId) (T : Tree D.st D.root V) : UniqueLineage D :=
  fun l1 l2 s h1 h2 => T.lineage_unique l1.length l1 l2 s rfl h1 h2

theorem resolveDocStep_local (env : Env) (recDoc : ResolveDoc) (hrec : RecSpec env recDoc)
    (root : NodeId) (baseURI : Url) (inherit : Draft) (s s' : RState)
    (h : resolveDocStep env recDoc root baseURI inherit s = .ok s') (hlog : s'.log = s.log)
    (hsound : ∀ draft, Sound ⟨env.st, draft, root⟩ s.infos)
    (hloaded : ∀ draft, ∀ e ∈ s.loaded, Doc.Identifies ⟨env.st, draft, root⟩ baseURI e.1 e.2) :
    ∃ d, s'.doc? root = some d ∧ StaticInv ⟨env.st, d.draft, root⟩ baseURI s' ∧
      ∀ id ∈ allNodes env.st (env.st.size + 2) [root], RefOk ⟨env.st, d.draft, root⟩ baseURI s' id := by
  unfold resolveDocStep at h
  split at h
  · simp at h
  split at h
  · simp at h
  rename_i rn hrn
  simp only at h
  rw [bind_eq_ok] at h
  obtain ⟨fresh, hfresh, h⟩ := h
  split at h
  · simp at h
  rw [bind_eq_ok] at h
  obtain ⟨sB, hB, h⟩ := h
  generalize hdr : (if (rn.schema == "") = true then inherit else detectDraft env rn.schema) = draft at hB h
  let D : Doc := ⟨env.st, draft, root⟩
  have huniq : UniqueLineage D := tree_uniqueLineage D _ (checkStructure_tree env.st _ root fresh hfresh)
  have hB' : resolveURIsLoop env D.draft D.root (env.st.size + 2) [(D.root, D.root)] _ = .ok sB := hB
  have hrootmem := checkStructure_root_mem env.st _ root fresh hfresh
  obtain ⟨hdone, hsnd, huris⟩ := resolveURIs_desig env D rfl baseURI huniq _ _ _ (by
    obtain ⟨⟨r', info⟩, hm, he⟩ := List.mem_map.mp hrootmem
    simp only at he
    subst he
    have hsome : (lookupNat r' (s.infos ++ fresh)).isSome = true :=
      lookupNat_isSome_of_mem r' info _ (List.mem_append_right _ hm)
    show ∃ i, lookupNat r' (RState.updInfo _ r' _).infos = some i ∧ i.uri = some baseURI
    rw [updInfo_infos_lookup, if_pos rfl, setDoc_infos]
    cases h0 : lookupNat r' (s.infos ++ fresh) with
    | none => rw [h0] at hsome; simp at hsome
    | some i0 => exact ⟨_, rfl, rfl⟩) hB'
  have hnil : ∀ e ∈ fresh, e.2.anchors = [] :=
    checkStructure_forall env.st (fun i => i.anchors = []) (fun _ => rfl) _ _ _ _ hfresh
      (fun _ he => absurd he (by simp))
  have hsB : Sound D sB.infos := by
    apply hsnd
    refine sound_updInfo D _ root _ ?_ ?_
    · intro _ _ he; exact Or.inl he
    · rw [setDoc_infos]
      exact sound_append_fresh D _ _ (hsound draft) hnil
  have huB : UrisId D baseURI sB := by
    apply huris
    intro d hd e he
    rw [doc?_of_docs_eq (updInfo_docs _ _ _), doc?_setDoc, if_pos (rfl : root = D.root)] at hd
    simp only [Option.some.injEq] at hd
    subst hd
    simp only [List.mem_singleton] at he
    subst he
    exact Or.inl ⟨rfl, rfl⟩
  have hdB : ∃ dB, sB.doc? root = some dB ∧ dB.draft = draft := by
    have := resolveURIsLoop_draftKept _ _ _ _ _ _ _ hB root
      { root := root, draft := draft, uris := [(Uri.toString baseURI, root)], known := fresh.map (·.1) }
      (by rw [doc?_of_docs_eq (updInfo_docs _ _ _), doc?_setDoc]; simp)
    exact this
  have sameB : sB.log = s.log ∧ sB.loaded = s.loaded := by
    have h0 := (resolveURIsLoop_spec _ _ _ _ _ _ _ hB).1
    have := (SameLL.trans (setDoc_same _ _) (updInfo_same _ _ _)).trans h0
    exact this
  -- the root's recorded URI identifies the root
  have hrootId : D.Identifies baseURI (rootUriOf sB root) root := by
    obtain ⟨⟨i, r0, hi, hb0, hr0, _⟩, r, ⟨i', hi', hb'⟩, ir, lr, hir, hlr, hur⟩ :=
      hdone root (ResourceRoot.has (resourceRoot_root D))
    rw [hi] at hi'
    simp only [Option.some.injEq] at hi'
    subst hi'
    rw [hb0] at hb'
    simp only [Option.some.injEq] at hb'
    subst hb'
    have hr0' : r0 = root := by
      obtain ⟨l0, hl0, hn0⟩ := hr0
      have : l0 = [] := huniq l0 [] root hl0 (by show isLineage env.st root [] root = true; simp [isLineage])
      subst this
      exact hn0.symm
    subst hr0'
    refine Or.inr ⟨resourceRoot_root D, baseUriAlong D baseURI lr, ⟨lr, hlr, rfl⟩, ?_⟩
    unfold rootUriOf
    rw [hir]
    simp only [hur, Option.map_some, Option.getD_some]
  have hinvC : StaticInv D baseURI { sB with loaded :=
      (sB.loaded.filter fun e => e.1 != Uri.toString baseURI && e.1 != rootUriOf sB root) ++
        [(Uri.toString baseURI, root), (rootUriOf sB root, root)] } := by
    refine ⟨huniq, hdone, hsB, UrisId.of_docs_eq rfl huB, ?_⟩
    intro e he
    have he' : e ∈ (sB.loaded.filter _) ++ [(_, root), (_, root)] := he
    rcases List.mem_append.mp he' with h1 | h1
    · have := (List.mem_filter.mp h1).1
      rw [sameB.2] at this
      exact hloaded draft e this
    · simp only [List.mem_cons, List.mem_nil_iff, or_false] at h1
      rcases h1 with h1 | h1
      · subst h1; exact Or.inl ⟨rfl, rfl⟩
      · subst h1; exact hrootId
  obtain ⟨fr, _, hok⟩ := resolveRefsLoop_local env recDoc hrec D rfl baseURI _ _ _ h
    (by show s'.log = sB.log; rw [hlog, sameB.1]) hinvC
    (allNodes_has D _ _ (by
      intro w hw
      simp only [List.mem_singleton] at hw
      subst hw
      exact ResourceRoot.has (resourceRoot_root D)))
  obtain ⟨dB, hdB, hdrB⟩ := hdB
  obtain ⟨d', hd', _, hdr'⟩ := fr.doc root dB (by rw [← hdB]; exact doc?_of_docs_eq (a := sB) rfl root)
  have hD : (⟨env.st, d'.draft, root⟩ : Doc) = D := by rw [hdr', hdrB]
  refine ⟨d', hd', ?_, ?_⟩
  · rw [hD]; exact staticInv_frozen D baseURI fr hinvC
  · rw [hD]; exact hok

/-! ### Schema.Resolve, nothing loaded -/

/-- the retrieval URI Schema.Resolve starts from -/
def retrievalOf (base : String) : Res Url := if base == "" then .ok {} else Uri.parse base

theorem resolve_ok' (env : Env) (fuel : Nat) (root : NodeId) (base : String) (rs : Resolved)
    (h : resolve env fuel root base = .ok rs) :
    ∃ s b d, retrievalOf base = .ok b ∧ resolveDoc env fuel root b .d2020 {} = .ok s ∧
      s.doc? root = some d ∧ rs.root = root ∧ rs.draft = d.draft ∧ rs.log = s.log ∧
      rs.infos = s.infos.filter (fun e => d.known.contains e.1) := by
  unfold resolve at h
  simp only at h
  rw [bind_eq_ok] at h
  obtain ⟨b, hb, h⟩ := h
  rw [bind_eq_ok] at h
  obtain ⟨s, hs, h⟩ := h
  split at h
  · simp at h
  · rename_i d hd
    simp only [Res.ok.injEq] at h
    exact ⟨s, b, d, hb, hs, hd, by rw [← h], by rw [← h], by rw [← h], by rw [← h]⟩

theorem sound_nil (D : Doc) : Sound D [] := by
  intro b i hi; simp [lookupNat] at hi

/-- Schema.Resolve of a document that needs no other document: the final state satisfies the
    invariant, and every `$ref` of `root.all()` has the designated target -/
theorem resolve_local (env : Env) (fuel : Nat) (root : NodeId) (base : String) (rs : Resolved)
    (h : resolve env fuel root base = .ok rs) (hlog : rs.log = []) :
    ∃ s b d, retrievalOf base = .ok b ∧ s.doc? root = some d ∧ rs.draft = d.draft ∧
      rs.infos = s.infos.filter (fun e => d.known.contains e.1) ∧
      (∃ fresh, checkStructure env.st (env.st.size + 2) [(root, "")] [] = .ok fresh ∧
        ∀ id ∈ ids fresh, d.known.contains id = true) ∧
      StaticInv ⟨env.st, rs.draft, root⟩ b s ∧
      ∀ id ∈ allNodes env.st (env.st.size + 2) [root], RefOk ⟨env.st, rs.draft, root⟩ b s id := by
  obtain ⟨s, b, d, hb, hs, hd, _, hdr, hl, hinfos⟩ := resolve_ok' env fuel root base rs h
  cases fuel with
  | zero => simp [resolveDoc] at hs
  | succ fuel =>
    have hs' : resolveDocStep env (resolveDoc env fuel) root b .d2020 {} = .ok s := hs
    obtain ⟨d', hd', hinv, hok⟩ := resolveDocStep_local env _ (resolveDoc_spec env fuel) root b .d2020 {} s hs'
      (by rw [← hl, hlog]) (fun _ => sound_nil _) (fun _ e he => absurd he (by simp))
    rw [hd] at hd'
    simp only [Option.some.injEq] at hd'
    subst hd'
    obtain ⟨hdocs, fresh, hfresh⟩ :=
      resolveDocStep_docs env _ (resolveDoc_docs env fuel) _ _ _ _ _ hs' (docsOk_init env)
    rw [hdr]
    exact ⟨s, b, d, hb, hd, rfl, hinfos, ⟨fresh, hfresh, hdocs root d hd fresh hfresh⟩, hinv, hok⟩

/-! ### resolveURIs, in the words of the Spec -/

theorem resourceRoot_unique (D : Doc) (huniq : UniqueLineage D) (s r r' : NodeId)
    (h : D.ResourceRoot s r) (h' : D.ResourceRoot s r') : r = r' := by
  obtain ⟨l, hl, hr⟩ := h
  obtain ⟨l', hl', hr'⟩ := h'
  rw [← hr, ← hr', huniq l l' s hl hl']

theorem resolveURIs_props (env : Env) (D : Doc) (hst : D.st = env.st) (ret : Url) (huniq : UniqueLineage D)
    (fuel : Nat) (s s' : RState)
    (hroot : ∃ i, lookupNat D.root s.infos = some i ∧ i.uri = some ret)
    (h : resolveURIsLoop env D.draft D.root fuel [(D.root, D.root)] s = .ok s') :
    (∀ p r, D.ResourceRoot p r → ∃ i, lookupNat p s'.infos = some i ∧ i.base = some r) ∧
    (∀ p r u, D.ResourceRoot p r → D.BaseUri ret p u →
      ∃ i, lookupNat r s'.infos = some i ∧ i.uri = some u) ∧
    (∀ t r a dyn, D.ResourceRoot t r → D.Declares t a dyn →
      ∃ i, lookupNat r s'.infos = some i ∧ (Json.lookup a i.anchors).isSome = true) ∧
    (Sound D s.infos → Sound D s'.infos) := by
  obtain ⟨hdone, hsound, _⟩ := resolveURIs_desig env D hst ret huniq fuel s s' hroot h
  have hbase : ∀ p r, D.ResourceRoot p r → ∃ i, lookupNat p s'.infos = some i ∧ i.base = some r := by
    intro p r hr
    obtain ⟨⟨i, r0, hi, hb, hr0, _⟩, _⟩ := hdone p (ResourceRoot.has hr)
    exact ⟨i, hi, by rw [hb, resourceRoot_unique D huniq p r0 r hr0 hr]⟩
  refine ⟨hbase, ?_, ?_, hsound⟩
  · intro p r u hr ⟨lp, hlp, hu⟩
    obtain ⟨i, hi, hb⟩ := hbase p r hr
    obtain ⟨_, r', ⟨i', hi', hb'⟩, ib, lb, hib, hlb, hub⟩ := hdone p (ResourceRoot.has hr)
    rw [hi] at hi'
    simp only [Option.some.injEq] at hi'
    subst hi'
    rw [hb] at hb'
    simp only [Option.some.injEq] at hb'
    subst hb'
    have hb2 := done_baseUri D ret s'.infos huniq p (hdone p (ResourceRoot.has hr)) i ib r _ hi hb hib hub
    obtain ⟨l2, hl2, hu2⟩ := hb2.2
    refine ⟨ib, hib, ?_⟩
    rw [hub, ← hu2, ← hu, huniq l2 lp p hl2 hlp]
  · intro t r a dyn hr ⟨n, hn, hmem⟩
    obtain ⟨⟨i, r0, hi, hb, hr0, hreg⟩, _⟩ := hdone t (ResourceRoot.has hr)
    have := resourceRoot_unique D huniq t r0 r hr0 hr
    subst this
    exact hreg n hn (a, dyn) hmem

end RInv
end Go
end JSV
