/-
  C02 helpers: in a draft-07 document `$anchor` and `$dynamicAnchor` are unknown keywords — resolveURIs registers them
  under 2020-12 only (draft-07 spells a plain-name anchor `"$id": "#name"`).  When every document of the resolution is
  read under draft-07, erasing both from every schema object of the store changes nothing of `resolveDoc` / `resolve`.
  Same structure as JSV/Proofs/ResLater.lean (whose invariants `Good`, `RecE` are reused).
-/
import JSV.Proofs.ResPerm2
import JSV.Proofs.ResDraft
import JSV.Proofs.InvLater
import JSV.Proofs.InvVocab
import JSV.Proofs.ResLater
import JSV.Proofs.ResBase
import JSV.Spec.WellFormed
namespace JSV
namespace Go
namespace RVocab
open RInv RDraft RPerm
open _root_.JSV.Inv (eraseAnchors)

/-- the same resolver environment over the store without `$anchor` / `$dynamicAnchor` -/
def eraseEnv (env : Env) : Env := { env with st := env.st.map eraseAnchors }

theorem get?_erase (st : Store) (i : NodeId) :
    Store.get? (st.map eraseAnchors) i = (Store.get? st i).map eraseAnchors := Inv.get?_map st _ i

theorem eraseEnv_get? (env : Env) (i : NodeId) :
    (eraseEnv env).st.get? i = (env.st.get? i).map eraseAnchors := get?_erase env.st i

theorem eraseEnv_size (env : Env) : (eraseEnv env).st.size = env.st.size := Array.size_map ..

/-! ### the traversals -/

theorem checkStructure_erase (st : Store) : ∀ fuel work acc,
    checkStructure (st.map eraseAnchors) fuel work acc = checkStructure st fuel work acc := by
  intro fuel
  induction fuel with
  | zero => intro work acc; rfl
  | succ fuel ih =>
    intro work acc
    cases work with
    | nil => rfl
    | cons e work =>
      obtain ⟨id, path⟩ := e
      rw [checkStructure, checkStructure, get?_erase]
      cases Store.get? st id with
      | none => rfl
      | some n =>
        simp only [Option.map_some]
        rw [ih]
        rfl

theorem allNodes_erase (st : Store) : ∀ fuel work,
    allNodes (st.map eraseAnchors) fuel work = allNodes st fuel work := by
  intro fuel
  induction fuel with
  | zero => intro work; rfl
  | succ fuel ih =>
    intro work
    cases work with
    | nil => rfl
    | cons id work =>
      rw [allNodes, allNodes, get?_erase]
      cases Store.get? st id with
      | none => simp only [Option.map_none]; exact ih _
      | some n =>
        simp only [Option.map_some]
        rw [ih]
        rfl

/-! ### the pointer walk -/

theorem step_erase (st : Store) (strict : Bool) (cur : Pointer.Cursor) (seg : String) :
    Pointer.step (st.map eraseAnchors) strict cur seg = Pointer.step st strict cur seg := by
  cases cur with
  | node id =>
    unfold Pointer.step
    simp only [get?_erase]
    cases Store.get? st id with
    | none => rfl
    | some n => rfl
  | nodes ids => rfl
  | nodeMap kvs => rfl
  | dead => rfl

theorem walk_erase (st : Store) (strict : Bool) : ∀ segs cur,
    Pointer.walk (st.map eraseAnchors) strict cur segs = Pointer.walk st strict cur segs := by
  intro segs
  induction segs with
  | nil => intro cur; rfl
  | cons seg rest ih =>
    intro cur
    rw [Pointer.walk, Pointer.walk, step_erase]
    congr 1
    funext c
    exact ih c

theorem dereference_erase (st : Store) (strict nie : Bool) (root : NodeId) (ptr : String) :
    Pointer.dereference (st.map eraseAnchors) strict nie root ptr = Pointer.dereference st strict nie root ptr := by
  unfold Pointer.dereference
  congr 1
  funext segs
  rw [walk_erase]
  congr 1
  funext cur
  cases cur with
  | node id => simp only [get?_erase, Option.isNone_map]
  | nodes _ => rfl
  | nodeMap _ => rfl
  | dead => rfl

/-! ### resolveURIs -/

theorem postStep_d7 (s : RState) (id base : NodeId) (n n' : Node) :
    postStep .d7 s id base n' = postStep .d7 s id base n := rfl

/-- resolveURIs registers `$anchor` / `$dynamicAnchor` under 2020-12 only -/
theorem resolveURIsLoop_erase (env : Env) (root : NodeId) : ∀ fuel work s,
    resolveURIsLoop (eraseEnv env) .d7 root fuel work s = resolveURIsLoop env .d7 root fuel work s := by
  intro fuel
  induction fuel with
  | zero => intro work s; rfl
  | succ fuel ih =>
    intro work s
    cases work with
    | nil => rw [resolveURIsLoop, resolveURIsLoop]
    | cons e work =>
      obtain ⟨id, base⟩ := e
      rw [resolveURIsLoop_cons, resolveURIsLoop_cons, eraseEnv_get?]
      cases env.st.get? id with
      | none => rfl
      | some n =>
        cases lookupNat id s.infos with
        | none => rfl
        | some i0 =>
          cases lookupNat base s.infos with
          | none => rfl
          | some bi =>
            simp only [Option.map_some]
            rw [uriStep_node_eq .d7 root s id base n (eraseAnchors n) bi rfl rfl]
            congr 1
            funext p
            obtain ⟨s1, b1⟩ := p
            show resolveURIsLoop (eraseEnv env) .d7 root fuel _ (postStep .d7 s1 id b1 (eraseAnchors n)) = _
            rw [postStep_d7 s1 id b1 n (eraseAnchors n)]
            exact ih _ _

/-! ### resolveRef -/

theorem resolveRef_erase (env : Env) (recDoc' recDoc : ResolveDoc) (hrec : RLater.RecE env recDoc' recDoc) (root : NodeId)
    (s : RState) (hs : AllDraft .d7 s) (id : NodeId) (ref : String) :
    resolveRef (eraseEnv env) recDoc' root s id ref = resolveRef env recDoc root s id ref := by
  unfold resolveRef
  congr 1
  funext refURI0
  cases s.info? root id with
  | none => rfl
  | some info =>
    dsimp only
    cases info.base with
    | none => rfl
    | some base =>
      dsimp only
      cases s.info? root base with
      | none => rfl
      | some bInfo =>
        dsimp only
        cases bInfo.uri with
        | none => rfl
        | some bu =>
          cases hd : s.doc? root with
          | none => rfl
          | some d =>
            have hdd : d.draft = .d7 := hs d (doc?_mem s root d hd)
            dsimp only
            congr 1
            · -- the referenced document
              cases Json.lookup (Uri.toString (Uri.dropFragment (Uri.resolveReference bu refURI0))) d.uris with
              | some t => rfl
              | none =>
                cases Json.lookup (Uri.toString (Uri.dropFragment (Uri.resolveReference bu refURI0))) s.loaded with
                | some lroot => rfl
                | none =>
                  dsimp only
                  show (match env.loader with
                    | none => Res.err
                    | some tbl => _) = _
                  cases hl : env.loader with
                  | none => rfl
                  | some tbl =>
                    dsimp only
                    cases hk : Json.lookup (Uri.toString (Uri.dropFragment (Uri.resolveReference bu refURI0))) tbl with
                    | none => rfl
                    | some r =>
                      cases r with
                      | fail => rfl
                      | nilDoc => rfl
                      | doc lroot =>
                        dsimp only
                        rw [hdd]
                        congr 1
                        exact hrec.eq tbl _ lroot _ _ hl hk (fun d hd => hs d hd)
            · funext p
              obtain ⟨referenced, s1⟩ := p
              dsimp only
              split
              · rfl
              · exact congrArg (fun x => Res.bind x _) (dereference_erase env.st true true referenced _)

/-! ### resolveRefs -/

theorem resolveRefsLoop_erase (env : Env) (recDoc' recDoc : ResolveDoc) (hrec : RLater.RecE env recDoc' recDoc)
    (hload : LoaderDeclares env .d7) (root : NodeId) : ∀ ids s, RLater.Good root s →
      resolveRefsLoop (eraseEnv env) recDoc' root ids s = resolveRefsLoop env recDoc root ids s := by
  intro ids
  induction ids with
  | nil => intro s _; rw [resolveRefsLoop, resolveRefsLoop]
  | cons id rest ih =>
    intro s hs
    rw [resolveRefsLoop, resolveRefsLoop, eraseEnv_get?]
    cases env.st.get? id with
    | none => rfl
    | some n =>
      simp only [Option.map_some]
      have hupd : ∀ a i f, RLater.Good root a → RLater.Good root (a.updInfo i f) := fun a i f ha =>
        ⟨AllDraft.of_docs_eq (updInfo_docs a i f) ha.1, by rw [doc?_of_docs_eq (updInfo_docs a i f)]; exact ha.2⟩
      -- `$ref`: the same computation
      have e1 : (if ((eraseAnchors n).ref != "") = true then
            Res.bind (resolveRef (eraseEnv env) recDoc' root s id (eraseAnchors n).ref) fun (o, s) =>
              .ok (s.updInfo id fun i => { i with resolvedRef := some o.target })
          else .ok s) =
          (if (n.ref != "") = true then
            Res.bind (resolveRef env recDoc root s id n.ref) fun (o, s) =>
              .ok (s.updInfo id fun i => { i with resolvedRef := some o.target })
          else .ok s) := by
        show (if (n.ref != "") = true then
            Res.bind (resolveRef (eraseEnv env) recDoc' root s id n.ref) _ else _) = _
        rw [resolveRef_erase env recDoc' recDoc hrec root s hs.1]
      rw [e1]
      cases h1 : (if (n.ref != "") = true then
            Res.bind (resolveRef env recDoc root s id n.ref) fun (o, s) =>
              .ok (s.updInfo id fun i => { i with resolvedRef := some o.target })
          else .ok s) with
      | err => rfl
      | panic => rfl
      | fuel => rfl
      | ok s1 =>
        simp only [Res.bind_ok]
        have hs1 : RLater.Good root s1 := by
          split at h1
          · rw [bind_eq_ok] at h1
            obtain ⟨⟨o, sa⟩, hr, h1⟩ := h1
            simp only [Res.ok.injEq] at h1
            subst h1
            exact hupd _ _ _ (RLater.resolveRef_good env recDoc hrec.all hrec.keep hload root s id n.ref o sa hs hr)
          · simp only [Res.ok.injEq] at h1; subst h1; exact hs
        -- `$dynamicRef`: skipped under draft-07 on both sides
        have e2 : (if ((eraseAnchors n).dynamicRef != "" && s1.draftOf root == .d2020) = true then
              Res.bind (resolveRef (eraseEnv env) recDoc' root s1 id (eraseAnchors n).dynamicRef) fun (o, s) =>
                .ok (s.updInfo id fun i => { i with resolvedDynamicRef := some o.target, dynamicRefAnchor := o.dynFrag })
            else .ok s1) = .ok s1 := by
          rw [hs1.draftOf]; simp
        have e3 : (if (n.dynamicRef != "" && s1.draftOf root == .d2020) = true then
              Res.bind (resolveRef env recDoc root s1 id n.dynamicRef) fun (o, s) =>
                .ok (s.updInfo id fun i => { i with resolvedDynamicRef := some o.target, dynamicRefAnchor := o.dynFrag })
            else .ok s1) = .ok s1 := by
          rw [hs1.draftOf]; simp
        rw [e2, e3]
        simp only [Res.bind_ok]
        exact ih s1 hs1

/-! ### resolver.resolve -/

theorem checkLocal_erase (env : Env) (st : Store) (nodes : List NodeId) :
    (nodes.all fun id => match Store.get? (st.map eraseAnchors) id with
        | some nd => checkLocalOk (eraseEnv env) nd
        | none => false) =
    (nodes.all fun id => match Store.get? st id with
        | some nd => checkLocalOk env nd
        | none => false) := by
  congr 1
  funext id
  rw [get?_erase]
  cases Store.get? st id with
  | none => rfl
  | some n => rfl

/-- one document read under draft-07 -/
theorem resolveDocStep_erase (env : Env) (recDoc' recDoc : ResolveDoc) (hrec : RLater.RecE env recDoc' recDoc)
    (hload : LoaderDeclares env .d7) (root : NodeId) (baseURI : Uri.Url) (inh : Draft)
    (hroot : ReadsAs env .d7 root inh) (s : RState) (hs : AllDraft .d7 s) :
    resolveDocStep (eraseEnv env) recDoc' root baseURI inh s = resolveDocStep env recDoc root baseURI inh s := by
  unfold resolveDocStep
  split
  · rfl
  rw [eraseEnv_get?]
  cases hrn : env.st.get? root with
  | none => rfl
  | some rn =>
    simp only [Option.map_some]
    have hdr : (if rn.schema == "" then inh else detectDraft env rn.schema) = .d7 := hroot rn hrn
    have hdr' : (if (eraseAnchors rn).schema == "" then inh else detectDraft (eraseEnv env) (eraseAnchors rn).schema)
        = .d7 := hdr
    rw [hdr, hdr', eraseEnv_size]
    show Res.bind (checkStructure (env.st.map eraseAnchors) _ _ _) _ = _
    rw [checkStructure_erase]
    congr 1
    funext fresh
    show (if (!(fresh.map (·.1)).all fun id => match Store.get? (env.st.map eraseAnchors) id with
          | some nd => checkLocalOk (eraseEnv env) nd
          | none => false) = true then Res.err else _) = _
    rw [checkLocal_erase]
    refine ite_congr rfl (fun _ => rfl) (fun _ => ?_)
    rw [resolveURIsLoop_erase]
    show Res.bind (resolveURIsLoop env .d7 root (env.st.size + 2) [(root, root)]
        (beforeURIs root baseURI .d7 fresh s)) _ =
      Res.bind (resolveURIsLoop env .d7 root (env.st.size + 2) [(root, root)]
        (beforeURIs root baseURI .d7 fresh s)) _
    cases hB : resolveURIsLoop env .d7 root (env.st.size + 2) [(root, root)] (beforeURIs root baseURI .d7 fresh s) with
    | err => rfl
    | panic => rfl
    | fuel => rfl
    | ok sB =>
      simp only [Res.bind_ok]
      show resolveRefsLoop (eraseEnv env) recDoc' root (allNodes (env.st.map eraseAnchors) _ _)
        (afterURIs root baseURI sB) = resolveRefsLoop env recDoc root _ (afterURIs root baseURI sB)
      rw [allNodes_erase]
      -- the state after resolveURIs is a draft-07 state that registers `root`
      have hupd : ∀ a id f, AllDraft .d7 a → AllDraft .d7 (a.updInfo id f) :=
        fun a id f ha => AllDraft.of_docs_eq (updInfo_docs a id f) ha
      have hA : AllDraft .d7 (beforeURIs root baseURI .d7 fresh s) := by
        unfold beforeURIs
        apply hupd
        apply allDraft_setDoc _ _ rfl
        exact AllDraft.of_docs_eq rfl hs
      have hsB : AllDraft .d7 sB :=
        resolveURIsLoop_pres env .d7 root (AllDraft .d7) hupd
          (fun a d u ha hd => allDraft_setDoc a _ (ha d (doc?_mem a root d hd)) ha) _ _ _ _ hB hA
      have hreg : (sB.doc? root).isSome = true := by
        have hq := (resolveURIsLoop_qu env .d7 root _ _ _ _ hB).2
        have h0 : (beforeURIs root baseURI .d7 fresh s).doc? root =
            some { root := root, draft := .d7, uris := [(Uri.toString baseURI, root)], known := fresh.map (·.1) } := by
          unfold beforeURIs
          rw [doc?_of_docs_eq (updInfo_docs _ _ _), doc?_setDoc]
          simp
        obtain ⟨d', hd', _, _⟩ := hq _ h0
        rw [hd']; rfl
      exact resolveRefsLoop_erase env recDoc' recDoc hrec hload root _ _
        ⟨AllDraft.of_docs_eq rfl hsB, hreg⟩

/-- every fuel: the callbacks of the two resolutions are related -/
theorem recE_resolveDoc (env : Env) (hload : LoaderDeclares env .d7) :
    ∀ fuel, RLater.RecE env (resolveDoc (eraseEnv env) fuel) (resolveDoc env fuel)
  | 0 => ⟨fun _ _ _ _ _ _ _ _ => rfl, resolveDoc_all env .d7 hload 0, RLater.resolveDoc_keep env 0⟩
  | fuel + 1 =>
    ⟨fun tbl key lroot base s hl hk hs =>
      resolveDocStep_erase env _ _ (recE_resolveDoc env hload fuel) hload lroot base .d7 (hload tbl key lroot hl hk) s hs,
     resolveDoc_all env .d7 hload (fuel + 1), RLater.resolveDoc_keep env (fuel + 1)⟩

/-- resolver.resolve on a document read under draft-07, in a state of draft-07 documents -/
theorem resolveDoc_erase (env : Env) (hload : LoaderDeclares env .d7) (fuel : Nat) (root : NodeId) (b : Uri.Url)
    (inh : Draft) (hroot : ReadsAs env .d7 root inh) (s : RState) (hs : AllDraft .d7 s) :
    resolveDoc (eraseEnv env) fuel root b inh s = resolveDoc env fuel root b inh s := by
  cases fuel with
  | zero => rfl
  | succ fuel => exact resolveDocStep_erase env _ _ (recE_resolveDoc env hload fuel) hload root b inh hroot s hs

/-- Schema.Resolve: when the top document and every Loader document are read under draft-07, the store without
    `$anchor` / `$dynamicAnchor` resolves exactly like the store with them — the same outcome, the same tables, the same
    Loader calls -/
theorem resolve_erase (env : Env) (hload : LoaderDeclares env .d7) (fuel : Nat) (root : NodeId) (base : String)
    (htop : Spec.topDraft env root = .d7) :
    resolve (eraseEnv env) fuel root base = resolve env fuel root base := by
  have hroot : ReadsAs env .d7 root .d2020 := by
    intro rn hrn
    unfold Spec.topDraft at htop
    rw [hrn] at htop
    exact htop
  unfold resolve
  dsimp only
  congr 1
  funext b
  rw [resolveDoc_erase env hload fuel root b .d2020 hroot {} (allDraft_init _)]

end RVocab
end Go
end JSV
