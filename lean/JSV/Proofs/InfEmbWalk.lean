/-
  C16 (embedded fields): reflect's `visibleFieldsWalker` (`visibleFieldsWalk`: `byName`, cleared names) computes the
  declarative `visibleFields` ("the shallowest field of a name, if it is alone at its depth"), on every struct tree.

  The proof: over a walk `l` whose entries have pairwise distinct indices the walker's state `acc` after `l` is
  described by `specStep` — every entry that the new field `f` "hits" (same name, not shallower than `f`) is cleared,
  and `f` is appended iff it is strictly shallower than every earlier field of its name (`freshIn`).  `walkStep` only
  looks at the *last* entry of the name; it coincides with `specStep` because the entries of one name are strictly
  decreasing in depth and all but the last are already cleared (`WalkInv`).  The uncleared entries of `specStep` are
  the visible fields of the prefix (`specStep_visible`).  The indices of `allFields` are pairwise distinct
  (`allFields_index_pairwise`).
-/
import JSV.Proofs.InfEmbDom
namespace JSV
namespace Go
open EncJsonEmb (wt wtFs embView)

/-! ## the last entry of a name -/

theorem set_append_length {α} (a : List α) (e e' : α) (b : List α) : (a ++ e :: b).set a.length e' = a ++ e' :: b := by
  induction a with
  | nil => rfl
  | cons x a ih => simp only [List.cons_append, List.length_cons, List.set_cons_succ, ih]

/-- `(acc.zipIdx.filter q).getLast?`: the last entry that satisfies `q` and its position -/
theorem lastMatch_spec {α} (q : α → Bool) : ∀ (acc : List α) (n : Nat),
    (((acc.zipIdx n).filter fun e => q e.1).getLast? = none ∧ ∀ x, x ∈ acc → q x = false) ∨
    ∃ a e b, acc = a ++ e :: b ∧ q e = true ∧ (∀ x, x ∈ b → q x = false) ∧
      ((acc.zipIdx n).filter fun e => q e.1).getLast? = some (e, n + a.length)
  | [], _ => Or.inl ⟨rfl, fun _ h => nomatch h⟩
  | x :: xs, n => by
    rw [List.zipIdx_cons, List.filter_cons]
    rcases lastMatch_spec q xs (n + 1) with ⟨hnone, hall⟩ | ⟨a, e, b, rfl, hqe, hb, hlast⟩
    · cases hqx : q x with
      | false =>
        refine Or.inl ⟨?_, fun y hy => ?_⟩
        · simp only [Bool.false_eq_true, if_false]
          exact hnone
        · rcases List.mem_cons.1 hy with rfl | hy
          · exact hqx
          · exact hall y hy
      | true =>
        refine Or.inr ⟨[], x, xs, rfl, hqx, hall, ?_⟩
        simp only [if_true]
        rw [List.getLast?_eq_none_iff.1 hnone]
        rfl
    · refine Or.inr ⟨x :: a, e, b, rfl, hqe, hb, ?_⟩
      have hidx : n + 1 + a.length = n + (x :: a).length := by simp only [List.length_cons]; omega
      rw [hidx] at hlast
      split
      · rw [List.getLast?_cons, hlast]
        rfl
      · exact hlast

/-! ## the walker's step, declaratively -/

/-- `f` clears the entry `o`: the same name, and `f` is not deeper -/
def hits (f o : VField) : Bool := o.goName == f.goName && decide (f.index.length ≤ o.index.length)

/-- `f` is strictly shallower than every field of its name in `l` -/
def freshIn (l : List VField) (f : VField) : Bool :=
  l.all fun o => o.goName != f.goName || decide (f.index.length < o.index.length)

def mark (f : VField) (e : VField × Bool) : VField × Bool := (e.1, e.2 || hits f e.1)

/-- the state after the walk `l ++ [f]`, from the state `acc` after `l` -/
def specStep (l : List VField) (acc : List (VField × Bool)) (f : VField) : List (VField × Bool) :=
  acc.map (mark f) ++ (if freshIn l f then [(f, false)] else [])

/-- the state `acc` after the walk `l`: its entries are fields of `l`; every field of `l` has an entry of its name
    that is not deeper; of two entries of one name the earlier is cleared and deeper -/
structure WalkInv (l : List VField) (acc : List (VField × Bool)) : Prop where
  sub : ∀ x, x ∈ acc → x.1 ∈ l
  cover : ∀ o, o ∈ l → ∃ x, x ∈ acc ∧ x.1.goName = o.goName ∧ x.1.index.length ≤ o.index.length
  sorted : acc.Pairwise fun x y => x.1.goName = y.1.goName → x.2 = true ∧ y.1.index.length < x.1.index.length

theorem mark_of_ne {f : VField} {x : VField × Bool} (h : (x.1.goName == f.goName) = false) : mark f x = x := by
  unfold mark hits
  rw [h]
  simp only [Bool.false_and, Bool.or_false]

theorem mark_of_cleared {f : VField} {x : VField × Bool} (h : x.2 = true) : mark f x = x := by
  obtain ⟨a, c⟩ := x
  simp only at h
  subst h
  simp only [mark, Bool.true_or]

theorem map_mark_self {f : VField} : ∀ {l : List (VField × Bool)}, (∀ x, x ∈ l → mark f x = x) → l.map (mark f) = l
  | [], _ => rfl
  | x :: l, h => by
    rw [List.map_cons, h x List.mem_cons_self, map_mark_self fun y hy => h y (List.mem_cons_of_mem _ hy)]

theorem freshIn_iff {l : List VField} {f : VField} :
    freshIn l f = true ↔ ∀ o, o ∈ l → o.goName = f.goName → f.index.length < o.index.length := by
  unfold freshIn
  simp only [List.all_eq_true, Bool.or_eq_true, bne_iff_ne, ne_eq, decide_eq_true_eq]
  constructor
  · intro h o ho hg
    rcases h o ho with h | h
    · exact absurd hg h
    · exact h
  · intro h o ho
    by_cases hg : o.goName = f.goName
    · exact Or.inr (h o ho hg)
    · exact Or.inl hg

/-- **`walkStep` is `specStep`** on a state that satisfies the invariant -/
theorem walkStep_eq {l : List VField} {acc : List (VField × Bool)} (K : WalkInv l acc) (f : VField) :
    walkStep acc f = specStep l acc f := by
  unfold walkStep specStep
  rcases lastMatch_spec (fun x : VField × Bool => x.1.goName == f.goName) acc 0 with ⟨hnone, hall⟩ | ⟨a, e, b, rfl, hqe, hb, hlast⟩
  · have hl : (List.filter (fun e : (VField × Bool) × Nat => e.1.1.goName == f.goName) acc.zipIdx).getLast? = none := hnone
    rw [hl]
    simp only
    rw [map_mark_self fun x hx => mark_of_ne (hall x hx)]
    have hfresh : freshIn l f = true := by
      rw [freshIn_iff]
      intro o ho hg
      obtain ⟨x, hx, hxg, _⟩ := K.cover o ho
      have := hall x hx
      simp only [beq_eq_false_iff_ne, ne_eq] at this
      exact absurd (hxg.trans hg) this
    rw [hfresh]
    rfl
  · obtain ⟨eo, ec⟩ := e
    have hl : (List.filter (fun e : (VField × Bool) × Nat => e.1.1.goName == f.goName) (a ++ (eo, ec) :: b).zipIdx).getLast? =
        some ((eo, ec), 0 + a.length) := hlast
    rw [hl]
    simp only [Nat.zero_add]
    have hg : eo.goName = f.goName := by simpa using hqe
    obtain ⟨_, _, hcross⟩ := List.pairwise_append.1 K.sorted
    have hmapa : a.map (mark f) = a := map_mark_self fun x hx => by
      cases hx' : (x.1.goName == f.goName) with
      | false => exact mark_of_ne hx'
      | true =>
        have hxg : x.1.goName = eo.goName := by rw [hg]; simpa using hx'
        exact mark_of_cleared (hcross x hx (eo, ec) List.mem_cons_self hxg).1
    have hmapb : b.map (mark f) = b := map_mark_self fun x hx => mark_of_ne (hb x hx)
    have hfresh : freshIn l f = decide (f.index.length < eo.index.length) := by
      rw [Bool.eq_iff_iff, freshIn_iff, decide_eq_true_iff]
      constructor
      · intro h
        exact h eo (K.sub _ (List.mem_append_right _ List.mem_cons_self)) hg
      · intro h o ho hog
        obtain ⟨x, hx, hxg, hxd⟩ := K.cover o ho
        rcases List.mem_append.1 hx with hxa | hxb
        · have := (hcross x hxa (eo, ec) List.mem_cons_self (by rw [hxg, hog, hg])).2
          simp only at this
          omega
        · rcases List.mem_cons.1 hxb with rfl | hxb
          · simp only at hxd
            omega
          · have := hb x hxb
            simp only [beq_eq_false_iff_ne, ne_eq] at this
            exact absurd (hxg.trans hog) this
    rw [List.map_append, List.map_cons, hmapa, hmapb, hfresh, set_append_length]
    by_cases h1 : f.index.length = eo.index.length
    · have hm : mark f (eo, ec) = (eo, true) := by
        unfold mark hits
        simp [hg, h1]
      simp only [h1, beq_self_eq_true, if_true, hm, Nat.lt_irrefl, decide_false, Bool.false_eq_true, if_false,
        List.append_nil]
    · by_cases h2 : f.index.length < eo.index.length
      · have hm : mark f (eo, ec) = (eo, true) := by
          unfold mark hits
          simp [hg, Nat.le_of_lt h2]
        have hbeq : (f.index.length == eo.index.length) = false := by simpa using h1
        simp only [hbeq, Bool.false_eq_true, if_false, h2, if_true, hm, decide_true]
      · have hm : mark f (eo, ec) = (eo, ec) := by
          unfold mark hits
          have : ¬ f.index.length ≤ eo.index.length := by omega
          simp [this]
        have hbeq : (f.index.length == eo.index.length) = false := by simpa using h1
        simp only [hbeq, Bool.false_eq_true, if_false, h2, hm, decide_false, List.append_nil]

/-- the invariant is preserved -/
theorem WalkInv.step {l : List VField} {acc : List (VField × Bool)} (K : WalkInv l acc) (f : VField) :
    WalkInv (l ++ [f]) (specStep l acc f) := by
  unfold specStep
  refine ⟨fun x hx => ?_, fun o ho => ?_, ?_⟩
  · rcases List.mem_append.1 hx with hx | hx
    · obtain ⟨y, hy, rfl⟩ := List.mem_map.1 hx
      exact List.mem_append_left _ (K.sub y hy)
    · split at hx
      · rw [List.mem_singleton.1 hx]
        exact List.mem_append_right _ List.mem_cons_self
      · cases hx
  · rcases List.mem_append.1 ho with ho | ho
    · obtain ⟨x, hx, hxg, hxd⟩ := K.cover o ho
      exact ⟨mark f x, List.mem_append_left _ (List.mem_map.2 ⟨x, hx, rfl⟩), hxg, hxd⟩
    · rw [List.mem_singleton.1 ho]
      cases hfr : freshIn l f with
      | true => exact ⟨(f, false), List.mem_append_right _ (by simp), rfl, Nat.le_refl _⟩
      | false =>
        have hnf : ¬ ∀ o, o ∈ l → o.goName = f.goName → f.index.length < o.index.length := fun h => by
          rw [freshIn_iff.2 h] at hfr
          cases hfr
        have hex : ∃ o, o ∈ l ∧ o.goName = f.goName ∧ o.index.length ≤ f.index.length := by
          apply Classical.byContradiction
          intro hne
          exact hnf fun o ho hg => Nat.lt_of_not_le fun hle => hne ⟨o, ho, hg, hle⟩
        obtain ⟨o', ho', hog, hod⟩ := hex
        obtain ⟨x, hx, hxg, hxd⟩ := K.cover o' ho'
        exact ⟨mark f x, List.mem_append_left _ (List.mem_map.2 ⟨x, hx, rfl⟩), hxg.trans hog, Nat.le_trans hxd hod⟩
  · rw [List.pairwise_append]
    refine ⟨?_, ?_, fun x hx y hy => ?_⟩
    · rw [List.pairwise_map]
      refine K.sorted.imp fun {x y} h hg => ?_
      obtain ⟨h1, h2⟩ := h hg
      exact ⟨by simp only [mark, h1, Bool.true_or], h2⟩
    · split
      · exact List.pairwise_singleton _ _
      · exact List.Pairwise.nil
    · split at hy
      · rename_i hfr
        rw [List.mem_singleton.1 hy]
        obtain ⟨z, hz, rfl⟩ := List.mem_map.1 hx
        intro hg
        have hlt := freshIn_iff.1 hfr z.1 (K.sub z hz) hg
        refine ⟨?_, hlt⟩
        have hg' : z.1.goName = f.goName := hg
        simp only [mark, hits, hg', beq_self_eq_true, Bool.true_and, Bool.or_eq_true, decide_eq_true_eq]
        exact Or.inr (Nat.le_of_lt hlt)
      · cases hy

/-! ## the uncleared entries are the visible fields -/

theorem isVisible_append_old {l : List VField} {f o : VField} (hne : f.index ≠ o.index) :
    isVisible (l ++ [f]) o = (!hits f o && isVisible l o) := by
  unfold isVisible hits
  rw [List.all_append, Bool.and_comm]
  congr 1
  have hi : (f.index == o.index) = false := by simpa using hne
  simp only [List.all_cons, List.all_nil, Bool.and_true, hi, Bool.false_or]
  by_cases hg : o.goName = f.goName
  · by_cases hd : o.index.length < f.index.length
    · have : ¬ f.index.length ≤ o.index.length := by omega
      simp [hg, hd, this]
    · have : f.index.length ≤ o.index.length := by omega
      simp [hg, hd, this]
  · have b1 : (f.goName != o.goName) = true := by simpa using fun e : f.goName = o.goName => hg e.symm
    have b2 : (o.goName == f.goName) = false := by simpa using hg
    simp only [b1, b2, Bool.true_or, Bool.false_and, Bool.not_false]

theorem isVisible_append_new {l : List VField} {f : VField} (hne : ∀ o, o ∈ l → o.index ≠ f.index) :
    isVisible (l ++ [f]) f = freshIn l f := by
  unfold isVisible freshIn
  rw [List.all_append]
  simp only [List.all_cons, List.all_nil, beq_self_eq_true, Bool.true_or, Bool.and_true]
  rw [Bool.eq_iff_iff, List.all_eq_true, List.all_eq_true]
  refine forall_congr' fun o => forall_congr' fun ho => ?_
  have hi : (o.index == f.index) = false := by simpa using hne o ho
  rw [hi, Bool.false_or]

/-- the uncleared entries of the state, as fields -/
def shown (acc : List (VField × Bool)) : List VField := (acc.filter fun e => !e.2).map (·.1)

theorem shown_map_mark (f : VField) : ∀ (acc : List (VField × Bool)),
    shown (acc.map (mark f)) = (shown acc).filter fun o => !hits f o
  | [] => rfl
  | x :: acc => by
    have ih := shown_map_mark f acc
    unfold shown at ih ⊢
    rw [List.map_cons, List.filter_cons, List.filter_cons]
    cases hc : x.2 with
    | true =>
      simp only [mark, hc, Bool.true_or, Bool.not_true, Bool.false_eq_true, if_false]
      exact ih
    | false =>
      simp only [mark, hc, Bool.false_or, Bool.not_false, if_true, List.map_cons, List.filter_cons]
      cases hh : hits f x.1 with
      | true =>
        simp only [Bool.not_true, Bool.false_eq_true, if_false]
        exact ih
      | false =>
        simp only [Bool.not_false, if_true, List.map_cons]
        rw [ih]

theorem specStep_visible {l : List VField} {acc : List (VField × Bool)} (S : shown acc = l.filter (isVisible l)) {f : VField}
    (hne : ∀ o, o ∈ l → o.index ≠ f.index) :
    shown (specStep l acc f) = (l ++ [f]).filter (isVisible (l ++ [f])) := by
  have happ : ∀ a b : List (VField × Bool), shown (a ++ b) = shown a ++ shown b := fun a b => by
    unfold shown
    rw [List.filter_append, List.map_append]
  unfold specStep
  rw [happ, shown_map_mark, S, List.filter_append, List.filter_filter]
  congr 1
  · refine List.filter_congr fun o ho => ?_
    rw [isVisible_append_old fun e => hne o ho e.symm]
  · rw [List.filter_cons, isVisible_append_new hne]
    cases freshIn l f <;> rfl

/-- the fold -/
theorem foldl_walkStep_visible : ∀ (rest l : List VField) (acc : List (VField × Bool)), WalkInv l acc →
    shown acc = l.filter (isVisible l) → (l ++ rest).Pairwise (fun a b => a.index ≠ b.index) →
    shown (rest.foldl walkStep acc) = (l ++ rest).filter (isVisible (l ++ rest))
  | [], l, acc, _, S, _ => by
    rw [List.append_nil]
    exact S
  | f :: rest, l, acc, K, S, hp => by
    rw [List.foldl_cons, walkStep_eq K f]
    have hne : ∀ o, o ∈ l → o.index ≠ f.index := fun o ho => (List.pairwise_append.1 hp).2.2 o ho f List.mem_cons_self
    have hp' : (l ++ [f] ++ rest).Pairwise (fun a b => a.index ≠ b.index) := by
      rw [List.append_assoc]
      exact hp
    have := foldl_walkStep_visible rest (l ++ [f]) _ (K.step f) (specStep_visible S hne) hp'
    rw [List.append_assoc] at this
    exact this

/-! ## the indices of the walk are pairwise distinct -/

theorem allFields_index_pairwise : ∀ (n : Nat) (fs : List (FieldE GoTypeE)) (pre : List Nat) (i : Nat), wtFs fs ≤ n →
    (∀ x, x ∈ allFields pre i fs → ∃ k t, i ≤ k ∧ x.index = pre ++ k :: t) ∧
    (allFields pre i fs).Pairwise (fun a b => a.index ≠ b.index) := by
  intro n
  induction n with
  | zero =>
    intro fs pre i hw
    cases fs with
    | nil => simp only [allFields]; exact ⟨(fun _ h => nomatch h), List.Pairwise.nil⟩
    | cons g rest => simp only [wtFs] at hw; omega
  | succ n ihn =>
    intro fs pre i hw
    cases fs with
    | nil => simp only [allFields]; exact ⟨(fun _ h => nomatch h), List.Pairwise.nil⟩
    | cons g rest =>
      simp only [wtFs] at hw
      obtain ⟨hrm, hrp⟩ := ihn rest pre (i + 1) (by omega)
      -- the fields below the head
      have hemb : (∀ x, x ∈ (if g.embedded = true then embFields (pre ++ [i]) g.type else []) →
            ∃ k t, x.index = pre ++ i :: k :: t) ∧
          (if g.embedded = true then embFields (pre ++ [i]) g.type else []).Pairwise (fun a b => a.index ≠ b.index) := by
        cases he : g.embedded with
        | false => exact ⟨(fun _ h => nomatch h), List.Pairwise.nil⟩
        | true =>
          simp only [if_true]
          rcases embView g.type with ⟨fs', hfe, _, _, _, hlt⟩ | ⟨hfe, _, _⟩
          · rw [hfe]
            obtain ⟨hm, hp⟩ := ihn fs' (pre ++ [i]) 0 (by omega)
            refine ⟨fun x hx => ?_, hp⟩
            obtain ⟨k, t, _, hk⟩ := hm x hx
            exact ⟨k, t, by rw [hk, List.append_assoc]; rfl⟩
          · rw [hfe]
            exact ⟨(fun _ h => nomatch h), List.Pairwise.nil⟩
      obtain ⟨hem, hep⟩ := hemb
      simp only [allFields]
      refine ⟨fun x hx => ?_, ?_⟩
      · rcases List.mem_cons.1 hx with rfl | hx
        · exact ⟨i, [], Nat.le_refl _, rfl⟩
        · rcases List.mem_append.1 hx with hx | hx
          · obtain ⟨k, t, hk⟩ := hem x hx
            exact ⟨i, k :: t, Nat.le_refl _, hk⟩
          · obtain ⟨k, t, hik, hk⟩ := hrm x hx
            exact ⟨k, t, by omega, hk⟩
      · rw [List.pairwise_cons, List.pairwise_append]
        refine ⟨fun x hx => ?_, hep, hrp, fun x hx y hy => ?_⟩
        · simp only
          rcases List.mem_append.1 hx with hx | hx
          · obtain ⟨k, t, hk⟩ := hem x hx
            rw [hk]
            intro e
            have := List.append_cancel_left e
            cases this
          · obtain ⟨k, t, hik, hk⟩ := hrm x hx
            rw [hk]
            intro e
            have := List.append_cancel_left e
            simp only [List.cons.injEq] at this
            omega
        · obtain ⟨k, t, hk⟩ := hem x hx
          obtain ⟨k', t', hik, hk'⟩ := hrm y hy
          rw [hk, hk']
          intro e
          have := List.append_cancel_left e
          simp only [List.cons.injEq] at this
          omega

/-- **reflect's walker computes the visible fields**: on every struct tree -/
theorem visibleFieldsWalk_eq_visibleFields (fields : List (FieldE GoTypeE)) :
    visibleFieldsWalk fields = visibleFields fields := by
  have h := foldl_walkStep_visible (allFields [] 0 fields) [] []
    ⟨(fun _ h => nomatch h), (fun _ h => nomatch h), List.Pairwise.nil⟩ rfl
    (by rw [List.nil_append]; exact (allFields_index_pairwise _ fields [] 0 (Nat.le_refl _)).2)
  rw [List.nil_append] at h
  exact h

end Go
end JSV
