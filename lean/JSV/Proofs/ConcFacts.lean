/-
  C13 source facts: the hand-written expectation list for `Generated.writes`
  ((function, left-hand side) of every assignment through a parameter, receiver or package variable).

  Why each entry is harmless for concurrent Validate / ApplyDefaults / For calls:
-/
import JSV.Proofs.Conc
import JSV.Generated.Facts
namespace JSV
namespace C13

/-- the expected writes of the package, annotated -/
def allowedWrites : List (String × String) := [
  -- UnmarshalJSON writes its own receiver only (`*s = …`, `s.X = …`): the Schema being built by the
  -- decoder, not yet shared with anybody
  ("(*Schema).UnmarshalJSON", "*s"),
  ("(*Schema).UnmarshalJSON", "s.ItemsArray"),
  ("(*Schema).UnmarshalJSON", "s.Items"),
  ("(*Schema).UnmarshalJSON", "s.DependencyStrings"),
  ("(*Schema).UnmarshalJSON", "s.DependencyStrings[k]"),
  ("(*Schema).UnmarshalJSON", "s.DependencySchemas"),
  ("(*Schema).UnmarshalJSON", "s.DependencySchemas[k]"),
  -- `infos` is the map allocated by Resolve (newResolved) and filled before the Resolved is returned
  ("(*Schema).checkStructure", "infos[s]"),
  -- `a.*`: the annotations value is a local of one validate call (the caller's `anns` / a fresh one)
  ("(*annotations).merge", "a.allItems"),
  ("(*annotations).merge", "a.endIndex"),
  ("(*annotations).merge", "a.evaluatedIndexes"),
  ("(*annotations).merge", "a.allProperties"),
  ("(*annotations).merge", "a.evaluatedProperties"),
  ("(*annotations).noteEndIndex", "a.endIndex"),
  ("(*annotations).noteIndex", "a.evaluatedIndexes"),
  ("(*annotations).noteIndex", "a.evaluatedIndexes[i]"),
  ("(*annotations).noteProperties", "a.evaluatedProperties"),
  ("(*annotations).noteProperty", "a.evaluatedProperties"),
  ("(*annotations).noteProperty", "a.evaluatedProperties[prop]"),
  -- `*ip`: the receiver of (*integer).UnmarshalJSON, a field of the decoder's private shadow struct
  ("(*integer).UnmarshalJSON", "*ip"),
  -- `r.loaded[..]`, `rs.*`: the resolver and the Resolved allocated by this very Resolve call,
  -- written only before Resolve returns
  ("(*resolver).resolve", "r.loaded[baseURI.String()]"),
  ("(*resolver).resolve", "r.loaded[rs.resolvedInfos[s].uri.String()]"),
  ("(*resolver).resolveRef", "rs.resolvedInfos[s]"),
  -- `st.stack`: the `state` struct is created per Validate / ApplyDefaults call: private per-call state
  ("(*state).validate", "st.stack"),
  -- `seen[..]`: the map allocated by For / ForType for one inference call
  ("forType", "seen[t]"),
  ("forType", "seen[_]"),
  ("forType", "seen[name]"),
  -- package initialisation (runs once, before any user goroutine)
  ("init", "initialSchemaMap[reflect.TypeFor[time.Time]()]"),
  ("init", "initialSchemaMap[reflect.TypeFor[slog.Level]()]"),
  ("init", "initialSchemaMap[reflect.TypeFor[big.Int]()]"),
  ("init", "initialSchemaMap[reflect.TypeFor[big.Rat]()]"),
  ("init", "initialSchemaMap[reflect.TypeFor[big.Float]()]"),
  ("init#schema.go", "schemaFieldInfos"),
  ("init#schema.go", "schemaFieldMap[info.jsonName]"),
  -- the two memo cells of the abstract machine: sync.Map, Store of a value that depends on the key only
  ("jsonNames", "jsonNamesMap.Store"),
  -- again the Resolved under construction
  ("resolveURIs", "rs.resolvedURIs[info.uri.String()]"),
  ("resolveURIs", "rs.resolvedInfos[rs.root].uri"),
  ("resolveURIs", "rs.resolvedURIs[baseURI.String()]"),
  ("structPropertiesOf", "structProperties.Store"),
  -- `*errp`: the named error result of the caller (defer wrapf(&err, …)): a local
  ("wrapf", "*errp")]

end C13
end JSV
