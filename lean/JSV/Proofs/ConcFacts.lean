/-
  C13 source facts: the hand-written expectation list for `Generated.writes`
  ((function, left-hand side) of every assignment through a parameter, receiver or package variable).

  Why each entry is harmless for concurrent Validate / ApplyDefaults / For calls:
-/
import JSV.Proofs.Conc
import JSV.Generated.Facts
namespace JSV
namespace C13

/-- the expected writes of the package, annotated -/
def allowedWrites : List (String × String) := [
  -- UnmarshalJSON writes its own receiver only (`*s = …`, `s.X = …`): the Schema being built by the
  -- decoder, not yet shared with anybody
  ("(*Schema).UnmarshalJSON", "*s"),
  ("(*Schema).UnmarshalJSON", "s.ItemsArray"),
  ("(*Schema).UnmarshalJSON", "s.Items"),
  ("(*Schema).UnmarshalJSON", "s.DependencyStrings"),
  ("(*Schema).UnmarshalJSON", "s.DependencyStrings[k]"),
  ("(*Schema).UnmarshalJSON", "s.DependencySchemas"),
  ("(*Schema).UnmarshalJSON", "s.DependencySchemas[k]"),
  -- parameters of two local helper closures (`set(dst **int, src *integer)` and the `const` helper): they are handed the addresses of
  -- fields of the receiver under construction
  ("(*Schema).UnmarshalJSON", "*p"),
  ("(*Schema).UnmarshalJSON", "*dst"),
  -- writes through a local alias (`info := infos[s]`): still the resolvedInfo records of the Resolved under construction
  -- (checkLocal runs inside Resolve). A write of this shape in validate / applyDefaults would be a shared-state write.
  ("(*Schema).checkLocal", "info.pattern (info = infos[s])"),
  ("(*Schema).checkLocal", "info.patternProperties (info = infos[s])"),
  ("(*Schema).checkLocal", "info.patternProperties[re] (info = infos[s])"),
  ("(*Schema).checkLocal", "info.isRequired (info = infos[s])"),
  ("(*Schema).checkLocal", "info.isRequired[r] (info = infos[s])"),
  -- `infos` is the map allocated by Resolve (newResolved) and filled before the Resolved is returned
  ("(*Schema).checkStructure", "infos[s]"),
  -- `a.*`: the annotations value is a local of one validate call (the caller's `anns` / a fresh one)
  ("(*annotations).merge", "a.allItems"),
  ("(*annotations).merge", "a.endIndex"),
  ("(*annotations).merge", "a.evaluatedIndexes"),
  ("(*annotations).merge", "a.allProperties"),
  ("(*annotations).merge", "a.evaluatedProperties"),
  ("(*annotations).noteEndIndex", "a.endIndex"),
  ("(*annotations).noteIndex", "a.evaluatedIndexes"),
  ("(*annotations).noteIndex", "a.evaluatedIndexes[i]"),
  ("(*annotations).noteProperties", "a.evaluatedProperties"),
  ("(*annotations).noteProperty", "a.evaluatedProperties"),
  ("(*annotations).noteProperty", "a.evaluatedProperties[prop]"),
  -- `*ip`: the receiver of (*integer).UnmarshalJSON, a field of the decoder's private shadow struct
  ("(*integer).UnmarshalJSON", "*ip"),
  -- `r.loaded[..]`, `rs.*`: the resolver and the Resolved allocated by this very Resolve call,
  -- written only before Resolve returns
  ("(*resolver).resolve", "r.loaded[baseURI.String()]"),
  ("(*resolver).resolve", "r.loaded[rs.resolvedInfos[s].uri.String()]"),
  ("(*resolver).resolveRef", "rs.resolvedInfos[s]"),
  ("(*resolver).resolveRefs", "info.resolvedRef (info = rs.resolvedInfos[s])"),
  ("(*resolver).resolveRefs", "info.dynamicRefAnchor (info = rs.resolvedInfos[s])"),
  ("(*resolver).resolveRefs", "info.dynamicRefFallback (info = rs.resolvedInfos[s])"),
  ("(*resolver).resolveRefs", "info.resolvedDynamicRef (info = rs.resolvedInfos[s])"),
  -- `st.stack`: the `state` struct is created per Validate / ApplyDefaults call: private per-call state
  ("(*state).validate", "st.stack"),
  -- `anns` is also the name of a parameter of the local closure `valid`; the writes are to the call's own local record
  ("(*state).validate", "anns.allItems"),
  ("(*state).validate", "anns.allProperties"),
  -- `seen[..]`: the map allocated by For / ForType for one inference call
  ("forType", "seen[t]"),
  ("forType", "seen[_]"),
  -- `s := schemas[t]` is only read (cloned and returned); afterwards the same identifier is re-bound to `new(Schema)`, the fresh
  -- result, and these are the writes into that fresh object (the alias analysis is flow-insensitive and lists them)
  ("forType", "s.Type (s = schemas[t])"),
  ("forType", "s.Minimum (s = schemas[t])"),
  ("forType", "s.Maximum (s = schemas[t])"),
  ("forType", "s.AdditionalProperties (s = schemas[t])"),
  ("forType", "s.Types (s = schemas[t])"),
  ("forType", "s.Items (s = schemas[t])"),
  ("forType", "s.MinItems (s = schemas[t])"),
  ("forType", "s.MaxItems (s = schemas[t])"),
  ("forType", "s.Properties (s = schemas[t])"),
  ("forType", "s.Properties[name] (s = schemas[t])"),
  ("forType", "s.PropertyOrder (s = schemas[t])"),
  ("forType", "s.Properties[info.name] (s = schemas[t])"),
  ("forType", "s.Required (s = schemas[t])"),
  ("forType", "seen[name]"),
  -- package initialisation (runs once, before any user goroutine)
  ("init", "initialSchemaMap[reflect.TypeFor[time.Time]()]"),
  ("init", "initialSchemaMap[reflect.TypeFor[slog.Level]()]"),
  ("init", "initialSchemaMap[reflect.TypeFor[big.Int]()]"),
  ("init", "initialSchemaMap[reflect.TypeFor[big.Rat]()]"),
  ("init", "initialSchemaMap[reflect.TypeFor[big.Float]()]"),
  ("init#schema.go", "schemaFieldInfos"),
  ("init#schema.go", "schemaFieldMap[info.jsonName]"),
  -- the two memo cells of the abstract machine: sync.Map, Store of a value that depends on the key only
  ("jsonNames", "jsonNamesMap.Store"),
  -- again the Resolved under construction
  -- (`baseInfo` is a parameter of the local closure `setAnchor`; the closure parameters `s`, `base` of the tree walker are
  -- schema objects of the CALLER: no write goes through them)
  ("resolveURIs", "baseInfo.anchors"),
  ("resolveURIs", "baseInfo.anchors[anchor]"),
  ("resolveURIs", "info.uri (info = rs.resolvedInfos[s])"),
  ("resolveURIs", "rs.resolvedURIs[info.uri.String()]"),
  ("resolveURIs", "info.base (info = rs.resolvedInfos[s])"),
  ("resolveURIs", "rs.resolvedInfos[rs.root].uri"),
  ("resolveURIs", "rs.resolvedURIs[baseURI.String()]"),
  ("structPropertiesOf", "structProperties.Store"),
  -- `*errp`: the named error result of the caller (defer wrapf(&err, …)): a local
  ("wrapf", "*errp")]

/-- the package-level variables of the package, by name: process-wide state is what concurrent callers share -/
def expectedPkgVars : List String := ["initialSchemaMap", "disallowedPrefixRegexp", "jsonPointerEscaper", "jsonPointerUnescaper",
  "schemaType", "schemaSliceType", "schemaMapType", "schemaFieldInfos", "schemaFieldMap", "jsonNumberType", "jsonNamesMap",
  "structProperties"]

end C13
end JSV
