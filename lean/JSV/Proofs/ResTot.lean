/-
  Helper lemmas for C10 (first part; continued in ResBase.lean, ResNoPanic.lean, ResNoFuel.lean):
  `Schema.Resolve` never panics.

  Every `.panic` outcome of the model of resolve.go (JSV/Model/Resolve.lean) is a nil map entry / nil pointer of
  the Go code.  The invariant that rules them out is threaded through resolveDoc / resolveRefsLoop / resolveRef
  by open recursion on the loader callback (as in ResInv.lean):

    * `DocInv`    every Resolved knows the schemas checkStructure registers for its root, each of them has an
                  info record, and the `resolvedURIs` of the Resolved point to such schemas;
    * `LoadedInv` every cached URI belongs to a Resolved that exists;
    * `BaseInv`   every schema of `root.all()` of every Resolved has a base, the base is a schema of the same
                  document, and the base has a URI.

  `BaseInv` needs the assumption the model states in its header ("fresh nodes per loader document"): the documents
  (the root and the documents of the loader table) with different roots share no schema object (`Sep`).  The model
  keeps ONE info record per schema object; when two documents share a schema, the `base` recorded for it by one
  document is overwritten by the other, and `resolveRef` can then look up a base its own Resolved does not know: a
  reachable `.panic` of the model (JSV/Props/C10.lean, `resolve_panic_reachable`).
-/
import JSV.Proofs.ResKnown
import JSV.Proofs.Tot
namespace JSV
namespace Go
namespace RTot
open RInv
open Uri

/-! ### "no panic, and `Q` on normal return" -/

def Tot {α : Type} (r : Res α) (Q : α → Prop) : Prop := r ≠ .panic ∧ ∀ a, r = .ok a → Q a

theorem Tot.ok {α} {Q : α → Prop} {a : α} (h : Q a) : Tot (.ok a) Q :=
  ⟨by simp, fun b hb => by simp only [Res.ok.injEq] at hb; subst hb; exact h⟩
theorem Tot.err {α} {Q : α → Prop} : Tot (.err : Res α) Q := ⟨by simp, fun _ h => by simp at h⟩
theorem Tot.fuel {α} {Q : α → Prop} : Tot (.fuel : Res α) Q := ⟨by simp, fun _ h => by simp at h⟩

theorem Tot.bind {α β} {x : Res α} {f : α → Res β} {P : α → Prop} {Q : β → Prop}
    (hx : Tot x P) (hf : ∀ a, x = .ok a → P a → Tot (f a) Q) : Tot (Res.bind x f) Q := by
  cases x with
  | ok a => simp only [Res.bind_ok]; exact hf a rfl (hx.2 a rfl)
  | err => simp only [Res.bind_err]; exact Tot.err
  | fuel => simp only [Res.bind_fuel]; exact Tot.fuel
  | panic => exact absurd rfl hx.1

theorem Tot.mono {α} {r : Res α} {P Q : α → Prop} (h : Tot r P) (hpq : ∀ a, P a → Q a) : Tot r Q :=
  ⟨h.1, fun a ha => hpq a (h.2 a ha)⟩

theorem Tot.of_ne_panic {α} {r : Res α} (h : r ≠ .panic) : Tot r (fun _ => True) := ⟨h, fun _ _ => trivial⟩

/-! ### url.Parse returns a URL or an error -/

theorem getSchemeAux_NoPF : ∀ (s : Cs) (i : Nat) (acc : Cs), C10.NoPF (getSchemeAux i acc s)
  | [], i, acc => by rw [getSchemeAux]; exact C10.NoPF_ok _
  | c :: rest, i, acc => by
    rw [getSchemeAux]
    split
    · exact getSchemeAux_NoPF rest _ _
    · split
      · split
        · exact C10.NoPF_ok _
        · exact getSchemeAux_NoPF rest _ _
      · split
        · split
          · exact C10.NoPF_err
          · exact C10.NoPF_ok _
        · exact C10.NoPF_ok _

theorem getScheme_NoPF (s : Cs) : C10.NoPF (getScheme s) := by
  unfold getScheme
  split
  · exact C10.NoPF_ok _
  · exact getSchemeAux_NoPF s 0 []

theorem parseNoFrag_NoPF (raw : Cs) : C10.NoPF (parseNoFrag raw) := by
  unfold parseNoFrag
  split
  · exact C10.NoPF_err
  split
  · exact C10.NoPF_ok _
  refine C10.NoPF_bind (getScheme_NoPF raw) fun p _ => ?_
  simp only []
  repeat' split
  all_goals first | exact C10.NoPF_ok _ | exact C10.NoPF_err

theorem parse_NoPF (raw : String) : C10.NoPF (Uri.parse raw) := by
  unfold Uri.parse
  simp only []
  refine C10.NoPF_bind (parseNoFrag_NoPF _) fun u _ => ?_
  repeat' split
  all_goals first | exact C10.NoPF_ok _ | exact C10.NoPF_err

/-! ### table lookups along state updates -/

/-- the info record of `b` carries a URI -/
def HasUri (infos : List (NodeId × Info)) (b : NodeId) : Prop :=
  ∃ bi, lookupNat b infos = some bi ∧ bi.uri.isSome = true

/-- records stay, URIs stay, and a `base` changes only for a schema of `V`, to a schema of `V` that has a URI -/
def InfoLe (V : List NodeId) (a b : List (NodeId × Info)) : Prop :=
  ∀ x i, lookupNat x a = some i → ∃ i', lookupNat x b = some i' ∧
    (i.uri.isSome = true → i'.uri.isSome = true) ∧
    (i'.base = i.base ∨ (x ∈ V ∧ ∃ b', i'.base = some b' ∧ b' ∈ V ∧ HasUri b b'))

theorem HasUri.mono {V a b x} (h : InfoLe V a b) (hu : HasUri a x) : HasUri b x := by
  obtain ⟨bi, hl, hu⟩ := hu
  obtain ⟨i', hl', hu', _⟩ := h x bi hl
  exact ⟨i', hl', hu' hu⟩

theorem InfoLe.refl (V a) : InfoLe V a a := fun _ i hi => ⟨i, hi, fun h => h, Or.inl rfl⟩

theorem InfoLe.trans {V a b c} (h1 : InfoLe V a b) (h2 : InfoLe V b c) : InfoLe V a c := by
  intro x i hi
  obtain ⟨i1, hl1, hu1, hb1⟩ := h1 x i hi
  obtain ⟨i2, hl2, hu2, hb2⟩ := h2 x i1 hl1
  refine ⟨i2, hl2, fun h => hu2 (hu1 h), ?_⟩
  rcases hb2 with e2 | e2
  · rcases hb1 with e1 | ⟨hx, b', hb', hV, hU⟩
    · exact Or.inl (e2.trans e1)
    · exact Or.inr ⟨hx, b', by rw [e2, hb'], hV, HasUri.mono h2 hU⟩
  · exact Or.inr e2

theorem InfoLe.weaken {V V' a b} (h : InfoLe V a b) (hV : ∀ x ∈ V, x ∈ V') : InfoLe V' a b := by
  intro x i hi
  obtain ⟨i1, hl1, hu1, hb1⟩ := h x i hi
  refine ⟨i1, hl1, hu1, ?_⟩
  rcases hb1 with e | ⟨hx, b', hb', hb'V, hU⟩
  · exact Or.inl e
  · exact Or.inr ⟨hV x hx, b', hb', hV b' hb'V, hU⟩

theorem InfoLe.of_nil {V a b} (h : InfoLe [] a b) : InfoLe V a b :=
  h.weaken (fun _ hx => absurd hx (by simp))

theorem InfoLe.isSome {V a b} (h : InfoLe V a b) (x : NodeId) (hx : (lookupNat x a).isSome = true) :
    (lookupNat x b).isSome = true := by
  cases hl : lookupNat x a with
  | none => rw [hl] at hx; cases hx
  | some i =>
    obtain ⟨i', hl', _⟩ := h x i hl
    rw [hl']; rfl

theorem InfoLe.of_eq {V a b} (h : b = a) : InfoLe V a b := by subst h; exact InfoLe.refl _ _

theorem infoLe_append (V) (a b : List (NodeId × Info)) : InfoLe V a (a ++ b) := by
  intro x i hi
  refine ⟨i, ?_, fun h => h, Or.inl rfl⟩
  rw [lookupNat_append_of_isSome _ _ _ (by rw [hi]; rfl)]; exact hi

/-- an update that keeps `base` and does not drop a URI -/
theorem infoLe_updInfo (V) (s : RState) (id : NodeId) (f : Info → Info)
    (hb : ∀ i, (f i).base = i.base) (hu : ∀ i, i.uri.isSome = true → (f i).uri.isSome = true) :
    InfoLe V s.infos (s.updInfo id f).infos := by
  intro x i hi
  rw [updInfo_infos_lookup]
  split
  · rw [hi]; exact ⟨f i, rfl, hu i, Or.inl (hb i)⟩
  · exact ⟨i, hi, fun h => h, Or.inl rfl⟩

theorem hasUri_updInfo (s : RState) (id : NodeId) (f : Info → Info)
    (hu : ∀ i, i.uri.isSome = true → (f i).uri.isSome = true) (b : NodeId) (h : HasUri s.infos b) :
    HasUri (s.updInfo id f).infos b := by
  obtain ⟨bi, hl, hbu⟩ := h
  unfold HasUri
  rw [updInfo_infos_lookup]
  split
  · rw [hl]; exact ⟨f bi, rfl, hu bi hbu⟩
  · exact ⟨bi, hl, hbu⟩

/-- the update `info.base = base` of resolveURIs -/
theorem infoLe_setBase (V) (s : RState) (id b' : NodeId) (hid : id ∈ V) (hb' : b' ∈ V) (hU : HasUri s.infos b') :
    InfoLe V s.infos (s.updInfo id fun i => { i with base := some b' }).infos := by
  intro x i hi
  rw [updInfo_infos_lookup]
  split
  · rename_i h; subst h
    rw [hi]
    exact ⟨_, rfl, fun h => h, Or.inr ⟨hid, b', rfl, hb', hasUri_updInfo s id (fun i => { i with base := some b' }) (fun _ h => h) b' hU⟩⟩
  · exact ⟨i, hi, fun h => h, Or.inl rfl⟩

theorem infoLe_setAnchor (V) (s : RState) (b t : NodeId) (a : String) (d : Bool) :
    InfoLe V s.infos (setAnchor s b t a d).infos := by
  unfold setAnchor
  split
  · exact InfoLe.refl _ _
  · apply infoLe_updInfo
    · intro i; split <;> rfl
    · intro i h; split <;> exact h

theorem setAnchor_docs (s : RState) (b t : NodeId) (a : String) (d : Bool) : (setAnchor s b t a d).docs = s.docs := by
  unfold setAnchor
  split
  · rfl
  · exact updInfo_docs _ _ _

theorem doc?_of_docs_eq {s s' : RState} (h : s'.docs = s.docs) (r : NodeId) : s'.doc? r = s.doc? r := by
  unfold RState.doc?; rw [h]

/-! ### the schemas of a document -/

/-- what checkStructure registers for the document rooted at `r` (nothing when it reports an error) -/
def docNodes (env : Env) (r : NodeId) : List NodeId :=
  match checkStructure env.st (env.st.size + 2) [(r, "")] [] with
  | .ok fresh => ids fresh
  | _ => []

/-- `r.all()` -/
def docAll (env : Env) (r : NodeId) : List NodeId := allNodes env.st (env.st.size + 2) [r]

theorem docNodes_eq (env : Env) (r : NodeId) (fresh : List (NodeId × Info))
    (h : checkStructure env.st (env.st.size + 2) [(r, "")] [] = .ok fresh) : docNodes env r = ids fresh := by
  unfold docNodes; rw [h]

theorem docNodes_ok (env : Env) (r x : NodeId) (h : x ∈ docNodes env r) :
    ∃ fresh, checkStructure env.st (env.st.size + 2) [(r, "")] [] = .ok fresh ∧ docNodes env r = ids fresh := by
  cases hc : checkStructure env.st (env.st.size + 2) [(r, "")] [] with
  | ok fresh => exact ⟨fresh, rfl, docNodes_eq env r fresh hc⟩
  | err => unfold docNodes at h; rw [hc] at h; cases h
  | panic => unfold docNodes at h; rw [hc] at h; cases h
  | fuel => unfold docNodes at h; rw [hc] at h; cases h

theorem docNodes_store (env : Env) (r x : NodeId) (h : x ∈ docNodes env r) : (env.st.get? x).isSome = true := by
  obtain ⟨fresh, hc, he⟩ := docNodes_ok env r x h
  rw [he] at h
  exact (C10.checkStructure_accOK env.st _ _ [] fresh hc ⟨List.nodup_nil, fun _ h => nomatch h⟩).2 x h

theorem docNodes_nodup (env : Env) (r : NodeId) : (docNodes env r).Nodup := by
  cases hc : checkStructure env.st (env.st.size + 2) [(r, "")] [] with
  | ok fresh =>
    rw [docNodes_eq env r fresh hc]
    exact (C10.checkStructure_accOK env.st _ _ [] fresh hc ⟨List.nodup_nil, fun _ h => nomatch h⟩).1
  | err => unfold docNodes; rw [hc]; exact List.nodup_nil
  | panic => unfold docNodes; rw [hc]; exact List.nodup_nil
  | fuel => unfold docNodes; rw [hc]; exact List.nodup_nil

theorem docNodes_closed (env : Env) (r id : NodeId) (h : id ∈ docNodes env r) (n : Node)
    (hn : env.st.get? id = some n) (c : NodeId) (hc : c ∈ n.children) : c ∈ docNodes env r := by
  obtain ⟨fresh, hcs, he⟩ := docNodes_ok env r id h
  rw [he] at h ⊢
  exact checkStructure_closed env.st _ _ _ _ hcs (fun _ hid => absurd hid (by simp [ids])) id h n hn c hc

theorem docNodes_root (env : Env) (r : NodeId) (fresh : List (NodeId × Info))
    (h : checkStructure env.st (env.st.size + 2) [(r, "")] [] = .ok fresh) : r ∈ docNodes env r := by
  rw [docNodes_eq env r fresh h]; exact checkStructure_root_mem env.st _ r fresh h

theorem docAll_sub (env : Env) (r : NodeId) (h : r ∈ docNodes env r) : ∀ x ∈ docAll env r, x ∈ docNodes env r := by
  obtain ⟨fresh, hcs, he⟩ := docNodes_ok env r r h
  rw [he]
  exact allNodes_sub_checkStructure env.st _ _ r fresh hcs

theorem allNodes_store (st : Store) : ∀ fuel work, ∀ x ∈ allNodes st fuel work, (st.get? x).isSome = true := by
  intro fuel
  induction fuel with
  | zero => intro work x h; simp [allNodes] at h
  | succ fuel ih =>
    intro work x h
    cases work with
    | nil => simp [allNodes] at h
    | cons w work =>
      rw [allNodes] at h
      split at h
      · rename_i n hn
        rcases List.mem_cons.mp h with h | h
        · subst h; rw [hn]; rfl
        · exact ih _ x h
      · exact ih _ x h

end RTot
end Go
end JSV
